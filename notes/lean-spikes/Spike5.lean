import Spike3
open S3

namespace S5

def Good (o : Out) : Prop := ∀ m, o.res ≠ .error (.invalid m)

/-- prune-stable: replaying the kept words (followed by anything) gives the same result,
    consumes exactly them, and nothing is left to prune -/
def PS (p : Prog) : Prop := ∀ ws xs, Good (run p ws) →
  run p ((run p ws).kept ++ xs) =
    { res := (run p ws).res, rest := xs, used := (run p ws).kept, kept := (run p ws).kept }

structure Cfg where
  minC : Nat
  maxC : Nat
  thr  : UInt64          -- continue iff masked 53-bit word ≥ thr
  thr_pos : 0 < thr
  elem : Prog
  rej  : Val → Val → Bool   -- reject decision from accumulator and element (pure)
  snoc : Val → Val → Val

structure St where
  count : Nat
  rejs  : Nat
  force : Bool

-- iteration result markers
def mStop : Val := .bool false
def mRej  : Val := .bool true
def mAcc (v : Val) : Val := .cons .nil v

/-- coin of `repeat.more` (post-fix: a forced stop draws zero bits) -/
def coin (c : Cfg) (s : St) (k : Bool → Prog) : Prog :=
  if s.count < c.minC then .draw 53 (fun _ => k true)
  else if s.force then .draw 0 (fun _ => k false)
  else if s.count ≥ c.maxC then .draw 53 (fun _ => k false)
  else .draw 53 (fun w => k (decide (w ≥ c.thr)))

def iter (c : Cfg) (s : St) (acc : Val) : Prog :=
  coin c s (fun cont =>
    if cont then
      .group c.elem (fun _ => false) (fun v => if c.rej acc v then .ret mRej else .ret (mAcc v))
    else .ret mStop)

/-- continuation of the loop after an iteration (`rec` = the loop with one less fuel) -/
def after (c : Cfg) (rec : St → Val → Prog) (s : St) (acc : Val) (r : Val) : Prog :=
  match r with
  | .bool false => .ret acc
  | .cons .nil v => rec { s with count := s.count + 1 } (c.snoc acc v)
  | _ =>
    let rejs := s.rejs + 1
    if rejs > s.count * 2 then
      if s.count ≥ c.minC then rec { s with rejs := rejs, force := true } acc
      else .throw (.invalid "too many rejections in repeat")
    else rec { s with rejs := rejs } acc

def loop (c : Cfg) : Nat → St → Val → Prog
  | 0, _, _ => .throw (.invalid "fuel")
  | n+1, s, acc => .group (iter c s acc) (fun r => r == mRej) (after c (loop c n) s acc)

end S5
