namespace S3

inductive Val | int (i : Int) | nil | cons (h t : Val) | bool (b : Bool)
deriving DecidableEq, Repr

inductive Err | invalid (msg : String) | stop (msg : String) (site : Nat)
deriving DecidableEq, Repr

/-- scoped groups: body returns (value, discard?) -/
inductive Prog where
  | ret (v : Val)
  | draw (n : Nat) (k : UInt64 → Prog)
  | throw (e : Err)
  | group (body : Prog) (discard : Val → Bool) (k : Val → Prog)

def mask (n : Nat) (w : UInt64) : UInt64 := if n ≥ 64 then w else w &&& ((1 <<< n.toUInt64) - 1)

structure Out where
  res : Except Err Val
  rest : List UInt64
  used : List UInt64     -- recorded words
  kept : List UInt64     -- recorded words minus finished discarded groups (= prune)

def run : Prog → List UInt64 → Out
  | .ret v, ws => ⟨.ok v, ws, [], []⟩
  | .throw e, ws => ⟨.error e, ws, [], []⟩
  | .draw _ _, [] => ⟨.error (.invalid "overrun"), [], [], []⟩
  | .draw n k, w :: ws =>
      let o := run (k (mask n w)) ws
      { o with used := mask n w :: o.used, kept := mask n w :: o.kept }
  | .group b d k, ws =>
      let o := run b ws
      match o.res with
      | .error e => ⟨.error e, o.rest, o.used, o.kept⟩      -- unfinished group: kept as is
      | .ok v =>
        let o2 := run (k v) o.rest
        { o2 with used := o.used ++ o2.used, kept := (if d v then [] else o.kept) ++ o2.kept }

theorem mask_idem (n : Nat) (w : UInt64) : mask n (mask n w) = mask n w := by
  unfold mask; split
  · rfl
  · simp [UInt64.and_assoc]

def NoOverrun (o : Out) : Prop := o.res ≠ .error (.invalid "overrun") ∨ o.rest ≠ []

/-- running on exactly the used words followed by anything -/
theorem run_used_append (p : Prog) : ∀ ws xs,
    (run p ws).res ≠ .error (.invalid "overrun") →
    run p ((run p ws).used ++ xs) = { run p ws with rest := xs } := by
  induction p with
  | ret v => intro ws xs _; simp [run]
  | throw e => intro ws xs _; simp [run]
  | draw n k ih =>
    intro ws xs h
    cases ws with
    | nil => simp [run] at h
    | cons w ws =>
      simp only [run] at h ⊢
      simp only [List.cons_append, run, mask_idem]
      rw [ih (mask n w) ws xs h]
  | group b d k ihb ihk =>
    intro ws xs h
    simp only [run] at h ⊢
    cases hb : (run b ws).res with
    | error e =>
      simp only [hb] at h ⊢
      have hne : (run b ws).res ≠ .error (.invalid "overrun") := by rw [hb]; exact h
      rw [ihb ws xs hne]; simp [hb]
    | ok v =>
      simp only [hb] at h ⊢
      have hne : (run b ws).res ≠ .error (.invalid "overrun") := by rw [hb]; simp
      rw [List.append_assoc, ihb ws _ hne]
      simp only [hb]
      rw [ihk v _ xs h]

end S3
