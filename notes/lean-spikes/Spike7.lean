namespace S7

inductive Mode | R | W deriving DecidableEq
inductive Ev | acq (m : Mode) | rel (m : Mode) | read (f : Nat) | write (f : Nat) deriving DecidableEq

/-- well-locked from a given held mode: guarded reads under R or W, writes under W, balanced -/
def WLF : Option Mode → List Ev → Bool
  | h, [] => h.isNone
  | none, .acq m :: es => WLF (some m) es
  | some _, .acq _ :: _ => false
  | some m, .rel m' :: es => m == m' && WLF none es
  | none, .rel _ :: _ => false
  | some m, .read _ :: es => WLF (some m) es
  | none, .read _ :: _ => false
  | some .W, .write _ :: es => WLF (some .W) es
  | _, .write _ :: _ => false

structure Cfg where
  rest : Nat → List Ev          -- remaining trace of each thread
  held : Nat → Option Mode      -- what each thread holds of the one RWMutex

def upd {α} (f : Nat → α) (i : Nat) (a : α) : Nat → α := fun j => if j = i then a else f j

/-- thread `i` takes its next step, if the RWMutex allows it -/
inductive Step : Cfg → Cfg → Prop
  | acqW (c i es) : c.rest i = .acq .W :: es → (∀ j, c.held j = none) →
      Step c ⟨upd c.rest i es, upd c.held i (some .W)⟩
  | acqR (c i es) : c.rest i = .acq .R :: es → (∀ j, c.held j ≠ some .W) → c.held i = none →
      Step c ⟨upd c.rest i es, upd c.held i (some .R)⟩
  | rel (c i m es) : c.rest i = .rel m :: es → c.held i = some m →
      Step c ⟨upd c.rest i es, upd c.held i none⟩
  | read (c i f es) : c.rest i = .read f :: es → Step c ⟨upd c.rest i es, c.held⟩
  | write (c i f es) : c.rest i = .write f :: es → Step c ⟨upd c.rest i es, c.held⟩

def Inv (c : Cfg) : Prop :=
  (∀ i, WLF (c.held i) (c.rest i) = true) ∧ (∀ i j, i ≠ j → c.held i = some .W → c.held j = none)

def isAccess (f : Nat) (w : Bool) : List Ev → Prop
  | .read g :: _ => g = f ∧ w = false
  | .write g :: _ => g = f ∧ w = true
  | _ => False

/-- two different threads are about to touch the same field, at least one writing -/
def Race (c : Cfg) : Prop :=
  ∃ i j f wi wj, i ≠ j ∧ isAccess f wi (c.rest i) ∧ isAccess f wj (c.rest j) ∧ (wi = true ∨ wj = true)

theorem inv_step {c c' : Cfg} (h : Inv c) (s : Step c c') : Inv c' := by
  obtain ⟨hw, hx⟩ := h
  cases s with
  | acqW i es hr hn =>
    refine ⟨fun k => ?_, fun k j hkj hk => ?_⟩
    · by_cases hk : k = i
      · subst hk; have := hw k; rw [hr, hn k] at this; simpa [upd, WLF] using this
      · simpa [upd, hk] using hw k
    · by_cases hki : k = i
      · subst hki; have : j ≠ k := fun e => hkj e.symm
        simp [upd, this, hn j]
      · simp [upd, hki, hn k] at hk
  | acqR i es hr hn hi =>
    refine ⟨fun k => ?_, fun k j hkj hk => ?_⟩
    · by_cases hk : k = i
      · subst hk; have := hw k; rw [hr, hi] at this; simpa [upd, WLF] using this
      · simpa [upd, hk] using hw k
    · by_cases hki : k = i
      · subst hki; simp [upd] at hk
      · simp [upd, hki] at hk; exact absurd hk (hn k)
  | rel i m es hr hi =>
    refine ⟨fun k => ?_, fun k j hkj hk => ?_⟩
    · by_cases hk : k = i
      · subst hk; have := hw k; rw [hr, hi] at this
        simp [WLF] at this; simpa [upd] using this
      · simpa [upd, hk] using hw k
    · by_cases hki : k = i
      · subst hki; simp [upd] at hk
      · simp [upd, hki] at hk
        by_cases hji : j = i
        · simp [upd, hji]
        · simpa [upd, hji] using hx k j hkj hk
  | read i f es hr =>
    refine ⟨fun k => ?_, hx⟩
    by_cases hk : k = i
    · subst hk; have := hw k; rw [hr] at this
      cases hh : c.held k with
      | none => simp [hh, WLF] at this
      | some m => simpa [upd, hh, WLF] using this
    · simpa [upd, hk] using hw k
  | write i f es hr =>
    refine ⟨fun k => ?_, hx⟩
    by_cases hk : k = i
    · subst hk; have := hw k; rw [hr] at this
      cases hh : c.held k with
      | none => simp [hh, WLF] at this
      | some m => cases m <;> simp [hh, WLF] at this; simpa [upd, hh, WLF] using this
    · simpa [upd, hk] using hw k

theorem held_of_access {h : Option Mode} {es : List Ev} {f : Nat} {w : Bool}
    (hwl : WLF h es = true) (ha : isAccess f w es) : h ≠ none ∧ (w = true → h = some .W) := by
  cases es with
  | nil => simp [isAccess] at ha
  | cons e es =>
    cases e with
    | acq m => simp [isAccess] at ha
    | rel m => simp [isAccess] at ha
    | read g =>
      cases h with
      | none => simp [WLF] at hwl
      | some m => simp [isAccess] at ha; simp [ha.2]
    | write g =>
      cases h with
      | none => simp [WLF] at hwl
      | some m => cases m <;> simp [WLF] at hwl; simp

theorem no_race {c : Cfg} (h : Inv c) : ¬ Race c := by
  rintro ⟨i, j, f, wi, wj, hij, hai, haj, hw⟩
  obtain ⟨hwl, hx⟩ := h
  have hi := held_of_access (hwl i) hai
  have hj := held_of_access (hwl j) haj
  rcases hw with hw | hw
  · exact hj.1 (hx i j hij (hi.2 hw))
  · exact hi.1 (hx j i (fun e => hij e.symm) (hj.2 hw))

/-- every configuration reachable from well-locked threads holding nothing is race free -/
inductive Reach (c₀ : Cfg) : Cfg → Prop
  | refl : Reach c₀ c₀
  | step {c c'} : Reach c₀ c → Step c c' → Reach c₀ c'

theorem lockset_sound (c₀ : Cfg) (h0 : ∀ i, c₀.held i = none) (hwl : ∀ i, WLF none (c₀.rest i) = true)
    {c : Cfg} (hr : Reach c₀ c) : ¬ Race c := by
  have : Inv c := by
    induction hr with
    | refl => exact ⟨fun i => by rw [h0 i]; exact hwl i, fun i j _ hi => by rw [h0 i] at hi; cases hi⟩
    | step _ s ih => exact inv_step ih s
  exact no_race this

#print axioms lockset_sound
end S7
