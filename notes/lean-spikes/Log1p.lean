def Sqrt2M1 : Float := 4.142135623730950488017e-01
def Sqrt2HalfM1 : Float := -2.928932188134524755992e-01
def Small : Float := Float.ofBits 0x3e20000000000000
def Tiny : Float := Float.ofBits 0x3c90000000000000
def Two53 : Float := 9007199254740992.0
def Ln2Hi : Float := Float.ofBits 0x3fe62e42fee00000
def Ln2Lo : Float := Float.ofBits 0x3dea39ef35793c76
def Lp1 : Float := Float.ofBits 0x3FE5555555555593
def Lp2 : Float := Float.ofBits 0x3FD999999997FA04
def Lp3 : Float := Float.ofBits 0x3FD2492494229359
def Lp4 : Float := Float.ofBits 0x3FCC71C51D8E78AF
def Lp5 : Float := Float.ofBits 0x3FC7466496CB03DE
def Lp6 : Float := Float.ofBits 0x3FC39A09D078C69F
def Lp7 : Float := Float.ofBits 0x3FC2F112DF3E5244

def log1p (x : Float) : Float := Id.run do
  if x < -1.0 || x.isNaN then return (0.0/0.0)
  if x == -1.0 then return (-1.0/0.0)
  if x.isInf then return x
  let absx := x.abs
  let mut f : Float := 0.0
  let mut iu : UInt64 := 0
  let mut k : Int := 1
  if absx < Sqrt2M1 then
    if absx < Small then
      if absx < Tiny then return x
      return x - x*x*0.5
    if x > Sqrt2HalfM1 then
      k := 0; f := x; iu := 1
  let mut c : Float := 0.0
  if k != 0 then
    let mut u : Float := 0.0
    if absx < Two53 then
      u := 1.0 + x
      iu := u.toBits
      k := (Int.ofNat (iu >>> 52).toNat) - 1023
      if k > 0 then c := 1.0 - (u - x) else c := x - (u - 1.0)
      c := c / u
    else
      u := x
      iu := u.toBits
      k := (Int.ofNat (iu >>> 52).toNat) - 1023
      c := 0.0
    iu := iu &&& 0x000fffffffffffff
    if iu < 0x0006a09e667f3bcd then
      u := Float.ofBits (iu ||| 0x3ff0000000000000)
    else
      k := k + 1
      u := Float.ofBits (iu ||| 0x3fe0000000000000)
      iu := (0x0010000000000000 - iu) >>> 2
    f := u - 1.0
  let hfsq := 0.5 * f * f
  let kf : Float := Float.ofInt k
  if iu == 0 then
    if f == 0.0 then
      if k == 0 then return 0.0
      c := c + kf * Ln2Lo
      return kf * Ln2Hi + c
    let R := hfsq * (1.0 - 0.66666666666666666*f)
    if k == 0 then return f - R
    return kf*Ln2Hi - ((R - (kf*Ln2Lo + c)) - f)
  let s := f / (2.0 + f)
  let z := s * s
  let R := z * (Lp1 + z*(Lp2+z*(Lp3+z*(Lp4+z*(Lp5+z*(Lp6+z*Lp7))))))
  if k == 0 then return f - (hfsq - s*(hfsq+R))
  return kf*Ln2Hi - ((hfsq - (s*(hfsq+R) + (kf*Ln2Lo + c))) - f)

def hex (u : UInt64) : String := String.mk (Nat.toDigits 16 u.toNat)

partial def loop (h : IO.FS.Stream) : IO Unit := do
  let line ← h.getLine
  if line.isEmpty then return ()
  match line.trim.toNat? with
  | some n => IO.println (log1p (Float.ofBits (UInt64.ofNat n))).toBits.toNat
  | none => IO.println "bad"
  loop h

def main : IO Unit := do loop (← IO.getStdin)
