import Spike5
open S3 S5

namespace S6

@[simp] theorem mask0 (w : UInt64) : mask 0 w = 0 := by simp [mask]
@[simp] theorem mask53_0 : mask 53 0 = 0 := by simp [mask]

theorem thr_not_le_zero (c : Cfg) : ¬ (c.thr ≤ (0 : UInt64)) := by
  have := c.thr_pos
  intro h
  have h1 := UInt64.le_iff_toNat_le.mp h
  have h2 := UInt64.lt_iff_toNat_lt.mp this
  simp at h1 h2
  omega

/-- what one iteration body does after the coin said "continue" -/
def body (c : Cfg) (acc : Val) : Prog :=
  .group c.elem (fun _ => false) (fun v => if c.rej acc v then .ret mRej else .ret (mAcc v))

/-- running the body: three outcomes -/
theorem run_body (c : Cfg) (acc : Val) (ws : List UInt64) :
    run (body c acc) ws =
      match (run c.elem ws).res with
      | .error e => ⟨.error e, (run c.elem ws).rest, (run c.elem ws).used, (run c.elem ws).kept⟩
      | .ok v => ⟨.ok (if c.rej acc v then mRej else mAcc v), (run c.elem ws).rest,
                  (run c.elem ws).used, (run c.elem ws).kept⟩ := by
  simp only [body, run]
  cases h : (run c.elem ws).res with
  | error e => simp
  | ok v =>
    simp only []
    by_cases hr : c.rej acc v <;> simp [hr, run]

theorem ps_body (c : Cfg) (he : PS c.elem) (acc : Val) : PS (body c acc) := by
  intro ws xs hg
  rw [run_body] at hg ⊢
  rw [run_body]
  cases h : (run c.elem ws).res with
  | error e =>
    simp only [h] at hg ⊢
    have hge : Good (run c.elem ws) := by intro m; rw [h]; exact hg m
    rw [he ws xs hge]; simp [h]
  | ok v =>
    simp only [h] at hg ⊢
    have hge : Good (run c.elem ws) := by intro m; rw [h]; simp
    rw [he ws xs hge]; simp [h]


/-- one-step unfolding of `run` on a group, as an equation by cases -/
theorem run_group_ok {b : Prog} {d : Val → Bool} {k : Val → Prog} {ws : List UInt64} {v : Val}
    (h : (run b ws).res = .ok v) :
    run (.group b d k) ws =
      { run (k v) (run b ws).rest with
        used := (run b ws).used ++ (run (k v) (run b ws).rest).used,
        kept := (if d v then [] else (run b ws).kept) ++ (run (k v) (run b ws).rest).kept } := by
  simp [run, h]

theorem run_group_err {b : Prog} {d : Val → Bool} {k : Val → Prog} {ws : List UInt64} {e : Err}
    (h : (run b ws).res = .error e) :
    run (.group b d k) ws = ⟨.error e, (run b ws).rest, (run b ws).used, (run b ws).kept⟩ := by
  simp [run, h]


theorem iter_eq (c : Cfg) (s : St) (acc : Val) :
    iter c s acc = coin c s (fun cont => if cont then body c acc else .ret mStop) := rfl

/-- results of an iteration -/
theorem iter_res (c : Cfg) (s : St) (acc : Val) (ws : List UInt64) (r : Val)
    (h : (run (iter c s acc) ws).res = .ok r) : r = mStop ∨ r = mRej ∨ ∃ v, r = mAcc v := by
  rw [iter_eq] at h
  unfold coin at h
  have hb : ∀ ws', (run (body c acc) ws').res = .ok r → r = mStop ∨ r = mRej ∨ ∃ v, r = mAcc v := by
    intro ws' h'
    rw [run_body] at h'
    cases he : (run c.elem ws').res with
    | error e => simp [he] at h'
    | ok v =>
      simp only [he] at h'
      by_cases hr : c.rej acc v
      · simp [hr] at h'; right; left; exact h'.symm
      · simp [hr] at h'; right; right; exact ⟨v, h'.symm⟩
  cases ws with
  | nil => split at h <;> (try split at h) <;> (try split at h) <;> simp [run] at h
  | cons w ws =>
    split at h
    · simp only [run, if_true] at h; exact hb _ h
    · split at h
      · simp [run] at h; left; exact h.symm
      · split at h
        · simp [run] at h; left; exact h.symm
        · simp only [run] at h
          by_cases hw : mask 53 w ≥ c.thr
          · simp only [hw, decide_true, if_true] at h; exact hb _ h
          · simp [hw, run] at h; left; exact h.symm


theorem good_draw {n : Nat} {k : UInt64 → Prog} {w : UInt64} {ws : List UInt64}
    (h : Good (run (.draw n k) (w :: ws))) : Good (run (k (mask n w)) ws) := by
  intro m hm; apply h m; simp [run, hm]

theorem iter_replay (c : Cfg) (he : PS c.elem) (s s' : St) (acc : Val) (ws xs : List UInt64)
    (hg : Good (run (iter c s acc) ws))
    (hf : s.force = true → s.count ≥ c.minC) (hc : s'.count = s.count) (hnf : s'.force = false) :
    run (iter c s' acc) ((run (iter c s acc) ws).kept ++ xs) =
      { res := (run (iter c s acc) ws).res, rest := xs,
        used := (run (iter c s acc) ws).kept, kept := (run (iter c s acc) ws).kept } := by
  rw [iter_eq, iter_eq] at *
  unfold coin at *
  rw [hc, hnf]
  have hthr := thr_not_le_zero c
  cases ws with
  | nil =>
    exfalso
    split at hg <;> (try split at hg) <;> (try split at hg) <;> exact hg "overrun" (by simp [run])
  | cons w ws =>
    by_cases h1 : s.count < c.minC
    · simp only [h1, if_true] at hg ⊢
      have hgb := good_draw hg
      simp only [run, List.cons_append, mask_idem, if_true]
      rw [ps_body c he acc ws xs hgb]
    · simp only [h1, if_false] at hg ⊢
      by_cases h2 : s.force = true
      · have hcm := hf h2
        simp only [h2, if_true, run, mask0, List.cons_append, List.nil_append]
        simp only [Bool.false_eq_true, if_false]
        by_cases h3 : s.count ≥ c.maxC
        · simp [h3, run, mRej, mStop]
        · simp [h3, run, mRej, mStop, hthr]
      · simp only [h2, if_false] at hg ⊢
        simp only [Bool.false_eq_true, if_false]
        by_cases h3 : s.count ≥ c.maxC
        · simp [h3, run, mask_idem]
        · simp only [h3, if_false] at hg ⊢
          have hgb := good_draw hg
          simp only [run, List.cons_append, mask_idem]
          by_cases hw : mask 53 w ≥ c.thr
          · simp only [hw, decide_true, if_true] at hgb ⊢
            rw [ps_body c he acc ws xs hgb]
          · simp [hw, run]


@[simp] theorem after_stop (c : Cfg) (rec : St → Val → Prog) (s : St) (acc : Val) :
    after c rec s acc mStop = .ret acc := rfl
@[simp] theorem after_acc (c : Cfg) (rec : St → Val → Prog) (s : St) (acc v : Val) :
    after c rec s acc (mAcc v) = rec { s with count := s.count + 1 } (c.snoc acc v) := rfl
theorem after_rej (c : Cfg) (rec : St → Val → Prog) (s : St) (acc : Val) :
    after c rec s acc mRej =
      if s.rejs + 1 > s.count * 2 then
        if s.count ≥ c.minC then rec { s with rejs := s.rejs + 1, force := true } acc
        else .throw (.invalid "too many rejections in repeat")
      else rec { s with rejs := s.rejs + 1 } acc := rfl
@[simp] theorem stop_ne_rej : (mStop == mRej) = false := by decide
@[simp] theorem acc_ne_rej (v : Val) : (mAcc v == mRej) = false := by
  simp [mAcc, mRej]
@[simp] theorem rej_eq_rej : (mRej == mRej) = true := by decide

@[simp] theorem run_ret (v : Val) (ws : List UInt64) : run (.ret v) ws = ⟨.ok v, ws, [], []⟩ := by
  simp [run]

theorem ps_loop (c : Cfg) (he : PS c.elem) : ∀ n s acc ws xs,
    Good (run (loop c n s acc) ws) → (s.force = true → s.count ≥ c.minC) →
    ∀ m, n ≤ m → ∀ s' : St, s'.count = s.count → s'.force = false →
    run (loop c m s' acc) ((run (loop c n s acc) ws).kept ++ xs) =
      { res := (run (loop c n s acc) ws).res, rest := xs,
        used := (run (loop c n s acc) ws).kept, kept := (run (loop c n s acc) ws).kept } := by
  intro n
  induction n with
  | zero => intro s acc ws xs hg; exact absurd rfl (hg _)
  | succ n ih =>
    intro s acc ws xs hg hf m hm s' hc hnf
    obtain ⟨m, rfl⟩ : ∃ m', m = m' + 1 := ⟨m - 1, by omega⟩
    have hm' : n ≤ m := by omega
    simp only [loop] at hg ⊢
    cases hres : (run (iter c s acc) ws).res with
    | error e =>
      rw [run_group_err hres] at hg ⊢
      have hgi : Good (run (iter c s acc) ws) := by intro msg; rw [hres]; exact hg msg
      have hrep := iter_replay c he s s' acc ws xs hgi hf hc hnf
      rw [hres] at hrep
      rw [run_group_err (by rw [hrep])]
      simp [hrep]
    | ok r =>
      have hgi : Good (run (iter c s acc) ws) := by intro msg; rw [hres]; simp
      rw [run_group_ok hres] at hg ⊢
      rcases iter_res c s acc ws r hres with hr | hr | ⟨v, hr⟩
      · -- stop
        subst hr
        simp only [after_stop, stop_ne_rej, run_ret, List.append_nil, Bool.false_eq_true, if_false]
        have hrep := iter_replay c he s s' acc ws xs hgi hf hc hnf
        rw [hres] at hrep
        rw [run_group_ok (by rw [hrep])]
        simp [hrep]
      · -- rejected: the whole iteration is pruned, the replay has not moved
        subst hr
        simp only [after_rej, rej_eq_rej, if_true, List.nil_append] at hg ⊢
        by_cases h1 : s.rejs + 1 > s.count * 2
        · by_cases h2 : s.count ≥ c.minC
          · simp only [h1, h2, if_true] at hg ⊢
            have hg' : Good (run (loop c n { s with rejs := s.rejs + 1, force := true } acc) (run (iter c s acc) ws).rest) := by
              intro msg hmsg; exact hg msg (by simp [hmsg])
            have := ih { s with rejs := s.rejs + 1, force := true } acc _ xs hg' (by intro _; exact h2) (m+1) (by omega) s' hc hnf
            simp only [loop] at this
            simpa using this
          · simp only [h1, h2, if_true, if_false] at hg
            exact absurd (by simp [run]) (hg "too many rejections in repeat")
        · simp only [h1, if_false] at hg ⊢
          have hg' : Good (run (loop c n { s with rejs := s.rejs + 1 } acc) (run (iter c s acc) ws).rest) := by
            intro msg hmsg; exact hg msg (by simp [hmsg])
          have := ih { s with rejs := s.rejs + 1 } acc _ xs hg' hf (m+1) (by omega) s' hc hnf
          simp only [loop] at this
          simpa using this
      · -- accepted
        subst hr
        simp only [after_acc, acc_ne_rej, Bool.false_eq_true, if_false, List.append_assoc] at hg ⊢
        have hg' : Good (run (loop c n { s with count := s.count + 1 } (c.snoc acc v)) (run (iter c s acc) ws).rest) := by
          intro msg hmsg; exact hg msg (by simp [hmsg])
        have hrep := iter_replay c he s s' acc ws
          ((run (loop c n { s with count := s.count + 1 } (c.snoc acc v)) (run (iter c s acc) ws).rest).kept ++ xs) hgi hf hc hnf
        rw [hres] at hrep
        rw [run_group_ok (by rw [hrep])]
        simp only [hrep, after_acc, acc_ne_rej, Bool.false_eq_true, if_false]
        have := ih { s with count := s.count + 1 } (c.snoc acc v) _ xs hg'
          (by intro hfo; have := hf hfo; simp only; omega) m hm' { s' with count := s'.count + 1 } (by simp [hc]) hnf
        rw [this]

end S6

#print axioms S6.ps_loop
