import Spike3
open S3

namespace S4

/-- prune stability of a program, for runs that end in a value or a failure (not invalid) -/
def Good (o : Out) : Prop := ∀ m, o.res ≠ .error (.invalid m)

def PS (p : Prog) : Prop := ∀ ws xs, Good (run p ws) →
  run p ((run p ws).kept ++ xs) =
    { res := (run p ws).res, rest := xs, used := (run p ws).kept, kept := (run p ws).kept }

def findLoop (body : Prog) (ok : Val → Bool) : Nat → Prog
  | 0 => .throw (.invalid "failed to find suitable value")
  | n+1 => .group body (fun v => !ok v) (fun v => if ok v then .ret v else findLoop body ok n)

theorem ps_ret (v : Val) : PS (.ret v) := by intro ws xs _; simp [run]
theorem ps_throw (e : Err) : PS (.throw e) := by intro ws xs _; simp [run]

theorem ps_find (body : Prog) (ok : Val → Bool) (hb : PS body) : ∀ n m, n ≤ m →
    ∀ ws xs, Good (run (findLoop body ok n) ws) →
      run (findLoop body ok m) ((run (findLoop body ok n) ws).kept ++ xs) =
        { res := (run (findLoop body ok n) ws).res, rest := xs,
          used := (run (findLoop body ok n) ws).kept, kept := (run (findLoop body ok n) ws).kept } := by
  intro n
  induction n with
  | zero => intro m _ ws xs hg; exact absurd rfl (hg _ )
  | succ n ih =>
    intro m hm ws xs hg
    obtain ⟨m', rfl⟩ : ∃ m', m = m' + 1 := ⟨m - 1, by omega⟩
    simp only [findLoop, run] at hg ⊢
    cases hres : (run body ws).res with
    | error e =>
      simp only [hres] at hg ⊢
      have hgb : Good (run body ws) := by intro msg; rw [hres]; exact hg msg
      rw [hb ws xs hgb]; simp [hres]
    | ok v =>
      simp only [hres] at hg ⊢
      have hgb : Good (run body ws) := by intro msg; rw [hres]; simp
      cases hok : ok v with
      | true =>
        simp only [hok, run, Bool.not_true, List.append_nil, Bool.false_eq_true, ↓reduceIte] at hg ⊢
        rw [hb ws xs hgb]; simp [hres, hok, run]
      | false =>
        simp only [hok, Bool.not_false, ↓reduceIte, List.nil_append, Bool.false_eq_true] at hg ⊢
        have := ih (m' + 1) (by omega) (run body ws).rest xs (by
          intro msg; exact hg msg)
        simp only [findLoop, run] at this
        rw [this]

end S4
