package main

// Bytes mode of the imperative translator (persist.go: the content of a fail file).  Strings are byte lists
// (`List UInt8`, the model's `Bytes`), and the library calls of the two functions are the model's ports of them
// (RapidModel/Persist.lean — validated against the real library by the `persist` correspondence):
//
//	strings.Split(s, "c")  Rapid.splitOn c s        strings.Join(xs, "c")   Rapid.joinWith c xs
//	strings.TrimSpace(s)   Rapid.trimSpace s        strings.HasPrefix(s,p)  Go.hasPrefix s p
//	strconv.ParseUint(s, b, 64)  Rapid.parseUint s b   (value and "is an error")
//	fmt.Sprintf with %v (string, uint64) and %x (uint64)   the pieces concatenated: Rapid.fmtDec / Rapid.hexDigits
//	for scanner.Scan() { … scanner.Text() … }   a range loop over Rapid.scanLines of the file's bytes
//	f.WriteString(s)       appends to the bytes written so far (it does not fail here: failing writes are C16's)
//	an `error` is a Bool ("is not nil"); fmt.Errorf(…) is true

import (
	"bytes"
	"fmt"
	"go/ast"
	"go/printer"
	"go/token"
	"strconv"
	"strings"
)

// the source text of any node
func nodeText(fset *token.FileSet, n ast.Node) string {
	var b bytes.Buffer
	_ = printer.Fprint(&b, fset, n)
	return b.String()
}

var bytesMode bool

func byteLit(s string) string {
	if s == "" {
		return "([] : List UInt8)"
	}
	var parts []string
	for _, b := range []byte(s) {
		parts = append(parts, strconv.Itoa(int(b)))
	}
	return "([" + strings.Join(parts, ", ") + "] : List UInt8)"
}

// a one-byte string literal as the byte
func (m *imp) oneByte(e ast.Expr) string {
	if bl, ok := e.(*ast.BasicLit); ok && bl.Kind == token.STRING {
		s, err := strconv.Unquote(bl.Value)
		if err == nil && len(s) == 1 {
			return strconv.Itoa(int(s[0]))
		}
	}
	panic("translate(bytes): separator is not a one-byte literal: " + exprText(m.p.fset, e))
}

// bytesExpr: the expressions of bytes mode; ok = false: not one of them
func (m *imp) bytesExpr(e ast.Expr, want gty) (string, gty, bool) {
	switch x := e.(type) {
	case *ast.BasicLit:
		if x.Kind == token.STRING {
			s, err := strconv.Unquote(x.Value)
			if err != nil {
				panic("translate(bytes): string literal " + x.Value)
			}
			return byteLit(s), "str", true
		}
	case *ast.Ident:
		if x.Name == "nil" && want == "err" {
			return "false", "err", true
		}
		if x.Name == "nil" && strings.HasPrefix(string(want), "[]") {
			return "[]", want, true
		}
	case *ast.BinaryExpr:
		if x.Op == token.ADD {
			a, ta := m.expr(x.X, "str")
			if ta == "str" {
				b, _ := m.expr(x.Y, "str")
				return "(" + a + " ++ " + b + ")", "str", true
			}
		}
		if x.Op == token.NEQ || x.Op == token.EQL {
			if id, ok := x.Y.(*ast.Ident); ok && id.Name == "nil" {
				a, ta := m.expr(x.X, "")
				if ta == "err" {
					if x.Op == token.NEQ {
						return a, "bool", true
					}
					return "(!" + a + ")", "bool", true
				}
			}
		}
	case *ast.CallExpr:
		fn := exprText(m.p.fset, x.Fun)
		switch fn {
		case "string":
			return m.exprOK(x.Args[0], "str")
		case "strings.Split":
			a, _ := m.expr(x.Args[0], "str")
			return "(Rapid.splitOn " + m.oneByte(x.Args[1]) + " " + a + ")", "[]str", true
		case "strings.Join":
			a, _ := m.expr(x.Args[0], "[]str")
			return "(Rapid.joinWith " + m.oneByte(x.Args[1]) + " " + a + ")", "str", true
		case "strings.TrimSpace":
			a, _ := m.expr(x.Args[0], "str")
			return "(Rapid.trimSpace " + a + ")", "str", true
		case "strings.HasPrefix":
			a, _ := m.expr(x.Args[0], "str")
			b, _ := m.expr(x.Args[1], "str")
			return "(Go.hasPrefix " + a + " " + b + ")", "bool", true
		case "fmt.Errorf":
			return "true", "err", true
		case "fmt.Sprintf":
			return m.sprintf(x), "str", true
		}
	}
	return "", "", false
}

func (m *imp) exprOK(e ast.Expr, want gty) (string, gty, bool) {
	s, ty := m.expr(e, want)
	return s, ty, true
}

// fmt.Sprintf with a literal format: the pieces, concatenated
func (m *imp) sprintf(c *ast.CallExpr) string {
	bl, ok := c.Args[0].(*ast.BasicLit)
	if !ok {
		panic("translate(bytes): Sprintf without a literal format")
	}
	format, _ := strconv.Unquote(bl.Value)
	var parts []string
	arg := 1
	lit := ""
	flush := func() {
		if lit != "" {
			parts = append(parts, byteLit(lit))
			lit = ""
		}
	}
	for i := 0; i < len(format); i++ {
		if format[i] != '%' {
			lit += string(format[i])
			continue
		}
		i++
		if i >= len(format) || arg >= len(c.Args) {
			panic("translate(bytes): bad format " + format)
		}
		a, ty := m.expr(c.Args[arg], "")
		arg++
		flush()
		switch {
		case format[i] == 'v' && ty == "str":
			parts = append(parts, a)
		case format[i] == 'v' && ty == "u64":
			parts = append(parts, "(Rapid.fmtDec "+a+")")
		case format[i] == 'x' && ty == "u64":
			parts = append(parts, "(Rapid.hexDigits "+a+")")
		default:
			panic(fmt.Sprintf("translate(bytes): verb %%%c with an argument of type %s", format[i], ty))
		}
	}
	flush()
	if len(parts) == 0 {
		return byteLit("")
	}
	return "(" + strings.Join(parts, " ++ ") + ")"
}

// bytesStmt: the statements of bytes mode; ok = false: not one of them
func (m *imp) bytesStmt(st ast.Stmt, rest func() string) (string, bool) {
	as, ok := st.(*ast.AssignStmt)
	if !ok || len(as.Lhs) != 2 || len(as.Rhs) != 1 {
		return "", false
	}
	call, ok := as.Rhs[0].(*ast.CallExpr)
	if !ok {
		return "", false
	}
	name := func(e ast.Expr) string { return e.(*ast.Ident).Name }
	switch exprText(m.p.fset, call.Fun) {
	case "f.WriteString":
		// _, err := f.WriteString(s): s is appended to what was written so far
		pre := m.hoistIdx(call.Args[0])
		s, _ := m.expr(call.Args[0], "str")
		m.t.env[name(as.Lhs[1])] = "err"
		out := fmt.Sprintf("let f_written : (List UInt8) := (f_written ++ %s)\n  let %s : Bool := false\n  %s", s, name(as.Lhs[1]), rest())
		if len(pre) > 0 {
			out = strings.Join(pre, "\n  ") + "\n  " + out
		}
		return out, true
	case "strconv.ParseUint":
		pre := m.hoistIdx(call.Args[0])
		s, _ := m.expr(call.Args[0], "str")
		base, ok := m.t.constVal(call.Args[1])
		if !ok {
			panic("translate(bytes): ParseUint with a base that is not a constant")
		}
		tmp := m.fresh("p")
		m.t.env[name(as.Lhs[0])] = "u64"
		m.t.env[name(as.Lhs[1])] = "err"
		out := fmt.Sprintf("let %s := (Rapid.parseUint %s %s)\n  let %s : UInt64 := (Go.parsedValue %s)\n  let %s : Bool := (Go.parsedError %s)\n  %s",
			tmp, s, base.String(), name(as.Lhs[0]), tmp, name(as.Lhs[1]), tmp, rest())
		if len(pre) > 0 {
			out = strings.Join(pre, "\n  ") + "\n  " + out
		}
		return out, true
	}
	return "", false
}

// the scanner loop of loadFailFile as a range loop over the lines of the file
func rewriteScannerLoop(list []ast.Stmt, fsetText func(ast.Node) string) []ast.Stmt {
	var out []ast.Stmt
	for _, st := range list {
		switch x := st.(type) {
		case *ast.AssignStmt:
			if len(x.Lhs) == 1 && fsetText(x.Lhs[0]) == "scanner" {
				continue // scanner := bufio.NewScanner(f)
			}
		case *ast.ExprStmt:
			if strings.HasPrefix(fsetText(x.X), "scanner.Buffer(") {
				continue
			}
		case *ast.IfStmt:
			if x.Init != nil && strings.Contains(fsetText(x.Init), "scanner.Err()") {
				continue // reading does not fail here
			}
		case *ast.ForStmt:
			if x.Init == nil && x.Post == nil && x.Cond != nil && fsetText(x.Cond) == "scanner.Scan()" {
				body := x.Body
				ast.Inspect(body, func(n ast.Node) bool {
					// scanner.Text() → the loop variable
					switch y := n.(type) {
					case *ast.CallExpr:
						for i, a := range y.Args {
							if c, ok := a.(*ast.CallExpr); ok && fsetText(c) == "scanner.Text()" {
								y.Args[i] = ast.NewIdent("line_")
							}
						}
					case *ast.AssignStmt:
						for i, a := range y.Rhs {
							if c, ok := a.(*ast.CallExpr); ok && fsetText(c) == "scanner.Text()" {
								y.Rhs[i] = ast.NewIdent("line_")
							}
						}
					}
					return true
				})
				out = append(out, &ast.RangeStmt{Key: ast.NewIdent("_"), Value: ast.NewIdent("line_"), Tok: token.DEFINE, X: ast.NewIdent("lines_"), Body: body})
				continue
			}
		}
		out = append(out, st)
	}
	return out
}

// impStmtsFn translates a list of statements (ending in returns) as a function
func (t *trans) impStmtsFn(leanName string, where token.Pos, stmts []ast.Stmt, params [][2]string, prelude []string, results []gty, doc string) string {
	fxMode = false
	m := &imp{t: t, p: t.p, key: leanName, sigs: map[string]*isig{}, objs: map[string]string{}, callTmp: map[*ast.CallExpr]string{}, idxTmp: map[ast.Node]string{}, idxTy: map[ast.Node]gty{}, pureSigs: t.pureMethodFields}
	t.env = map[string]gty{}
	t.fields = map[string]gty{}
	t.recv = ""
	t.hoisted = map[*ast.CallExpr]string{}
	var ps []string
	for _, p := range params {
		t.env[p[0]] = gty(p[1])
		ps = append(ps, fmt.Sprintf("(%s : %s)", p[0], leanTyX(gty(p[1]))))
	}
	for _, pl := range prelude {
		// `let name : type := …`: the variable is in scope
		f := strings.Fields(pl)
		if len(f) > 3 && f[0] == "let" {
			switch {
			case strings.Contains(pl, "List UInt8"):
				t.env[f[1]] = "str"
			case strings.Contains(pl, "Bool"):
				t.env[f[1]] = "err"
			}
		}
	}
	m.results = results
	body := m.block(stmts, ictx{tail: func() string { return m.ret(ictx{}, nil) }})
	if m.fuel {
		ps = append(ps, "(fuel : Nat)")
	}
	out := strings.Join(m.aux, "\n")
	if out != "" {
		out += "\n"
	}
	pre := ""
	if len(prelude) > 0 {
		pre = strings.Join(prelude, "\n  ") + "\n  "
	}
	out += fmt.Sprintf("/-- %s (%s) -/\ndef %s %s : Go.M (%s) :=\n  %s%s\n", doc, t.p.fset.Position(where), leanName, strings.Join(ps, " "), tupleTyX(results), pre, body)
	return out
}

// persist.go: what saveFailFile writes, what loadFailFile reads
func (t *trans) persistFunctions() string {
	bytesMode = true
	defer func() { bytesMode = false }()
	text := func(n ast.Node) string { return nodeText(t.p.fset, n) }
	var b strings.Builder
	// saveFailFile: from `out := strings.Split(…)` to the last WriteString
	sd := t.p.funcs["saveFailFile"]
	if sd == nil {
		panic("translate: no function saveFailFile")
	}
	var stmts []ast.Stmt
	started := false
	for _, st := range sd.Body.List {
		if as, ok := st.(*ast.AssignStmt); ok && len(as.Lhs) == 1 && text(as.Lhs[0]) == "out" {
			started = true
		}
		if !started {
			continue
		}
		if strings.Contains(text(st), "f.Close()") || strings.Contains(text(st), "os.Rename") {
			break
		}
		stmts = append(stmts, st)
	}
	if len(stmts) == 0 {
		panic("translate: the writing part of saveFailFile was not found")
	}
	// the function's own result is an error; here the result is what was written
	stmts = append(stmts, &ast.ReturnStmt{Results: []ast.Expr{ast.NewIdent("f_written"), ast.NewIdent("nil")}})
	for _, st := range stmts {
		ast.Inspect(st, func(n ast.Node) bool {
			if r, ok := n.(*ast.ReturnStmt); ok && len(r.Results) == 1 {
				r.Results = []ast.Expr{ast.NewIdent("f_written"), r.Results[0]} // an error return: what was written so far, and the error
			}
			return true
		})
	}
	b.WriteString(t.impStmtsFn("saveFailFile_bytes", sd.Pos(), stmts,
		[][2]string{{"version", "str"}, {"output", "[]u8"}, {"seed", "u64"}, {"buf", "[]u64"}},
		[]string{"let f_written : (List UInt8) := []", "let err : Bool := false"},
		[]gty{"str", "err"}, "saveFailFile: the bytes it writes into the temporary file (and whether it reports an error)"))
	b.WriteString("\n")
	// loadFailFile: from `var data []string` on, the scanner loop as a range loop over the lines
	ld := t.p.funcs["loadFailFile"]
	if ld == nil {
		panic("translate: no function loadFailFile")
	}
	stmts = nil
	started = false
	for _, st := range ld.Body.List {
		if ds, ok := st.(*ast.DeclStmt); ok && strings.Contains(text(ds), "data") {
			started = true
		}
		if started {
			stmts = append(stmts, st)
		}
	}
	stmts = rewriteScannerLoop(stmts, text)
	b.WriteString(t.impStmtsFn("loadFailFile_bytes", ld.Pos(), stmts,
		[][2]string{{"lines_", "[]str"}},
		nil, []gty{"str", "u64", "[]u64", "err"}, "loadFailFile: from the lines of the file (bufio.ScanLines) to version, seed, words and error"))
	return b.String()
}
