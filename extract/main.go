// extract: reads /repo's Go source (go/parser, go/ast only) and writes the Lean facts the
// proofs import: Generated/Consts.lean, Generated/CallOrders.lean, Generated/LockTraces.lean.
//
//	extract <repo dir> <out dir>
//
// Unknown syntax in the analysed bodies makes the extractor fail loudly rather than guess.
package main

import (
	"bytes"
	"fmt"
	"go/ast"
	"go/parser"
	"go/printer"
	"go/token"
	"os"
	"path/filepath"
	"sort"
	"strconv"
	"strings"
)

type pkgInfo struct {
	fset    *token.FileSet
	files   []*ast.File
	funcs   map[string]*ast.FuncDecl // "Recv.Name" or "Name"
	consts  map[string]string        // name -> literal text
	structs map[string]*ast.StructType
	globals map[string]bool
}

func load(dir string) *pkgInfo {
	fset := token.NewFileSet()
	p := &pkgInfo{fset: fset, funcs: map[string]*ast.FuncDecl{}, consts: map[string]string{}, structs: map[string]*ast.StructType{}, globals: map[string]bool{}}
	ents, err := os.ReadDir(dir)
	if err != nil {
		die("read %s: %v", dir, err)
	}
	for _, e := range ents {
		n := e.Name()
		if !strings.HasSuffix(n, ".go") || strings.HasSuffix(n, "_test.go") || n == "export_verif.go" {
			continue
		}
		f, err := parser.ParseFile(fset, filepath.Join(dir, n), nil, parser.ParseComments)
		if err != nil {
			die("parse %s: %v", n, err)
		}
		p.files = append(p.files, f)
		for _, d := range f.Decls {
			switch d := d.(type) {
			case *ast.FuncDecl:
				p.funcs[funcKey(d)] = d
			case *ast.GenDecl:
				for _, s := range d.Specs {
					switch s := s.(type) {
					case *ast.ValueSpec:
						for i, name := range s.Names {
							if d.Tok == token.CONST && i < len(s.Values) {
								p.consts[name.Name] = exprText(fset, s.Values[i])
							}
							if d.Tok == token.VAR {
								p.globals[name.Name] = true
							}
						}
					case *ast.TypeSpec:
						if st, ok := s.Type.(*ast.StructType); ok {
							p.structs[s.Name.Name] = st
						}
					}
				}
			}
		}
	}
	return p
}

func recvType(d *ast.FuncDecl) string {
	if d.Recv == nil || len(d.Recv.List) == 0 {
		return ""
	}
	t := d.Recv.List[0].Type
	for {
		switch x := t.(type) {
		case *ast.StarExpr:
			t = x.X
		case *ast.IndexExpr:
			t = x.X
		case *ast.IndexListExpr:
			t = x.X
		case *ast.Ident:
			return x.Name
		default:
			return "?"
		}
	}
}

func recvName(d *ast.FuncDecl) string {
	if d.Recv == nil || len(d.Recv.List) == 0 || len(d.Recv.List[0].Names) == 0 {
		return ""
	}
	return d.Recv.List[0].Names[0].Name
}

func funcKey(d *ast.FuncDecl) string {
	if r := recvType(d); r != "" {
		return r + "." + d.Name.Name
	}
	return d.Name.Name
}

func exprText(fset *token.FileSet, e ast.Expr) string {
	switch x := e.(type) {
	case *ast.BasicLit:
		return x.Value
	case *ast.BinaryExpr:
		return exprText(fset, x.X) + " " + x.Op.String() + " " + exprText(fset, x.Y)
	case *ast.Ident:
		return x.Name
	case *ast.SelectorExpr:
		return exprText(fset, x.X) + "." + x.Sel.Name
	case *ast.CallExpr:
		var args []string
		for _, a := range x.Args {
			args = append(args, exprText(fset, a))
		}
		if f := exprText(fset, x.Fun); f == "s.accept" && len(args) > 1 {
			return f + "(" + args[0] + ", …)" // label and debug message are not part of the behaviour
		}
		return exprText(fset, x.Fun) + "(" + strings.Join(args, ", ") + ")"
	case *ast.ParenExpr:
		return "(" + exprText(fset, x.X) + ")"
	case *ast.UnaryExpr:
		return x.Op.String() + exprText(fset, x.X)
	case *ast.IndexExpr:
		return exprText(fset, x.X) + "[" + exprText(fset, x.Index) + "]"
	case *ast.SliceExpr:
		lo, hi := "", ""
		if x.Low != nil {
			lo = exprText(fset, x.Low)
		}
		if x.High != nil {
			hi = exprText(fset, x.High)
		}
		return exprText(fset, x.X) + "[" + lo + ":" + hi + "]"
	}
	return fmt.Sprintf("<%T>", e)
}

func die(format string, args ...any) {
	fmt.Fprintf(os.Stderr, "extract: "+format+"\n", args...)
	os.Exit(2)
}

func leanStr(s string) string { return strconv.Quote(s) }

// ---------------------------------------------------------------- Consts.lean

func flagDefaults(p *pkgInfo) map[string]string {
	out := map[string]string{}
	d := p.funcs["init"]
	if d == nil {
		return out
	}
	ast.Inspect(d.Body, func(n ast.Node) bool {
		c, ok := n.(*ast.CallExpr)
		if !ok {
			return true
		}
		sel, ok := c.Fun.(*ast.SelectorExpr)
		if !ok || len(c.Args) < 3 {
			return true
		}
		if x, ok := sel.X.(*ast.Ident); !ok || x.Name != "flag" {
			return true
		}
		name, ok := c.Args[1].(*ast.BasicLit)
		if !ok {
			return true
		}
		out[strings.Trim(name.Value, `"`)] = exprText(p.fset, c.Args[2])
		return true
	})
	return out
}

// constants of jsf64ctx.init / rand
func jsfFacts(p *pkgInfo) (initA string, rounds string, rots []string) {
	if d := p.funcs["jsf64ctx.init"]; d != nil {
		ast.Inspect(d.Body, func(n ast.Node) bool {
			switch x := n.(type) {
			case *ast.AssignStmt:
				if len(x.Lhs) == 1 && exprText(p.fset, x.Lhs[0]) == "x.a" {
					initA = exprText(p.fset, x.Rhs[0])
				}
			case *ast.ForStmt:
				if b, ok := x.Cond.(*ast.BinaryExpr); ok {
					rounds = exprText(p.fset, b.Y)
				}
			}
			return true
		})
	}
	if d := p.funcs["jsf64ctx.rand"]; d != nil {
		ast.Inspect(d.Body, func(n ast.Node) bool {
			if c, ok := n.(*ast.CallExpr); ok && exprText(p.fset, c.Fun) == "bits.RotateLeft64" && len(c.Args) == 2 {
				rots = append(rots, exprText(p.fset, c.Args[1]))
			}
			return true
		})
	}
	return
}

func natOf(s string) string {
	s = strings.ReplaceAll(s, "_", "")
	if v, err := strconv.ParseUint(s, 0, 64); err == nil {
		return strconv.FormatUint(v, 10)
	}
	return "0 /- unparsed: " + s + " -/"
}

// the table of integer kinds (integers.go: integerKindToInfo), one line per kind
func kindTable(p *pkgInfo) []string {
	var out []string
	for _, f := range p.files {
		ast.Inspect(f, func(n ast.Node) bool {
			vs, ok := n.(*ast.ValueSpec)
			if !ok || len(vs.Names) != 1 || vs.Names[0].Name != "integerKindToInfo" || len(vs.Values) != 1 {
				return true
			}
			cl, ok := vs.Values[0].(*ast.CompositeLit)
			if !ok {
				return true
			}
			for _, e := range cl.Elts {
				kv, ok := e.(*ast.KeyValueExpr)
				if !ok {
					continue
				}
				line := exprText(p.fset, kv.Key) + ":"
				if v, ok := kv.Value.(*ast.CompositeLit); ok {
					for _, fe := range v.Elts {
						if fkv, ok := fe.(*ast.KeyValueExpr); ok {
							line += " " + exprText(p.fset, fkv.Key) + "=" + exprText(p.fset, fkv.Value)
						}
					}
				}
				out = append(out, line)
			}
			return false
		})
	}
	return out
}

func emitConsts(p *pkgInfo) string {
	var b strings.Builder
	b.WriteString("/- GENERATED by extract from /repo's current source: do not edit. -/\nnamespace Rapid.Generated\n\n")
	for _, c := range []string{"small", "invalidChecksMult", "exampleMaxTries", "validActionTries", "tracebackLen"} {
		fmt.Fprintf(&b, "def c_%s : Nat := %s\n", c, natOf(p.consts[c]))
	}
	for _, c := range []string{"rapidVersion", "failfileTmpPattern", "tracebackStop", "noValidActionsMsg",
		"biasLabel", "intBitsLabel", "coinFlipLabel", "dieRollLabel", "repeatLabel", "tryLabel", "actionLabel"} {
		v := p.consts[c]
		if v == "" {
			v = `""`
		}
		fmt.Fprintf(&b, "def c_%s : String := %s\n", c, v)
	}
	fd := flagDefaults(p)
	fmt.Fprintf(&b, "def flag_checks : Nat := %s\n", natOf(fd["rapid.checks"]))
	fmt.Fprintf(&b, "def flag_steps : Nat := %s\n", natOf(fd["rapid.steps"]))
	fmt.Fprintf(&b, "def flag_shrinktime : String := %s\n", leanStr(fd["rapid.shrinktime"]))
	fmt.Fprintf(&b, "def flag_seed : Nat := %s\n", natOf(fd["rapid.seed"]))
	a, rounds, rots := jsfFacts(p)
	fmt.Fprintf(&b, "def jsf_initA : Nat := %s\n", natOf(a))
	fmt.Fprintf(&b, "def jsf_rounds : Nat := %s\n", natOf(rounds))
	var rs []string
	for _, r := range rots {
		rs = append(rs, natOf(r))
	}
	fmt.Fprintf(&b, "def jsf_rotations : List Nat := [%s]\n", strings.Join(rs, ", "))
	// the budget / verdict conditions of findBug and checkTB, as source text
	fmt.Fprintf(&b, "def src_findBug_loopCond : String := %s\n", leanStr(findLoopCond(p)))
	fmt.Fprintf(&b, "def src_checkTB_passCond : String := %s\n", leanStr(findPassCond(p)))
	fmt.Fprintf(&b, "def src_seedStep : String := %s\n", leanStr(findSeedStep(p)))
	fmt.Fprintf(&b, "def src_integerKinds : List String := %s\n", leanList(kindTable(p)))
	b.WriteString("\nend Rapid.Generated\n")
	return b.String()
}

func findLoopCond(p *pkgInfo) string {
	d := p.funcs["findBug"]
	out := ""
	if d != nil {
		ast.Inspect(d.Body, func(n ast.Node) bool {
			if f, ok := n.(*ast.ForStmt); ok && f.Cond != nil && out == "" {
				out = exprText(p.fset, f.Cond)
			}
			return true
		})
	}
	return out
}

func findPassCond(p *pkgInfo) string {
	d := p.funcs["checkTB"]
	out := ""
	if d != nil {
		ast.Inspect(d.Body, func(n ast.Node) bool {
			if f, ok := n.(*ast.IfStmt); ok && strings.Contains(exprText(p.fset, f.Cond), "valid ==") && out == "" {
				out = exprText(p.fset, f.Cond)
			}
			return true
		})
	}
	return out
}

func findSeedStep(p *pkgInfo) string {
	d := p.funcs["findBug"]
	out := ""
	if d != nil {
		ast.Inspect(d.Body, func(n ast.Node) bool {
			if a, ok := n.(*ast.AssignStmt); ok && len(a.Lhs) == 1 && exprText(p.fset, a.Lhs[0]) == "seed" && a.Tok != token.DEFINE {
				out = "seed " + a.Tok.String() + " " + exprText(p.fset, a.Rhs[0])
			}
			return true
		})
	}
	return out
}

// ---------------------------------------------------------------- CallOrders.lean

// top-level statements of a function as short tags, in order
func stmtTags(p *pkgInfo, d *ast.FuncDecl) []string {
	var out []string
	if d == nil {
		return out
	}
	var tag func(s ast.Stmt) string
	tag = func(s ast.Stmt) string {
		switch x := s.(type) {
		case *ast.DeferStmt:
			if fl, ok := x.Call.Fun.(*ast.FuncLit); ok {
				inner := ""
				ast.Inspect(fl.Body, func(n ast.Node) bool {
					if c, ok := n.(*ast.CallExpr); ok && inner == "" {
						t := exprText(p.fset, c.Fun)
						if t != "recover" || true {
							inner = t
						}
					}
					return true
				})
				return "defer{" + inner + "}"
			}
			return "defer " + exprText(p.fset, x.Call.Fun)
		case *ast.ExprStmt:
			if c, ok := x.X.(*ast.CallExpr); ok {
				return "call " + exprText(p.fset, c.Fun)
			}
		case *ast.AssignStmt:
			if len(x.Rhs) == 1 {
				if c, ok := x.Rhs[0].(*ast.CallExpr); ok {
					return "call " + exprText(p.fset, c.Fun)
				}
			}
			return "assign"
		case *ast.ReturnStmt:
			return "return"
		case *ast.IfStmt:
			return "if"
		case *ast.ForStmt, *ast.RangeStmt:
			return "for"
		}
		return "stmt"
	}
	for _, s := range d.Body.List {
		out = append(out, tag(s))
	}
	return out
}

// every call to os.* / f.* in saveFailFile, in source order (defers marked)
func osCalls(p *pkgInfo, d *ast.FuncDecl) []string {
	var out []string
	if d == nil {
		return out
	}
	var walk func(n ast.Node, deferred bool)
	walk = func(n ast.Node, deferred bool) {
		ast.Inspect(n, func(m ast.Node) bool {
			switch x := m.(type) {
			case *ast.DeferStmt:
				walk(x.Call, true)
				return false
			case *ast.CallExpr:
				t := exprText(p.fset, x.Fun)
				if strings.HasPrefix(t, "os.") || strings.HasPrefix(t, "f.") {
					if deferred {
						t = "defer " + t
					}
					out = append(out, t)
				}
			}
			return true
		})
	}
	walk(d.Body, false)
	return out
}

func leanList(xs []string) string {
	var q []string
	for _, x := range xs {
		q = append(q, leanStr(x))
	}
	return "[" + strings.Join(q, ", ") + "]"
}

// every loop and branch condition of a function (closures included), in source order
func condTexts(p *pkgInfo, d *ast.FuncDecl) []string {
	var out []string
	if d == nil || d.Body == nil {
		return out
	}
	ast.Inspect(d.Body, func(n ast.Node) bool {
		switch x := n.(type) {
		case *ast.ForStmt:
			c := ""
			if x.Cond != nil {
				c = exprText(p.fset, x.Cond)
			}
			out = append(out, "for "+c)
		case *ast.IfStmt:
			out = append(out, "if "+exprText(p.fset, x.Cond))
		}
		return true
	})
	return out
}

// the body of a function as gofmt prints it: one entry per non-empty, non-comment line, indentation removed
func bodyLines(p *pkgInfo, d *ast.FuncDecl) []string {
	var out []string
	if d == nil || d.Body == nil {
		return out
	}
	var buf bytes.Buffer
	if err := printer.Fprint(&buf, p.fset, d.Body); err != nil {
		return []string{"unprintable"}
	}
	for _, l := range strings.Split(buf.String(), "\n") {
		l = strings.TrimSpace(l)
		if l == "" || strings.HasPrefix(l, "//") {
			continue
		}
		out = append(out, l)
	}
	return out
}

func emitCallOrders(p *pkgInfo) string {
	var b strings.Builder
	b.WriteString("/- GENERATED by extract from /repo's current source: do not edit. -/\nnamespace Rapid.Generated\n\n")
	fmt.Fprintf(&b, "def order_checkOnce : List String := %s\n", leanList(stmtTags(p, p.funcs["checkOnce"])))
	fmt.Fprintf(&b, "def order_runProp : List String := %s\n", leanList(stmtTags(p, p.funcs["runProp"])))
	fmt.Fprintf(&b, "def order_pendingFailure : List String := %s\n", leanList(stmtTags(p, p.funcs["pendingFailure"])))
	fmt.Fprintf(&b, "def order_Repeat : List String := %s\n", leanList(stmtTags(p, p.funcs["T.Repeat"])))
	fmt.Fprintf(&b, "def order_maybeValue : List String := %s\n", leanList(stmtTags(p, p.funcs["customGen.maybeValue"])))
	fmt.Fprintf(&b, "def order_cleanup : List String := %s\n", leanList(stmtTags(p, p.funcs["T.cleanup"])))
	fmt.Fprintf(&b, "def order_example : List String := %s\n", leanList(stmtTags(p, p.funcs["example"])))
	fmt.Fprintf(&b, "def order_cleanupCustom : List String := %s\n", leanList(stmtTags(p, p.funcs["T.cleanupCustom"])))
	fmt.Fprintf(&b, "def order_runCleanupFunc : List String := %s\n", leanList(stmtTags(p, p.funcs["T.runCleanupFunc"])))
	fmt.Fprintf(&b, "def order_saveFailFile : List String := %s\n", leanList(osCalls(p, p.funcs["saveFailFile"])))
	fmt.Fprintf(&b, "def order_checkFuzz : List String := %s\n", leanList(stmtTags(p, p.funcs["checkFuzz"])))
	for _, fn := range []string{"removeGroups", "minimizeBlocks", "lowerFloatHack", "removeGroupsAndLower", "sortGroups", "removeGroupSpans", "shrink", "accept"} {
		fmt.Fprintf(&b, "def conds_%s : List String := %s\n", fn, leanList(condTexts(p, p.funcs["shrinker."+fn])))
	}
	// the loop bodies that the generators put around repeat.more / repeat.reject: every statement, as gofmt prints it
	for _, fn := range []string{"sliceGen.value", "mapGen.value", "stringGen.value", "T.Repeat", "stateMachine.executeAction", "runAction", "checkTB", "shrinker.accept", "shrink", "checkOnce", "runProp", "T.failOnError", "T.fail", "customGen.maybeValue", "captureTestOutput", "panicToError", "traceback", "sameError", "newMakeKindGen", "genAnyPointer", "genAnyArray", "genAnySlice", "genAnyMap", "genAnyStruct", "castGen.value", "permGen.value", "ptrGen.value", "Generator.Draw", "Generator.value"} {
		fmt.Fprintf(&b, "def body_%s : List String := %s\n", strings.ReplaceAll(fn, ".", "_"), leanList(bodyLines(p, p.funcs[fn])))
	}
	fmt.Fprintf(&b, "def conds_minimize : List String := %s\n", leanList(condTexts(p, p.funcs["minimize"])))
	fmt.Fprintf(&b, "def conds_minimizer_accept : List String := %s\n", leanList(condTexts(p, p.funcs["minimizer.accept"])))
	fmt.Fprintf(&b, "def conds_removeGroup : List String := %s\n", leanList(condTexts(p, p.funcs["recordedBits.removeGroup"])))
	fmt.Fprintf(&b, "def conds_prune : List String := %s\n", leanList(condTexts(p, p.funcs["recordedBits.prune"])))
	b.WriteString("\nend Rapid.Generated\n")
	return b.String()
}

// ---------------------------------------------------------------- LockTraces.lean

type event struct {
	kind  string // acqR acqW relR relW read write
	field string
}

type path struct {
	evs    []event
	defers [][]event // deferred event lists, run LIFO at exit
	done   bool
}

func (pa path) clone() path {
	q := path{done: pa.done}
	q.evs = append([]event(nil), pa.evs...)
	for _, d := range pa.defers {
		q.defers = append(q.defers, append([]event(nil), d...))
	}
	return q
}

func (pa *path) finish() {
	if pa.done {
		return
	}
	for i := len(pa.defers) - 1; i >= 0; i-- {
		pa.evs = append(pa.evs, pa.defers[i]...)
	}
	pa.done = true
}

type tracer struct {
	p         *pkgInfo
	recv      string          // receiver variable name
	recvType  string          // receiver type
	immutable map[string]bool // fields never written after construction
	atomic    map[string]bool
	mutexes   map[string]bool // field names that are mutexes
	onces     map[string]bool
	only      map[string]bool // if non-nil: only these fields produce events (fields written after construction)
	self      string          // key of the function being traced (recursive calls are not inlined)
	depth     int
	problems  []string
}

func (t *tracer) fieldOf(e ast.Expr) (string, bool) {
	sel, ok := e.(*ast.SelectorExpr)
	if !ok {
		return "", false
	}
	id, ok := sel.X.(*ast.Ident)
	if !ok || id.Name != t.recv {
		return "", false
	}
	return sel.Sel.Name, true
}

// events of evaluating an expression (reads of guarded fields, inlined calls)
func (t *tracer) exprEvents(e ast.Expr, pa []path) []path {
	if e == nil {
		return pa
	}
	switch x := e.(type) {
	case *ast.CallExpr:
		return t.callEvents(x, pa)
	case *ast.SelectorExpr:
		if f, ok := t.fieldOf(x); ok {
			return t.access(pa, "read", f)
		}
		return t.exprEvents(x.X, pa)
	case *ast.BinaryExpr:
		return t.exprEvents(x.Y, t.exprEvents(x.X, pa))
	case *ast.UnaryExpr:
		return t.exprEvents(x.X, pa)
	case *ast.ParenExpr:
		return t.exprEvents(x.X, pa)
	case *ast.IndexExpr:
		return t.exprEvents(x.Index, t.exprEvents(x.X, pa))
	case *ast.SliceExpr:
		pa = t.exprEvents(x.X, pa)
		pa = t.exprEvents(x.Low, pa)
		return t.exprEvents(x.High, pa)
	case *ast.StarExpr:
		return t.exprEvents(x.X, pa)
	case *ast.TypeAssertExpr:
		return t.exprEvents(x.X, pa)
	case *ast.CompositeLit:
		for _, el := range x.Elts {
			pa = t.exprEvents(el, pa)
		}
		return pa
	case *ast.KeyValueExpr:
		return t.exprEvents(x.Value, pa)
	case *ast.FuncLit:
		return pa // a closure value: its body runs where it is called
	case *ast.Ident, *ast.BasicLit, *ast.InterfaceType, *ast.ArrayType, *ast.MapType, *ast.StructType, *ast.FuncType, *ast.IndexListExpr:
		return pa
	}
	t.problems = append(t.problems, fmt.Sprintf("unknown expression %T", e))
	return pa
}

func (t *tracer) access(pa []path, kind, f string) []path {
	if t.immutable[f] || t.atomic[f] || t.mutexes[f] || t.onces[f] {
		return pa
	}
	if t.only != nil && !t.only[f] {
		return pa
	}
	if t.p.funcs[t.recvType+"."+f] != nil {
		return pa // a method value, not a field
	}
	for i := range pa {
		if !pa[i].done {
			pa[i].evs = append(pa[i].evs, event{kind, t.recvType + "." + f})
		}
	}
	return pa
}

func (t *tracer) emit(pa []path, kind string) []path {
	for i := range pa {
		if !pa[i].done {
			pa[i].evs = append(pa[i].evs, event{kind, ""})
		}
	}
	return pa
}

func (t *tracer) callEvents(c *ast.CallExpr, pa []path) []path {
	fun := exprText(t.p.fset, c.Fun)
	// mutex operations on a field of the receiver: recv.mu.Lock()
	if sel, ok := c.Fun.(*ast.SelectorExpr); ok {
		if f, ok := t.fieldOf(sel.X); ok {
			if t.mutexes[f] {
				switch sel.Sel.Name {
				case "Lock":
					return t.emit(pa, "acqW")
				case "RLock":
					return t.emit(pa, "acqR")
				case "Unlock":
					return t.emit(pa, "relW")
				case "RUnlock":
					return t.emit(pa, "relR")
				}
			}
			if t.onces[f] && sel.Sel.Name == "Do" && len(c.Args) == 1 {
				// once.Do(func(){ body }): the body is mutually exclusive with everything that
				// follows a Do of the same Once ⇒ write section
				pa = t.emit(pa, "acqW")
				if fl, ok := c.Args[0].(*ast.FuncLit); ok {
					pa = t.block(fl.Body.List, pa)
				}
				pa = t.emit(pa, "relW")
				// what follows in this function happens after the Do: read section until the exit
				pa = t.emit(pa, "acqR")
				for i := range pa {
					if !pa[i].done {
						pa[i].defers = append(pa[i].defers, []event{{"relR", ""}})
					}
				}
				return pa
			}
			if t.atomic[f] {
				return pa // atomic.Bool / atomic.Pointer methods
			}
		}
	}
	for _, a := range c.Args {
		pa = t.exprEvents(a, pa)
	}
	if sel, ok := c.Fun.(*ast.SelectorExpr); ok {
		// a method of the same receiver: inline its traces
		if id, ok := sel.X.(*ast.Ident); ok && id.Name == t.recv {
			if callee := t.p.funcs[t.recvType+"."+sel.Sel.Name]; callee != nil && t.recvType+"."+sel.Sel.Name == t.self {
				// recursive call: its own trace is checked separately; it must start with no lock held
				pa = t.emit(pa, "acqW")
				return t.emit(pa, "relW")
			}
			if callee := t.p.funcs[t.recvType+"."+sel.Sel.Name]; callee != nil && t.depth < 4 {
				sub := &tracer{p: t.p, recv: recvName(callee), recvType: t.recvType, immutable: t.immutable, atomic: t.atomic, mutexes: t.mutexes, onces: t.onces, only: t.only, self: t.recvType + "." + sel.Sel.Name, depth: t.depth + 1}
				subPaths := sub.function(callee)
				t.problems = append(t.problems, sub.problems...)
				var out []path
				for _, q := range pa {
					if q.done {
						out = append(out, q)
						continue
					}
					for _, sp := range subPaths {
						r := q.clone()
						r.evs = append(r.evs, sp.evs...)
						out = append(out, r)
					}
				}
				if len(out) > 64 {
					out = out[:64]
				}
				return out
			}
		}
		pa = t.exprEvents(sel.X, pa)
	}
	if fl, ok := c.Fun.(*ast.FuncLit); ok { // immediately invoked closure
		return t.block(fl.Body.List, pa)
	}
	if fun == "panic" {
		for i := range pa {
			pa[i].finish()
		}
	}
	return pa
}

func (t *tracer) assign(lhs ast.Expr, pa []path) []path {
	if f, ok := t.fieldOf(lhs); ok {
		return t.access(pa, "write", f)
	}
	switch x := lhs.(type) {
	case *ast.IndexExpr:
		if f, ok := t.fieldOf(x.X); ok {
			return t.access(pa, "write", f)
		}
	case *ast.Ident:
		if t.p.globals[x.Name] {
			for i := range pa {
				if !pa[i].done {
					pa[i].evs = append(pa[i].evs, event{"write", "global." + x.Name})
				}
			}
		}
	}
	return pa
}

func (t *tracer) block(list []ast.Stmt, pa []path) []path {
	for _, s := range list {
		pa = t.stmt(s, pa)
		if len(pa) > 64 {
			pa = pa[:64]
		}
	}
	return pa
}

func (t *tracer) stmt(s ast.Stmt, pa []path) []path {
	switch x := s.(type) {
	case *ast.ExprStmt:
		return t.exprEvents(x.X, pa)
	case *ast.AssignStmt:
		for _, r := range x.Rhs {
			pa = t.exprEvents(r, pa)
		}
		for _, l := range x.Lhs {
			pa = t.assign(l, pa)
		}
		return pa
	case *ast.IncDecStmt:
		pa = t.exprEvents(x.X, pa)
		return t.assign(x.X, pa)
	case *ast.DeclStmt:
		if gd, ok := x.Decl.(*ast.GenDecl); ok {
			for _, sp := range gd.Specs {
				if vs, ok := sp.(*ast.ValueSpec); ok {
					for _, v := range vs.Values {
						pa = t.exprEvents(v, pa)
					}
				}
			}
		}
		return pa
	case *ast.DeferStmt:
		// events of the deferred call, run at exit
		tmp := []path{{}}
		if fl, ok := x.Call.Fun.(*ast.FuncLit); ok {
			tmp = t.block(fl.Body.List, tmp)
		} else {
			tmp = t.callEvents(x.Call, tmp)
		}
		var out []path
		for _, q := range pa {
			if q.done {
				out = append(out, q)
				continue
			}
			for _, d := range tmp {
				r := q.clone()
				r.defers = append(r.defers, d.evs)
				out = append(out, r)
			}
		}
		return out
	case *ast.ReturnStmt:
		for _, r := range x.Results {
			pa = t.exprEvents(r, pa)
		}
		for i := range pa {
			pa[i].finish()
		}
		return pa
	case *ast.IfStmt:
		if x.Init != nil {
			pa = t.stmt(x.Init, pa)
		}
		pa = t.exprEvents(x.Cond, pa)
		var thenP, elseP []path
		for _, q := range pa {
			thenP = append(thenP, q.clone())
			elseP = append(elseP, q.clone())
		}
		thenP = t.block(x.Body.List, thenP)
		if x.Else != nil {
			elseP = t.stmt(x.Else, elseP)
		}
		return dedup(append(thenP, elseP...))
	case *ast.BlockStmt:
		return t.block(x.List, pa)
	case *ast.ForStmt:
		if x.Init != nil {
			pa = t.stmt(x.Init, pa)
		}
		var out []path
		cur := pa
		for iter := 0; iter <= 2; iter++ {
			cur = t.exprEvents(x.Cond, cloneAll(cur))
			out = append(out, cloneAll(cur)...) // leave the loop here
			cur = t.block(x.Body.List, cur)
			if x.Post != nil {
				cur = t.stmt(x.Post, cur)
			}
		}
		return dedup(out)
	case *ast.RangeStmt:
		pa = t.exprEvents(x.X, pa)
		var out []path
		cur := pa
		for iter := 0; iter <= 2; iter++ {
			out = append(out, cloneAll(cur)...)
			cur = t.block(x.Body.List, cloneAll(cur))
		}
		return dedup(out)
	case *ast.SwitchStmt:
		if x.Init != nil {
			pa = t.stmt(x.Init, pa)
		}
		pa = t.exprEvents(x.Tag, pa)
		var out []path
		hasDefault := false
		for _, cc := range x.Body.List {
			c := cc.(*ast.CaseClause)
			if c.List == nil {
				hasDefault = true
			}
			br := cloneAll(pa)
			for _, e := range c.List {
				br = t.exprEvents(e, br)
			}
			out = append(out, t.block(c.Body, br)...)
		}
		if !hasDefault {
			out = append(out, cloneAll(pa)...)
		}
		return dedup(out)
	case *ast.TypeSwitchStmt:
		var out []path
		for _, cc := range x.Body.List {
			c := cc.(*ast.CaseClause)
			out = append(out, t.block(c.Body, cloneAll(pa))...)
		}
		out = append(out, cloneAll(pa)...)
		return dedup(out)
	case *ast.BranchStmt: // break / continue: approximated as falling through
		return pa
	case *ast.GoStmt:
		t.problems = append(t.problems, "go statement in an analysed method")
		return pa
	case *ast.EmptyStmt:
		return pa
	}
	t.problems = append(t.problems, fmt.Sprintf("unknown statement %T", s))
	return pa
}

func cloneAll(pa []path) []path {
	out := make([]path, len(pa))
	for i, q := range pa {
		out[i] = q.clone()
	}
	return out
}

func pathKey(q path) string {
	var b strings.Builder
	for _, e := range q.evs {
		b.WriteString(e.kind + ":" + e.field + ";")
	}
	b.WriteString("|")
	for _, d := range q.defers {
		for _, e := range d {
			b.WriteString(e.kind + ":" + e.field + ";")
		}
		b.WriteString("/")
	}
	if q.done {
		b.WriteString("done")
	}
	return b.String()
}

func dedup(pa []path) []path {
	seen := map[string]bool{}
	var out []path
	for _, q := range pa {
		k := pathKey(q)
		if !seen[k] {
			seen[k] = true
			out = append(out, q)
		}
	}
	return out
}

func (t *tracer) function(d *ast.FuncDecl) []path {
	pa := []path{{}}
	pa = t.block(d.Body.List, pa)
	for i := range pa {
		pa[i].finish()
	}
	return dedup(pa)
}

// fields of a struct type classified by their declared type
func classify(p *pkgInfo, typ string) (mutexes, onces, atomics map[string]bool, all []string) {
	mutexes, onces, atomics = map[string]bool{}, map[string]bool{}, map[string]bool{}
	st := p.structs[typ]
	if st == nil {
		return
	}
	for _, f := range st.Fields.List {
		tt := exprText(p.fset, f.Type)
		for _, n := range f.Names {
			all = append(all, n.Name)
			switch {
			case strings.HasPrefix(tt, "sync.RWMutex"), strings.HasPrefix(tt, "sync.Mutex"):
				mutexes[n.Name] = true
			case strings.HasPrefix(tt, "sync.Once"):
				onces[n.Name] = true
			case strings.HasPrefix(tt, "atomic."), strings.HasPrefix(tt, "sync.Map"):
				atomics[n.Name] = true
			}
		}
	}
	return
}

// fields of type `typ` assigned in any method (written after construction)
func writtenInMethods(p *pkgInfo, typ string) map[string]bool {
	out := map[string]bool{}
	for key, d := range p.funcs {
		if !strings.HasPrefix(key, typ+".") || d.Body == nil {
			continue
		}
		recv := recvName(d)
		ast.Inspect(d.Body, func(n ast.Node) bool {
			var lhs []ast.Expr
			switch x := n.(type) {
			case *ast.AssignStmt:
				lhs = x.Lhs
			case *ast.IncDecStmt:
				lhs = []ast.Expr{x.X}
			}
			for _, l := range lhs {
				if ix, ok := l.(*ast.IndexExpr); ok {
					l = ix.X
				}
				if sel, ok := l.(*ast.SelectorExpr); ok {
					if id, ok := sel.X.(*ast.Ident); ok && id.Name == recv {
						out[sel.Sel.Name] = true
					}
				}
			}
			return true
		})
	}
	return out
}

var fieldIDs = map[string]int{}

func fieldID(f string) int {
	if id, ok := fieldIDs[f]; ok {
		return id
	}
	fieldIDs[f] = len(fieldIDs)
	return fieldIDs[f]
}

func leanTrace(q path) string {
	var parts []string
	for _, e := range q.evs {
		switch e.kind {
		case "acqR":
			parts = append(parts, ".acq .R")
		case "acqW":
			parts = append(parts, ".acq .W")
		case "relR":
			parts = append(parts, ".rel .R")
		case "relW":
			parts = append(parts, ".rel .W")
		case "read":
			parts = append(parts, fmt.Sprintf(".read %d", fieldID(e.field)))
		case "write":
			parts = append(parts, fmt.Sprintf(".write %d", fieldID(e.field)))
		}
	}
	return "[" + strings.Join(parts, ", ") + "]"
}

func emitLockTraces(p *pkgInfo) string {
	var b strings.Builder
	b.WriteString("/- GENERATED by extract from /repo's current source: do not edit.\n   One entry per (method, path): the lock operations and the accesses to fields that are not\n   immutable, atomic or `sync.Once`/`sync.Map` objects. -/\nimport RapidModel.Conc\n\nnamespace Rapid.Generated\nopen Rapid.Conc\n\n")
	var problems []string

	// ---- *T: the non-drawing methods
	tMethods := []string{"Log", "Logf", "Skipf", "Skip", "SkipNow", "Errorf", "Error", "Fatalf", "Fatal", "FailNow", "Fail", "Failed",
		"Context", "Cleanup", "cleanup", "fail", "failOnError", "skip", "shouldLog"}
	mut, onc, atm, _ := classify(p, "T")
	// fields of T that the non-drawing methods may touch without the mutex: set at construction only
	tImmutable := map[string]bool{"tb": true, "tbLog": true, "rawLog": true, "s": true, "refDraws": true}
	written := writtenInMethods(p, "T")
	for f := range tImmutable {
		if written[f] {
			delete(tImmutable, f) // no longer immutable: accesses must be locked
		}
	}
	b.WriteString("def tTraces : List (String × List Ev) := [\n")
	var rows []string
	for _, m := range tMethods {
		d := p.funcs["T."+m]
		if d == nil || d.Body == nil {
			continue
		}
		tr := &tracer{p: p, recv: recvName(d), recvType: "T", immutable: tImmutable, atomic: atm, mutexes: mut, onces: onc, self: "T." + m}
		for _, q := range tr.function(d) {
			rows = append(rows, fmt.Sprintf("  (%s, %s)", leanStr("T."+m), leanTrace(q)))
		}
		problems = append(problems, tr.problems...)
	}
	b.WriteString(strings.Join(rows, ",\n") + "]\n\n")

	// ---- generators: every struct with a `value` method, and Generator itself
	var genTypes []string
	for key := range p.funcs {
		if strings.HasSuffix(key, ".value") || strings.HasSuffix(key, ".maybeValue") {
			genTypes = append(genTypes, strings.SplitN(key, ".", 2)[0])
		}
	}
	genTypes = append(genTypes, "Generator", "loadedDie", "repeat")
	sort.Strings(genTypes)
	rows = nil
	seenType := map[string]bool{}
	for _, typ := range genTypes {
		if seenType[typ] || typ == "T" {
			continue
		}
		seenType[typ] = true
		mut, onc, atm, all := classify(p, typ)
		written := writtenInMethods(p, typ)
		imm := map[string]bool{}
		for _, f := range all {
			if !written[f] {
				imm[f] = true
			}
		}
		if typ == "repeat" {
			continue // per-draw local state, never shared
		}
		var keys []string
		for key := range p.funcs {
			if strings.HasPrefix(key, typ+".") {
				keys = append(keys, key)
			}
		}
		sort.Strings(keys)
		for _, key := range keys {
			d := p.funcs[key]
			if d.Body == nil {
				continue
			}
			tr := &tracer{p: p, recv: recvName(d), recvType: typ, immutable: imm, atomic: atm, mutexes: mut, onces: onc, only: written, self: key}
			for _, q := range tr.function(d) {
				if len(q.evs) == 0 {
					continue
				}
				rows = append(rows, fmt.Sprintf("  (%s, %s)", leanStr(key), leanTrace(q)))
			}
			problems = append(problems, tr.problems...)
		}
	}
	// package-level variables assigned outside init()
	for key, d := range p.funcs {
		if d.Body == nil || key == "init" {
			continue
		}
		ast.Inspect(d.Body, func(n ast.Node) bool {
			if a, ok := n.(*ast.AssignStmt); ok && a.Tok != token.DEFINE {
				for _, l := range a.Lhs {
					if id, ok := l.(*ast.Ident); ok && p.globals[id.Name] && id.Obj == nil {
						rows = append(rows, fmt.Sprintf("  (%s, [.write %d])", leanStr(key+" (package variable "+id.Name+")"), fieldID("global."+id.Name)))
					}
				}
			}
			return true
		})
	}
	sort.Strings(rows)
	b.WriteString("def genTraces : List (String × List Ev) := [\n")
	b.WriteString(strings.Join(rows, ",\n") + "]\n\n")

	var fields []string
	for f, id := range fieldIDs {
		fields = append(fields, fmt.Sprintf("(%d, %s)", id, leanStr(f)))
	}
	sort.Strings(fields)
	fmt.Fprintf(&b, "def fieldNames : List (Nat × String) := [%s]\n\n", strings.Join(fields, ", "))
	sort.Strings(problems)
	fmt.Fprintf(&b, "def extractorProblems : List String := %s\n\nend Rapid.Generated\n", leanList(dedupStr(problems)))
	return b.String()
}

func dedupStr(xs []string) []string {
	var out []string
	seen := map[string]bool{}
	for _, x := range xs {
		if !seen[x] {
			seen[x] = true
			out = append(out, x)
		}
	}
	return out
}

func writeIfChanged(path, content string) {
	old, err := os.ReadFile(path)
	if err == nil && string(old) == content {
		return
	}
	if err := os.WriteFile(path, []byte(content), 0o644); err != nil {
		die("write %s: %v", path, err)
	}
}

func main() {
	if len(os.Args) != 3 {
		die("usage: extract <repo dir> <out dir>")
	}
	p := load(os.Args[1])
	out := os.Args[2]
	if err := os.MkdirAll(out, 0o755); err != nil {
		die("mkdir: %v", err)
	}
	writeIfChanged(filepath.Join(out, "Consts.lean"), emitConsts(p))
	writeIfChanged(filepath.Join(out, "CallOrders.lean"), emitCallOrders(p))
	writeIfChanged(filepath.Join(out, "LockTraces.lean"), emitLockTraces(p))
	tr, err := emitTranslated(p)
	if err != nil {
		// the source left the subset the translator understands (or a signature it relies on changed): the
		// generated file then fails to elaborate, which the check reports as a broken obligation
		tr = "/- GENERATED by extract (translate.go): TRANSLATION FAILED -/\n#eval (panic! " + strconv.Quote(err.Error()) + " : Unit)\nexample : False := by decide -- " + strings.ReplaceAll(err.Error(), "\n", " ") + "\n"
		fmt.Println("extract: translation failed:", err)
	}
	writeIfChanged(filepath.Join(out, "Translated.lean"), tr)
	fmt.Println("extract: ok")
}
