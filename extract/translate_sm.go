package main

// Script mode of the imperative translator (shrink.go: the passes of the shrinker).  The shrinker's state is not a
// parameter: a pass reads it again and again while `accept` replaces it.  In `Go.SM` (RapidModel/GoScript.lean)
//
//	s.rec.data, s.rec.groups, s.shrinks      are effects that read the shrinker's current state (at the point of use),
//	s.accept(buf, label, format, args...)    is the effect `Go.SM.accept buf` (label and format only feed the log; arguments
//	                                         with index expressions are still evaluated, they can panic),
//	s.debugf(...)                            is nothing, time.Now().Before(deadline) is true (running out of fuel is the cut),
//	a function value with a result           is called in the monad (the callback of `minimize` calls accept),
//	a function literal                       becomes a Lean `fun` whose body is translated in place.

import (
	"fmt"
	"go/ast"
	"go/token"
	"sort"
	"strings"
)

var smMode bool
var emMode bool // engine mode: script mode with the requests of findBug (Go.EM)
var stMode bool // stream mode: script mode with the requests of the bit stream (Go.StM): groups that are not lexically nested
var smMonad = "Go.SM"
var smPartial func(n ast.Node) bool

func (m *imp) mon() string {
	if m.ck {
		return "Go.CM"
	}
	if m.st {
		return "Go.StM"
	}
	if m.em {
		return "Go.EM"
	}
	if m.sm {
		return "Go.SM"
	}
	return "Go.M"
}

func (m *imp) fuelOut() string {
	if m.sm {
		return m.mon() + ".fuel"
	}
	return ".error .fuel"
}

// a `Go.M` computation where the function's monad is expected
func (m *imp) lift(code string) string {
	if m.sm {
		return "(" + m.mon() + ".ofM " + code + ")"
	}
	return code
}

// engine mode: statements that only feed the log or the bookkeeping of durations
func (m *imp) emSkip(st ast.Stmt) bool {
	timeVar := func(e ast.Expr) bool {
		id, ok := e.(*ast.Ident)
		return ok && (id.Name == "start" || id.Name == "dt" || id.Name == "total")
	}
	switch x := st.(type) {
	case *ast.ExprStmt:
		return strings.HasSuffix(exprText(m.p.fset, x.X), ".Helper()")
	case *ast.IfStmt:
		return exprText(m.p.fset, x.Cond) == "t.shouldLog()" && x.Else == nil
	case *ast.AssignStmt:
		return len(x.Lhs) == 1 && timeVar(x.Lhs[0])
	}
	return false
}

// the early-exit test of findBug: time.Until(deadline) < total/time.Duration(iter)*5
func (m *imp) isEarlyTest(n ast.Node) bool {
	b, ok := n.(*ast.BinaryExpr)
	return ok && m.em && b.Op == token.LSS && exprText(m.p.fset, b.X) == "time.Until(deadline)"
}

// partialX: partial, but a method call that has been bound to a name already (hoistCalls) is a name
func (m *imp) partialX(e ast.Node) bool {
	if !m.sm {
		return partial(e)
	}
	found := false
	ast.Inspect(e, func(n ast.Node) bool {
		if c, ok := n.(*ast.CallExpr); ok {
			if _, bound := m.callTmp[c]; bound {
				return false
			}
		}
		if n != nil && n != e {
			if _, isLit := n.(*ast.FuncLit); isLit {
				return false
			}
		}
		if n != nil && m.smEffect(n) {
			found = true
			return false
		}
		switch x := n.(type) {
		case *ast.IndexExpr:
			found = true
		case *ast.SliceExpr:
			if x.Low != nil || x.High != nil {
				found = true
			}
		case *ast.CallExpr:
			if isLEUint64(x) {
				found = true
			}
		}
		return !found
	})
	return found
}

// which of the shrinker's state does the selector read
func (m *imp) viewRead(x *ast.SelectorExpr) (effect string, ty gty, ok bool) {
	if m.recvTy != "shrinker" || m.ck {
		return "", "", false // (in check mode the shrinker's fields are variables: accept itself is being translated)
	}
	switch exprText(m.p.fset, x) {
	case m.recv + ".rec.data":
		return "Go.SM.data", "[]u64", true
	case m.recv + ".rec.groups":
		return "(Go.SM.groups groupInfoOf)", "[]groupInfo", true
	case m.recv + ".shrinks":
		return "Go.SM.shrinks", "i64", true
	}
	return "", "", false
}

// is evaluating n (itself, not its children) an effect of script mode
// stream mode: which request of the bit stream is the call
func (m *imp) streamCall(c *ast.CallExpr) string {
	if !m.st {
		return ""
	}
	switch exprText(m.p.fset, c.Fun) {
	case m.stream + ".beginGroup":
		return "beginGroup"
	case m.stream + ".endGroup":
		return "endGroup"
	case m.stream + ".drawBits":
		return "drawBits"
	case "flipBiasedCoin":
		return "coin"
	}
	return ""
}

func (m *imp) smEffect(n ast.Node) bool {
	if c, ok := n.(*ast.CallExpr); ok && m.streamCall(c) != "" {
		return true
	}
	if m.isEarlyTest(n) {
		return true
	}
	if c, ok := n.(*ast.CallExpr); ok && m.em && exprText(m.p.fset, c.Fun) == "checkOnce" {
		return true
	}
	switch x := n.(type) {
	case *ast.SelectorExpr:
		_, _, ok := m.viewRead(x)
		return ok
	case *ast.CallExpr:
		if fs, _ := m.funcValue(x.Fun); fs != "" {
			return true
		}
		if id, ok := x.Fun.(*ast.Ident); ok && m.sigs[id.Name] != nil {
			return true
		}
	}
	return false
}

// smHoist: the pre-binds of an effect of script mode (a read of the shrinker's state, a call of a function value, a
// call of a translated function); walk hoists what the operands need first
func (m *imp) smHoist(n ast.Node, walk func(ast.Node)) ([]string, bool) {
	if c, ok := n.(*ast.CallExpr); ok && m.streamCall(c) != "" {
		var code string
		var ty gty
		switch m.streamCall(c) {
		case "beginGroup":
			walk(c.Args[0])
			walk(c.Args[1])
			l, _ := m.expr(c.Args[0], "str")
			st, _ := m.expr(c.Args[1], "bool")
			code, ty = fmt.Sprintf("(Go.StM.beginG %s %s)", l, st), "i64"
		case "endGroup":
			walk(c.Args[0])
			walk(c.Args[1])
			i, _ := m.expr(c.Args[0], "i64")
			d, _ := m.expr(c.Args[1], "bool")
			code, ty = fmt.Sprintf("(Go.StM.endG %s %s)", i, d), "unit"
		case "drawBits":
			walk(c.Args[0])
			n, _ := m.expr(c.Args[0], "i64")
			code, ty = fmt.Sprintf("(Go.StM.draw %s)", n), "u64"
		case "coin":
			walk(c.Args[1])
			p, pty := m.expr(c.Args[1], "f64")
			if pty != "f64" {
				panic("translate(st): flipBiasedCoin with a probability of type " + string(pty))
			}
			m.fuel = true
			// floats are bit patterns here; utils.go's flipBiasedCoin takes the float with that pattern
			code, ty = fmt.Sprintf("(Go.StM.sub (flipBiasedCoin fe (Go.FX.ofBits %s) fuel fun b_ => .ret (Go.Enc.enc b_)))", p), "bool"
		}
		tmp := m.fresh("r")
		m.idxTmp[c], m.idxTy[c] = tmp, ty
		m.t.env[tmp] = ty
		return []string{fmt.Sprintf("%s >>= fun %s =>", code, tmp)}, true
	}
	if m.isEarlyTest(n) {
		it, ty := m.expr(ast.NewIdent("iter"), "i64")
		if ty != "i64" {
			panic("translate(em): the early-exit test without an int `iter`")
		}
		tmp := m.fresh("c")
		m.idxTmp[n], m.idxTy[n] = tmp, "bool"
		m.t.env[tmp] = "bool"
		return []string{fmt.Sprintf("(Go.EM.early %s) >>= fun %s =>", it, tmp)}, true
	}
	if c, ok := n.(*ast.CallExpr); ok && m.em && exprText(m.p.fset, c.Fun) == "checkOnce" {
		tmp := m.fresh("r")
		m.idxTmp[c], m.idxTy[c] = tmp, "errc"
		m.t.env[tmp] = "errc"
		return []string{fmt.Sprintf("Go.EM.checkOnce >>= fun %s =>", tmp)}, true
	}
	switch x := n.(type) {
	case *ast.SelectorExpr:
		eff, ty, ok := m.viewRead(x)
		if !ok {
			return nil, false
		}
		tmp := m.fresh("v")
		m.idxTmp[x], m.idxTy[x] = tmp, ty
		m.t.env[tmp] = ty
		return []string{fmt.Sprintf("%s >>= fun %s =>", eff, tmp)}, true
	case *ast.CallExpr:
		if fs, fty := m.funcValue(x.Fun); fs != "" {
			parts := strings.SplitN(string(fty)[5:], "->", 2)
			ptys := strings.Split(parts[0], ",")
			args := []string{fs}
			for i, a := range x.Args {
				walk(a)
				s, _ := m.expr(a, gty(ptys[i]))
				args = append(args, s)
			}
			tmp := m.fresh("r")
			m.idxTmp[x], m.idxTy[x] = tmp, gty(parts[1])
			m.t.env[tmp] = gty(parts[1])
			return []string{fmt.Sprintf("(%s) >>= fun %s =>", strings.Join(args, " "), tmp)}, true
		}
		id, ok := x.Fun.(*ast.Ident)
		if !ok || m.sigs[id.Name] == nil {
			return nil, false
		}
		sg := m.sigs[id.Name]
		var args []string
		var pre []string
		np := len(sg.params)
		for i := 0; i < np; i++ {
			if sg.variadic && i == np-1 {
				if x.Ellipsis.IsValid() {
					walk(x.Args[i])
					s, _ := m.expr(x.Args[i], sg.params[i])
					args = append(args, s)
				} else {
					var elems []string
					for _, a := range x.Args[i:] {
						walk(a)
						s, _ := m.expr(a, gty(string(sg.params[i])[2:]))
						elems = append(elems, s)
					}
					args = append(args, "["+strings.Join(elems, ", ")+"]")
				}
				break
			}
			a := x.Args[i]
			if fl, ok := a.(*ast.FuncLit); ok {
				args = append(args, m.closure(fl, sg.params[i]))
				continue
			}
			walk(a)
			s, ty := m.expr(a, sg.params[i])
			if ty != sg.params[i] {
				panic(fmt.Sprintf("translate: argument %d of %s has type %s, want %s", i, id.Name, ty, sg.params[i]))
			}
			args = append(args, s)
		}
		if sg.fuel {
			m.fuel = true
			args = append(args, "fuel")
		}
		code := "(" + sg.lean + " " + strings.Join(args, " ") + ")"
		if !sg.sm {
			code = m.lift(code)
		}
		tmp := m.fresh("r")
		var rty gty
		if len(sg.results) == 1 {
			rty = sg.results[0]
		}
		m.idxTmp[x], m.idxTy[x] = tmp, rty
		m.t.env[tmp] = rty
		return append(pre, fmt.Sprintf("%s >>= fun %s =>", code, tmp)), true
	}
	return nil, false
}

// s.accept(buf, label, format, args...)
func (m *imp) smAccept(call *ast.CallExpr, resultNames []string) (string, []string, bool) {
	if len(call.Args) < 3 {
		panic("translate(sm): accept with fewer than three arguments")
	}
	var pre []string
	pre = append(pre, m.hoistIdx(call.Args[0])...)
	buf, ty := m.expr(call.Args[0], "[]u64")
	if ty != "[]u64" {
		panic("translate(sm): the candidate of accept is not a []uint64")
	}
	for _, a := range call.Args[1:] {
		if partial(a) {
			pre = append(pre, m.hoistIdx(a)...) // evaluated for the log line: it can panic
		}
	}
	name := "_"
	if len(resultNames) == 1 {
		name = resultNames[0]
		m.t.env[name] = "bool"
	}
	code := "(Go.SM.accept " + buf + ")"
	if len(pre) > 0 {
		code = "(" + strings.Join(pre, " ") + " " + code + ")"
	}
	return code, []string{name}, true
}

// a function literal as a Lean `fun`; its body is translated in place (it sees the variables of the enclosing function)
func (m *imp) closure(fl *ast.FuncLit, want gty) string {
	saved := m.t.snapshot()
	savedRes := m.results
	var ps []string
	for _, f := range fl.Type.Params.List {
		for _, n := range f.Names {
			ty := goTyX(f.Type)
			m.t.env[n.Name] = ty
			ps = append(ps, fmt.Sprintf("(%s : %s)", n.Name, leanTyX(ty)))
		}
	}
	m.results = nil
	if fl.Type.Results != nil {
		for _, f := range fl.Type.Results.List {
			m.results = append(m.results, goTyX(f.Type))
		}
	}
	body := m.block(fl.Body.List, ictx{tail: func() string {
		if len(m.results) == 0 {
			return "pure ()"
		}
		panic("translate(sm): a function literal that can end without a return")
	}})
	m.results = savedRes
	m.t.restore(saved)
	return "(fun " + strings.Join(ps, " ") + " =>\n  " + indent(body) + ")"
}

// assignedScoped: the variables of the enclosing scope (and state fields) that the statements assign; a name declared
// inside the statements (`x := …`, `var x`) hides the outer one from there on, within its block
func (m *imp) assignedScoped(list []ast.Stmt) []string {
	seen := map[string]bool{}
	var stmts func(list []ast.Stmt, local map[string]bool)
	var stmt func(st ast.Stmt, local map[string]bool)
	copyOf := func(l map[string]bool) map[string]bool {
		c := map[string]bool{}
		for k := range l {
			c[k] = true
		}
		return c
	}
	var note func(e ast.Expr, local map[string]bool)
	note = func(e ast.Expr, local map[string]bool) {
		switch x := e.(type) {
		case *ast.Ident:
			if _, ok := m.t.env[x.Name]; ok && !local[x.Name] {
				seen[x.Name] = true
			}
		case *ast.SelectorExpr:
			if id, ok := x.X.(*ast.Ident); ok && m.objs[id.Name] != "" {
				seen[id.Name+"_"+x.Sel.Name] = true
			} else if id, ok := x.X.(*ast.Ident); ok && id.Name == m.recv && m.recvTy != "shrinker" {
				seen[m.fieldVar(x.Sel.Name)] = true
			} else {
				note(x.X, local)
			}
		case *ast.IndexExpr:
			note(x.X, local)
		}
	}
	// method calls on objects change their fields
	calls := func(n ast.Node, local map[string]bool) {
		ast.Inspect(n, func(c ast.Node) bool {
			if _, ok := c.(*ast.FuncLit); ok {
				return false
			}
			call, ok := c.(*ast.CallExpr)
			if !ok {
				return true
			}
			if sel, ok := call.Fun.(*ast.SelectorExpr); ok {
				if id, ok := sel.X.(*ast.Ident); ok {
					objTy := ""
					prefix := ""
					if id.Name == m.recv && m.recvTy != "shrinker" {
						objTy, prefix = m.recvTy, m.recv+"_"
					} else if m.objs[id.Name] != "" {
						objTy, prefix = m.objs[id.Name], id.Name+"_"
					}
					if objTy != "" {
						if k := m.p.resolveMethod(objTy, sel.Sel.Name); k != "" {
							if sg := m.sigs[k]; sg != nil {
								for _, f := range sg.fields {
									if !isFunc(f.ty) {
										seen[prefix+f.name] = true
									}
								}
							}
						}
					}
				}
			}
			return true
		})
	}
	stmt = func(st ast.Stmt, local map[string]bool) {
		switch x := st.(type) {
		case *ast.AssignStmt:
			for _, r := range x.Rhs {
				calls(r, local)
			}
			if x.Tok == token.DEFINE {
				for _, l := range x.Lhs {
					if id, ok := l.(*ast.Ident); ok {
						local[id.Name] = true
					}
				}
			} else {
				for _, l := range x.Lhs {
					note(l, local)
				}
			}
		case *ast.IncDecStmt:
			note(x.X, local)
		case *ast.DeclStmt:
			if gd, ok := x.Decl.(*ast.GenDecl); ok {
				for _, sp := range gd.Specs {
					if vs, ok := sp.(*ast.ValueSpec); ok {
						for _, n := range vs.Names {
							local[n.Name] = true
						}
					}
				}
			}
		case *ast.ExprStmt:
			calls(x.X, local)
		case *ast.ReturnStmt:
			for _, r := range x.Results {
				calls(r, local)
			}
		case *ast.BlockStmt:
			stmts(x.List, copyOf(local))
		case *ast.IfStmt:
			inner := copyOf(local)
			if x.Init != nil {
				stmt(x.Init, inner)
			}
			calls(x.Cond, inner)
			stmts(x.Body.List, copyOf(inner))
			if x.Else != nil {
				stmt(x.Else, copyOf(inner))
			}
		case *ast.ForStmt:
			inner := copyOf(local)
			if x.Init != nil {
				stmt(x.Init, inner)
			}
			if x.Cond != nil {
				calls(x.Cond, inner)
			}
			stmts(x.Body.List, copyOf(inner))
			if x.Post != nil {
				stmt(x.Post, inner)
			}
		case *ast.RangeStmt:
			inner := copyOf(local)
			if id, ok := x.Key.(*ast.Ident); ok && x.Tok == token.DEFINE {
				inner[id.Name] = true
			}
			if id, ok := x.Value.(*ast.Ident); ok && x.Tok == token.DEFINE {
				inner[id.Name] = true
			}
			stmts(x.Body.List, inner)
		}
	}
	stmts = func(list []ast.Stmt, local map[string]bool) {
		for _, st := range list {
			stmt(st, local)
		}
	}
	stmts(list, map[string]bool{})
	var out []string
	for v := range seen {
		out = append(out, v)
	}
	sort.Strings(out)
	return out
}
