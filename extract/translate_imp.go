package main

// Third part of the translator: imperative Go code over slices and structs (data.go: the recording
// state machine, removeGroup, prune, the two bit streams) becomes Lean definitions in `Go.M = Except Panic`:
//
//	receiver fields a method reads or writes (its own and those of the methods it calls, embedded structs
//	included) are parameters and results;  slices are values (List);  x[i], x[i:], x[:j] that are out of
//	range, failed assertions and panic(invalidData(..)) are errors;  a && b evaluates b only if a holds;
//	`for` loops become recursive definitions with explicit fuel.
//
// The subset is what these files use; anything else is an error (the generated file then fails to elaborate).

import (
	"fmt"
	"go/ast"
	"go/token"
	"sort"
	"strconv"
	"strings"
)

var knownStructs map[string]*ast.StructType

type sfield struct {
	name string
	ty   gty
}

// fields of a struct, embedded structs flattened, in declaration order
func structFields(name string) []sfield {
	st := knownStructs[name]
	if st == nil {
		panic("translate: unknown struct " + name)
	}
	var out []sfield
	for _, f := range st.Fields.List {
		if len(f.Names) == 0 {
			if id, ok := f.Type.(*ast.Ident); ok && knownStructs[id.Name] != nil {
				out = append(out, structFields(id.Name)...)
				continue
			}
			panic("translate: unsupported embedded field in " + name)
		}
		for _, n := range f.Names {
			out = append(out, sfield{n.Name, goTyX(f.Type)})
		}
	}
	return out
}

// goTyX: goTy extended by strings, slices, structs and function-typed fields
func goTyX(e ast.Expr) gty {
	switch x := e.(type) {
	case *ast.Ellipsis:
		return "[]" + goTyX(x.Elt) // a variadic parameter is a slice
	case *ast.ArrayType:
		// a fixed-size array is a list of that length (`var a [8]byte` makes it; nothing changes its length)
		return "[]" + goTyX(x.Elt)
	case *ast.Ident:
		if x.Name == "string" {
			return "str"
		}
		if knownStructs[x.Name] != nil {
			return gty(x.Name)
		}
	case *ast.FuncType:
		var ps, rs []string
		for _, f := range x.Params.List {
			k := len(f.Names)
			if k == 0 {
				k = 1
			}
			for i := 0; i < k; i++ {
				ps = append(ps, string(goTyX(f.Type)))
			}
		}
		if x.Results != nil {
			for _, f := range x.Results.List {
				rs = append(rs, string(goTyX(f.Type)))
			}
		}
		return gty("func:" + strings.Join(ps, ",") + "->" + strings.Join(rs, ","))
	case *ast.StarExpr:
		if id, ok := x.X.(*ast.Ident); ok && id.Name == "testError" && ckMode {
			return "errv" // the model's Option Err
		}
		if id, ok := x.X.(*ast.Ident); ok && id.Name == "testError" && emMode {
			return "errc" // what findBug looks at in an error: nil, invalid data, anything else
		}
		if id, ok := x.X.(*ast.Ident); ok && knownStructs[id.Name] != nil {
			return gty(id.Name) // pointers to structs are objects whose fields are variables
		}
	}
	return goTy(e)
}

func isFunc(t gty) bool { return strings.HasPrefix(string(t), "func:") }

func leanTyX(t gty) string {
	s := string(t)
	switch {
	case strings.HasPrefix(s, "[]"):
		return "(List " + leanTyX(gty(s[2:])) + ")"
	case s == "str" && bytesMode:
		return "(List UInt8)"
	case s == "err":
		return "Bool"
	case s == "str":
		return "String"
	case s == "errc":
		return "Go.ErrC"
	case s == "errv":
		return "Go.ErrV"
	case s == "sspec":
		return "Go.SSpec"
	case s == "unit":
		return "Unit"
	case knownStructs[s] != nil:
		return s
	case strings.HasPrefix(s, "func:"):
		parts := strings.SplitN(s[5:], "->", 2)
		var out []string
		for _, p := range strings.Split(parts[0], ",") {
			out = append(out, leanTyX(gty(p)))
		}
		if smMode {
			out = append(out, smMonad+" "+leanTyX(gty(parts[1])))
		} else {
			out = append(out, leanTyX(gty(parts[1])))
		}
		return "(" + strings.Join(out, " → ") + ")"
	}
	return leanTy(t)
}

func leanField(n string) string {
	switch n {
	case "end", "from", "at", "do", "then", "else", "fun", "where", "with", "open", "in", "have", "show", "by":
		return n + "_"
	}
	return n
}

// the Lean structure for a Go struct
func emitStruct(name string) string {
	var b strings.Builder
	fmt.Fprintf(&b, "structure %s where\n", name)
	for _, f := range structFields(name) {
		fmt.Fprintf(&b, "  %s : %s\n", leanField(f.name), leanTyX(f.ty))
	}
	b.WriteString("deriving Repr, DecidableEq, Inhabited\n")
	return b.String()
}

type imp struct {
	t        *trans
	p        *pkgInfo
	key      string
	recv     string
	recvTy   string
	fields   []sfield // the receiver state of this method
	results  []gty
	aux      []string
	loopN    int
	tmpN     int
	fuel     bool
	sigs     map[string]*isig  // translated imp functions
	objs     map[string]string // object variables (the receiver, locals made with &T{…}): their struct type
	breakOK  bool              // inside a loop whose result carries an early return
	callTmp  map[*ast.CallExpr]string
	idxTmp   map[ast.Node]string
	idxTy    map[ast.Node]gty
	pureSigs map[string][]sfield // pure-mode methods (jsf64ctx.rand): their receiver fields in order
	st       bool                // stream mode (repeat.more): Go.StM — begin/endGroup, drawBits and flipBiasedCoin are requests
	stream   string              // stream mode: the name of the bit stream parameter
	em       bool                // engine mode (findBug): Go.EM — a script mode with the requests init / checkOnce / early
	ck       bool                // check mode (doCheck, checkFailFile): Go.CM
	ckSt     *ckState
	sm       bool // script mode (shrink.go's shrinker): reads of s.rec / s.shrinks and s.accept are effects (Go.SM)
}

type isig struct {
	sm       bool  // a Go.SM function
	variadic bool  // the last parameter is variadic
	argIdx   []int // positions of the translated parameters among the call's arguments (time.Time parameters are dropped)
	lean     string
	recvTy   string
	fields   []sfield
	params   []gty
	results  []gty
	fuel     bool
}

// which struct declares method m for receiver type ty (embedded structs are searched)
func (p *pkgInfo) resolveMethod(ty, m string) string {
	if p.funcs[ty+"."+m] != nil {
		return ty + "." + m
	}
	st := knownStructs[ty]
	if st == nil {
		return ""
	}
	for _, f := range st.Fields.List {
		if len(f.Names) == 0 {
			if id, ok := f.Type.(*ast.Ident); ok {
				if k := p.resolveMethod(id.Name, m); k != "" {
					return k
				}
			}
		}
	}
	return ""
}

// the receiver fields a method touches, directly or through methods called on the same receiver
func (p *pkgInfo) methodFields(key string, seen map[string]bool) map[string]bool {
	out := map[string]bool{}
	if seen[key] {
		return out
	}
	seen[key] = true
	d := p.funcs[key]
	if d == nil || d.Recv == nil {
		return out
	}
	rn, rt := recvName(d), recvType(d)
	all := map[string]bool{}
	for _, f := range structFields(rt) {
		all[f.name] = true
	}
	ast.Inspect(d.Body, func(n ast.Node) bool {
		switch x := n.(type) {
		case *ast.CallExpr:
			if sel, ok := x.Fun.(*ast.SelectorExpr); ok {
				if id, ok := sel.X.(*ast.Ident); ok && id.Name == rn {
					if k := p.resolveMethod(rt, sel.Sel.Name); k != "" {
						for f := range p.methodFields(k, seen) {
							out[f] = true
						}
					}
				}
			}
		case *ast.SelectorExpr:
			if id, ok := x.X.(*ast.Ident); ok && id.Name == rn && all[x.Sel.Name] {
				out[x.Sel.Name] = true
			}
		}
		return true
	})
	return out
}

func (m *imp) fresh(base string) string {
	m.tmpN++
	return fmt.Sprintf("%s_%d", base, m.tmpN)
}

func (m *imp) fieldVar(f string) string { return m.recv + "_" + f }

func (m *imp) stateNames() []string {
	var out []string
	for _, f := range m.fields {
		if !isFunc(f.ty) { // function-valued fields are read-only: parameters, not results
			out = append(out, m.fieldVar(f.name))
		}
	}
	return out
}

func tupleTyX(ts []gty) string {
	if len(ts) == 0 {
		return "Unit"
	}
	var parts []string
	for _, x := range ts {
		parts = append(parts, leanTyX(x))
	}
	return strings.Join(parts, " × ")
}

// ---- expressions

// partial: does evaluating e involve an index or slice expression (which may panic)?
func partial(e ast.Node) bool {
	found := false
	ast.Inspect(e, func(n ast.Node) bool {
		switch x := n.(type) {
		case *ast.IndexExpr:
			found = true
		case *ast.SliceExpr:
			if x.Low != nil || x.High != nil {
				found = true
			}
		case *ast.CallExpr:
			if isLEUint64(x) {
				found = true
			}
			if smPartial != nil && smPartial(x) {
				found = true
			}
		case *ast.SelectorExpr:
			if smPartial != nil && smPartial(x) {
				found = true
			}
		case *ast.FuncLit:
			return false
		}
		return !found
	})
	return found
}

// binary.LittleEndian.Uint64(b): panics when len(b) < 8
func isLEUint64(c *ast.CallExpr) bool {
	if sel, ok := c.Fun.(*ast.SelectorExpr); ok && sel.Sel.Name == "Uint64" {
		if in, ok := sel.X.(*ast.SelectorExpr); ok && in.Sel.Name == "LittleEndian" {
			if id, ok := in.X.(*ast.Ident); ok && id.Name == "binary" {
				return true
			}
		}
	}
	return false
}

// pre-binds for every index/slice expression in e (innermost first); afterwards t.expr sees them as names
func (m *imp) hoistIdx(e ast.Expr) []string {
	var pre []string
	var walk func(n ast.Node)
	walk = func(n ast.Node) {
		if n == nil {
			return
		}
		switch x := n.(type) {
		case *ast.BinaryExpr:
			if (x.Op == token.LAND || x.Op == token.LOR) && partial(x.Y) {
				panic("translate: short-circuit operator with a partial right operand outside a condition")
			}
		}
		// children first
		switch x := n.(type) {
		case *ast.IndexExpr:
			walk(x.X)
			walk(x.Index)
			xs, xty := m.expr(x.X, "")
			if !strings.HasPrefix(string(xty), "[]") {
				panic("translate: index of a non-slice")
			}
			i, ity := m.expr(x.Index, "i64")
			if ity != "i64" {
				panic("translate: index is not an int")
			}
			tmp := m.fresh("e")
			pre = append(pre, fmt.Sprintf("%s >>= fun %s =>", m.lift(fmt.Sprintf("(Go.idx %s %s)", xs, i)), tmp))
			m.idxTmp[x] = tmp
			m.idxTy[x] = gty(string(xty)[2:])
			m.t.env[tmp] = m.idxTy[x]
			return
		case *ast.SliceExpr:
			walk(x.X)
			if x.Low != nil {
				walk(x.Low)
			}
			if x.High != nil {
				walk(x.High)
			}
			if x.Max != nil {
				panic("translate: unsupported slice expression")
			}
			if x.Low == nil && x.High == nil {
				return // x[:] is x (slices are values here)
			}
			xs, xty := m.expr(x.X, "")
			tmp := m.fresh("s")
			if x.Low != nil && x.High != nil {
				i, _ := m.expr(x.Low, "i64")
				j, _ := m.expr(x.High, "i64")
				pre = append(pre, fmt.Sprintf("%s >>= fun %s =>", m.lift(fmt.Sprintf("(Go.slice %s %s %s)", xs, i, j)), tmp))
				m.idxTmp[x] = tmp
				m.idxTy[x] = xty
				m.t.env[tmp] = xty
				return
			}
			if x.High != nil {
				j, _ := m.expr(x.High, "i64")
				pre = append(pre, fmt.Sprintf("%s >>= fun %s =>", m.lift(fmt.Sprintf("(Go.sliceTo %s %s)", xs, j)), tmp))
			} else if x.Low != nil {
				i, _ := m.expr(x.Low, "i64")
				pre = append(pre, fmt.Sprintf("%s >>= fun %s =>", m.lift(fmt.Sprintf("(Go.sliceFrom %s %s)", xs, i)), tmp))
			} else {
				panic("translate: x[:]")
			}
			m.idxTmp[x] = tmp
			m.idxTy[x] = xty
			m.t.env[tmp] = xty
			return
		}
		if _, ok := n.(*ast.FuncLit); ok {
			return
		}
		if c, ok := n.(*ast.CallExpr); ok && m.sm {
			if _, bound := m.callTmp[c]; bound {
				return // a method call that was bound to a name before (with its arguments)
			}
		}
		if m.sm {
			if more, done := m.smHoist(n, walk); done {
				pre = append(pre, more...)
				return
			}
		}
		if call, ok := n.(*ast.CallExpr); ok && isLEUint64(call) {
			walk(call.Args[0])
			a, _ := m.expr(call.Args[0], "[]u8")
			tmp := m.fresh("e")
			pre = append(pre, fmt.Sprintf("%s >>= fun %s =>", m.lift(fmt.Sprintf("(Go.leU64 %s)", a)), tmp))
			m.idxTmp[call] = tmp
			m.idxTy[call] = "u64"
			m.t.env[tmp] = "u64"
			return
		}
		ast.Inspect(n, func(c ast.Node) bool {
			if c == n {
				return true
			}
			if c != nil {
				walk(c)
			}
			return false
		})
	}
	walk(e)
	return pre
}

// method calls inside an expression (s.ctx.rand() & mask): bound to a name first
func (m *imp) hoistCalls(e ast.Expr) []string {
	var pre []string
	ast.Inspect(e, func(n ast.Node) bool {
		call, ok := n.(*ast.CallExpr)
		if !ok {
			return true
		}
		if _, ok := call.Fun.(*ast.SelectorExpr); !ok {
			return true
		}
		tmp := m.fresh("r")
		code, names, ok := m.methodCall(call, []string{tmp})
		if !ok {
			m.tmpN--
			return true
		}
		bound := m.bindTuple(names, code, "")
		pre = append(pre, strings.TrimRight(bound, " \n"))
		m.callTmp[call] = tmp
		return false
	})
	return pre
}

// expr: the pure part (index/slice expressions have been hoisted)
func (m *imp) expr(e ast.Expr, want gty) (string, gty) {
	if m.ck {
		if s, ty, ok := m.ckExpr(e, want); ok {
			return s, ty
		}
	}
	if bytesMode {
		if s, ty, ok := m.bytesExpr(e, want); ok {
			return s, ty
		}
	}
	if tmp, ok := m.idxTmp[e]; ok && m.sm {
		return tmp, m.idxTy[e] // an effect that was bound to a name before
	}
	if v, ok := m.t.constVal(e); ok {
		if want == "" {
			return v.String(), ""
		}
		return lit(v, want), want
	}
	switch x := e.(type) {
	case *ast.ParenExpr:
		return m.expr(x.X, want)
	case *ast.IndexExpr, *ast.SliceExpr:
		if tmp, ok := m.idxTmp[e]; ok {
			return tmp, m.idxTy[e]
		}
		if sl, ok := e.(*ast.SliceExpr); ok && sl.Low == nil && sl.High == nil && sl.Max == nil {
			return m.expr(sl.X, want)
		}
		panic("translate: index expression that was not hoisted: " + exprText(m.p.fset, e))
	case *ast.Ident:
		if ty, ok := m.t.env[x.Name]; ok {
			return m.t.name(x.Name), ty
		}
		if c, ok := m.p.consts[x.Name]; ok && strings.HasPrefix(c, "\"") {
			return c, "str"
		}
	case *ast.BasicLit:
		if x.Kind == token.STRING {
			return x.Value, "str"
		}
	case *ast.SelectorExpr:
		if tmp, ok := m.idxTmp[x]; ok {
			return tmp, m.idxTy[x]
		}
		if id, ok := x.X.(*ast.Ident); ok && id.Name == m.recv {
			for _, f := range m.fields {
				if f.name == x.Sel.Name {
					return m.fieldVar(f.name), f.ty
				}
			}
			panic("translate: receiver field outside the method's state: " + x.Sel.Name)
		}
		if id, ok := x.X.(*ast.Ident); ok && m.objs[id.Name] != "" {
			v := id.Name + "_" + x.Sel.Name
			if ty, ok := m.t.env[v]; ok {
				return v, ty
			}
			panic("translate: unknown field " + v)
		}
		// field of a struct value
		s, ty := m.expr(x.X, "")
		if knownStructs[string(ty)] != nil {
			for _, f := range structFields(string(ty)) {
				if f.name == x.Sel.Name {
					return "(" + s + ")." + leanField(f.name), f.ty
				}
			}
		}
	case *ast.UnaryExpr:
		if x.Op == token.NOT {
			s, _ := m.expr(x.X, "bool")
			return "(!" + s + ")", "bool"
		}
		if x.Op == token.SUB {
			if v, ok := m.t.constVal(x.X); ok && want != "" {
				return lit(v.Neg(v), want), want
			}
			s, ty := m.expr(x.X, want)
			return "(-" + s + ")", ty
		}
	case *ast.BinaryExpr:
		return m.binary(x, want)
	case *ast.CallExpr:
		if tmp, ok := m.callTmp[x]; ok {
			return tmp, m.t.env[tmp]
		}
		if tmp, ok := m.idxTmp[x]; ok {
			return tmp, m.idxTy[x]
		}
		if m.sm && exprText(m.p.fset, x) == "time.Now().Before(deadline)" {
			return "true", "bool" // the deadline never expires here: running out of fuel is the cut
		}
		// []T(nil): the empty slice
		if at, ok := x.Fun.(*ast.ArrayType); ok && at.Len == nil && len(x.Args) == 1 && exprText(m.p.fset, x.Args[0]) == "nil" {
			return "[]", goTyX(at)
		}
		// a call of a function value (a parameter or a field of function type): pure
		if fs, fty := m.funcValue(x.Fun); fs != "" && !m.sm {
			parts := strings.SplitN(string(fty)[5:], "->", 2)
			ptys := strings.Split(parts[0], ",")
			args := []string{fs}
			for i, a := range x.Args {
				s, _ := m.expr(a, gty(ptys[i]))
				args = append(args, s)
			}
			return "(" + strings.Join(args, " ") + ")", gty(parts[1])
		}
		fn := exprText(m.p.fset, x.Fun)
		switch fn {
		case "bits.Len64":
			a, _ := m.expr(x.Args[0], "u64")
			return "(Go.len64 " + a + ")", "i64"
		case "len":
			s, ty := m.expr(x.Args[0], "")
			if !strings.HasPrefix(string(ty), "[]") {
				panic("translate: len of a non-slice")
			}
			return "(Go.glen " + s + ")", "i64"
		case "append":
			return m.appendExpr(x)
		case "uint", "uint64", "int", "int64":
			to := goTy(x.Fun)
			if v, ok := m.t.constVal(x.Args[0]); ok {
				return lit(v, to), to
			}
			s, from := m.expr(x.Args[0], to)
			return m.t.convert(s, from, to), to
		case "bitmask64":
			a, _ := m.expr(x.Args[0], "u64")
			return "(bitmask64 " + a + ")", "u64"
		}
	case *ast.CompositeLit:
		if at, ok := x.Type.(*ast.ArrayType); ok && at.Len == nil {
			ty := goTyX(at)
			var elems []string
			for _, el := range x.Elts {
				e, _ := m.expr(el, gty(string(ty)[2:]))
				elems = append(elems, e)
			}
			return "[" + strings.Join(elems, ", ") + "]", ty
		}
		if id, ok := x.Type.(*ast.Ident); ok && knownStructs[id.Name] != nil {
			given := map[string]string{}
			for _, el := range x.Elts {
				kv := el.(*ast.KeyValueExpr)
				k := kv.Key.(*ast.Ident).Name
				var fty gty
				for _, f := range structFields(id.Name) {
					if f.name == k {
						fty = f.ty
					}
				}
				s, _ := m.expr(kv.Value, fty)
				given[k] = s
			}
			var parts []string
			for _, f := range structFields(id.Name) {
				v, ok := given[f.name]
				if !ok {
					v = m.zero(f.ty)
				}
				parts = append(parts, leanField(f.name)+" := "+v)
			}
			return "({ " + strings.Join(parts, ", ") + " } : " + id.Name + ")", gty(id.Name)
		}
	}
	if v, ok := m.t.constVal(e); ok {
		if want == "" {
			return v.String(), ""
		}
		return lit(v, want), want
	}
	if id, ok := e.(*ast.Ident); ok && (id.Name == "true" || id.Name == "false") {
		return id.Name, "bool"
	}
	if id, ok := e.(*ast.Ident); ok && id.Name == "nil" && m.em {
		return "Go.ErrC.none", "errc"
	}
	if c, ok := e.(*ast.CallExpr); ok && m.em {
		if sel, ok := c.Fun.(*ast.SelectorExpr); ok && sel.Sel.Name == "isInvalidData" && len(c.Args) == 0 {
			if s, ty := m.expr(sel.X, ""); ty == "errc" {
				return "(Go.ErrC.isInvalid " + s + ")", "bool"
			}
		}
	}
	if sel, ok := e.(*ast.SelectorExpr); ok {
		if s, ok := mathConsts[exprText(m.p.fset, sel)]; ok && want != "" {
			return "(" + s + " : " + leanTyX(want) + ")", want
		}
	}
	panic(fmt.Sprintf("translate(imp): unsupported expression %T: %s", e, exprText(m.p.fset, e)))
}

// the variable holding a function value, if e denotes one
func (m *imp) funcValue(e ast.Expr) (string, gty) {
	switch x := e.(type) {
	case *ast.Ident:
		if ty, ok := m.t.env[x.Name]; ok && isFunc(ty) {
			return x.Name, ty
		}
	case *ast.SelectorExpr:
		if id, ok := x.X.(*ast.Ident); ok {
			if id.Name == m.recv {
				for _, f := range m.fields {
					if f.name == x.Sel.Name && isFunc(f.ty) {
						return m.fieldVar(f.name), f.ty
					}
				}
			}
			if m.objs[id.Name] != "" {
				v := id.Name + "_" + x.Sel.Name
				if ty, ok := m.t.env[v]; ok && isFunc(ty) {
					return v, ty
				}
			}
		}
	}
	return "", ""
}

func (m *imp) zero(ty gty) string {
	s := string(ty)
	switch {
	case strings.HasPrefix(s, "[]"):
		return "[]"
	case s == "str":
		return "\"\""
	case s == "bool":
		return "false"
	}
	return "(0 : " + leanTyX(ty) + ")"
}

func (m *imp) binary(x *ast.BinaryExpr, want gty) (string, gty) {
	switch x.Op {
	case token.SHL, token.SHR:
		a, ty := m.expr(x.X, want)
		if ty == "" {
			if want == "" {
				panic("translate: shift of an untyped constant without context: " + exprText(m.p.fset, x))
			}
			ty = want
			a, _ = m.expr(x.X, want)
		}
		n, nty := m.expr(x.Y, "u64")
		if nty != "u64" {
			n = m.t.convert(n, nty, "u64")
		}
		if ty != "u64" {
			panic("translate(imp): shift of type " + string(ty))
		}
		fn := map[token.Token]string{token.SHL: "shl", token.SHR: "shr"}[x.Op]
		return "(Go." + fn + "64 " + a + " " + n + ")", ty
	case token.LAND, token.LOR:
		a, _ := m.expr(x.X, "bool")
		b, _ := m.expr(x.Y, "bool")
		op := map[token.Token]string{token.LAND: "&&", token.LOR: "||"}[x.Op]
		return "(" + a + " " + op + " " + b + ")", "bool"
	}
	tyOf := func(e ast.Expr) gty {
		if _, ok := m.t.constVal(e); ok {
			return ""
		}
		_, ty := m.expr(e, "")
		return ty
	}
	ty := tyOf(x.X)
	if ty == "" {
		ty = tyOf(x.Y)
	}
	if ty == "" {
		ty = want
	}
	a, _ := m.expr(x.X, ty)
	b, _ := m.expr(x.Y, ty)
	switch x.Op {
	case token.ADD, token.SUB, token.MUL:
		return "(" + a + " " + x.Op.String() + " " + b + ")", ty
	case token.QUO:
		if ty != "u64" {
			panic("translate(imp): division of type " + string(ty)) // (signed division truncates towards zero in Go)
		}
		return "(" + a + " / " + b + ")", ty
	case token.AND:
		return "(" + a + " &&& " + b + ")", ty
	case token.OR:
		return "(" + a + " ||| " + b + ")", ty
	case token.XOR:
		return "(" + a + " ^^^ " + b + ")", ty
	case token.EQL:
		return "(" + a + " == " + b + ")", "bool"
	case token.NEQ:
		return "(" + a + " != " + b + ")", "bool"
	case token.LSS, token.LEQ, token.GTR, token.GEQ:
		op := map[token.Token]string{token.LSS: "<", token.LEQ: "≤", token.GTR: ">", token.GEQ: "≥"}[x.Op]
		return "(decide (" + a + " " + op + " " + b + "))", "bool"
	}
	panic("translate(imp): unsupported operator " + x.Op.String())
}

// append(x, a, b) and append(x, y...)
func (m *imp) appendExpr(c *ast.CallExpr) (string, gty) {
	base, ty := m.expr(c.Args[0], "")
	if !strings.HasPrefix(string(ty), "[]") {
		panic("translate: append to a non-slice")
	}
	elem := gty(string(ty)[2:])
	if c.Ellipsis.IsValid() {
		if len(c.Args) != 2 {
			panic("translate: append with ... and several arguments")
		}
		y, _ := m.expr(c.Args[1], ty)
		return "(" + base + " ++ " + y + ")", ty
	}
	var elems []string
	for _, a := range c.Args[1:] {
		s, _ := m.expr(a, elem)
		elems = append(elems, s)
	}
	return "(" + base + " ++ [" + strings.Join(elems, ", ") + "])", ty
}

// cond: a condition as a term of type `Go.M Bool` (or a pure Bool when nothing in it can panic)
func (m *imp) cond(e ast.Expr) (code string, pure bool) {
	if !m.partialX(e) {
		s, _ := m.expr(e, "bool")
		return s, true
	}
	if p, ok := e.(*ast.ParenExpr); ok {
		return m.cond(p.X)
	}
	if b, ok := e.(*ast.BinaryExpr); ok && (b.Op == token.LAND || b.Op == token.LOR) {
		l, lp := m.cond(b.X)
		r, rp := m.cond(b.Y)
		if lp {
			l = "(pure " + l + ")"
		}
		if rp {
			r = "(pure " + r + ")"
		}
		fn := map[token.Token]string{token.LAND: "Go.andThen", token.LOR: "Go.orElse"}[b.Op]
		if m.sm {
			fn = map[token.Token]string{token.LAND: m.mon() + ".andThen", token.LOR: m.mon() + ".orElse"}[b.Op]
		}
		return "(" + fn + " " + l + " " + r + ")", false
	}
	pre := m.hoistIdx(e)
	s, _ := m.expr(e, "bool")
	return "(" + strings.Join(pre, " ") + " pure " + s + ")", false
}

// ---- statements

type ictx struct {
	tail   func() string             // what follows the last statement of the list
	cont   func() string             // `continue` (inside a loop)
	brk    func() string             // `break` (inside a loop)
	retRaw func(tuple string) string // how a return of the function's result tuple leaves (inside a loop: through its result)
}

func (c ictx) withTail(tail func() string) ictx { return ictx{tail, c.cont, c.brk, c.retRaw} }

func (m *imp) ret(c ictx, vals []string) string {
	all := append(append([]string{}, vals...), m.stateNames()...)
	if c.retRaw != nil {
		return c.retRaw(tupleOf(all))
	}
	return "pure " + tupleOf(all)
}

// variables (locals of the enclosing scope and state fields) that the statements assign
func (m *imp) assigned(list []ast.Stmt) []string {
	if m.sm {
		return m.assignedScoped(list)
	}
	seen := map[string]bool{}
	var note func(e ast.Expr)
	note = func(e ast.Expr) {
		switch x := e.(type) {
		case *ast.Ident:
			if _, ok := m.t.env[x.Name]; ok {
				seen[x.Name] = true
			}
		case *ast.SelectorExpr:
			if id, ok := x.X.(*ast.Ident); ok && id.Name == m.recv {
				seen[m.fieldVar(x.Sel.Name)] = true
			} else if id, ok := x.X.(*ast.Ident); ok && m.objs[id.Name] != "" {
				seen[id.Name+"_"+x.Sel.Name] = true
			} else {
				note(x.X)
			}
		case *ast.IndexExpr:
			note(x.X)
		}
	}
	for _, st := range list {
		ast.Inspect(st, func(n ast.Node) bool {
			switch x := n.(type) {
			case *ast.AssignStmt:
				if x.Tok != token.DEFINE {
					for _, l := range x.Lhs {
						note(l)
					}
				}
			case *ast.IncDecStmt:
				note(x.X)
			case *ast.CallExpr:
				if bytesMode && exprText(m.p.fset, x.Fun) == "f.WriteString" {
					seen["f_written"] = true // what was written so far grows
				}
				if sel, ok := x.Fun.(*ast.SelectorExpr); ok {
					if id, ok := sel.X.(*ast.Ident); ok && id.Name == m.recv {
						if k := m.p.resolveMethod(m.recvTy, sel.Sel.Name); k != "" {
							if sg := m.sigs[k]; sg != nil {
								for _, f := range sg.fields {
									if !isFunc(f.ty) {
										seen[m.fieldVar(f.name)] = true
									}
								}
							}
						}
					}
					if id, ok := sel.X.(*ast.Ident); ok && m.objs[id.Name] != "" {
						if k := m.p.resolveMethod(m.objs[id.Name], sel.Sel.Name); k != "" {
							if sg := m.sigs[k]; sg != nil {
								for _, f := range sg.fields {
									if !isFunc(f.ty) {
										seen[id.Name+"_"+f.name] = true
									}
								}
							}
						}
					}
					// recv.field.method(): the flattened fields of the struct-valued field
					if inner, ok := sel.X.(*ast.SelectorExpr); ok {
						if id2, ok := inner.X.(*ast.Ident); ok && id2.Name == m.recv {
							for _, f := range m.fields {
								if strings.HasPrefix(f.name, inner.Sel.Name+"_") {
									seen[m.fieldVar(f.name)] = true
								}
							}
						}
					}
				}
			}
			return true
		})
	}
	var out []string
	for v := range seen {
		out = append(out, v)
	}
	sort.Strings(out)
	return out
}

func (m *imp) varTy(v string) gty {
	if ty, ok := m.t.env[v]; ok {
		return ty
	}
	for _, f := range m.fields {
		if m.fieldVar(f.name) == v {
			return f.ty
		}
	}
	panic("translate: unknown variable " + v)
}

// does every path through the statements end in a return or a panic?
func returns(list []ast.Stmt) bool {
	if len(list) == 0 {
		return false
	}
	switch s := list[len(list)-1].(type) {
	case *ast.ReturnStmt:
		return true
	case *ast.BranchStmt:
		return s.Tok == token.BREAK || s.Tok == token.CONTINUE
	case *ast.ExprStmt:
		if c, ok := s.X.(*ast.CallExpr); ok {
			if id, ok := c.Fun.(*ast.Ident); ok && id.Name == "panic" {
				return true
			}
		}
	case *ast.IfStmt:
		if s.Else == nil {
			return false
		}
		eb, ok := s.Else.(*ast.BlockStmt)
		if !ok {
			return returns(s.Body.List) && returns([]ast.Stmt{s.Else})
		}
		return returns(s.Body.List) && returns(eb.List)
	}
	return false
}

// do the statements contain a `return`, or a `break` of the enclosing loop?
func escapes(list []ast.Stmt) bool {
	found := false
	var walk func(n ast.Node, inLoop bool)
	walk = func(n ast.Node, inLoop bool) {
		if n == nil || found {
			return
		}
		ast.Inspect(n, func(x ast.Node) bool {
			switch y := x.(type) {
			case *ast.ReturnStmt:
				found = true
			case *ast.FuncLit:
				return false
			case *ast.BranchStmt:
				if (y.Tok == token.BREAK || y.Tok == token.CONTINUE) && !inLoop {
					found = true
				}
			case *ast.ForStmt:
				if !inLoop {
					walk(y.Body, true)
					return false
				}
			case *ast.RangeStmt:
				if !inLoop {
					walk(y.Body, true)
					return false
				}
			}
			return !found
		})
	}
	for _, st := range list {
		walk(st, false)
	}
	return found
}

func (m *imp) bindTuple(vars []string, val string, rest string) string {
	switch len(vars) {
	case 0:
		return val + " >>= fun _ =>\n  " + rest
	case 1:
		return val + " >>= fun " + vars[0] + " =>\n  " + rest
	}
	tmp := m.fresh("t")
	var b strings.Builder
	fmt.Fprintf(&b, "%s >>= fun %s =>\n  ", val, tmp)
	for i, v := range vars {
		if v == "_" {
			continue
		}
		fmt.Fprintf(&b, "let %s : %s := %s\n  ", v, leanTyX(m.varTy(v)), projOf(tmp, i, len(vars)))
	}
	return b.String() + rest
}

func (m *imp) block(list []ast.Stmt, c ictx) string {
	if len(list) == 0 {
		return c.tail()
	}
	rest := func() string { return m.block(list[1:], c) }
	withPre := func(pre []string, s string) string {
		if len(pre) == 0 {
			return s
		}
		return strings.Join(pre, "\n  ") + "\n  " + s
	}
	if m.em && m.emSkip(list[0]) {
		return rest()
	}
	if bytesMode {
		if s, ok := m.bytesStmt(list[0], rest); ok {
			return s
		}
	}
	if m.ck {
		if s, ok := m.ckStmt(list[0], rest); ok {
			return s
		}
		if s, ok := m.acStmt(list, c, rest); ok {
			return s
		}
	}
	switch s := list[0].(type) {
	case *ast.ReturnStmt:
		var pre []string
		for _, r := range s.Results {
			if m.sm {
				pre = append(pre, m.hoistCalls(r)...)
			}
			pre = append(pre, m.hoistIdx(r)...)
		}
		var vals []string
		for i, r := range s.Results {
			e, ty := m.expr(r, m.results[i])
			if ty != m.results[i] {
				panic(fmt.Sprintf("translate: result %d has type %s, want %s", i, ty, m.results[i]))
			}
			vals = append(vals, e)
		}
		return withPre(pre, m.ret(c, vals))
	case *ast.DeclStmt:
		gd := s.Decl.(*ast.GenDecl)
		var lets []string
		for _, sp := range gd.Specs {
			vs := sp.(*ast.ValueSpec)
			if m.em && !m.ck {
				// `var ( r = …; t = …; valid = 0 )`: integer counters are kept, the stream and the T are the oracle's
				for i, n := range vs.Names {
					if i < len(vs.Values) {
						if _, isConst := m.t.constVal(vs.Values[i]); isConst {
							e, _ := m.expr(vs.Values[i], "i64")
							m.t.env[n.Name] = "i64"
							lets = append(lets, fmt.Sprintf("let %s : Int64 := %s", n.Name, e))
						}
					}
				}
				continue
			}
			if len(vs.Values) != 0 {
				panic("translate: var with initialiser")
			}
			ty := goTyX(vs.Type)
			zero := m.zero(ty)
			if at, ok := vs.Type.(*ast.ArrayType); ok && at.Len != nil {
				ln, ok := m.t.constVal(at.Len)
				if !ok {
					panic("translate: array length is not a constant")
				}
				zero = fmt.Sprintf("(List.replicate %s %s)", ln.String(), m.zero(gty(string(ty)[2:])))
			}
			for _, n := range vs.Names {
				m.t.env[n.Name] = ty
				lets = append(lets, fmt.Sprintf("let %s : %s := %s", n.Name, leanTyX(ty), zero))
			}
		}
		return strings.Join(lets, "\n  ") + "\n  " + rest()
	case *ast.IncDecStmt:
		op := map[token.Token]token.Token{token.INC: token.ADD, token.DEC: token.SUB}[s.Tok]
		return m.assign(s.X, &ast.BinaryExpr{X: s.X, Op: op, Y: &ast.BasicLit{Kind: token.INT, Value: "1"}}, token.ASSIGN, rest)
	case *ast.AssignStmt:
		if len(s.Lhs) != 1 || len(s.Rhs) != 1 {
			panic("translate(imp): unsupported assignment")
		}
		rhs := s.Rhs[0]
		switch s.Tok {
		case token.DEFINE, token.ASSIGN:
		case token.ADD_ASSIGN:
			rhs = &ast.BinaryExpr{X: s.Lhs[0], Op: token.ADD, Y: rhs}
		case token.SUB_ASSIGN:
			rhs = &ast.BinaryExpr{X: s.Lhs[0], Op: token.SUB, Y: rhs}
		default:
			panic("translate(imp): unsupported assignment operator " + s.Tok.String())
		}
		return m.assign(s.Lhs[0], rhs, s.Tok, rest)
	case *ast.ExprStmt:
		call, ok := s.X.(*ast.CallExpr)
		if !ok {
			break
		}
		fn := exprText(m.p.fset, call.Fun)
		switch fn {
		case "assert", "assertf":
			cd, pure := m.cond(call.Args[0])
			if pure {
				return fmt.Sprintf("%s >>= fun _ =>\n  %s", m.lift("(Go.assert "+cd+")"), rest())
			}
			cv := m.fresh("c")
			return fmt.Sprintf("%s >>= fun %s => %s >>= fun _ =>\n  %s", cd, cv, m.lift("(Go.assert "+cv+")"), rest())
		case "panic":
			if inner, ok := call.Args[0].(*ast.CallExpr); ok && exprText(m.p.fset, inner.Fun) == "invalidData" {
				if m.sm {
					return m.lift("(.error (.invalidData " + exprText(m.p.fset, inner.Args[0]) + "))")
				}
				return ".error (.invalidData " + exprText(m.p.fset, inner.Args[0]) + ")"
			}
			panic("translate(imp): unsupported panic value")
		}
		if m.sm && fn == m.recv+".debugf" {
			return rest() // logging only
		}
		if m.em && fn == "r.init" && len(call.Args) == 1 {
			a, _ := m.expr(call.Args[0], "u64")
			return fmt.Sprintf("(Go.EM.init %s) >>= fun _ =>\n  %s", a, rest())
		}
		if code, names, ok := m.methodCall(call, nil); ok {
			return m.bindTuple(names, code, rest())
		}
		if id, ok := call.Fun.(*ast.Ident); ok && m.sigs[id.Name] != nil {
			pre := m.hoistIdx(call)
			return withPre(pre, rest())
		}
		if m.st && m.streamCall(call) != "" {
			pre := m.hoistIdx(call)
			return withPre(pre, rest())
		}
	case *ast.IfStmt:
		if s.Init != nil {
			panic("translate(imp): if with init")
		}
		condPre := m.hoistCalls(s.Cond)
		cd, pure := m.cond(s.Cond)
		var elseList []ast.Stmt
		if s.Else != nil {
			if eb, ok := s.Else.(*ast.BlockStmt); ok {
				elseList = eb.List
			} else {
				elseList = []ast.Stmt{s.Else}
			}
		}
		head := func(thenS, elseS string) string {
			pfx := ""
			if len(condPre) > 0 {
				pfx = strings.Join(condPre, "\n  ") + "\n  "
			}
			if pure {
				return pfx + fmt.Sprintf("if %s then\n    %s\n  else\n    %s", cd, indent(thenS), indent(elseS))
			}
			cv := m.fresh("c")
			return pfx + fmt.Sprintf("%s >>= fun %s =>\n  if %s then\n    %s\n  else\n    %s", cd, cv, cv, indent(thenS), indent(elseS))
		}
		thenRet, elseRet := returns(s.Body.List), returns(elseList)
		saved := m.t.snapshot()
		switch {
		case thenRet && elseRet:
			th := m.block(s.Body.List, c.withTail(nil))
			m.t.restore(saved)
			el := m.block(elseList, c.withTail(nil))
			m.t.restore(saved)
			return head(th, el)
		case thenRet:
			th := m.block(s.Body.List, c.withTail(nil))
			m.t.restore(saved)
			el := m.block(elseList, c.withTail(rest))
			return head(th, el)
		case elseRet:
			el := m.block(elseList, c.withTail(nil))
			m.t.restore(saved)
			th := m.block(s.Body.List, c.withTail(rest))
			return head(th, el)
		}
		if escapes(s.Body.List) || escapes(elseList) {
			// a branch may leave the loop or the function, or fall through: the rest follows in both branches
			th := m.block(s.Body.List, c.withTail(rest))
			m.t.restore(saved)
			el := m.block(elseList, c.withTail(rest))
			m.t.restore(saved)
			return head(th, el)
		}
		// both branches fall through: the assigned variables as one conditional value
		vars := m.assigned([]ast.Stmt{s})
		tail := func() string { return "pure " + tupleOf(vars) }
		th := m.block(s.Body.List, c.withTail(tail))
		m.t.restore(saved)
		el := m.block(elseList, c.withTail(tail))
		m.t.restore(saved)
		return m.bindTuple(vars, "("+head(th, el)+")", rest())
	case *ast.BranchStmt:
		if s.Tok == token.BREAK && c.brk != nil {
			return c.brk()
		}
		if s.Tok == token.CONTINUE && c.cont != nil {
			return c.cont()
		}
	case *ast.ForStmt:
		return m.loop(s, nil, rest, c)
	case *ast.RangeStmt:
		return m.loop(nil, s, rest, c)
	}
	panic(fmt.Sprintf("translate(imp): unsupported statement %T at %s", list[0], m.p.fset.Position(list[0].Pos())))
}

// lhs = rhs for an identifier, a receiver field, x[i] or x[i].f
func (m *imp) assign(lhs ast.Expr, rhs ast.Expr, tok token.Token, rest func() string) string {
	// a call of a translated method as the right-hand side
	if call, ok := rhs.(*ast.CallExpr); ok {
		if id, ok := lhs.(*ast.Ident); ok {
			if code, names, ok := m.methodCall(call, []string{id.Name}); ok {
				return m.bindTuple(names, code, rest())
			}
		}
	}
	// n := copy(dst[:], src): dst gets the first min(len(dst), len(src)) elements of src
	if call, ok := rhs.(*ast.CallExpr); ok && exprText(m.p.fset, call.Fun) == "copy" && len(call.Args) == 2 {
		id, okL := lhs.(*ast.Ident)
		sl, okS := call.Args[0].(*ast.SliceExpr)
		if okL && okS && sl.Low == nil && sl.High == nil && !partial(call.Args[1]) {
			if dst, ok := sl.X.(*ast.Ident); ok {
				d, dty := m.expr(dst, "")
				src, sty := m.expr(call.Args[1], dty)
				if dty != sty || !strings.HasPrefix(string(dty), "[]") {
					panic("translate: copy between different types")
				}
				c := m.fresh("c")
				m.t.env[id.Name] = "i64"
				return fmt.Sprintf("let %s := Go.copyInto %s %s\n  let %s : %s := %s.1\n  let %s : Int64 := %s.2\n  %s", c, d, src, d, leanTyX(dty), c, id.Name, c, rest())
			}
		}
		panic("translate(imp): unsupported copy")
	}
	pre := append(m.hoistCalls(rhs), m.hoistIdx(rhs)...)
	join := func(s string) string {
		if len(pre) == 0 {
			return s
		}
		return strings.Join(pre, "\n  ") + "\n  " + s
	}
	switch x := lhs.(type) {
	case *ast.Ident:
		// m := &T{f: e, …}: an object; its fields are variables m_f
		if u, ok := rhs.(*ast.UnaryExpr); ok && u.Op == token.AND {
			if cl, ok := u.X.(*ast.CompositeLit); ok {
				if id, ok := cl.Type.(*ast.Ident); ok && knownStructs[id.Name] != nil && tok == token.DEFINE {
					given := map[string]ast.Expr{}
					for _, el := range cl.Elts {
						kv := el.(*ast.KeyValueExpr)
						given[kv.Key.(*ast.Ident).Name] = kv.Value
					}
					var lets []string
					for _, f := range structFields(id.Name) {
						v := x.Name + "_" + f.name
						val := m.zero(f.ty)
						if ge, ok := given[f.name]; ok {
							val, _ = m.expr(ge, f.ty)
						}
						m.t.env[v] = f.ty
						lets = append(lets, fmt.Sprintf("let %s : %s := %s", v, leanTyX(f.ty), val))
					}
					m.objs[x.Name] = id.Name
					return join(strings.Join(lets, "\n  ") + "\n  " + rest())
				}
			}
		}
		e, ty := m.expr(rhs, m.t.env[x.Name])
		if ty == "" {
			if _, isConst := m.t.constVal(rhs); isConst && tok == token.DEFINE {
				e, ty = m.expr(rhs, "i64") // an untyped integer constant defaults to int
			}
		}
		if ty == "" {
			panic("translate: cannot type " + exprText(m.p.fset, rhs))
		}
		if old, ok := m.t.env[x.Name]; ok && tok != token.DEFINE && old != ty {
			panic("translate: assignment changes the type of " + x.Name)
		}
		m.t.env[x.Name] = ty
		return join(fmt.Sprintf("let %s : %s := %s\n  %s", x.Name, leanTyX(ty), e, rest()))
	case *ast.SelectorExpr:
		if id, ok := x.X.(*ast.Ident); ok && id.Name == m.recv {
			v := m.fieldVar(x.Sel.Name)
			ty := m.varTy(v)
			e, ety := m.expr(rhs, ty)
			if ety != ty {
				panic("translate: field assignment of another type: " + v)
			}
			return join(fmt.Sprintf("let %s : %s := %s\n  %s", v, leanTyX(ty), e, rest()))
		}
		if id, ok := x.X.(*ast.Ident); ok && m.objs[id.Name] != "" {
			v := id.Name + "_" + x.Sel.Name
			ty := m.t.env[v]
			e, ety := m.expr(rhs, ty)
			if ety != ty {
				panic("translate: field assignment of another type: " + v)
			}
			return join(fmt.Sprintf("let %s : %s := %s\n  %s", v, leanTyX(ty), e, rest()))
		}
		// x[i].f = e
		if ix, ok := x.X.(*ast.IndexExpr); ok {
			return join(m.assignElem(ix, x.Sel.Name, rhs, rest))
		}
	case *ast.IndexExpr:
		return join(m.assignElem(x, "", rhs, rest))
	}
	panic("translate(imp): unsupported assignment target " + exprText(m.p.fset, lhs))
}

// xs[i] = e  /  xs[i].f = e   (the right-hand side may read xs[i] itself: it was hoisted before)
func (m *imp) assignElem(ix *ast.IndexExpr, field string, rhs ast.Expr, rest func() string) string {
	pre := m.hoistIdx(ix.Index)
	xs, xty := m.expr(ix.X, "")
	elem := gty(string(xty)[2:])
	i, _ := m.expr(ix.Index, "i64")
	var upd string
	if field == "" {
		e, _ := m.expr(rhs, elem)
		upd = "(fun _ => " + e + ")"
	} else {
		var fty gty
		for _, f := range structFields(string(elem)) {
			if f.name == field {
				fty = f.ty
			}
		}
		e, _ := m.expr(rhs, fty)
		upd = fmt.Sprintf("(fun g_ => { g_ with %s := %s })", leanField(field), e)
	}
	// which variable holds xs
	var target string
	switch b := ix.X.(type) {
	case *ast.Ident:
		target = b.Name
	case *ast.SelectorExpr:
		if id, ok := b.X.(*ast.Ident); ok && id.Name == m.recv {
			target = m.fieldVar(b.Sel.Name)
		}
	}
	if target == "" {
		panic("translate(imp): element assignment to " + exprText(m.p.fset, ix.X))
	}
	s := fmt.Sprintf("%s >>= fun %s =>\n  %s", m.lift(fmt.Sprintf("(Go.setIdx %s %s %s)", xs, i, upd)), target, rest())
	if len(pre) > 0 {
		s = strings.Join(pre, "\n  ") + "\n  " + s
	}
	return s
}

// recv.m(args) for a translated method on the same receiver (or an embedded struct): the code of the call
// and the names its results are bound to (explicit results first, then the callee's state fields)
func (m *imp) methodCall(call *ast.CallExpr, resultNames []string) (string, []string, bool) {
	sel, ok := call.Fun.(*ast.SelectorExpr)
	if !ok {
		return "", nil, false
	}
	id, ok := sel.X.(*ast.Ident)
	if !ok || (id.Name != m.recv && m.objs[id.Name] == "") {
		// recv.field.method(): a pure-mode method on a struct-valued field (s.ctx.rand())
		if inner, ok := sel.X.(*ast.SelectorExpr); ok {
			if id2, ok := inner.X.(*ast.Ident); ok && id2.Name == m.recv {
				return m.fieldMethodCall(inner.Sel.Name, sel.Sel.Name, call, resultNames)
			}
		}
		return "", nil, false
	}
	if m.sm && id.Name == m.recv && m.recvTy == "shrinker" && sel.Sel.Name == "accept" {
		return m.smAccept(call, resultNames)
	}
	objTy := m.recvTy
	fieldVar := m.fieldVar
	if id.Name != m.recv {
		objTy = m.objs[id.Name]
		obj := id.Name
		fieldVar = func(f string) string { return obj + "_" + f }
	}
	key := m.p.resolveMethod(objTy, sel.Sel.Name)
	sg := m.sigs[key]
	if sg == nil {
		return "", nil, false
	}
	var args []string
	for _, f := range sg.fields {
		args = append(args, fieldVar(f.name))
	}
	var pre []string
	for i := range sg.params {
		a := call.Args[i]
		if sg.argIdx != nil {
			a = call.Args[sg.argIdx[i]]
		}
		pre = append(pre, m.hoistIdx(a)...)
		s, ty := m.expr(a, sg.params[i])
		if ty != sg.params[i] {
			panic(fmt.Sprintf("translate: argument %d of %s has type %s, want %s", i, key, ty, sg.params[i]))
		}
		args = append(args, s)
	}
	if sg.fuel {
		m.fuel = true
		args = append(args, "fuel")
	}
	var names []string
	if len(sg.results) > 0 {
		if len(resultNames) != len(sg.results) {
			for range sg.results {
				names = append(names, "_")
			}
		} else {
			for i, n := range resultNames {
				m.t.env[n] = sg.results[i]
				names = append(names, n)
			}
		}
	}
	for _, f := range sg.fields {
		if !isFunc(f.ty) {
			names = append(names, fieldVar(f.name))
		}
	}
	code := "(" + sg.lean + " " + strings.Join(args, " ") + ")"
	if m.sm && !sg.sm {
		code = m.lift(code)
	}
	if len(pre) > 0 {
		code = "(" + strings.Join(pre, " ") + " " + code + ")"
	}
	return code, names, true
}

// s.ctx.rand(): the state of the field's struct lives in the fields `ctx_a …` of this receiver
func (m *imp) fieldMethodCall(field, method string, call *ast.CallExpr, resultNames []string) (string, []string, bool) {
	var fty gty
	for _, f := range structFields(m.recvTy) {
		if f.name == field {
			fty = f.ty
		}
	}
	key := string(fty) + "." + method
	fs, ok := m.pureSigs[key]
	if !ok {
		return "", nil, false
	}
	lean := m.t.leanNames[key]
	var args, names []string
	if len(resultNames) == 1 {
		names = append(names, resultNames[0])
		m.t.env[resultNames[0]] = m.t.sigsByKey[key].results[0]
	} else {
		names = append(names, "_")
	}
	for _, f := range fs {
		v := m.fieldVar(field + "_" + f.name)
		args = append(args, v)
		names = append(names, v)
	}
	if len(call.Args) != 0 {
		panic("translate(imp): arguments of a field method")
	}
	return "(pure (" + lean + " " + strings.Join(args, " ") + "))", names, true
}

// loops: a recursive definition with fuel over the variables the loop assigns
func (m *imp) loop(f *ast.ForStmt, r *ast.RangeStmt, rest func() string, outer ictx) string {
	m.loopN++
	m.fuel = true
	name := fmt.Sprintf("%s_loop%d", strings.ReplaceAll(m.key, ".", "_"), m.loopN)
	var pre string
	var body []ast.Stmt
	var condE ast.Expr
	var post ast.Stmt
	var hidden string // loop variable of a range loop
	var bound string
	var valueVar string
	var rangeX ast.Expr
	loopLocal := map[string]bool{}
	saved := m.t.snapshot()
	if f != nil {
		if inc, ok := f.Init.(*ast.IncDecStmt); ok {
			// `for j--; …`: the init statement works on a variable of the enclosing scope
			pre = m.block([]ast.Stmt{inc}, ictx{tail: func() string { return "" }})
		} else if f.Init != nil {
			as, ok := f.Init.(*ast.AssignStmt)
			if !ok || len(as.Lhs) != 1 {
				panic("translate(imp): loop init")
			}
			id := as.Lhs[0].(*ast.Ident)
			e, ty := m.expr(as.Rhs[0], "i64")
			if ty == "" {
				ty = "i64"
			}
			if as.Tok == token.DEFINE {
				loopLocal[id.Name] = true
			}
			m.t.env[id.Name] = ty
			pre = fmt.Sprintf("let %s : %s := %s\n  ", id.Name, leanTyX(ty), e)
		}
		body, condE, post = f.Body.List, f.Cond, f.Post
	} else {
		// for j := range xs / for _, g := range xs : the length is taken once
		if _, plain := r.X.(*ast.Ident); !plain && partial(r.X) {
			// the ranged-over expression (data[1:]) is evaluated once, before the loop
			hp := m.hoistIdx(r.X)
			v, vty := m.expr(r.X, "")
			name := m.fresh("rng")
			m.t.env[name] = vty
			pre = strings.Join(hp, "\n  ") + fmt.Sprintf("\n  let %s : %s := %s\n  ", name, leanTyX(vty), v)
			r = &ast.RangeStmt{Key: r.Key, Value: r.Value, Tok: r.Tok, X: ast.NewIdent(name), Body: r.Body}
		}
		xs, xty := m.expr(r.X, "")
		if !strings.HasPrefix(string(xty), "[]") {
			panic("translate(imp): range over a non-slice")
		}
		bound = m.fresh("n")
		m.t.env[bound] = "i64"
		pre += fmt.Sprintf("let %s : Int64 := (Go.glen %s)\n  ", bound, xs)
		if k, ok := r.Key.(*ast.Ident); ok && k.Name != "_" {
			hidden = k.Name
		} else {
			hidden = m.fresh("j")
		}
		m.t.env[hidden] = "i64"
		loopLocal[hidden] = true
		pre += fmt.Sprintf("let %s : Int64 := (0 : Int64)\n  ", hidden)
		if r.Value != nil {
			valueVar = r.Value.(*ast.Ident).Name
			rangeX = r.X
		}
		body = r.Body.List
	}
	// loop state: assigned variables (+ the loop variable); free: everything else the loop mentions
	stmts := append([]ast.Stmt{}, body...)
	if post != nil {
		stmts = append(stmts, post)
	}
	if condE != nil {
		stmts = append(stmts, &ast.ExprStmt{X: condE}) // a method call in the condition changes state too
	}
	mut := m.assigned(stmts)
	if hidden != "" {
		mut = append(mut, hidden)
		sort.Strings(mut)
	}
	isMut := map[string]bool{}
	for _, v := range mut {
		isMut[v] = true
	}
	free := map[string]bool{}
	mark := func(n ast.Node) {
		if n == nil {
			return
		}
		ast.Inspect(n, func(x ast.Node) bool {
			switch y := x.(type) {
			case *ast.Ident:
				if _, ok := m.t.env[y.Name]; ok && !isMut[y.Name] {
					free[y.Name] = true
				}
			case *ast.SelectorExpr:
				if id, ok := y.X.(*ast.Ident); ok && id.Name == m.recv {
					if v := m.fieldVar(y.Sel.Name); !isMut[v] {
						for _, fl := range m.fields {
							if fl.name == y.Sel.Name {
								free[v] = true
							}
						}
					}
					return false
				}
				if id, ok := y.X.(*ast.Ident); ok && m.objs[id.Name] != "" {
					if v := id.Name + "_" + y.Sel.Name; !isMut[v] {
						if _, ok := m.t.env[v]; ok {
							free[v] = true
						}
					}
					return false
				}
			case *ast.CallExpr:
				if sel, ok := y.Fun.(*ast.SelectorExpr); ok {
					if id, ok := sel.X.(*ast.Ident); ok && id.Name == m.recv {
						if k := m.p.resolveMethod(m.recvTy, sel.Sel.Name); k != "" {
							if sg := m.sigs[k]; sg != nil {
								for _, fl := range sg.fields {
									if v := m.fieldVar(fl.name); !isMut[v] {
										free[v] = true
									}
								}
							}
						}
					}
					if id, ok := sel.X.(*ast.Ident); ok && m.objs[id.Name] != "" {
						if k := m.p.resolveMethod(m.objs[id.Name], sel.Sel.Name); k != "" {
							if sg := m.sigs[k]; sg != nil {
								for _, fl := range sg.fields {
									if v := id.Name + "_" + fl.name; !isMut[v] {
										free[v] = true
									}
								}
							}
						}
					}
				}
			}
			return true
		})
	}
	for _, st := range stmts {
		mark(st)
	}
	mark(condE)
	if bound != "" {
		free[bound] = true
	}
	if rangeX != nil {
		mark(rangeX)
	}
	var fv []string
	for v := range free {
		fv = append(fv, v)
	}
	sort.Strings(fv)
	var params, mtys []string
	for _, v := range fv {
		params = append(params, fmt.Sprintf("(%s : %s)", v, leanTyX(m.varTy(v))))
	}
	for _, v := range mut {
		mtys = append(mtys, leanTyX(m.varTy(v)))
	}
	// does the body return from the function (at any depth)?
	hasReturn := false
	for _, st := range body {
		ast.Inspect(st, func(n ast.Node) bool {
			if _, ok := n.(*ast.FuncLit); ok {
				return false
			}
			if _, ok := n.(*ast.ReturnStmt); ok {
				hasReturn = true
			}
			return true
		})
	}
	var retTys []gty
	retTys = append(retTys, m.results...)
	for _, fl := range m.fields {
		if !isFunc(fl.ty) {
			retTys = append(retTys, fl.ty)
		}
	}
	again := fmt.Sprintf("%s %s fuel %s", name, strings.Join(fv, " "), strings.Join(mut, " "))
	exit := "pure " + tupleOf(mut)
	if hasReturn {
		exit = "pure (" + tupleOf(mut) + ", none)"
	}
	var cd string
	pureC := true
	var loopCondPre []string
	if condE != nil {
		loopCondPre = m.hoistCalls(condE)
		cd, pureC = m.cond(condE)
	} else if bound != "" {
		cd = fmt.Sprintf("(decide (%s < %s))", hidden, bound)
	} else {
		cd = "true"
	}
	tail := func() string {
		s := again
		if post != nil {
			s = m.block([]ast.Stmt{post}, ictx{tail: func() string { return again }})
		} else if hidden != "" {
			s = fmt.Sprintf("let %s : Int64 := (%s + (1 : Int64))\n  %s", hidden, hidden, again)
		}
		return s
	}
	bctx := ictx{tail: tail, cont: tail, brk: func() string { return exit }}
	if hasReturn {
		bctx.retRaw = func(tuple string) string { return "pure (" + tupleOf(mut) + ", some " + tuple + ")" }
	}
	var bodyS string
	if valueVar != "" {
		xs, xty := m.expr(rangeX, "")
		m.t.env[valueVar] = gty(string(xty)[2:])
		bodyS = fmt.Sprintf("%s >>= fun %s =>\n  %s", m.lift(fmt.Sprintf("(Go.idx %s %s)", xs, hidden)), valueVar, m.block(body, bctx))
	} else {
		bodyS = m.block(body, bctx)
	}
	var stepS string
	if len(loopCondPre) > 0 {
		// the state after the call in the condition is the state the loop leaves with
		stepS = fmt.Sprintf("%s\n    if %s then\n      %s\n    else\n      %s", strings.Join(loopCondPre, "\n    "), cd, indent(indent(bodyS)), exit)
	} else if pureC {
		stepS = fmt.Sprintf("if %s then\n      %s\n    else\n      %s", cd, indent(indent(bodyS)), exit)
	} else {
		stepS = fmt.Sprintf("%s >>= fun c_ =>\n    if c_ then\n      %s\n    else\n      %s", cd, indent(indent(bodyS)), exit)
	}
	pats := strings.Join(mut, ", ")
	under := strings.Repeat(", _", len(mut))
	resTy := strings.Join(mtys, " × ")
	if hasReturn {
		resTy = "(" + resTy + ") × Option (" + tupleTyX(retTys) + ")"
	}
	m.aux = append(m.aux, fmt.Sprintf("/-- loop #%d of %s (%s); `fuel` bounds the number of iterations -/\ndef %s %s : Nat → %s → %s (%s)\n  | 0%s => %s\n  | fuel+1, %s =>\n    %s\n",
		m.loopN, m.key, m.p.fset.Position(func() token.Pos {
			if f != nil {
				return f.Pos()
			}
			return r.Pos()
		}()), name, strings.Join(params, " "), strings.Join(mtys, " → "), m.mon(), resTy, under, m.fuelOut(), pats, stepS))
	mutTy := map[string]gty{}
	for _, v := range mut {
		mutTy[v] = m.varTy(v)
	}
	m.t.restore(saved)
	call := fmt.Sprintf("(%s %s fuel %s)", name, strings.Join(fv, " "), strings.Join(mut, " "))
	// the loop variable of `for i := …` is local to the loop; variables of the enclosing scope are rebound
	tmp := m.fresh("t")
	var b strings.Builder
	fmt.Fprintf(&b, "%s%s >>= fun %s =>\n  ", pre, call, tmp)
	base := tmp
	if hasReturn {
		base = tmp + ".1"
	}
	for i, v := range mut {
		_, isOuter := saved[v]
		if loopLocal[v] {
			continue
		}
		if isOuter || (m.recv != "" && strings.HasPrefix(v, m.recv+"_")) {
			proj := base
			if len(mut) > 1 {
				proj = projOf(base, i, len(mut))
			}
			fmt.Fprintf(&b, "let %s : %s := %s\n  ", v, leanTyX(mutTy[v]), proj)
		}
	}
	if !hasReturn {
		return b.String() + rest()
	}
	// the loop may have returned from the function
	leave := "pure r_"
	if outer.retRaw != nil {
		leave = outer.retRaw("r_")
	}
	return fmt.Sprintf("%smatch %s.2 with\n  | some r_ => %s\n  | none =>\n    %s", b.String(), tmp, leave, indent(rest()))
}

// impFunction translates a method (or function) in the imperative subset
func (t *trans) impFunction(key string, sigs map[string]*isig) string {
	return t.impFunctionMode(key, sigs, false, "")
}

// sm: script mode (Go.SM); suffix: appended to the Lean name (the script-mode copies of `minimize` and the minimizer)
func (t *trans) impFunctionMode(key string, sigs map[string]*isig, sm bool, suffix string) string {
	d, ok := t.p.funcs[key]
	if !ok {
		panic("translate: no function " + key)
	}
	fxMode = false
	smMode = sm
	defer func() { smMode = false; smPartial = nil }()
	if ckMode {
		// a local named like a Lean keyword
		ast.Inspect(d.Body, func(n ast.Node) bool {
			if id, ok := n.(*ast.Ident); ok && id.Name == "matches" {
				id.Name = "matches_"
			}
			return true
		})
	}
	m := &imp{t: t, p: t.p, key: key + suffix, sigs: sigs, objs: map[string]string{}, callTmp: map[*ast.CallExpr]string{}, idxTmp: map[ast.Node]string{}, idxTy: map[ast.Node]gty{}, pureSigs: t.pureMethodFields, sm: sm, em: emMode, st: stMode, ck: ckMode}
	smMonad = m.mon()
	if sm {
		smPartial = m.smEffect
	}
	t.env = map[string]gty{}
	t.fields = map[string]gty{}
	t.recv = ""
	t.hoisted = map[*ast.CallExpr]string{}
	var params []string
	sg := &isig{lean: strings.ReplaceAll(key, ".", "_") + suffix, sm: sm}
	if d.Recv != nil && ckMode && recvType(d) == "shrinker" {
		// accept: the shrinker's own state — the current test case, its error, the cache of refused candidates, two counters
		m.recv, m.recvTy = recvName(d), recvType(d)
		m.fields = []sfield{{"rec_data", "[]u64"}, {"err", "errv"}, {"cache", "[][]u64"}, {"hits", "i64"}, {"shrinks", "i64"}}
		for _, f := range m.fields {
			params = append(params, fmt.Sprintf("(%s : %s)", m.fieldVar(f.name), leanTyX(f.ty)))
		}
		sg.recvTy, sg.fields = m.recvTy, m.fields
	} else if d.Recv != nil && sm && recvType(d) == "shrinker" {
		// the shrinker's state is reached through effects (Go.SM.data / groups / shrinks / accept), not parameters
		m.recv, m.recvTy = recvName(d), recvType(d)
		sg.recvTy = m.recvTy
	} else if d.Recv != nil {
		m.recv, m.recvTy = recvName(d), recvType(d)
		used := t.p.methodFields(key, map[string]bool{})
		for _, f := range structFields(m.recvTy) {
			if used[f.name] {
				if knownStructs[string(f.ty)] != nil && t.pureMethodFields != nil {
					// a struct-valued field whose methods are pure-mode translations: its fields, flattened
					for _, sub := range structFields(string(f.ty)) {
						m.fields = append(m.fields, sfield{f.name + "_" + sub.name, sub.ty})
					}
					continue
				}
				m.fields = append(m.fields, f)
			}
		}
		for _, f := range m.fields {
			params = append(params, fmt.Sprintf("(%s : %s)", m.fieldVar(f.name), leanTyX(f.ty)))
		}
		sg.recvTy, sg.fields = m.recvTy, m.fields
	}
	argPos := 0
	dropped := false
	for _, f := range d.Type.Params.List {
		for _, n := range f.Names {
			if sm && exprText(t.p.fset, f.Type) == "time.Time" {
				dropped = true // the deadline: it never expires here
				argPos++
				continue
			}
			if stMode && exprText(t.p.fset, f.Type) == "bitStream" {
				m.stream = n.Name // the stream is reached through requests
				dropped = true
				argPos++
				continue
			}
			if _, isFn := f.Type.(*ast.FuncType); emMode && (exprText(t.p.fset, f.Type) == "tb" || isFn) {
				dropped = true // the testing.TB and the property belong to the oracle
				argPos++
				continue
			}
			if ckMode && m.recvTy == "shrinker" && (n.Name == "label" || n.Name == "format" || n.Name == "args") {
				dropped = true // they feed the debug log and the statistics only
				argPos++
				continue
			}
			ty := goTyX(f.Type)
			if _, ok := f.Type.(*ast.Ellipsis); ok {
				sg.variadic = true
			}
			t.env[n.Name] = ty
			params = append(params, fmt.Sprintf("(%s : %s)", n.Name, leanTyX(ty)))
			sg.params = append(sg.params, ty)
			sg.argIdx = append(sg.argIdx, argPos)
			argPos++
		}
	}
	if !dropped {
		sg.argIdx = nil
	}
	if d.Type.Results != nil {
		for _, f := range d.Type.Results.List {
			k := len(f.Names)
			if k == 0 {
				k = 1
			}
			for i := 0; i < k; i++ {
				sg.results = append(sg.results, goTyX(f.Type))
			}
		}
	}
	m.results = sg.results
	stmts := d.Body.List
	if sm && key == "shrinker.shrink" {
		// only the round loop: the deferred recover is `Script.run`'s `Stop`, what follows the loop is logging
		stmts = nil
		for _, st := range d.Body.List {
			if as, ok := st.(*ast.AssignStmt); ok && as.Tok == token.DEFINE {
				stmts = append(stmts, st)
			}
			if _, ok := st.(*ast.ForStmt); ok {
				stmts = append(stmts, st)
				break
			}
		}
		sg.results, m.results = nil, nil
	}
	body := m.block(stmts, ictx{tail: func() string { return m.ret(ictx{}, nil) }})
	sg.fuel = m.fuel
	sigs[key] = sg
	var resTys []gty
	resTys = append(resTys, sg.results...)
	for _, f := range m.fields {
		if !isFunc(f.ty) {
			resTys = append(resTys, f.ty)
		}
	}
	if sg.fuel {
		params = append(params, "(fuel : Nat)")
	}
	if m.st {
		params = append([]string{"(fe : Go.FEval)"}, params...)
	}
	out := strings.Join(m.aux, "\n")
	if out != "" {
		out += "\n"
	}
	out += fmt.Sprintf("/-- %s (%s): %s -/\ndef %s %s : %s (%s) :=\n  %s\n", key, t.p.fset.Position(d.Pos()),
		impDoc(sg, m), sg.lean, strings.Join(params, " "), m.mon(), tupleTyX(resTys), body)
	return out
}

// impFragment translates some statements of a function (chosen by `pick`) as a function of the variables
// `params` (name, type) that returns the variable `result`
func (t *trans) impFragment(key, leanName string, pick func(i int, s ast.Stmt) bool, params [][2]string, result string, resultTy gty, doc string) string {
	d, ok := t.p.funcs[key]
	if !ok {
		panic("translate: no function " + key)
	}
	fxMode = false
	m := &imp{t: t, p: t.p, key: leanName, sigs: map[string]*isig{}, objs: map[string]string{}, callTmp: map[*ast.CallExpr]string{}, idxTmp: map[ast.Node]string{}, idxTy: map[ast.Node]gty{}, pureSigs: t.pureMethodFields}
	t.env = map[string]gty{}
	t.fields = map[string]gty{}
	t.recv = ""
	t.hoisted = map[*ast.CallExpr]string{}
	var ps []string
	for _, p := range params {
		t.env[p[0]] = gty(p[1])
		ps = append(ps, fmt.Sprintf("(%s : %s)", p[0], leanTyX(gty(p[1]))))
	}
	var stmts []ast.Stmt
	for i, s := range d.Body.List {
		if pick(i, s) {
			stmts = append(stmts, s)
		}
	}
	if len(stmts) == 0 {
		panic("translate: no statements picked in " + key)
	}
	stmts = append(stmts, &ast.ReturnStmt{Results: []ast.Expr{ast.NewIdent(result)}})
	m.results = []gty{resultTy}
	body := m.block(stmts, ictx{tail: func() string { return m.ret(ictx{}, nil) }})
	if m.fuel {
		ps = append(ps, "(fuel : Nat)")
	}
	out := strings.Join(m.aux, "\n")
	if out != "" {
		out += "\n"
	}
	out += fmt.Sprintf("/-- %s (%s): %s -/\ndef %s %s : Go.M (%s) :=\n  %s\n", key, t.p.fset.Position(stmts[0].Pos()), doc, leanName, strings.Join(ps, " "), leanTyX(resultTy), body)
	return out
}

func impDoc(sg *isig, m *imp) string {
	var fs []string
	for _, f := range m.fields {
		fs = append(fs, f.name)
	}
	if len(fs) == 0 {
		return "no receiver state"
	}
	return "receiver state " + strings.Join(fs, ", ") + " (in: parameters, out: after the results)"
}

var _ = strconv.Itoa
