package main

// Second half of the translator: Go functions that use the bit stream (`s bitStream`) become Lean
// definitions in continuation-passing style over the model's interaction tree `Prog`:
//
//	x := s.drawBits(n)                         .draw (Go.natOfInt n) fun x => …
//	i := s.beginGroup(L, st) … s.endGroup(i, d)  .group L st (body … .ret (enc live)) (fun v => d) (fun v => …)
//	a, b := g(s, x)                            g fe x fuel fun a b => …
//	for { … }                                  a recursive definition with explicit fuel
//	return e1, e2                              k e1 e2
//	assert(c) / assertf(false, …)              .throw (panic "assertion failed"/…)
//
// Floating-point expressions are not interpreted: they become syntax trees (`Go.FX`), and where the
// code converts a float to an integer or compares floats the translation asks the evaluator `fe`.
// Every translated function takes `fe`, its Go parameters (without the stream), `fuel` and the
// continuation.

import (
	"fmt"
	"go/ast"
	"go/token"
	"sort"
	"strconv"
	"strings"
)

// floats are FX trees (prog mode) instead of bit patterns (pure mode)
var fxMode bool

type psig struct {
	recvFields []string // fields of the receiver the translated method takes as leading parameters
	params     []gty
	results    []gty
	fx         bool // floats are FX trees in this function (utils.go) rather than bit patterns (floats.go)
}

type pctx struct {
	results []gty
	ret     func(vals []string) string // nil inside a group body
	tail    func() string              // what follows the last statement (nil: must not be reached)
}

func (t *trans) isStreamCall(c *ast.CallExpr) bool {
	if t.stream == "" {
		return false
	}
	if sel, ok := c.Fun.(*ast.SelectorExpr); ok {
		if exprText(t.p.fset, sel.X) == t.stream {
			return true
		}
	}
	if len(c.Args) > 0 {
		if exprText(t.p.fset, c.Args[0]) == t.stream {
			return true
		}
	}
	if _, ok := t.psigs[exprText(t.p.fset, c.Fun)]; ok {
		for _, a := range c.Args {
			if x := exprText(t.p.fset, a); x == t.stream || (t.streamOwner != "" && x == t.streamOwner) {
				return true
			}
		}
	}
	// gen(t): a function parameter that draws from the stream of the T it is given
	if id, ok := c.Fun.(*ast.Ident); ok {
		if _, isCb := t.callbacks[id.Name]; isCb {
			return true
		}
	}
	// g.elem.value(t): a generator held in a field of the receiver
	if _, ok := t.callbackOf(c); ok {
		return true
	}
	return false
}

// callbackOf: the key of the sub-generator a call draws from (`gen(t)` or `g.field.value(t)`)
func (t *trans) callbackOf(c *ast.CallExpr) (string, bool) {
	if id, ok := c.Fun.(*ast.Ident); ok {
		if _, isCb := t.callbacks[id.Name]; isCb {
			return id.Name, true
		}
	}
	if sel, ok := c.Fun.(*ast.SelectorExpr); ok && sel.Sel.Name == "value" {
		key := exprText(t.p.fset, sel.X)
		if _, isCb := t.callbacks[key]; isCb {
			return key, true
		}
		if ix, ok := sel.X.(*ast.IndexExpr); ok {
			if ety, ok := t.listFields[exprText(t.p.fset, ix.X)]; ok && strings.HasPrefix(string(ety), "cb:") {
				return "[]" + exprText(t.p.fset, ix.X), true
			}
		}
	}
	return "", false
}

func cbName(key string) string { return strings.ReplaceAll(key, ".", "_") }

// effectful calls inside e, in evaluation order (nested ones are rejected)
func (t *trans) streamCalls(e ast.Node) []*ast.CallExpr {
	var out []*ast.CallExpr
	if e == nil {
		return nil
	}
	ast.Inspect(e, func(n ast.Node) bool {
		if c, ok := n.(*ast.CallExpr); ok && t.isStreamCall(c) {
			for _, a := range c.Args {
				if len(t.streamCalls(a)) > 0 {
					panic("translate: nested stream calls in " + exprText(t.p.fset, c))
				}
			}
			out = append(out, c)
			return false
		}
		return true
	})
	return out
}

func (t *trans) fresh(base string) string {
	t.tmpN++
	return fmt.Sprintf("%s_%d", base, t.tmpN)
}

// bindCall emits the call c with its results bound to names (types are returned), followed by cont()
func (t *trans) bindCall(c *ast.CallExpr, names []string, cont func(tys []gty) string) string {
	if key, isCb := t.callbackOf(c); isCb && strings.HasPrefix(key, "[]") {
		// g.gens[i].value(t): pick the generator, then draw from it
		field := key[2:]
		ety := gty(string(t.listFields[field])[3:])
		ix := c.Fun.(*ast.SelectorExpr).X.(*ast.IndexExpr)
		idx, ity := t.expr(ix.Index, "i64")
		if ity != "i64" || len(names) != 1 {
			panic("translate: unsupported use of a slice of generators")
		}
		gen := t.fresh("gen")
		return fmt.Sprintf("Go.idxP %s %s fun %s =>\n  %s fun %s =>\n  %s", cbName(field), idx, gen, gen, names[0], cont([]gty{ety}))
	}
	if key, isCb := t.callbackOf(c); isCb {
		res := t.callbacks[key]
		if len(names) != len(res) {
			panic("translate: wrong number of results bound for the sub-generator " + key)
		}
		return fmt.Sprintf("%s fun %s =>\n  %s", cbName(key), strings.Join(names, " "), cont(res))
	}
	if sel, ok := c.Fun.(*ast.SelectorExpr); ok {
		if exprText(t.p.fset, sel.X) == t.stream {
			switch sel.Sel.Name {
			case "drawBits":
				n, nty := t.expr(c.Args[0], "i64")
				if nty != "i64" {
					panic("translate: drawBits of a non-int")
				}
				if len(names) != 1 {
					panic("translate: drawBits binds one value")
				}
				return fmt.Sprintf(".draw (Go.natOfInt %s) fun %s =>\n  %s", n, names[0], cont([]gty{"u64"}))
			}
			panic("translate: unsupported stream method " + sel.Sel.Name)
		}
	}
	fn := exprText(t.p.fset, c.Fun)
	sg, ok := t.psigs[fn]
	if !ok {
		panic("translate: call of an untranslated stream function " + fn)
	}
	var callArgs []ast.Expr
	skipped := false
	for _, a := range c.Args {
		if x := exprText(t.p.fset, a); !skipped && (x == t.stream || (t.streamOwner != "" && x == t.streamOwner)) {
			skipped = true
			continue
		}
		callArgs = append(callArgs, a)
	}
	if len(callArgs) != len(sg.params) {
		panic("translate: wrong number of arguments for " + fn)
	}
	var args []string
	for i, a := range callArgs {
		if sg.params[i] == "callback" {
			args = append(args, t.callbackArg(a))
			continue
		}
		s, ty := t.expr(a, sg.params[i])
		if ty != sg.params[i] {
			panic(fmt.Sprintf("translate: argument %d of %s has type %s, want %s", i, fn, ty, sg.params[i]))
		}
		if ty == "f64" && sg.fx && !fxMode {
			s = "(Go.FX.ofBits " + s + ")" // a float value of floats.go handed to utils.go
		}
		if ty == "f64" && !sg.fx && fxMode {
			panic("translate: a computed float handed to a function that takes floats apart")
		}
		args = append(args, s)
	}
	if len(names) != len(sg.results) {
		panic(fmt.Sprintf("translate: %s has %d results, %d bound", fn, len(sg.results), len(names)))
	}
	return fmt.Sprintf("%s fe %s fuel fun %s =>\n  %s", fn, strings.Join(args, " "), strings.Join(names, " "), cont(sg.results))
}

// callbackArg: a sub-generator handed to a translated function — a function parameter of the caller, a method
// value of the receiver that is translated itself (`g.maybeValue`), or one that is not (then a parameter)
func (t *trans) callbackArg(a ast.Expr) string {
	key := exprText(t.p.fset, a)
	if _, ok := t.callbacks[key]; ok {
		return cbName(key)
	}
	if sel, ok := a.(*ast.SelectorExpr); ok {
		if id, ok := sel.X.(*ast.Ident); ok && id.Name == t.recvName {
			if sg, ok := t.psigs[t.recvType+"."+sel.Sel.Name]; ok {
				if len(sg.params) != 0 {
					panic("translate: method value with parameters: " + key)
				}
				var fs []string
				for _, f := range sg.recvFields {
					fs = append(fs, cbName(t.recvName+"."+f))
				}
				return fmt.Sprintf("(%s_%s fe %s fuel)", t.recvType, sel.Sel.Name, strings.Join(fs, " "))
			}
		}
	}
	panic("translate: unsupported sub-generator argument " + key)
}

// hoist binds every stream call inside the expressions to a fresh name, then continues
func (t *trans) hoist(es []ast.Expr, cont func() string) string {
	var calls []*ast.CallExpr
	for _, e := range es {
		calls = append(calls, t.streamCalls(e)...)
	}
	// g.slice[i]: an index expression that can panic is bound like a call
	var idxs []*ast.IndexExpr
	for _, e := range es {
		ast.Inspect(e, func(n ast.Node) bool {
			if ix, ok := n.(*ast.IndexExpr); ok {
				if ety, ok := t.listFields[exprText(t.p.fset, ix.X)]; ok && !strings.HasPrefix(string(ety), "cb:") {
					if _, done := t.hoistedIdx[ix]; !done {
						idxs = append(idxs, ix)
					}
				}
			}
			return true
		})
	}
	if len(idxs) > 0 {
		ix := idxs[0]
		field := exprText(t.p.fset, ix.X)
		idx, ity := t.expr(ix.Index, "i64")
		if ity != "i64" {
			panic("translate: slice index is not an int")
		}
		name := t.fresh("x")
		t.env[name] = t.listFields[field]
		t.hoistedIdx[ix] = name
		return fmt.Sprintf("Go.idxP %s %s fun %s =>\n  %s", cbName(field), idx, name, t.hoist(es, cont))
	}
	var rec func(i int) string
	rec = func(i int) string {
		if i == len(calls) {
			return cont()
		}
		c := calls[i]
		n := 1
		if sg, ok := t.psigs[exprText(t.p.fset, c.Fun)]; ok {
			n = len(sg.results)
		}
		if key, ok := t.callbackOf(c); ok {
			n = len(t.callbacks[key])
			if strings.HasPrefix(key, "[]") {
				n = 1
			}
		}
		if n != 1 {
			panic("translate: multi-value stream call inside an expression: " + exprText(t.p.fset, c))
		}
		name := t.fresh("r")
		return t.bindCall(c, []string{name}, func(tys []gty) string {
			t.env[name] = tys[0]
			t.hoisted[c] = name
			return rec(i + 1)
		})
	}
	return rec(0)
}

func assertMsg(format string) string {
	s, err := strconv.Unquote(format)
	if err != nil {
		panic("translate: assertf format is not a string literal: " + format)
	}
	if i := strings.IndexAny(s, "[%"); i >= 0 {
		s = s[:i]
	}
	return strings.TrimSpace(s)
}

func (t *trans) zero(ty gty) string {
	if strings.HasPrefix(string(ty), "tp:") {
		t.needDefault[string(ty)[3:]] = true
		return "default"
	}
	switch ty {
	case "bool":
		return "false"
	case "f64":
		if fxMode {
			return "(Go.FX.lit \"0\")"
		}
	}
	return "(0 : " + leanTy(ty) + ")"
}

func (t *trans) pblock(list []ast.Stmt, c pctx) string {
	if len(list) == 0 {
		if c.tail == nil {
			panic("translate: control reaches the end of a block without a return")
		}
		return c.tail()
	}
	rest := func() string { return t.pblock(list[1:], c) }
	switch s := list[0].(type) {
	case *ast.ReturnStmt:
		if c.ret == nil {
			panic("translate: return inside a group body")
		}
		// `return g(s, …)` passing on all results
		if len(s.Results) == 1 && len(c.results) > 1 {
			call, ok := s.Results[0].(*ast.CallExpr)
			if !ok || !t.isStreamCall(call) {
				panic("translate: unsupported multi-value return")
			}
			var names []string
			for range c.results {
				names = append(names, t.fresh("r"))
			}
			return t.bindCall(call, names, func(tys []gty) string {
				for i := range tys {
					if tys[i] != c.results[i] {
						panic("translate: result types of the passed-on call differ")
					}
				}
				return c.ret(names)
			})
		}
		return t.hoist(s.Results, func() string {
			var vals []string
			for i, r := range s.Results {
				e, ty := t.expr(r, c.results[i])
				if ty != c.results[i] {
					panic(fmt.Sprintf("translate: result %d has type %s, want %s", i, ty, c.results[i]))
				}
				vals = append(vals, e)
			}
			return c.ret(vals)
		})
	case *ast.DeclStmt:
		gd := s.Decl.(*ast.GenDecl)
		if gd.Tok != token.VAR {
			panic("translate: unsupported declaration")
		}
		var lets []string
		for _, sp := range gd.Specs {
			vs := sp.(*ast.ValueSpec)
			if len(vs.Values) != 0 {
				panic("translate: var with initialiser")
			}
			ty := goTy(vs.Type)
			for _, n := range vs.Names {
				t.env[n.Name] = ty
				lets = append(lets, fmt.Sprintf("let %s : %s := %s", t.name(n.Name), leanTy(ty), t.zero(ty)))
			}
		}
		return strings.Join(lets, "\n  ") + "\n  " + rest()
	case *ast.AssignStmt:
		// i := s.beginGroup(L, st) … s.endGroup(i, d)
		if len(s.Rhs) == 1 {
			if call, ok := s.Rhs[0].(*ast.CallExpr); ok && t.isStreamCall(call) {
				if sel, ok := call.Fun.(*ast.SelectorExpr); ok && sel.Sel.Name == "beginGroup" {
					return t.group(s, call, list[1:], c)
				}
				// x, y := g(s, …) / x := s.drawBits(n)
				var names []string
				for _, l := range s.Lhs {
					id, ok := l.(*ast.Ident)
					if !ok {
						panic("translate: unsupported assignment target")
					}
					names = append(names, id.Name)
				}
				lean := make([]string, len(names))
				for i, n := range names {
					lean[i] = t.name(n)
				}
				return t.bindCall(call, lean, func(tys []gty) string {
					for i, n := range names {
						if n != "_" {
							if old, ok := t.env[n]; ok && s.Tok == token.ASSIGN && old != tys[i] {
								panic("translate: assignment changes the type of " + n)
							}
							t.env[n] = tys[i]
						}
					}
					return rest()
				})
			}
		}
		if len(s.Lhs) > 1 && len(s.Rhs) == 1 {
			return t.multiAssign(s, rest)
		}
		if len(s.Lhs) == 1 && len(s.Rhs) == 1 && (s.Tok == token.DEFINE || s.Tok == token.ASSIGN) {
			return t.hoist(s.Rhs, func() string {
				lhsName, lhsTy := t.lhs(s.Lhs[0])
				e, ty := t.expr(s.Rhs[0], lhsTy)
				if ty == "" {
					panic("translate: cannot type " + exprText(t.p.fset, s.Rhs[0]))
				}
				if lhsTy != "" && lhsTy != ty && s.Tok == token.ASSIGN {
					panic("translate: assignment changes the type of " + lhsName)
				}
				t.bind(s.Lhs[0], ty)
				return fmt.Sprintf("let %s : %s := %s\n  %s", t.name(lhsName), leanTy(ty), e, rest())
			})
		}
		panic("translate: unsupported assignment " + exprText(t.p.fset, s.Lhs[0]))
	case *ast.IfStmt:
		if s.Init != nil {
			// if p := g.field.Load(); p != nil { v = *p }  — v keeps its value when the pointer is not set
			if as, ok := s.Init.(*ast.AssignStmt); ok && len(as.Lhs) == 1 && len(as.Rhs) == 1 && s.Else == nil && len(s.Body.List) == 1 {
				if call, ok := as.Rhs[0].(*ast.CallExpr); ok {
					if sel, ok := call.Fun.(*ast.SelectorExpr); ok && sel.Sel.Name == "Load" {
						if ety, ok := t.optFields[exprText(t.p.fset, sel.X)]; ok {
							pv := exprText(t.p.fset, as.Lhs[0])
							if exprText(t.p.fset, s.Cond) == pv+" != nil" {
								deref := func(e ast.Expr) bool {
									st, ok := e.(*ast.StarExpr)
									return ok && exprText(t.p.fset, st.X) == pv
								}
								if asg, ok := s.Body.List[0].(*ast.AssignStmt); ok && len(asg.Lhs) == 1 && deref(asg.Rhs[0]) {
									v := exprText(t.p.fset, asg.Lhs[0])
									if t.env[v] != ety {
										panic("translate: type of the variable assigned from an atomic pointer")
									}
									return fmt.Sprintf("let %s : %s := match %s with | some x_ => x_ | none => %s\n  %s",
										t.name(v), leanTy(ety), cbName(exprText(t.p.fset, sel.X)), t.name(v), rest())
								}
							}
						}
					}
				}
			}
			panic("translate: if with init")
		}
		if t.pureStmts([]ast.Stmt{s}) {
			// branches that only assign: the assigned variables as one conditional value, then the rest once
			vars := t.outerAssigned([]ast.Stmt{s})
			return t.bindTuple(vars, t.pureIfExpr(s, vars), rest)
		}
		return t.hoist([]ast.Expr{s.Cond}, func() string {
			cond, _ := t.expr(s.Cond, "bool")
			saved := t.snapshot()
			thenS := t.pblock(s.Body.List, pctx{c.results, c.ret, rest})
			t.restore(saved)
			saved = t.snapshot()
			var elseS string
			if s.Else == nil {
				elseS = rest()
			} else if eb, ok := s.Else.(*ast.BlockStmt); ok {
				elseS = t.pblock(eb.List, pctx{c.results, c.ret, rest})
			} else {
				elseS = t.pblock([]ast.Stmt{s.Else}, pctx{c.results, c.ret, rest})
			}
			t.restore(saved)
			return fmt.Sprintf("if %s then\n    %s\n  else\n    %s", cond, indent(thenS), indent(elseS))
		})
	case *ast.ExprStmt:
		if call, ok := s.X.(*ast.CallExpr); ok {
			fn := exprText(t.p.fset, call.Fun)
			switch fn {
			case "assert":
				cond, _ := t.expr(call.Args[0], "bool")
				return fmt.Sprintf("if %s then\n    %s\n  else\n    .throw Go.assertFailed", cond, indent(rest()))
			case "panic":
				// panic(invalidData(fmt.Sprintf("… %d …", n)))
				if inner, ok := call.Args[0].(*ast.CallExpr); ok && exprText(t.p.fset, inner.Fun) == "invalidData" {
					return ".throw (.invalid " + t.sprintf(inner.Args[0]) + ")"
				}
			case "assertf":
				if exprText(t.p.fset, call.Args[0]) != "false" {
					panic("translate: assertf with a condition other than `false`")
				}
				return fmt.Sprintf(".throw (.panic %s Go.siteAssert)", strconv.Quote(assertMsg(exprText(t.p.fset, call.Args[1]))))
			}
		}
	case *ast.SwitchStmt:
		return t.auxSwitch(s, rest)
	case *ast.ForStmt:
		if s.Init != nil && s.Cond != nil && s.Post != nil && len(t.streamCalls(s.Body)) > 0 {
			return t.countingStream(s, list[1:], c)
		}
		if s.Init != nil && s.Cond != nil && s.Post != nil {
			return t.auxFor(s, rest)
		}
		if s.Init != nil || s.Cond != nil || s.Post != nil {
			panic("translate: unsupported loop header in a stream function")
		}
		if len(list) != 1 {
			panic("translate: statements after an endless loop")
		}
		return t.endless(s, c)
	}
	panic(fmt.Sprintf("translate: unsupported statement %T at %s", list[0], t.p.fset.Position(list[0].Pos())))
}

// variables assigned in a statement list (in order of first assignment), without group indices
func (t *trans) assignedIn(list []ast.Stmt) []string {
	var out []string
	seen := map[string]bool{}
	for _, st := range list {
		ast.Inspect(st, func(n ast.Node) bool {
			if as, ok := n.(*ast.AssignStmt); ok {
				if len(as.Rhs) == 1 {
					if call, ok := as.Rhs[0].(*ast.CallExpr); ok {
						if sel, ok := call.Fun.(*ast.SelectorExpr); ok && sel.Sel.Name == "beginGroup" {
							return true
						}
					}
				}
				for _, l := range as.Lhs {
					if id, ok := l.(*ast.Ident); ok && id.Name != "_" && !seen[id.Name] {
						seen[id.Name] = true
						out = append(out, id.Name)
					}
				}
			}
			return true
		})
	}
	return out
}

func (t *trans) group(as *ast.AssignStmt, begin *ast.CallExpr, after []ast.Stmt, c pctx) string {
	idx := as.Lhs[0].(*ast.Ident).Name
	end := -1
	var endCall *ast.CallExpr
	for j, st := range after {
		if es, ok := st.(*ast.ExprStmt); ok {
			if call, ok := es.X.(*ast.CallExpr); ok {
				if sel, ok := call.Fun.(*ast.SelectorExpr); ok && sel.Sel.Name == "endGroup" && t.isStreamCall(call) &&
					exprText(t.p.fset, call.Args[0]) == idx {
					end, endCall = j, call
					break
				}
			}
		}
	}
	if end < 0 {
		panic("translate: beginGroup without a matching endGroup in the same block")
	}
	body, restStmts := after[:end], after[end+1:]
	label, ok := t.p.consts[exprText(t.p.fset, begin.Args[0])]
	if !ok {
		if ty, isVar := t.env[exprText(t.p.fset, begin.Args[0])]; isVar && ty == "str" {
			label = t.name(exprText(t.p.fset, begin.Args[0]))
		} else {
			panic("translate: group label is not a constant: " + exprText(t.p.fset, begin.Args[0]))
		}
	}
	standalone := exprText(t.p.fset, begin.Args[1])
	if standalone != "true" && standalone != "false" {
		panic("translate: standalone flag of a group is not a literal")
	}
	// pure statements at the head of the body do not depend on what the group draws: they move before it
	var pre []string
	for len(body) > 0 {
		a, ok := body[0].(*ast.AssignStmt)
		if !ok || len(t.streamCalls(a)) > 0 || len(a.Lhs) != 1 || len(a.Rhs) != 1 {
			break
		}
		lhsName, lhsTy := t.lhs(a.Lhs[0])
		e, ty := t.expr(a.Rhs[0], lhsTy)
		t.bind(a.Lhs[0], ty)
		pre = append(pre, fmt.Sprintf("let %s : %s := %s", t.name(lhsName), leanTy(ty), e))
		body = body[1:]
	}
	live := t.assignedIn(body)
	if c.tail == nil {
		// only what the rest of the function (or the discard flag) reads leaves the group
		used := map[string]bool{}
		mark := func(n ast.Node) {
			ast.Inspect(n, func(x ast.Node) bool {
				if id, ok := x.(*ast.Ident); ok {
					used[id.Name] = true
				}
				return true
			})
		}
		mark(endCall.Args[1])
		for _, st := range restStmts {
			mark(st)
		}
		var kept []string
		for _, v := range live {
			if used[v] {
				kept = append(kept, v)
			}
		}
		live = kept
	}
	var liveTy []gty
	bodyS := t.pblock(body, pctx{tail: func() string {
		var vals []string
		for _, v := range live {
			liveTy = append(liveTy, t.env[v])
			vals = append(vals, t.name(v))
		}
		return ".ret (Go.Enc.enc " + tupleOf(vals) + ")"
	}})
	for i, v := range live {
		t.env[v] = liveTy[i]
	}
	var names, tys []string
	for i, v := range live {
		names = append(names, t.name(v))
		tys = append(tys, leanTy(liveTy[i]))
	}
	tyS := "Unit"
	if len(tys) > 0 {
		tyS = strings.Join(tys, " × ")
	}
	// inner is written for column 2 (like every block); the lambda bodies of the group sit at column 4
	unpack := func(inner string) string {
		switch len(names) {
		case 0:
			return indent(inner)
		case 1:
			return fmt.Sprintf("let %s : %s := Go.Enc.dec v\n    %s", names[0], tyS, indent(inner))
		}
		return indent(t.letTuple(names, tys, tyS, "Go.Enc.dec v", inner))
	}
	disc, dty := t.expr(endCall.Args[1], "bool")
	if dty != "bool" {
		panic("translate: discard flag is not a bool")
	}
	restS := t.pblock(restStmts, c)
	out := fmt.Sprintf(".group %s %s\n    (\n      %s)\n    (fun v =>\n    %s)\n    (fun v =>\n    %s)", label, standalone, indent(indent(bodyS)), unpack(disc), unpack(restS))
	if len(pre) > 0 {
		out = strings.Join(pre, "\n  ") + "\n  " + out
	}
	return out
}

// projections of an n-tuple (right-nested pairs): .1, .2.1, .2.2.1, …, .2.2…2
func projOf(base string, i, n int) string {
	s := base
	for j := 0; j < i; j++ {
		s += ".2"
	}
	if i < n-1 {
		s += ".1"
	}
	return s
}

// bind the components of a tuple value to names by projections (lets reduce under simp; matches do not)
func (t *trans) letTuple(names, tys []string, tupleTy string, val string, rest string) string {
	tmp := t.fresh("t")
	var b strings.Builder
	fmt.Fprintf(&b, "let %s : %s := %s\n  ", tmp, tupleTy, val)
	for i, n := range names {
		if n == "_" {
			continue
		}
		fmt.Fprintf(&b, "let %s : %s := %s\n  ", n, tys[i], projOf(tmp, i, len(names)))
	}
	return b.String() + rest
}

func tupleOf(vals []string) string {
	switch len(vals) {
	case 0:
		return "()"
	case 1:
		return vals[0]
	}
	return "(" + strings.Join(vals, ", ") + ")"
}

// endless translates `for { … }` as a recursive auxiliary definition with fuel
func (t *trans) endless(loop *ast.ForStmt, c pctx) string {
	if c.ret == nil {
		panic("translate: loop inside a group body")
	}
	t.loopN++
	name := fmt.Sprintf("%s_loop%d", t.self, t.loopN)
	free := map[string]bool{}
	ast.Inspect(loop.Body, func(n ast.Node) bool {
		if id, ok := n.(*ast.Ident); ok {
			if _, isVar := t.env[id.Name]; isVar {
				free[id.Name] = true
			}
		}
		return true
	})
	var fv []string
	for v := range free {
		fv = append(fv, v)
	}
	sort.Strings(fv)
	var params, args []string
	for _, v := range fv {
		params = append(params, fmt.Sprintf("(%s : %s)", t.name(v), leanTy(t.env[v])))
		args = append(args, t.name(v))
	}
	saved := t.snapshot()
	call := fmt.Sprintf("%s fe %s k fuel", name, strings.Join(args, " "))
	body := t.pblock(loop.Body.List, pctx{c.results, c.ret, func() string { return call }})
	t.restore(saved)
	t.aux = append(t.aux, fmt.Sprintf("/-- the endless loop of %s (%s); `fuel` bounds the number of iterations -/\ndef %s (fe : Go.FEval) %s (k : %s) : Nat → Prog\n  | 0 => .throw .fuel\n  | fuel+1 =>\n    %s\n",
		t.self, t.p.fset.Position(loop.Pos()), name, strings.Join(params, " "), kType(c.results), indent(body)))
	return call
}

// sprintf turns fmt.Sprintf("a %d b", n) (or a string literal) into a Lean string expression
func (t *trans) sprintf(e ast.Expr) string {
	if lit, ok := e.(*ast.BasicLit); ok && lit.Kind == token.STRING {
		return lit.Value
	}
	call, ok := e.(*ast.CallExpr)
	if !ok || exprText(t.p.fset, call.Fun) != "fmt.Sprintf" {
		panic("translate: unsupported message " + exprText(t.p.fset, e))
	}
	format, err := strconv.Unquote(exprText(t.p.fset, call.Args[0]))
	if err != nil {
		panic("translate: Sprintf format is not a literal")
	}
	parts := strings.Split(format, "%d")
	if len(parts) != len(call.Args) || strings.Contains(format, "%v") || strings.Contains(format, "%s") {
		panic("translate: only %d verbs are supported in messages: " + format)
	}
	out := strconv.Quote(parts[0])
	for i, a := range call.Args[1:] {
		s, ty := t.expr(a, "i64")
		if ty != "i64" {
			panic("translate: %d of a non-int")
		}
		out += fmt.Sprintf(" ++ toString (%s).toInt ++ %s", s, strconv.Quote(parts[i+1]))
	}
	return "(" + out + ")"
}

// countingStream: `for i := a; cond; i++ { … stream calls, returns … }` followed by the rest of the block:
// a recursive definition over the loop variable; when the condition fails the rest of the block runs
func (t *trans) countingStream(loop *ast.ForStmt, after []ast.Stmt, c pctx) string {
	if c.ret == nil {
		panic("translate: loop inside a group body")
	}
	init, ok := loop.Init.(*ast.AssignStmt)
	if !ok || len(init.Lhs) != 1 || init.Tok != token.DEFINE {
		panic("translate: unsupported loop initialiser")
	}
	inc, ok := loop.Post.(*ast.IncDecStmt)
	if !ok || inc.Tok != token.INC || exprText(t.p.fset, inc.X) != exprText(t.p.fset, init.Lhs[0]) {
		panic("translate: unsupported loop post statement")
	}
	v := init.Lhs[0].(*ast.Ident).Name
	initS, ity := t.expr(init.Rhs[0], "i64")
	if ity != "i64" {
		panic("translate: counting loop with stream calls over a non-int variable")
	}
	t.env[v] = "i64"
	t.loopN++
	name := fmt.Sprintf("%s_loop%d", t.self, t.loopN)
	free := map[string]bool{}
	mark := func(n ast.Node) {
		ast.Inspect(n, func(n ast.Node) bool {
			if id, ok := n.(*ast.Ident); ok {
				if _, isVar := t.env[id.Name]; isVar {
					free[id.Name] = true
				}
			}
			return true
		})
	}
	mark(loop.Cond)
	mark(loop.Body)
	for _, st := range after {
		mark(st)
	}
	delete(free, v)
	var fv []string
	for x := range free {
		fv = append(fv, x)
	}
	sort.Strings(fv)
	var params, args []string
	for _, x := range fv {
		params = append(params, fmt.Sprintf("(%s : %s)", t.name(x), leanTy(t.env[x])))
		args = append(args, t.name(x))
	}
	var cbParams, cbArgs []string
	var cbs []string
	for cb := range t.callbacks {
		cbs = append(cbs, cb)
	}
	sort.Strings(cbs)
	for _, cb := range cbs {
		var resTy []string
		for _, r := range t.callbacks[cb] {
			resTy = append(resTy, leanTy(r))
		}
		cbParams = append(cbParams, fmt.Sprintf("(%s : (%s → Prog) → Prog)", cbName(cb), strings.Join(resTy, " → ")))
		cbArgs = append(cbArgs, cbName(cb))
	}
	var tps []string
	for tp := range typeParams {
		tps = append(tps, fmt.Sprintf("{%s : Type} [Go.Enc %s] [Inhabited %s]", tp, tp, tp))
	}
	sort.Strings(tps)
	saved := t.snapshot()
	cond, _ := t.expr(loop.Cond, "bool")
	next := fmt.Sprintf("%s fe %s k fuel (%s + (1 : Int64))", name, strings.Join(append(cbArgs, args...), " "), t.name(v))
	body := t.pblock(loop.Body.List, pctx{c.results, c.ret, func() string { return next }})
	t.restore(saved)
	saved = t.snapshot()
	restS := t.pblock(after, c)
	t.restore(saved)
	t.aux = append(t.aux, fmt.Sprintf("/-- the loop of %s (%s); `fuel` bounds the number of iterations -/\ndef %s %s (fe : Go.FEval) %s (k : %s) : Nat → Int64 → Prog\n  | 0, _ => .throw .fuel\n  | fuel+1, %s =>\n    if %s then\n      %s\n    else\n      %s\n",
		t.self, t.p.fset.Position(loop.Pos()), name, strings.Join(tps, " "), strings.Join(append(cbParams, params...), " "), kType(c.results),
		t.name(v), cond, indent(indent(body)), indent(indent(restS))))
	return fmt.Sprintf("%s fe %s k fuel %s", name, strings.Join(append(cbArgs, args...), " "), initS)
}

func isPtrT(e ast.Expr) bool {
	st, ok := e.(*ast.StarExpr)
	if !ok {
		return false
	}
	id, ok := st.X.(*ast.Ident)
	return ok && id.Name == "T"
}

func kType(results []gty) string {
	var parts []string
	for _, r := range results {
		parts = append(parts, leanTy(r))
	}
	parts = append(parts, "Prog")
	return strings.Join(parts, " → ")
}

// progFunction translates a function whose first parameter is the bit stream
func (t *trans) progFunction(key string, fx bool) string {
	d, ok := t.p.funcs[key]
	if !ok {
		panic("translate: no function " + key)
	}
	fxMode = fx
	defer func() { fxMode = false }()
	t.env = map[string]gty{}
	t.fields = map[string]gty{}
	t.recv = ""
	t.self = key
	t.loopN = 0
	t.tmpN = 0
	t.aux = nil
	t.hoisted = map[*ast.CallExpr]string{}
	t.stream = ""
	t.streamOwner = ""
	t.recvName, t.recvType = "", ""
	t.callbacks = map[string][]gty{}
	t.listFields = map[string]gty{}
	t.optFields = map[string]gty{}
	t.hoistedIdx = map[*ast.IndexExpr]string{}
	typeParams = map[string]bool{}
	defer func() { typeParams = map[string]bool{} }()
	var params []string
	var sg psig
	var tpOrder []string
	t.needDefault = map[string]bool{}
	t.pureFns = map[string]sig{}
	t.tpConvs = map[string]bool{}
	t.fields = map[string]gty{}
	if d.Type.TypeParams != nil {
		for _, f := range d.Type.TypeParams.List {
			for _, n := range f.Names {
				typeParams[n.Name] = true
				tpOrder = append(tpOrder, n.Name)
			}
		}
	}
	if d.Recv != nil {
		// a method of a generic generator type: the type parameters come from the receiver, the fields the body
		// uses become parameters — a *Generator[X] field is a sub-generator, a func field a pure function
		rt := d.Recv.List[0].Type
		if st, ok := rt.(*ast.StarExpr); ok {
			rt = st.X
		}
		switch x := rt.(type) {
		case *ast.IndexExpr:
			tpOrder = append(tpOrder, x.Index.(*ast.Ident).Name)
		case *ast.IndexListExpr:
			for _, ix := range x.Indices {
				tpOrder = append(tpOrder, ix.(*ast.Ident).Name)
			}
		}
		for _, tp := range tpOrder {
			typeParams[tp] = true
		}
		recv := recvName(d)
		t.recvName, t.recvType = recv, recvType(d)
		st := t.p.structs[recvType(d)]
		if st == nil {
			panic("translate: no struct for the receiver of " + key)
		}
		used := map[string]bool{}
		var methodVals []string
		ast.Inspect(d.Body, func(n ast.Node) bool {
			if sel, ok := n.(*ast.SelectorExpr); ok {
				if id, ok := sel.X.(*ast.Ident); ok && id.Name == recv {
					if msg, ok := t.psigs[t.recvType+"."+sel.Sel.Name]; ok {
						// a translated method of the same receiver: its fields are needed here too
						for _, f := range msg.recvFields {
							used[f] = true
						}
					} else if md, ok := t.p.funcs[t.recvType+"."+sel.Sel.Name]; ok {
						_ = md
						methodVals = append(methodVals, sel.Sel.Name)
					} else {
						used[sel.Sel.Name] = true
					}
				}
			}
			return true
		})
		for _, mname := range methodVals {
			// an untranslated method handed on as a sub-generator: a parameter with the method's results
			md := t.p.funcs[t.recvType+"."+mname]
			var res []gty
			var resTy []string
			for _, r := range md.Type.Results.List {
				res = append(res, goTy(r.Type))
				resTy = append(resTy, leanTy(goTy(r.Type)))
			}
			fkey := recv + "." + mname
			t.callbacks[fkey] = res
			params = append(params, fmt.Sprintf("(%s : (%s → Prog) → Prog)", cbName(fkey), strings.Join(resTy, " → ")))
			sg.recvFields = append(sg.recvFields, mname)
		}
		// embedded structs are flattened: their fields are read as fields of the receiver
		var flat []*ast.Field
		var flatten func(fl *ast.FieldList)
		flatten = func(fl *ast.FieldList) {
			for _, f := range fl.List {
				if len(f.Names) == 0 {
					if id, ok := f.Type.(*ast.Ident); ok && t.p.structs[id.Name] != nil {
						flatten(t.p.structs[id.Name].Fields)
					}
					continue
				}
				flat = append(flat, f)
			}
		}
		flatten(st.Fields)
		for _, f := range flat {
			for _, n := range f.Names {
				if !used[n.Name] {
					continue
				}
				fkey := recv + "." + n.Name
				sg.recvFields = append(sg.recvFields, n.Name)
				if id, ok := f.Type.(*ast.Ident); ok && !typeParams[id.Name] {
					switch id.Name {
					case "bool", "int", "int64", "uint64", "uint", "int32", "uint32":
						// a plain value: a parameter
						ty := goTy(f.Type)
						t.fields[n.Name] = ty
						t.recv = recv
						params = append(params, fmt.Sprintf("(%s : %s)", recv+"_"+n.Name, leanTy(ty)))
						continue
					}
				}
				if se, ok := f.Type.(*ast.StarExpr); ok {
					if ix, ok := se.X.(*ast.IndexExpr); ok && exprText(t.p.fset, ix.X) == "Generator" {
						ety := goTy(ix.Index)
						t.callbacks[fkey] = []gty{ety}
						params = append(params, fmt.Sprintf("(%s : (%s → Prog) → Prog)", cbName(fkey), leanTy(ety)))
						continue
					}
				}
				if ix, ok := f.Type.(*ast.IndexExpr); ok && exprText(t.p.fset, ix.X) == "generatorImpl" {
					// the implementation behind a Generator: drawn from like a generator
					ety := goTy(ix.Index)
					t.callbacks[fkey] = []gty{ety}
					params = append(params, fmt.Sprintf("(%s : (%s → Prog) → Prog)", cbName(fkey), leanTy(ety)))
					continue
				}
				if ix, ok := f.Type.(*ast.IndexExpr); ok && exprText(t.p.fset, ix.X) == "atomic.Pointer" {
					// written elsewhere (String()), read here with Load(): whatever it holds at the time of the call
					ety := goTy(ix.Index)
					t.optFields[fkey] = ety
					params = append(params, fmt.Sprintf("(%s : Option %s)", cbName(fkey), leanTy(ety)))
					continue
				}
				if at, ok := f.Type.(*ast.ArrayType); ok && at.Len == nil {
					// a slice: of values, or of generators
					if se, ok := at.Elt.(*ast.StarExpr); ok {
						if ix, ok := se.X.(*ast.IndexExpr); ok && exprText(t.p.fset, ix.X) == "Generator" {
							ety := goTy(ix.Index)
							t.listFields[fkey] = gty("cb:" + string(ety))
							params = append(params, fmt.Sprintf("(%s : List ((%s → Prog) → Prog))", cbName(fkey), leanTy(ety)))
							continue
						}
					}
					ety := goTy(at.Elt)
					t.listFields[fkey] = ety
					params = append(params, fmt.Sprintf("(%s : List %s)", cbName(fkey), leanTy(ety)))
					continue
				}
				if ft, ok := f.Type.(*ast.FuncType); ok && ft.Results != nil && len(ft.Results.List) == 1 {
					var fs sig
					var tys []string
					for _, pf := range ft.Params.List {
						k := len(pf.Names)
						if k == 0 {
							k = 1
						}
						for i := 0; i < k; i++ {
							fs.params = append(fs.params, goTy(pf.Type))
							tys = append(tys, leanTy(goTy(pf.Type)))
						}
					}
					fs.results = []gty{goTy(ft.Results.List[0].Type)}
					tys = append(tys, leanTy(fs.results[0]))
					t.pureFns[fkey] = fs
					params = append(params, fmt.Sprintf("(%s : %s)", cbName(fkey), strings.Join(tys, " → ")))
					continue
				}
				panic("translate: unsupported receiver field " + fkey)
			}
		}
	}
	for i, f := range d.Type.Params.List {
		if exprText(t.p.fset, f.Type) == "bitStream" {
			if i != 0 || len(f.Names) != 1 {
				panic("translate: the bit stream is not the first parameter of " + key)
			}
			t.stream = f.Names[0].Name
			continue
		}
		if isPtrT(f.Type) {
			// the stream is reached through the T; nothing else of the T is used by a translated function
			if t.stream != "" || len(f.Names) != 1 {
				panic("translate: more than one stream in " + key)
			}
			t.stream = f.Names[0].Name + ".s"
			t.streamOwner = f.Names[0].Name
			continue
		}
		if ft, ok := f.Type.(*ast.FuncType); ok {
			// gen func(*T) (V, bool): a sub-generator in continuation-passing style
			if ft.Params == nil || len(ft.Params.List) != 1 || !isPtrT(ft.Params.List[0].Type) {
				panic("translate: unsupported function parameter in " + key)
			}
			var res []gty
			var resTy []string
			for _, r := range ft.Results.List {
				res = append(res, goTy(r.Type))
				resTy = append(resTy, leanTy(goTy(r.Type)))
			}
			for _, n := range f.Names {
				t.callbacks[n.Name] = res
				params = append(params, fmt.Sprintf("(%s : (%s → Prog) → Prog)", cbName(n.Name), strings.Join(resTy, " → ")))
				sg.params = append(sg.params, "callback")
			}
			continue
		}
		for _, n := range f.Names {
			ty := goTy(f.Type)
			t.env[n.Name] = ty
			params = append(params, fmt.Sprintf("(%s : %s)", t.name(n.Name), leanTy(ty)))
			sg.params = append(sg.params, ty)
		}
	}
	if d.Type.Results != nil {
		for _, f := range d.Type.Results.List {
			k := len(f.Names)
			if k == 0 {
				k = 1
			}
			for i := 0; i < k; i++ {
				sg.results = append(sg.results, goTy(f.Type))
			}
		}
	}
	if len(sg.results) == 0 {
		panic("translate: stream function without results: " + key)
	}
	sg.fx = fx
	t.psigs[key] = sg // (recursion is not supported: the signature is registered for later functions)
	ret := func(vals []string) string { return "k " + strings.Join(vals, " ") }
	body := t.pblock(d.Body.List, pctx{sg.results, ret, nil})
	out := strings.Join(t.aux, "\n")
	if out != "" {
		out += "\n"
	}
	var tpBinders []string
	for _, tp := range tpOrder {
		// (Inhabited: `var zero V`)
		tpBinders = append(tpBinders, fmt.Sprintf("{%s : Type} [Go.Enc %s] [Inhabited %s]", tp, tp, tp))
	}
	params = append(tpBinders, params...)
	// conversions to a type parameter (`I(i)`): what they do depends on the instance, they are parameters
	var convs []string
	for c := range t.tpConvs {
		convs = append(convs, c)
	}
	sort.Strings(convs)
	params = append(params, convs...)
	out += fmt.Sprintf("/-- %s (%s) -/\ndef %s (fe : Go.FEval) %s (fuel : Nat) (k : %s) : Prog :=\n  %s\n",
		key, t.p.fset.Position(d.Pos()), strings.ReplaceAll(key, ".", "_"), strings.Join(params, " "), kType(sg.results), body)
	t.stream = ""
	return out
}

// pureStmts: only assignments without stream calls, and ifs made of such statements
func (t *trans) pureStmts(list []ast.Stmt) bool {
	for _, st := range list {
		switch x := st.(type) {
		case *ast.AssignStmt:
			if len(x.Rhs) != 1 || len(t.streamCalls(x)) > 0 || (x.Tok != token.ASSIGN && x.Tok != token.DEFINE) {
				return false
			}
			for _, l := range x.Lhs {
				if _, ok := l.(*ast.Ident); !ok {
					return false
				}
			}
			if len(x.Lhs) > 1 {
				if _, ok := x.Rhs[0].(*ast.CallExpr); !ok {
					return false
				}
			}
		case *ast.IfStmt:
			if x.Init != nil || len(t.streamCalls(x.Cond)) > 0 || !t.pureStmts(x.Body.List) {
				return false
			}
			switch e := x.Else.(type) {
			case nil:
			case *ast.BlockStmt:
				if !t.pureStmts(e.List) {
					return false
				}
			case *ast.IfStmt:
				if !t.pureStmts([]ast.Stmt{e}) {
					return false
				}
			default:
				return false
			}
		default:
			return false
		}
	}
	return true
}

// variables of the enclosing scope that the statements assign (sorted)
func (t *trans) outerAssigned(list []ast.Stmt) []string {
	seen := map[string]bool{}
	for _, st := range list {
		ast.Inspect(st, func(n ast.Node) bool {
			if as, ok := n.(*ast.AssignStmt); ok {
				for _, l := range as.Lhs {
					id := l.(*ast.Ident)
					_, outer := t.env[id.Name]
					if as.Tok == token.DEFINE && outer {
						panic("translate: a branch redeclares " + id.Name)
					}
					if as.Tok == token.ASSIGN {
						if !outer {
							panic("translate: assignment to an unknown variable " + id.Name)
						}
						seen[id.Name] = true
					}
				}
			}
			return true
		})
	}
	var out []string
	for v := range seen {
		out = append(out, v)
	}
	sort.Strings(out)
	return out
}

func (t *trans) bindTuple(vars []string, val string, rest func() string) string {
	var names, tys []string
	for _, v := range vars {
		names = append(names, t.name(v))
		tys = append(tys, leanTy(t.env[v]))
	}
	switch len(vars) {
	case 0:
		return rest()
	case 1:
		return fmt.Sprintf("let %s : %s := %s\n  %s", names[0], tys[0], val, rest())
	}
	return t.letTuple(names, tys, strings.Join(tys, " × "), val, rest())
}

func (t *trans) pureIfExpr(s *ast.IfStmt, vars []string) string {
	cond, _ := t.expr(s.Cond, "bool")
	saved := t.snapshot()
	thenS := t.pureBlockExpr(s.Body.List, vars)
	t.restore(saved)
	saved = t.snapshot()
	var elseS string
	switch e := s.Else.(type) {
	case nil:
		elseS = t.pureBlockExpr(nil, vars)
	case *ast.BlockStmt:
		elseS = t.pureBlockExpr(e.List, vars)
	case *ast.IfStmt:
		elseS = t.pureIfExpr(e, vars)
	}
	t.restore(saved)
	return fmt.Sprintf("if %s then\n    %s\n  else\n    %s", cond, indent(thenS), indent(elseS))
}

func (t *trans) pureBlockExpr(list []ast.Stmt, vars []string) string {
	if len(list) == 0 {
		var names []string
		for _, v := range vars {
			names = append(names, t.name(v))
		}
		return tupleOf(names)
	}
	rest := func() string { return t.pureBlockExpr(list[1:], vars) }
	switch x := list[0].(type) {
	case *ast.AssignStmt:
		if len(x.Lhs) > 1 {
			return t.multiAssign(x, rest)
		}
		lhsName, lhsTy := t.lhs(x.Lhs[0])
		e, ty := t.expr(x.Rhs[0], lhsTy)
		if ty == "" {
			panic("translate: cannot type " + exprText(t.p.fset, x.Rhs[0]))
		}
		if lhsTy != "" && lhsTy != ty && x.Tok == token.ASSIGN {
			panic("translate: assignment changes the type of " + lhsName)
		}
		t.bind(x.Lhs[0], ty)
		return fmt.Sprintf("let %s : %s := %s\n  %s", t.name(lhsName), leanTy(ty), e, rest())
	case *ast.IfStmt:
		inner := t.outerAssigned([]ast.Stmt{x})
		return t.bindTuple(inner, t.pureIfExpr(x, inner), rest)
	}
	panic("translate: not a pure statement")
}

// a, b, c = f(x): a pure translated function with several results
func (t *trans) multiAssign(s *ast.AssignStmt, rest func() string) string {
	call, ok := s.Rhs[0].(*ast.CallExpr)
	if !ok {
		panic("translate: unsupported multi-value assignment")
	}
	fn := exprText(t.p.fset, call.Fun)
	sg, ok := t.sigs[fn]
	if !ok || len(sg.results) != len(s.Lhs) {
		panic("translate: multi-value assignment from " + fn)
	}
	var args []string
	for i, a := range call.Args {
		e, ty := t.expr(a, sg.params[i])
		if ty != sg.params[i] {
			panic(fmt.Sprintf("translate: argument %d of %s has type %s, want %s", i, fn, ty, sg.params[i]))
		}
		args = append(args, e)
	}
	var names, tys []string
	for i, l := range s.Lhs {
		id, ok := l.(*ast.Ident)
		if !ok {
			panic("translate: unsupported assignment target")
		}
		if old, ok := t.env[id.Name]; ok && s.Tok == token.ASSIGN && old != sg.results[i] {
			panic("translate: assignment changes the type of " + id.Name)
		}
		if id.Name != "_" {
			t.env[id.Name] = sg.results[i]
		}
		names = append(names, t.name(id.Name))
		tys = append(tys, leanTy(sg.results[i]))
	}
	return t.letTuple(names, tys, strings.Join(tys, " × "), fn+" "+strings.Join(args, " "), rest())
}

func (t *trans) nthOf(target ast.Node, match func(ast.Node) bool) int {
	d := t.p.funcs[t.self]
	n, found := 0, -1
	ast.Inspect(d.Body, func(nd ast.Node) bool {
		if nd != nil && match(nd) {
			if nd == target {
				found = n
			}
			n++
		}
		return true
	})
	if found < 0 {
		panic("translate: statement not found in its function")
	}
	return found
}

// a tag-less switch that only assigns: the definition translated on its own, applied to its free variables
func (t *trans) auxSwitch(sw *ast.SwitchStmt, rest func() string) string {
	if sw.Tag != nil || sw.Init != nil {
		panic("translate: switch with a tag")
	}
	idx := t.nthOf(sw, func(n ast.Node) bool { s, ok := n.(*ast.SwitchStmt); return ok && s.Tag == nil })
	info, ok := t.auxReg[fmt.Sprintf("%s#switch%d", t.self, idx)]
	if !ok {
		panic(fmt.Sprintf("translate: switch #%d of %s was not translated on its own", idx, t.self))
	}
	var args []string
	for _, v := range info.fv {
		if _, ok := t.env[v]; !ok {
			panic("translate: switch uses an unknown variable " + v)
		}
		args = append(args, t.name(v))
	}
	for _, v := range info.assigned {
		if _, ok := t.env[v]; !ok {
			panic("translate: switch assigns an undeclared variable " + v)
		}
	}
	return t.bindTuple(info.assigned, info.name+" "+strings.Join(args, " "), rest)
}

// a counting loop without stream calls: the definition translated on its own
func (t *trans) auxFor(loop *ast.ForStmt, rest func() string) string {
	if len(t.streamCalls(loop)) > 0 {
		panic("translate: counting loop with stream calls")
	}
	idx := t.nthOf(loop, func(n ast.Node) bool { _, ok := n.(*ast.ForStmt); return ok })
	info, ok := t.auxReg[fmt.Sprintf("%s#for%d", t.self, idx)]
	if !ok {
		panic(fmt.Sprintf("translate: loop #%d of %s was not translated on its own", idx, t.self))
	}
	init := loop.Init.(*ast.AssignStmt)
	initS, ity := t.expr(init.Rhs[0], "")
	cond := loop.Cond.(*ast.BinaryExpr)
	boundS, _ := t.expr(cond.Y, ity)
	if ity != "u64" {
		panic("translate: counting loop over a signed variable")
	}
	var args []string
	for _, v := range info.fv {
		args = append(args, t.name(v))
	}
	var mut []string
	for _, v := range info.assigned {
		mut = append(mut, t.name(v))
	}
	// `bound - init` iterations are enough
	val := fmt.Sprintf("%s %s (%s - %s).toNat %s %s", info.name, strings.Join(args, " "), boundS, initS, initS, strings.Join(mut, " "))
	return t.bindTuple(info.assigned, val, rest)
}
