package main

// Check mode of the imperative translator (engine.go: `doCheck`, `checkFailFile`).  On top of engine mode (the testing.TB,
// the deadline and the property are not parameters; `tb.Helper()` is nothing), in `Go.CM` (RapidModel/GoCheck.lean):
//
//	matches, _ := filepath.Glob(failFilePattern(tb.Name()))     the request `glob`
//	version, _, buf, err := loadFailFile(file)                  the request `load file`
//	s := newBufBitStream(buf, false) / newRandomBitStream(seed, true); t := newT(tb, s, …)
//	                                                            the stream a fresh `*T` is created on (`Go.SSpec`)
//	err := checkOnce(t, prop)                                   the request `once spec`: the error, and `s.data`
//	… := findBug(tb, deadline, checks, seed, prop)              the request `findBug checks seed`
//	… := shrink(tb, …, s.recordedBits, err, prop)               the request `shrink err` (on the recording of the last `once`)
//	… := checkFailFile(tb, file, prop)                          the translated function
//	x.Logf(…), assertf(!tb.Failed(), …)                         nothing (logging; a precondition on the caller's TB)
//	a *testError                                                the model's `Option Err`: `== nil`, `.isInvalidData()`,
//	                                                            `sameError(a, b)` are the model's

import (
	"fmt"
	"go/ast"
	"go/token"
	"strings"
)

var ckMode bool

// the stream behind a `*T` variable, and the words behind a stream variable
type ckState struct {
	streamOf     map[string]string // t  -> s
	dataOf       map[string]string // s  -> name of the variable that holds s.data after the run
	lastOnce     string            // the stream of the last test case that was run
	prunePending bool              // s.rec = sN.recordedBits has been seen, s.rec.prune() must follow
}

func (m *imp) ckInit() {
	if m.ckSt == nil {
		m.ckSt = &ckState{streamOf: map[string]string{}, dataOf: map[string]string{}}
	}
}

func callName(p *pkgInfo, e ast.Expr) (string, *ast.CallExpr) {
	c, ok := e.(*ast.CallExpr)
	if !ok {
		return "", nil
	}
	return exprText(p.fset, c.Fun), c
}

func identNames(lhs []ast.Expr) []string {
	var out []string
	for _, l := range lhs {
		out = append(out, l.(*ast.Ident).Name)
	}
	return out
}

// bind the results of a request to the names of a multiple assignment
func (m *imp) ckBind(code string, names []string, tys []gty, rest func() string) string {
	for i, n := range names {
		if n != "_" {
			m.t.env[n] = tys[i]
		}
	}
	return m.bindTuple(names, code, rest())
}

func (m *imp) ckStmt(st ast.Stmt, rest func() string) (string, bool) {
	m.ckInit()
	switch x := st.(type) {
	case *ast.ExprStmt:
		fn, call := callName(m.p, x.X)
		if call == nil {
			return "", false
		}
		if strings.HasSuffix(fn, ".Logf") {
			return rest(), true // logging only
		}
		if fn == "assertf" && exprText(m.p.fset, call.Args[0]) == "!tb.Failed()" {
			return rest(), true // a precondition on the caller's testing.TB
		}
	case *ast.AssignStmt:
		if len(x.Rhs) != 1 {
			return "", false
		}
		fn, call := callName(m.p, x.Rhs[0])
		if call == nil {
			return "", false
		}
		names := identNames(x.Lhs)
		switch fn {
		case "filepath.Glob":
			if exprText(m.p.fset, call.Args[0]) != "failFilePattern(tb.Name())" {
				panic("translate(check): Glob of another pattern")
			}
			return m.ckBind("Go.CM.glob", names[:1], []gty{"[]str"}, rest), true
		case "loadFailFile":
			f, _ := m.expr(call.Args[0], "str")
			if len(names) != 4 || names[1] != "_" {
				panic("translate(check): loadFailFile: the seed of the file is looked at")
			}
			return m.ckBind("(Go.CM.load "+f+")", []string{names[0], names[2], names[3]}, []gty{"str", "[]u64", "err"}, rest), true
		case "newBufBitStream":
			if exprText(m.p.fset, call.Args[1]) != "false" && m.recvTy != "shrinker" {
				panic("translate(check): a recording buffer stream")
			}
			b, _ := m.expr(call.Args[0], "[]u64")
			m.t.env[names[0]] = "sspec"
			return fmt.Sprintf("let %s : Go.SSpec := .buf %s\n  %s", names[0], b, rest()), true
		case "newRandomBitStream":
			if exprText(m.p.fset, call.Args[1]) != "true" {
				panic("translate(check): a random stream that does not record")
			}
			s, _ := m.expr(call.Args[0], "u64")
			m.t.env[names[0]] = "sspec"
			return fmt.Sprintf("let %s : Go.SSpec := .rng %s\n  %s", names[0], s, rest()), true
		case "newT":
			sid, ok := call.Args[1].(*ast.Ident)
			if !ok || m.t.env[sid.Name] != "sspec" || exprText(m.p.fset, call.Args[3]) != "nil" {
				panic("translate(check): newT on something else than a fresh stream")
			}
			m.ckSt.streamOf[names[0]] = sid.Name
			return rest(), true
		case "checkOnce":
			tname := ""
			if tid, ok := call.Args[0].(*ast.Ident); ok {
				tname = tid.Name
			} else if fn2, c2 := callName(m.p, call.Args[0]); fn2 == "newT" {
				// checkOnce(newT(tb, s, …, nil), prop)
				if sid, ok := c2.Args[1].(*ast.Ident); ok && m.t.env[sid.Name] == "sspec" && exprText(m.p.fset, c2.Args[3]) == "nil" {
					tname = "t_" + sid.Name
					m.ckSt.streamOf[tname] = sid.Name
				}
			}
			if tname == "" || m.ckSt.streamOf[tname] == "" {
				panic("translate(check): checkOnce on a T that was not made here")
			}
			s := m.ckSt.streamOf[tname]
			d := s + "_data"
			m.ckSt.dataOf[s] = d
			m.ckSt.lastOnce = s
			return m.ckBind("(Go.CM.once "+s+")", []string{names[0], d}, []gty{"errv", "[]u64"}, rest), true
		case "findBug":
			c, _ := m.expr(call.Args[2], "i64")
			s, _ := m.expr(call.Args[3], "u64")
			return m.ckBind(fmt.Sprintf("(Go.CM.findBug %s %s)", c, s), names, []gty{"i64", "i64", "bool", "u64", "errv"}, rest), true
		case "shrink":
			// shrink(tb, shrinkDeadline(deadline), s.recordedBits, err, prop): the recording is that of the last `once`
			rec := exprText(m.p.fset, call.Args[2])
			sname := strings.TrimSuffix(rec, ".recordedBits")
			if sname == rec || m.ckSt.dataOf[sname] == "" || m.ckSt.lastOnce != sname {
				panic("translate(check): shrink of something else than the recording of the last test case")
			}
			e, _ := m.expr(call.Args[3], "errv")
			return m.ckBind("(Go.CM.shrink "+e+")", names, []gty{"[]u64", "errv"}, rest), true
		case "checkFailFile":
			f, _ := m.expr(call.Args[1], "str")
			if m.sigs["checkFailFile"] == nil {
				panic("translate(check): checkFailFile is not translated yet")
			}
			return m.ckBind("(checkFailFile "+f+")", names, []gty{"[]u64", "errv", "errv"}, rest), true
		}
	}
	return "", false
}

func (m *imp) ckExpr(e ast.Expr, want gty) (string, gty, bool) {
	m.ckInit()
	if s, ty, ok := m.acExpr(e, want); ok {
		return s, ty, true
	}
	switch x := e.(type) {
	case *ast.BasicLit:
		if x.Kind == token.STRING {
			return x.Value, "str", true
		}
	case *ast.Ident:
		if x.Name == "nil" && want == "errv" {
			return "none", "errv", true
		}
		if x.Name == "nil" && strings.HasPrefix(string(want), "[]") {
			return "[]", want, true
		}
		if x.Name == "rapidVersion" {
			if v := m.p.consts["rapidVersion"]; v != "" {
				return v, "str", true
			}
		}
	case *ast.SelectorExpr:
		// s.data: the words the stream has handed out, after the run
		if id, ok := x.X.(*ast.Ident); ok && x.Sel.Name == "data" && m.ckSt.dataOf[id.Name] != "" {
			return m.ckSt.dataOf[id.Name], "[]u64", true
		}
	case *ast.CompositeLit:
		// []string{a, b}
		if at, ok := x.Type.(*ast.ArrayType); ok && at.Len == nil && exprText(m.p.fset, at.Elt) == "string" {
			var els []string
			for _, el := range x.Elts {
				s, _ := m.expr(el, "str")
				els = append(els, s)
			}
			return "[" + strings.Join(els, ", ") + "]", "[]str", true
		}
	case *ast.BinaryExpr:
		if x.Op == token.NEQ || x.Op == token.EQL {
			if id, ok := x.Y.(*ast.Ident); ok && id.Name == "nil" {
				a, ta := m.expr(x.X, "")
				switch ta {
				case "errv":
					if x.Op == token.NEQ {
						return "(" + a + ").isSome", "bool", true
					}
					return "(" + a + ").isNone", "bool", true
				case "err":
					if x.Op == token.NEQ {
						return a, "bool", true
					}
					return "(!" + a + ")", "bool", true
				}
			}
			a, ta := m.expr(x.X, "str")
			if ta == "str" {
				b, _ := m.expr(x.Y, "str")
				op := map[token.Token]string{token.NEQ: "!=", token.EQL: "=="}[x.Op]
				return "(" + a + " " + op + " " + b + ")", "bool", true
			}
		}
	case *ast.CallExpr:
		fn := exprText(m.p.fset, x.Fun)
		if fn == "sameError" {
			a, _ := m.expr(x.Args[0], "errv")
			b, _ := m.expr(x.Args[1], "errv")
			return "(Rapid.sameError " + a + " " + b + ")", "bool", true
		}
		if sel, ok := x.Fun.(*ast.SelectorExpr); ok && sel.Sel.Name == "isInvalidData" && len(x.Args) == 0 {
			a, ta := m.expr(sel.X, "errv")
			if ta == "errv" {
				return "(Go.errvInvalid " + a + ")", "bool", true
			}
		}
		if fn == "append" && x.Ellipsis.IsValid() && len(x.Args) == 2 {
			a, ta := m.expr(x.Args[0], "")
			b, _ := m.expr(x.Args[1], ta)
			return "(" + a + " ++ " + b + ")", ta, true
		}
	}
	return "", "", false
}

// ---- shrinker.accept (check mode with the shrinker's fields as state)
//
//	bufStr := dataStr(buf); _, ok := s.cache[bufStr]; s.cache[bufStr] = struct{}{}   the cache as a list of candidates
//	s.tries[label]++, s.debugf(…), if flags.debugvis {…}                             nothing (statistics, debug output)
//	traceback(a) != traceback(b)                                                      the model's tbKey
//	s.rec = s2.recordedBits; s.rec.prune()                                            the request `pruned` (prune of the recording of the
//	                                                                                  last test case; its assertion is a panic)
//	panic(err2)                                                                       the panic `mismatch`

func (m *imp) acStmt(list []ast.Stmt, c ictx, rest func() string) (string, bool) {
	if m.recvTy != "shrinker" {
		return "", false
	}
	text := func(n ast.Node) string { return nodeText(m.p.fset, n) }
	switch x := list[0].(type) {
	case *ast.AssignStmt:
		if len(x.Lhs) == 1 && len(x.Rhs) == 1 {
			if fn, call := callName(m.p, x.Rhs[0]); fn == "dataStr" {
				b, _ := m.expr(call.Args[0], "[]u64")
				name := x.Lhs[0].(*ast.Ident).Name
				m.t.env[name] = "[]u64"
				return fmt.Sprintf("let %s : (List UInt64) := %s\n  %s", name, b, rest()), true
			}
			// s.cache[bufStr] = struct{}{}
			if ix, ok := x.Lhs[0].(*ast.IndexExpr); ok && text(ix.X) == m.recv+".cache" {
				k, _ := m.expr(ix.Index, "[]u64")
				v := m.fieldVar("cache")
				return fmt.Sprintf("let %s : (List (List UInt64)) := (%s :: %s)\n  %s", v, k, v, rest()), true
			}
			// s.rec = s2.recordedBits; s.rec.prune()
			if text(x.Lhs[0]) == m.recv+".rec" && strings.HasSuffix(text(x.Rhs[0]), ".recordedBits") {
				sname := strings.TrimSuffix(text(x.Rhs[0]), ".recordedBits")
				if m.ckSt.lastOnce != sname || len(list) < 2 || text(list[1]) != m.recv+".rec.prune()" {
					panic("translate(accept): s.rec is not the pruned recording of the last test case")
				}
				m.ckSt.prunePending = true
				return rest(), true
			}
		}
	case *ast.ExprStmt:
		if text(x.X) == m.recv+".rec.prune()" {
			if !m.ckSt.prunePending {
				panic("translate(accept): prune of something else than the recording of the last test case")
			}
			m.ckSt.prunePending = false
			return fmt.Sprintf("Go.CM.pruned >>= fun %s =>\n  %s", m.fieldVar("rec_data"), rest()), true
		}
		if fn, call := callName(m.p, x.X); fn == "panic" && call != nil {
			if e, ty := m.expr(call.Args[0], ""); ty == "errv" {
				_ = e
				return m.lift("(.error .mismatch)"), true
			}
		}
	case *ast.IncDecStmt:
		if ix, ok := x.X.(*ast.IndexExpr); ok && text(ix.X) == m.recv+".tries" {
			return rest(), true
		}
	case *ast.IfStmt:
		if x.Init == nil && text(x.Cond) == "flags.debugvis" && x.Else == nil {
			return rest(), true
		}
		// if _, ok := s.cache[bufStr]; ok { … }
		if as, ok := x.Init.(*ast.AssignStmt); ok && len(as.Rhs) == 1 {
			if ix, ok := as.Rhs[0].(*ast.IndexExpr); ok && text(ix.X) == m.recv+".cache" && text(x.Cond) == text(as.Lhs[1]) {
				cond := &ast.CallExpr{Fun: ast.NewIdent("__cacheHas"), Args: []ast.Expr{ix.Index}}
				ni := &ast.IfStmt{Cond: cond, Body: x.Body, Else: x.Else}
				return m.block(append([]ast.Stmt{ni}, list[1:]...), c), true
			}
		}
	}
	return "", false
}

func (m *imp) acExpr(e ast.Expr, want gty) (string, gty, bool) {
	if m.recvTy != "shrinker" {
		return "", "", false
	}
	switch x := e.(type) {
	case *ast.SelectorExpr:
		if nodeText(m.p.fset, x) == m.recv+".rec.data" {
			return m.fieldVar("rec_data"), "[]u64", true
		}
	case *ast.CallExpr:
		fn := exprText(m.p.fset, x.Fun)
		if fn == "__cacheHas" {
			k, _ := m.expr(x.Args[0], "[]u64")
			return "(" + m.fieldVar("cache") + ".contains " + k + ")", "bool", true
		}
	case *ast.BinaryExpr:
		if x.Op == token.NEQ || x.Op == token.EQL {
			fa, ca := callName(m.p, x.X)
			fb, cb := callName(m.p, x.Y)
			if fa == "traceback" && fb == "traceback" {
				a, _ := m.expr(ca.Args[0], "errv")
				b, _ := m.expr(cb.Args[0], "errv")
				op := map[token.Token]string{token.NEQ: "!=", token.EQL: "=="}[x.Op]
				return "(Rapid.tbKey " + a + " " + op + " Rapid.tbKey " + b + ")", "bool", true
			}
		}
	}
	return "", "", false
}
