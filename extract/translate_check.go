package main

// Check mode of the imperative translator (engine.go: `doCheck`, `checkFailFile`).  On top of engine mode (the testing.TB,
// the deadline and the property are not parameters; `tb.Helper()` is nothing), in `Go.CM` (RapidModel/GoCheck.lean):
//
//	matches, _ := filepath.Glob(failFilePattern(tb.Name()))     the request `glob`
//	version, _, buf, err := loadFailFile(file)                  the request `load file`
//	s := newBufBitStream(buf, false) / newRandomBitStream(seed, true); t := newT(tb, s, …)
//	                                                            the stream a fresh `*T` is created on (`Go.SSpec`)
//	err := checkOnce(t, prop)                                   the request `once spec`: the error, and `s.data`
//	… := findBug(tb, deadline, checks, seed, prop)              the request `findBug checks seed`
//	… := shrink(tb, …, s.recordedBits, err, prop)               the request `shrink err` (on the recording of the last `once`)
//	… := checkFailFile(tb, file, prop)                          the translated function
//	x.Logf(…), assertf(!tb.Failed(), …)                         nothing (logging; a precondition on the caller's TB)
//	a *testError                                                the model's `Option Err`: `== nil`, `.isInvalidData()`,
//	                                                            `sameError(a, b)` are the model's

import (
	"fmt"
	"go/ast"
	"go/token"
	"strings"
)

var ckMode bool

// the stream behind a `*T` variable, and the words behind a stream variable
type ckState struct {
	streamOf map[string]string // t  -> s
	dataOf   map[string]string // s  -> name of the variable that holds s.data after the run
	lastOnce string            // the stream of the last test case that was run
}

func (m *imp) ckInit() {
	if m.ckSt == nil {
		m.ckSt = &ckState{streamOf: map[string]string{}, dataOf: map[string]string{}}
	}
}

func callName(p *pkgInfo, e ast.Expr) (string, *ast.CallExpr) {
	c, ok := e.(*ast.CallExpr)
	if !ok {
		return "", nil
	}
	return exprText(p.fset, c.Fun), c
}

func identNames(lhs []ast.Expr) []string {
	var out []string
	for _, l := range lhs {
		out = append(out, l.(*ast.Ident).Name)
	}
	return out
}

// bind the results of a request to the names of a multiple assignment
func (m *imp) ckBind(code string, names []string, tys []gty, rest func() string) string {
	for i, n := range names {
		if n != "_" {
			m.t.env[n] = tys[i]
		}
	}
	return m.bindTuple(names, code, rest())
}

func (m *imp) ckStmt(st ast.Stmt, rest func() string) (string, bool) {
	m.ckInit()
	switch x := st.(type) {
	case *ast.ExprStmt:
		fn, call := callName(m.p, x.X)
		if call == nil {
			return "", false
		}
		if strings.HasSuffix(fn, ".Logf") {
			return rest(), true // logging only
		}
		if fn == "assertf" && exprText(m.p.fset, call.Args[0]) == "!tb.Failed()" {
			return rest(), true // a precondition on the caller's testing.TB
		}
	case *ast.AssignStmt:
		if len(x.Rhs) != 1 {
			return "", false
		}
		fn, call := callName(m.p, x.Rhs[0])
		if call == nil {
			return "", false
		}
		names := identNames(x.Lhs)
		switch fn {
		case "filepath.Glob":
			if exprText(m.p.fset, call.Args[0]) != "failFilePattern(tb.Name())" {
				panic("translate(check): Glob of another pattern")
			}
			return m.ckBind("Go.CM.glob", names[:1], []gty{"[]str"}, rest), true
		case "loadFailFile":
			f, _ := m.expr(call.Args[0], "str")
			if len(names) != 4 || names[1] != "_" {
				panic("translate(check): loadFailFile: the seed of the file is looked at")
			}
			return m.ckBind("(Go.CM.load "+f+")", []string{names[0], names[2], names[3]}, []gty{"str", "[]u64", "err"}, rest), true
		case "newBufBitStream":
			if exprText(m.p.fset, call.Args[1]) != "false" {
				panic("translate(check): a recording buffer stream")
			}
			b, _ := m.expr(call.Args[0], "[]u64")
			m.t.env[names[0]] = "sspec"
			return fmt.Sprintf("let %s : Go.SSpec := .buf %s\n  %s", names[0], b, rest()), true
		case "newRandomBitStream":
			if exprText(m.p.fset, call.Args[1]) != "true" {
				panic("translate(check): a random stream that does not record")
			}
			s, _ := m.expr(call.Args[0], "u64")
			m.t.env[names[0]] = "sspec"
			return fmt.Sprintf("let %s : Go.SSpec := .rng %s\n  %s", names[0], s, rest()), true
		case "newT":
			sid, ok := call.Args[1].(*ast.Ident)
			if !ok || m.t.env[sid.Name] != "sspec" || exprText(m.p.fset, call.Args[3]) != "nil" {
				panic("translate(check): newT on something else than a fresh stream")
			}
			m.ckSt.streamOf[names[0]] = sid.Name
			return rest(), true
		case "checkOnce":
			tid, ok := call.Args[0].(*ast.Ident)
			if !ok || m.ckSt.streamOf[tid.Name] == "" {
				panic("translate(check): checkOnce on a T that was not made here")
			}
			s := m.ckSt.streamOf[tid.Name]
			d := s + "_data"
			m.ckSt.dataOf[s] = d
			m.ckSt.lastOnce = s
			return m.ckBind("(Go.CM.once "+s+")", []string{names[0], d}, []gty{"errv", "[]u64"}, rest), true
		case "findBug":
			c, _ := m.expr(call.Args[2], "i64")
			s, _ := m.expr(call.Args[3], "u64")
			return m.ckBind(fmt.Sprintf("(Go.CM.findBug %s %s)", c, s), names, []gty{"i64", "i64", "bool", "u64", "errv"}, rest), true
		case "shrink":
			// shrink(tb, shrinkDeadline(deadline), s.recordedBits, err, prop): the recording is that of the last `once`
			rec := exprText(m.p.fset, call.Args[2])
			sname := strings.TrimSuffix(rec, ".recordedBits")
			if sname == rec || m.ckSt.dataOf[sname] == "" || m.ckSt.lastOnce != sname {
				panic("translate(check): shrink of something else than the recording of the last test case")
			}
			e, _ := m.expr(call.Args[3], "errv")
			return m.ckBind("(Go.CM.shrink "+e+")", names, []gty{"[]u64", "errv"}, rest), true
		case "checkFailFile":
			f, _ := m.expr(call.Args[1], "str")
			if m.sigs["checkFailFile"] == nil {
				panic("translate(check): checkFailFile is not translated yet")
			}
			return m.ckBind("(checkFailFile "+f+")", names, []gty{"[]u64", "errv", "errv"}, rest), true
		}
	}
	return "", false
}

func (m *imp) ckExpr(e ast.Expr, want gty) (string, gty, bool) {
	m.ckInit()
	switch x := e.(type) {
	case *ast.BasicLit:
		if x.Kind == token.STRING {
			return x.Value, "str", true
		}
	case *ast.Ident:
		if x.Name == "nil" && want == "errv" {
			return "none", "errv", true
		}
		if x.Name == "nil" && strings.HasPrefix(string(want), "[]") {
			return "[]", want, true
		}
		if x.Name == "rapidVersion" {
			if v := m.p.consts["rapidVersion"]; v != "" {
				return v, "str", true
			}
		}
	case *ast.SelectorExpr:
		// s.data: the words the stream has handed out, after the run
		if id, ok := x.X.(*ast.Ident); ok && x.Sel.Name == "data" && m.ckSt.dataOf[id.Name] != "" {
			return m.ckSt.dataOf[id.Name], "[]u64", true
		}
	case *ast.CompositeLit:
		// []string{a, b}
		if at, ok := x.Type.(*ast.ArrayType); ok && at.Len == nil && exprText(m.p.fset, at.Elt) == "string" {
			var els []string
			for _, el := range x.Elts {
				s, _ := m.expr(el, "str")
				els = append(els, s)
			}
			return "[" + strings.Join(els, ", ") + "]", "[]str", true
		}
	case *ast.BinaryExpr:
		if x.Op == token.NEQ || x.Op == token.EQL {
			if id, ok := x.Y.(*ast.Ident); ok && id.Name == "nil" {
				a, ta := m.expr(x.X, "")
				switch ta {
				case "errv":
					if x.Op == token.NEQ {
						return "(" + a + ").isSome", "bool", true
					}
					return "(" + a + ").isNone", "bool", true
				case "err":
					if x.Op == token.NEQ {
						return a, "bool", true
					}
					return "(!" + a + ")", "bool", true
				}
			}
			a, ta := m.expr(x.X, "str")
			if ta == "str" {
				b, _ := m.expr(x.Y, "str")
				op := map[token.Token]string{token.NEQ: "!=", token.EQL: "=="}[x.Op]
				return "(" + a + " " + op + " " + b + ")", "bool", true
			}
		}
	case *ast.CallExpr:
		fn := exprText(m.p.fset, x.Fun)
		if fn == "sameError" {
			a, _ := m.expr(x.Args[0], "errv")
			b, _ := m.expr(x.Args[1], "errv")
			return "(Rapid.sameError " + a + " " + b + ")", "bool", true
		}
		if sel, ok := x.Fun.(*ast.SelectorExpr); ok && sel.Sel.Name == "isInvalidData" && len(x.Args) == 0 {
			a, ta := m.expr(sel.X, "errv")
			if ta == "errv" {
				return "(Go.errvInvalid " + a + ")", "bool", true
			}
		}
		if fn == "append" && x.Ellipsis.IsValid() && len(x.Args) == 2 {
			a, ta := m.expr(x.Args[0], "")
			b, _ := m.expr(x.Args[1], ta)
			return "(" + a + " ++ " + b + ")", ta, true
		}
	}
	return "", "", false
}
