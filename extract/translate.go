package main

// A small translator from a subset of Go to Lean 4 definitions: pure integer functions made of
// assignments, if/else, return and tag-less switch blocks, over uint64/uint/uint32/int32/int64/bool
// (floats only as arguments of math.Float{32,64}bits / results of math.Float{32,64}frombits, i.e. as
// bit patterns).  The output (Generated/Translated.lean) is regenerated from /repo's source on every
// run; RapidProofs/TranslatedEq.lean proves the translated definitions equal to the hand-written model.
// Anything outside the subset is an error (the check then reports a broken obligation).

import (
	"fmt"
	"go/ast"
	"go/token"
	"math"
	"math/big"
	"os"
	"runtime/debug"
	"sort"
	"strconv"
	"strings"
)

type gty string // "u64" "u32" "i32" "i64" "bool" "f64" "f32" "" (untyped constant)

// type parameters of the generic function being translated (find[V any])
var typeParams = map[string]bool{}

func leanTy(t gty) string {
	if strings.HasPrefix(string(t), "tp:") {
		return string(t)[3:]
	}
	switch t {
	case "f64":
		if fxMode {
			return "Go.FX"
		}
		return "UInt64"
	case "u64":
		return "UInt64"
	case "u32", "f32":
		return "UInt32"
	case "u8":
		return "UInt8"
	case "i32":
		return "Int32"
	case "i64":
		return "Int64"
	case "bool":
		return "Bool"
	case "str":
		return "String"
	}
	panic("translate: no Lean type for " + string(t))
}

func goTy(e ast.Expr) gty {
	id, ok := e.(*ast.Ident)
	if !ok {
		panic(fmt.Sprintf("translate: unsupported type expression %T", e))
	}
	if typeParams[id.Name] {
		return gty("tp:" + id.Name)
	}
	switch id.Name {
	case "uint64", "uint":
		return "u64"
	case "uint32":
		return "u32"
	case "byte", "uint8":
		return "u8"
	case "int32":
		return "i32"
	case "int64", "int":
		return "i64"
	case "bool":
		return "bool"
	case "string":
		return "str"
	case "float64":
		return "f64"
	case "float32":
		return "f32"
	}
	panic("translate: unsupported type " + id.Name)
}

type sig struct {
	params  []gty
	results []gty
}

type trans struct {
	mayPanic bool // the function can panic: its value is an Option (none = panicked)
	p        *pkgInfo
	env      map[string]gty    // variables in scope
	ren      map[string]string // Go name -> Lean name
	sigs     map[string]sig    // callable functions (translated ones and the hard-wired table)
	tpConvs  map[string]bool   // conversions to a type parameter used by the function (binders of its parameters)
	fields   map[string]gty    // receiver fields (jsf64ctx)
	recv     string
	// stream functions (translate_prog.go)
	stream             string                    // name of the bitStream parameter
	psigs              map[string]psig           // translated stream functions
	hoisted            map[*ast.CallExpr]string  // stream calls already bound to a name
	callbacks          map[string][]gty          // function parameters that draw from the stream: their result types
	optFields          map[string]gty            // atomic.Pointer[X] fields of the receiver, read with Load(): an Option
	listFields         map[string]gty            // slice fields of the receiver: element type ("cb:<ty>" for a slice of generators)
	hoistedIdx         map[*ast.IndexExpr]string // elements of slice fields already bound to a name
	streamOwner        string                    // the *T parameter through which the stream is reached
	recvName, recvType string
	pureFns            map[string]sig  // func fields of the receiver
	needDefault        map[string]bool // type parameters whose zero value is used
	tmpN               int
	loopN              int
	aux                []string // auxiliary definitions (loops) of the function being translated
	self               string
	auxReg             map[string]auxInfo // "<func>#switch<i>" / "<func>#for<i>": definitions translated on their own
	// pure-mode methods, for calls from the imperative part (translate_imp.go)
	pureMethodFields map[string][]sfield
	leanNames        map[string]string
	sigsByKey        map[string]sig
}

type auxInfo struct {
	name     string
	fv       []string // free variables = leading parameters, in this order
	assigned []string // switch: the variables it returns; loop: the variables it carries
}

var mathConsts = map[string]string{
	"math.MaxInt32":  "2147483647",
	"math.MaxInt64":  "9223372036854775807",
	"math.MaxUint64": "18446744073709551615",
	"math.MaxUint32": "4294967295",
}

// value of an integer constant expression of the package, if it is one
func (t *trans) constVal(e ast.Expr) (*big.Int, bool) {
	switch x := e.(type) {
	case *ast.BasicLit:
		if x.Kind == token.INT {
			v, ok := new(big.Int).SetString(strings.ReplaceAll(x.Value, "_", ""), 0)
			return v, ok
		}
	case *ast.Ident:
		if _, shadow := t.env[x.Name]; shadow {
			return nil, false
		}
		if src, ok := t.p.consts[x.Name]; ok {
			v, ok := new(big.Int).SetString(strings.ReplaceAll(src, "_", ""), 0)
			return v, ok
		}
	case *ast.SelectorExpr:
		if s, ok := mathConsts[exprText(t.p.fset, x)]; ok {
			v, _ := new(big.Int).SetString(s, 10)
			return v, true
		}
	case *ast.ParenExpr:
		return t.constVal(x.X)
	case *ast.BinaryExpr:
		a, ok1 := t.constVal(x.X)
		b, ok2 := t.constVal(x.Y)
		if ok1 && ok2 {
			switch x.Op {
			case token.ADD:
				return new(big.Int).Add(a, b), true
			case token.SUB:
				return new(big.Int).Sub(a, b), true
			case token.MUL:
				return new(big.Int).Mul(a, b), true
			}
		}
	}
	return nil, false
}

func lit(v *big.Int, ty gty) string {
	if ty == "f64" && fxMode {
		return fmt.Sprintf("(Go.FX.lit %q)", v.String())
	}
	if ty == "f64" || ty == "f32" {
		f, _ := new(big.Float).SetInt(v).Float64()
		if ty == "f32" {
			return fmt.Sprintf("(%d : UInt32)", math.Float32bits(float32(f)))
		}
		return fmt.Sprintf("(%d : UInt64)", math.Float64bits(f))
	}
	if v.Sign() < 0 {
		return fmt.Sprintf("(-(%s : %s))", new(big.Int).Neg(v).String(), leanTy(ty))
	}
	return fmt.Sprintf("(%s : %s)", v.String(), leanTy(ty))
}

func (t *trans) name(n string) string {
	if r, ok := t.ren[n]; ok {
		return r
	}
	return n
}

// expr translates e; want is the type an untyped constant should take ("" = none known)
func (t *trans) expr(e ast.Expr, want gty) (string, gty) {
	if v, ok := t.constVal(e); ok {
		if want == "" {
			return v.String(), ""
		}
		return lit(v, want), want
	}
	switch x := e.(type) {
	case *ast.ParenExpr:
		return t.expr(x.X, want)
	case *ast.BasicLit:
		if x.Kind == token.STRING {
			return x.Value, "str"
		}
		if x.Kind == token.FLOAT && fxMode {
			return fmt.Sprintf("(Go.FX.lit %q)", x.Value), "f64"
		}
		if x.Kind == token.FLOAT {
			f, err := strconv.ParseFloat(x.Value, 64)
			if err != nil {
				panic("translate: float literal " + x.Value)
			}
			return fmt.Sprintf("(%d : UInt64)", math.Float64bits(f)), "f64"
		}
	case *ast.Ident:
		if x.Name == "true" || x.Name == "false" {
			return x.Name, "bool"
		}
		ty, ok := t.env[x.Name]
		if !ok {
			panic("translate: unknown identifier " + x.Name)
		}
		return t.name(x.Name), ty
	case *ast.SelectorExpr:
		if id, ok := x.X.(*ast.Ident); ok && id.Name == t.recv {
			if ty, ok := t.fields[x.Sel.Name]; ok {
				return t.name(t.recv + "_" + x.Sel.Name), ty
			}
		}
		panic("translate: unsupported selector " + exprText(t.p.fset, x))
	case *ast.UnaryExpr:
		s, ty := t.expr(x.X, want)
		switch x.Op {
		case token.SUB:
			if ty == "f64" && fxMode {
				return "(Go.FX.neg " + s + ")", ty
			}
			if ty == "f64" {
				return "(Go.f64neg " + s + ")", ty
			}
			if ty == "f32" {
				return "(Go.f32neg " + s + ")", ty
			}
			return "(-" + s + ")", ty
		case token.XOR:
			return "(~~~" + s + ")", ty
		case token.NOT:
			return "(!" + s + ")", "bool"
		}
		panic("translate: unsupported unary " + x.Op.String())
	case *ast.BinaryExpr:
		return t.binary(x, want)
	case *ast.CallExpr:
		return t.call(x, want)
	case *ast.IndexExpr:
		if n, ok := t.hoistedIdx[x]; ok {
			return n, t.env[n]
		}
	}
	panic(fmt.Sprintf("translate: unsupported expression %T: %s", e, exprText(t.p.fset, e)))
}

func (t *trans) binary(x *ast.BinaryExpr, want gty) (string, gty) {
	switch x.Op {
	case token.LAND, token.LOR:
		a, _ := t.expr(x.X, "bool")
		b, _ := t.expr(x.Y, "bool")
		op := map[token.Token]string{token.LAND: "&&", token.LOR: "||"}[x.Op]
		return "(" + a + " " + op + " " + b + ")", "bool"
	case token.SHL, token.SHR:
		a, ty := t.expr(x.X, want)
		if ty == "" {
			panic("translate: shift of an untyped constant without context: " + exprText(t.p.fset, x))
		}
		n, nty := t.expr(x.Y, "u64")
		if nty != "u64" {
			n = t.convert(n, nty, "u64")
		}
		fn := map[token.Token]string{token.SHL: "shl", token.SHR: "shr"}[x.Op]
		width := map[gty]string{"u64": "64", "u32": "32"}[ty]
		if width == "" {
			panic("translate: shift of type " + string(ty))
		}
		return "(Go." + fn + width + " " + a + " " + n + ")", ty
	}
	// find the type of the typed operand first
	_, lt := t.tryType(x.X)
	_, rt := t.tryType(x.Y)
	ty := lt
	if ty == "" {
		ty = rt
	}
	if ty == "" {
		ty = want
	}
	a, _ := t.expr(x.X, ty)
	b, _ := t.expr(x.Y, ty)
	if ty == "f64" && fxMode {
		switch x.Op {
		case token.ADD:
			return "(Go.FX.add " + a + " " + b + ")", ty
		case token.SUB:
			return "(Go.FX.sub " + a + " " + b + ")", ty
		case token.MUL:
			return "(Go.FX.mul " + a + " " + b + ")", ty
		case token.QUO:
			return "(Go.FX.div " + a + " " + b + ")", ty
		case token.LEQ:
			return "(fe.le " + a + " " + b + ")", "bool"
		case token.LSS:
			return "(fe.lt " + a + " " + b + ")", "bool"
		case token.GEQ:
			return "(fe.le " + b + " " + a + ")", "bool"
		case token.GTR:
			return "(fe.lt " + b + " " + a + ")", "bool"
		}
		panic("translate: unsupported float operator " + x.Op.String())
	}
	if ty == "f64" {
		// floats as bit patterns: only comparisons
		switch x.Op {
		case token.LEQ:
			return "(Go.f64le " + a + " " + b + ")", "bool"
		case token.LSS:
			return "(Go.f64lt " + a + " " + b + ")", "bool"
		case token.GEQ:
			return "(Go.f64le " + b + " " + a + ")", "bool"
		case token.GTR:
			return "(Go.f64lt " + b + " " + a + ")", "bool"
		}
		panic("translate: arithmetic on a float bit pattern: " + x.Op.String())
	}
	if ty == "f32" {
		panic("translate: operator on a float32 bit pattern: " + x.Op.String())
	}
	switch x.Op {
	case token.ADD, token.SUB, token.MUL:
		return "(" + a + " " + x.Op.String() + " " + b + ")", ty
	case token.AND:
		return "(" + a + " &&& " + b + ")", ty
	case token.OR:
		return "(" + a + " ||| " + b + ")", ty
	case token.XOR:
		return "(" + a + " ^^^ " + b + ")", ty
	case token.AND_NOT:
		return "(" + a + " &&& ~~~" + b + ")", ty
	case token.EQL:
		return "(" + a + " == " + b + ")", "bool"
	case token.NEQ:
		return "(" + a + " != " + b + ")", "bool"
	case token.LSS, token.LEQ, token.GTR, token.GEQ:
		op := map[token.Token]string{token.LSS: "<", token.LEQ: "≤", token.GTR: ">", token.GEQ: "≥"}[x.Op]
		return "(decide (" + a + " " + op + " " + b + "))", "bool"
	}
	panic("translate: unsupported operator " + x.Op.String())
}

// type of an expression without emitting it ("" for untyped constants)
func (t *trans) tryType(e ast.Expr) (string, gty) {
	if _, ok := t.constVal(e); ok {
		return "", ""
	}
	return t.expr(e, "")
}

func (t *trans) convert(s string, from, to gty) string {
	if from == to {
		return s
	}
	key := string(from) + ">" + string(to)
	conv := map[string]string{
		"i32>u64": "%s.toInt64.toUInt64", "u32>u64": "%s.toUInt64", "i64>u64": "%s.toUInt64",
		"u64>i32": "%s.toUInt32.toInt32", "i64>i32": "%s.toInt32", "u32>i32": "%s.toInt32",
		"i32>u32": "%s.toUInt32", "u64>u32": "%s.toUInt32", "i64>u32": "%s.toUInt64.toUInt32",
		"i32>i64": "%s.toInt64", "u64>i64": "%s.toInt64", "u32>i64": "%s.toUInt64.toInt64",
	}[key]
	if conv == "" {
		panic("translate: unsupported conversion " + key)
	}
	return fmt.Sprintf("("+conv+")", s)
}

func (t *trans) call(c *ast.CallExpr, want gty) (string, gty) {
	if n, ok := t.hoisted[c]; ok {
		return n, t.env[n]
	}
	fn := exprText(t.p.fset, c.Fun)
	if fs, ok := t.pureFns[fn]; ok {
		if len(c.Args) != len(fs.params) {
			panic("translate: wrong number of arguments for " + fn)
		}
		var args []string
		for i, a := range c.Args {
			s, ty := t.expr(a, fs.params[i])
			if ty != fs.params[i] {
				panic("translate: argument type of " + fn)
			}
			args = append(args, s)
		}
		return "(" + strings.ReplaceAll(fn, ".", "_") + " " + strings.Join(args, " ") + ")", fs.results[0]
	}
	if fxMode {
		switch fn {
		case "float64":
			s, from := t.expr(c.Args[0], "")
			switch from {
			case "u64":
				return "(Go.FX.ofU64 " + s + ")", "f64"
			case "i64":
				return "(Go.FX.ofI64 " + s + ")", "f64"
			}
			panic("translate: float64 of " + string(from))
		case "math.Log1p":
			a, _ := t.expr(c.Args[0], "f64")
			return fmt.Sprintf("(Go.FX.call1 %q %s)", fn, a), "f64"
		case "math.Max":
			a, _ := t.expr(c.Args[0], "f64")
			b, _ := t.expr(c.Args[1], "f64")
			return fmt.Sprintf("(Go.FX.call2 %q %s %s)", fn, a, b), "f64"
		}
	}
	if fn == "len" && len(c.Args) == 1 {
		if _, ok := t.listFields[exprText(t.p.fset, c.Args[0])]; ok {
			return "(Go.glen " + cbName(exprText(t.p.fset, c.Args[0])) + ")", "i64"
		}
	}
	if typeParams[fn] && len(c.Args) == 1 && t.tpConvs != nil {
		// I(x): a conversion to a type parameter
		a, from := t.expr(c.Args[0], "")
		if from != "i64" && from != "u64" {
			panic("translate: conversion of " + string(from) + " to a type parameter")
		}
		name := "conv_" + string(from) + "_" + fn
		t.tpConvs[fmt.Sprintf("(%s : %s → %s)", name, leanTy(from), fn)] = true
		return "(" + name + " " + a + ")", gty("tp:" + fn)
	}
	switch fn {
	case "bits.Len64":
		a, ty := t.expr(c.Args[0], "u64")
		if ty != "u64" {
			panic("translate: bits.Len64 of a non-uint64")
		}
		return "(Go.len64 " + a + ")", "i64"
	case "float32":
		s, from := t.expr(c.Args[0], "f64")
		if from != "f64" || fxMode {
			panic("translate: float32 of " + string(from))
		}
		return "(fe.f64to32 " + s + ")", "f32"
	case "uint64", "uint", "uint32", "int32", "int64", "int":
		to := goTy(c.Fun)
		if v, ok := t.constVal(c.Args[0]); ok {
			return lit(v, to), to
		}
		s, from := t.expr(c.Args[0], to)
		if from == "f64" && fxMode {
			switch to {
			case "u64":
				return "(fe.toU64 " + s + ")", to
			case "i64":
				return "(fe.toI64 " + s + ")", to
			}
			panic("translate: conversion of a float to " + string(to))
		}
		return t.convert(s, from, to), to
	case "math.Float64bits", "math.Float32bits":
		s, ty := t.expr(c.Args[0], "")
		to := gty("u64")
		if fn == "math.Float32bits" {
			to = "u32"
		}
		if (to == "u64" && ty != "f64") || (to == "u32" && ty != "f32") {
			panic("translate: " + fn + " of a non-float")
		}
		return s, to
	case "math.Float64frombits":
		s, _ := t.expr(c.Args[0], "u64")
		return s, "f64"
	case "math.Float32frombits":
		s, _ := t.expr(c.Args[0], "u32")
		return s, "f32"
	case "bits.RotateLeft64":
		a, _ := t.expr(c.Args[0], "u64")
		k, ok := t.constVal(c.Args[1])
		if !ok {
			panic("translate: RotateLeft64 by a non-constant")
		}
		return "(Go.rotl64 " + a + " " + k.String() + ")", "u64"
	}
	sg, ok := t.sigs[fn]
	if !ok {
		panic("translate: call of an untranslated function " + fn)
	}
	if len(sg.results) != 1 {
		panic("translate: multi-value call in expression position: " + fn)
	}
	var args []string
	for i, a := range c.Args {
		s, ty := t.expr(a, sg.params[i])
		if ty != sg.params[i] {
			panic(fmt.Sprintf("translate: argument %d of %s has type %s, want %s", i, fn, ty, sg.params[i]))
		}
		args = append(args, s)
	}
	return "(" + fn + " " + strings.Join(args, " ") + ")", sg.results[0]
}

// block translates a statement list that ends in a return on every path; results = the function's result types
func (t *trans) block(list []ast.Stmt, results []gty, tail func() string) string {
	if len(list) == 0 {
		if tail == nil {
			panic("translate: control reaches the end of a block without a return")
		}
		return tail()
	}
	rest := func() string { return t.block(list[1:], results, tail) }
	switch s := list[0].(type) {
	case *ast.ReturnStmt:
		var parts []string
		for i, r := range s.Results {
			e, ty := t.expr(r, results[i])
			if ty != results[i] {
				panic(fmt.Sprintf("translate: result %d has type %s, want %s", i, ty, results[i]))
			}
			parts = append(parts, e)
		}
		return t.wrapState(strings.Join(parts, ", "), len(parts))
	case *ast.AssignStmt:
		if len(s.Lhs) == 1 && len(s.Rhs) == 1 {
			lhsName, lhsTy := t.lhs(s.Lhs[0])
			e, ty := t.expr(s.Rhs[0], lhsTy)
			if ty == "" {
				panic("translate: cannot type " + exprText(t.p.fset, s.Rhs[0]))
			}
			if lhsTy != "" && lhsTy != ty {
				panic("translate: assignment changes the type of " + lhsName)
			}
			t.bind(s.Lhs[0], ty)
			return fmt.Sprintf("let %s : %s := %s\n  %s", t.name(lhsName), leanTy(ty), e, rest())
		}
		panic("translate: unsupported assignment " + exprText(t.p.fset, s.Lhs[0]))
	case *ast.IfStmt:
		if s.Init != nil {
			panic("translate: if with init")
		}
		c, _ := t.expr(s.Cond, "bool")
		saved := t.snapshot()
		thenS := t.block(s.Body.List, results, rest)
		t.restore(saved)
		var elseS string
		if s.Else == nil {
			elseS = rest()
		} else if eb, ok := s.Else.(*ast.BlockStmt); ok {
			elseS = t.block(eb.List, results, rest)
		} else {
			elseS = t.block([]ast.Stmt{s.Else}, results, rest)
		}
		t.restore(saved)
		return fmt.Sprintf("if %s then\n    %s\n  else\n    %s", c, indent(thenS), indent(elseS))
	case *ast.ExprStmt:
		if c, ok := s.X.(*ast.CallExpr); ok {
			fn := exprText(t.p.fset, c.Fun)
			if fn == "assert" || fn == "assertf" {
				return rest() // assertions are not part of the translated value
			}
			if fn == "panic" {
				return "none"
			}
		}
	case *ast.IncDecStmt:
		lhsName, lhsTy := t.lhs(s.X)
		if lhsTy == "" {
			panic("translate: ++/-- of an unknown variable")
		}
		op := map[token.Token]string{token.INC: "+", token.DEC: "-"}[s.Tok]
		cur, _ := t.expr(s.X, lhsTy)
		return fmt.Sprintf("let %s : %s := (%s %s %s)\n  %s", t.name(lhsName), leanTy(lhsTy), cur, op, lit(big.NewInt(1), lhsTy), rest())
	}
	panic(fmt.Sprintf("translate: unsupported statement %T", list[0]))
}

func indent(s string) string { return strings.ReplaceAll(s, "\n", "\n  ") }

func (t *trans) snapshot() map[string]gty {
	m := map[string]gty{}
	for k, v := range t.env {
		m[k] = v
	}
	return m
}
func (t *trans) restore(m map[string]gty) { t.env = m }

func (t *trans) lhs(e ast.Expr) (string, gty) {
	switch x := e.(type) {
	case *ast.Ident:
		return x.Name, t.env[x.Name]
	case *ast.SelectorExpr:
		if id, ok := x.X.(*ast.Ident); ok && id.Name == t.recv {
			return t.recv + "_" + x.Sel.Name, t.fields[x.Sel.Name]
		}
	}
	panic("translate: unsupported assignment target " + exprText(t.p.fset, e))
}

func (t *trans) bind(e ast.Expr, ty gty) {
	if id, ok := e.(*ast.Ident); ok {
		t.env[id.Name] = ty
	}
}

// a method with a pointer receiver returns the new state of the receiver's fields as well
func (t *trans) wrapState(res string, n int) string {
	if t.recv == "" {
		if n == 1 {
			return res
		}
		return "(" + res + ")"
	}
	var fs []string
	for _, f := range t.fieldOrder() {
		fs = append(fs, t.name(t.recv+"_"+f))
	}
	out := "(" + res + ", (" + strings.Join(fs, ", ") + "))"
	if n == 0 {
		out = "(" + strings.Join(fs, ", ") + ")"
	}
	if t.mayPanic {
		out = "(some " + out + ")"
	}
	return out
}

func (t *trans) fieldOrder() []string {
	var fs []string
	for f := range t.fields {
		fs = append(fs, f)
	}
	sort.Strings(fs)
	return fs
}

func tupleTy(ts []gty) string {
	var parts []string
	for _, x := range ts {
		parts = append(parts, leanTy(x))
	}
	return strings.Join(parts, " × ")
}

// function translates a whole function declaration
func (t *trans) function(key string, leanName string) string {
	d, ok := t.p.funcs[key]
	if !ok {
		panic("translate: no function " + key)
	}
	t.env = map[string]gty{}
	t.fields = map[string]gty{}
	t.recv = ""
	var params []string
	var sg sig
	if d.Recv != nil {
		t.recv = recvName(d)
		st := t.p.structs[recvType(d)]
		used := map[string]bool{}
		ast.Inspect(d.Body, func(nd ast.Node) bool {
			if se, ok := nd.(*ast.SelectorExpr); ok {
				if id, ok := se.X.(*ast.Ident); ok && id.Name == t.recv {
					used[se.Sel.Name] = true
				}
			}
			return true
		})
		for _, f := range st.Fields.List {
			for _, n := range f.Names {
				if used[n.Name] {
					t.fields[n.Name] = goTy(f.Type) // only the fields the method touches are part of the state
				}
			}
		}
		for _, f := range t.fieldOrder() {
			params = append(params, fmt.Sprintf("(%s : %s)", t.recv+"_"+f, leanTy(t.fields[f])))
		}
	}
	for _, f := range d.Type.Params.List {
		for _, n := range f.Names {
			ty := goTy(f.Type)
			t.env[n.Name] = ty
			params = append(params, fmt.Sprintf("(%s : %s)", n.Name, leanTy(ty)))
			sg.params = append(sg.params, ty)
		}
	}
	var resList []*ast.Field
	if d.Type.Results != nil {
		resList = d.Type.Results.List
	}
	for _, f := range resList {
		k := len(f.Names)
		if k == 0 {
			k = 1
		}
		for i := 0; i < k; i++ {
			sg.results = append(sg.results, goTy(f.Type))
		}
	}
	t.mayPanic = false
	ast.Inspect(d.Body, func(nd ast.Node) bool {
		if c, ok := nd.(*ast.CallExpr); ok && exprText(t.p.fset, c.Fun) == "panic" {
			t.mayPanic = true
		}
		return true
	})
	var tail func() string
	if len(sg.results) == 0 {
		tail = func() string { return t.wrapState("", 0) } // a method without results returns the new state
	}
	body := t.block(d.Body.List, sg.results, tail)
	resTy := tupleTy(sg.results)
	if t.recv != "" {
		var fts []gty
		for _, f := range t.fieldOrder() {
			fts = append(fts, t.fields[f])
		}
		if len(sg.results) == 0 {
			resTy = tupleTy(fts)
		} else {
			resTy = "(" + resTy + ") × (" + tupleTy(fts) + ")"
		}
		if t.mayPanic {
			resTy = "Option (" + resTy + ")"
		}
	} else {
		t.sigs[leanName] = sg
		if leanName != key {
			t.sigs[key] = sg
		}
	}
	if t.recv != "" && !t.mayPanic {
		if t.pureMethodFields == nil {
			t.pureMethodFields, t.leanNames, t.sigsByKey = map[string][]sfield{}, map[string]string{}, map[string]sig{}
		}
		var fs []sfield
		for _, f := range t.fieldOrder() {
			fs = append(fs, sfield{f, t.fields[f]})
		}
		t.pureMethodFields[key], t.leanNames[key], t.sigsByKey[key] = fs, leanName, sg
	}
	return fmt.Sprintf("/-- %s (%s) -/\ndef %s %s : %s :=\n  %s\n", key, t.p.fset.Position(d.Pos()), leanName, strings.Join(params, " "), resTy, body)
}

// switchBlock translates the idx-th tag-less switch of a function as a function of its free variables
func (t *trans) switchBlock(key string, idx int, leanName string, varTypes map[string]gty) string {
	d := t.p.funcs[key]
	var sw *ast.SwitchStmt
	n := 0
	ast.Inspect(d.Body, func(nd ast.Node) bool {
		if s, ok := nd.(*ast.SwitchStmt); ok && s.Tag == nil {
			if n == idx {
				sw = s
			}
			n++
		}
		return true
	})
	if sw == nil {
		panic(fmt.Sprintf("translate: %s has no tag-less switch #%d", key, idx))
	}
	t.recv = ""
	t.fields = map[string]gty{}
	t.env = map[string]gty{}
	for k, v := range varTypes {
		t.env[k] = v
	}
	// assigned variables (the same in every case) and free variables
	var assigned []string
	free := map[string]bool{}
	collect := func(e ast.Expr) {
		ast.Inspect(e, func(nd ast.Node) bool {
			if id, ok := nd.(*ast.Ident); ok {
				if _, isVar := varTypes[id.Name]; isVar {
					free[id.Name] = true
				}
			}
			return true
		})
	}
	type arm struct {
		cond string
		vals []string
	}
	var arms []arm
	for _, cc := range sw.Body.List {
		c := cc.(*ast.CaseClause)
		if len(c.Body) != 1 {
			panic("translate: switch case with more than one statement")
		}
		as, ok := c.Body[0].(*ast.AssignStmt)
		if !ok || as.Tok != token.ASSIGN {
			panic("translate: switch case that is not an assignment")
		}
		var names []string
		for _, l := range as.Lhs {
			names = append(names, l.(*ast.Ident).Name)
		}
		if assigned == nil {
			assigned = names
		} else if strings.Join(assigned, ",") != strings.Join(names, ",") {
			panic("translate: switch cases assign different variables")
		}
		var a arm
		if len(c.List) > 1 {
			panic("translate: case with several expressions")
		}
		if len(c.List) == 1 {
			collect(c.List[0])
			a.cond, _ = t.expr(c.List[0], "bool")
		}
		for i, r := range as.Rhs {
			collect(r)
			s, ty := t.expr(r, varTypes[names[i]])
			if ty != varTypes[names[i]] {
				panic("translate: switch assigns a value of another type to " + names[i])
			}
			a.vals = append(a.vals, s)
		}
		arms = append(arms, a)
	}
	for _, a := range assigned {
		delete(free, a)
	}
	var fv []string
	for v := range free {
		fv = append(fv, v)
	}
	sort.Strings(fv)
	var params []string
	for _, v := range fv {
		params = append(params, fmt.Sprintf("(%s : %s)", v, leanTy(varTypes[v])))
	}
	var resT []gty
	for _, a := range assigned {
		resT = append(resT, varTypes[a])
	}
	if t.auxReg == nil {
		t.auxReg = map[string]auxInfo{}
	}
	t.auxReg[fmt.Sprintf("%s#switch%d", key, idx)] = auxInfo{leanName, fv, assigned}
	var b strings.Builder
	for i, a := range arms {
		val := "(" + strings.Join(a.vals, ", ") + ")"
		if a.cond == "" {
			if i != len(arms)-1 {
				panic("translate: default case is not the last one")
			}
			b.WriteString("  " + val)
		} else {
			b.WriteString("  if " + a.cond + " then " + val + "\n  else\n")
		}
	}
	return fmt.Sprintf("/-- switch #%d of %s (%s): the variables %s as a function of %s -/\ndef %s %s : %s :=\n%s\n",
		idx, key, t.p.fset.Position(sw.Pos()), strings.Join(assigned, ", "), strings.Join(fv, ", "), leanName, strings.Join(params, " "), tupleTy(resT), b.String())
}

// forLoop translates the idx-th `for i := init; i < bound; i++ { … }` of a function whose body consists of
// `x := e`, `x = e`, `x op= e` and `if c { break }`: a function (with explicit fuel) from the loop variable and
// the variables the body assigns to their final values
func (t *trans) forLoop(key string, idx int, leanName string, varTypes map[string]gty) string {
	d := t.p.funcs[key]
	var loop *ast.ForStmt
	n := 0
	ast.Inspect(d.Body, func(nd ast.Node) bool {
		if s, ok := nd.(*ast.ForStmt); ok {
			if n == idx {
				loop = s
			}
			n++
		}
		return true
	})
	if loop == nil {
		panic(fmt.Sprintf("translate: %s has no for loop #%d", key, idx))
	}
	t.recv = ""
	t.fields = map[string]gty{}
	t.env = map[string]gty{}
	for k, v := range varTypes {
		t.env[k] = v
	}
	// header: i := init; i < bound; i++
	init, ok := loop.Init.(*ast.AssignStmt)
	if !ok || init.Tok != token.DEFINE || len(init.Lhs) != 1 {
		panic("translate: for loop without `i := init`")
	}
	iv := init.Lhs[0].(*ast.Ident).Name
	initS, ity := t.expr(init.Rhs[0], "")
	if ity == "" {
		panic("translate: untyped loop variable")
	}
	t.env[iv] = ity
	cond, ok := loop.Cond.(*ast.BinaryExpr)
	if !ok || cond.Op != token.LSS || exprText(t.p.fset, cond.X) != iv {
		panic("translate: for condition is not `i < bound`")
	}
	if inc, ok := loop.Post.(*ast.IncDecStmt); !ok || inc.Tok != token.INC || exprText(t.p.fset, inc.X) != iv {
		panic("translate: for post statement is not `i++`")
	}
	// the bound is evaluated on every iteration in Go; it must not depend on variables the body assigns
	mutated := map[string]bool{}
	for _, st := range loop.Body.List {
		if as, ok := st.(*ast.AssignStmt); ok && as.Tok != token.DEFINE {
			mutated[as.Lhs[0].(*ast.Ident).Name] = true
		}
	}
	free := map[string]bool{}
	collect := func(e ast.Node) {
		ast.Inspect(e, func(nd ast.Node) bool {
			if id, ok := nd.(*ast.Ident); ok {
				if _, isVar := varTypes[id.Name]; isVar {
					free[id.Name] = true
				}
			}
			return true
		})
	}
	collect(cond.Y)
	for v := range mutated {
		if free[v] {
			panic("translate: loop bound depends on a variable assigned in the body")
		}
	}
	boundS, _ := t.expr(cond.Y, ity)
	collect(loop.Body)
	var mut []string
	for v := range mutated {
		mut = append(mut, v)
		delete(free, v)
	}
	sort.Strings(mut)
	var fv []string
	for v := range free {
		fv = append(fv, v)
	}
	sort.Strings(fv)
	state := func() string {
		if len(mut) == 1 {
			return mut[0]
		}
		return "(" + strings.Join(mut, ", ") + ")"
	}
	var body func(list []ast.Stmt) string
	body = func(list []ast.Stmt) string {
		if len(list) == 0 {
			return fmt.Sprintf("%s %s fuel (%s + 1) %s", leanName, strings.Join(fv, " "), iv, strings.Join(mut, " "))
		}
		switch st := list[0].(type) {
		case *ast.AssignStmt:
			name := st.Lhs[0].(*ast.Ident).Name
			var e string
			var ty gty
			switch st.Tok {
			case token.DEFINE, token.ASSIGN:
				e, ty = t.expr(st.Rhs[0], t.env[name])
			case token.AND_ASSIGN:
				e, ty = t.expr(&ast.BinaryExpr{X: st.Lhs[0], Op: token.AND, Y: st.Rhs[0]}, t.env[name])
			default:
				panic("translate: unsupported assignment operator in a loop: " + st.Tok.String())
			}
			t.env[name] = ty
			return fmt.Sprintf("let %s : %s := %s\n      %s", name, leanTy(ty), e, body(list[1:]))
		case *ast.IfStmt:
			if len(st.Body.List) == 1 {
				if br, ok := st.Body.List[0].(*ast.BranchStmt); ok && br.Tok == token.BREAK && st.Else == nil {
					c, _ := t.expr(st.Cond, "bool")
					return fmt.Sprintf("if %s then %s else\n      %s", c, state(), body(list[1:]))
				}
			}
		}
		panic(fmt.Sprintf("translate: unsupported statement in a loop: %T", list[0]))
	}
	bodyS := body(loop.Body.List)
	if t.auxReg == nil {
		t.auxReg = map[string]auxInfo{}
	}
	t.auxReg[fmt.Sprintf("%s#for%d", key, idx)] = auxInfo{leanName, fv, mut}
	var params []string
	for _, v := range fv {
		params = append(params, fmt.Sprintf("(%s : %s)", v, leanTy(varTypes[v])))
	}
	var mparams, mtypes []string
	for _, v := range mut {
		mparams = append(mparams, v)
		mtypes = append(mtypes, leanTy(varTypes[v]))
	}
	return fmt.Sprintf("/-- for loop #%d of %s (%s): from the loop variable `%s` (initially %s) and %s to the final %s;\n    `fuel` bounds the number of iterations -/\ndef %s %s : Nat → %s → %s → %s\n  | 0, _, %s => %s\n  | fuel+1, %s, %s =>\n    if (decide (%s < %s)) then\n      %s\n    else %s\n",
		idx, key, t.p.fset.Position(loop.Pos()), iv, initS, strings.Join(mut, ", "), strings.Join(mut, ", "),
		leanName, strings.Join(params, " "), leanTy(ity), strings.Join(mtypes, " → "), strings.Join(mtypes, " × "),
		strings.Join(mparams, ", "), state(), iv, strings.Join(mparams, ", "), iv, boundS, bodyS, state())
}

// exprFn translates one expression of a function (a loop or branch condition, the right-hand side of an
// assignment) as a function of its free variables
func (t *trans) exprFn(leanName string, what string, e ast.Expr, varTypes map[string]gty, want gty) string {
	if e == nil {
		panic("translate: " + what + " not found")
	}
	t.recv = ""
	t.fields = map[string]gty{}
	t.env = map[string]gty{}
	for k, v := range varTypes {
		t.env[k] = v
	}
	free := map[string]bool{}
	ast.Inspect(e, func(nd ast.Node) bool {
		if id, ok := nd.(*ast.Ident); ok {
			if _, isVar := varTypes[id.Name]; isVar {
				free[id.Name] = true
			}
		}
		return true
	})
	var fv []string
	for v := range free {
		fv = append(fv, v)
	}
	sort.Strings(fv)
	body, ty := t.expr(e, want)
	if ty != want {
		panic(fmt.Sprintf("translate: %s has type %s, want %s", what, ty, want))
	}
	var params []string
	for _, v := range fv {
		params = append(params, fmt.Sprintf("(%s : %s)", v, leanTy(varTypes[v])))
	}
	return fmt.Sprintf("/-- %s (%s): `%s` as a function of %s -/\ndef %s %s : %s :=\n  %s\n",
		what, t.p.fset.Position(e.Pos()), exprText(t.p.fset, e), strings.Join(fv, ", "), leanName, strings.Join(params, " "), leanTy(want), body)
}

func emitTranslated(p *pkgInfo) (out string, err error) {
	defer func() {
		if r := recover(); r != nil {
			if os.Getenv("TRDEBUG") != "" {
				debug.PrintStack()
			}
			err = fmt.Errorf("%v", r)
		}
	}()
	t := &trans{p: p, ren: map[string]string{}, sigs: map[string]sig{}, psigs: map[string]psig{}}
	knownStructs = p.structs
	var b strings.Builder
	// a function of the imperative part that leaves the translator's subset is left out (with everything that calls it): the
	// proofs about it — and the properties that rest on them — no longer build, the others still do
	var untranslated []string
	safe := func(name string, f func() string) (out string) {
		defer func() {
			if r := recover(); r != nil {
				if os.Getenv("TRDEBUG") != "" {
					debug.PrintStack()
				}
				why := strings.ReplaceAll(fmt.Sprint(r), "-/", "- /")
				delete(t.psigs, name) // (a stream function registers its signature before its body is translated)
				untranslated = append(untranslated, name+": "+why)
				out = fmt.Sprintf("/- NOT TRANSLATED: %s — %s -/\n", name, why)
			}
		}()
		return f()
	}
	b.WriteString("/- GENERATED by extract (translate.go) from /repo's current source: do not edit.\n   Go functions of the subset the translator understands, as Lean definitions; shifts and rotations\n   have Go's semantics (RapidModel/GoSem.lean). -/\nimport RapidModel.GoProg\nimport RapidModel.GoImp\nimport RapidModel.GoProgImp\nimport RapidModel.GoScript\nimport RapidModel.GoEngine\nimport RapidModel.GoBytes\nimport RapidModel.GoStream\nimport RapidModel.GoCheck\n\nset_option linter.unusedVariables false\n\nnamespace Rapid.Translated\n\n")
	b.WriteString(t.function("bitmask64", "bitmask64"))
	b.WriteString("\n")
	b.WriteString(t.function("ufloatFracBits", "ufloatFracBits"))
	b.WriteString("\n")
	b.WriteString(t.function("ufloat32Parts", "ufloat32Parts"))
	b.WriteString("\n")
	b.WriteString(t.function("ufloat64Parts", "ufloat64Parts"))
	b.WriteString("\n")
	b.WriteString(t.function("ufloat32FromParts", "ufloat32FromParts"))
	b.WriteString("\n")
	b.WriteString(t.function("ufloat64FromParts", "ufloat64FromParts"))
	b.WriteString("\n")
	b.WriteString(t.function("float32FromParts", "float32FromParts"))
	b.WriteString("\n")
	b.WriteString(t.function("float64FromParts", "float64FromParts"))
	b.WriteString("\n")
	b.WriteString(t.function("jsf64ctx.rand", "jsfRand"))
	b.WriteString("\n")
	b.WriteString(t.function("repeat.reject", "repeatReject"))
	b.WriteString("\n")
	// the variables of genUfloatRange: declared types, and the result types of the calls that define the others
	vt := map[string]gty{
		"minExp": "i32", "maxExp": "i32", "minSignifI": "u64", "maxSignifI": "u64", "minSignifF": "u64", "maxSignifF": "u64",
		"e": "i64", "lOverflow": "bool", "rOverflow": "bool", "fracBits": "u64", "signifBits": "u64",
		"siMin": "u64", "siMax": "u64", "si": "u64", "sfMin": "u64", "sfMax": "u64",
	}
	checkUfloatVarTypes(p)
	b.WriteString(t.switchBlock("genUfloatRange", 0, "ufloatSwitchSI", vt))
	b.WriteString("\n")
	b.WriteString(t.switchBlock("genUfloatRange", 1, "ufloatSwitchSF", vt))
	b.WriteString("\n")
	vt["maxR"], vt["r"], vt["sf"] = "i64", "u64", "u64"
	b.WriteString(t.forLoop("genUfloatRange", 0, "ufloatClearLoop", vt))
	b.WriteString("\n")
	// engine.go: the conditions that decide how many test cases run and whether Check passes
	var loopCond, passCond, seedRhs ast.Expr
	if d := p.funcs["findBug"]; d != nil {
		ast.Inspect(d.Body, func(n ast.Node) bool {
			if f, ok := n.(*ast.ForStmt); ok && f.Cond != nil && loopCond == nil {
				loopCond = f.Cond
			}
			if a, ok := n.(*ast.AssignStmt); ok && len(a.Lhs) == 1 && exprText(p.fset, a.Lhs[0]) == "seed" && a.Tok == token.ADD_ASSIGN {
				seedRhs = &ast.BinaryExpr{X: a.Lhs[0], Op: token.ADD, Y: a.Rhs[0]}
			}
			return true
		})
	}
	if d := p.funcs["checkTB"]; d != nil {
		ast.Inspect(d.Body, func(n ast.Node) bool {
			if f, ok := n.(*ast.IfStmt); ok && strings.Contains(exprText(p.fset, f.Cond), "valid ==") && passCond == nil {
				passCond = f.Cond
			}
			return true
		})
	}
	et := map[string]gty{"valid": "i64", "invalid": "i64", "checks": "i64", "earlyExit": "bool", "seed": "u64", "iter": "i64"}
	b.WriteString(t.exprFn("findBugLoopCond", "loop condition of findBug", loopCond, et, "bool"))
	b.WriteString("\n")
	b.WriteString(t.exprFn("checkTBPassCond", "pass condition of checkTB", passCond, et, "bool"))
	b.WriteString("\n")
	b.WriteString(t.exprFn("findBugSeedStep", "seed of the next test case in findBug", seedRhs, et, "u64"))
	b.WriteString("\n/-! ### functions on the bit stream, in continuation-passing style over `Prog` -/\n\n")
	for _, fn := range []string{"genFloat01", "genGeom", "genUintNNoReject", "genUintNUnbiased", "genUintNBiased", "genUintN", "genUintRange", "flipBiasedCoin", "genIntRange", "genIndex", "find", "filteredGen.maybeValue", "filteredGen.value", "customGen.value", "mappedGen.value", "sampledGen.value", "oneOfGen.value", "Generator.value", "integerGen.value"} {
		b.WriteString(safe(fn, func() string { return t.progFunction(fn, true) }))
		b.WriteString("\n")
	}
	b.WriteString("/-! ### floats.go: float64/float32 values are bit patterns here -/\n\n")
	for _, fn := range []string{"genUfloatRange", "genFloatRange"} {
		b.WriteString(safe(fn, func() string { return t.progFunction(fn, false) }))
		b.WriteString("\n")
	}
	b.WriteString("/-! ### data.go: the recording state machine and the two bit streams, in `Go.M` -/\n\n")
	b.WriteString(emitStruct("groupInfo"))
	b.WriteString("\n")
	isigs := map[string]*isig{}
	for _, fn := range []string{"recordedBits.record", "recordedBits.beginGroup", "recordedBits.endGroup", "recordedBits.removeGroup", "recordedBits.prune", "bufBitStream.drawBits", "randomBitStream.drawBits"} {
		b.WriteString(safe(fn, func() string { return t.impFunction(fn, isigs) }))
		b.WriteString("\n")
	}
	b.WriteString("/-! ### shrink.go: `minimize` and the minimizer -/\n\n")
	for _, fn := range []string{"minimizer.accept", "minimizer.rShift", "minimizer.unsetBits", "minimizer.sortBits", "minimizer.binSearch", "minimize", "compareData", "without"} {
		b.WriteString(safe(fn, func() string { return t.impFunction(fn, isigs) }))
		b.WriteString("\n")
	}
	b.WriteString("/-! ### shrink.go: the passes of the shrinker, in `Go.SM` (reads of the shrinker's state and `accept` are effects) -/\n\n")
	b.WriteString("/-- the model's group record as the source's `groupInfo` -/\ndef groupInfoOf (g : Rapid.GI) : groupInfo :=\n  { begin := Int64.ofInt (g.begin : Int), end_ := Int64.ofInt g.end_, label := g.label, standalone := g.standalone, discard := g.discard }\n\n")
	ssigs := map[string]*isig{"without": isigs["without"], "compareData": isigs["compareData"]}
	for _, fn := range []string{"minimizer.accept", "minimizer.rShift", "minimizer.unsetBits", "minimizer.sortBits", "minimizer.binSearch", "minimize"} {
		b.WriteString(safe(fn, func() string { return t.impFunctionMode(fn, ssigs, true, "S") }))
		b.WriteString("\n")
	}
	for _, fn := range []string{"shrinker.removeGroups", "shrinker.minimizeBlocks", "shrinker.lowerFloatHack", "shrinker.removeGroupsAndLower", "shrinker.sortGroups", "shrinker.removeGroupSpans", "shrinker.shrink"} {
		b.WriteString(safe(fn, func() string { return t.impFunctionMode(fn, ssigs, true, "") }))
		b.WriteString("\n")
	}
	b.WriteString("/-! ### engine.go: the generation loop `findBug`, in `Go.EM` (seeding the stream, running a test case and the early-exit test are requests) -/\n\n")
	emMode = true
	b.WriteString(safe("findBug", func() string { return t.impFunctionMode("findBug", map[string]*isig{}, true, "") }))
	emMode = false
	b.WriteString("\n")
	b.WriteString("/-! ### engine.go: `checkFailFile` and `doCheck`, in `Go.CM` (loading a fail file, running one test case on a fresh `*T`, the generation loop and the shrinker are requests) -/\n\n")
	emMode, ckMode = true, true
	csigs := map[string]*isig{}
	b.WriteString(safe("checkFailFile", func() string { return t.impFunctionMode("checkFailFile", csigs, true, "") }))
	b.WriteString("\n")
	b.WriteString(safe("doCheck", func() string { return t.impFunctionMode("doCheck", csigs, true, "") }))
	b.WriteString("\n")
	b.WriteString("/-! ### shrink.go: `shrinker.accept`, in `Go.CM` with the shrinker's own state (current test case, error, cache, counters) as variables -/\n\n")
	asigs := map[string]*isig{"compareData": isigs["compareData"]}
	b.WriteString(safe("shrinker.accept", func() string { return t.impFunctionMode("shrinker.accept", asigs, true, "C") }))
	emMode, ckMode = false, false
	b.WriteString("\n")
	b.WriteString("/-! ### engine.go: the bytes of a fuzz input as 64-bit words (`checkFuzz`) -/\n\n")
	b.WriteString(safe("checkFuzz", func() string {
		return t.impFragment("checkFuzz", "checkFuzz_words", func(i int, s ast.Stmt) bool {
			if ds, ok := s.(*ast.DeclStmt); ok {
				return strings.Contains(exprText(p.fset, ds.Decl.(*ast.GenDecl).Specs[0].(*ast.ValueSpec).Names[0]), "buf")
			}
			_, isFor := s.(*ast.ForStmt)
			return isFor
		}, [][2]string{{"input", "[]u8"}}, "buf", "[]u64", "the statements that turn `input` into the buffer `buf` of the bit stream")
	}))
	b.WriteString("\n")
	b.WriteString("/-! ### utils.go: `repeat.more`, in `Go.StM` (groups that are opened by one call and closed by the next) -/\n\n")
	stMode = true
	b.WriteString(safe("repeat.more", func() string { return t.impFunctionMode("repeat.more", map[string]*isig{}, true, "") }))
	stMode = false
	b.WriteString("\n")
	b.WriteString("/-! ### persist.go: the content of a fail file (strings are byte lists, library calls the model's ports) -/\n\n")
	b.WriteString(safe("persist.go", func() string { return t.persistFunctions() }))
	b.WriteString("\n")
	b.WriteString("/-- functions of the imperative part that the translator had to leave out in this run (with the reason) -/\ndef untranslated : List String := " + leanList(untranslated) + "\n\n")
	b.WriteString("end Rapid.Translated\n")
	return b.String(), nil
}

// the variable types assumed for genUfloatRange's switch blocks are read off its declarations:
// the `var ( … )` block and the signatures of the functions whose results are assigned
func checkUfloatVarTypes(p *pkgInfo) {
	d := p.funcs["genUfloatRange"]
	want := map[string]string{
		"minExp, maxExp": "int32",
		"minSignifI, maxSignifI, minSignifF, maxSignifF": "uint64",
		"siMin, siMax": "uint64",
		"sfMin, sfMax": "uint64",
	}
	found := map[string]string{}
	ast.Inspect(d.Body, func(nd ast.Node) bool {
		if vs, ok := nd.(*ast.ValueSpec); ok && vs.Type != nil {
			var ns []string
			for _, n := range vs.Names {
				ns = append(ns, n.Name)
			}
			found[strings.Join(ns, ", ")] = exprText(p.fset, vs.Type)
		}
		return true
	})
	for k, v := range want {
		if found[k] != v {
			panic(fmt.Sprintf("translate: genUfloatRange no longer declares `%s %s` (found %q)", k, v, found[k]))
		}
	}
	fields := func(fl *ast.FieldList) string {
		var parts []string
		for _, f := range fl.List {
			var ns []string
			for _, n := range f.Names {
				ns = append(ns, n.Name)
			}
			if len(ns) > 0 {
				parts = append(parts, strings.Join(ns, ", ")+" "+exprText(p.fset, f.Type))
			} else {
				parts = append(parts, exprText(p.fset, f.Type))
			}
		}
		return "(" + strings.Join(parts, ", ") + ")"
	}
	sigText := func(key string) string {
		f := p.funcs[key]
		return fields(f.Type.Params) + " -> " + fields(f.Type.Results)
	}
	for key, w := range map[string]string{
		"genIntRange":    "(s bitStream, min int64, max int64, bias bool) -> (int64, bool, bool)",
		"genUintRange":   "(s bitStream, min uint64, max uint64, bias bool) -> (uint64, bool, bool)",
		"ufloatFracBits": "(e int32, signifBits uint) -> (uint)",
		"genUfloatRange": "(s bitStream, min float64, max float64, signifBits uint) -> (int32, uint64, uint64)",
	} {
		if got := sigText(key); got != w {
			panic(fmt.Sprintf("translate: signature of %s is %q, the translator assumes %q", key, got, w))
		}
	}
	_ = strconv.Itoa
}
