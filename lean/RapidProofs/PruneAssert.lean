/-
  RapidProofs.PruneAssert — the assertion at the end of `prune()` ("no group is empty") never
  fires for programs built from the public generators: every finished, non-discarded group keeps
  at least one word of its own.  This discharges `PruneOK`, the remaining hypothesis of the
  refinement of the shrinker's passes, for every property function built from Custom-free
  generators and the `*T` API.
-/
import RapidProofs.PassRefine
import RapidProofs.PruneProp

namespace Rapid

/-- every group that is kept keeps a word (hereditarily) -/
inductive GK : Prog → Prop
  | ret (v : Val) : GK (.ret v)
  | throw (e : Err) : GK (.throw e)
  | draw (n : Nat) (k : UInt64 → Prog) : (∀ u, GK (k u)) → GK (.draw n k)
  | group (l : String) (s : Bool) (b : Prog) (d : Val → Bool) (k : Val → Prog) : GK b → (∀ v, GK (k v)) →
      (∀ src ts v, (b.run src ts).res = .ok v → d v = false → (b.run src ts).used ≠ [] → (b.run src ts).kept ≠ []) →
      GK (.group l s b d k)
  | catchInv (b : Prog) (k : Option Val → Bool → Prog) : GK b → (∀ o dr, GK (k o dr)) → GK (.catchInv b k)
  | errorf (m : String) (k : Prog) : GK k → GK (.errorf m k)
  | failOnError (site : Nat) (k : Prog) : GK k → GK (.failOnError site k)
  | tick (k : Prog) : GK k → GK (.tick k)
  | cleanup (c : CTree) (k : Prog) : GK k → GK (.cleanup c k)
  | ctx (k : Prog) : GK k → GK (.ctx k)
  | inner (b : Prog) (k : Val → Prog) : GK b → (∀ v, GK (k v)) → GK (.inner b k)
  | emit (id : Nat) (k : Prog) : GK k → GK (.emit id k)

theorem gk_bind {p : Prog} (hp : GK p) {f : Val → Prog} (hf : ∀ v, GK (f v)) : GK (p >>- f) := by
  induction hp with
  | ret v => exact hf v
  | throw e => exact GK.throw e
  | draw n k _ ih => exact GK.draw _ _ (fun u => ih u)
  | group l s b d k hb _ hkeep _ ihk => exact GK.group _ _ _ _ _ hb (fun v => ihk v) hkeep
  | catchInv b k hb _ _ ihk => exact GK.catchInv _ _ hb (fun o dr => ihk o dr)
  | errorf m k _ ih => exact GK.errorf _ _ ih
  | failOnError site k _ ih => exact GK.failOnError _ _ ih
  | tick k _ ih => exact GK.tick _ ih
  | cleanup c k _ ih => exact GK.cleanup _ _ ih
  | ctx k _ ih => exact GK.ctx _ ih
  | inner b k hb _ _ ihk => exact GK.inner _ _ hb (fun v => ihk v)
  | emit id k _ ih => exact GK.emit _ _ ih

/-- no group of the recording is empty (unfinished groups have `end = -1`) -/
def NE (groups : List GI) : Prop := ∀ g ∈ groups, (g.begin : Int) ≠ g.end_

theorem noEmptyGroup_iff (r : Rec) : r.noEmptyGroup = true ↔ NE r.groups := by
  simp [Rec.noEmptyGroup, NE, List.all_eq_true]

theorem mem_modify {α : Type} {l : List α} {i : Nat} {f : α → α} {x : α} (h : x ∈ l.modify i f) :
    x ∈ l ∨ ∃ y, l[i]? = some y ∧ x = f y := by
  obtain ⟨j, hj⟩ := List.mem_iff_getElem?.mp h
  rw [List.getElem?_modify] at hj
  cases hy : l[j]? with
  | none => rw [hy] at hj; cases hj
  | some y =>
    rw [hy] at hj
    simp only [Option.map_eq_map, Option.map_some, Option.some.injEq] at hj
    by_cases hij : i = j
    · subst hij
      simp only [if_true] at hj
      exact Or.inr ⟨y, hy, hj.symm⟩
    · simp only [hij, if_false] at hj
      subst hj
      exact Or.inl (List.mem_iff_getElem?.mpr ⟨j, hy⟩)

/-- like `pruneGoT_run`, and no empty group appears -/
theorem pruneGoT_run_ne {p : Prog} (hp : GK p) : ∀ (src : Src) (ts : TS) (rest : List Tok) (r : Rec) (st : List (Nat × Nat)),
    NE r.groups → ∃ groups', pruneGoT ((p.run src ts).toks ++ rest) r st =
        pruneGoT rest ⟨r.data ++ (p.run src ts).kept, groups'⟩ st ∧ r.groups <+: groups' ∧ NE groups' := by
  induction hp with
  | ret v => intro src ts rest r st hne; exact ⟨r.groups, by simp [Prog.run, Out.ofRes, rec_eta], List.prefix_refl _, hne⟩
  | throw e => intro src ts rest r st hne; exact ⟨r.groups, by simp [Prog.run, Out.ofRes, rec_eta], List.prefix_refl _, hne⟩
  | draw n k _ ih =>
    intro src ts rest r st hne
    simp only [Prog.run]
    cases h : src.next n with
    | none => exact ⟨r.groups, by simp [Out.ofRes, rec_eta], List.prefix_refl _, hne⟩
    | some q =>
      obtain ⟨u, src'⟩ := q
      obtain ⟨g', h1, h2, h3⟩ := ih u src' ts rest { r with data := r.data ++ [u] } st hne
      refine ⟨g', ?_, h2, h3⟩
      simp only [after_toks, after_kept, List.cons_append, List.nil_append, pruneGoT]
      rw [h1]; simp [List.append_assoc]
  | group l s b d k _ _ hkeep ihb ihk =>
    intro src ts rest r st hne
    have hne1 : NE (r.groups ++ [⟨l, s, r.data.length, -1, false⟩]) := by
      intro g hg
      simp only [List.mem_append, List.mem_singleton] at hg
      rcases hg with hg | rfl
      · exact hne g hg
      · simp
    have hbody : ∀ tail : List Tok, ∃ g1,
        pruneGoT (Tok.opn l s :: ((b.run src ts).toks ++ tail)) r st =
          pruneGoT tail ⟨r.data ++ (b.run src ts).kept, g1⟩ ((r.groups.length, r.data.length) :: st) ∧
        (r.groups ++ [⟨l, s, r.data.length, -1, false⟩]) <+: g1 ∧ NE g1 := by
      intro tail
      obtain ⟨g1, h1, h2, h3⟩ := ihb src ts tail { r with groups := r.groups ++ [⟨l, s, r.data.length, -1, false⟩] }
        ((r.groups.length, r.data.length) :: st) hne1
      exact ⟨g1, by simp only [pruneGoT]; exact h1, h2, h3⟩
    have hpre : ∀ g1, (r.groups ++ [⟨l, s, r.data.length, -1, false⟩]) <+: g1 → r.groups <+: g1 :=
      fun g1 h => List.IsPrefix.trans (List.prefix_append _ _) h
    have haborted : ∃ groups', pruneGoT ((Tok.opn l s :: (b.run src ts).toks ++ [Tok.abort]) ++ rest) r st =
        pruneGoT rest ⟨r.data ++ (b.run src ts).kept, groups'⟩ st ∧ r.groups <+: groups' ∧ NE groups' := by
      obtain ⟨g1, h1, h2, h3⟩ := hbody (Tok.abort :: rest)
      refine ⟨g1, ?_, hpre g1 h2, h3⟩
      have : (Tok.opn l s :: (b.run src ts).toks ++ [Tok.abort]) ++ rest = Tok.opn l s :: ((b.run src ts).toks ++ (Tok.abort :: rest)) := by simp
      rw [this, h1]; simp [pruneGoT]
    simp only [Prog.run]
    cases hres : (b.run src ts).res with
    | error e => simpa using haborted
    | ok v =>
      simp only []
      split
      · simpa using haborted
      · rename_i hnotassert
        obtain ⟨g1, h1, h2, h3⟩ := hbody (Tok.cls (d v) :: (((k v).run (b.run src ts).src (b.run src ts).ts).toks ++ rest))
        have hshape : (Tok.opn l s :: (b.run src ts).toks ++ [Tok.cls (d v)] ++ ((k v).run (b.run src ts).src (b.run src ts).ts).toks) ++ rest =
            Tok.opn l s :: ((b.run src ts).toks ++ (Tok.cls (d v) :: (((k v).run (b.run src ts).src (b.run src ts).ts).toks ++ rest))) := by simp
        simp only [after_toks, after_kept]
        rw [hshape, h1]
        by_cases hd : d v = true
        · simp only [pruneGoT, hd, if_true, List.take_left', prefix_take (hpre g1 h2), List.nil_append]
          rw [rec_eta]
          exact ihk v (b.run src ts).src (b.run src ts).ts rest r st hne
        · simp only [pruneGoT, hd, Bool.false_eq_true, if_false]
          have hused : (b.run src ts).used ≠ [] := by
            intro hu
            apply hnotassert
            simp only [Bool.not_eq_true] at hd
            simp [hd, hu]
          have hkept : (b.run src ts).kept ≠ [] := hkeep src ts v hres (by simpa using hd) hused
          have hne2 : NE (g1.modify r.groups.length fun g => { g with end_ := ((r.data ++ (b.run src ts).kept).length : Int) }) := by
            intro g hg
            rcases mem_modify hg with hg | ⟨y, hy, rfl⟩
            · exact h3 g hg
            · -- the group just closed: it began at `r.data.length`
              obtain ⟨t, ht⟩ := h2
              rw [← ht, List.append_assoc, List.getElem?_append_right (Nat.le_refl _)] at hy
              simp only [Nat.sub_self, List.cons_append, List.getElem?_cons_zero, Option.some.injEq] at hy
              subst hy
              simp only [List.length_append]
              have : 0 < (b.run src ts).kept.length := List.length_pos_iff.mpr hkept
              omega
          obtain ⟨g2, h4, h5, h6⟩ := ihk v (b.run src ts).src (b.run src ts).ts rest
            ⟨r.data ++ (b.run src ts).kept, g1.modify r.groups.length fun g => { g with end_ := ((r.data ++ (b.run src ts).kept).length : Int) }⟩ st hne2
          refine ⟨g2, ?_, List.IsPrefix.trans (prefix_modify _ _ (hpre g1 h2) (Nat.le_refl _)) h5, h6⟩
          rw [h4]; simp [List.append_assoc]
  | catchInv b k _ _ ihb ihk =>
    intro src ts rest r st hne
    simp only [Prog.run]
    have hseq : ∀ (o2 : Out) (kk : ∀ (r' : Rec), NE r'.groups → ∃ g2, pruneGoT (o2.toks ++ rest) r' st = pruneGoT rest ⟨r'.data ++ o2.kept, g2⟩ st ∧ r'.groups <+: g2 ∧ NE g2),
        ∃ groups', pruneGoT (((o2.after (b.run src ts).used (b.run src ts).kept (b.run src ts).toks (b.run src ts).evs (b.run src ts).overran)).toks ++ rest) r st =
          pruneGoT rest ⟨r.data ++ (o2.after (b.run src ts).used (b.run src ts).kept (b.run src ts).toks (b.run src ts).evs (b.run src ts).overran).kept, groups'⟩ st ∧ r.groups <+: groups' ∧ NE groups' := by
      intro o2 kk
      obtain ⟨g1, h1, h2, h3⟩ := ihb src ts (o2.toks ++ rest) r st hne
      obtain ⟨g2, h4, h5, h6⟩ := kk ⟨r.data ++ (b.run src ts).kept, g1⟩ h3
      refine ⟨g2, ?_, List.IsPrefix.trans h2 h5, h6⟩
      simp only [after_toks, after_kept, List.append_assoc]
      rw [h1, h4]; simp [List.append_assoc]
    cases hres : (b.run src ts).res with
    | ok v =>
      simp only []
      apply hseq
      intro r' hr'
      exact ihk (some v) _ _ _ rest r' st hr'
    | error e =>
      cases e with
      | invalid m =>
        simp only []
        apply hseq
        intro r' hr'
        exact ihk none _ _ _ rest r' st hr'
      | stop m site => simpa using ihb src ts rest r st hne
      | panic m site => simpa using ihb src ts rest r st hne
      | fuel => simpa using ihb src ts rest r st hne
  | errorf m k _ ih => intro src ts rest r st hne; simpa [Prog.run] using ih src _ rest r st hne
  | failOnError site k _ ih =>
    intro src ts rest r st hne
    simp only [Prog.run]
    cases ts.failed with
    | some m => exact ⟨r.groups, by simp [Out.ofRes, rec_eta], List.prefix_refl _, hne⟩
    | none => exact ih src ts rest r st hne
  | tick k _ ih => intro src ts rest r st hne; simpa [Prog.run] using ih src _ rest r st hne
  | cleanup c k _ ih => intro src ts rest r st hne; simpa [Prog.run] using ih src _ rest r st hne
  | ctx k _ ih =>
    intro src ts rest r st hne
    simp only [Prog.run]
    cases ts.ctx with
    | some id => simpa using ih src ts rest r st hne
    | none => simpa using ih src _ rest r st hne
  | inner b k _ _ ihb ihk =>
    intro src ts rest r st hne
    simp only [Prog.run]
    split
    · simpa using ihb src TS.fresh rest r st hne
    · split
      · simpa using ihb src TS.fresh rest r st hne
      · rename_i v hres
        obtain ⟨g1, h1, h2, h3⟩ := ihb src TS.fresh (((k v).run (b.run src TS.fresh).src _).toks ++ rest) r st hne
        obtain ⟨g2, h4, h5, h6⟩ := ihk v (b.run src TS.fresh).src _ rest ⟨r.data ++ (b.run src TS.fresh).kept, g1⟩ st h3
        refine ⟨g2, ?_, List.IsPrefix.trans h2 h5, h6⟩
        simp only [after_toks, after_kept, List.append_assoc]
        rw [h1, h4]; simp [List.append_assoc]
  | emit id k _ ih => intro src ts rest r st hne; simpa [Prog.run] using ih src ts rest r st hne

/-- the assertion of `prune()` holds for the recording of every run of a `GK` program -/
theorem pruned_noEmpty {p : Prog} (hp : GK p) (src : Src) (ts : TS) : (prunedOfToks (p.run src ts).toks).noEmptyGroup = true := by
  obtain ⟨g, h1, _, h3⟩ := pruneGoT_run_ne hp src ts [] .empty [] (fun g hg => by simp [Rec.empty] at hg)
  simp only [List.append_nil] at h1
  unfold prunedOfToks
  rw [h1]
  simpa [pruneGoT, noEmptyGroup_iff] using h3

theorem pruneOK_of_gk {p : Prog} (hp : GK p) : PruneOK p := by
  intro buf
  simp only [checkOnce]
  exact pruned_noEmpty hp _ _

/-! ### every generator program keeps a word in every kept group -/

theorem gk_group_fk {b : Prog} (l : String) (s : Bool) (d : Val → Bool) {k : Val → Prog} (hb : GK b) (hfk : FirstKept b)
    (hk : ∀ v, GK (k v)) : GK (.group l s b d k) :=
  GK.group _ _ _ _ _ hb hk (fun src ts v hv _ _ => hfk src ts v hv)

theorem gk_drawret (n : Nat) (f : UInt64 → Val) : GK (.draw n fun u => .ret (f u)) := GK.draw _ _ (fun _ => GK.ret _)

theorem gk_coin (thr : UInt64) (k : Bool → Prog) (hk : ∀ b, GK (k b)) : GK (coin thr k) :=
  gk_group_fk _ _ _ (gk_drawret _ _) (fk_draw _ _) (fun _ => hk _)

theorem gk_uintUnbiased (max : UInt64) (k : UInt64 → Prog) (hk : ∀ u, GK (k u)) : ∀ n, GK (uintUnbiased max k n)
  | 0 => GK.throw _
  | n+1 => by
    unfold uintUnbiased
    refine gk_group_fk _ _ _ (gk_drawret _ _) (fk_draw _ _) (fun v => ?_)
    split
    · exact hk _
    · exact gk_uintUnbiased max k hk n

theorem gk_uintBiasedLoop (max : UInt64) (g bl : Nat) (k : UInt64 → Bool → Bool → Prog) (hk : ∀ u l r, GK (k u l r)) :
    ∀ n, GK (uintBiasedLoop max g bl k n)
  | 0 => GK.throw _
  | n+1 => by
    unfold uintBiasedLoop
    refine gk_group_fk _ _ _ (gk_drawret _ _) (fk_draw _ _) (fun v => ?_)
    dsimp only
    split
    · split
      · exact hk _ _ _
      · exact gk_uintBiasedLoop max g bl k hk n
    · split
      · exact hk _ _ _
      · exact gk_uintBiasedLoop max g bl k hk n

theorem gk_uintN (ft : FT) (max : UInt64) (bias : Bool) (fuel : Nat) (k : UInt64 → Bool → Bool → Prog)
    (hk : ∀ u l r, GK (k u l r)) : GK (uintN ft max bias fuel k) := by
  unfold uintN
  split
  · unfold uintBiased
    exact gk_group_fk _ _ _ (gk_drawret _ _) (fk_draw _ _) (fun v => gk_uintBiasedLoop _ _ _ _ hk _)
  · exact gk_uintUnbiased _ _ (fun u => hk u false false) _

theorem gk_uintRange (ft : FT) (min max : UInt64) (bias : Bool) (fuel : Nat) (k : UInt64 → Bool → Bool → Prog)
    (hk : ∀ u l r, GK (k u l r)) : GK (uintRange ft min max bias fuel k) := by
  unfold uintRange
  split
  · exact GK.throw _
  · exact gk_uintN _ _ _ _ _ (fun u l r => hk _ _ _)

theorem gk_index (ft : FT) (n : Nat) (bias : Bool) (fuel : Nat) (k : Nat → Prog) (hk : ∀ i, GK (k i)) :
    GK (index ft n bias fuel k) := by
  unfold index
  split
  · exact GK.throw _
  · exact gk_uintN _ _ _ _ _ (fun u _ _ => hk _)

theorem gk_intRange (ft : FT) (min max : Int64) (fuel : Nat) (k : Int64 → Bool → Bool → Prog)
    (hk : ∀ i l r, GK (k i l r)) : GK (intRange ft min max fuel k) := by
  unfold intRange
  split
  · exact GK.throw _
  · refine gk_coin _ _ (fun neg => ?_)
    cases neg
    · simp only [Bool.false_eq_true, if_false]
      exact gk_uintRange _ _ _ _ _ _ (fun u l r => hk _ _ _)
    · simp only [if_true]
      exact gk_uintRange _ _ _ _ _ _ (fun u l r => hk _ _ _)

theorem gk_findLoop' (body : Prog) (ok : Val → Bool) (k : Val → Prog) (hb : GK body)
    (hkeep : ∀ (src : Src) (ts : TS) (v : Val), (body.run src ts).res = .ok v → ok v = true →
      (body.run src ts).used ≠ [] → (body.run src ts).kept ≠ [])
    (hk : ∀ v, GK (k v)) : ∀ n, GK (findLoop body ok k n)
  | 0 => GK.throw _
  | n+1 => by
    unfold findLoop
    refine GK.group _ _ _ _ _ hb (fun v => ?_) (fun src ts v hv hd hu => hkeep src ts v hv (by simpa using hd) hu)
    split
    · exact hk v
    · exact gk_findLoop' body ok k hb hkeep hk n

theorem gk_findLoop (body : Prog) (ok : Val → Bool) (k : Val → Prog) (hb : GK body) (hfk : FirstKept body)
    (hk : ∀ v, GK (k v)) : ∀ n, GK (findLoop body ok k n) :=
  gk_findLoop' body ok k hb (fun src ts v hv _ _ => hfk src ts v hv) hk

theorem gk_moreCoin (c : RCfg) (s : RSt) (k : Bool → Prog) (hk : ∀ b, GK (k b)) : GK (moreCoin c s k) := by
  unfold moreCoin
  split
  · exact gk_coin _ _ hk
  · split
    · exact gk_group_fk _ _ _ (gk_drawret _ _) (fk_draw _ _) (fun _ => hk _)
    · split
      · exact gk_coin _ _ hk
      · exact gk_coin _ _ hk

theorem gk_repeatLoop (c : RCfg) (step : Val → Prog) (k : Val → Prog) (hs : ∀ acc, GK (step acc)) (hshape : StepShape step)
    (hk : ∀ acc, GK (k acc)) : ∀ (fuel : Nat) (s : RSt) (acc : Val), GK (repeatLoop c step k fuel s acc)
  | 0, _, _ => GK.throw _
  | fuel+1, s, acc => by
    rw [repeatLoop_succ]
    refine GK.group _ _ _ _ _ ?_ (fun r => ?_) (fun src ts v hv _ _ => (iter_ok c step hshape s acc src ts v hv).kept)
    · unfold iterBody
      refine gk_moreCoin _ _ _ (fun cont => ?_)
      cases cont
      · exact GK.ret _
      · simp only [if_true]
        unfold stepG
        refine gk_bind (hs acc) (fun r => ?_)
        split
        · exact GK.throw _
        · exact GK.ret _
    · split
      · exact hk acc
      · exact gk_repeatLoop c step k hs hshape hk fuel _ _
      · exact gk_repeatLoop c step k hs hshape hk fuel _ _

theorem gk_wrapValue (l : String) {b : Prog} (hb : GK b) (hfk : FirstKept b) : GK (wrapValue l b) :=
  gk_group_fk _ _ _ hb hfk (fun v => GK.ret v)

theorem gk_bind_ret {p : Prog} (hp : GK p) (f : Val → Val) : GK (p >>- fun v => .ret (f v)) :=
  gk_bind hp (fun _ => GK.ret _)

/-- every Custom-free generator -/
theorem gk_uintNoReject (max : UInt64) (k : UInt64 → Prog) (hk : ∀ u, GK (k u)) : GK (uintNoReject max k) :=
  gk_group_fk _ _ _ (gk_drawret _ _) (fk_draw _ _) (fun _ => hk _)

theorem gk_ufloatSignif (ft : FT) (S : Nat) (p0 p1 : Int × UInt64 × UInt64) (e : Int) (l r : Bool) (fuel : Nat)
    (k : UInt64 × UInt64 → Prog) (hk : ∀ x, GK (k x)) : GK (ufloatSignif ft S p0 p1 e l r fuel k) :=
  gk_uintRange _ _ _ _ _ _ (fun _ _ _ => gk_uintNoReject _ _ (fun _ => gk_uintRange _ _ _ _ _ _ (fun _ _ _ => hk _)))

theorem gk_ufloatRange (ft : FT) (f : FFmt) (min max : UInt64) (fuel : Nat) (k : Int → UInt64 → UInt64 → Prog)
    (hk : ∀ e si sf, GK (k e si sf)) : GK (ufloatRange ft f min max fuel k) := by
  unfold ufloatRange
  split
  · exact GK.throw _
  · exact gk_group_fk _ _ _ (gk_intRange _ _ _ _ _ (fun _ _ _ => GK.ret _)) (fk_intRange _ _ _ _ _)
      (fun v => gk_group_fk _ _ _ (gk_ufloatSignif _ _ _ _ _ _ _ _ _ (fun _ => GK.ret _)) (fk_ufloatSignif _ _ _ _ _ _ _ _ _)
        (fun _ => hk _ _ _))

theorem gk_floatValue (ft : FT) (f : FFmt) (min max : UInt64) (fuel : Nat) (k : UInt64 → Prog) (hk : ∀ b, GK (k b)) :
    GK (floatValue ft f min max fuel k) := by
  unfold floatValue floatRange
  exact gk_coin _ _ (fun neg => by cases neg <;> exact gk_ufloatRange _ _ _ _ _ _ (fun _ _ _ => hk _))

theorem gen_gkB (e : Env) (hrt : RTPos e) (B : Prog → Prop)
    (hB : ∀ (body : Prog) (lab : Bool), B body → GenGood (Gen.body e lab (.custom body)))
    (hBk : ∀ (body : Prog) (lab : Bool), B body → GK (Gen.body e lab (.custom body))) :
    ∀ (g : Gen) (lab : Bool), g.CustomsIn B → GK (g.body e lab) := by
  intro g
  induction g with
  | bool => intro _ _; exact gk_drawret _ _
  | uint mn mx => intro _ _; exact gk_uintRange _ _ _ _ _ _ (fun _ _ _ => GK.ret _)
  | int mn mx => intro _ _; exact gk_intRange _ _ _ _ _ (fun _ _ _ => GK.ret _)
  | sampled n => intro _ _; exact gk_index _ _ _ _ _ (fun _ => GK.ret _)
  | float f mn mx => intro _ _; exact gk_floatValue _ _ _ _ _ _ (fun _ => GK.ret _)
  | oneOf n gs ih =>
    intro lab h
    exact gk_index _ _ _ _ _ (fun i => gk_wrapValue _ (ih i lab (h i)) (gen_goodB e hrt B hB (gs i) lab (h i)).fk)
  | filter g p ih =>
    intro lab h
    have hw := gk_wrapValue (g.lbl lab) (ih lab h) (gen_goodB e hrt B hB g lab h).fk
    have hfk : FirstKept (wrapValue (g.lbl lab) (g.body e lab) >>- fun v => .ret (if p v then Val.cons v .nil else .nil)) :=
      fk_bind_left _ _ (fk_group_keep _ _ _ _ (gen_goodB e hrt B hB g lab h).fk)
    exact gk_findLoop _ _ _ (gk_bind_ret hw _) hfk (fun r => by split <;> exact GK.ret _) 5
  | map g f ih =>
    intro lab h
    exact gk_bind_ret (gk_wrapValue _ (ih lab h) (gen_goodB e hrt B hB g lab h).fk) f
  | slice el mn mx ih =>
    intro lab h
    exact gk_repeatLoop _ _ _ (fun acc => gk_bind_ret (gk_wrapValue _ (ih true h) (gen_goodB e hrt B hB el true h).fk) _)
      (stepShape_bind_ret _ (fun acc v => rAcc (acc.snoc v)) (fun acc v => Or.inr ⟨_, rfl⟩)) (fun acc => GK.ret _) _ _ _
  | distinct el mn mx key ih =>
    intro lab h
    exact gk_repeatLoop _ _ _ (fun acc => gk_bind_ret (gk_wrapValue _ (ih true h) (gen_goodB e hrt B hB el true h).fk) _)
      (stepShape_bind_ret _ (fun acc v => if acc.hasKey key (key v) then rRej else rAcc (acc.snoc v)) (fun acc v => rAcc_or _ _))
      (fun acc => GK.ret _) _ _ _
  | mapOf kg vg mn mx ihk ihv =>
    intro lab h
    have hk := gk_wrapValue kg.label (ihk true h.1) (gen_goodB e hrt B hB kg true h.1).fk
    have hv := gk_wrapValue vg.label (ihv true h.2) (gen_goodB e hrt B hB vg true h.2).fk
    let keyOf : Val → Val := fun kv => match kv with | .cons k' _ => k' | x => x
    let step : Val → Prog := fun acc => (wrapValue kg.label (kg.body e true)) >>- fun k => (wrapValue vg.label (vg.body e true)) >>- fun v =>
      .ret (if acc.hasKey keyOf k then rRej else rAcc (acc.snoc (.cons k v)))
    have hshape : StepShape step := by
      intro acc src ts v hres
      simp only [step, run_bind, Out.andThen] at hres
      cases h1 : ((wrapValue kg.label (kg.body e true)).run src ts).res with
      | error er => simp [h1] at hres
      | ok k =>
        simp only [h1, after_res] at hres
        cases h2 : ((wrapValue vg.label (vg.body e true)).run ((wrapValue kg.label (kg.body e true)).run src ts).src ((wrapValue kg.label (kg.body e true)).run src ts).ts).res with
        | error er => simp [h2] at hres
        | ok w =>
          simp only [h2, after_res, Prog.run, Out.ofRes, Except.ok.injEq] at hres
          rw [← hres]; exact rAcc_or _ _
    exact gk_repeatLoop _ step _ (fun acc => gk_bind hk (fun k => gk_bind hv (fun v => GK.ret _))) hshape (fun acc => GK.ret _) _ _ _
  | mapOfValues vg mn mx key ih =>
    intro lab h
    exact gk_repeatLoop _ _ _ (fun acc => gk_bind_ret (gk_wrapValue _ (ih true h) (gen_goodB e hrt B hB vg true h).fk) _)
      (stepShape_bind_ret _ (fun acc v => if acc.hasKey (fun kv => match kv with | .cons k' _ => k' | x => x) (key v) then rRej else rAcc (acc.snoc (.cons (key v) v)))
        (fun acc v => rAcc_or _ _)) (fun acc => GK.ret _) _ _ _
  | ptr el allowNil ih =>
    intro lab h
    refine gk_coin _ _ (fun b => ?_)
    cases b
    · exact GK.ret _
    · exact gk_bind_ret (gk_wrapValue _ (ih lab h) (gen_goodB e hrt B hB el lab h).fk) _
  | perm n =>
    intro _ _
    let step : Val → Prog := fun acc =>
      match acc with
      | .cons (.int i) sl =>
        uintRange e.ft (UInt64.ofNat i.toNat) (UInt64.ofNat (n - 1)) false e.fuel fun j _ _ =>
          .ret (rAcc (.cons (.int (i + 1)) (Val.ofList (swapAt sl.toList i.toNat j.toNat))))
      | _ => .ret (rAcc acc)
    have hgk : ∀ acc, GK (step acc) := by
      intro acc; simp only [step]; split
      · exact gk_uintRange _ _ _ _ _ _ (fun _ _ _ => GK.ret _)
      · exact GK.ret _
    have hacc : ∀ acc src ts v, ((step acc).run src ts).res = .ok v → ∃ a, v = rAcc a := by
      intro acc src ts v hres
      simp only [step] at hres
      split at hres
      · rename_i i sl
        rcases yields_uintRange_any e.ft (UInt64.ofNat i.toNat) (UInt64.ofNat (n - 1)) false e.fuel
          (fun x => .ret (rAcc (.cons (.int (i + 1)) (Val.ofList (swapAt sl.toList i.toNat x.1.toNat))))) src ts with ⟨a, s2, u2, k2, t2, o2, heq⟩ | ⟨er, he⟩
        · rw [heq] at hres
          simp only [after_res, Prog.run, Out.ofRes, Except.ok.injEq] at hres
          exact ⟨_, hres.symm⟩
        · rw [he] at hres; cases hres
      · simp only [Prog.run, Out.ofRes, Except.ok.injEq] at hres; exact ⟨_, hres.symm⟩
    exact gk_repeatLoop _ step _ hgk (fun acc src ts v hres => Or.inr (hacc acc src ts v hres))
      (fun acc => by split <;> exact GK.ret _) _ _ _
  | custom body => intro lab h; exact hBk body lab h
  | deferred g ih => intro _ h; exact gk_wrapValue _ (ih _ h) (gen_goodB e hrt B hB g _ h).fk
  | asAny g ih => intro lab h; exact gk_wrapValue _ (ih lab h) (gen_goodB e hrt B hB g lab h).fk
  | runeFrom runes =>
    intro _ _
    simp only [Gen.body, dieRoll]
    refine gk_group_fk _ _ _ (gk_index _ _ _ _ _ (fun _ => GK.ret _)) (fk_index _ _ _ _ _) (fun v => ?_)
    split <;> exact gk_index _ _ _ _ _ (fun _ => GK.ret _)
  | stringOf el mnr mxr ml ih =>
    intro lab h
    exact gk_repeatLoop _ _ _ (fun acc => gk_bind_ret (gk_wrapValue _ (ih true h) (gen_goodB e hrt B hB el true h).fk) _)
      (stepShape_bind_ret _ (fun acc v => match v with
        | .int r => match runeLen r with
          | some n => if acc.byteLen + n > normMax ml then rRej else rAcc (acc.snoc v)
          | none => rRej
        | _ => rRej)
        (fun acc v => by
          split
          · split
            · split
              · exact Or.inl rfl
              · exact Or.inr ⟨_, rfl⟩
            · exact Or.inl rfl
          · exact Or.inl rfl)) (fun acc => GK.ret _) _ _ _

theorem gen_gk (e : Env) (hrt : RTPos e) : ∀ (g : Gen) (lab : Bool), g.NoCustom → GK (g.body e lab) :=
  gen_gkB e hrt (fun _ => False) (fun _ _ h => h.elim) (fun _ _ h => h.elim)

/-- property functions built from Custom-free generators and the `*T` API -/
theorem propProg_gk (e : Env) (hrt : RTPos e) {p : Prog} (h : PropProg e p) : GK p := by
  induction h with
  | ret v => exact GK.ret v
  | throw er => exact GK.throw er
  | draw g k hg _ ih =>
    exact gk_bind (gk_wrapValue _ (gen_gk e hrt g _ hg) (gen_good e hrt g _ hg).fk) (fun v => GK.tick _ (ih v))
  | errorf m k _ ih => exact GK.errorf _ _ ih
  | emit id k _ ih => exact GK.emit _ _ ih
  | cleanup c k _ ih => exact GK.cleanup _ _ ih
  | ctx k _ ih => exact GK.ctx _ ih
  | failOnError site k _ ih => exact GK.failOnError _ _ ih

/-- **`PruneOK` for every such property**: the refinement of the shrinker's passes needs no
    hypothesis about `prune()` any more -/
theorem pruneOK_of_propProg (e : Env) (hrt : RTPos e) {p : Prog} (h : PropProg e p) : PruneOK p :=
  pruneOK_of_gk (propProg_gk e hrt h)

end Rapid
