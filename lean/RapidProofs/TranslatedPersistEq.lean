/-
  RapidProofs.TranslatedPersistEq — persist.go, the content of a fail file: the part of `saveFailFile` that writes and the part
  of `loadFailFile` that parses, as translated from /repo on every run (RapidModel/Generated/Translated.lean, bytes mode: strings
  are byte lists, the library calls are the model's ports), are the model's `saveBytes` and `loadBytes` (RapidModel/Persist.lean).
-/
import RapidModel.Generated.Translated
import RapidModel.Persist
import RapidProofs.TranslatedDataEq
import RapidProofs.TranslatedProgEq
import RapidProofs.TranslatedMinEq

namespace Rapid
open Rapid.Go

theorem fmtHex_eq (u : UInt64) : ([48, 120] : List UInt8) ++ hexDigits u = fmtHex u := rfl

theorem idx_getElem {α : Type} (l : List α) {j : Nat} (hj : j < l.length) (h62 : j < 2 ^ 62) :
    Go.idx l (Int64.ofNat j) = .ok l[j] := by
  rw [idx_ofNat _ h62, List.getElem?_eq_getElem hj]

/-- the comment lines of `saveFailFile`: one `WriteString("# " + s + "\n")` per line of the output -/
theorem tr_saveLoop1 (out : List Bytes) (hl : out.length < 2 ^ 62) : ∀ (d j : Nat) (w : Bytes) (fuel : Nat),
    out.length - j = d → j ≤ out.length → d < fuel →
    Translated.saveFailFile_bytes_loop1 false (Int64.ofNat out.length) out fuel w (Int64.ofNat j) =
      .ok ((w ++ ((out.drop j).map fun s => [hash, sp] ++ s ++ [nl]).flatten, Int64.ofNat out.length), none) := by
  intro d
  induction d with
  | zero =>
    intro j w fuel hd hj hf
    obtain ⟨f, rfl⟩ : ∃ f, fuel = f + 1 := ⟨fuel - 1, by omega⟩
    have : j = out.length := by omega
    subst this
    have hlt : decide (Int64.ofNat out.length < Int64.ofNat out.length) = false := by
      rw [i64_lt_ofNat hl _ hl]; simp
    simp [Translated.saveFailFile_bytes_loop1, hlt, pure, Except.pure]
  | succ d ih =>
    intro j w fuel hd hj hf
    obtain ⟨f, rfl⟩ : ∃ f, fuel = f + 1 := ⟨fuel - 1, by omega⟩
    have hjl : j < out.length := by omega
    have hlt : decide (Int64.ofNat j < Int64.ofNat out.length) = true := by
      rw [i64_lt_ofNat (by omega) _ hl]; simp [hjl]
    rw [Translated.saveFailFile_bytes_loop1]
    simp only [hlt, if_true, idx_getElem out hjl (by omega), bind, Except.bind, Bool.false_eq_true, if_false, i64_ofNat_add_one]
    rw [ih (j + 1) _ f (by omega) (by omega) (by omega)]
    have hdrop : out.drop j = out[j] :: out.drop (j + 1) := (List.drop_eq_getElem_cons hjl)
    rw [hdrop]
    simp only [List.map_cons, List.flatten_cons, List.append_assoc, hash, sp, nl]

/-- the data lines: `bs = append(bs, "0x%x")` per word -/
theorem tr_saveLoop2 (buf : List UInt64) (hl : buf.length < 2 ^ 62) : ∀ (d j : Nat) (bs : List Bytes) (fuel : Nat),
    buf.length - j = d → j ≤ buf.length → d < fuel →
    Translated.saveFailFile_bytes_loop2 buf (Int64.ofNat buf.length) fuel bs (Int64.ofNat j) =
      .ok (bs ++ (buf.drop j).map fmtHex, Int64.ofNat buf.length) := by
  intro d
  induction d with
  | zero =>
    intro j bs fuel hd hj hf
    obtain ⟨f, rfl⟩ : ∃ f, fuel = f + 1 := ⟨fuel - 1, by omega⟩
    have : j = buf.length := by omega
    subst this
    have hlt : decide (Int64.ofNat buf.length < Int64.ofNat buf.length) = false := by
      rw [i64_lt_ofNat hl _ hl]; simp
    simp [Translated.saveFailFile_bytes_loop2, hlt, pure, Except.pure]
  | succ d ih =>
    intro j bs fuel hd hj hf
    obtain ⟨f, rfl⟩ : ∃ f, fuel = f + 1 := ⟨fuel - 1, by omega⟩
    have hjl : j < buf.length := by omega
    have hlt : decide (Int64.ofNat j < Int64.ofNat buf.length) = true := by
      rw [i64_lt_ofNat (by omega) _ hl]; simp [hjl]
    rw [Translated.saveFailFile_bytes_loop2]
    simp only [hlt, if_true, idx_getElem buf hjl (by omega), bind, Except.bind, i64_ofNat_add_one, fmtHex_eq]
    rw [ih (j + 1) _ f (by omega) (by omega) (by omega)]
    have hdrop : buf.drop j = buf[j] :: buf.drop (j + 1) := (List.drop_eq_getElem_cons hjl)
    rw [hdrop]
    simp only [List.map_cons, List.append_assoc, List.cons_append, List.nil_append]

theorem splitOn_length_le (c : UInt8) : ∀ bs : Bytes, (splitOn c bs).length ≤ bs.length + 1 := by
  intro bs
  induction bs with
  | nil => simp [splitOn]
  | cons b bs ih =>
    simp only [splitOn]
    by_cases h : (b == c) = true
    · simp only [h, if_true, List.length_cons]; omega
    · simp only [h, Bool.false_eq_true, if_false]
      cases hs : splitOn c bs with
      | nil => simp
      | cons l ls => rw [hs] at ih; simp only [List.length_cons] at ih ⊢; omega

/-- **what `saveFailFile` of /repo writes is the model's `saveBytes`** (and it reports no error of its own) -/
theorem tr_saveFailFile (version output : Bytes) (seed : UInt64) (buf : List UInt64) (fuel : Nat)
    (ho : output.length < 2 ^ 61) (hb : buf.length < 2 ^ 62) (hf1 : output.length + 1 < fuel) (hf2 : buf.length < fuel) :
    Translated.saveFailFile_bytes version output seed buf fuel = .ok (saveBytes version output seed buf, false) := by
  have hsl := splitOn_length_le 10 output
  have h1 := tr_saveLoop1 (splitOn 10 output) (by omega) (splitOn 10 output).length 0 [] fuel (by omega) (by omega) (by omega)
  have h2 := tr_saveLoop2 buf hb buf.length 0 [version ++ [35] ++ fmtDec seed] fuel (by omega) (by omega) (by omega)
  have z : (0 : Int64) = Int64.ofNat 0 := rfl
  simp only [Translated.saveFailFile_bytes, Go.glen, z, h1, h2, bind, Except.bind, List.drop_zero, List.nil_append,
    Bool.false_eq_true, if_false, pure, Except.pure]
  rfl

/-! ### loading -/

theorem hasPrefix_hash (s : Bytes) : Go.hasPrefix s [35] = (s.head? == some hash) := by
  cases s with
  | nil => rfl
  | cons b bs =>
    simp only [Go.hasPrefix, List.isPrefixOf, hash, List.head?_cons, Bool.and_true]
    by_cases h : b = 35
    · subst h; decide
    · have h' : (35 : UInt8) ≠ b := fun e => h e.symm
      have h2 : (some b : Option UInt8) ≠ some 35 := fun e => h (Option.some.inj e)
      rw [beq_false_of_ne h', beq_false_of_ne h2]

/-- the first loop of `loadFailFile`: trimmed lines that are neither comments nor empty -/
theorem tr_loadLoop1 (lines : List Bytes) (hl : lines.length < 2 ^ 62) : ∀ (d j : Nat) (data : List Bytes) (fuel : Nat),
    lines.length - j = d → j ≤ lines.length → d < fuel →
    Translated.loadFailFile_bytes_loop1 lines (Int64.ofNat lines.length) fuel data (Int64.ofNat j) =
      .ok (data ++ ((lines.drop j).map trimSpace).filter (fun s => !(s.head? == some hash || s.isEmpty)), Int64.ofNat lines.length) := by
  intro d
  induction d with
  | zero =>
    intro j data fuel hd hj hf
    obtain ⟨f, rfl⟩ : ∃ f, fuel = f + 1 := ⟨fuel - 1, by omega⟩
    have : j = lines.length := by omega
    subst this
    have hlt : decide (Int64.ofNat lines.length < Int64.ofNat lines.length) = false := by
      rw [i64_lt_ofNat hl _ hl]; simp
    simp [Translated.loadFailFile_bytes_loop1, hlt, pure, Except.pure]
  | succ d ih =>
    intro j data fuel hd hj hf
    obtain ⟨f, rfl⟩ : ∃ f, fuel = f + 1 := ⟨fuel - 1, by omega⟩
    have hjl : j < lines.length := by omega
    have hlt : decide (Int64.ofNat j < Int64.ofNat lines.length) = true := by
      rw [i64_lt_ofNat (by omega) _ hl]; simp [hjl]
    have hdrop : lines.drop j = lines[j] :: lines.drop (j + 1) := (List.drop_eq_getElem_cons hjl)
    rw [Translated.loadFailFile_bytes_loop1]
    simp only [hlt, if_true, idx_getElem lines hjl (by omega), bind, Except.bind, i64_ofNat_add_one, hasPrefix_hash]
    have hemp : (trimSpace lines[j] == ([] : List UInt8)) = (trimSpace lines[j]).isEmpty := by
      cases trimSpace lines[j] <;> rfl
    rw [hemp, hdrop]
    by_cases hskip : ((trimSpace lines[j]).head? == some hash || (trimSpace lines[j]).isEmpty) = true
    · simp only [hskip, if_true, List.map_cons, List.filter_cons, Bool.not_true, Bool.false_eq_true, if_false]
      exact ih (j + 1) data f (by omega) (by omega) (by omega)
    · simp only [Bool.not_eq_true] at hskip
      simp only [hskip, Bool.false_eq_true, if_false, List.map_cons, List.filter_cons, Bool.not_false, if_true]
      rw [ih (j + 1) _ f (by omega) (by omega) (by omega)]
      simp only [List.append_assoc, List.cons_append, List.nil_append]

/-- the second loop of `loadFailFile`: the words -/
theorem tr_loadLoop2 (rng : List Bytes) (hl : rng.length < 2 ^ 62) : ∀ (d j : Nat) (e0 : Bool) (buf : List UInt64) (fuel : Nat),
    rng.length - j = d → j ≤ rng.length → d < fuel →
    ∃ st, Translated.loadFailFile_bytes_loop2 e0 (Int64.ofNat rng.length) rng fuel buf (Int64.ofNat j) =
        .ok (st, match loadBytes.words (rng.drop j) with
          | .ok _ => none
          | .error _ => some (([] : List UInt8), (0 : UInt64), ([] : List UInt64), true)) ∧
      ∀ us, loadBytes.words (rng.drop j) = .ok us → st.1 = buf ++ us := by
  intro d
  induction d with
  | zero =>
    intro j e0 buf fuel hd hj hf
    obtain ⟨f, rfl⟩ : ∃ f, fuel = f + 1 := ⟨fuel - 1, by omega⟩
    have : j = rng.length := by omega
    subst this
    have hlt : decide (Int64.ofNat rng.length < Int64.ofNat rng.length) = false := by
      rw [i64_lt_ofNat hl _ hl]; simp
    refine ⟨(buf, Int64.ofNat rng.length), ?_, ?_⟩
    · simp [Translated.loadFailFile_bytes_loop2, hlt, pure, Except.pure, loadBytes.words]
    · intro us h; simp [loadBytes.words] at h; subst h; simp
  | succ d ih =>
    intro j e0 buf fuel hd hj hf
    obtain ⟨f, rfl⟩ : ∃ f, fuel = f + 1 := ⟨fuel - 1, by omega⟩
    have hjl : j < rng.length := by omega
    have hlt : decide (Int64.ofNat j < Int64.ofNat rng.length) = true := by
      rw [i64_lt_ofNat (by omega) _ hl]; simp [hjl]
    have hdrop : rng.drop j = rng[j] :: rng.drop (j + 1) := (List.drop_eq_getElem_cons hjl)
    rw [Translated.loadFailFile_bytes_loop2, hdrop]
    simp only [hlt, if_true, idx_getElem rng hjl (by omega), bind, Except.bind, i64_ofNat_add_one, loadBytes.words]
    cases hp : parseUint rng[j] 0 with
    | error e =>
      simp only [Go.parsedError, if_true, pure, Except.pure]
      exact ⟨_, rfl, by intro us h; cases h⟩
    | ok u =>
      simp only [Go.parsedError, Go.parsedValue, Bool.false_eq_true, if_false]
      obtain ⟨st, h1, h2⟩ := ih (j + 1) false (buf ++ [u]) f (by omega) (by omega) (by omega)
      refine ⟨st, ?_, ?_⟩
      · rw [h1]
        cases loadBytes.words (rng.drop (j + 1)) <;> rfl
      · intro us hus
        cases hw : loadBytes.words (rng.drop (j + 1)) with
        | error e => rw [hw] at hus; cases hus
        | ok us' =>
          rw [hw] at hus
          simp only [Except.ok.injEq] at hus
          subst hus
          rw [h2 us' hw]; simp

/-- what the source's `loadFailFile` returns for the model's result -/
def loadT (r : Except LoadErr (Bytes × UInt64 × List UInt64)) : List UInt8 × UInt64 × List UInt64 × Bool :=
  match r with
  | .ok (v, sd, buf) => (v, sd, buf, false)
  | .error _ => ([], 0, [], true)

/-- **`loadFailFile` of /repo, from the lines of the file on, is the model's `loadBytes`** -/
theorem tr_loadFailFile (bs : Bytes) (fuel : Nat) (hl : (scanLines bs).length < 2 ^ 61) (hf : (scanLines bs).length + 1 < fuel)
    (hlines : ∀ l ∈ scanLines bs, (trimSpace l).length < 2 ^ 61) :
    Translated.loadFailFile_bytes (scanLines bs) fuel = .ok (loadT (loadBytes bs)) := by
  have h1 := tr_loadLoop1 (scanLines bs) (by omega) (scanLines bs).length 0 [] fuel (by omega) (by omega) (by omega)
  have z : (0 : Int64) = Int64.ofNat 0 := rfl
  simp only [Translated.loadFailFile_bytes, Go.glen, z, h1, bind, Except.bind, List.drop_zero, List.nil_append, loadBytes]
  generalize hdata : ((scanLines bs).map trimSpace).filter (fun s => !(s.head? == some hash || s.isEmpty)) = data
  have hdl : data.length ≤ (scanLines bs).length := by
    rw [← hdata]; exact Nat.le_trans (List.length_filter_le _ _) (by simp)
  cases data with
  | nil => simp [loadT, pure, Except.pure]
  | cons hd rest =>
    have hne : (Int64.ofNat (hd :: rest).length == Int64.ofNat 0) = false := by
      have : Int64.ofNat (hd :: rest).length ≠ Int64.ofNat 0 := by
        intro e
        have := congrArg Int64.toInt e
        rw [i64_ofNat_toInt (by simp at hdl ⊢; omega), i64_ofNat_toInt (by omega)] at this
        simp at this
        omega
      exact beq_false_of_ne this
    have hi0 : Go.idx (hd :: rest) (Int64.ofNat 0) = .ok hd := by rw [idx_ofNat _ (by omega)]; rfl
    simp only [hne, Bool.false_eq_true, if_false, hi0]
    have two : (2 : Int64) = Int64.ofNat 2 := rfl
    have one : (1 : Int64) = Int64.ofNat 1 := rfl
    have hsl := splitOn_length_le 35 hd
    have hhd : hd.length < 2 ^ 61 := by
      have hm : hd ∈ ((scanLines bs).map trimSpace).filter (fun s => !(s.head? == some hash || s.isEmpty)) := by rw [hdata]; simp
      obtain ⟨l, hl1, rfl⟩ := List.mem_map.mp (List.mem_filter.mp hm).1
      exact hlines l hl1
    by_cases h2 : (splitOn 35 hd).length = 2
    · obtain ⟨v, sd, hvs⟩ : ∃ v sd, splitOn hash hd = [v, sd] := by
        have : (splitOn hash hd).length = 2 := h2
        match hsp : splitOn hash hd, this with
        | [a, b], _ => exact ⟨a, b, rfl⟩
      have hvs' : splitOn 35 hd = [v, sd] := hvs
      have hne2 : (Int64.ofNat (splitOn 35 hd).length != Int64.ofNat 2) = false := by rw [h2]; rfl
      simp only [two, hne2, Bool.false_eq_true, if_false, hvs, hvs', one]
      have hi1 : Go.idx [v, sd] (Int64.ofNat 1) = .ok sd := by rw [idx_ofNat _ (by omega)]; rfl
      have hi0' : Go.idx [v, sd] (Int64.ofNat 0) = .ok v := by rw [idx_ofNat _ (by omega)]; rfl
      simp only [hi1]
      cases hps : parseUint sd 10 with
      | error e => simp [Go.parsedError, loadT, pure, Except.pure]
      | ok seed =>
        simp only [Go.parsedError, Go.parsedValue, Bool.false_eq_true, if_false]
        have hsf : Go.sliceFrom (hd :: rest) (Int64.ofNat 1) = .ok rest := by
          rw [sliceFrom_ofNat _ (by omega)]; simp
        simp only [hsf]
        obtain ⟨st, hl2, hus⟩ := tr_loadLoop2 rest (by simp at hdl; omega) rest.length 0 false [] fuel (by omega) (by omega)
          (by simp at hdl; omega)
        simp only [List.drop_zero] at hl2 hus
        rw [hl2]
        cases hw : loadBytes.words rest with
        | error e => simp [loadT, pure, Except.pure]
        | ok us =>
          have := hus us hw
          simp only [List.nil_append] at this
          simp only [hi0', this, loadT, pure, Except.pure]
          have : (Int64.ofNat [v, sd].length != Int64.ofNat 2) = false := rfl
          simp only [this, Bool.false_eq_true, if_false]
    · have hne2 : (Int64.ofNat (splitOn 35 hd).length != Int64.ofNat 2) = true := by
        have : Int64.ofNat (splitOn 35 hd).length ≠ Int64.ofNat 2 := by
          intro e
          have := congrArg Int64.toInt e
          rw [i64_ofNat_toInt (by omega), i64_ofNat_toInt (by omega)] at this
          exact h2 (by exact_mod_cast this)
        rw [bne, beq_false_of_ne this]; rfl
      simp only [two, hne2, if_true]
      have h2' : (splitOn hash hd).length ≠ 2 := h2
      have h35 : splitOn 35 hd = splitOn hash hd := rfl
      match hsp : splitOn hash hd with
      | [a, b] => rw [hsp] at h2'; simp at h2'
      | [] => simp [loadT, pure, Except.pure]
      | [a] => simp [loadT, pure, Except.pure]
      | a :: b :: c :: r => simp [loadT, pure, Except.pure]

end Rapid
