import RapidModel.Rec

namespace Rapid

/-- a recording as a forest: words, finished groups with their bodies, and the list entries of unfinished groups -/
inductive Forest where
  | nil
  | w (u : UInt64) (t : Forest)
  | grp (l : String) (s : Bool) (b : Forest) (d : Bool) (t : Forest)
  | opn (l : String) (s : Bool) (t : Forest)

namespace Forest

def app : Forest → Forest → Forest
  | nil, g => g
  | w u t, g => w u (t.app g)
  | grp l s b d t, g => grp l s b d (t.app g)
  | opn l s t, g => opn l s (t.app g)

def nodes : Forest → Nat
  | nil => 0
  | w _ t => t.nodes + 1
  | grp _ _ b _ t => b.nodes + t.nodes + 1
  | opn _ _ t => t.nodes + 1

/-- recorded words -/
def words : Forest → List UInt64
  | nil => []
  | w u t => u :: t.words
  | grp _ _ b _ t => b.words ++ t.words
  | opn _ _ t => t.words

def size (f : Forest) : Nat := f.words.length

/-- which words survive `prune` -/
def kmask : Forest → List Bool
  | nil => []
  | w _ t => true :: t.kmask
  | grp _ _ b d t => (if d then List.replicate b.size false else b.kmask) ++ t.kmask
  | opn _ _ t => t.kmask

/-- the words that survive -/
def pwords : Forest → List UInt64
  | nil => []
  | w u t => u :: t.pwords
  | grp _ _ b d t => (if d then [] else b.pwords) ++ t.pwords
  | opn _ _ t => t.pwords

def psize (f : Forest) : Nat := f.pwords.length

/-- the group list of the recording, laid out from data position `o` -/
def fin : Forest → Nat → List GI
  | nil, _ => []
  | w _ t, o => t.fin (o + 1)
  | grp l s b d t, o => ⟨l, s, o, ((o + b.size : Nat) : Int), d⟩ :: (b.fin o ++ t.fin (o + b.size))
  | opn l s t, o => ⟨l, s, o, -1, false⟩ :: t.fin o

/-- the group list of the token-based prune (`pruneGoT`): discarded groups dropped with everything inside -/
def tfin : Forest → Nat → List GI
  | nil, _ => []
  | w _ t, o => t.tfin (o + 1)
  | grp l s b d t, o =>
      if d then t.tfin o else ⟨l, s, o, ((o + b.psize : Nat) : Int), false⟩ :: (b.tfin o ++ t.tfin (o + b.psize))
  | opn l s t, o => ⟨l, s, o, -1, false⟩ :: t.tfin o

/-- what the list scan of `removeGroup` is doing after a removal: `atB` — still at the end of the removed data (empty
    groups and unfinished entries are dropped), `aw` — a word has passed (only unfinished entries are dropped) -/
inductive Mode where
  | off | atB | aw
deriving DecidableEq

def Mode.word : Mode → Mode
  | .off => .off
  | _ => .aw

/-- the mode after the forest -/
def sw : Forest → Mode → Mode
  | nil, m => m
  | w _ t, m => t.sw m.word
  | grp _ _ b d t, m =>
      if m = .atB ∧ b.size = 0 then t.sw .atB else if d then t.sw .atB else t.sw (b.sw .off)
  | opn _ _ t, m => t.sw m

/-- the group list of the literal `prune` (`Rec.prune`) -/
def lfin : Forest → Nat → Mode → List GI
  | nil, _, _ => []
  | w _ t, o, m => t.lfin (o + 1) m.word
  | grp l s b d t, o, m =>
      if m = .atB ∧ b.size = 0 then t.lfin o .atB
      else if d then t.lfin o .atB
      else ⟨l, s, o, ((o + b.psize : Nat) : Int), false⟩ :: (b.lfin o .off ++ t.lfin (o + b.psize) (b.sw .off))
  | opn l s t, o, m => if m = .off then ⟨l, s, o, -1, false⟩ :: t.lfin o .off else t.lfin o m

/-- drop from the front of the group list what the scan of `removeGroup` drops -/
def strip : Forest → Bool → Forest
  | nil, _ => nil
  | w u t, _ => w u (t.strip false)
  | grp l s b d t, a => if a = true ∧ b.size = 0 then t.strip true else grp l s b d t
  | opn _ _ t, a => t.strip a

/-- the positions (counted in words) between top-level items -/
def Bnd : Forest → Nat → Prop
  | nil, k => k = 0
  | w _ t, k => k = 0 ∨ (1 ≤ k ∧ t.Bnd (k - 1))
  | grp _ _ b _ t, k => k = 0 ∨ (b.size ≤ k ∧ t.Bnd (k - b.size))
  | opn _ _ t, k => t.Bnd k

/-- a finished group that is not discarded holds at least one word (the assertion of `endGroup`) -/
def WFne : Forest → Prop
  | nil => True
  | w _ t => t.WFne
  | grp _ _ b d t => b.WFne ∧ t.WFne ∧ (d = false → 0 < b.size)
  | opn _ _ t => t.WFne

/-! ### basic facts -/

@[simp] theorem words_app (a b : Forest) : (a.app b).words = a.words ++ b.words := by
  induction a with
  | nil => rfl
  | w u t ih => simp [app, words, ih]
  | grp l s b d t _ ih => simp [app, words, ih]
  | opn l s t ih => simp [app, words, ih]

@[simp] theorem size_app (a b : Forest) : (a.app b).size = a.size + b.size := by simp [size]

@[simp] theorem nodes_app (a b : Forest) : (a.app b).nodes = a.nodes + b.nodes := by
  induction a with
  | nil => simp [app, nodes]
  | w u t ih => simp [app, nodes, ih]; omega
  | grp l s b d t _ ih => simp [app, nodes, ih]; omega
  | opn l s t ih => simp [app, nodes, ih]; omega

@[simp] theorem kmask_app (a b : Forest) : (a.app b).kmask = a.kmask ++ b.kmask := by
  induction a with
  | nil => rfl
  | w u t ih => simp [app, kmask, ih]
  | grp l s b d t _ ih => simp [app, kmask, ih]
  | opn l s t ih => simp [app, kmask, ih]

@[simp] theorem pwords_app (a b : Forest) : (a.app b).pwords = a.pwords ++ b.pwords := by
  induction a with
  | nil => rfl
  | w u t ih => simp [app, pwords, ih]
  | grp l s b d t _ ih => simp [app, pwords, ih]
  | opn l s t ih => simp [app, pwords, ih]

@[simp] theorem psize_app (a b : Forest) : (a.app b).psize = a.psize + b.psize := by simp [psize]

@[simp] theorem size_nil : (nil : Forest).size = 0 := rfl
@[simp] theorem size_w (u : UInt64) (t : Forest) : (w u t).size = t.size + 1 := by simp [size, words]
@[simp] theorem size_grp (l : String) (s : Bool) (b : Forest) (d : Bool) (t : Forest) : (grp l s b d t).size = b.size + t.size := by
  simp [size, words]
@[simp] theorem size_opn (l : String) (s : Bool) (t : Forest) : (opn l s t).size = t.size := rfl
@[simp] theorem psize_nil : (nil : Forest).psize = 0 := rfl
@[simp] theorem psize_w (u : UInt64) (t : Forest) : (w u t).psize = t.psize + 1 := by simp [psize, pwords]
@[simp] theorem psize_grp (l : String) (s : Bool) (b : Forest) (d : Bool) (t : Forest) :
    (grp l s b d t).psize = (if d then 0 else b.psize) + t.psize := by
  cases d <;> simp [psize, pwords]
@[simp] theorem psize_opn (l : String) (s : Bool) (t : Forest) : (opn l s t).psize = t.psize := rfl

theorem fin_app (a b : Forest) : ∀ o, (a.app b).fin o = a.fin o ++ b.fin (o + a.size) := by
  induction a with
  | nil => intro o; simp [app, fin]
  | w u t ih => intro o; simp only [app, fin, ih, size_w]; rw [show o + 1 + t.size = o + (t.size + 1) by omega]
  | grp l s b' d t _ ih =>
    intro o
    simp only [app, fin, ih, size_grp, List.cons_append, List.append_assoc]
    rw [show o + b'.size + t.size = o + (b'.size + t.size) by omega]
  | opn l s t ih => intro o; simp only [app, fin, ih, size_opn, List.cons_append]

theorem tfin_app (a b : Forest) : ∀ o, (a.app b).tfin o = a.tfin o ++ b.tfin (o + a.psize) := by
  induction a with
  | nil => intro o; simp [app, tfin]
  | w u t ih => intro o; simp only [app, tfin, ih, psize_w]; rw [show o + 1 + t.psize = o + (t.psize + 1) by omega]
  | grp l s b' d t _ ih =>
    intro o
    cases d
    · simp only [app, tfin, ih, psize_grp, List.cons_append, List.append_assoc, Bool.false_eq_true, if_false]
      rw [show o + b'.psize + t.psize = o + (b'.psize + t.psize) by omega]
    · simp only [app, tfin, ih, psize_grp, if_true, Nat.zero_add]
  | opn l s t ih => intro o; simp only [app, tfin, ih, psize_opn, List.cons_append]

theorem sw_app (a b : Forest) : ∀ m, (a.app b).sw m = b.sw (a.sw m) := by
  induction a with
  | nil => intro m; rfl
  | w u t ih => intro m; simp [app, sw, ih]
  | grp l s b' d t _ ih =>
    intro m
    simp only [app, sw, ih]
    split
    · rfl
    · split <;> rfl
  | opn l s t ih => intro m; simp [app, sw, ih]

theorem psize_of_size_zero (b : Forest) (h : b.size = 0) : b.psize = 0 := by
  induction b with
  | nil => rfl
  | w u t _ => simp at h
  | grp l s b' d t ihb iht =>
    simp only [size_grp] at h
    simp only [psize_grp]
    have hb := ihb (by omega)
    have ht := iht (by omega)
    cases d <;> simp [hb, ht]
  | opn l s t ih => simp only [size_opn] at h; simp [ih h]

theorem lfin_app (a b : Forest) : ∀ o m, (a.app b).lfin o m = a.lfin o m ++ b.lfin (o + a.psize) (a.sw m) := by
  induction a with
  | nil => intro o m; simp [app, lfin, sw]
  | w u t ih => intro o m; simp only [app, lfin, sw, ih, psize_w]; rw [show o + 1 + t.psize = o + (t.psize + 1) by omega]
  | grp l s b' d t _ ih =>
    intro o m
    simp only [app, lfin, sw, ih]
    by_cases h1 : m = .atB ∧ b'.size = 0
    · simp only [h1, and_self, if_true, psize_grp, psize_of_size_zero b' h1.2]
      cases d <;> simp
    · simp only [h1, if_false, psize_grp]
      cases d
      · simp only [Bool.false_eq_true, if_false, List.cons_append, List.append_assoc]
        rw [show o + b'.psize + t.psize = o + (b'.psize + t.psize) by omega]
      · simp
  | opn l s t ih =>
    intro o m
    simp only [app, lfin, sw, ih, psize_opn]
    by_cases h : m = .off <;> simp [h]


theorem words_of_size_zero (b : Forest) (h : b.size = 0) : b.words = [] := List.eq_nil_of_length_eq_zero h

theorem pwords_of_size_zero (b : Forest) (h : b.size = 0) : b.pwords = [] :=
  List.eq_nil_of_length_eq_zero (psize_of_size_zero b h)

theorem kmask_length (f : Forest) : f.kmask.length = f.size := by
  induction f with
  | nil => rfl
  | w u t ih => simp [kmask, ih]
  | grp l s b d t ihb iht => cases d <;> simp [kmask, ihb, iht]
  | opn l s t ih => simp [kmask, ih]

theorem kmask_of_size_zero (b : Forest) (h : b.size = 0) : b.kmask = [] :=
  List.eq_nil_of_length_eq_zero (by rw [kmask_length]; exact h)

/-! ### what the entries of `fin` look like -/

theorem fin_end_le (f : Forest) : ∀ p, ∀ e ∈ f.fin p, e.end_ ≤ ((p + f.size : Nat) : Int) := by
  induction f with
  | nil => intro p e he; cases he
  | w u t ih =>
    intro p e he
    have := ih (p + 1) e he
    simp only [size_w]; omega
  | grp l s b d t ihb iht =>
    intro p e he
    simp only [fin, List.mem_cons, List.mem_append] at he
    simp only [size_grp]
    rcases he with rfl | he | he
    · simp only; omega
    · have := ihb p e he; omega
    · have := iht (p + b.size) e he; omega
  | opn l s t ih =>
    intro p e he
    simp only [fin, List.mem_cons] at he
    simp only [size_opn]
    rcases he with rfl | he
    · simp only; omega
    · exact ih p e he

/-- moving a layout that lies behind the removed data -/
theorem fin_shift (g : GI) (b e : Nat) (hb : g.begin = b) (he : g.end_ = (e : Int)) (hbe : b ≤ e) (f : Forest) :
    ∀ p, (f.fin (e + p)).map (fun h : GI =>
        ({ h with begin := if (h.begin : Int) ≥ g.end_ then h.begin - (g.end_.toNat - g.begin) else h.begin,
                  end_ := if h.end_ ≥ g.end_ then h.end_ - ((g.end_.toNat - g.begin : Nat) : Int) else h.end_ } : GI)) = f.fin (b + p) := by
  induction f with
  | nil => intro p; rfl
  | w u t ih => intro p; simp only [fin]; rw [Nat.add_assoc, Nat.add_assoc]; exact ih (p + 1)
  | grp l s b' d t ihb iht =>
    intro p
    simp only [fin, List.map_cons, List.map_append]
    rw [ihb p, show e + p + b'.size = e + (p + b'.size) by omega, iht (p + b'.size), show b + p + b'.size = b + (p + b'.size) by omega]
    congr 1
    simp only [hb, he, Int.toNat_natCast]
    have c1 : ((e + p : Nat) : Int) ≥ (e : Int) := by omega
    have c2 : ((e + (p + b'.size) : Nat) : Int) ≥ (e : Int) := by omega
    simp only [c1, c2, if_true]
    congr 1
    · omega
    · omega
  | opn l s t ih =>
    intro p
    simp only [fin, List.map_cons]
    rw [ih p]
    congr 1
    simp only [hb, he, Int.toNat_natCast]
    have c1 : ((e + p : Nat) : Int) ≥ (e : Int) := by omega
    have c2 : ¬ ((-1 : Int) ≥ (e : Int)) := by omega
    simp only [c1, c2, if_true, if_false]
    congr 1
    omega

/-! ### `strip` -/

theorem words_strip (f : Forest) : ∀ a, (f.strip a).words = f.words := by
  induction f with
  | nil => intro a; rfl
  | w u t ih => intro a; simp [strip, words, ih]
  | grp l s b d t _ iht =>
    intro a
    simp only [strip]
    split
    · rename_i h; simp [words, iht, words_of_size_zero b h.2]
    · rfl
  | opn l s t ih => intro a; simp [strip, words, ih]

theorem size_strip (f : Forest) (a : Bool) : (f.strip a).size = f.size := by simp [size, words_strip]

theorem pwords_strip (f : Forest) : ∀ a, (f.strip a).pwords = f.pwords := by
  induction f with
  | nil => intro a; rfl
  | w u t ih => intro a; simp [strip, pwords, ih]
  | grp l s b d t _ iht =>
    intro a
    simp only [strip]
    split
    · rename_i h; cases d <;> simp [pwords, iht, pwords_of_size_zero b h.2]
    · rfl
  | opn l s t ih => intro a; simp [strip, pwords, ih]

theorem kmask_strip (f : Forest) : ∀ a, (f.strip a).kmask = f.kmask := by
  induction f with
  | nil => intro a; rfl
  | w u t ih => intro a; simp [strip, kmask, ih]
  | grp l s b d t _ iht =>
    intro a
    simp only [strip]
    split
    · rename_i h; cases d <;> simp [kmask, iht, kmask_of_size_zero b h.2, h.2]
    · rfl
  | opn l s t ih => intro a; simp [strip, kmask, ih]

theorem nodes_strip_le (f : Forest) : ∀ a, (f.strip a).nodes ≤ f.nodes := by
  induction f with
  | nil => intro a; exact Nat.le_refl _
  | w u t ih => intro a; simp only [strip, nodes]; have := ih false; omega
  | grp l s b d t _ iht =>
    intro a
    simp only [strip]
    split
    · have := iht true; simp only [nodes]; omega
    · exact Nat.le_refl _
  | opn l s t ih => intro a; simp only [strip, nodes]; have := ih a; omega

theorem wfne_strip (f : Forest) : ∀ a, f.WFne → (f.strip a).WFne := by
  induction f with
  | nil => intro a h; exact h
  | w u t ih => intro a h; exact ih false h
  | grp l s b d t _ iht =>
    intro a h
    simp only [strip]
    split
    · exact iht true h.2.1
    · exact h
  | opn l s t ih => intro a h; exact ih a h

theorem wfne_app (a b : Forest) (ha : a.WFne) (hb : b.WFne) : (a.app b).WFne := by
  induction a with
  | nil => exact hb
  | w u t ih => exact ih ha
  | grp l s b' d t _ iht => exact ⟨ha.1, iht ha.2.1, ha.2.2⟩
  | opn l s t ih => exact ih ha

def Mode.ofBool (a : Bool) : Mode := if a then .atB else .aw

theorem lfin_strip (f : Forest) : ∀ o a, (f.strip a).lfin o .off = f.lfin o (Mode.ofBool a) := by
  induction f with
  | nil => intro o a; rfl
  | w u t ih =>
    intro o a
    simp only [strip, lfin, Mode.word]
    rw [ih (o + 1) false]
    cases a <;> rfl
  | grp l s b d t _ iht =>
    intro o a
    simp only [strip]
    cases a
    · -- after a word: the group stays, and `aw` treats it like `off`
      simp only [Bool.false_eq_true, false_and, if_false, lfin, Mode.ofBool]
      have h1 : ¬ (Mode.off = Mode.atB ∧ b.size = 0) := by intro h; cases h.1
      have h2 : ¬ (Mode.aw = Mode.atB ∧ b.size = 0) := by intro h; cases h.1
      simp only [h1, h2, if_false]
    · by_cases hz : b.size = 0
      · simp only [hz, and_self, if_true, lfin, Mode.ofBool]
        exact iht o true
      · have h1 : ¬ (Mode.off = Mode.atB ∧ b.size = 0) := by intro h; cases h.1
        have h2 : ¬ (Mode.atB = Mode.atB ∧ b.size = 0) := by intro h; exact hz h.2
        have h3 : ¬ (true = true ∧ b.size = 0) := by intro h; exact hz h.2
        simp only [hz, and_false, if_false, lfin, Mode.ofBool, if_true]
  | opn l s t ih =>
    intro o a
    simp only [strip, lfin]
    rw [ih o a]
    cases a <;> simp [Mode.ofBool]

/-- the scan of `removeGroup`: the entries it drops are a prefix of the list, all ending at or before the removed data;
    the first entry that stays ends behind it -/
theorem strip_split (B : Nat) (f : Forest) : ∀ (p : Nat) (a : Bool), (a = true → p = B) → (a = false → B < p) →
    ∃ E, f.fin p = E ++ (f.strip a).fin p ∧ (∀ e ∈ E, e.end_ ≤ (B : Int)) ∧
      (∀ h, ((f.strip a).fin p).head? = some h → (B : Int) < h.end_) := by
  induction f with
  | nil => intro p a _ _; exact ⟨[], rfl, (by intro e he; cases he), (by intro h hh; cases hh)⟩
  | w u t ih =>
    intro p a h1 h2
    obtain ⟨E, hE, hle, hhd⟩ := ih (p + 1) false (by intro h; cases h) (by intro _; cases a <;> simp_all <;> omega)
    exact ⟨E, (by simpa [fin, strip] using hE), hle, (by simpa [fin, strip] using hhd)⟩
  | grp l s b d t _ iht =>
    intro p a h1 h2
    by_cases hc : a = true ∧ b.size = 0
    · obtain ⟨E, hE, hle, hhd⟩ := iht p true (fun _ => h1 hc.1) (by intro h; cases h)
      have hpB := h1 hc.1
      refine ⟨⟨l, s, p, ((p + b.size : Nat) : Int), d⟩ :: (b.fin p ++ E), ?_, ?_, ?_⟩
      · simp only [fin, strip, hc, and_self, if_true, Nat.add_zero, List.cons_append, List.append_assoc]
        rw [← hE]
      · intro e he
        simp only [List.mem_cons, List.mem_append] at he
        rcases he with rfl | he | he
        · simp only [hc.2]; omega
        · have := fin_end_le b p e he; rw [hc.2] at this; omega
        · exact hle e he
      · simpa [strip, hc] using hhd
    · refine ⟨[], (by simp [strip, hc]), (by intro e he; cases he), ?_⟩
      intro h hh
      simp only [strip, hc, if_false, fin, List.head?_cons, Option.some.injEq] at hh
      subst hh
      simp only
      cases a
      · have := h2 rfl; omega
      · have := h1 rfl
        have : b.size ≠ 0 := fun hz => hc ⟨rfl, hz⟩
        omega
  | opn l s t ih =>
    intro p a h1 h2
    obtain ⟨E, hE, hle, hhd⟩ := ih p a h1 h2
    refine ⟨⟨l, s, p, -1, false⟩ :: E, ?_, ?_, ?_⟩
    · simp only [fin, strip, List.cons_append]; rw [← hE]
    · intro e he
      simp only [List.mem_cons] at he
      rcases he with rfl | he
      · simp only; omega
      · exact hle e he
    · simpa [strip] using hhd

/-! ### boundaries -/

theorem bnd_zero (f : Forest) : f.Bnd 0 := by
  induction f with
  | nil => rfl
  | w u t _ => exact Or.inl rfl
  | grp l s b d t _ _ => exact Or.inl rfl
  | opn l s t ih => exact ih

theorem bnd_app (a b : Forest) (k : Nat) (h : b.Bnd k) : (a.app b).Bnd (a.size + k) := by
  induction a with
  | nil => simpa [app] using h
  | w u t ih =>
    refine Or.inr ⟨by simp only [size_w]; omega, ?_⟩
    have : t.size + 1 + k - 1 = t.size + k := by omega
    simp only [size_w, this]; exact ih
  | grp l s b' d t _ iht =>
    refine Or.inr ⟨by simp only [size_grp]; omega, ?_⟩
    have : b'.size + t.size + k - b'.size = t.size + k := by omega
    simp only [size_grp, this]; exact iht
  | opn l s t ih => simpa [app, Bnd] using ih

theorem bnd_strip (f : Forest) : ∀ a k, f.Bnd k → (f.strip a).Bnd k := by
  induction f with
  | nil => intro a k h; exact h
  | w u t ih =>
    intro a k h
    rcases h with h | ⟨h1, h2⟩
    · exact Or.inl h
    · exact Or.inr ⟨h1, ih false _ h2⟩
  | grp l s b d t _ iht =>
    intro a k h
    simp only [strip]
    split
    · rename_i hc
      rcases h with h | ⟨_, h2⟩
      · rw [h]; exact bnd_zero _
      · rw [hc.2] at h2; exact iht true _ h2
    · exact h
  | opn l s t ih => intro a k h; exact ih a k h

end Forest
end Rapid
