/-
  engine.go `checkFailFile` and `doCheck`, translated from the source on every run (check mode, `Go.CM` of
  RapidModel/GoCheck.lean: loading a fail file, running one test case on a fresh `*T`, the generation loop and the shrinker
  are requests), proved to be the model's: `tr_checkFailFile`, `tr_doCheck`.
-/
import RapidModel.Generated.Translated
import RapidModel.GoCheck
import RapidProofs.TranslatedDataEq
import RapidProofs.TranslatedProgEq
import RapidProofs.TranslatedPersistEq
import RapidProofs.TranslatedRepeatEq

namespace Rapid.Go
open Rapid

def CM.run {α : Type} (E : CEnv) (x : CM α) (o : Option Once) : Except Panic α × Option Once := CScript.run E x o

theorem CScript.run_bind {α β : Type} (E : CEnv) (x : CScript α) (f : α → CScript β) : ∀ o : Option Once,
    CScript.run E (x.bind f) o = CScript.run E (f (CScript.run E x o).1) (CScript.run E x o).2 := by
  induction x with
  | ret a => intro o; rfl
  | glob k ih => intro o; simp only [CScript.bind, CScript.run]; exact ih _ o
  | load n k ih =>
    intro o
    simp only [CScript.bind, CScript.run]
    cases E.file n with
    | unloadable => exact ih _ o
    | loaded v s buf => exact ih _ o
  | once s k ih => intro o; simp only [CScript.bind, CScript.run]; exact ih _ _
  | findBug c s k ih => intro o; simp only [CScript.bind, CScript.run]; exact ih _ o
  | shrink e k ih =>
    intro o
    simp only [CScript.bind, CScript.run]
    cases o with
    | none => exact ih _ _
    | some r => exact ih _ _
  | pruned k ih =>
    intro o
    simp only [CScript.bind, CScript.run]
    cases o with
    | none => exact ih _ _
    | some r => exact ih _ _

@[simp] theorem CM.run_bind {α β : Type} (E : CEnv) (x : CM α) (f : α → CM β) (o : Option Once) :
    CM.run E (x >>= f) o =
      match CM.run E x o with
      | (.ok a, o') => CM.run E (f a) o'
      | (.error e, o') => (.error e, o') := by
  have h := CScript.run_bind E (show CScript (Except Panic α) from x)
    (fun r => match r with
      | .ok a => (show CScript (Except Panic β) from f a)
      | .error e => CScript.ret (.error e)) o
  refine Eq.trans h ?_
  show _ = match CScript.run E (show CScript (Except Panic α) from x) o with | (.ok a, o') => _ | (.error e, o') => _
  rcases hr : CScript.run E (show CScript (Except Panic α) from x) o with ⟨r, o'⟩
  cases r <;> rfl

@[simp] theorem CM.run_pure {α : Type} (E : CEnv) (a : α) (o : Option Once) : CM.run E (pure a : CM α) o = (.ok a, o) := rfl
@[simp] theorem CM.run_ofM {α : Type} (E : CEnv) (x : M α) (o : Option Once) : CM.run E (CM.ofM x) o = (x, o) := rfl
@[simp] theorem CM.run_fuel {α : Type} (E : CEnv) (o : Option Once) : CM.run E (CM.fuel : CM α) o = (.error .fuel, o) := rfl
@[simp] theorem CM.run_glob (E : CEnv) (o : Option Once) : CM.run E CM.glob o = (.ok E.found, o) := rfl
@[simp] theorem CM.run_once (E : CEnv) (s : SSpec) (o : Option Once) :
    CM.run E (CM.once s) o = (.ok ((checkOnce E.p s.src TS.fresh).err, (checkOnce E.p s.src TS.fresh).used), some (checkOnce E.p s.src TS.fresh)) := rfl
@[simp] theorem CM.run_findBug (E : CEnv) (c : Int64) (s : UInt64) (o : Option Once) :
    CM.run E (CM.findBug c s) o =
      (.ok (Int64.ofNat (Rapid.findBug E.p (natOfInt c) s E.early).valid, Int64.ofNat (Rapid.findBug E.p (natOfInt c) s E.early).invalid,
        (Rapid.findBug E.p (natOfInt c) s E.early).early, (Rapid.findBug E.p (natOfInt c) s E.early).seed,
        (Rapid.findBug E.p (natOfInt c) s E.early).err), o) := rfl
@[simp] theorem CM.run_shrink (E : CEnv) (e : ErrV) (r : Once) :
    CM.run E (CM.shrink e) (some r) = (.ok (shrinkWith E.p ⟨r.kept, e⟩ E.cands), some r) := rfl
theorem CM.run_load (E : CEnv) (n : String) (o : Option Once) :
    CM.run E (CM.load n) o =
      match E.file n with
      | .unloadable => (.ok ("", [], true), o)
      | .loaded v _ buf => (.ok (v, buf, false), o) := by
  show CScript.run E (CScript.load n _) o = _
  simp only [CScript.run]
  cases E.file n <;> rfl

@[simp] theorem CM.run_ite {α : Type} (E : CEnv) (c : Bool) (x y : CM α) (o : Option Once) :
    CM.run E (if c = true then x else y) o = if c = true then CM.run E x o else CM.run E y o := by
  cases c <;> rfl

/-- what `checkFailFile` hands back when the file is not used -/
def ffOut : Option (List UInt64 × Option Err × Option Err) → List UInt64 × ErrV × ErrV
  | some r => r
  | none => ([], none, none)

/-- **`checkFailFile` of the source is the model's** — an unloadable file, a file of another version, a test case that passes
    or is invalid now are not used; otherwise the words and the errors of two replays -/
theorem tr_checkFailFile (E : CEnv) (name : String) (o : Option Once) :
    ∃ o', CM.run E (Translated.checkFailFile name) o = (.ok (ffOut (Rapid.checkFailFile E.p (E.file name))), o') := by
  unfold Translated.checkFailFile
  simp only [CM.run_bind, CM.run_load]
  cases hf : E.file name with
  | unloadable => simp [Rapid.checkFailFile, ffOut]
  | loaded v s buf =>
    simp only [Rapid.checkFailFile, Bool.false_eq_true, if_false]
    by_cases hv : v = rapidVersion
    · have hv' : (v != "v0.4.8") = false := by simp [hv, rapidVersion]
      have hv2 : (v != rapidVersion) = false := by simp [hv]
      simp only [hv', hv2, Bool.false_eq_true, if_false, CM.run_bind, CM.run_once, SSpec.src]
      cases he : (checkOnce E.p (.buf buf) TS.fresh).err with
      | none => simp [ffOut]
      | some e =>
        by_cases hi : e.isInvalid = true
        · simp [ffOut, errvInvalid, hi]
        · simp [ffOut, errvInvalid, hi, he, SSpec.src]
    · have hv' : (v != "v0.4.8") = true := by simpa [rapidVersion] using hv
      have hv2 : (v != rapidVersion) = true := by simpa using hv
      simp [hv', hv2, ffOut]

theorem checkFailFile_some (p : Prog) (f : FF) (b : List UInt64) (e1 e2 : Option Err)
    (h : Rapid.checkFailFile p f = some (b, e1, e2)) : e1.isSome = true := by
  cases f with
  | unloadable => simp [Rapid.checkFailFile] at h
  | loaded v s buf =>
    simp only [Rapid.checkFailFile] at h
    by_cases hv : (v != rapidVersion) = true
    · simp [hv] at h
    · simp only [hv, Bool.false_eq_true, if_false] at h
      cases he : (checkOnce p (.buf buf) TS.fresh).err with
      | none => simp [he] at h
      | some e =>
        simp only [he] at h
        by_cases hi : e.isInvalid = true
        · simp [hi] at h
        · simp only [hi, Bool.false_eq_true, if_false, Option.some.injEq, Prod.mk.injEq] at h
          rw [← h.2.1]; rfl

/-- what the loop over the fail files hands back: the index it stopped at and, if a file reproduced, the results of `doCheck` -/
def loopOut (E : CEnv) (names : List String) (j : Nat) :
    Int64 × Option (Int64 × Int64 × Bool × UInt64 × String × List UInt64 × ErrV × ErrV) :=
  match firstFailFile E.p ((names.drop j).map E.file) j with
  | some (i, b, e1, e2) => (Int64.ofNat i, some (0, 0, false, 0, names.getD i "", b, e1, e2))
  | none => (Int64.ofNat names.length, none)

theorem loopOut_step_none (E : CEnv) (names : List String) (j : Nat) (hjl : j < names.length)
    (hc : Rapid.checkFailFile E.p (E.file names[j]) = none) : loopOut E names j = loopOut E names (j + 1) := by
  unfold loopOut
  rw [List.drop_eq_getElem_cons hjl, List.map_cons, firstFailFile, hc]

theorem loopOut_step_some (E : CEnv) (names : List String) (j : Nat) (hjl : j < names.length) (b : List UInt64) (e1 e2 : Option Err)
    (hc : Rapid.checkFailFile E.p (E.file names[j]) = some (b, e1, e2)) :
    loopOut E names j = (Int64.ofNat j, some (0, 0, false, 0, names[j], b, e1, e2)) := by
  unfold loopOut
  rw [List.drop_eq_getElem_cons hjl, List.map_cons, firstFailFile, hc]
  simp [List.getD, List.getElem?_eq_getElem hjl]

theorem tr_doCheck_loop (E : CEnv) (names : List String) (hl : names.length < 2 ^ 62) :
    ∀ (fuel : Nat) (ff0 : String) (j : Nat) (o : Option Once), j ≤ names.length → names.length - j < fuel →
      ∃ o', CM.run E (Translated.doCheck_loop1 ff0 names (glen names) fuel (Int64.ofNat j)) o = (.ok (loopOut E names j), o') := by
  intro fuel
  induction fuel with
  | zero => intro ff0 j o _ h; omega
  | succ fuel ih =>
    intro ff0 j o hj hf
    rw [Translated.doCheck_loop1]
    have hlt : decide (Int64.ofNat j < glen names) = decide (j < names.length) := by
      unfold glen; exact i64_lt63 (by omega) (by omega)
    rw [hlt]
    by_cases hjl : j < names.length
    · simp only [hjl, decide_true, if_true, CM.run_bind, CM.run_ofM, idx_getElem names hjl (by omega)]
      obtain ⟨o1, h1⟩ := tr_checkFailFile E names[j] o
      simp only [h1]
      cases hc : Rapid.checkFailFile E.p (E.file names[j]) with
      | none =>
        obtain ⟨o2, h2⟩ := ih names[j] (j + 1) o1 (by omega) (by omega)
        refine ⟨o2, ?_⟩
        rw [loopOut_step_none E names j hjl hc]
        simp only [ffOut, Option.isSome_none, Bool.or_self, Bool.false_eq_true, if_false, i64_ofNat_succ]
        exact h2
      | some r =>
        obtain ⟨b, e1, e2⟩ := r
        have h1s := checkFailFile_some _ _ _ _ _ hc
        refine ⟨o1, ?_⟩
        rw [loopOut_step_some E names j hjl b e1 e2 hc]
        simp [ffOut, h1s]
    · have : j = names.length := by omega
      subst this
      simp [hjl, loopOut, firstFailFile]

/-- the fail files `doCheck` looks at, in order: the one given with `-rapid.failfile`, then what the glob finds -/
def failFileNames (failfile : String) (globf : Bool) (found : List String) : List String :=
  (if failfile != "" then [failfile] else []) ++ (if globf then found else [])

/-- the model's `DC` as the eight results of the source's `doCheck` (the fail file by name) -/
def dcOut (names : List String) (d : DC) : Int64 × Int64 × Bool × UInt64 × String × List UInt64 × ErrV × ErrV :=
  (Int64.ofNat d.valid, Int64.ofNat d.invalid, d.early, d.seed,
    (match d.fromFile with | some i => names.getD i "" | none => ""), d.buf, d.err1, d.err2)

/-- **`doCheck` of the source is the model's `doCheck`**: for every property, fail files, seed, number of checks, clock and
    candidate sequence of the shrinker the translated function hands back the model's results -/
theorem tr_doCheck (E : CEnv) (checks : Nat) (hc : checks < 2 ^ 62) (seed : UInt64) (failfile : String) (globf : Bool) (fuel : Nat)
    (hl : (failFileNames failfile globf E.found).length < 2 ^ 62) (hfuel : (failFileNames failfile globf E.found).length < fuel) :
    (CM.run E (Translated.doCheck (Int64.ofNat checks) seed failfile globf fuel) none).1 =
      .ok (dcOut (failFileNames failfile globf E.found)
        (Rapid.doCheck E.p checks seed ((failFileNames failfile globf E.found).map E.file) E.early E.cands)) := by
  unfold Translated.doCheck
  simp only [CM.run_bind]
  -- the list of names
  have h1 : CM.run E (if (failfile != "") = true then (pure [failfile] : CM (List String)) else pure []) none =
      (.ok (if (failfile != "") = true then [failfile] else []), none) := by
    cases (failfile != "") <;> rfl
  have h2 : ∀ a : List String, CM.run E (if globf = true then CM.glob >>= fun m => pure (a ++ m) else pure a) none =
      (.ok (a ++ if globf = true then E.found else []), none) := by
    intro a; cases globf <;> simp
  rw [h1]; dsimp only
  rw [h2]; dsimp only
  have hn : ((if (failfile != "") = true then [failfile] else []) ++ if globf = true then E.found else []) =
      failFileNames failfile globf E.found := rfl
  rw [hn]
  generalize failFileNames failfile globf E.found = names at hl hfuel ⊢
  obtain ⟨o1, hloop⟩ := tr_doCheck_loop E names hl fuel failfile 0 none (Nat.zero_le _) (by omega)
  have h0 : (0 : Int64) = Int64.ofNat 0 := rfl
  rw [h0, hloop]; dsimp only
  unfold loopOut Rapid.doCheck
  rw [List.drop_zero]
  cases hfirst : firstFailFile E.p (List.map E.file names) 0 with
  | some r =>
    obtain ⟨i, b, e1, e2⟩ := r
    simp [dcOut]
  | none =>
    simp only [CM.run_bind, CM.run_findBug, natOfInt_ofNat hc]
    cases hfe : (Rapid.findBug E.p checks seed E.early).err with
    | none => simp [dcOut, hfe]
    | some e =>
      simp only [Option.isNone_some, Bool.false_eq_true, if_false, CM.run_bind, CM.run_once, SSpec.src]
      by_cases hs : sameError (some e) (checkOnce E.p (.rng (Jsf.init (Rapid.findBug E.p checks seed E.early).seed)) TS.fresh).err = true
      · simp [dcOut, hfe, hs]
      · simp [dcOut, hfe, hs]

end Rapid.Go
