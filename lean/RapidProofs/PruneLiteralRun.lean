/-
  RapidProofs.PruneLiteralRun — every run records a forest (`run_rep`), the recording calls lay it out (`recGo_rep`),
  the token-based prune lays out what survives (`pruneGoT_rep`), and therefore (`literal_prune_of_run`) the literal
  `prune()` of the model — the loop over `removeGroup` that `TranslatedPruneEq` proves equal to the source's — leaves the
  data and the finished groups of `prunedOfToks`, which is what the theorems about replay and shrinking talk about.
-/
import RapidProofs.PruneLiteral
import RapidProofs.PruneT

namespace Rapid
open Forest

/-! ### recordings as forests -/

theorem app_nil (a : Forest) : a.app .nil = a := by
  induction a with
  | nil => rfl
  | w u t ih => simp [Forest.app, ih]
  | grp l s b d t _ ih => simp [Forest.app, ih]
  | opn l s t ih => simp [Forest.app, ih]

theorem app_assoc (a b c : Forest) : (a.app b).app c = a.app (b.app c) := by
  induction a with
  | nil => rfl
  | w u t ih => simp [Forest.app, ih]
  | grp l s b' d t _ ih => simp [Forest.app, ih]
  | opn l s t ih => simp [Forest.app, ih]

/-- the tokens of a recording and the forest they describe -/
inductive Rep : List Tok → Forest → Prop
  | nil : Rep [] .nil
  | w (u : UInt64) {t : List Tok} {F : Forest} : Rep t F → Rep (.w u :: t) (.w u F)
  | grp (l : String) (s d : Bool) {tb t : List Tok} {Fb Ft : Forest} : Rep tb Fb → Rep t Ft →
      Rep (.opn l s :: (tb ++ .cls d :: t)) (.grp l s Fb d Ft)
  | abt (l : String) (s : Bool) {tb t : List Tok} {Fb Ft : Forest} : Rep tb Fb → Rep t Ft →
      Rep (.opn l s :: (tb ++ .abort :: t)) (.opn l s (Fb.app Ft))

theorem Rep.append {t1 t2 : List Tok} {F1 F2 : Forest} (h1 : Rep t1 F1) (h2 : Rep t2 F2) : Rep (t1 ++ t2) (F1.app F2) := by
  induction h1 with
  | nil => exact h2
  | w u _ ih => exact Rep.w u ih
  | grp l s d hb _ _ iht =>
    have := Rep.grp l s d hb iht
    simpa [Forest.app] using this
  | abt l s hb _ _ iht =>
    have := Rep.abt l s hb iht
    simpa [Forest.app, app_assoc] using this

theorem modify_mid {α : Type} (a b : List α) (x : α) (f : α → α) : (a ++ x :: b).modify a.length f = a ++ f x :: b := by
  induction a with
  | nil => rfl
  | cons y a ih => simp only [List.cons_append, List.length_cons, List.modify_succ_cons]; rw [ih]

/-- the recording calls replayed over the tokens of a forest append its words and its layout -/
theorem recGo_rep {toks : List Tok} {F : Forest} (h : Rep toks F) : ∀ (rest : List Tok) (r : Rec) (st : List Nat),
    recGo (toks ++ rest) r st = recGo rest ⟨r.data ++ F.words, r.groups ++ F.fin r.data.length⟩ st := by
  induction h with
  | nil => intro rest r st; simp [Forest.words, Forest.fin, rec_eta]
  | w u _ ih =>
    intro rest r st
    simp only [List.cons_append, recGo]
    rw [ih]
    simp [Forest.words, Forest.fin]
  | @grp l s d tb t Fb Ft _ _ ihb iht =>
    intro rest r st
    simp only [List.cons_append, List.append_assoc, recGo]
    rw [ihb]
    simp only [recGo]
    rw [show r.groups ++ [(⟨l, s, r.data.length, -1, false⟩ : GI)] ++ Fb.fin r.data.length =
      r.groups ++ (⟨l, s, r.data.length, -1, false⟩ : GI) :: Fb.fin r.data.length by simp, modify_mid]
    rw [iht]
    simp [Forest.words, Forest.fin, Forest.size]
  | @abt l s tb t Fb Ft _ _ ihb iht =>
    intro rest r st
    simp only [List.cons_append, List.append_assoc, recGo]
    rw [ihb]
    simp only [recGo, List.tail_cons]
    rw [iht]
    simp [Forest.words, Forest.fin, fin_app, Forest.size]

/-- the token-based prune over the tokens of a forest appends the words that survive and the layout `tfin` -/
theorem pruneGoT_rep {toks : List Tok} {F : Forest} (h : Rep toks F) : ∀ (rest : List Tok) (r : Rec) (st : List (Nat × Nat)),
    pruneGoT (toks ++ rest) r st = pruneGoT rest ⟨r.data ++ F.pwords, r.groups ++ F.tfin r.data.length⟩ st := by
  induction h with
  | nil => intro rest r st; simp [Forest.pwords, Forest.tfin, rec_eta]
  | w u _ ih =>
    intro rest r st
    simp only [List.cons_append, pruneGoT]
    rw [ih]
    simp [Forest.pwords, Forest.tfin]
  | @grp l s d tb t Fb Ft _ _ ihb iht =>
    intro rest r st
    simp only [List.cons_append, List.append_assoc, pruneGoT]
    rw [ihb]
    cases d with
    | true =>
      simp only [pruneGoT, if_true]
      rw [List.take_left' rfl, show r.groups ++ [(⟨l, s, r.data.length, -1, false⟩ : GI)] ++ Fb.tfin r.data.length =
        r.groups ++ ((⟨l, s, r.data.length, -1, false⟩ : GI) :: Fb.tfin r.data.length) by simp, List.take_left' rfl, iht]
      simp [Forest.pwords, Forest.tfin]
    | false =>
      simp only [pruneGoT, Bool.false_eq_true, if_false]
      rw [show r.groups ++ [(⟨l, s, r.data.length, -1, false⟩ : GI)] ++ Fb.tfin r.data.length =
        r.groups ++ (⟨l, s, r.data.length, -1, false⟩ : GI) :: Fb.tfin r.data.length by simp, modify_mid, iht]
      simp [Forest.pwords, Forest.tfin, Forest.psize]
  | @abt l s tb t Fb Ft _ _ ihb iht =>
    intro rest r st
    simp only [List.cons_append, List.append_assoc, pruneGoT]
    rw [ihb]
    simp only [pruneGoT, List.tail_cons]
    rw [iht]
    simp [Forest.pwords, Forest.tfin, tfin_app, Forest.psize]

/-! ### every run records a forest -/

theorem run_rep (p : Prog) : ∀ (src : Src) (ts : TS), ∃ F, Rep (p.run src ts).toks F ∧ F.WFne ∧ F.words = (p.run src ts).used := by
  induction p with
  | ret v => intro src ts; exact ⟨.nil, by simp [Prog.run, Out.ofRes]; exact Rep.nil, trivial, by simp [Prog.run, Out.ofRes, Forest.words]⟩
  | throw e => intro src ts; exact ⟨.nil, by simp [Prog.run, Out.ofRes]; exact Rep.nil, trivial, by simp [Prog.run, Out.ofRes, Forest.words]⟩
  | draw n k ih =>
    intro src ts
    simp only [Prog.run]
    cases h : src.next n with
    | none => exact ⟨.nil, by simp [Out.ofRes]; exact Rep.nil, trivial, by simp [Out.ofRes, Forest.words]⟩
    | some q =>
      obtain ⟨u, src'⟩ := q
      obtain ⟨F, h1, h2, h3⟩ := ih u src' ts
      exact ⟨.w u F, by simpa using Rep.w u h1, h2, by simp [Forest.words, h3]⟩
  | group l s b d k ihb ihk =>
    intro src ts
    obtain ⟨Fb, hb1, hb2, hb3⟩ := ihb src ts
    have haborted : ∃ F, Rep (Tok.opn l s :: (b.run src ts).toks ++ [Tok.abort]) F ∧ F.WFne ∧ F.words = (b.run src ts).used := by
      refine ⟨.opn l s (Fb.app .nil), ?_, ?_, ?_⟩
      · have := Rep.abt l s hb1 Rep.nil; simpa using this
      · rw [app_nil]; exact hb2
      · simp [Forest.words, hb3]
    simp only [Prog.run]
    cases hres : (b.run src ts).res with
    | error e => simpa using haborted
    | ok v =>
      simp only []
      split
      · simpa using haborted
      · rename_i hcond
        obtain ⟨Fk, hk1, hk2, hk3⟩ := ihk v (b.run src ts).src (b.run src ts).ts
        refine ⟨.grp l s Fb (d v) Fk, ?_, ⟨hb2, hk2, ?_⟩, ?_⟩
        · have := Rep.grp l s (d v) hb1 hk1; simpa using this
        · intro hd
          have hne : (b.run src ts).used ≠ [] := by
            intro he; apply hcond; simp [hd, he]
          rw [← hb3] at hne
          exact List.length_pos_iff.mpr hne
        · simp [Forest.words, hb3, hk3]
  | catchInv b k ihb ihk =>
    intro src ts
    obtain ⟨Fb, hb1, hb2, hb3⟩ := ihb src ts
    simp only [Prog.run]
    cases hres : (b.run src ts).res with
    | ok v =>
      simp only []
      obtain ⟨Fk, hk1, hk2, hk3⟩ := ihk (some v) ((b.run src ts).ts.draws != ts.draws) (b.run src ts).src (b.run src ts).ts
      exact ⟨Fb.app Fk, by simpa using hb1.append hk1, wfne_app _ _ hb2 hk2, by simp [hb3, hk3]⟩
    | error e =>
      cases e with
      | invalid m =>
        simp only []
        obtain ⟨Fk, hk1, hk2, hk3⟩ := ihk none ((b.run src ts).ts.draws != ts.draws) (b.run src ts).src (b.run src ts).ts
        exact ⟨Fb.app Fk, by simpa using hb1.append hk1, wfne_app _ _ hb2 hk2, by simp [hb3, hk3]⟩
      | stop m site => exact ⟨Fb, hb1, hb2, hb3⟩
      | panic m site => exact ⟨Fb, hb1, hb2, hb3⟩
      | fuel => exact ⟨Fb, hb1, hb2, hb3⟩
  | errorf m k ih => intro src ts; simpa [Prog.run] using ih src _
  | failOnError site k ih =>
    intro src ts
    simp only [Prog.run]
    cases ts.failed with
    | some m => exact ⟨.nil, by simp [Out.ofRes]; exact Rep.nil, trivial, by simp [Out.ofRes, Forest.words]⟩
    | none => exact ih src ts
  | tick k ih => intro src ts; simpa [Prog.run] using ih src _
  | cleanup c k ih => intro src ts; simpa [Prog.run] using ih src _
  | ctx k ih =>
    intro src ts
    simp only [Prog.run]
    cases ts.ctx with
    | some id => simpa using ih src ts
    | none => simpa using ih src _
  | inner b k ihb ihk =>
    intro src ts
    obtain ⟨Fb, hb1, hb2, hb3⟩ := ihb src TS.fresh
    simp only [Prog.run]
    split
    · exact ⟨Fb, hb1, hb2, hb3⟩
    · split
      · exact ⟨Fb, hb1, hb2, hb3⟩
      · have hseq : ∀ (o2 : Out) (evs : List Ev), (∃ Fk, Rep o2.toks Fk ∧ Fk.WFne ∧ Fk.words = o2.used) →
            ∃ F, Rep (o2.after (b.run src TS.fresh).used (b.run src TS.fresh).kept (b.run src TS.fresh).toks evs (b.run src TS.fresh).overran).toks F ∧
              F.WFne ∧ F.words = (o2.after (b.run src TS.fresh).used (b.run src TS.fresh).kept (b.run src TS.fresh).toks evs (b.run src TS.fresh).overran).used := by
          intro o2 evs ⟨Fk, hk1, hk2, hk3⟩
          exact ⟨Fb.app Fk, by simpa using hb1.append hk1, wfne_app _ _ hb2 hk2, by simp [hb3, hk3]⟩
        apply hseq
        exact ihk _ _ _
  | emit id k ih => intro src ts; simpa [Prog.run] using ih src _

/-! ### the literal list and the token-based list: same finished groups -/

theorem lfin_mem_tfin (F : Forest) : F.WFne → ∀ o m, ∀ e ∈ F.lfin o m, e ∈ F.tfin o := by
  induction F with
  | nil => intro _ o m e he; cases he
  | w u t ih => intro hw o m e he; exact ih hw _ _ e he
  | grp l s b d t ihb iht =>
    intro hw o m e he
    simp only [Forest.lfin] at he
    simp only [Forest.tfin]
    by_cases h1 : m = .atB ∧ b.size = 0
    · rw [if_pos h1] at he
      have hd : d = true := by
        cases d with
        | true => rfl
        | false => have := hw.2.2 rfl; omega
      rw [if_pos hd]
      exact iht hw.2.1 _ _ e he
    · rw [if_neg h1] at he
      cases d with
      | true => simp only [if_true] at he ⊢; exact iht hw.2.1 _ _ e he
      | false =>
        simp only [Bool.false_eq_true, if_false, List.mem_cons, List.mem_append] at he ⊢
        rcases he with he | he | he
        · exact Or.inl he
        · exact Or.inr (Or.inl (ihb hw.1 _ _ e he))
        · exact Or.inr (Or.inr (iht hw.2.1 _ _ e he))
  | opn l s t ih =>
    intro hw o m e he
    simp only [Forest.lfin] at he
    simp only [Forest.tfin, List.mem_cons]
    by_cases hm : m = .off
    · rw [if_pos hm] at he
      simp only [List.mem_cons] at he
      rcases he with he | he
      · exact Or.inl he
      · exact Or.inr (ih hw _ _ e he)
    · rw [if_neg hm] at he
      exact Or.inr (ih hw _ _ e he)

theorem lfin_filter (F : Forest) : F.WFne → ∀ o m,
    (F.lfin o m).filter (fun g => decide (g.end_ ≥ 0)) = (F.tfin o).filter (fun g => decide (g.end_ ≥ 0)) := by
  induction F with
  | nil => intro _ o m; rfl
  | w u t ih => intro hw o m; exact ih hw _ _
  | grp l s b d t ihb iht =>
    intro hw o m
    simp only [Forest.lfin, Forest.tfin]
    by_cases h1 : m = .atB ∧ b.size = 0
    · rw [if_pos h1]
      have hd : d = true := by
        cases d with
        | true => rfl
        | false => have := hw.2.2 rfl; omega
      rw [if_pos hd]
      exact iht hw.2.1 _ _
    · rw [if_neg h1]
      cases d with
      | true => simp only [if_true]; exact iht hw.2.1 _ _
      | false =>
        simp only [Bool.false_eq_true, if_false, List.filter_cons, List.filter_append]
        rw [ihb hw.1, iht hw.2.1]
  | opn l s t ih =>
    intro hw o m
    simp only [Forest.lfin, Forest.tfin]
    have hneg : decide ((-1 : Int) ≥ 0) = false := by decide
    by_cases hm : m = .off
    · rw [if_pos hm]
      simp only [List.filter_cons, hneg, Bool.false_eq_true, if_false]
      exact ih hw _ _
    · rw [if_neg hm]
      simp only [List.filter_cons, hneg, Bool.false_eq_true, if_false]
      exact ih hw _ _

/-- **the literal `prune()` and the token-based one agree on every recording of a run**: if the token-based pruned
    recording has no empty group (the closing assertion of `prune()`), the literal `Rec.prune` of the recording
    succeeds, and it leaves the same data and the same finished groups.  (The two group lists differ only in
    unfinished entries that directly follow a removed group in the list: `removeGroup` drops them.) -/
theorem literal_prune_of_run (p : Prog) (src : Src) (ts : TS)
    (hne : (prunedOfToks (p.run src ts).toks).noEmptyGroup = true) :
    ∃ r', (recOfToks (p.run src ts).toks).prune = some r' ∧ r'.finished = (prunedOfToks (p.run src ts).toks).finished := by
  obtain ⟨F, hrep, hwf, _⟩ := run_rep p src ts
  have hrec : recOfToks (p.run src ts).toks = ⟨F.words, F.fin 0⟩ := by
    have := recGo_rep hrep [] .empty []
    simpa [recOfToks, recGo, Rec.empty] using this
  have hpr : prunedOfToks (p.run src ts).toks = ⟨F.pwords, F.tfin 0⟩ := by
    have := pruneGoT_rep hrep [] .empty []
    simpa [prunedOfToks, pruneGoT, Rec.empty] using this
  have hgo := pruneGo_forest F.nodes F (Nat.le_refl _) hwf [] [] ((F.fin 0).length + 1) (by intro h hh; cases hh) (by simp)
  simp only [List.nil_append, List.length_nil, List.map_nil] at hgo
  rw [hpr] at hne
  rw [hrec, hpr]
  refine ⟨⟨F.pwords, F.lfin 0 .off⟩, ?_, ?_⟩
  · unfold Rec.prune
    simp only [hgo]
    have hall : ((F.lfin 0 .off).all fun g => (g.begin : Int) != g.end_) = true := by
      rw [List.all_eq_true]
      intro g hg
      have hg' := lfin_mem_tfin F hwf 0 .off g hg
      simp only [Rec.noEmptyGroup, List.all_eq_true] at hne
      exact hne g hg'
    rw [if_pos hall]
  · simp only [Rec.finished]
    rw [lfin_filter F hwf 0 .off]

end Rapid
