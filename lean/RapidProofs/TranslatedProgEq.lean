/-
  RapidProofs.TranslatedProgEq — the functions of utils.go that work on the bit stream, as the
  translator puts them into Lean (RapidModel/Generated/Translated.lean, regenerated from /repo on
  every run), behave exactly like the hand-written model of RapidModel/Prim.lean: for every bit
  source and every `*T` state the two runs are equal (`RunEq`).

  Floating point is not interpreted by the translation.  The theorems need from the float
  evaluator exactly the facts collected in `FloatFacts`: what `flipBiasedCoin(p)` answers for
  p ∈ {0, 1, 0.5}, what `genGeom` returns for the 65 bias parameters, what `int(m)` is for them —
  the numbers measured on the real functions on every run (Generated/Thresholds.lean).
-/
import RapidModel.Generated.Translated
import RapidProofs.TranslatedEq
import RapidProofs.ContractsInt
import RapidProofs.ReachComp

namespace Rapid

open Rapid.Go

/-- equal runs from every bit source and every `*T` state -/
def RunEq (p q : Prog) : Prop := ∀ src ts, p.run src ts = q.run src ts

theorem RunEq.refl (p : Prog) : RunEq p p := fun _ _ => rfl
theorem RunEq.symm {p q : Prog} (h : RunEq p q) : RunEq q p := fun s t => (h s t).symm
theorem RunEq.trans {p q r : Prog} (h1 : RunEq p q) (h2 : RunEq q r) : RunEq p r := fun s t => (h1 s t).trans (h2 s t)

/-! ### the encoding of the values that leave a group -/

@[simp] theorem dec_enc_u64 (u : UInt64) : (Enc.dec (Enc.enc u) : UInt64) = u := by
  simp [Enc.enc, Enc.dec]

@[simp] theorem dec_enc_bool (b : Bool) : (Enc.dec (Enc.enc b) : Bool) = b := by
  simp [Enc.enc, Enc.dec]

@[simp] theorem dec_enc_pair {α β : Type} [Enc α] [Enc β] (a : α) (b : β) :
    (Enc.dec (Enc.enc (a, b)) : α × β) = (Enc.dec (Enc.enc a), Enc.dec (Enc.enc b)) := by
  simp [Enc.enc, Enc.dec]

theorem valStr_strVal (cs : List Char) : valStr (cs.foldr (fun c acc => .cons (.int c.toNat) acc) .nil) = cs := by
  induction cs with
  | nil => rfl
  | cons c cs ih => simp [valStr, ih]

@[simp] theorem ofVal_toVal (x : FX) : FX.ofVal x.toVal = x := by
  induction x with
  | lit s => simp [FX.toVal, FX.ofVal, strVal, valStr_strVal]
  | ofU64 u => simp [FX.toVal, FX.ofVal]
  | ofBits b => simp [FX.toVal, FX.ofVal]
  | ofI64 i => simp [FX.toVal, FX.ofVal]
  | neg a ih => simp [FX.toVal, FX.ofVal, ih]
  | add a b iha ihb => simp [FX.toVal, FX.ofVal, iha, ihb]
  | sub a b iha ihb => simp [FX.toVal, FX.ofVal, iha, ihb]
  | mul a b iha ihb => simp [FX.toVal, FX.ofVal, iha, ihb]
  | div a b iha ihb => simp [FX.toVal, FX.ofVal, iha, ihb]
  | call1 f a ih => simp [FX.toVal, FX.ofVal, strVal, valStr_strVal, ih]
  | call2 f a b iha ihb => simp [FX.toVal, FX.ofVal, strVal, valStr_strVal, iha, ihb]

@[simp] theorem dec_enc_fx (x : FX) : (Enc.dec (Enc.enc x) : FX) = x := ofVal_toVal x

/-! ### integers -/

theorem natOfInt_ofNat {n : Nat} (h : n < 2 ^ 62) : natOfInt (Int64.ofNat n) = n := by
  simp [natOfInt, i64_ofNat_toInt h]

theorem natOfInt_len64 (u : UInt64) : natOfInt (Go.len64 u) = len64 u :=
  natOfInt_ofNat (by have := len64_le_64 u; omega)

theorem natOfInt_53 : natOfInt (53 : Int64) = 53 := by decide

/-! ### `genUintNNoReject` -/

theorem tr_genUintNNoReject (fe : FEval) (max : UInt64) (fuel : Nat) (k1 k2 : UInt64 → Prog)
    (hk : ∀ u, RunEq (k1 u) (k2 u)) :
    RunEq (Translated.genUintNNoReject fe max fuel k1) (uintNoReject max k2) := by
  intro src ts
  simp only [Translated.genUintNNoReject, uintNoReject, run_draw_group, natOfInt_len64, dec_enc_u64, vu_uv]
  cases src.next (len64 max) with
  | none => rfl
  | some r =>
    obtain ⟨u, src'⟩ := r
    simp only [intBitsLabel]
    rw [hk]
    simp only [decide_eq_true_eq]

/-! ### `genUintNUnbiased` -/

theorem u64_not_le (a b : UInt64) : (!decide (a ≤ b)) = decide (a > b) := by
  by_cases h : a ≤ b
  · have : ¬ a > b := by rw [gt_iff_lt, UInt64.lt_iff_toNat_lt]; rw [UInt64.le_iff_toNat_le] at h; omega
    simp [h, this]
  · have : a > b := by rw [gt_iff_lt, UInt64.lt_iff_toNat_lt]; rw [UInt64.le_iff_toNat_le] at h; omega
    simp [h, this]

theorem tr_unbiasedLoop (fe : FEval) (max : UInt64) (k1 k2 : UInt64 → Prog) (hk : ∀ u, RunEq (k1 u) (k2 u)) (fuel : Nat) :
    RunEq (Translated.genUintNUnbiased_loop1 fe (Go.len64 max) max k1 fuel) (uintUnbiased max k2 fuel) := by
  induction fuel with
  | zero => intro src ts; rfl
  | succ fuel ih =>
    intro src ts
    simp only [Translated.genUintNUnbiased_loop1, uintUnbiased, run_draw_group, natOfInt_len64, dec_enc_pair, dec_enc_u64,
      dec_enc_bool, vu_uv, u64_not_le]
    cases src.next (len64 max) with
    | none => rfl
    | some r =>
      obtain ⟨u, src'⟩ := r
      simp only [intBitsLabel, decide_eq_true_eq]
      by_cases h : u ≤ max
      · simp only [h, if_true]; rw [hk]
      · simp only [h, if_false]; rw [ih]

theorem tr_genUintNUnbiased (fe : FEval) (max : UInt64) (fuel : Nat) (k1 k2 : UInt64 → Prog) (hk : ∀ u, RunEq (k1 u) (k2 u)) :
    RunEq (Translated.genUintNUnbiased fe max fuel k1) (uintUnbiased max k2 fuel) :=
  tr_unbiasedLoop fe max k1 k2 hk fuel

/-! ### floats: what the theorems below need from the evaluator -/

/-- `genFloat01` on the 53-bit word `w` -/
def f01 (w : UInt64) : FX := .mul (.ofU64 w) (.lit "0x1.0p-53")
/-- `m` of `genUintNBiased` -/
def biasMfx (bitlen : Int64) : FX := .call2 "math.Max" (.lit "8") (.div (.add (.ofI64 bitlen) (.lit "48")) (.lit "7"))
/-- the parameter `1/(m+1)` of its `genGeom` -/
def biasPfx (bitlen : Int64) : FX := .div (.lit "1") (.add (biasMfx bitlen) (.lit "1"))
/-- the value `genGeom` converts to an integer -/
def geomfx (w : UInt64) (p : FX) : FX := .div (.call1 "math.Log1p" (.neg (f01 w))) (.call1 "math.Log1p" (.neg p))

/-- The floating-point facts behind the model's thresholds (`FT`), in terms of the expressions of the
    source: `w` ranges over the 53-bit words `genFloat01` draws, `b` over the bit lengths 0..64. -/
structure FloatFacts (fe : FEval) (ft : FT) : Prop where
  /-- `assert(p >= 0 && p <= 1)` of `flipBiasedCoin` holds for the three constants -/
  coin_assert : ∀ p : String, p = "0" ∨ p = "1" ∨ p = "0.5" → fe.le (.lit "0") (.lit p) = true ∧ fe.le (.lit p) (.lit "1") = true
  coin0 : ∀ w : UInt64, w < thrNever → fe.le (.sub (.lit "1") (.lit "0")) (f01 w) = false
  coin1 : ∀ w : UInt64, w < thrNever → fe.le (.sub (.lit "1") (.lit "1")) (f01 w) = true
  coinHalf : ∀ w : UInt64, w < thrNever → fe.le (.sub (.lit "1") (.lit "0.5")) (f01 w) = decide (ft.coinHalf ≤ w)
  /-- `assert(p > 0 && p <= 1)` of `genGeom` holds for the bias parameters -/
  geom_assert : ∀ b : Nat, b ≤ 64 → fe.lt (.lit "0") (biasPfx (Int64.ofNat b)) = true ∧ fe.le (biasPfx (Int64.ofNat b)) (.lit "1") = true
  /-- `int(m)` -/
  biasM : ∀ b : Nat, b ≤ 64 → fe.toI64 (biasMfx (Int64.ofNat b)) = Int64.ofNat (biasM b)
  /-- `genGeom`: the table holds the first 65 break points (the value is capped at 65 there) -/
  geom : ∀ b : Nat, b ≤ 64 → ∀ w : UInt64, w < thrNever →
    (fe.toU64 (geomfx w (biasPfx (Int64.ofNat b)))).toNat < 2 ^ 32 ∧
    min (fe.toU64 (geomfx w (biasPfx (Int64.ofNat b)))).toNat 65 + 1 = geomN (ft.geom b) w

/-- the same facts about `flipBiasedCoin` when the probability arrives as a float64 *value* (floats.go
    hands over the constants 0, 1 and 0.5 in a variable): bit patterns 0, 0x3FF0…0, 0x3FE0…0 -/
structure FloatFactsBits (fe : FEval) (ft : FT) : Prop where
  coin_assert : ∀ p : UInt64, p = 0 ∨ p = 0x3FF0000000000000 ∨ p = 0x3FE0000000000000 →
    fe.le (.lit "0") (.ofBits p) = true ∧ fe.le (.ofBits p) (.lit "1") = true
  coin0 : ∀ w : UInt64, w < thrNever → fe.le (.sub (.lit "1") (.ofBits 0)) (f01 w) = false
  coin1 : ∀ w : UInt64, w < thrNever → fe.le (.sub (.lit "1") (.ofBits 0x3FF0000000000000)) (f01 w) = true
  coinHalf : ∀ w : UInt64, w < thrNever → fe.le (.sub (.lit "1") (.ofBits 0x3FE0000000000000)) (f01 w) = decide (ft.coinHalf ≤ w)

/-! ### `flipBiasedCoin` -/

theorem bool_beq_vTrue (b : Bool) : (Val.bool b == vTrue) = b := by cases b <;> rfl

theorem tr_coin (fe : FEval) (p : FX) (thr : UInt64) (fuel : Nat) (k1 k2 : Bool → Prog)
    (ha : fe.le (.lit "0") p = true ∧ fe.le p (.lit "1") = true)
    (hc : ∀ w : UInt64, w < thrNever → fe.le (.sub (.lit "1") p) (f01 w) = decide (thr ≤ w))
    (hk : ∀ b, RunEq (k1 b) (k2 b)) :
    RunEq (Translated.flipBiasedCoin fe p fuel k1) (coin thr k2) := by
  intro src ts
  simp only [Translated.flipBiasedCoin, ha.1, ha.2, Bool.and_self, if_true, Translated.genFloat01, coin, run_draw_group,
    natOfInt_53, dec_enc_fx, bool_beq_vTrue]
  cases h : src.next 53 with
  | none => rfl
  | some r =>
    obtain ⟨u, src'⟩ := r
    have hu := next53_lt h
    have := hc u hu
    simp only [f01] at this
    simp only [coinLabel, this]
    rw [hk]

/-! ### `genUintNBiased` -/

theorem u64_toInt64_eq_ofNat (u : UInt64) : u.toInt64 = Int64.ofNat u.toNat := by
  apply Int64.toBitVec_inj.mp
  simp [Int64.ofNat, UInt64.toInt64]

theorem u64_toInt64_toInt {u : UInt64} (h : u.toNat < 2 ^ 62) : u.toInt64.toInt = u.toNat := by
  rw [u64_toInt64_eq_ofNat, i64_ofNat_toInt h]

theorem i64_gt_ofNat {a : Nat} (ha : a < 2 ^ 62) (c : Nat) (hc : c < 2 ^ 62) :
    decide (Int64.ofNat a > Int64.ofNat c) = decide (a > c) := by
  simp only [gt_iff_lt, Int64.lt_iff_toInt_lt, i64_ofNat_toInt ha, i64_ofNat_toInt hc]
  congr 1; apply propext; omega

/-- the loop: `n'` is the true geometric value + 1, `n` the model's (capped at 66) -/
theorem tr_biasedLoop (fe : FEval) (max : UInt64) (bl : Nat) (hbl : bl ≤ 65) (n' : UInt64) (n : Nat)
    (hn' : n'.toNat < 2 ^ 62) (hn : n = min n'.toNat 66)
    (k1 k2 : UInt64 → Bool → Bool → Prog) (hk : ∀ u l r, RunEq (k1 u l r) (k2 u l r)) (fuel : Nat) :
    RunEq (Translated.genUintNBiased_loop1 fe (Int64.ofNat bl) max n' k1 fuel) (uintBiasedLoop max n bl k2 fuel) := by
  have hb64 : decide (Int64.ofNat bl > (64 : Int64)) = decide (bl > 64) :=
    i64_gt_ofNat (by omega) 64 (by omega)
  have hn1 : (n' == (1 : UInt64)) = (n == 1) := by
    have : (n' == (1 : UInt64)) = decide (n'.toNat = 1) := by
      by_cases h : n' = 1
      · subst h; rfl
      · have : ¬ n'.toNat = 1 := fun h2 => h (UInt64.toNat_inj.mp h2)
        simp [h, this]
    rw [this]
    by_cases h : n'.toNat = 1 <;> simp [h, hn] <;> omega
  have hge : decide (Int64.ofNat bl ≥ n'.toInt64) = decide (bl ≥ n) := by
    simp only [ge_iff_le, Int64.le_iff_toInt_le, i64_ofNat_toInt (show bl < 2 ^ 62 by omega), u64_toInt64_toInt hn']
    congr 1; apply propext; omega
  induction fuel with
  | zero => intro src ts; rfl
  | succ fuel ih =>
    intro src ts
    simp only [Translated.genUintNBiased_loop1, uintBiasedLoop, run_draw_group, natOfInt_ofNat (show bl < 2 ^ 62 by omega),
      dec_enc_pair, dec_enc_u64, dec_enc_bool, vu_uv, hb64, hn1, hge]
    cases src.next bl with
    | none => rfl
    | some r =>
      obtain ⟨u, src'⟩ := r
      simp only [intBitsLabel, decide_eq_true_eq]
      by_cases hb : bl > 64
      · have hmm : max ≤ max := UInt64.le_refl max
        simp only [hb, if_true, hmm, decide_true, Bool.true_or]
        rw [hk]
      · by_cases h : u ≤ max
        · simp only [hb, if_false, h, if_true, decide_false, Bool.false_or, decide_true]; rw [hk]
        · simp only [hb, if_false, h, decide_false, Bool.false_or]; rw [ih]

theorem overflowAt_i64 : ∀ b : Nat, b ≤ 64 →
    (64 : Int64) - ((16 : Int64) - Int64.ofNat (biasM b)) * (4 : Int64) = Int64.ofNat (overflowAt b) := by
  decide +kernel

theorem i64_lt_ofNat {a : Nat} (ha : a < 2 ^ 62) (c : Nat) (hc : c < 2 ^ 62) :
    decide (Int64.ofNat a < Int64.ofNat c) = decide (a < c) := by
  simp only [Int64.lt_iff_toInt_lt, i64_ofNat_toInt ha, i64_ofNat_toInt hc]
  congr 1; apply propext; omega

theorem i64_ge_ofNat {a : Nat} (ha : a < 2 ^ 62) (c : Nat) (hc : c < 2 ^ 62) :
    decide (Int64.ofNat a ≥ Int64.ofNat c) = decide (a ≥ c) := by
  simp only [ge_iff_le, Int64.le_iff_toInt_le, i64_ofNat_toInt ha, i64_ofNat_toInt hc]
  congr 1; apply propext; omega

/-- the bit length chosen from the geometric value: the source's `int` arithmetic against the model's -/
theorem tr_biasedBitlen (b : Nat) (hb : b ≤ 64) (g : UInt64) (hg : g.toNat < 2 ^ 32) (mI : Int64)
    (hm : mI = Int64.ofNat (biasM b)) :
    (if decide ((g + 1).toInt64 < Int64.ofNat b) then (g + 1).toInt64
     else if (decide ((g + 1).toInt64 > Int64.ofNat b) && decide ((g + 1).toInt64 ≥ (64 : Int64) - ((16 : Int64) - mI) * (4 : Int64)))
       then (65 : Int64) else Int64.ofNat b)
      = Int64.ofNat (biasedBitlen b (min g.toNat 65 + 1)) := by
  have e1 : (g + 1).toNat = g.toNat + 1 := by
    rw [UInt64.toNat_add]; have : (1 : UInt64).toNat = 1 := rfl
    rw [this, Nat.mod_eq_of_lt (by omega)]
  have ho : overflowAt b ≤ 64 := by unfold overflowAt; omega
  rw [u64_toInt64_eq_ofNat, e1, hm, overflowAt_i64 b hb,
    i64_lt_ofNat (show g.toNat + 1 < 2 ^ 62 by omega) b (by omega),
    i64_gt_ofNat (show g.toNat + 1 < 2 ^ 62 by omega) b (by omega),
    i64_ge_ofNat (show g.toNat + 1 < 2 ^ 62 by omega) (overflowAt b) (by omega)]
  unfold biasedBitlen
  by_cases h1 : g.toNat + 1 < b
  · have h1' : min g.toNat 65 + 1 < b := by omega
    have : min g.toNat 65 + 1 = g.toNat + 1 := by omega
    simp [h1, h1', this]
  · have h1' : ¬ min g.toNat 65 + 1 < b := by omega
    by_cases h2 : g.toNat + 1 > b ∧ g.toNat + 1 ≥ overflowAt b
    · have h2' : min g.toNat 65 + 1 > b ∧ min g.toNat 65 + 1 ≥ overflowAt b := by omega
      simp only [h1, decide_false, Bool.false_eq_true, if_false, h1', h2.1, h2.2, decide_true, Bool.and_self, if_true, h2',
        and_self]
      rfl
    · have h2' : ¬ (min g.toNat 65 + 1 > b ∧ min g.toNat 65 + 1 ≥ overflowAt b) := by omega
      have h2b : (decide (g.toNat + 1 > b) && decide (g.toNat + 1 ≥ overflowAt b)) = false := by
        rw [← Bool.decide_and]; exact decide_eq_false h2
      simp only [h1, decide_false, Bool.false_eq_true, if_false, h1', h2b, h2']

theorem biasedBitlen_le {b : Nat} (hb : b ≤ 64) (n : Nat) : biasedBitlen b n ≤ 65 := by
  unfold biasedBitlen
  split
  · omega
  · split <;> omega

theorem tr_genUintNBiased (fe : FEval) (ft : FT) (H : FloatFacts fe ft) (max : UInt64) (fuel : Nat)
    (k1 k2 : UInt64 → Bool → Bool → Prog) (hk : ∀ u l r, RunEq (k1 u l r) (k2 u l r)) :
    RunEq (Translated.genUintNBiased fe max fuel k1) (uintBiased ft max fuel k2) := by
  intro src ts
  have hb := len64_le_64 max
  have ha := H.geom_assert (len64 max) hb
  have hM := H.biasM (len64 max) hb
  simp only [biasPfx, biasMfx] at ha hM
  simp only [Translated.genUintNBiased, Translated.genGeom, Translated.genFloat01, Go.len64, ha.1, ha.2, Bool.and_self, if_true,
    uintBiased, run_draw_group, natOfInt_53, dec_enc_u64]
  cases h : src.next 53 with
  | none => rfl
  | some r =>
    obtain ⟨u, src'⟩ := r
    have hu := next53_lt h
    obtain ⟨hg, hgeom⟩ := H.geom (len64 max) hb u hu
    simp only [geomfx, f01, biasPfx, biasMfx] at hg hgeom
    simp only [biasLabel, Int.toNat_natCast, ← hgeom]
    have hbl := tr_biasedBitlen (len64 max) hb _ hg _ hM
    rw [hbl]
    have e1 : ∀ g : UInt64, g.toNat < 2 ^ 32 → (g + 1).toNat = g.toNat + 1 := by
      intro g hg
      rw [UInt64.toNat_add]; have : (1 : UInt64).toNat = 1 := rfl
      rw [this, Nat.mod_eq_of_lt (by omega)]
    generalize fe.toU64 _ = g at hg hgeom hbl ⊢
    rw [tr_biasedLoop fe max _ (biasedBitlen_le hb _) (g + 1) (min g.toNat 65 + 1)
      (by rw [e1 g hg]; omega) (by rw [e1 g hg]; omega) k1 k2 hk fuel]

/-! ### `genUintN`, `genUintRange` -/

theorem tr_genUintN (fe : FEval) (ft : FT) (H : FloatFacts fe ft) (max : UInt64) (bias : Bool) (fuel : Nat)
    (k1 k2 : UInt64 → Bool → Bool → Prog) (hk : ∀ u l r, RunEq (k1 u l r) (k2 u l r)) :
    RunEq (Translated.genUintN fe max bias fuel k1) (uintN ft max bias fuel k2) := by
  cases bias with
  | true =>
    simp only [Translated.genUintN, uintN, if_true]
    exact tr_genUintNBiased fe ft H max fuel _ _ hk
  | false =>
    simp only [Translated.genUintN, uintN, Bool.false_eq_true, if_false]
    exact tr_genUintNUnbiased fe max fuel _ _ (fun u => hk u false false)

theorem tr_genUintRange (fe : FEval) (ft : FT) (H : FloatFacts fe ft) (min max : UInt64) (bias : Bool) (fuel : Nat)
    (k1 k2 : UInt64 → Bool → Bool → Prog) (hk : ∀ u l r, RunEq (k1 u l r) (k2 u l r)) :
    RunEq (Translated.genUintRange fe min max bias fuel k1) (uintRange ft min max bias fuel k2) := by
  simp only [Translated.genUintRange, uintRange, decide_eq_true_eq]
  by_cases h : min > max
  · simp only [h, if_true]; exact RunEq.refl _
  · simp only [h, if_false]
    exact tr_genUintN fe ft H (max - min) bias fuel _ _ (fun u l r => hk (min + u) l r)

/-! ### `genIntRange` (with `bias = true`, the only way the package calls it) -/

theorem tr_genIntRange (fe : FEval) (ft : FT) (H : FloatFacts fe ft) (min max : Int64) (fuel : Nat)
    (k1 k2 : Int64 → Bool → Bool → Prog) (hk : ∀ i l r, RunEq (k1 i l r) (k2 i l r)) :
    RunEq (Translated.genIntRange fe min max true fuel k1) (intRange ft min max fuel k2) := by
  simp only [Translated.genIntRange, intRange, decide_eq_true_eq, if_true]
  by_cases h : min > max
  · simp only [h, if_true]; exact RunEq.refl _
  · simp only [h, if_false]
    have hcont : ∀ (negMin posMin : UInt64) (c1 c2 : Bool) (b : Bool),
        RunEq (if b = true then
                Translated.genUintRange fe negMin (-min).toUInt64 true fuel fun u l r => k1 (-u.toInt64) r (l && c1)
              else Translated.genUintRange fe posMin max.toUInt64 true fuel fun u l r => k1 u.toInt64 (l && c2) r)
            (if b = true then
                uintRange ft negMin (-min).toUInt64 true fuel fun u l r => k2 (-u.toInt64) r (l && c1)
              else uintRange ft posMin max.toUInt64 true fuel fun u l r => k2 u.toInt64 (l && c2) r) := by
      intro negMin posMin c1 c2 b
      cases b with
      | true =>
        simp only [if_true]
        exact tr_genUintRange fe ft H _ _ true fuel _ _ (fun u l r => hk _ _ _)
      | false =>
        simp only [Bool.false_eq_true, if_false]
        exact tr_genUintRange fe ft H _ _ true fuel _ _ (fun u l r => hk _ _ _)
    by_cases h0 : min ≥ 0
    · simp only [h0, if_true]
      exact tr_coin fe (.lit "0") thrNever fuel _ _ (H.coin_assert "0" (Or.inl rfl))
        (fun w hw => by
          rw [H.coin0 w hw]
          have : ¬ thrNever ≤ w := by rw [UInt64.le_iff_toNat_le]; rw [UInt64.lt_iff_toNat_lt] at hw; omega
          simp [this])
        (hcont _ _ _ _)
    · simp only [h0, if_false]
      by_cases h1 : max ≤ 0
      · simp only [h1, if_true]
        exact tr_coin fe (.lit "1") thrAlways fuel _ _ (H.coin_assert "1" (Or.inr (Or.inl rfl)))
          (fun w hw => by
            rw [H.coin1 w hw]
            have : thrAlways ≤ w := by rw [UInt64.le_iff_toNat_le]; show 0 ≤ w.toNat; omega
            simp [this])
          (hcont _ _ _ _)
      · simp only [h1, if_false]
        exact tr_coin fe (.lit "0.5") ft.coinHalf fuel _ _ (H.coin_assert "0.5" (Or.inr (Or.inr rfl)))
          (fun w hw => H.coinHalf w hw) (hcont _ _ _ _)

/-! ### `genIndex` -/

theorem i64_pred_toUInt64 {n : Nat} (hn : 0 < n) : (Int64.ofNat n - 1).toUInt64 = UInt64.ofNat (n - 1) := by
  apply UInt64.toBitVec_inj.mp
  obtain ⟨m, rfl⟩ : ∃ m, n = m + 1 := ⟨n - 1, by omega⟩
  simp [Int64.ofNat, BitVec.ofNat_add]
  rw [BitVec.add_sub_cancel]; rfl

theorem tr_genIndex (fe : FEval) (ft : FT) (H : FloatFacts fe ft) (n : Nat) (hn : n < 2 ^ 62) (bias : Bool) (fuel : Nat)
    (k1 : Int64 → Prog) (k2 : Nat → Prog) (hk : ∀ u : UInt64, RunEq (k1 u.toInt64) (k2 u.toNat)) :
    RunEq (Translated.genIndex fe (Int64.ofNat n) bias fuel k1) (index ft n bias fuel k2) := by
  have h0 : decide (Int64.ofNat n > (0 : Int64)) = decide (n > 0) := i64_gt_ofNat hn 0 (by omega)
  simp only [Translated.genIndex, index, h0, decide_eq_true_eq]
  by_cases h : n = 0
  · subst h; simp only [Nat.lt_irrefl, if_false, if_true]; exact RunEq.refl _
  · have hp : n > 0 := by omega
    simp only [hp, if_true, h, if_false, i64_pred_toUInt64 hp]
    exact tr_genUintN fe ft H _ bias fuel _ _ (fun u _ _ => hk u)

/-! ### the contracts move along `RunEq` -/

theorem Yields.of_runEq {α : Type} {p q : (α → Prog) → Prog} {P : α → Prop} (h : ∀ k, RunEq (p k) (q k)) (hq : Yields q P) :
    Yields p P := by
  intro k src ts
  rw [h k src ts]
  exact hq k src ts

theorem ReachesVal.of_runEq {α : Type} {p q : (α → Prog) → Prog} {a : α} (h : ∀ k, RunEq (p k) (q k)) (hq : ReachesVal q a) :
    ReachesVal p a := by
  obtain ⟨ws, hw⟩ := hq
  exact ⟨ws, fun k rest ts => by rw [h k]; exact hw k rest ts⟩

/-! ### `FloatFacts` can be met: an evaluator read off the table -/

/-- an evaluator that answers the float questions of utils.go from the thresholds `ft` -/
def feOf (ft : FT) : FEval where
  toU64 x := match x with
    | .div (.call1 _ (.neg (.mul (.ofU64 w) _))) (.call1 _ (.neg (.div _ (.add (.call2 _ _ (.div (.add (.ofI64 b) _) _)) _)))) =>
        UInt64.ofNat (geomN (ft.geom b.toInt.toNat) w - 1)
    | _ => 0
  toI64 x := match x with
    | .call2 _ _ (.div (.add (.ofI64 b) _) _) => Int64.ofNat (biasM b.toInt.toNat)
    | _ => 0
  le a b := match a, b with
    | .sub _ (.lit p), .mul (.ofU64 w) _ => if p = "0" then false else if p = "1" then true else decide (ft.coinHalf ≤ w)
    | .sub _ (.ofBits p), .mul (.ofU64 w) _ =>
        if p = 0 then false else if p = 0x3FF0000000000000 then true else decide (ft.coinHalf ≤ w)
    | _, _ => true
  lt _ _ := true
  f64to32 _ := 0

theorem floatFacts_feOf (ft : FT) (hlen : ∀ b : Nat, b ≤ 64 → (ft.geom b).length ≤ 65) : FloatFacts (feOf ft) ft where
  coin_assert := by
    intro p hp
    rcases hp with rfl | rfl | rfl <;> exact ⟨rfl, rfl⟩
  coin0 := fun w _ => rfl
  coin1 := fun w _ => rfl
  coinHalf := fun w _ => rfl
  geom_assert := fun b _ => ⟨rfl, rfl⟩
  biasM := by
    intro b hb
    simp only [feOf, biasMfx, i64_ofNat_toInt (show b < 2 ^ 62 by omega), Int.toNat_natCast]
  geom := by
    intro b hb w _
    simp only [feOf, geomfx, f01, biasPfx, biasMfx, i64_ofNat_toInt (show b < 2 ^ 62 by omega), Int.toNat_natCast]
    have h1 : geomN (ft.geom b) w ≤ 66 := by
      unfold geomN
      have := List.length_filter_le (fun x => decide (x ≤ w)) (ft.geom b)
      have := hlen b hb
      omega
    have h0 : 1 ≤ geomN (ft.geom b) w := by unfold geomN; omega
    have : (UInt64.ofNat (geomN (ft.geom b) w - 1)).toNat = geomN (ft.geom b) w - 1 := by
      rw [UInt64.toNat_ofNat']; exact Nat.mod_eq_of_lt (by omega)
    rw [this]
    omega

theorem floatFactsBits_feOf (ft : FT) : FloatFactsBits (feOf ft) ft where
  coin_assert := by
    intro p hp
    rcases hp with rfl | rfl | rfl <;> exact ⟨rfl, rfl⟩
  coin0 := fun w _ => rfl
  coin1 := fun w _ => rfl
  coinHalf := fun w _ => rfl

end Rapid
