/-
  RapidProofs.PruneCustom — L-PS for `Custom` generators.

  `Custom(fn)` runs `fn` on a fresh inner `*T` (`customGen.maybeValue`), swallows invalid data and
  retries up to five times; the bits of a rejected attempt are discarded.  The pruned recording
  replays when a rejected attempt leaves nothing behind on the parent `*T`: the function must not
  signal a non-fatal failure (the known finding D8 is exactly a function that does) and its
  cleanups must neither fail nor panic.  `CustomOK` states what is needed of the function, as a
  program over the inner `*T`; `QuietProg` is a syntactic class of such programs (draws of
  generators — which may again be Custom —, branching on drawn values, Skip, panics, events,
  contexts, quiet cleanups) for which `CustomOK` is proved.
-/
import RapidProofs.PruneGen

namespace Rapid

def customEnc : Option Val → Val
  | some v => .cons v .nil
  | none => .nil

/-- one attempt of `Custom`: `maybeValue` -/
def customTry (body : Prog) : Prog := .inner (.catchInv body fun o _ => .ret (customEnc o)) .ret

theorem customTry_eq (body : Prog) (K : Option Val → Bool → Prog) (hK : ∀ o d, K o d = .ret (customEnc o)) :
    Prog.inner (.catchInv body K) .ret = customTry body := by
  have : K = fun o _ => .ret (customEnc o) := by funext o d; exact hK o d
  rw [this]; rfl

/-- what prune stability needs of a Custom function (a program over the fresh inner `*T`) -/
structure CustomOK (body : Prog) : Prop where
  /-- it is prune-stable itself -/
  ps : ∀ (src : Src) (xs : List UInt64), Good (body.run src TS.fresh) → ((body.run src TS.fresh).overran = true → xs = []) →
    Replayed (body.run src TS.fresh) (body.run (.buf ((body.run src TS.fresh).kept ++ xs)) TS.fresh) xs
  /-- its cleanups do not panic and nothing signals a non-fatal failure -/
  quiet : ∀ (src : Src), (cleanupPhase (body.run src TS.fresh).ts).err = none ∧
    (cleanupPhase (body.run src TS.fresh).ts).ts.failed = none
  /-- a call that returns and drew something keeps something -/
  keeps : ∀ (src : Src) (v : Val), (body.run src TS.fresh).res = .ok v → (body.run src TS.fresh).used ≠ [] →
    (body.run src TS.fresh).kept ≠ []

/-- the observable part of one attempt, in terms of the run of the function -/
theorem customTry_run {body : Prog} (h : CustomOK body) (src : Src) (ts : TS) :
    ((customTry body).run src ts).ts = ts ∧
    ((customTry body).run src ts).src = (body.run src TS.fresh).src ∧
    ((customTry body).run src ts).used = (body.run src TS.fresh).used ∧
    ((customTry body).run src ts).kept = (body.run src TS.fresh).kept ∧
    ((customTry body).run src ts).overran = (body.run src TS.fresh).overran ∧
    ((customTry body).run src ts).res =
      (match (body.run src TS.fresh).res with
        | .ok v => .ok (.cons v .nil)
        | .error (.invalid _) => .ok .nil
        | .error e => .error e) := by
  obtain ⟨hq1, hq2⟩ := h.quiet src
  simp only [customTry, Prog.run]
  cases hres : (body.run src TS.fresh).res with
  | ok v =>
    simp only [after_ts, Out.ofRes, hq1, hq2, after_res, customEnc]
    simp [Out.after]
  | error e =>
    cases e with
    | invalid m =>
      simp only [after_ts, Out.ofRes, hq1, hq2, after_res, customEnc]
      simp [Out.after]
    | stop m s => simp [hq1, hq2, hres]
    | panic m s => simp [hq1, hq2, hres]
    | fuel => simp [hq1, hq2, hres]

theorem tp_customTry {body : Prog} (h : CustomOK body) : TsPure (customTry body) :=
  fun src ts => (customTry_run h src ts).1

/-- an accepted attempt (or one that fails) replays from its pruned bits -/
theorem ps_customTry {body : Prog} (h : CustomOK body) (src : Src) (ts : TS) (xs : List UInt64)
    (hg : Good ((customTry body).run src ts))
    (hacc : ∀ v, ((customTry body).run src ts).res = .ok v → (v != .nil) = true)
    (ho : ((customTry body).run src ts).overran = true → xs = []) :
    Replayed ((customTry body).run src ts) ((customTry body).run (.buf (((customTry body).run src ts).kept ++ xs)) ts) xs := by
  obtain ⟨t1, s1, u1, k1, o1, r1⟩ := customTry_run h src ts
  rw [k1]
  obtain ⟨t2, s2, u2, k2, _, r2⟩ := customTry_run h (.buf ((body.run src TS.fresh).kept ++ xs)) ts
  have hgb : Good (body.run src TS.fresh) := by
    intro e he
    rw [he] at r1
    cases e with
    | invalid m => have := hacc .nil r1; simp at this
    | stop m s => exact hg _ r1
    | panic m s => exact hg _ r1
    | fuel => exact hg _ r1
  have rb := h.ps src xs hgb (by rw [← o1]; exact ho)
  exact ⟨by rw [r2, r1, rb.res], by rw [s2, rb.src], by rw [t2, t1], by rw [u2, k1, rb.used], by rw [k2, k1, rb.kept]⟩

theorem keeps_customTry {body : Prog} (h : CustomOK body) (src : Src) (ts : TS) (v : Val)
    (hres : ((customTry body).run src ts).res = .ok v) (hacc : (v != .nil) = true)
    (hu : ((customTry body).run src ts).used ≠ []) : ((customTry body).run src ts).kept ≠ [] := by
  obtain ⟨_, _, u1, k1, _, r1⟩ := customTry_run h src ts
  rw [k1]; rw [u1] at hu
  rw [hres] at r1
  cases hb : (body.run src TS.fresh).res with
  | ok w => exact h.keeps src w hb hu
  | error e =>
    rw [hb] at r1
    cases e with
    | invalid m => simp at r1; subst r1; simp at hacc
    | stop m s => simp at r1
    | panic m s => simp at r1
    | fuel => simp at r1

/-- **`Custom(fn)` is prune-stable, leaves the `*T` alone and keeps a word**, for every `fn` with `CustomOK` -/
theorem gg_findCustom {body : Prog} (h : CustomOK body) (kk : Val → Prog) (hkk : ∀ r, ∃ v, kk r = .ret v) (n : Nat) :
    GenGood (findLoop (customTry body) (fun r => r != .nil) kk n) := by
  have hk : ∀ r : Val, PS (kk r) := by
    intro r; obtain ⟨v, hv⟩ := hkk r; rw [hv]; exact ps_ret _
  have hkp : ∀ r : Val, TsPure (kk r) := by
    intro r; obtain ⟨v, hv⟩ := hkk r; rw [hv]; exact tp_ret _
  refine ⟨?_, tp_findLoop _ _ _ (tp_customTry h) hkp _, ?_⟩
  · intro src ts xs hg ho
    exact ps_findLoop' (customTry body) _ _ (fun src ts xs hg hacc ho => ps_customTry h src ts xs hg hacc ho)
      (fun src ts _ _ _ => tp_customTry h src ts) (fun src ts v hr ha hu => keeps_customTry h src ts v hr ha hu) hk
      n n (Nat.le_refl _) src ts xs hg ho
  · exact fk_findLoop' _ _ _ (fun src ts v hr ha hu => keeps_customTry h src ts v hr ha hu) _

theorem gg_custom (e : Env) (lab : Bool) {body : Prog} (h : CustomOK body) : GenGood (Gen.body e lab (.custom body)) := by
  simp only [Gen.body]
  rw [customTry_eq body _ (fun o d => by cases o <;> rfl)]
  exact gg_findCustom h _ (fun r => by cases r <;> exact ⟨_, rfl⟩) 5

/-! ### a syntactic class of Custom functions -/

/-- cleanup callbacks that neither fail nor panic -/
inductive QuietC : CTree → Prop
  | done : QuietC .done
  | emit (id : Nat) (k : CTree) : QuietC k → QuietC (.emit id k)
  | reg (c k : CTree) : QuietC c → QuietC k → QuietC (.reg c k)
  | ctx (k : CTree) : QuietC k → QuietC (.ctx k)

/-- no failure is pending and all registered cleanups are quiet -/
def QuietTS (ts : TS) : Prop := ts.failed = none ∧ ∀ c ∈ ts.cleanups, QuietC c

theorem quietC_run {c : CTree} (hc : QuietC c) : ∀ (ts : TS), QuietTS ts → (c.run ts).err = none ∧ QuietTS (c.run ts).ts := by
  induction hc with
  | done => intro ts h; exact ⟨rfl, h⟩
  | emit id k _ ih => intro ts h; simpa [CTree.run] using ih ts h
  | reg c k hc _ _ ih =>
    intro ts h
    simp only [CTree.run]
    refine ih { ts with cleanups := c :: ts.cleanups } ⟨h.1, fun x hx => by
      rcases List.mem_cons.mp hx with rfl | hx
      · exact hc
      · exact h.2 x hx⟩
  | ctx k _ ih =>
    intro ts h
    simpa [CTree.run] using ih { ts with ctxCount := ts.ctxCount + 1 } h

theorem runStack_quiet : ∀ (fuel : Nat) (ts : TS), QuietTS ts →
    (runStack fuel ts).err = none ∧ (runStack fuel ts).ts.failed = none := by
  intro fuel
  induction fuel with
  | zero => intro ts h; exact ⟨rfl, h.1⟩
  | succ n ih =>
    intro ts h
    simp only [runStack]
    cases hc : ts.cleanups with
    | nil => exact ⟨rfl, h.1⟩
    | cons c rest =>
      simp only []
      have hq : QuietTS { ts with cleanups := rest } := ⟨h.1, fun x hx => h.2 x (by rw [hc]; exact List.mem_cons_of_mem _ hx)⟩
      have hcq : QuietC c := h.2 c (by rw [hc]; exact List.mem_cons_self)
      obtain ⟨h1, h2⟩ := quietC_run hcq _ hq
      obtain ⟨h3, h4⟩ := ih _ h2
      exact ⟨by rw [h3, h1]; rfl, h4⟩

theorem cleanupPhase_quiet {ts : TS} (h : QuietTS ts) : (cleanupPhase ts).err = none ∧ (cleanupPhase ts).ts.failed = none := by
  simp only [cleanupPhase]
  cases hc : ts.ctx with
  | none => exact runStack_quiet _ ts h
  | some id => exact runStack_quiet _ { ts with ctx := none } h

/-- Custom functions: draws of generators that satisfy `G`, branching on what was drawn, Skip,
    panics, events, contexts, quiet cleanups — and no `T.Error*/Fatal*` -/
inductive QuietProgOver (e : Env) (G : Gen → Prop) : Prog → Prop
  | ret (v : Val) : QuietProgOver e G (.ret v)
  | skip (m : String) : QuietProgOver e G (.throw (.invalid m))
  | panic (m : String) (s : Nat) : QuietProgOver e G (.throw (.panic m s))
  | draw (g : Gen) (k : Val → Prog) : G g → (∀ v, QuietProgOver e G (k v)) → QuietProgOver e G (g.draw e k)
  | emit (id : Nat) (k : Prog) : QuietProgOver e G k → QuietProgOver e G (.emit id k)
  | ctx (k : Prog) : QuietProgOver e G k → QuietProgOver e G (.ctx k)
  | cleanup (c : CTree) (k : Prog) : QuietC c → QuietProgOver e G k → QuietProgOver e G (.cleanup c k)

section
variable {e : Env} {G : Gen → Prop} (hG : ∀ g, G g → GenGood (g.value e))
include hG

theorem quietProg_ps {p : Prog} (h : QuietProgOver e G p) : PS p := by
  induction h with
  | ret v => exact ps_ret v
  | skip m => exact ps_throw _
  | panic m s => exact ps_throw _
  | draw g k hg _ ih => exact ps_bind _ _ (hG g hg).ps (fun v => ps_tick _ (ih v))
  | emit id k _ ih => exact ps_emit id k ih
  | ctx k _ ih => exact ps_ctx k ih
  | cleanup c k _ _ ih => exact ps_cleanup c k ih

theorem quietProg_ts {p : Prog} (h : QuietProgOver e G p) : ∀ (src : Src) (ts : TS), QuietTS ts → QuietTS (p.run src ts).ts := by
  induction h with
  | ret v => intro src ts h; exact h
  | skip m => intro src ts h; exact h
  | panic m s => intro src ts h; exact h
  | draw g k hg _ ih =>
    intro src ts h
    have hp := (hG g hg).pure src ts
    simp only [Gen.draw, run_bind, Out.andThen]
    change QuietTS (match ((g.value e).run src ts).res with
      | .ok v => (((Prog.tick (k v)).run ((g.value e).run src ts).src ((g.value e).run src ts).ts).after _ _ _ _ _)
      | .error _ => (g.value e).run src ts).ts
    cases (g.value e).run src ts |>.res with
    | error er => simpa [hp] using h
    | ok v =>
      simp only [after_ts, Prog.run, hp]
      exact ih v _ _ h
  | emit id k _ ih => intro src ts h; simpa [Prog.run] using ih src ts h
  | ctx k _ ih =>
    intro src ts h
    simp only [Prog.run]
    cases ts.ctx with
    | some id => simpa using ih src ts h
    | none => simpa using ih src { ts with ctx := some ts.ctxCount, ctxCount := ts.ctxCount + 1 } h
  | cleanup c k hc _ ih =>
    intro src ts h
    simp only [Prog.run]
    refine ih src { ts with cleanups := c :: ts.cleanups } ⟨h.1, fun x hx => by
      rcases List.mem_cons.mp hx with rfl | hx
      · exact hc
      · exact h.2 x hx⟩

theorem quietProg_keeps {p : Prog} (h : QuietProgOver e G p) : KeepsSome p := by
  induction h with
  | ret v => intro src ts w _ hu; simp [Prog.run, Out.ofRes] at hu
  | skip m => intro src ts w hr; simp [Prog.run, Out.ofRes] at hr
  | panic m s => intro src ts w hr; simp [Prog.run, Out.ofRes] at hr
  | draw g k hg _ ih =>
    intro src ts w hr _
    have hfk := (hG g hg).fk src ts
    simp only [Gen.draw, run_bind, Out.andThen] at hr ⊢
    change (match ((g.value e).run src ts).res with
      | .ok v => (((Prog.tick (k v)).run ((g.value e).run src ts).src ((g.value e).run src ts).ts).after _ _ _ _ _)
      | .error _ => (g.value e).run src ts).kept ≠ []
    change (match ((g.value e).run src ts).res with
      | .ok v => (((Prog.tick (k v)).run ((g.value e).run src ts).src ((g.value e).run src ts).ts).after _ _ _ _ _)
      | .error _ => (g.value e).run src ts).res = .ok w at hr
    cases hres : ((g.value e).run src ts).res with
    | error er => rw [hres] at hr; simp only [] at hr; rw [hres] at hr; cases hr
    | ok v =>
      simp only [after_kept]
      intro hnil
      exact hfk v hres (List.append_eq_nil_iff.mp hnil).1
  | emit id k _ ih => intro src ts w hr hu; simpa [Prog.run] using ih src ts w (by simpa [Prog.run] using hr) (by simpa [Prog.run] using hu)
  | ctx k _ ih =>
    intro src ts w hr hu
    simp only [Prog.run] at hr hu ⊢
    cases hc : ts.ctx with
    | some id => simp only [hc] at hr hu ⊢; simpa using ih src ts w (by simpa using hr) (by simpa using hu)
    | none => simp only [hc] at hr hu ⊢; simpa using ih src _ w (by simpa using hr) (by simpa using hu)
  | cleanup c k _ _ ih => intro src ts w hr hu; simpa [Prog.run] using ih src _ w (by simpa [Prog.run] using hr) (by simpa [Prog.run] using hu)

/-- **every such Custom function satisfies `CustomOK`** -/
theorem customOK_of_quiet {p : Prog} (h : QuietProgOver e G p) : CustomOK p where
  ps := fun src xs hg ho => quietProg_ps hG h src TS.fresh xs hg ho
  quiet := fun src => cleanupPhase_quiet (quietProg_ts hG h src TS.fresh ⟨rfl, fun _ hx => by simp [TS.fresh] at hx⟩)
  keeps := fun src v hr hu => quietProg_keeps hG h src TS.fresh v hr hu

end

/-! ### nesting: Custom functions that draw from Custom generators, to any depth -/

/-- generator expressions whose Custom functions are quiet programs drawing from generators of
    the level below -/
def GenLvl (e : Env) : Nat → Gen → Prop
  | 0 => fun g => g.NoCustom
  | d+1 => fun g => g.CustomsIn (QuietProgOver e (GenLvl e d))

/-- **L-PS for generators with Custom functions nested to any depth** -/
theorem genLvl_good (e : Env) (hrt : RTPos e) : ∀ (d : Nat) (g : Gen) (lab : Bool), GenLvl e d g → GenGood (g.body e lab) := by
  intro d
  induction d with
  | zero => intro g lab h; exact gen_good e hrt g lab h
  | succ d ih =>
    intro g lab h
    exact gen_goodB e hrt _ (fun body lab hb => gg_custom e lab (customOK_of_quiet (fun g hg => gg_value _ (ih g _ hg)) hb)) g lab h

theorem genLvl_value_good (e : Env) (hrt : RTPos e) (d : Nat) (g : Gen) (h : GenLvl e d g) : GenGood (g.value e) :=
  gg_value _ (genLvl_good e hrt d g _ h)

/-- property functions that draw from such generators -/
inductive PropProgC (e : Env) (d : Nat) : Prog → Prop
  | ret (v : Val) : PropProgC e d (.ret v)
  | throw (er : Err) : PropProgC e d (.throw er)
  | draw (g : Gen) (k : Val → Prog) : GenLvl e d g → (∀ v, PropProgC e d (k v)) → PropProgC e d (g.draw e k)
  | errorf (m : String) (k : Prog) : PropProgC e d k → PropProgC e d (.errorf m k)
  | emit (id : Nat) (k : Prog) : PropProgC e d k → PropProgC e d (.emit id k)
  | cleanup (c : CTree) (k : Prog) : PropProgC e d k → PropProgC e d (.cleanup c k)
  | ctx (k : Prog) : PropProgC e d k → PropProgC e d (.ctx k)
  | failOnError (site : Nat) (k : Prog) : PropProgC e d k → PropProgC e d (.failOnError site k)

/-- **L-PS for property functions over generators with (quiet) Custom functions** -/
theorem propProgC_ps (e : Env) (hrt : RTPos e) {d : Nat} {p : Prog} (h : PropProgC e d p) : PS p := by
  induction h with
  | ret v => exact ps_ret v
  | throw er => exact ps_throw er
  | draw g k hg _ ih => exact ps_bind _ _ (genLvl_value_good e hrt d g hg).ps (fun v => ps_tick _ (ih v))
  | errorf m k _ ih => exact ps_errorf m k ih
  | emit id k _ ih => exact ps_emit id k ih
  | cleanup c k _ ih => exact ps_cleanup c k ih
  | ctx k _ ih => exact ps_ctx k ih
  | failOnError site k _ ih => exact ps_failOnError site k ih

end Rapid
