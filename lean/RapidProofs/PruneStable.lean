/-
  RapidProofs.PruneStable — L-PS: replaying the PRUNED recording of a run (the recorded words
  minus every finished discarded group) reproduces the run: same value or failure, same
  `*T`, consumes exactly the pruned words, and nothing is left to prune.

  `PS p` is stated for runs that end in a value or a failure ("Good": not invalid data), for
  every source, followed by any extra words `xs` (`xs = []` if the run overran the buffer).
-/
import RapidProofs.Overrun
import RapidProofs.Bind

namespace Rapid

/-- the run ended in a value or a failure: not in invalid data (and not in the model's
    out-of-fuel artefact) -/
def Good (o : Out) : Prop := ∀ e, o.res = .error e → e.isInvalid = false ∧ e ≠ .fuel

theorem good_of_res {o o' : Out} (h : o'.res = o.res) (hg : Good o) : Good o' := by
  intro e he; exact hg e (by rw [← h]; exact he)

theorem good_ok {o : Out} {v : Val} (h : o.res = .ok v) : Good o := by
  intro e he; rw [h] at he; cases he

theorem not_good_invalid {o : Out} {m : String} (h : o.res = .error (.invalid m)) : ¬ Good o := by
  intro hg; have := (hg _ h).1; simp [Err.isInvalid] at this

theorem not_good_fuel {o : Out} (h : o.res = .error .fuel) : ¬ Good o := by
  intro hg; exact (hg _ h).2 rfl

structure Replayed (o o' : Out) (xs : List UInt64) : Prop where
  res : o'.res = o.res
  src : o'.src = .buf xs
  ts : o'.ts = o.ts
  used : o'.used = o.kept
  kept : o'.kept = o.kept

def PS (p : Prog) : Prop :=
  ∀ (src : Src) (ts : TS) (xs : List UInt64), Good (p.run src ts) → ((p.run src ts).overran = true → xs = []) →
    Replayed (p.run src ts) (p.run (.buf ((p.run src ts).kept ++ xs)) ts) xs

/-- the `*T` is not touched (generators; rejected attempts must be like this) -/
def TsPure (p : Prog) : Prop := ∀ (src : Src) (ts : TS), (p.run src ts).ts = ts

/-- a successful run that recorded something also keeps something (needed by `endGroup`'s
    "group did not use any data" assertion on the pruned replay) -/
def KeepsSome (p : Prog) : Prop :=
  ∀ (src : Src) (ts : TS) (v : Val), (p.run src ts).res = .ok v → (p.run src ts).used ≠ [] → (p.run src ts).kept ≠ []

theorem good_after {o : Out} {u k : List UInt64} {t : List Tok} {e : List Ev} {ov : Bool}
    (h : Good (o.after u k t e ov)) : Good o := good_of_res (by simp) h

theorem ps_ret (v : Val) : PS (.ret v) := by
  intro src ts xs _ _
  simp only [Prog.run, Out.ofRes, List.nil_append]
  exact ⟨rfl, rfl, rfl, rfl, rfl⟩

theorem ps_throw (e : Err) : PS (.throw e) := by
  intro src ts xs _ _
  simp only [Prog.run, Out.ofRes, List.nil_append]
  exact ⟨rfl, rfl, rfl, rfl, rfl⟩

theorem ps_draw (n : Nat) (k : UInt64 → Prog) (ih : ∀ u, PS (k u)) : PS (.draw n k) := by
  intro src ts xs hg ho
  cases hn : src.next n with
  | none => exact absurd hg (not_good_invalid (m := "overrun") (by simp [Prog.run, hn, Out.ofRes]))
  | some r =>
    obtain ⟨u, src'⟩ := r
    simp only [Prog.run, hn] at hg ho ⊢
    simp only [after_kept, List.singleton_append, List.cons_append]
    rw [buf_next_cons (next_masked hn)]
    simp only []
    have := ih u src' ts xs (good_after hg) (by simpa using ho)
    exact ⟨by simpa using this.res, by simpa using this.src, by simpa using this.ts,
      by simp [this.used], by simp [this.kept]⟩

/-- sequencing of two prune-stable parts; the first one described by its `Out` -/
theorem replayed_seq {o o2 r1 r2 : Out} {xs : List UInt64} {kept1 : List UInt64} {t t' : List Tok} {e e' : List Ev} {ov ov' : Bool}
    (_h1res : r1.res = o.res) (h1used : r1.used = kept1) (h1kept : r1.kept = kept1)
    (h2 : Replayed o2 r2 xs) :
    Replayed (o2.after o.used kept1 t e ov) (r2.after r1.used r1.kept t' e' ov') xs :=
  ⟨by simpa using h2.res, by simpa using h2.src, by simpa using h2.ts,
   by simp [h1used, h2.used], by simp [h1kept, h2.kept]⟩

/-- a group that is never discarded -/
theorem ps_group_keep (l : String) (s : Bool) (b : Prog) (k : Val → Prog)
    (hb : PS b) (hk : ∀ v, PS (k v)) (hne : KeepsSome b) : PS (.group l s b (fun _ => false) k) := by
  intro src ts xs hg ho
  simp only [Prog.run] at hg ho ⊢
  cases hres : (b.run src ts).res with
  | error e =>
    simp only [hres] at hg ho ⊢
    have hgb : Good (b.run src ts) := good_of_res (by simp [hres]) hg
    have := hb src ts xs hgb ho
    rw [this.res, hres]
    exact ⟨by simp [hres], this.src, this.ts, this.used, this.kept⟩
  | ok v =>
    simp only [hres, Bool.not_false, Bool.true_and, Bool.false_eq_true, if_false] at hg ho ⊢
    have hgb : Good (b.run src ts) := good_ok hres
    by_cases hu : (b.run src ts).used.isEmpty = true
    · -- the assertion fires in the original run; nothing was recorded, nothing is replayed
      simp only [hu, if_true] at hg ho ⊢
      have hk0 : (b.run src ts).kept = [] := by
        have hsub := kept_sublist b src ts
        rw [List.isEmpty_iff.mp hu] at hsub
        exact List.eq_nil_of_sublist_nil hsub
      have r := hb src ts xs hgb ho
      simp only [hk0, List.nil_append] at r ⊢
      have hu' : (b.run (.buf xs) ts).used.isEmpty = true := by rw [r.used, hk0]; rfl
      rw [r.res, hres]
      simp only [hu', if_true]
      exact ⟨rfl, r.src, r.ts, r.used.trans hk0, r.kept.trans hk0⟩
    · simp only [hu, if_false, Bool.false_eq_true] at hg ho ⊢
      simp only [after_overran, Bool.or_eq_true] at ho
      have hne' : (b.run src ts).kept ≠ [] := hne src ts v hres (by simpa [List.isEmpty_iff] using hu)
      have ho1 : (b.run src ts).overran = true → ((k v).run (b.run src ts).src (b.run src ts).ts).kept ++ xs = [] := by
        intro h
        have hs := overran_src b src ts h
        have := run_empty (k v) (b.run src ts).ts
        rw [hs, this.2.1, ho (Or.inl h)]; rfl
      have r1 := hb src ts (((k v).run (b.run src ts).src (b.run src ts).ts).kept ++ xs) hgb ho1
      simp only [after_kept, List.append_assoc]
      rw [r1.res, hres]
      have hu1 : ¬ (b.run (.buf ((b.run src ts).kept ++ (((k v).run (b.run src ts).src (b.run src ts).ts).kept ++ xs))) ts).used.isEmpty = true := by
        rw [r1.used]; simpa [List.isEmpty_iff] using hne'
      simp only [hu1, if_false, Bool.false_eq_true]
      rw [r1.src, r1.ts]
      have r2 := hk v (b.run src ts).src (b.run src ts).ts xs (good_after hg) (fun h => ho (Or.inr h))
      exact replayed_seq r1.res r1.used r1.kept r2

theorem ps_bind (p : Prog) (f : Val → Prog) (hp : PS p) (hf : ∀ v, PS (f v)) : PS (p >>- f) := by
  intro src ts xs hg ho
  simp only [run_bind] at hg ho ⊢
  simp only [Out.andThen] at hg ho ⊢
  cases hres : (p.run src ts).res with
  | error e =>
    simp only [hres] at hg ho ⊢
    have r := hp src ts xs (good_of_res (by simp [hres]) hg) ho
    simp only [Out.andThen, r.res, hres]
    exact ⟨by rw [r.res, hres], r.src, r.ts, r.used, r.kept⟩
  | ok v =>
    simp only [hres] at hg ho ⊢
    simp only [after_overran, Bool.or_eq_true] at ho
    have hgp : Good (p.run src ts) := good_ok hres
    have ho1 : (p.run src ts).overran = true → ((f v).run (p.run src ts).src (p.run src ts).ts).kept ++ xs = [] := by
      intro h
      have hs := overran_src p src ts h
      have := run_empty (f v) (p.run src ts).ts
      rw [hs, this.2.1, ho (Or.inl h)]; rfl
    have r1 := hp src ts (((f v).run (p.run src ts).src (p.run src ts).ts).kept ++ xs) hgp ho1
    simp only [after_kept, List.append_assoc]
    simp only [Out.andThen, r1.res, hres, r1.src, r1.ts]
    have r2 := hf v (p.run src ts).src (p.run src ts).ts xs (good_after hg) (fun h => ho (Or.inr h))
    exact replayed_seq r1.res r1.used r1.kept r2

theorem ps_errorf (m : String) (k : Prog) (hk : PS k) : PS (.errorf m k) := by
  intro src ts xs hg ho
  simp only [Prog.run] at hg ho ⊢
  have r := hk src _ xs (good_after hg) (by simpa using ho)
  simp only [after_kept, List.nil_append]
  exact ⟨by simpa using r.res, by simpa using r.src, by simpa using r.ts, by simpa using r.used, by simpa using r.kept⟩

theorem ps_emit (id : Nat) (k : Prog) (hk : PS k) : PS (.emit id k) := by
  intro src ts xs hg ho
  simp only [Prog.run] at hg ho ⊢
  have r := hk src _ xs (good_after hg) (by simpa using ho)
  simp only [after_kept, List.nil_append]
  exact ⟨by simpa using r.res, by simpa using r.src, by simpa using r.ts, by simpa using r.used, by simpa using r.kept⟩

theorem ps_tick (k : Prog) (hk : PS k) : PS (.tick k) := by
  intro src ts xs hg ho; simp only [Prog.run] at hg ho ⊢; exact hk src _ xs hg ho

theorem ps_cleanup (c : CTree) (k : Prog) (hk : PS k) : PS (.cleanup c k) := by
  intro src ts xs hg ho; simp only [Prog.run] at hg ho ⊢; exact hk src _ xs hg ho

theorem ps_failOnError (site : Nat) (k : Prog) (hk : PS k) : PS (.failOnError site k) := by
  intro src ts xs hg ho
  simp only [Prog.run] at hg ho ⊢
  cases hf : ts.failed with
  | some m => simp only [Out.ofRes, List.nil_append]; exact ⟨rfl, rfl, rfl, rfl, rfl⟩
  | none => simp only [hf] at hg ho ⊢; exact hk src ts xs hg ho

theorem ps_ctx (k : Prog) (hk : PS k) : PS (.ctx k) := by
  intro src ts xs hg ho
  simp only [Prog.run] at hg ho ⊢
  cases hc : ts.ctx with
  | some id =>
    simp only [hc] at hg ho ⊢
    have r := hk src _ xs (good_after hg) (by simpa using ho)
    simp only [after_kept, List.nil_append]
    exact ⟨by simpa using r.res, by simpa using r.src, by simpa using r.ts, by simpa using r.used, by simpa using r.kept⟩
  | none =>
    simp only [hc] at hg ho ⊢
    have r := hk src _ xs (good_after hg) (by simpa using ho)
    simp only [after_kept, List.nil_append]
    exact ⟨by simpa using r.res, by simpa using r.src, by simpa using r.ts, by simpa using r.used, by simpa using r.kept⟩

end Rapid
