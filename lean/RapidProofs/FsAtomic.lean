/-
  RapidProofs.FsAtomic — every prefix of the file-system operations of `saveFailFile` leaves
  every path other than the temporary one either untouched or — the final name only —
  holding the complete content.
-/
import RapidModel.Persist

namespace Rapid

theorem fs_get_set_same (fs : Fs) (p : String) (d : Bytes) : (fs.set p d).get p = some d := by
  simp [Fs.get, Fs.set]

theorem fs_find_filter_ne (fs : Fs) (p q : String) (h : q ≠ p) :
    (fs.filter (fun x => x.1 != p)).find? (fun x => x.1 == q) = fs.find? (fun x => x.1 == q) := by
  induction fs with
  | nil => rfl
  | cons x xs ih =>
    simp only [List.filter_cons]
    by_cases hx : x.1 = p
    · have h1 : (x.1 != p) = false := by simp [hx]
      have h2 : (x.1 == q) = false := by simp [hx]; exact fun e => h e.symm
      simp only [h1, Bool.false_eq_true, if_false, List.find?_cons, h2]; exact ih
    · have h1 : (x.1 != p) = true := by simp [hx]
      simp only [h1, if_true, List.find?_cons]
      cases hq : (x.1 == q) <;> simp [ih]

theorem fs_get_set_ne (fs : Fs) (p q : String) (d : Bytes) (h : q ≠ p) : (fs.set p d).get q = fs.get q := by
  simp only [Fs.get, Fs.set, List.find?]
  have : ((p, d).1 == q) = false := by simp; exact fun e => h e.symm
  simp only [this]
  rw [fs_find_filter_ne fs p q h]

theorem fs_get_del_ne (fs : Fs) (p q : String) (h : q ≠ p) : (fs.del p).get q = fs.get q := by
  simp only [Fs.get, Fs.del]
  rw [fs_find_filter_ne fs p q h]

theorem fs_get_del_same (fs : Fs) (p : String) : (fs.del p).get p = none := by
  simp only [Fs.get, Fs.del]
  induction fs with
  | nil => rfl
  | cons x xs ih =>
    simp only [List.filter_cons]
    by_cases hx : x.1 = p
    · have h1 : (x.1 != p) = false := by simp [hx]
      simp only [h1, Bool.false_eq_true, if_false]; exact ih
    · have h1 : (x.1 != p) = true := by simp [hx]
      have h2 : (x.1 == p) = false := by simp [hx]
      simp only [h1, if_true, List.find?_cons, h2]; exact ih

/-- the file system as seen through `get` after writing `content` so far to `tmp` -/
def Staged (fs0 fs : Fs) (tmp : String) (content : Bytes) : Prop :=
  fs.get tmp = some content ∧ ∀ q, q ≠ tmp → fs.get q = fs0.get q

theorem applyOps_append (fs : Fs) (a b : List FsOp) : applyOps fs (a ++ b) = applyOps (applyOps fs a) b := by
  simp [applyOps, List.foldl_append]

theorem staged_writes (fs0 : Fs) (tmp : String) : ∀ (chunks : List Bytes) (fs : Fs) (c : Bytes),
    Staged fs0 fs tmp c → Staged fs0 (applyOps fs (chunks.map (.write tmp))) tmp (c ++ chunks.flatten) := by
  intro chunks
  induction chunks with
  | nil => intro fs c h; simpa [applyOps] using h
  | cons d ds ih =>
    intro fs c h
    simp only [List.map, applyOps, List.foldl] at ih ⊢
    have h' : Staged fs0 (FsOp.apply fs (.write tmp d)) tmp (c ++ d) := by
      simp only [FsOp.apply, h.1]
      exact ⟨fs_get_set_same _ _ _, fun q hq => by rw [fs_get_set_ne _ _ _ _ hq]; exact h.2 q hq⟩
    have := ih _ _ h'
    simpa [List.flatten, List.append_assoc] using this

/-- what a later run can see at a path other than the temporary one -/
def SafeAt (fs0 fs : Fs) (final : String) (content : Bytes) (q : String) : Prop :=
  fs.get q = fs0.get q ∨ (q = final ∧ fs.get q = some content)

/-- **crash atomicity**: after ANY prefix of the operations of `saveFailFile` (a kill before
    each system call), every path except the temporary file is untouched, or is the final
    name holding the complete content. -/
theorem save_prefix_safe (fs0 : Fs) (dir tmp final : String) (chunks : List Bytes)
    (hfresh : fs0.get tmp = none) (hne : final ≠ tmp) :
    ∀ (pre post : List FsOp), saveOps dir tmp final chunks = pre ++ post →
      ∀ q, q ≠ tmp → SafeAt fs0 (applyOps fs0 pre) final chunks.flatten q := by
  intro pre post hsplit q hq
  -- the states the operation list goes through
  have s1 : applyOps fs0 [.mkdirAll dir] = fs0 := rfl
  have s2 : Staged fs0 (applyOps fs0 [.mkdirAll dir, .createExcl tmp]) tmp [] := by
    simp only [applyOps, List.foldl, FsOp.apply, hfresh, Option.isSome_none, Bool.false_eq_true, if_false]
    exact ⟨fs_get_set_same _ _ _, fun q hq => fs_get_set_ne _ _ _ _ hq⟩
  -- every prefix is a prefix of one of the phases; enumerate by where the split falls
  have hall : ∀ (l : List Bytes) (fs : Fs) (c : Bytes), Staged fs0 fs tmp c →
      ∀ pre' post', (l.map (.write tmp)) ++ [FsOp.close tmp, .rename tmp final, .remove tmp] = pre' ++ post' →
      c ++ l.flatten = chunks.flatten →
      SafeAt fs0 (applyOps fs pre') final chunks.flatten q := by
    intro l
    induction l with
    | nil =>
      intro fs c hst pre' post' hs hc
      simp only [List.map, List.nil_append, List.flatten, List.append_nil] at hs hc
      subst hc
      -- pre' is a prefix of [close, rename, remove]
      match pre', hs with
      | [], _ => exact Or.inl (hst.2 q hq)
      | [a], hs =>
        simp only [List.cons_append, List.nil_append, List.cons.injEq] at hs
        rw [← hs.1]; exact Or.inl (hst.2 q hq)
      | [a, b], hs =>
        simp only [List.cons_append, List.nil_append, List.cons.injEq] at hs
        rw [← hs.1, ← hs.2.1]
        simp only [applyOps, List.foldl, FsOp.apply, hst.1]
        by_cases hqf : q = final
        · subst hqf; exact Or.inr ⟨rfl, fs_get_set_same _ _ _⟩
        · left; rw [fs_get_set_ne _ _ _ _ hqf, fs_get_del_ne _ _ _ hq]; exact hst.2 q hq
      | a :: b :: c' :: rest, hs =>
        simp only [List.cons_append, List.cons.injEq] at hs
        obtain ⟨ha, hb, hc', hrest⟩ := hs
        have hr : rest = [] := by
          cases rest with
          | nil => rfl
          | cons x xs => simp at hrest
        subst hr
        rw [← ha, ← hb, ← hc']
        simp only [applyOps, List.foldl, FsOp.apply, hst.1]
        by_cases hqf : q = final
        · subst hqf; right
          exact ⟨rfl, by rw [fs_get_del_ne _ _ _ hq]; exact fs_get_set_same _ _ _⟩
        · left
          rw [fs_get_del_ne _ _ _ hq, fs_get_set_ne _ _ _ _ hqf, fs_get_del_ne _ _ _ hq]; exact hst.2 q hq
    | cons d ds ih =>
      intro fs c hst pre' post' hs hc
      cases pre' with
      | nil => exact Or.inl (hst.2 q hq)
      | cons a pre'' =>
        simp only [List.map, List.cons_append, List.cons.injEq] at hs
        obtain ⟨ha, hs'⟩ := hs
        subst ha
        have h' : Staged fs0 (FsOp.apply fs (.write tmp d)) tmp (c ++ d) := by
          simp only [FsOp.apply, hst.1]
          exact ⟨fs_get_set_same _ _ _, fun q hq => by rw [fs_get_set_ne _ _ _ _ hq]; exact hst.2 q hq⟩
        have := ih _ _ h' pre'' post' hs' (by simpa [List.flatten, List.append_assoc] using hc)
        simpa [applyOps, List.foldl] using this
  -- split of the whole list
  simp only [saveOps] at hsplit
  match pre, hsplit with
  | [], _ => exact Or.inl rfl
  | [a], hs =>
    simp only [List.cons_append, List.nil_append, List.cons.injEq] at hs
    rw [← hs.1]; exact Or.inl rfl
  | a :: b :: pre', hs =>
    simp only [List.cons_append, List.nil_append, List.cons.injEq, List.append_assoc] at hs
    obtain ⟨ha, hb, hrest⟩ := hs
    subst ha hb
    have := hall chunks _ [] s2 pre' post hrest (by simp)
    simpa [applyOps, List.foldl] using this

/-- the temporary name is never picked up: a name produced from `.rapid-failfile-tmp-*` does
    not end in `.fail` when the random suffix is made of digits -/
theorem tmp_not_matched (pre suf : List Nat) (name : List Nat) (hs : suf ≠ [])
    (hlast : name.getLast? ≠ suf.getLast?) : starMatch pre suf name = false := by
  simp only [starMatch, Bool.and_eq_false_iff]
  left; left; right
  -- a list with a different last element does not have `suf` as a suffix
  rw [Bool.eq_false_iff]
  intro h
  rw [List.isSuffixOf_iff_suffix] at h
  obtain ⟨t, ht⟩ := h
  subst ht
  apply hlast
  rw [List.getLast?_append]
  cases hsl : suf.getLast? with
  | none => exact absurd (List.getLast?_eq_none_iff.mp hsl) hs
  | some x => rfl

end Rapid
