/-
  RapidProofs.PassFix — what it means that the shrinker stopped by itself.  A pass that ends
  without an accepted candidate asked `accept` about a definite list of candidates and every
  one of them was rejected.  For `minimizeBlocks` that list contains, for every block, the
  block lowered by one; for `removeGroups`, the data without each standalone group.  So when a
  round makes no progress, no block can be lowered by one and no collection element dropped
  without losing the failure — for monotone (threshold) conditions that is the exact boundary.
-/
import RapidProofs.PassRefine
import RapidProofs.MinimizeExact

namespace Rapid

/-- run a script against a shrinker that rejects everything and never changes: the result
    (`none`: the script hit `oob`) and the candidates it tried, in order -/
def Script.runF {α : Type} (v : View) : Script α → Option α × List (List UInt64)
  | .ret a => (some a, [])
  | .get k => (k v).runF v
  | .try_ buf k => let r := (k false).runF v; (r.1, buf :: r.2)
  | .oob => (none, [])

theorem runF_bind {α β : Type} (v : View) (x : Script α) (f : α → Script β) :
    (x.bind f).runF v =
      match x.runF v with
      | (some a, l) => (((f a).runF v).1, l ++ ((f a).runF v).2)
      | (none, l) => (none, l) := by
  induction x with
  | ret a => simp [Script.bind, Script.runF]
  | get k ih => simp only [Script.bind, Script.runF]; exact ih v
  | try_ buf k ih =>
    simp only [Script.bind, Script.runF]
    rw [ih false]
    cases h : (k false).runF v with
    | mk o l => cases o <;> simp
  | oob => simp [Script.bind, Script.runF]

/-! ### a run without progress is the all-false run -/

theorem accept_shrinks (p : Prog) (s s' : SS) (buf : List UInt64) (b : Bool) (h : s.accept p buf = .ok (b, s')) :
    (b = false → s'.shrinks = s.shrinks ∧ s'.rc = s.rc ∧ s'.err = s.err) ∧ (b = true → s'.shrinks = s.shrinks + 1) := by
  simp only [SS.accept] at h
  split at h
  · simp only [Except.ok.injEq, Prod.mk.injEq] at h; obtain ⟨rfl, rfl⟩ := h; simp
  · split at h
    · simp only [Except.ok.injEq, Prod.mk.injEq] at h; obtain ⟨rfl, rfl⟩ := h; simp
    · split at h
      · simp only [Except.ok.injEq, Prod.mk.injEq] at h; obtain ⟨rfl, rfl⟩ := h; simp
      · split at h
        · cases h
        · split at h
          · cases h
          · split at h
            · cases h
            · simp only [Except.ok.injEq, Prod.mk.injEq] at h; obtain ⟨rfl, rfl⟩ := h; simp

theorem run_shrinks_mono (p : Prog) {α : Type} : ∀ (sc : Script α) (s s' : SS) (a : α),
    sc.run p s = .ok (a, s') → s.shrinks ≤ s'.shrinks := by
  intro sc
  induction sc with
  | ret a => intro s s' a' h; simp only [Script.run, Except.ok.injEq, Prod.mk.injEq] at h; rw [← h.2]; exact Nat.le_refl _
  | get k ih => intro s s' a h; simp only [Script.run] at h; exact ih _ s s' a h
  | oob => intro s s' a h; simp [Script.run] at h
  | try_ buf k ih =>
    intro s s' a h
    simp only [Script.run] at h
    cases ha : s.accept p buf with
    | error e => simp [ha] at h
    | ok r =>
      obtain ⟨b, s1⟩ := r
      simp only [ha] at h
      have h1 := accept_shrinks p s s1 buf b ha
      have h2 := ih b s1 s' a h
      cases b
      · have := (h1.1 rfl).1; omega
      · have := h1.2 rfl; omega

/-- the cache only holds candidates that fail differently (or not at all) -/
def CacheOK (p : Prog) (s : SS) : Prop :=
  ∀ buf ∈ s.cache, tbKey (checkOnce p (.buf buf) TS.fresh).err ≠ tbKey s.err

/-- every candidate of the list was tried on a state with the recording and error of `s` and
    was rejected there -/
def AllRejected (p : Prog) (s : SS) (tried : List (List UInt64)) : Prop :=
  ∀ buf ∈ tried, ∃ s0 s1 : SS, s0.rc = s.rc ∧ s0.err = s.err ∧ (CacheOK p s → CacheOK p s0) ∧ s0.accept p buf = .ok (false, s1)

theorem AllRejected.mono {p : Prog} {s s0 : SS} {tried : List (List UInt64)} (h : AllRejected p s0 tried)
    (h1 : s0.rc = s.rc) (h2 : s0.err = s.err) (h3 : CacheOK p s → CacheOK p s0) : AllRejected p s tried := by
  intro buf hb
  obtain ⟨a, b, ha1, ha2, ha3, ha4⟩ := h buf hb
  exact ⟨a, b, ha1.trans h1, ha2.trans h2, fun hx => ha3 (h3 hx), ha4⟩

theorem accept_cacheOK (p : Prog) (s s' : SS) (buf : List UInt64) (h : s.accept p buf = .ok (false, s'))
    (hc : CacheOK p s) : CacheOK p s' := by
  simp only [SS.accept] at h
  split at h
  · simp only [Except.ok.injEq, Prod.mk.injEq] at h; rw [← h.2]; exact hc
  · split at h
    · simp only [Except.ok.injEq, Prod.mk.injEq] at h; rw [← h.2]; exact hc
    · split at h
      · rename_i htb
        simp only [Except.ok.injEq, Prod.mk.injEq] at h
        rw [← h.2]
        intro b hb
        simp only [List.mem_cons] at hb
        rcases hb with rfl | hb
        · simpa using htb
        · exact hc b hb
      · split at h
        · cases h
        · split at h
          · cases h
          · split at h
            · cases h
            · simp at h

/-- **a run that accepted nothing is the all-false run**: same result, recording and error
    unchanged, and every candidate of the all-false run was put to `accept` and rejected -/
theorem run_noprogress (p : Prog) {α : Type} : ∀ (sc : Script α) (s s' : SS) (a : α),
    sc.run p s = .ok (a, s') → s'.shrinks = s.shrinks →
    (sc.runF ⟨s.rc, s.shrinks⟩).1 = some a ∧ s'.rc = s.rc ∧ s'.err = s.err ∧ (CacheOK p s → CacheOK p s') ∧
    AllRejected p s (sc.runF ⟨s.rc, s.shrinks⟩).2 := by
  intro sc
  induction sc with
  | ret a =>
    intro s s' a' h _
    simp only [Script.run, Except.ok.injEq, Prod.mk.injEq] at h
    obtain ⟨rfl, rfl⟩ := h
    exact ⟨rfl, rfl, rfl, fun hx => hx, fun _ hb => by simp [Script.runF] at hb⟩
  | get k ih => intro s s' a h hn; simp only [Script.run] at h; simp only [Script.runF]; exact ih _ s s' a h hn
  | oob => intro s s' a h; simp [Script.run] at h
  | try_ buf k ih =>
    intro s s' a h hn
    simp only [Script.run] at h
    cases ha : s.accept p buf with
    | error e => simp [ha] at h
    | ok r =>
      obtain ⟨b, s1⟩ := r
      simp only [ha] at h
      have h1 := accept_shrinks p s s1 buf b ha
      have hm := run_shrinks_mono p (k b) s1 s' a h
      cases b
      · obtain ⟨e1, e2, e3⟩ := h1.1 rfl
        have := ih false s1 s' a h (by omega)
        rw [e2, e1] at this
        obtain ⟨r1, r2, r3, r4, r5⟩ := this
        have hcm : CacheOK p s → CacheOK p s1 := accept_cacheOK p s s1 buf ha
        refine ⟨by simpa [Script.runF] using r1, r2, r3.trans e3, fun hx => r4 (hcm hx), ?_⟩
        intro b' hb'
        simp only [Script.runF, List.mem_cons] at hb'
        rcases hb' with rfl | hb'
        · exact ⟨s, s1, rfl, rfl, fun hx => hx, ha⟩
        · exact (AllRejected.mono r5 e2 e3 hcm) b' hb'
      · have := h1.2 rfl; omega

/-! ### from "rejected by `shrinker.accept`" to "does not reproduce the failure" -/

/-- a candidate reproduces the failure: same traceback as the current failure -/
def Reproduces (p : Prog) (s : SS) (buf : List UInt64) : Prop :=
  tbKey (checkOnce p (.buf buf) TS.fresh).err = tbKey s.err

theorem rejected_not_reproduces (p : Prog) (s s0 s1 : SS) (buf : List UInt64) (hrc : s0.rc = s.rc) (herr : s0.err = s.err)
    (hc : CacheOK p s0) (hsm : slt buf s.rc.data) (h : s0.accept p buf = .ok (false, s1)) : ¬ Reproduces p s buf := by
  intro hrep
  simp only [Reproduces] at hrep
  simp only [SS.accept] at h
  split at h
  · rename_i hcmp
    rw [hrc] at hcmp
    simp only [slt] at hsm; omega
  · split at h
    · rename_i hin
      have := hc buf (by simpa using hin)
      rw [herr] at this; exact this hrep
    · split at h
      · rename_i htb
        rw [herr] at htb
        simp only [bne_iff_ne, ne_eq] at htb
        exact htb hrep
      · split at h
        · cases h
        · split at h
          · cases h
          · split at h
            · cases h
            · simp at h

/-! ### what the passes try when everything is rejected -/

@[simp] theorem runF_getV_bind {β : Type} (v : View) (f : View → Script β) : (getV.bind f).runF v = (f v).runF v := rfl
@[simp] theorem runF_tryBuf_bind {β : Type} (v : View) (buf : List UInt64) (f : Bool → Script β) :
    ((tryBuf buf).bind f).runF v = (((f false).runF v).1, buf :: ((f false).runF v).2) := rfl
@[simp] theorem runF_orOob_some {α β : Type} (v : View) (a : α) (f : α → Script β) :
    ((orOob (some a)).bind f).runF v = (f a).runF v := rfl
@[simp] theorem runF_orOob_none {α β : Type} (v : View) (f : α → Script β) :
    ((orOob (none : Option α)).bind f).runF v = (none, []) := rfl
@[simp] theorem runF_ret {α : Type} (v : View) (a : α) : (Script.ret a).runF v = (some a, []) := rfl

/-- `removeGroups`, everything rejected: the data without each standalone finished group was tried -/
theorem removeGroups_tries (v : View) : ∀ (f i : Nat), v.rc.groups.length ≤ i + f →
    ((removeGroups f i).runF v).1 = some () →
    ∀ j (hj : j < v.rc.groups.length), i ≤ j → v.rc.groups[j].standalone = true → 0 ≤ v.rc.groups[j].end_ →
      ∃ buf, without? v.rc.data [v.rc.groups[j]] = some buf ∧ buf ∈ ((removeGroups f i).runF v).2
  | 0, i, hlen, _, j, hj, hij, _, _ => by omega
  | f+1, i, hlen, hres, j, hj, hij, hst, hfin => by
    unfold removeGroups at hres ⊢
    simp only [bind_eq, pure_eq, runF_getV_bind] at hres ⊢
    have hi : i < v.rc.groups.length := by omega
    simp only [hi, if_true, getElem?_some_of_lt hi, runF_orOob_some] at hres ⊢
    by_cases hskip : (!v.rc.groups[i].standalone || decide (v.rc.groups[i].end_ < 0)) = true
    · simp only [hskip, if_true] at hres ⊢
      have hne : i ≠ j := by
        intro h; subst h
        simp [hst] at hskip; omega
      exact removeGroups_tries v f (i + 1) (by omega) hres j hj (by omega) hst hfin
    · simp only [hskip, Bool.false_eq_true, if_false] at hres ⊢
      cases hw : without? v.rc.data [v.rc.groups[i]] with
      | none => simp [hw] at hres
      | some buf =>
        simp only [hw, runF_orOob_some, runF_tryBuf_bind, Bool.false_eq_true, if_false] at hres ⊢
        by_cases hij' : i = j
        · subst hij'
          exact ⟨buf, hw, List.mem_cons_self⟩
        · obtain ⟨b, hb1, hb2⟩ := removeGroups_tries v f (i + 1) (by omega) hres j hj (by omega) hst hfin
          exact ⟨b, hb1, List.mem_cons_of_mem _ hb2⟩

theorem runF_bind_some {α β : Type} (v : View) (x : Script α) (f : α → Script β) (a : α) (h : (x.runF v).1 = some a) :
    (x.bind f).runF v = (((f a).runF v).1, (x.runF v).2 ++ ((f a).runF v).2) := by
  rw [runF_bind]
  cases hx : x.runF v with
  | mk o l =>
    rw [hx] at h
    simp only at h
    subst h
    rfl

theorem runF_bind_none {α β : Type} (v : View) (x : Script α) (f : α → Script β) (h : (x.runF v).1 = none) :
    ((x.bind f).runF v).1 = none := by
  rw [runF_bind]
  cases hx : x.runF v with
  | mk o l =>
    rw [hx] at h
    simp only at h
    subst h
    rfl

section minimizeF
variable (v : View) {cond : UInt64 → Script Bool} (hcF : ∀ x, ((cond x).runF v).1 = some false)
include hcF

theorem mAccept_runF (best u : UInt64) :
    ((mAccept cond best u).runF v).1 = some (best, false) ∧
    (¬ (u ≥ best ∨ u < small) → ((mAccept cond best u).runF v).2 = ((cond u).runF v).2) := by
  unfold mAccept
  by_cases hg : u ≥ best ∨ u < small
  · simp [hg]
  · simp only [hg, if_false, bind_eq, pure_eq]
    rw [runF_bind_some v (cond u) _ false (hcF u)]
    simp

theorem trySmallS_runF (u : UInt64) : ∀ (n : Nat) (i : UInt64), i.toNat + n ≤ 5 →
    ((trySmallS cond u n i).runF v).1 = some none ∧
    ∀ x : UInt64, i.toNat ≤ x.toNat → x.toNat < i.toNat + n → x < u → ∀ b ∈ ((cond x).runF v).2, b ∈ ((trySmallS cond u n i).runF v).2
  | 0, i, _ => ⟨rfl, fun x h1 h2 => by omega⟩
  | n+1, i, hin => by
    unfold trySmallS
    by_cases hc : i < u ∧ i < small
    · simp only [hc, and_self, if_true, bind_eq, pure_eq]
      rw [runF_bind_some v (cond i) _ false (hcF i)]
      simp only [Bool.false_eq_true, if_false]
      have h1 : (i + 1).toNat = i.toNat + 1 := by
        rw [UInt64.toNat_add]; apply Nat.mod_eq_of_lt; simp; omega
      obtain ⟨r1, r2⟩ := trySmallS_runF u n (i + 1) (by omega)
      refine ⟨r1, ?_⟩
      intro x hx1 hx2 hxu b hb
      by_cases hxi : x.toNat = i.toNat
      · have : x = i := UInt64.toNat_inj.mp hxi
        subst this
        exact List.mem_append_left _ hb
      · exact List.mem_append_right _ (r2 x (by omega) (by omega) hxu b hb)
    · simp only [hc, if_false, pure_eq]
      refine ⟨rfl, ?_⟩
      intro x hx1 hx2 hxu b hb
      exfalso
      apply hc
      have hxs : x.toNat < 5 := by omega
      constructor
      · rw [UInt64.lt_iff_toNat_lt] at hxu ⊢; omega
      · rw [UInt64.lt_iff_toNat_lt, small_toNat]; omega

theorem rShiftS_runF : ∀ n b, ((rShiftS cond n b).runF v).1 = some b
  | 0, _ => rfl
  | n+1, b => by
    unfold rShiftS
    simp only [bind_eq, pure_eq]
    rw [runF_bind_some v _ _ _ (mAccept_runF v hcF b _).1]
    simp

theorem unsetBitsS_runF : ∀ n b, ((unsetBitsS cond n b).runF v).1 = some b
  | 0, _ => rfl
  | n+1, b => by
    unfold unsetBitsS
    simp only [bind_eq]
    rw [runF_bind_some v _ _ _ (mAccept_runF v hcF b _).1]
    exact unsetBitsS_runF n b

theorem sortInnerS_runF (i : Nat) (h : UInt64) : ∀ n j b, ((sortInnerS cond i h n j b).runF v).1 = some b
  | 0, _, _ => rfl
  | n+1, j, b => by
    unfold sortInnerS
    split
    · dsimp only
      split
      · simp only [bind_eq, pure_eq]
        rw [runF_bind_some v _ _ _ (mAccept_runF v hcF b _).1]
        simp only [Bool.false_eq_true, if_false]
        exact sortInnerS_runF i h n (j + 1) b
      · exact sortInnerS_runF i h n (j + 1) b
    · rfl

theorem sortBitsS_runF : ∀ n b, ((sortBitsS cond n b).runF v).1 = some b
  | 0, _ => rfl
  | n+1, b => by
    unfold sortBitsS
    simp only [bind_eq, pure_eq]
    split
    · rw [runF_bind_some v _ _ _ (sortInnerS_runF v hcF _ _ _ _ _)]
      exact sortBitsS_runF n b
    · rw [runF_bind_some v _ _ b rfl]
      exact sortBitsS_runF n b

theorem binLoopS_runF : ∀ n i j b, ((binLoopS cond n i j b).runF v).1 = some b
  | 0, _, _, _ => rfl
  | n+1, i, j, b => by
    unfold binLoopS
    split
    · simp only [bind_eq]
      rw [runF_bind_some v _ _ _ (mAccept_runF v hcF b _).1]
      simp only [Bool.false_eq_true, if_false]
      exact binLoopS_runF n _ _ b
    · rfl

theorem binSearchS_runF (b : UInt64) :
    ((binSearchS cond b).runF v).1 = some b ∧
    (¬ (b - 1 ≥ b ∨ b - 1 < small) → ∀ x ∈ ((cond (b - 1)).runF v).2, x ∈ ((binSearchS cond b).runF v).2) := by
  unfold binSearchS
  simp only [bind_eq, pure_eq]
  rw [runF_bind_some v _ _ _ (mAccept_runF v hcF b _).1]
  simp only [Bool.not_false, if_true, runF_ret, List.append_nil]
  refine ⟨trivial, ?_⟩
  intro hg x hx
  rw [(mAccept_runF v hcF b (b - 1)).2 hg]; exact hx

/-- `minimize` against a shrinker that rejects everything: `u - 1` is among the values asked about -/
theorem minimizeS_tries (u : UInt64) (hu : u ≠ 0) :
    (∃ r, ((minimizeS u cond).runF v).1 = some r) ∧
    ∀ x ∈ ((cond (u - 1)).runF v).2, x ∈ ((minimizeS u cond).runF v).2 := by
  have hupos : 0 < u.toNat := by
    have : u.toNat ≠ 0 := fun h => hu (UInt64.toNat_inj.mp (by simpa using h))
    omega
  have hu1 : (u - 1).toNat = u.toNat - 1 := by
    rw [UInt64.toNat_sub_of_le _ _ (by rw [UInt64.le_iff_toNat_le]; simp; omega)]; rfl
  unfold minimizeS
  have hne : (u == 0) = false := by simpa using hu
  simp only [hne, Bool.false_eq_true, if_false, bind_eq, pure_eq]
  obtain ⟨t1, t2⟩ := trySmallS_runF v hcF u 5 0 (by simp)
  rw [runF_bind_some v _ _ _ t1]
  simp only []
  by_cases hus : u ≤ small
  · simp only [hus, if_true, runF_ret, List.append_nil]
    refine ⟨⟨u, rfl⟩, ?_⟩
    intro x hx
    have hu5 : u.toNat ≤ 5 := by rw [UInt64.le_iff_toNat_le, small_toNat] at hus; exact hus
    exact t2 (u - 1) (by simp) (by rw [hu1]; simp; omega) (by rw [UInt64.lt_iff_toNat_lt, hu1]; omega) x hx
  · simp only [hus, if_false]
    have hu5 : 5 < u.toNat := by rw [UInt64.le_iff_toNat_le, small_toNat] at hus; omega
    rw [runF_bind_some v _ _ _ (rShiftS_runF v hcF 64 u)]
    rw [runF_bind_some v _ _ _ (unsetBitsS_runF v hcF _ u)]
    rw [runF_bind_some v _ _ _ (sortBitsS_runF v hcF _ u)]
    obtain ⟨b1, b2⟩ := binSearchS_runF v hcF u
    refine ⟨⟨u, by simpa using b1⟩, ?_⟩
    intro x hx
    have hg : ¬ (u - 1 ≥ u ∨ u - 1 < small) := by
      rw [ge_iff_le, UInt64.le_iff_toNat_le, UInt64.lt_iff_toNat_lt, hu1, small_toNat]; omega
    simp only [List.mem_append]
    exact Or.inr (Or.inr (Or.inr (Or.inr (b2 hg x hx))))

end minimizeF

/-- the condition `minimizeBlocks` hands to `minimize` for block `i` -/
def blockCond (i : Nat) (x : UInt64) : Script Bool := do
  let v ← getV
  if i ≥ v.rc.data.length then pure false
  else
    let buf ← orOob (setIdx? v.rc.data i x)
    tryBuf buf

theorem blockCond_runF (v : View) (i : Nat) (hi : i < v.rc.data.length) (x : UInt64) :
    (blockCond i x).runF v = (some false, [v.rc.data.set i x]) := by
  unfold blockCond
  have : ¬ i ≥ v.rc.data.length := by omega
  simp only [bind_eq, pure_eq, runF_getV_bind, this, if_false, setIdx?_some x hi, runF_orOob_some]
  rfl

theorem minimizeBlocks_succ (f i : Nat) :
    minimizeBlocks (f + 1) i = getV.bind fun v =>
      if i < v.rc.data.length then
        (orOob v.rc.data[i]?).bind fun u => (minimizeS u (blockCond i)).bind fun _ => minimizeBlocks f (i + 1)
      else .ret () := by
  rw [minimizeBlocks]; rfl

/-- `minimizeBlocks`, everything rejected: every non-zero block was tried lowered by one -/
theorem minimizeBlocks_tries (v : View) : ∀ (f i : Nat), v.rc.data.length ≤ i + f →
    ∀ j (hj : j < v.rc.data.length), i ≤ j → v.rc.data[j] ≠ 0 →
      v.rc.data.set j (v.rc.data[j] - 1) ∈ ((minimizeBlocks f i).runF v).2
  | 0, i, hlen, j, hj, hij, _ => by omega
  | f+1, i, hlen, j, hj, hij, hnz => by
    rw [minimizeBlocks_succ]
    have hi : i < v.rc.data.length := by omega
    simp only [runF_getV_bind, hi, if_true, getElem?_some_of_lt hi, runF_orOob_some]
    have hcF : ∀ x, ((blockCond i x).runF v).1 = some false := fun x => by rw [blockCond_runF v i hi]
    by_cases hij' : i = j
    · subst hij'
      obtain ⟨⟨r, hr⟩, hm⟩ := minimizeS_tries v hcF v.rc.data[i] hnz
      rw [runF_bind_some v _ _ r hr]
      simp only [List.mem_append]
      left
      apply hm
      rw [blockCond_runF v i hi]; simp
    · have hrest := minimizeBlocks_tries v f (i + 1) (by omega) j hj (by omega) hnz
      by_cases hz : v.rc.data[i] = 0
      · have : minimizeS v.rc.data[i] (blockCond i) = .ret 0 := by
          unfold minimizeS; simp [hz]
        rw [this]
        simpa [Script.bind] using hrest
      · obtain ⟨⟨r, hr⟩, _⟩ := minimizeS_tries v hcF v.rc.data[i] hz
        rw [runF_bind_some v _ _ r hr]
        simp only [List.mem_append]
        exact Or.inr hrest

/-! ### the two fixpoint theorems -/

theorem set_dec_slt (data : List UInt64) (j : Nat) (hj : j < data.length) (hnz : data[j] ≠ 0) :
    slt (data.set j (data[j] - 1)) data := by
  have hlt : data[j] - 1 < data[j] := by
    have hpos : 0 < data[j].toNat := by
      have : data[j].toNat ≠ 0 := fun h => hnz (UInt64.toNat_inj.mp (by simpa using h))
      omega
    rw [UInt64.lt_iff_toNat_lt, UInt64.toNat_sub_of_le _ _ (by rw [UInt64.le_iff_toNat_le]; simp; omega)]
    simp; omega
  simp only [slt, compareData, List.length_set, Nat.lt_irrefl, if_false]
  -- lexicographic: equal before `j`, smaller at `j`
  have key : ∀ (l : List UInt64) (k : Nat) (hk : k < l.length), l[k] - 1 < l[k] → cmpLex (l.set k (l[k] - 1)) l < 0 := by
    intro l
    induction l with
    | nil => intro k hk; simp at hk
    | cons a as ih =>
      intro k hk h
      cases k with
      | zero =>
        simp only [List.set_cons_zero, List.getElem_cons_zero, cmpLex] at h ⊢
        simp [h]
      | succ k =>
        simp only [List.set_cons_succ, List.getElem_cons_succ, cmpLex] at h ⊢
        simp only [u64_lt_irrefl, if_false]
        exact ih k (by simpa using hk) h
  exact key data j hj hlt

/-- **`minimizeBlocks` made no progress ⇒ no block can be lowered by one**: for every block
    `j` with a non-zero word, the test case with that word decremented does not reproduce the
    failure (it passes, is invalid, or fails elsewhere) -/
theorem minimizeBlocks_fixpoint (p : Prog) (s s' : SS) (F : Nat) (hF : s.rc.data.length ≤ F) (hc : CacheOK p s)
    (hrun : (minimizeBlocks F 0).run p s = .ok ((), s')) (hno : s'.shrinks = s.shrinks)
    (j : Nat) (hj : j < s.rc.data.length) (hnz : s.rc.data[j] ≠ 0) :
    ¬ Reproduces p s (s.rc.data.set j (s.rc.data[j] - 1)) := by
  obtain ⟨_, _, _, _, hall⟩ := run_noprogress p _ s s' () hrun hno
  have hmem := minimizeBlocks_tries ⟨s.rc, s.shrinks⟩ F 0 (by simpa using hF) j hj (Nat.zero_le _) hnz
  obtain ⟨s0, s1, h1, h2, h3, h4⟩ := hall _ hmem
  exact rejected_not_reproduces p s s0 s1 _ h1 h2 (h3 hc) (set_dec_slt _ j hj hnz) h4

theorem cut_slt (data : List UInt64) (g : GI) (buf : List UInt64) (h : without? data [g] = some buf)
    (hne : (g.begin : Int) ≠ g.end_) : slt buf data := by
  simp only [without?, List.reverse_cons, List.reverse_nil, List.nil_append, List.foldlM, cut?] at h
  split at h
  · rename_i hc
    simp only [Option.pure_def, Option.bind_eq_bind, Option.bind_some, Option.some.injEq] at h
    subst h
    apply slt_of_length_lt
    simp only [List.length_append, List.length_take, List.length_drop]
    omega
  · simp at h

/-- **`removeGroups` made no progress ⇒ no standalone group can be dropped**: the test case
    without any one finished standalone group (a collection element with its continue-coin, a
    whole draw) does not reproduce the failure -/
theorem removeGroups_fixpoint (p : Prog) (s s' : SS) (F : Nat) (hF : s.rc.groups.length ≤ F) (hc : CacheOK p s)
    (hrun : (removeGroups F 0).run p s = .ok ((), s')) (hno : s'.shrinks = s.shrinks)
    (j : Nat) (hj : j < s.rc.groups.length) (hst : s.rc.groups[j].standalone = true) (hfin : 0 ≤ s.rc.groups[j].end_)
    (hne : (s.rc.groups[j].begin : Int) ≠ s.rc.groups[j].end_) :
    ∃ buf, without? s.rc.data [s.rc.groups[j]] = some buf ∧ ¬ Reproduces p s buf := by
  obtain ⟨hres, _, _, _, hall⟩ := run_noprogress p _ s s' () hrun hno
  obtain ⟨buf, hb1, hb2⟩ := removeGroups_tries ⟨s.rc, s.shrinks⟩ F 0 (by simpa using hF) hres j hj (Nat.zero_le _) hst hfin
  obtain ⟨s0, s1, h1, h2, h3, h4⟩ := hall _ hb2
  exact ⟨buf, hb1, rejected_not_reproduces p s s0 s1 _ h1 h2 (h3 hc) (cut_slt _ _ _ hb1 hne) h4⟩

/-- for a condition that is monotone in block `j` (a threshold), "cannot be lowered by one"
    means "cannot be lowered at all": the block is at the exact boundary -/
theorem block_at_boundary (p : Prog) (s : SS) (j : Nat) (hj : j < s.rc.data.length) (hnz : s.rc.data[j] ≠ 0)
    (hmono : ∀ x y : UInt64, x ≤ y → y < s.rc.data[j] → Reproduces p s (s.rc.data.set j x) → Reproduces p s (s.rc.data.set j y))
    (hfix : ¬ Reproduces p s (s.rc.data.set j (s.rc.data[j] - 1))) :
    ∀ x, x < s.rc.data[j] → ¬ Reproduces p s (s.rc.data.set j x) := by
  intro x hx hrep
  have hpos : 0 < s.rc.data[j].toNat := by
    have : s.rc.data[j].toNat ≠ 0 := fun h => hnz (UInt64.toNat_inj.mp (by simpa using h))
    omega
  have h1 : (s.rc.data[j] - 1).toNat = s.rc.data[j].toNat - 1 := by
    rw [UInt64.toNat_sub_of_le _ _ (by rw [UInt64.le_iff_toNat_le]; simp; omega)]; rfl
  apply hfix
  apply hmono x (s.rc.data[j] - 1) _ _ hrep
  · rw [UInt64.le_iff_toNat_le, h1]; rw [UInt64.lt_iff_toNat_lt] at hx; omega
  · rw [UInt64.lt_iff_toNat_lt, h1]; omega

/-- the cache invariant holds initially and is kept by every run -/
theorem cacheOK_init (p : Prog) (rc : Rec) (err : Option Err) : CacheOK p { rc := rc, err := err } := by
  intro b hb; simp at hb

theorem accept_true_cacheOK (p : Prog) (s s' : SS) (buf : List UInt64) (h : s.accept p buf = .ok (true, s'))
    (hc : CacheOK p s) : CacheOK p s' := by
  simp only [SS.accept] at h
  split at h
  · simp at h
  · split at h
    · simp at h
    · split at h
      · simp at h
      · rename_i htb
        split at h
        · cases h
        · split at h
          · cases h
          · split at h
            · cases h
            · simp only [Except.ok.injEq, Prod.mk.injEq, true_and] at h
              rw [← h]
              intro b hb
              have := hc b hb
              simp only [bne_iff_ne, ne_eq, Decidable.not_not] at htb
              simpa [htb] using this

/-- the cache invariant is kept by every run: it holds in every state the shrinker reaches -/
theorem run_cacheOK (p : Prog) {α : Type} : ∀ (sc : Script α) (s s' : SS) (a : α),
    CacheOK p s → sc.run p s = .ok (a, s') → CacheOK p s' := by
  intro sc
  induction sc with
  | ret a => intro s s' a' hc h; simp only [Script.run, Except.ok.injEq, Prod.mk.injEq] at h; rw [← h.2]; exact hc
  | get k ih => intro s s' a hc h; simp only [Script.run] at h; exact ih _ s s' a hc h
  | oob => intro s s' a _ h; simp [Script.run] at h
  | try_ buf k ih =>
    intro s s' a hc h
    simp only [Script.run] at h
    cases ha : s.accept p buf with
    | error e => simp [ha] at h
    | ok r =>
      obtain ⟨b, s1⟩ := r
      simp only [ha] at h
      cases b
      · exact ih false s1 s' a (accept_cacheOK p s s1 buf ha hc) h
      · exact ih true s1 s' a (accept_true_cacheOK p s s1 buf ha hc) h

end Rapid
