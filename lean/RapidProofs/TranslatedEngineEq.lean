/-
  RapidProofs.TranslatedEngineEq — the generation loop `findBug` of engine.go, as translated from /repo on every run
  (RapidModel/Generated/Translated.lean, in `Go.EM`: seeding the stream of the reused `*T`, running one test case and the
  early-exit test are requests), run against the model's test case runner, computes the model's `findBug`
  (RapidModel/Engine.lean): the counters, the early-exit flag, the seed of the failing test case, the class of its error.
-/
import RapidModel.Generated.Translated
import RapidModel.Engine
import RapidProofs.TranslatedDataEq
import RapidProofs.TranslatedProgEq
import RapidProofs.TranslatedMinEq

namespace Rapid
open Rapid.Go

/-- who answers the requests of `findBug`: the reused `*T` with its stream, and the clock -/
structure EOracle (σ : Type) where
  init : σ → UInt64 → σ
  run : σ → ErrC × σ
  early : Int64 → Bool

def Go.EScript.exec {σ α : Type} (o : EOracle σ) : EScript α → σ → α × σ
  | .ret a, s => (a, s)
  | .init seed k, s => k.exec o (o.init s seed)
  | .checkOnce k, s => (k (o.run s).1).exec o (o.run s).2
  | .early i k, s => (k (o.early i)).exec o s

def EM.exec {σ α : Type} (o : EOracle σ) (x : EM α) (s : σ) : Except Panic α × σ := EScript.exec o x s

theorem Go.EScript.exec_bind {σ α β : Type} (o : EOracle σ) (x : EScript α) (f : α → EScript β) (s : σ) :
    (x.bind f).exec o s = (f (x.exec o s).1).exec o (x.exec o s).2 := by
  induction x generalizing s with
  | ret a => rfl
  | init seed k ih => simp only [EScript.bind, EScript.exec]; exact ih _
  | checkOnce k ih => simp only [EScript.bind, EScript.exec]; exact ih _ _
  | early i k ih => simp only [EScript.bind, EScript.exec]; exact ih _ _

@[simp] theorem EM.exec_bind {σ α β : Type} (o : EOracle σ) (x : EM α) (f : α → EM β) (s : σ) :
    EM.exec o (x >>= f) s =
      match (EM.exec o x s).1 with
      | .ok a => EM.exec o (f a) (EM.exec o x s).2
      | .error e => (.error e, (EM.exec o x s).2) := by
  have h := EScript.exec_bind o (show EScript (Except Panic α) from x)
    (fun r => match r with
      | .ok a => (show EScript (Except Panic β) from f a)
      | .error e => EScript.ret (.error e)) s
  refine Eq.trans h ?_
  show _ = match (EScript.exec o (show EScript (Except Panic α) from x) s).1 with | .ok a => _ | .error e => _
  cases (EScript.exec o (show EScript (Except Panic α) from x) s).1 with
  | ok a => rfl
  | error e => rfl

@[simp] theorem EM.exec_pure {σ α : Type} (o : EOracle σ) (a : α) (s : σ) : EM.exec o (pure a : EM α) s = (.ok a, s) := rfl
@[simp] theorem EM.exec_fuel {σ α : Type} (o : EOracle σ) (s : σ) : EM.exec o (EM.fuel : EM α) s = (.error .fuel, s) := rfl
@[simp] theorem EM.exec_init {σ : Type} (o : EOracle σ) (seed : UInt64) (s : σ) : EM.exec o (EM.init seed) s = (.ok (), o.init s seed) := rfl
@[simp] theorem EM.exec_checkOnce {σ : Type} (o : EOracle σ) (s : σ) : EM.exec o EM.checkOnce s = (.ok (o.run s).1, (o.run s).2) := rfl
@[simp] theorem EM.exec_early {σ : Type} (o : EOracle σ) (i : Int64) (s : σ) : EM.exec o (EM.early i) s = (.ok (o.early i), s) := rfl

@[simp] theorem EM.exec_andThen {σ : Type} (o : EOracle σ) (a b : EM Bool) (s : σ) :
    EM.exec o (EM.andThen a b) s =
      match (EM.exec o a s).1 with
      | .ok x => if x then EM.exec o b (EM.exec o a s).2 else (.ok false, (EM.exec o a s).2)
      | .error e => (.error e, (EM.exec o a s).2) := by
  unfold EM.andThen
  rw [EM.exec_bind]
  cases (EM.exec o a s).1 with
  | ok x => cases x <;> rfl
  | error e => rfl

/-- what `findBug` looks at in the model's error -/
def errClass : Option Err → ErrC
  | none => .none
  | some e => if e.isInvalid then .invalid else .fail

/-- the model's test case runner as the oracle of `findBug`: the state is the reused `*T` and the seed its stream has -/
def modelEOracle (p : Prog) (early : Nat → Bool) : EOracle (TS × UInt64) where
  init := fun s seed => (s.1, seed)
  run := fun s => (errClass (checkOnce p (.rng (Jsf.init s.2)) s.1).err, ((checkOnce p (.rng (Jsf.init s.2)) s.1).ts, s.2))
  early := fun i => early i.toInt.toNat

/-- the result tuple of the source's `findBug` for the model's result -/
def fbT (fb : FB) : Int64 × Int64 × Bool × UInt64 × ErrC :=
  (Int64.ofNat fb.valid, Int64.ofNat fb.invalid, fb.early, fb.seed, errClass fb.err)

theorem errClass_none_iff (e : Option Err) : (errClass e == ErrC.none) = e.isNone := by
  cases e with
  | none => rfl
  | some x => unfold errClass; by_cases h : x.isInvalid = true <;> simp [h]

theorem i64_ofNat_pos' {n : Nat} (hn : n < 2 ^ 62) : decide (Int64.ofNat n > (0 : Int64)) = decide (n > 0) := by
  have h0 : (0 : Int64) = Int64.ofNat 0 := rfl
  rw [h0, i64_gt_ofNat hn 0 (by omega)]

theorem i64_ofNat_toUInt64' (n : Nat) : (Int64.ofNat n).toUInt64 = UInt64.ofNat n := by
  rw [i64_ofNat_toUInt64]

/-- the loop of `findBug`, as translated, against the model's runner -/
theorem tr_findBugLoop (p : Prog) (early : Nat → Bool) (checks : Nat) (hc : checks < 2 ^ 56) :
    ∀ (fM fT valid invalid : Nat) (seed sd0 : UInt64) (ts : TS) (seeds : List UInt64),
      fM < fT → valid ≤ checks → invalid ≤ checks * 10 → checks * 11 ≤ fM + valid + invalid →
      ∃ r s', EM.exec (modelEOracle p early) (Translated.findBug_loop1 (Int64.ofNat checks) fT (Int64.ofNat invalid) seed (Int64.ofNat valid)) (ts, sd0) = (.ok r, s') ∧
        (match r.2 with | some x => x | none => (r.1.2.2, r.1.1, false, (0 : UInt64), ErrC.none)) =
          fbT (findBugLoop p checks early fM valid invalid seed ts seeds) := by
  intro fM
  induction fM with
  | zero =>
    intro fT valid invalid seed sd0 ts seeds hf hv hi hsum
    obtain ⟨f, rfl⟩ : ∃ f, fT = f + 1 := ⟨fT - 1, by omega⟩
    have hcond : ¬ (valid < checks ∧ invalid < checks * 10) := by omega
    have hcT : (decide (Int64.ofNat valid < Int64.ofNat checks) && decide (Int64.ofNat invalid < Int64.ofNat checks * (10 : Int64))) = false := by
      have h10 : Int64.ofNat checks * (10 : Int64) = Int64.ofNat (checks * 10) := by
        rw [Int64.ofNat_mul]; rfl
      rw [h10, i64_lt_ofNat (by omega) _ (by omega), i64_lt_ofNat (by omega) _ (by omega), ← Bool.decide_and]
      exact decide_eq_false hcond
    refine ⟨((Int64.ofNat invalid, seed, Int64.ofNat valid), none), (ts, sd0), ?_, ?_⟩
    · rw [Translated.findBug_loop1, hcT]; simp only [Bool.false_eq_true, if_false]; rfl
    · simp [findBugLoop, fbT, errClass]
  | succ fM ih =>
    intro fT valid invalid seed sd0 ts seeds hf hv hi hsum
    obtain ⟨f, rfl⟩ : ∃ f, fT = f + 1 := ⟨fT - 1, by omega⟩
    have h10 : Int64.ofNat checks * (10 : Int64) = Int64.ofNat (checks * 10) := by
      rw [Int64.ofNat_mul]; rfl
    have hcT : (decide (Int64.ofNat valid < Int64.ofNat checks) && decide (Int64.ofNat invalid < Int64.ofNat checks * (10 : Int64))) =
        decide (valid < checks ∧ invalid < checks * invalidChecksMult) := by
      rw [h10, i64_lt_ofNat (by omega) _ (by omega), i64_lt_ofNat (by omega) _ (by omega), ← Bool.decide_and]; rfl
    rw [Translated.findBug_loop1, hcT]
    simp only [findBugLoop]
    by_cases hcond : valid < checks ∧ invalid < checks * invalidChecksMult
    · simp only [hcond, and_self, decide_true, if_true]
      have hi10 : invalid < checks * 10 := hcond.2
      have hadd : Int64.ofNat valid + Int64.ofNat invalid = Int64.ofNat (valid + invalid) := (Int64.ofNat_add _ _).symm
      rw [hadd]
      simp only [EM.exec_bind, EM.exec_andThen, EM.exec_pure, EM.exec_early]
      have hpos : decide (Int64.ofNat (valid + invalid) > (0 : Int64)) = decide (valid + invalid > 0) := i64_ofNat_pos' (by omega)
      rw [hpos]
      have hearly : (modelEOracle p early).early (Int64.ofNat (valid + invalid)) = early (valid + invalid) := by
        simp only [modelEOracle, i64_ofNat_toInt (show valid + invalid < 2 ^ 62 by omega), Int.toNat_natCast]
      rw [hearly, i64_ofNat_toUInt64']
      have hv1 : Int64.ofNat valid + 1 = Int64.ofNat (valid + 1) := by rw [Int64.ofNat_add]; rfl
      have hi1 : Int64.ofNat invalid + 1 = Int64.ofNat (invalid + 1) := by rw [Int64.ofNat_add]; rfl
      rw [hv1, hi1]
      by_cases hex : valid + invalid > 0 ∧ early (valid + invalid) = true
      · -- early exit
        have h1 : decide (valid + invalid > 0) = true := by simp [hex.1]
        simp only [h1, hex.2, if_true, hex, and_self]
        refine ⟨_, _, rfl, ?_⟩
        simp [fbT, errClass]
      · have hc3 : (if decide (valid + invalid > 0) = true then ((Except.ok (early (valid + invalid)) : Except Panic Bool), ts, sd0)
            else (Except.ok false, ts, sd0)) = (Except.ok false, ts, sd0) := by
          by_cases hp : valid + invalid > 0
          · have : early (valid + invalid) = false := by
              cases he : early (valid + invalid) with
              | false => rfl
              | true => exact absurd ⟨hp, he⟩ hex
            simp [hp, this]
          · simp [hp]
        rw [hc3]
        simp only [Bool.false_eq_true, if_false, hex]
        simp only [EM.exec_bind, EM.exec_init, EM.exec_checkOnce]
        -- one test case
        generalize hseed : seed + UInt64.ofNat (valid + invalid) = seed'
        have hrun : (modelEOracle p early).run ((modelEOracle p early).init (ts, sd0) seed') =
            (errClass (checkOnce p (.rng (Jsf.init seed')) ts).err, ((checkOnce p (.rng (Jsf.init seed')) ts).ts, seed')) := rfl
        rw [hrun]
        simp only
        cases herr : (checkOnce p (.rng (Jsf.init seed')) ts).err with
        | none =>
          have hcl : errClass (none : Option Err) = ErrC.none := rfl
          simp only [hcl, beq_self_eq_true, if_true]
          obtain ⟨r, s', h1, h2⟩ := ih f (valid + 1) invalid seed' seed' (checkOnce p (.rng (Jsf.init seed')) ts).ts (seeds ++ [seed'])
            (by omega) (by omega) hi (by omega)
          exact ⟨r, s', h1, h2⟩
        | some e =>
          by_cases hinv : e.isInvalid = true
          · have hcl : errClass (some e) = ErrC.invalid := by simp [errClass, hinv]
            have hne : (ErrC.invalid == ErrC.none) = false := by decide
            simp only [hcl, hne, Bool.false_eq_true, if_false, ErrC.isInvalid, if_true, hinv]
            obtain ⟨r, s', h1, h2⟩ := ih f valid (invalid + 1) seed' seed' (checkOnce p (.rng (Jsf.init seed')) ts).ts (seeds ++ [seed'])
              (by omega) hv (by omega) (by omega)
            exact ⟨r, s', h1, h2⟩
          · have hcl : errClass (some e) = ErrC.fail := by simp [errClass, hinv]
            have hne : (ErrC.fail == ErrC.none) = false := by decide
            simp only [hcl, hne, Bool.false_eq_true, if_false, ErrC.isInvalid, hinv]
            refine ⟨_, _, rfl, ?_⟩
            simp [fbT, errClass, hinv]
    · simp only [hcond, decide_false, Bool.false_eq_true, if_false]
      exact ⟨((Int64.ofNat invalid, seed, Int64.ofNat valid), none), (ts, sd0), rfl, by simp [fbT, errClass]⟩

/-- **`findBug` of /repo, as translated, computes the result of the model's `findBug`**: run against the model's test case runner
    (the reused `*T` is threaded through, the stream is re-seeded for every test case) it returns the model's numbers of valid and
    invalid test cases, its early-exit flag, the seed of the failing test case and the class of its error — for every property, every
    base seed and every behaviour of the clock -/
theorem tr_findBug (p : Prog) (early : Nat → Bool) (checks : Nat) (seed sd0 : UInt64) (fuel : Nat) (hc : checks < 2 ^ 56)
    (hf : checks + checks * invalidChecksMult < fuel) :
    ∃ s', EM.exec (modelEOracle p early) (Translated.findBug (Int64.ofNat checks) seed fuel) (TS.fresh, sd0) =
      (.ok (fbT (findBug p checks seed early)), s') := by
  obtain ⟨r, s', h1, h2⟩ := tr_findBugLoop p early checks hc (checks + checks * invalidChecksMult) fuel 0 0 seed sd0 TS.fresh []
    hf (Nat.zero_le _) (Nat.zero_le _) (by simp [invalidChecksMult]; omega)
  refine ⟨s', ?_⟩
  unfold Translated.findBug findBug
  have h0 : (0 : Int64) = Int64.ofNat 0 := rfl
  simp only [EM.exec_bind, h0, h1]
  rw [← h2]
  cases r.2 with
  | some x => rfl
  | none => rfl

end Rapid
