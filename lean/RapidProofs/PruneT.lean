/-
  RapidProofs.PruneT — the pruned recording (`prunedOfToks`, = `rec.prune()` of the recording a
  run leaves behind), for EVERY program and every token sequence:
    * its data is the model's `kept` (the words of finished discarded groups are gone, nothing else);
    * every finished group lies inside the data (`RecWF`) — what the shrinker's passes rely on
      when they slice the data at group boundaries.
-/
import RapidModel.Rec
import RapidProofs.PassSafe
import RapidProofs.Replay

namespace Rapid

/-! ### data = kept -/

theorem prefix_take {α : Type} {a b : List α} (h : a <+: b) : b.take a.length = a := by
  obtain ⟨t, rfl⟩ := h
  simp

theorem modify_append_right {α : Type} (f : α → α) : ∀ (a t : List α) (i : Nat), a.length ≤ i →
    (a ++ t).modify i f = a ++ t.modify (i - a.length) f
  | [], t, i, _ => by simp
  | x :: a, t, 0, h => by simp at h
  | x :: a, t, i+1, h => by
    simp only [List.cons_append, List.modify_succ_cons, List.length_cons, Nat.add_sub_add_right]
    rw [modify_append_right f a t i (by simpa using h)]

theorem prefix_modify {α : Type} {a b : List α} (f : α → α) (i : Nat) (h : a <+: b) (hi : a.length ≤ i) :
    a <+: b.modify i f := by
  obtain ⟨t, rfl⟩ := h
  rw [modify_append_right f a t i hi]
  exact List.prefix_append _ _

theorem rec_eta (r : Rec) : (⟨r.data, r.groups⟩ : Rec) = r := by cases r; rfl

/-- running the pruning recorder over the tokens of a run appends the run's `kept` to the data,
    keeps the groups that were there and restores the stack of open groups -/
theorem pruneGoT_run (p : Prog) : ∀ (src : Src) (ts : TS) (rest : List Tok) (r : Rec) (st : List (Nat × Nat)),
    ∃ groups', pruneGoT ((p.run src ts).toks ++ rest) r st =
        pruneGoT rest ⟨r.data ++ (p.run src ts).kept, groups'⟩ st ∧ r.groups <+: groups' := by
  induction p with
  | ret v => intro src ts rest r st; exact ⟨r.groups, by simp [Prog.run, Out.ofRes, rec_eta], List.prefix_refl _⟩
  | throw e => intro src ts rest r st; exact ⟨r.groups, by simp [Prog.run, Out.ofRes, rec_eta], List.prefix_refl _⟩
  | draw n k ih =>
    intro src ts rest r st
    simp only [Prog.run]
    cases h : src.next n with
    | none => exact ⟨r.groups, by simp [Out.ofRes, rec_eta], List.prefix_refl _⟩
    | some q =>
      obtain ⟨u, src'⟩ := q
      obtain ⟨g', h1, h2⟩ := ih u src' ts rest { r with data := r.data ++ [u] } st
      refine ⟨g', ?_, h2⟩
      simp only [after_toks, after_kept, List.cons_append, List.nil_append, pruneGoT]
      rw [h1]; simp [List.append_assoc]
  | group l s b d k ihb ihk =>
    intro src ts rest r st
    -- the body, run inside the opened group
    have hbody : ∀ tail : List Tok, ∃ g1,
        pruneGoT (Tok.opn l s :: ((b.run src ts).toks ++ tail)) r st =
          pruneGoT tail ⟨r.data ++ (b.run src ts).kept, g1⟩ ((r.groups.length, r.data.length) :: st) ∧
        (r.groups ++ [⟨l, s, r.data.length, -1, false⟩]) <+: g1 := by
      intro tail
      obtain ⟨g1, h1, h2⟩ := ihb src ts tail { r with groups := r.groups ++ [⟨l, s, r.data.length, -1, false⟩] }
        ((r.groups.length, r.data.length) :: st)
      exact ⟨g1, by simp only [pruneGoT]; exact h1, h2⟩
    have hpre : ∀ g1, (r.groups ++ [⟨l, s, r.data.length, -1, false⟩]) <+: g1 → r.groups <+: g1 :=
      fun g1 h => List.IsPrefix.trans (List.prefix_append _ _) h
    have haborted : ∃ groups', pruneGoT ((Tok.opn l s :: (b.run src ts).toks ++ [Tok.abort]) ++ rest) r st =
        pruneGoT rest ⟨r.data ++ (b.run src ts).kept, groups'⟩ st ∧ r.groups <+: groups' := by
      obtain ⟨g1, h1, h2⟩ := hbody (Tok.abort :: rest)
      refine ⟨g1, ?_, hpre g1 h2⟩
      have : (Tok.opn l s :: (b.run src ts).toks ++ [Tok.abort]) ++ rest = Tok.opn l s :: ((b.run src ts).toks ++ (Tok.abort :: rest)) := by simp
      rw [this, h1]; simp [pruneGoT]
    simp only [Prog.run]
    cases hres : (b.run src ts).res with
    | error e => simpa using haborted
    | ok v =>
      simp only []
      split
      · simpa using haborted
      · obtain ⟨g1, h1, h2⟩ := hbody (Tok.cls (d v) :: (((k v).run (b.run src ts).src (b.run src ts).ts).toks ++ rest))
        have hshape : (Tok.opn l s :: (b.run src ts).toks ++ [Tok.cls (d v)] ++ ((k v).run (b.run src ts).src (b.run src ts).ts).toks) ++ rest =
            Tok.opn l s :: ((b.run src ts).toks ++ (Tok.cls (d v) :: (((k v).run (b.run src ts).src (b.run src ts).ts).toks ++ rest))) := by simp
        simp only [after_toks, after_kept]
        rw [hshape, h1]
        by_cases hd : d v = true
        · simp only [pruneGoT, hd, if_true, List.take_left', prefix_take (hpre g1 h2), List.nil_append]
          rw [rec_eta]
          exact ihk v (b.run src ts).src (b.run src ts).ts rest r st
        · simp only [pruneGoT, hd, Bool.false_eq_true, if_false]
          obtain ⟨g2, h3, h4⟩ := ihk v (b.run src ts).src (b.run src ts).ts rest
            ⟨r.data ++ (b.run src ts).kept, g1.modify r.groups.length fun g => { g with end_ := ((r.data ++ (b.run src ts).kept).length : Int) }⟩ st
          refine ⟨g2, ?_, List.IsPrefix.trans (prefix_modify _ _ (hpre g1 h2) (Nat.le_refl _)) h4⟩
          rw [h3]; simp [List.append_assoc]
  | catchInv b k ihb ihk =>
    intro src ts rest r st
    simp only [Prog.run]
    have hseq : ∀ (o2 : Out), (∃ g2, pruneGoT (o2.toks ++ rest) ⟨r.data ++ (b.run src ts).kept, (Classical.choose (ihb src ts (o2.toks ++ rest) r st))⟩ st = pruneGoT rest ⟨r.data ++ (b.run src ts).kept ++ o2.kept, g2⟩ st ∧ (Classical.choose (ihb src ts (o2.toks ++ rest) r st)) <+: g2) →
        ∃ groups', pruneGoT (((o2.after (b.run src ts).used (b.run src ts).kept (b.run src ts).toks (b.run src ts).evs (b.run src ts).overran)).toks ++ rest) r st =
          pruneGoT rest ⟨r.data ++ (o2.after (b.run src ts).used (b.run src ts).kept (b.run src ts).toks (b.run src ts).evs (b.run src ts).overran).kept, groups'⟩ st ∧ r.groups <+: groups' := by
      intro o2 ⟨g2, h3, h4⟩
      obtain ⟨h1, h2⟩ := Classical.choose_spec (ihb src ts (o2.toks ++ rest) r st)
      refine ⟨g2, ?_, List.IsPrefix.trans h2 h4⟩
      simp only [after_toks, after_kept, List.append_assoc]
      rw [h1, h3]; simp [List.append_assoc]
    cases hres : (b.run src ts).res with
    | ok v =>
      simp only []
      apply hseq
      exact ihk (some v) _ _ _ rest _ st
    | error e =>
      cases e with
      | invalid m =>
        simp only []
        apply hseq
        exact ihk none _ _ _ rest _ st
      | stop m site => simpa using ihb src ts rest r st
      | panic m site => simpa using ihb src ts rest r st
      | fuel => simpa using ihb src ts rest r st
  | errorf m k ih => intro src ts rest r st; simpa [Prog.run] using ih src _ rest r st
  | failOnError site k ih =>
    intro src ts rest r st
    simp only [Prog.run]
    cases ts.failed with
    | some m => exact ⟨r.groups, by simp [Out.ofRes, rec_eta], List.prefix_refl _⟩
    | none => exact ih src ts rest r st
  | tick k ih => intro src ts rest r st; simpa [Prog.run] using ih src _ rest r st
  | cleanup c k ih => intro src ts rest r st; simpa [Prog.run] using ih src _ rest r st
  | ctx k ih =>
    intro src ts rest r st
    simp only [Prog.run]
    cases ts.ctx with
    | some id => simpa using ih src ts rest r st
    | none => simpa using ih src _ rest r st
  | inner b k ihb ihk =>
    intro src ts rest r st
    simp only [Prog.run]
    split
    · simpa using ihb src TS.fresh rest r st
    · split
      · simpa using ihb src TS.fresh rest r st
      · rename_i v hres
        obtain ⟨g1, h1, h2⟩ := ihb src TS.fresh (((k v).run (b.run src TS.fresh).src _).toks ++ rest) r st
        obtain ⟨g2, h3, h4⟩ := ihk v (b.run src TS.fresh).src _ rest ⟨r.data ++ (b.run src TS.fresh).kept, g1⟩ st
        refine ⟨g2, ?_, List.IsPrefix.trans h2 h4⟩
        simp only [after_toks, after_kept, List.append_assoc]
        rw [h1, h3]; simp [List.append_assoc]
  | emit id k ih => intro src ts rest r st; simpa [Prog.run] using ih src ts rest r st

/-- **`prune()` keeps exactly the model's `kept`** -/
theorem pruned_data (p : Prog) (src : Src) (ts : TS) : (prunedOfToks (p.run src ts).toks).data = (p.run src ts).kept := by
  obtain ⟨g, h1, _⟩ := pruneGoT_run p src ts [] .empty []
  simp only [List.append_nil] at h1
  unfold prunedOfToks
  rw [h1]
  simp [pruneGoT, Rec.empty]

/-! ### finished groups lie inside the data -/

structure PInv (r : Rec) (st : List (Nat × Nat)) : Prop where
  wf : ∀ (j : Nat) (g : GI), r.groups[j]? = some g → 0 ≤ g.end_ → g.begin ≤ g.end_.toNat ∧ g.end_.toNat ≤ r.data.length
  stk : ∀ e ∈ st, e.1 < r.groups.length ∧ e.2 ≤ r.data.length ∧ (∀ g : GI, r.groups[e.1]? = some g → g.begin = e.2) ∧
    (∀ (j : Nat) (g : GI), j < e.1 → r.groups[j]? = some g → 0 ≤ g.end_ → g.end_.toNat ≤ e.2)
  sorted : st.Pairwise (fun a b => b.1 < a.1 ∧ b.2 ≤ a.2)

theorem pinv_recwf {r : Rec} {st : List (Nat × Nat)} (h : PInv r st) : RecWF r := by
  intro g hg h0
  obtain ⟨j, hj⟩ := List.mem_iff_getElem?.mp hg
  exact h.wf j g hj h0

theorem pinv_go : ∀ (ts : List Tok) (r : Rec) (st : List (Nat × Nat)), PInv r st → RecWF (pruneGoT ts r st) := by
  intro ts
  induction ts with
  | nil => intro r st h; exact pinv_recwf h
  | cons t ts ih =>
    intro r st h
    cases t with
    | w u =>
      simp only [pruneGoT]
      apply ih
      refine ⟨?_, ?_, h.sorted⟩
      · intro j g hj h0
        have := h.wf j g hj h0
        simp only [List.length_append, List.length_singleton]; omega
      · intro e he
        obtain ⟨a, b, c, d⟩ := h.stk e he
        exact ⟨a, by simp only [List.length_append, List.length_singleton]; omega, c, d⟩
    | opn l s =>
      simp only [pruneGoT]
      apply ih
      refine ⟨?_, ?_, ?_⟩
      · intro j g hj h0
        by_cases hlt : j < r.groups.length
        · rw [List.getElem?_append_left hlt] at hj
          exact h.wf j g hj h0
        · rw [List.getElem?_append_right (by omega)] at hj
          have : j - r.groups.length = 0 ∨ 0 < j - r.groups.length := by omega
          rcases this with h1 | h1
          · rw [h1] at hj
            simp only [List.getElem?_cons_zero, Option.some.injEq] at hj
            subst hj; simp at h0
          · rw [List.getElem?_eq_none (by simp; omega)] at hj; cases hj
      · intro e he
        simp only [List.mem_cons] at he
        rcases he with rfl | he
        · refine ⟨by simp, Nat.le_refl _, ?_, ?_⟩
          · intro g hg
            rw [List.getElem?_append_right (Nat.le_refl _)] at hg
            simp only [Nat.sub_self, List.getElem?_cons_zero, Option.some.injEq] at hg
            subst hg; rfl
          · intro j g hj hg h0
            rw [List.getElem?_append_left hj] at hg
            exact (h.wf j g hg h0).2
        · obtain ⟨a, b, c, d⟩ := h.stk e he
          refine ⟨by simp only [List.length_append, List.length_singleton]; omega, b, ?_, ?_⟩
          · intro g hg; rw [List.getElem?_append_left a] at hg; exact c g hg
          · intro j g hj hg h0; rw [List.getElem?_append_left (by omega)] at hg; exact d j g hj hg h0
      · refine List.Pairwise.cons ?_ h.sorted
        intro e he
        obtain ⟨a, b, _, _⟩ := h.stk e he
        exact ⟨a, b⟩
    | cls d =>
      cases st with
      | nil => simp only [pruneGoT]; exact ih r [] h
      | cons e st =>
        obtain ⟨i, b⟩ := e
        obtain ⟨hi, hb, hbeg, hbelow⟩ := h.stk (i, b) List.mem_cons_self
        have hsort := List.pairwise_cons.mp h.sorted
        simp only [pruneGoT]
        by_cases hd : d = true
        · simp only [hd, if_true]
          apply ih
          refine ⟨?_, ?_, hsort.2⟩
          · intro j g hj h0
            rw [List.getElem?_take] at hj
            split at hj
            · rename_i hji
              have := h.wf j g hj h0
              have := hbelow j g hji hj h0
              simp only [List.length_take]; omega
            · cases hj
          · intro e' he'
            obtain ⟨a', b', c', d'⟩ := h.stk e' (List.mem_cons_of_mem _ he')
            have hlt := hsort.1 e' he'
            simp only at hlt hi hb
            refine ⟨by simp only [List.length_take]; omega, by simp only [List.length_take]; omega, ?_, ?_⟩
            · intro g hg
              rw [List.getElem?_take, if_pos hlt.1] at hg
              exact c' g hg
            · intro j g hj hg h0
              rw [List.getElem?_take, if_pos (by omega)] at hg
              exact d' j g hj hg h0
        · simp only [hd, Bool.false_eq_true, if_false]
          apply ih
          refine ⟨?_, ?_, hsort.2⟩
          · intro j g hj h0
            rw [List.getElem?_modify] at hj
            cases hg : r.groups[j]? with
            | none => rw [hg] at hj; cases hj
            | some g0 =>
              rw [hg] at hj
              simp only [Option.map_eq_map, Option.map_some, Option.some.injEq] at hj
              by_cases hij : i = j
              · subst hij
                simp only [if_true] at hj
                subst hj
                have := hbeg g0 hg
                simp only at this hb ⊢
                constructor
                · simp; omega
                · simp
              · simp only [hij, if_false] at hj
                subst hj
                exact h.wf j g0 hg h0
          · intro e' he'
            obtain ⟨a', b', c', d'⟩ := h.stk e' (List.mem_cons_of_mem _ he')
            have hlt := hsort.1 e' he'
            simp only at hlt
            refine ⟨by rw [List.length_modify]; exact a', b', ?_, ?_⟩
            · intro g hg
              rw [List.getElem?_modify] at hg
              cases hg0 : r.groups[e'.1]? with
              | none => rw [hg0] at hg; cases hg
              | some g0 =>
                rw [hg0] at hg
                have hne : ¬ i = e'.1 := by omega
                simp only [Option.map_eq_map, Option.map_some, hne, if_false, Option.some.injEq] at hg
                subst hg; exact c' g0 hg0
            · intro j g hj hg h0
              rw [List.getElem?_modify] at hg
              cases hg0 : r.groups[j]? with
              | none => rw [hg0] at hg; cases hg
              | some g0 =>
                rw [hg0] at hg
                have hne : ¬ i = j := by omega
                simp only [Option.map_eq_map, Option.map_some, hne, if_false, Option.some.injEq] at hg
                subst hg; exact d' j g0 hj hg0 h0
    | abort =>
      simp only [pruneGoT]
      apply ih
      cases st with
      | nil => exact h
      | cons e st =>
        exact ⟨h.wf, fun e' he' => h.stk e' (List.mem_cons_of_mem _ he'), (List.pairwise_cons.mp h.sorted).2⟩

/-- **`prune()` leaves every finished group inside the data**, for every recording whatsoever -/
theorem prunedOfToks_wf (ts : List Tok) : RecWF (prunedOfToks ts) :=
  pinv_go ts .empty [] (PInv.mk (fun j g hj => by simp [Rec.empty] at hj) (fun e he => by cases he) List.Pairwise.nil)


end Rapid
