/-
  RapidProofs.ContractsFloat — `genUfloatRange` / `genFloatRange` (floats.go): for EVERY bit
  source the float handed on lies in `[min, max]` (in the order of the real numbers), is not a
  NaN, and no internal assertion fires — or the draw ends with invalid data.
-/
import RapidProofs.ContractsInt
import RapidProofs.FloatBits

namespace Rapid

/-! ### the loop that clears low bits -/

theorem clearLow_bounds (sfMin : UInt64) : ∀ (cnt i : Nat) (sf : UInt64), sfMin ≤ sf →
    sfMin ≤ clearLow sfMin cnt i sf ∧ clearLow sfMin cnt i sf ≤ sf := by
  intro cnt
  induction cnt with
  | zero => intro i sf h; exact ⟨h, UInt64.le_refl _⟩
  | succ n ih =>
    intro i sf h
    simp only [clearLow]
    split
    · exact ⟨h, UInt64.le_refl _⟩
    · rename_i hlt
      have h1 : sfMin ≤ sf &&& ~~~((1 : UInt64) <<< i.toUInt64) := by
        rw [UInt64.le_iff_toNat_le]; rw [UInt64.lt_iff_toNat_lt] at hlt; omega
      have ⟨h2, h3⟩ := ih (i + 1) _ h1
      exact ⟨h2, UInt64.le_trans h3 UInt64.and_le_left⟩

/-! ### the two switches -/

/-- what is known about the parts `p0` of `min` and `p1` of `max` -/
structure BoundsOK (f : FFmt) (p0 p1 : Int × UInt64 × UInt64) : Prop where
  ok0 : PartsOK f p0.1 p0.2.1.toNat p0.2.2.toNat
  ok1 : PartsOK f p1.1 p1.2.1.toNat p1.2.2.toNat
  hE : p0.1 ≤ p1.1
  hlex : p0.1 = p1.1 → (p0.2.1.toNat < p1.2.1.toNat ∨ (p0.2.1.toNat = p1.2.1.toNat ∧ p0.2.2.toNat ≤ p1.2.2.toNat))

/-- the exponent drawn, with the meaning of its overflow flags -/
structure ExpOK (p0 p1 : Int × UInt64 × UInt64) (e : Int) (l r : Bool) : Prop where
  lo : p0.1 ≤ e
  hi : e ≤ p1.1
  hl : l = true → e = p0.1
  hr : r = true → e = p1.1

theorem u64_eq_iff (a b : UInt64) : a = b ↔ a.toNat = b.toNat := UInt64.toNat_inj.symm

theorem siBounds_spec (f : FFmt) (hf : f.WF) {p0 p1 : Int × UInt64 × UInt64} (hb : BoundsOK f p0 p1)
    {e : Int} {l r : Bool} (he : ExpOK p0 p1 e l r) :
    (siBounds f.S p0 p1 e l r).1.toNat ≤ (siBounds f.S p0 p1 e l r).2.toNat ∧
    (siBounds f.S p0 p1 e l r).2.toNat < 2 ^ (f.S - fracBits e f.S) ∧
    (p0.1 = e → p0.2.1.toNat ≤ (siBounds f.S p0 p1 e l r).1.toNat) ∧
    (e = p1.1 → (siBounds f.S p0 p1 e l r).2.toNat ≤ p1.2.1.toNat) := by
  obtain ⟨E0, I0, F0⟩ := p0
  obtain ⟨E1, I1, F1⟩ := p1
  have h0 := hb.ok0.si_lt; have h1 := hb.ok1.si_lt
  have hE := hb.hE; have hlex := hb.hlex
  have hlo := he.lo; have hhi := he.hi; have hl := he.hl; have hr := he.hr
  dsimp only at *
  have hS : f.S - fracBits e f.S < 64 := by have := hf.hSE; omega
  have hQ : 0 < 2 ^ (f.S - fracBits e f.S) := Nat.two_pow_pos _
  unfold siBounds
  dsimp only
  by_cases c1 : l = true
  · have := hl c1; subst this
    simp only [c1, if_true]
    refine ⟨Nat.le_refl _, h0, fun _ => Nat.le_refl _, fun h => ?_⟩
    have := hlex h; omega
  · simp only [c1]
    by_cases c2 : r = true
    · have := hr c2; subst this
      simp only [c2, if_true, Bool.false_eq_true, if_false]
      refine ⟨Nat.le_refl _, h1, fun h => ?_, fun _ => Nat.le_refl _⟩
      have := hlex h; omega
    · simp only [c2, Bool.false_eq_true, if_false]
      by_cases c3 : E0 = E1
      · subst c3
        have : e = E0 := by omega
        subst this
        simp only [if_true]
        have := hlex rfl
        exact ⟨by omega, h1, fun _ => Nat.le_refl _, fun _ => Nat.le_refl _⟩
      · simp only [c3, if_false]
        by_cases c4 : e = E0
        · subst c4
          simp only [if_true]
          rw [bitmask64_toNat hS]
          exact ⟨by omega, by omega, fun _ => Nat.le_refl _, fun h => absurd h c3⟩
        · simp only [c4, if_false]
          by_cases c5 : e = E1
          · subst c5
            simp only [if_true]
            exact ⟨by simp, h1, fun h => absurd h.symm c4, fun _ => Nat.le_refl _⟩
          · simp only [c5, if_false]
            rw [bitmask64_toNat hS]
            exact ⟨by simp, by omega, fun h => absurd h.symm c4, fun h => h.elim⟩

theorem sfBounds_spec (f : FFmt) (hf : f.WF) {p0 p1 : Int × UInt64 × UInt64} (hb : BoundsOK f p0 p1)
    {e : Int} {l r : Bool} (he : ExpOK p0 p1 e l r) {si : UInt64}
    (hsi1 : (siBounds f.S p0 p1 e l r).1.toNat ≤ si.toNat) (hsi2 : si.toNat ≤ (siBounds f.S p0 p1 e l r).2.toNat) :
    (sfBounds f.S p0 p1 e l r si).1.toNat ≤ (sfBounds f.S p0 p1 e l r si).2.toNat ∧
    (sfBounds f.S p0 p1 e l r si).2.toNat < 2 ^ fracBits e f.S ∧
    (p0.1 = e ∧ p0.2.1.toNat = si.toNat → p0.2.2.toNat ≤ (sfBounds f.S p0 p1 e l r si).1.toNat) ∧
    (e = p1.1 ∧ si.toNat = p1.2.1.toNat → (sfBounds f.S p0 p1 e l r si).2.toNat ≤ p1.2.2.toNat) := by
  obtain ⟨E0, I0, F0⟩ := p0
  obtain ⟨E1, I1, F1⟩ := p1
  have h0 := hb.ok0.sf_lt; have h1 := hb.ok1.sf_lt
  have hE := hb.hE; have hlex := hb.hlex
  have hlo := he.lo; have hhi := he.hi; have hl := he.hl; have hr := he.hr
  dsimp only at *
  have hS : fracBits e f.S < 64 := by have := hf.hSE; have := fracBits_le e f.S; omega
  have hP : 0 < 2 ^ fracBits e f.S := Nat.two_pow_pos _
  unfold sfBounds
  unfold siBounds at hsi1 hsi2
  dsimp only at *
  by_cases c1 : l = true
  · have := hl c1; subst this
    simp only [c1, if_true] at hsi1 hsi2 ⊢
    refine ⟨Nat.le_refl _, h0, fun _ => Nat.le_refl _, fun h => ?_⟩
    have := hlex h.1; omega
  · simp only [c1] at hsi1 hsi2 ⊢
    by_cases c2 : r = true
    · have := hr c2; subst this
      simp only [c2, if_true, Bool.false_eq_true, if_false] at hsi1 hsi2 ⊢
      refine ⟨Nat.le_refl _, h1, fun h => ?_, fun _ => Nat.le_refl _⟩
      have := hlex h.1; omega
    · simp only [c2, Bool.false_eq_true, if_false] at hsi1 hsi2 ⊢
      by_cases c3 : E0 = E1 ∧ I0 = I1
      · obtain ⟨rfl, rfl⟩ := c3
        have : e = E0 := by omega
        subst this
        simp only [and_self, if_true]
        have := hlex rfl
        exact ⟨by omega, h1, fun _ => Nat.le_refl _, fun _ => Nat.le_refl _⟩
      · simp only [c3, if_false]
        by_cases c4 : e = E0 ∧ si = I0
        · obtain ⟨rfl, rfl⟩ := c4
          simp only [and_self, if_true]
          rw [bitmask64_toNat hS]
          refine ⟨by omega, by omega, fun _ => Nat.le_refl _, fun h => ?_⟩
          exact absurd ⟨h.1, (u64_eq_iff _ _).mpr h.2⟩ c3
        · simp only [c4, if_false]
          by_cases c5 : e = E1 ∧ si = I1
          · obtain ⟨rfl, rfl⟩ := c5
            simp only [and_self, if_true]
            refine ⟨by simp, h1, fun h => ?_, fun _ => Nat.le_refl _⟩
            exact absurd ⟨h.1.symm, ((u64_eq_iff _ _).mpr h.2).symm⟩ c4
          · simp only [c5, if_false]
            rw [bitmask64_toNat hS]
            refine ⟨by simp, by omega, fun h => ?_, fun h => ?_⟩
            · exact absurd ⟨h.1.symm, ((u64_eq_iff _ _).mpr h.2).symm⟩ c4
            · exact absurd ⟨h.1, (u64_eq_iff _ _).mpr h.2⟩ c5

/-! ### the significand -/

/-- the pair (integer, fractional significand) is valid for exponent `e` and lies between the
    pairs of `min` (if `e` is its exponent) and of `max` (if `e` is its exponent) -/
def SignifOK (f : FFmt) (p0 p1 : Int × UInt64 × UInt64) (e : Int) (x : UInt64 × UInt64) : Prop :=
  PartsOK f e x.1.toNat x.2.toNat ∧
  (p0.1 = e → (p0.2.1.toNat < x.1.toNat ∨ (p0.2.1.toNat = x.1.toNat ∧ p0.2.2.toNat ≤ x.2.toNat))) ∧
  (e = p1.1 → (x.1.toNat < p1.2.1.toNat ∨ (x.1.toNat = p1.2.1.toNat ∧ x.2.toNat ≤ p1.2.2.toNat)))

theorem yields_ufloatSignif (ft : FT) (f : FFmt) (hf : f.WF) {p0 p1 : Int × UInt64 × UInt64} (hb : BoundsOK f p0 p1)
    {e : Int} {l r : Bool} (he : ExpOK p0 p1 e l r) (fuel : Nat) :
    Yields (ufloatSignif ft f.S p0 p1 e l r fuel) (SignifOK f p0 p1 e) := by
  have hsi := siBounds_spec f hf hb he
  have hrange1 : (siBounds f.S p0 p1 e l r).1 ≤ (siBounds f.S p0 p1 e l r).2 := UInt64.le_iff_toNat_le.mpr hsi.1
  refine Yields.bind (p := fun (k1 : UInt64 × Bool × Bool → Prog) =>
      uintRange ft (siBounds f.S p0 p1 e l r).1 (siBounds f.S p0 p1 e l r).2 false fuel (fun u l r => k1 (u, l, r)))
    (q := fun x k =>
      uintNoReject (UInt64.ofNat (len64 ((sfBounds f.S p0 p1 e l r x.1).2 - (sfBounds f.S p0 p1 e l r x.1).1))) fun r' =>
        uintRange ft (sfBounds f.S p0 p1 e l r x.1).1 (sfBounds f.S p0 p1 e l r x.1).2 false fuel fun sf _ _ =>
          k (x.1, clearLow (sfBounds f.S p0 p1 e l r x.1).1
            (len64 ((sfBounds f.S p0 p1 e l r x.1).2 - (sfBounds f.S p0 p1 e l r x.1).1) - r'.toNat) 0 sf))
    (yields_uintRange ft _ _ false fuel hrange1) ?_
  intro x ⟨hx1, hx2⟩
  have hsf := sfBounds_spec f hf hb he (UInt64.le_iff_toNat_le.mp hx1) (UInt64.le_iff_toNat_le.mp hx2)
  have hrange2 : (sfBounds f.S p0 p1 e l r x.1).1 ≤ (sfBounds f.S p0 p1 e l r x.1).2 := UInt64.le_iff_toNat_le.mpr hsf.1
  refine Yields.bind (yields_uintNoReject _) (fun r' _ => ?_)
  refine ((yields_uintRange ft _ _ false fuel hrange2).map (fun (y : UInt64 × Bool × Bool) =>
      (x.1, clearLow (sfBounds f.S p0 p1 e l r x.1).1
        (len64 ((sfBounds f.S p0 p1 e l r x.1).2 - (sfBounds f.S p0 p1 e l r x.1).1) - r'.toNat) 0 y.1))).mono ?_
  rintro _ ⟨y, ⟨hy1, hy2⟩, rfl⟩
  have ⟨hc1, hc2⟩ := clearLow_bounds (sfBounds f.S p0 p1 e l r x.1).1
    (len64 ((sfBounds f.S p0 p1 e l r x.1).2 - (sfBounds f.S p0 p1 e l r x.1).1) - r'.toNat) 0 y.1 hy1
  have hx1' := UInt64.le_iff_toNat_le.mp hx1; have hx2' := UInt64.le_iff_toNat_le.mp hx2
  have hy2' := UInt64.le_iff_toNat_le.mp hy2
  have hc1' := UInt64.le_iff_toNat_le.mp hc1; have hc2' := UInt64.le_iff_toNat_le.mp hc2
  have h00 := hb.ok0.e_lo; have h11 := hb.ok1.e_hi; have h10 := hb.ok1.e_lo
  refine ⟨⟨by have := he.lo; omega, by have := he.hi; omega, by dsimp only; omega, by dsimp only; omega⟩, ?_, ?_⟩
  · intro h
    have a1 := hsi.2.2.1 h
    dsimp only
    by_cases heq : p0.2.1.toNat = x.1.toNat
    · right; refine ⟨heq, ?_⟩
      have := hsf.2.2.1 ⟨h, heq⟩; omega
    · left; omega
  · intro h
    have a1 := hsi.2.2.2 h
    dsimp only
    by_cases heq : x.1.toNat = p1.2.1.toNat
    · right; refine ⟨heq, ?_⟩
      have := hsf.2.2.2 ⟨h, heq⟩; omega
    · left; omega

/-! ### `genUfloatRange` -/

/-- exponents of the format are small -/
theorem nE_small (f : FFmt) (hf : f.WF) {u : Nat} (hu : u < 2 ^ (f.S + f.E)) : -2 ^ 63 ≤ nE f u ∧ nE f u < 2 ^ 63 := by
  have hok := (parts_ok f u hu).1
  have h1 := hok.e_lo; have h2 := hok.e_hi
  have hE := hf.hE; have hSE := hf.hSE
  have hbl : f.bias < 2 ^ 62 := by
    rw [f.bias_eq hf]
    have : 2 ^ (f.E - 1) ≤ 2 ^ 62 := Nat.pow_le_pow_right (by decide) (by omega)
    omega
  have hElt : 2 ^ f.E ≤ 2 ^ 63 := Nat.pow_le_pow_right (by decide) (by omega)
  omega

theorem boundsOK_of_le (f : FFmt) (hf : f.WF) (min max : UInt64) (hle : (f.mag min).toNat ≤ (f.mag max).toNat) :
    BoundsOK f (f.parts min) (f.parts max) := by
  obtain ⟨a0, b0, c0⟩ := parts_spec f hf min
  obtain ⟨a1, b1, c1⟩ := parts_spec f hf max
  have ok0 := parts_ok f _ (f.mag_lt hf min)
  have ok1 := parts_ok f _ (f.mag_lt hf max)
  have hl := parts_le_of f hle
  refine ⟨?_, ?_, ?_, ?_⟩
  · rw [a0, b0, c0]; exact ok0.1
  · rw [a1, b1, c1]; exact ok1.1
  · rw [a0, a1]; exact hl.1
  · rw [a0, a1, b0, b1, c0, c1]; exact hl.2

def encTri (a : Int64 × Bool × Bool) : Val := vTri a.1.toInt a.2.1 a.2.2
def encPair (x : UInt64 × UInt64) : Val := .cons (uv x.1) (.cons (uv x.2) .nil)

theorem vTriGet_enc (a : Int64 × Bool × Bool) : vTriGet (encTri a) = (a.1.toInt, a.2.1, a.2.2) := rfl
theorem vPairGet_enc (x : UInt64 × UInt64) : vPairGet (encPair x) = x := by
  simp [vPairGet, encPair, vu_uv]

/-- what `genUfloatRange` hands on denotes a magnitude between those of `min` and `max` -/
def UfloatOK (f : FFmt) (min max : UInt64) (x : Int × UInt64 × UInt64) : Prop :=
  PartsOK f x.1 x.2.1.toNat x.2.2.toNat ∧
  (f.mag min).toNat ≤ fval f x.1 x.2.1.toNat x.2.2.toNat ∧
  fval f x.1 x.2.1.toNat x.2.2.toNat ≤ (f.mag max).toNat

theorem yields_ufloatRange (ft : FT) (f : FFmt) (hf : f.WF) (min max : UInt64) (fuel : Nat)
    (hassert : (f.ge0 min && f.fle min max) = true) (hle : (f.mag min).toNat ≤ (f.mag max).toNat) :
    Yields (fun (k : Int × UInt64 × UInt64 → Prog) => ufloatRange ft f min max fuel (fun e si sf => k (e, si, sf)))
      (UfloatOK f min max) := by
  have hb := boundsOK_of_le f hf min max hle
  obtain ⟨a0, b0, c0⟩ := parts_spec f hf min
  obtain ⟨a1, b1, c1⟩ := parts_spec f hf max
  have s0 := nE_small f hf (f.mag_lt hf min)
  have s1 := nE_small f hf (f.mag_lt hf max)
  rw [← a0] at s0; rw [← a1] at s1
  have r0 : (Int64.ofInt (f.parts min).1).toInt = (f.parts min).1 := Int64.toInt_ofInt_of_le s0.1 s0.2
  have r1 : (Int64.ofInt (f.parts max).1).toInt = (f.parts max).1 := Int64.toInt_ofInt_of_le s1.1 s1.2
  have hmm : Int64.ofInt (f.parts min).1 ≤ Int64.ofInt (f.parts max).1 := by
    rw [Int64.le_iff_toInt_le, r0, r1]; exact hb.hE
  have Y1 := (yields_intRange_flags ft _ _ fuel hmm).group floatExpLabel false encTri
  have Y : Yields (fun (k : Int × UInt64 × UInt64 → Prog) =>
      Prog.group floatExpLabel false
        (intRange ft (Int64.ofInt (f.parts min).1) (Int64.ofInt (f.parts max).1) fuel fun e l r => .ret (encTri (e, l, r)))
        (fun _ => false)
        (fun v => Prog.group floatSignifLabel false
          (ufloatSignif ft f.S (f.parts min) (f.parts max) (vTriGet v).1 (vTriGet v).2.1 (vTriGet v).2.2 fuel
            fun x => .ret (encPair x))
          (fun _ => false)
          (fun v2 => k ((vTriGet v).1, (vPairGet v2).1, (vPairGet v2).2)))) (UfloatOK f min max) := by
    refine Yields.bind Y1 ?_
    rintro _ ⟨a, ⟨⟨ha1, ha2⟩, hfl, hfr⟩, rfl⟩
    rw [vTriGet_enc]
    have he : ExpOK (f.parts min) (f.parts max) a.1.toInt a.2.1 a.2.2 := by
      refine ⟨?_, ?_, ?_, ?_⟩
      · rw [← r0]; exact Int64.le_iff_toInt_le.mp ha1
      · rw [← r1]; exact Int64.le_iff_toInt_le.mp ha2
      · intro h; rw [hfl h]; exact r0
      · intro h; rw [hfr h]; exact r1
    have Y2 := ((yields_ufloatSignif ft f hf hb he fuel).group floatSignifLabel false encPair).map
      (fun v2 => (a.1.toInt, (vPairGet v2).1, (vPairGet v2).2))
    refine Y2.mono ?_
    rintro _ ⟨_, ⟨x, ⟨hok, hlo, hhi⟩, rfl⟩, rfl⟩
    rw [vPairGet_enc]
    have ok0 := parts_ok f _ (f.mag_lt hf min)
    have ok1 := parts_ok f _ (f.mag_lt hf max)
    refine ⟨hok, ?_, ?_⟩
    · rw [← ok0.2, ← a0, ← b0, ← c0]
      apply fval_le_of f hb.ok0 hok
      rcases Int.lt_or_eq_of_le he.lo with h | h
      · exact Or.inl h
      · right; refine ⟨h, ?_⟩
        rw [← h]
        exact pair_le hb.ok0.sf_lt (hlo h)
    · rw [← ok1.2, ← a1, ← b1, ← c1]
      apply fval_le_of f hok hb.ok1
      rcases Int.lt_or_eq_of_le he.hi with h | h
      · exact Or.inl h
      · right; refine ⟨h, ?_⟩
        rw [← h]
        exact pair_le hok.sf_lt (hhi h)
  intro k src ts
  have := Y k src ts
  simp only [ufloatRange, hassert, Bool.not_true, Bool.false_eq_true, if_false]
  exact this

/-! ### `genFloatRange`, `Float32Range` / `Float64Range` -/

/-- the contract of the float generators on bit patterns: inside `[min, max]` in the order of the
    real numbers (with `-0 = +0`), and not a NaN -/
def FloatOK (f : FFmt) (min max b : UInt64) : Prop :=
  f.fle min b = true ∧ f.fle b max = true ∧ f.isNaN b = false

theorem fromParts_spec (f : FFmt) (hf : f.WF) (sign : Bool) {e : Int} {si sf : UInt64}
    (hok : PartsOK f e si.toNat sf.toNat) :
    (f.mag (f.fromParts sign e si sf)).toNat = fval f e si.toNat sf.toNat ∧
    f.isNeg (f.fromParts sign e si sf) = sign := by
  have hv := ufromParts_toNat f hf hok
  have hlt : (f.ufromParts e si sf).toNat < 2 ^ (f.S + f.E) := by rw [hv]; exact fval_lt f hok
  cases sign
  · simp only [FFmt.fromParts, Bool.false_eq_true, if_false]
    rw [f.mag_of_lt hf hlt, f.isNeg_of_lt hf hlt]; exact ⟨hv, rfl⟩
  · simp only [FFmt.fromParts, if_true]
    rw [f.mag_fneg hf, f.isNeg_fneg hf, f.mag_of_lt hf hlt, f.isNeg_of_lt hf hlt]; exact ⟨hv, rfl⟩

theorem u64_beq_zero (x : UInt64) : (x == 0) = decide (x.toNat = 0) := by
  by_cases h : x = 0
  · subst h; rfl
  · have : ¬ x.toNat = 0 := fun h0 => h (UInt64.toNat_inj.mp (by rw [h0]; rfl))
    simp [h, this]

theorem FFmt.isNaN_iff (f : FFmt) (b : UInt64) : f.isNaN b = decide ((f.mag b).toNat > f.inf.toNat) := by
  simp only [FFmt.isNaN, gt_iff_lt, UInt64.lt_iff_toNat_lt]

theorem FFmt.mag_zero (f : FFmt) : f.mag 0 = 0 := by
  simp [FFmt.mag]

theorem FFmt.isNeg_zero (f : FFmt) : f.isNeg 0 = false := by
  simp [FFmt.isNeg]

/-- the key of a number with sign `n` and magnitude `m` -/
def K (n : Bool) (m : Nat) : Int := if n then -(m : Int) else m

theorem FFmt.key_eq (f : FFmt) (b : UInt64) : f.key b = K (f.isNeg b) (f.mag b).toNat := rfl
theorem FFmt.ge0_eq (f : FFmt) (b : UInt64) : f.ge0 b = (!f.isNeg b || decide ((f.mag b).toNat = 0)) := by
  simp only [FFmt.ge0, u64_beq_zero]
theorem FFmt.le0_eq (f : FFmt) (b : UInt64) : f.le0 b = (f.isNeg b || decide ((f.mag b).toNat = 0)) := by
  simp only [FFmt.le0, u64_beq_zero]
theorem FFmt.fle_eq (f : FFmt) (a b : UInt64) :
    f.fle a b = decide (K (f.isNeg a) (f.mag a).toNat ≤ K (f.isNeg b) (f.mag b).toNat) := rfl

theorem FFmt.ge0_fneg (f : FFmt) (hf : f.WF) (b : UInt64) : f.ge0 (f.fneg b) = f.le0 b := by
  rw [f.ge0_eq, f.le0_eq, f.isNeg_fneg hf, f.mag_fneg hf]; simp
theorem FFmt.fle_fneg (f : FFmt) (hf : f.WF) (a b : UInt64) : f.fle (f.fneg a) (f.fneg b) = f.fle b a := by
  simp only [FFmt.fle, f.key_fneg hf, Int.neg_le_neg_iff]

theorem K_case1 {n0 n1 : Bool} {m0 m1 I : Nat} (hge : (!n0 || decide (m0 = 0)) = true) (hfle : K n0 m0 ≤ K n1 m1)
    (h1 : m1 ≤ I) :
    m0 ≤ m1 ∧ ∀ v : Nat, m0 ≤ v → v ≤ m1 → (K n0 m0 ≤ K false v ∧ K false v ≤ K n1 m1 ∧ v ≤ I) := by
  cases n0 <;> cases n1 <;> simp only [K, Bool.false_eq_true, if_false, if_true] at hfle ⊢ <;> simp at hge <;>
    (refine ⟨?_, fun v hv1 hv2 => ⟨?_, ?_, ?_⟩⟩ <;> omega)

theorem K_case2 {n0 n1 : Bool} {m0 m1 I : Nat} (hge : (!n0 || decide (m0 = 0)) = false)
    (hle : (n1 || decide (m1 = 0)) = true) (hfle : K n0 m0 ≤ K n1 m1) (h0 : m0 ≤ I) :
    m1 ≤ m0 ∧ ∀ v : Nat, m1 ≤ v → v ≤ m0 → (K n0 m0 ≤ K true v ∧ K true v ≤ K n1 m1 ∧ v ≤ I) := by
  cases n0 <;> cases n1 <;> simp only [K, Bool.false_eq_true, if_false, if_true] at hfle ⊢ <;> simp at hge hle <;>
    (refine ⟨?_, fun v hv1 hv2 => ⟨?_, ?_, ?_⟩⟩ <;> omega)

theorem K_case3 {n0 n1 : Bool} {m0 m1 I : Nat} (hge : (!n0 || decide (m0 = 0)) = false)
    (hle : (n1 || decide (m1 = 0)) = false) (h0 : m0 ≤ I) (h1 : m1 ≤ I) :
    n0 = true ∧ n1 = false ∧
    (∀ v : Nat, v ≤ m1 → (K n0 m0 ≤ K false v ∧ K false v ≤ K n1 m1 ∧ v ≤ I)) ∧
    (∀ v : Nat, v ≤ m0 → (K n0 m0 ≤ K true v ∧ K true v ≤ K n1 m1 ∧ v ≤ I)) := by
  cases n0 <;> cases n1 <;> simp only [K, Bool.false_eq_true, if_false, if_true] <;> simp at hge hle <;>
    (refine ⟨trivial, trivial, fun v hv => ⟨?_, ?_, ?_⟩, fun v hv => ⟨?_, ?_, ?_⟩⟩ <;> omega)

/-- **Float32Range / Float64Range**: for every bit source, bounds and format — a float in
    `[min, max]` that is not a NaN, or invalid data; never an assertion -/
theorem yields_floatValue (ft : FT) (f : FFmt) (hf : f.WF) (min max : UInt64) (fuel : Nat)
    (hok : floatRangeOK f min max = true) :
    Yields (floatValue ft f min max fuel) (FloatOK f min max) := by
  simp only [floatRangeOK, Bool.and_eq_true, Bool.not_eq_true'] at hok
  obtain ⟨⟨hn0, hn1⟩, hfle⟩ := hok
  simp only [f.isNaN_iff, decide_eq_false_iff_not, Nat.not_lt, gt_iff_lt] at hn0 hn1
  have hfleK : K (f.isNeg min) (f.mag min).toNat ≤ K (f.isNeg max) (f.mag max).toNat := by
    rw [f.fle_eq] at hfle; exact of_decide_eq_true hfle
  -- one call of genUfloatRange with sign `neg`
  have main : ∀ (neg : Bool) (lo hi : UInt64), (f.ge0 lo && f.fle lo hi) = true → (f.mag lo).toNat ≤ (f.mag hi).toNat →
      (∀ v : Nat, (f.mag lo).toNat ≤ v → v ≤ (f.mag hi).toNat →
        (f.key min ≤ K neg v ∧ K neg v ≤ f.key max ∧ v ≤ f.inf.toNat)) →
      Yields (fun k => ufloatRange ft f lo hi fuel (fun e si sf => k (f.fromParts neg e si sf))) (FloatOK f min max) := by
    intro neg lo hi hassert hle hv
    refine ((yields_ufloatRange ft f hf lo hi fuel hassert hle).map
      (fun x => f.fromParts neg x.1 x.2.1 x.2.2)).mono ?_
    rintro _ ⟨x, ⟨hpok, h1, h2⟩, rfl⟩
    obtain ⟨hm, hs⟩ := fromParts_spec f hf neg hpok
    obtain ⟨a, b, c⟩ := hv _ h1 h2
    have hkey : f.key (f.fromParts neg x.1 x.2.1 x.2.2) = K neg (fval f x.1 x.2.1.toNat x.2.2.toNat) := by
      rw [f.key_eq, hs, hm]
    refine ⟨?_, ?_, ?_⟩
    · simp only [FFmt.fle, decide_eq_true_eq]; rw [hkey]; exact a
    · simp only [FFmt.fle, decide_eq_true_eq]; rw [hkey]; exact b
    · rw [f.isNaN_iff, hm]; simp only [gt_iff_lt, decide_eq_false_iff_not, Nat.not_lt]; exact c
  -- the sign coin and the two branches
  unfold floatValue floatRange
  refine Yields.bind (p := coin _) (q := fun neg k =>
      if neg = true then ufloatRange ft f (if f.ge0 min then 0 else if f.le0 max then f.fneg max else 0) (f.fneg min) fuel
          (fun e si sf => k (f.fromParts true e si sf))
      else ufloatRange ft f (if f.ge0 min then min else 0) max fuel (fun e si sf => k (f.fromParts false e si sf)))
    (yields_coin _) ?_
  intro neg ⟨hnev, halw⟩
  by_cases hge : f.ge0 min = true
  · -- min ≥ 0: never negative
    have : neg = false := hnev (by simp [hge])
    subst this
    simp only [Bool.false_eq_true, if_false, hge, if_true]
    have hc := K_case1 (by rw [← f.ge0_eq]; exact hge) hfleK hn1
    exact main false min max (by simp [hge, hfle]) hc.1 (by rw [f.key_eq, f.key_eq]; exact hc.2)
  · simp only [Bool.not_eq_true] at hge
    simp only [hge, Bool.false_eq_true, if_false]
    by_cases hle0 : f.le0 max = true
    · -- max ≤ 0: always negative
      have : neg = true := halw (by simp [hge, hle0])
      subst this
      simp only [if_true, hle0]
      have hc := K_case2 (by rw [← f.ge0_eq]; exact hge) (by rw [← f.le0_eq]; exact hle0) hfleK hn0
      refine main true (f.fneg max) (f.fneg min) ?_ ?_ ?_
      · rw [f.ge0_fneg hf, f.fle_fneg hf]; simp [hle0, hfle]
      · rw [f.mag_fneg hf, f.mag_fneg hf]; exact hc.1
      · rw [f.mag_fneg hf, f.mag_fneg hf, f.key_eq, f.key_eq]; exact hc.2
    · -- min < 0 < max
      simp only [Bool.not_eq_true] at hle0
      simp only [hle0, Bool.false_eq_true, if_false]
      obtain ⟨h0, h1, hpos, hneg⟩ := K_case3 (by rw [← f.ge0_eq]; exact hge) (by rw [← f.le0_eq]; exact hle0) hn0 hn1
      cases neg
      · simp only [Bool.false_eq_true, if_false]
        refine main false 0 max ?_ ?_ ?_
        · rw [f.ge0_eq, f.fle_eq, f.isNeg_zero, f.mag_zero, h1]; simp [K]
        · rw [f.mag_zero]; simp
        · intro v _ hv2; rw [f.key_eq, f.key_eq]; exact hpos v hv2
      · simp only [if_true]
        refine main true 0 (f.fneg min) ?_ ?_ ?_
        · rw [f.ge0_eq, f.fle_eq, f.isNeg_zero, f.mag_zero, f.isNeg_fneg hf, f.mag_fneg hf, h0]; simp [K]
        · rw [f.mag_zero]; simp
        · intro v _ hv2; rw [f.mag_fneg hf] at hv2; rw [f.key_eq, f.key_eq]; exact hneg v hv2

end Rapid
