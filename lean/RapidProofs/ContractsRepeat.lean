/-
  RapidProofs.ContractsRepeat — `repeat` (utils.go): whatever the bit source, a collection loop
  hands on an accumulator built from a number of accepted elements between `minCount` and
  `maxCount`, or ends in an error — it never stops early and never runs past the maximum.
-/
import RapidProofs.PruneRepeat
import RapidProofs.ContractsInt

namespace Rapid

/-- `p k` continues as `k a` for some `a` with `P a` (from some later source and `*T`), or ends
    in an error; `k` ranges over every continuation, so in the second case `k` was not called -/
def Reaches {α : Type} (p : (α → Prog) → Prog) (P : α → Prop) : Prop :=
  ∀ (k : α → Prog) (src : Src) (ts : TS),
    (∃ a, P a ∧ ∃ src' ts' used kept toks evs ov,
        (p k).run src ts = ((k a).run src' ts').after used kept toks evs ov) ∨
    (∃ e, ((p k).run src ts).res = .error e)

theorem thrAlways_le (w : UInt64) : thrAlways ≤ w := by
  rw [UInt64.le_iff_toNat_le]; simp [thrAlways]

/-- what one iteration reports, and what that says about the counters -/
theorem iter_cases (c : RCfg) (hmm : c.minC ≤ c.maxC) (step : Val → Prog) (hshape : StepShape step)
    (s : RSt) (acc : Val) (src : Src) (ts : TS) (r : Val)
    (h : ((iterBody c step s acc).run src ts).res = .ok r) :
    (r = rStop ∧ c.minC ≤ s.count) ∨ r = rRej ∨
    (∃ a src1 ts1, r = rAcc a ∧ s.count < c.maxC ∧ ((step acc).run src1 ts1).res = .ok (rAcc a)) := by
  simp only [iterBody] at h
  rw [moreCoin_run] at h
  cases hn : src.next (coinBits c s) with
  | none => simp [hn, Out.ofRes] at h
  | some p =>
    obtain ⟨w, src'⟩ := p
    simp only [hn] at h
    by_cases hd : coinDecision c s w = true
    · simp only [hd, if_true, after_res] at h
      obtain ⟨h1, _, _⟩ := stepG_res c s step acc src' ts r h
      rcases hshape acc src' ts r h1 with h2 | ⟨a, h2⟩
      · exact Or.inr (Or.inl h2)
      · refine Or.inr (Or.inr ⟨a, src', ts, h2, ?_, h2 ▸ h1⟩)
        simp only [coinDecision] at hd
        by_cases hc1 : s.count < c.minC
        · omega
        · simp only [hc1, if_false] at hd
          by_cases hf : s.force = true
          · simp [hf] at hd
          · simp only [hf, Bool.false_eq_true, if_false] at hd
            by_cases hc2 : s.count ≥ c.maxC
            · simp only [hc2, if_true, decide_eq_true_eq] at hd
              have h53 : coinBits c s = 53 := by simp [coinBits, hc1, hf]
              rw [h53] at hn
              have := next53_lt hn
              rw [UInt64.le_iff_toNat_le] at hd; rw [UInt64.lt_iff_toNat_lt] at this; omega
            · omega
    · simp only [hd, if_false, Bool.false_eq_true, after_res, Prog.run, Out.ofRes, Except.ok.injEq] at h
      refine Or.inl ⟨h.symm, ?_⟩
      simp only [coinDecision] at hd
      by_cases hc1 : s.count < c.minC
      · simp [hc1, thrAlways_le] at hd
      · omega

/-- **the contract of every `repeat` loop**: `m` counts accepted elements, `I` is any invariant
    of the accumulator that accepted steps preserve -/
theorem reaches_repeatLoop_inv (c : RCfg) (hmm : c.minC ≤ c.maxC) (step : Val → Prog) (hshape : StepShape step)
    (m : Val → Nat) (I : Val → Prop)
    (hstep : ∀ acc src ts a, I acc → ((step acc).run src ts).res = .ok (rAcc a) → m a = m acc + 1 ∧ I a) :
    ∀ (fuel : Nat) (s : RSt) (acc : Val), s.count ≤ c.maxC → m acc = s.count → I acc →
      Reaches (fun k => repeatLoop c step k fuel s acc) (fun a => c.minC ≤ m a ∧ m a ≤ c.maxC ∧ I a) := by
  intro fuel
  induction fuel with
  | zero => intro s acc _ _ _ k src ts; right; exact ⟨.fuel, rfl⟩
  | succ fuel ih =>
    intro s acc hs hm hI k src ts
    simp only [repeatLoop_succ, Prog.run]
    cases hres : ((iterBody c step s acc).run src ts).res with
    | error e => right; exact ⟨e, by simp [hres]⟩
    | ok r =>
      simp only []
      split
      · right; exact ⟨_, rfl⟩
      · rcases iter_cases c hmm step hshape s acc src ts r hres with ⟨hr, hmin⟩ | hr | ⟨a, src1, ts1, hr, hlt, hst⟩
        · subst hr
          left
          exact ⟨acc, ⟨by omega, by omega, hI⟩, _, _, _, _, _, _, _, rfl⟩
        · subst hr
          simp only [rRej]
          rcases ih { s with rejs := s.rejs + 1, force := s.force || decide (s.rejs + 1 > s.count * 2) } acc hs hm hI k
              ((iterBody c step s acc).run src ts).src ((iterBody c step s acc).run src ts).ts with ⟨a, ha, s', t', u, kk, tk, ev, ov, hrun⟩ | ⟨e, he⟩
          · left
            exact ⟨a, ha, s', t', _, _, _, _, _, (by rw [hrun, after_after])⟩
          · right; exact ⟨e, by simp only [after_res]; exact he⟩
        · subst hr
          simp only [rAcc]
          have hma := hstep acc src1 ts1 a hI hst
          rcases ih { s with count := s.count + 1 } a (by simp; omega) (by simp; omega) hma.2 k
              ((iterBody c step s acc).run src ts).src ((iterBody c step s acc).run src ts).ts with ⟨a', ha, s', t', u, kk, tk, ev, ov, hrun⟩ | ⟨e, he⟩
          · left
            exact ⟨a', ha, s', t', _, _, _, _, _, (by rw [hrun, after_after])⟩
          · right; exact ⟨e, by simp only [after_res]; exact he⟩

/-- the length contract alone -/
theorem reaches_repeatLoop (c : RCfg) (hmm : c.minC ≤ c.maxC) (step : Val → Prog) (hshape : StepShape step)
    (m : Val → Nat)
    (hstep : ∀ acc src ts a, ((step acc).run src ts).res = .ok (rAcc a) → m a = m acc + 1) :
    ∀ (fuel : Nat) (s : RSt) (acc : Val), s.count ≤ c.maxC → m acc = s.count →
      Reaches (fun k => repeatLoop c step k fuel s acc) (fun a => c.minC ≤ m a ∧ m a ≤ c.maxC) := by
  intro fuel s acc hs hm k src ts
  rcases reaches_repeatLoop_inv c hmm step hshape m (fun _ => True)
      (fun acc src ts a _ h => ⟨hstep acc src ts a h, trivial⟩) fuel s acc hs hm trivial k src ts with ⟨a, ha, rest⟩ | h
  · exact Or.inl ⟨a, ⟨ha.1, ha.2.1⟩, rest⟩
  · exact Or.inr h

/-- `find(gen, t, tries)`: a value that is handed on was produced by `body` and accepted by `ok` -/
theorem reaches_findLoop (body : Prog) (ok : Val → Bool) : ∀ n,
    Reaches (fun k => findLoop body ok k n) (fun v => ok v = true ∧ ∃ src ts, (body.run src ts).res = .ok v) := by
  intro n
  induction n with
  | zero => intro k src ts; right; exact ⟨_, rfl⟩
  | succ n ih =>
    intro k src ts
    simp only [findLoop, Prog.run]
    cases hres : (body.run src ts).res with
    | error e => right; exact ⟨e, by simp [hres]⟩
    | ok v =>
      simp only []
      split
      · right; exact ⟨_, rfl⟩
      · by_cases hok : ok v = true
        · left
          simp only [hok, if_true]
          exact ⟨v, ⟨hok, src, ts, hres⟩, _, _, _, _, _, _, _, rfl⟩
        · simp only [hok, Bool.false_eq_true, if_false]
          rcases ih k (body.run src ts).src (body.run src ts).ts with ⟨a, ha, s', t', u, kk, tk, ev, ov, hrun⟩ | ⟨e, he⟩
          · left
            exact ⟨a, ha, s', t', _, _, _, _, _, (by rw [hrun, after_after])⟩
          · right; exact ⟨e, by simp only [after_res]; exact he⟩

end Rapid
