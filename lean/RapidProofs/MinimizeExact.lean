/-
  RapidProofs.MinimizeExact — `minimize u cond` returns exactly the threshold for every
  upward-closed condition `cond x ↔ θ ≤ x` that holds at `u`: the heart of "minimization
  reaches the exact boundary" for a single block.
-/
import RapidModel.Minimize

namespace Rapid

/-- the threshold condition -/
def geCond (θ : UInt64) : UInt64 → Bool := fun x => decide (θ ≤ x)

theorem small_toNat : small.toNat = 5 := rfl

/-- `accept` never goes below the threshold and never increases `best` -/
theorem accept_inv (θ : UInt64) (m : MinSt) (u : UInt64) (h : θ ≤ m.best) :
    θ ≤ (m.accept (geCond θ) u).1.best ∧ (m.accept (geCond θ) u).1.best ≤ m.best := by
  simp only [MinSt.accept]
  split
  · exact ⟨h, UInt64.le_refl _⟩
  · rename_i hg
    split
    · rename_i hc
      simp only [geCond, decide_eq_true_eq] at hc
      refine ⟨hc, ?_⟩
      simp only [not_or, UInt64.not_le, ge_iff_le] at hg
      exact UInt64.le_of_lt hg.1
    · exact ⟨h, UInt64.le_refl _⟩

theorem rShift_inv (θ : UInt64) : ∀ (n : Nat) (m : MinSt), θ ≤ m.best → θ ≤ (rShift (geCond θ) n m).best := by
  intro n
  induction n with
  | zero => intro m h; exact h
  | succ n ih =>
    intro m h
    simp only [rShift]
    have := accept_inv θ m (m.best >>> 1) h
    split
    · exact ih _ this.1
    · exact this.1

theorem unsetBits_inv (θ : UInt64) : ∀ (n : Nat) (m : MinSt), θ ≤ m.best → θ ≤ (unsetBits (geCond θ) n m).best := by
  intro n
  induction n with
  | zero => intro m h; exact h
  | succ n ih => intro m h; simp only [unsetBits]; exact ih _ (accept_inv θ m _ h).1

theorem sortInner_inv (θ : UInt64) (i : Nat) (hh : UInt64) : ∀ (n j : Nat) (m : MinSt), θ ≤ m.best →
    θ ≤ (sortInner (geCond θ) i hh n j m).best := by
  intro n
  induction n with
  | zero => intro j m h; exact h
  | succ n ih =>
    intro j m h
    simp only [sortInner]
    split
    · split
      · have := accept_inv θ m (m.best ^^^ ((1 <<< j.toUInt64) ||| hh)) h
        split
        · exact this.1
        · exact ih _ _ this.1
      · exact ih _ _ h
    · exact h

theorem sortBits_inv (θ : UInt64) : ∀ (n : Nat) (m : MinSt), θ ≤ m.best → θ ≤ (sortBits (geCond θ) n m).best := by
  intro n
  induction n with
  | zero => intro m h; exact h
  | succ n ih =>
    intro m h
    simp only [sortBits]
    apply ih
    split
    · exact sortInner_inv θ _ _ _ _ _ h
    · exact h

/-- what `accept` does with a candidate below `best`, in terms of the threshold -/
theorem accept_below (θ : UInt64) (m : MinSt) (u : UInt64) (hθ : 5 ≤ θ.toNat) (hu : u.toNat < m.best.toNat) :
    (θ ≤ u → (m.accept (geCond θ) u).1.best = u ∧ (m.accept (geCond θ) u).2 = true) ∧
    (¬ θ ≤ u → (m.accept (geCond θ) u).1.best = m.best ∧ (m.accept (geCond θ) u).2 = false) := by
  have hnge : ¬ u ≥ m.best := by rw [ge_iff_le, UInt64.le_iff_toNat_le]; omega
  constructor
  · intro hle
    have hns : ¬ u < small := by
      rw [UInt64.lt_iff_toNat_lt, small_toNat]; rw [UInt64.le_iff_toNat_le] at hle; omega
    simp [MinSt.accept, hnge, hns, geCond, hle]
  · intro hnle
    simp only [MinSt.accept, hnge, false_or]
    split
    · exact ⟨rfl, rfl⟩
    · simp [geCond, hnle]

/-- the binary search: `i ≤ θ ≤ j = best`, width below `2^fuel` -/
theorem binLoop_exact (θ : UInt64) (hθ : 5 ≤ θ.toNat) : ∀ (fuel : Nat) (i j : UInt64) (m : MinSt),
    m.best = j → i.toNat ≤ θ.toNat → θ.toNat ≤ j.toNat → j.toNat - i.toNat < 2 ^ fuel →
    (binLoop (geCond θ) fuel i j m).best = θ := by
  intro fuel
  induction fuel with
  | zero =>
    intro i j m hb hi hj hw
    simp only [binLoop]
    rw [hb]; exact UInt64.toNat_inj.mp (by simp at hw; omega)
  | succ n ih =>
    intro i j m hb hi hj hw
    simp only [binLoop]
    by_cases hlt : i < j
    · simp only [hlt, if_true]
      have hltn : i.toNat < j.toNat := UInt64.lt_iff_toNat_lt.mp hlt
      have hjlt : j.toNat < 2 ^ 64 := j.toNat_lt
      have hsub : (j - i).toNat = j.toNat - i.toNat := UInt64.toNat_sub_of_le _ _ (UInt64.le_of_lt hlt)
      have hdiv : ((j - i) / 2).toNat = (j.toNat - i.toNat) / 2 := by rw [UInt64.toNat_div, hsub]; rfl
      have hh : (i + (j - i) / 2).toNat = i.toNat + (j.toNat - i.toNat) / 2 := by
        rw [UInt64.toNat_add, hdiv]; apply Nat.mod_eq_of_lt; omega
      have hhlt : (i + (j - i) / 2).toNat < m.best.toNat := by rw [hb, hh]; omega
      have hab := accept_below θ m (i + (j - i) / 2) hθ hhlt
      by_cases hle : θ ≤ i + (j - i) / 2
      · obtain ⟨h1, h2⟩ := hab.1 hle
        have hpair : m.accept (geCond θ) (i + (j - i) / 2) = ((m.accept (geCond θ) (i + (j - i) / 2)).1, true) := by
          rw [← h2]
        rw [hpair]
        simp only [if_true]
        apply ih _ _ _ h1 hi
        · rw [hh]; rw [UInt64.le_iff_toNat_le, hh] at hle; exact hle
        · rw [hh]
          have : 2 ^ (n + 1) = 2 * 2 ^ n := by rw [Nat.pow_succ]; omega
          omega
      · obtain ⟨h1, h2⟩ := hab.2 hle
        have hpair : m.accept (geCond θ) (i + (j - i) / 2) = ((m.accept (geCond θ) (i + (j - i) / 2)).1, false) := by
          rw [← h2]
        rw [hpair]
        simp only [Bool.false_eq_true, if_false]
        have hnle : ¬ θ.toNat ≤ i.toNat + (j.toNat - i.toNat) / 2 := by
          rw [UInt64.le_iff_toNat_le, hh] at hle; exact hle
        have h1' : (i + (j - i) / 2 + 1).toNat = i.toNat + (j.toNat - i.toNat) / 2 + 1 := by
          rw [UInt64.toNat_add, hh]; apply Nat.mod_eq_of_lt; simp; omega
        apply ih _ _ _ (h1.trans hb)
        · rw [h1']; omega
        · exact hj
        · rw [h1']
          have : 2 ^ (n + 1) = 2 * 2 ^ n := by rw [Nat.pow_succ]; omega
          omega
    · simp only [hlt, if_false]
      have : ¬ i.toNat < j.toNat := fun h => hlt (UInt64.lt_iff_toNat_lt.mpr h)
      rw [hb]; exact UInt64.toNat_inj.mp (by omega)

theorem binSearch_exact (θ : UInt64) (hθ : 5 ≤ θ.toNat) (m : MinSt) (h : θ ≤ m.best) :
    (binSearch (geCond θ) m).best = θ := by
  have hle : θ.toNat ≤ m.best.toNat := UInt64.le_iff_toNat_le.mp h
  have hpos : 1 ≤ m.best.toNat := by omega
  have h1 : (m.best - 1).toNat = m.best.toNat - 1 := by
    rw [UInt64.toNat_sub_of_le _ _ (by rw [UInt64.le_iff_toNat_le]; simpa using hpos)]; rfl
  have hlt : (m.best - 1).toNat < m.best.toNat := by rw [h1]; omega
  have hab := accept_below θ m (m.best - 1) hθ hlt
  simp only [binSearch]
  by_cases hc : θ ≤ m.best - 1
  · obtain ⟨hb, ht⟩ := hab.1 hc
    have hpair : m.accept (geCond θ) (m.best - 1) = ((m.accept (geCond θ) (m.best - 1)).1, true) := by rw [← ht]
    rw [hpair]
    simp only [Bool.not_true, Bool.false_eq_true, if_false]
    apply binLoop_exact θ hθ 65 0 _ _ rfl (by simp)
    · rw [hb, h1]; rw [UInt64.le_iff_toNat_le, h1] at hc; exact hc
    · have := (m.accept (geCond θ) (m.best - 1)).1.best.toNat_lt
      simp; omega
  · obtain ⟨hb, hf⟩ := hab.2 hc
    have hpair : m.accept (geCond θ) (m.best - 1) = ((m.accept (geCond θ) (m.best - 1)).1, false) := by rw [← hf]
    rw [hpair]
    simp only [Bool.not_false, if_true]
    rw [hb]
    have : ¬ θ.toNat ≤ m.best.toNat - 1 := by rw [UInt64.le_iff_toNat_le, h1] at hc; exact hc
    exact UInt64.toNat_inj.mp (by omega)

/-- `trySmall` with a threshold condition: finds θ if it is below `min(u, 5)`, nothing otherwise -/
theorem trySmall_ge (θ u : UInt64) : ∀ (n : Nat) (i : UInt64) (probes : List UInt64), i.toNat + n = 5 → i.toNat ≤ θ.toNat →
    (trySmall (geCond θ) u n i probes).1 = if θ.toNat < 5 ∧ θ.toNat < u.toNat then some θ else none := by
  intro n
  induction n with
  | zero =>
    intro i probes hi hle
    simp only [trySmall]
    have : ¬ (θ.toNat < 5 ∧ θ.toNat < u.toNat) := by omega
    simp [this]
  | succ n ih =>
    intro i probes hi hle
    simp only [trySmall]
    have hi5 : i.toNat < 5 := by omega
    by_cases hiu : i < u
    · have hs : i < small := by rw [UInt64.lt_iff_toNat_lt, small_toNat]; exact hi5
      simp only [hiu, hs, and_self, if_true]
      by_cases hc : θ ≤ i
      · have heq : θ = i := UInt64.toNat_inj.mp (by rw [UInt64.le_iff_toNat_le] at hc; omega)
        subst heq
        have : θ.toNat < 5 ∧ θ.toNat < u.toNat := ⟨hi5, UInt64.lt_iff_toNat_lt.mp hiu⟩
        simp [geCond, this]
      · have hnc : geCond θ i = false := by simp [geCond, hc]
        simp only [hnc, Bool.false_eq_true, if_false]
        have h1 : (i + 1).toNat = i.toNat + 1 := by
          rw [UInt64.toNat_add]; apply Nat.mod_eq_of_lt; simp; omega
        apply ih
        · rw [h1]; omega
        · rw [h1]; rw [UInt64.le_iff_toNat_le] at hc; omega
    · have : ¬ (i < u ∧ i < small) := fun h => hiu h.1
      simp only [this, if_false]
      have hui : u.toNat ≤ i.toNat := by
        rw [UInt64.lt_iff_toNat_lt] at hiu; omega
      have : ¬ (θ.toNat < 5 ∧ θ.toNat < u.toNat) := by omega
      simp [this]

/-- **exactness**: for every threshold `θ ≤ u`, `minimize u (θ ≤ ·) = θ` -/
theorem minimize_exact (u θ : UInt64) (h : θ ≤ u) : (minimize u (geCond θ)).1 = θ := by
  have hle : θ.toNat ≤ u.toNat := UInt64.le_iff_toNat_le.mp h
  simp only [minimize]
  by_cases hu0 : u = 0
  · subst hu0
    simp only [beq_self_eq_true, if_true]
    exact (UInt64.toNat_inj.mp (by simp at hle; simpa using hle)).symm
  · have hne : (u == 0) = false := by simpa using hu0
    simp only [hne, Bool.false_eq_true, if_false]
    have hts := trySmall_ge θ u 5 0 [] (by simp) (by simp)
    cases hfound : trySmall (geCond θ) u 5 0 [] with
    | mk r probes =>
      rw [hfound] at hts
      simp only at hts
      by_cases hsmall : θ.toNat < 5 ∧ θ.toNat < u.toNat
      · simp only [hsmall, and_self, if_true] at hts
        subst hts; rfl
      · simp only [hsmall, if_false] at hts
        subst hts
        simp only []
        by_cases hus : u ≤ small
        · simp only [hus, if_true]
          have : u.toNat ≤ 5 := by rw [UInt64.le_iff_toNat_le, small_toNat] at hus; exact hus
          exact UInt64.toNat_inj.mp (by omega)
        · simp only [hus, if_false]
          have hu5 : 5 < u.toNat := by
            rw [UInt64.le_iff_toNat_le, small_toNat] at hus; omega
          have hθ5 : 5 ≤ θ.toNat := by omega
          apply binSearch_exact θ hθ5
          apply sortBits_inv
          apply unsetBits_inv
          apply rShift_inv
          exact h

end Rapid

namespace Rapid

/-! ### `minimize u cond` only ever asks `cond` about values below `u` -/

theorem accept_congr {cond cond' : UInt64 → Bool} (u : UInt64) (hc : ∀ x, x < u → cond x = cond' x)
    (m : MinSt) (c : UInt64) (hb : m.best ≤ u) :
    m.accept cond c = m.accept cond' c ∧ (m.accept cond c).1.best ≤ u := by
  simp only [MinSt.accept]
  split
  · exact ⟨rfl, hb⟩
  · rename_i hg
    simp only [not_or, UInt64.not_le, ge_iff_le] at hg
    have hcu : c < u := UInt64.lt_of_lt_of_le hg.1 hb
    rw [hc c hcu]
    refine ⟨rfl, ?_⟩
    split
    · exact UInt64.le_of_lt hcu
    · exact hb

theorem rShift_congr {cond cond' : UInt64 → Bool} (u : UInt64) (hc : ∀ x, x < u → cond x = cond' x) :
    ∀ (n : Nat) (m : MinSt), m.best ≤ u → rShift cond n m = rShift cond' n m ∧ (rShift cond n m).best ≤ u := by
  intro n
  induction n with
  | zero => intro m h; exact ⟨rfl, h⟩
  | succ n ih =>
    intro m h
    simp only [rShift]
    have := accept_congr u hc m (m.best >>> 1) h
    rw [← this.1]
    split
    · exact ih _ this.2
    · exact ⟨rfl, this.2⟩

theorem unsetBits_congr {cond cond' : UInt64 → Bool} (u : UInt64) (hc : ∀ x, x < u → cond x = cond' x) :
    ∀ (n : Nat) (m : MinSt), m.best ≤ u → unsetBits cond n m = unsetBits cond' n m ∧ (unsetBits cond n m).best ≤ u := by
  intro n
  induction n with
  | zero => intro m h; exact ⟨rfl, h⟩
  | succ n ih =>
    intro m h
    simp only [unsetBits]
    have := accept_congr u hc m (m.best ^^^ ((1 : UInt64) <<< n.toUInt64)) h
    rw [← this.1]
    exact ih _ this.2

theorem sortInner_congr {cond cond' : UInt64 → Bool} (u : UInt64) (hc : ∀ x, x < u → cond x = cond' x)
    (i : Nat) (hh : UInt64) : ∀ (n j : Nat) (m : MinSt), m.best ≤ u →
    sortInner cond i hh n j m = sortInner cond' i hh n j m ∧ (sortInner cond i hh n j m).best ≤ u := by
  intro n
  induction n with
  | zero => intro j m h; exact ⟨rfl, h⟩
  | succ n ih =>
    intro j m h
    simp only [sortInner]
    split
    · split
      · have := accept_congr u hc m (m.best ^^^ ((1 <<< j.toUInt64) ||| hh)) h
        rw [← this.1]
        split
        · exact ⟨rfl, this.2⟩
        · exact ih _ _ this.2
      · exact ih _ _ h
    · exact ⟨rfl, h⟩

theorem sortBits_congr {cond cond' : UInt64 → Bool} (u : UInt64) (hc : ∀ x, x < u → cond x = cond' x) :
    ∀ (n : Nat) (m : MinSt), m.best ≤ u → sortBits cond n m = sortBits cond' n m ∧ (sortBits cond n m).best ≤ u := by
  intro n
  induction n with
  | zero => intro m h; exact ⟨rfl, h⟩
  | succ n ih =>
    intro m h
    simp only [sortBits]
    by_cases hb : (m.best &&& (1 : UInt64) <<< n.toUInt64 != 0) = true
    · simp only [hb, if_true]
      have := sortInner_congr u hc n ((1 : UInt64) <<< n.toUInt64) n 0 m h
      rw [← this.1]
      exact ih _ this.2
    · simp only [hb]
      exact ih _ h

theorem binLoop_congr {cond cond' : UInt64 → Bool} (u : UInt64) (hc : ∀ x, x < u → cond x = cond' x) :
    ∀ (n : Nat) (i j : UInt64) (m : MinSt), m.best ≤ u →
    binLoop cond n i j m = binLoop cond' n i j m ∧ (binLoop cond n i j m).best ≤ u := by
  intro n
  induction n with
  | zero => intro i j m h; exact ⟨rfl, h⟩
  | succ n ih =>
    intro i j m h
    simp only [binLoop]
    split
    · have := accept_congr u hc m (i + (j - i) / 2) h
      rw [← this.1]
      split
      · exact ih _ _ _ this.2
      · exact ih _ _ _ this.2
    · exact ⟨rfl, h⟩

theorem binSearch_congr {cond cond' : UInt64 → Bool} (u : UInt64) (hc : ∀ x, x < u → cond x = cond' x)
    (m : MinSt) (h : m.best ≤ u) :
    binSearch cond m = binSearch cond' m ∧ (binSearch cond m).best ≤ u := by
  simp only [binSearch]
  have := accept_congr u hc m (m.best - 1) h
  rw [← this.1]
  split
  · exact ⟨rfl, this.2⟩
  · exact binLoop_congr u hc _ _ _ _ this.2

theorem trySmall_congr {cond cond' : UInt64 → Bool} (u : UInt64) (hc : ∀ x, x < u → cond x = cond' x) :
    ∀ (n : Nat) (i : UInt64) (probes : List UInt64), trySmall cond u n i probes = trySmall cond' u n i probes := by
  intro n
  induction n with
  | zero => intro i probes; rfl
  | succ n ih =>
    intro i probes
    simp only [trySmall]
    split
    · rename_i h
      rw [hc i h.1, ih]
    · rfl

/-- **locality**: the result (and the probe sequence) of `minimize u cond` depends only on the
    values of `cond` below `u` -/
theorem minimize_congr {cond cond' : UInt64 → Bool} (u : UInt64) (hc : ∀ x, x < u → cond x = cond' x) :
    minimize u cond = minimize u cond' := by
  simp only [minimize]
  split
  · rfl
  · rw [trySmall_congr u hc]
    split
    · rfl
    · split
      · rfl
      · rename_i _ probes _ _
        have h0 : (⟨u, probes⟩ : MinSt).best ≤ u := UInt64.le_refl _
        have h1 := rShift_congr u hc 64 ⟨u, probes⟩ h0
        rw [← h1.1]
        have h2 := unsetBits_congr u hc (len64 (rShift cond 64 ⟨u, probes⟩).best) _ h1.2
        rw [← h2.1]
        have h3 := sortBits_congr u hc (len64 (unsetBits cond (len64 (rShift cond 64 ⟨u, probes⟩).best) (rShift cond 64 ⟨u, probes⟩)).best) _ h2.2
        rw [← h3.1]
        have h4 := binSearch_congr u hc _ h3.2
        rw [← h4.1]

/-- exactness for any condition that is a threshold below `u` (what a block of a recorded
    bitstream sees: the candidates never exceed the recorded value) -/
theorem minimize_exact_on (u θ : UInt64) (cond : UInt64 → Bool) (h : θ ≤ u)
    (hc : ∀ x, x < u → cond x = decide (θ ≤ x)) : (minimize u cond).1 = θ := by
  rw [minimize_congr u (cond' := geCond θ) hc]
  exact minimize_exact u θ h

/-- the result never exceeds the start and, when it moved, satisfies `cond` -/
theorem minimize_le (u θ : UInt64) (h : θ ≤ u) : (minimize u (geCond θ)).1 ≤ u := by
  rw [minimize_exact u θ h]; exact h

end Rapid
