/-
  shrink.go `shrinker.accept`, translated from the source on every run (check mode with the shrinker's own state — current test
  case, error, cache, counters — as variables; `RapidModel/GoCheck.lean`: the two runs are `once` requests, `s.rec =
  s2.recordedBits; s.rec.prune()` is the request `pruned`, `panic(err2)` the panic `mismatch`), proved to be the model's
  `SS.accept` (`RapidModel/Passes.lean`) — the oracle that the translated passes of the shrinker are run against
  (`TranslatedShrinkRun.lean`: `runOracle`).
-/
import RapidProofs.TranslatedCheckEq
import RapidProofs.TranslatedMinEq
import RapidProofs.Shortlex
import RapidModel.Passes

namespace Rapid.Go
open Rapid

theorem compareData_range (a b : List UInt64) : compareData a b = -1 ∨ compareData a b = 0 ∨ compareData a b = 1 := by
  unfold compareData
  split
  · left; rfl
  · split
    · right; right; rfl
    · exact cmpLex_range a b

theorem cmp_ge0 (a b : List UInt64) : decide (Int64.ofInt (compareData a b) ≥ (0 : Int64)) = decide (compareData a b ≥ 0) := by
  rcases compareData_range a b with h | h | h <;> rw [h] <;> decide

theorem cmp_le0 (a b : List UInt64) : decide (Int64.ofInt (compareData a b) ≤ (0 : Int64)) = decide (compareData a b ≤ 0) := by
  rcases compareData_range a b with h | h | h <;> rw [h] <;> decide

@[simp] theorem CM.run_pruned (E : CEnv) (r : Once) :
    CM.run E CM.pruned (some r) =
      ((if (prunedOfToks r.toks).noEmptyGroup then .ok (prunedOfToks r.toks).data else .error .assertion), some r) := by
  show CScript.run E (CScript.pruned _) (some r) = _
  by_cases h : (prunedOfToks r.toks).noEmptyGroup = true <;> simp [CScript.run, h]

/-- what the translated `accept` hands back for the model's answer: the result, then the shrinker's variables (the groups of the
    current recording are not among them: `accept` does not look at them) -/
def acceptOut (hits : Int64) (r : Bool × SS) : Bool × List UInt64 × ErrV × List (List UInt64) × Int64 × Int64 :=
  (r.1, r.2.rc.data, r.2.err, r.2.cache, hits, Int64.ofNat r.2.shrinks)

/-- **`shrinker.accept` of the source is the model's `SS.accept`**: the same answer and the same new state (test case, error, cache,
    number of accepted steps) for every candidate — a candidate that is not smaller or is in the cache runs nothing; a first run
    with another traceback is remembered in the cache; the second run is the one recorded, pruned, asserted not to be larger and
    compared with the first (`panic(err2)` when it differs) -/
theorem tr_accept (E : CEnv) (s : SS) (buf : List UInt64) (hits : Int64) (fuel : Nat) (o : Option Once)
    (hb : buf.length < 2 ^ 62) (hd : s.rc.data.length < 2 ^ 62) (hf : buf.length < fuel)
    (hk1 : (prunedOfToks (checkOnce E.p (.buf buf) TS.fresh).toks).data.length < 2 ^ 62)
    (hk2 : (prunedOfToks (checkOnce E.p (.buf buf) TS.fresh).toks).data.length < fuel) :
    (CM.run E (Translated.shrinker_acceptC s.rc.data s.err s.cache hits (Int64.ofNat s.shrinks) buf fuel) o).1 =
      match s.accept E.p buf with
      | .ok r => .ok (acceptOut (if compareData buf s.rc.data < 0 ∧ s.cache.contains buf then hits + 1 else hits) r)
      | .error (.mismatch _ _ _) => .error .mismatch
      | .error _ => .error .assertion := by
  unfold Translated.shrinker_acceptC SS.accept
  simp only [CM.run_bind, CM.run_ofM, tr_compareData buf s.rc.data fuel hb hd hf, CM.run_pure, cmp_ge0]
  by_cases h1 : compareData buf s.rc.data ≥ 0
  · have : ¬ compareData buf s.rc.data < 0 := by omega
    simp [h1, this, acceptOut]
  · have hlt : compareData buf s.rc.data < 0 := by omega
    simp only [h1, decide_false, Bool.false_eq_true, if_false]
    by_cases h2 : buf ∈ s.cache
    · simp [h2, hlt, acceptOut]
    · simp only [List.contains_eq_mem, h2, decide_false, Bool.false_eq_true, if_false, CM.run_bind, CM.run_once, SSpec.src, and_false]
      by_cases h3 : (tbKey (checkOnce E.p (.buf buf) TS.fresh).err != tbKey s.err) = true
      · simp [h3, acceptOut]
      · have h3' : (tbKey (checkOnce E.p (.buf buf) TS.fresh).err != tbKey s.err) = false := by simpa using h3
        simp only [h3', Bool.false_eq_true, if_false, CM.run_bind, CM.run_once, CM.run_pruned, SSpec.src]
        generalize hr : checkOnce E.p (.buf buf) TS.fresh = r at hk1 hk2 ⊢
        by_cases h4 : (prunedOfToks r.toks).noEmptyGroup = true
        · simp only [h4, if_true, Bool.not_true, Bool.false_eq_true, if_false, CM.run_ofM, CM.run_pure,
            tr_compareData (prunedOfToks r.toks).data buf fuel hk1 hb hk2, cmp_le0]
          by_cases h5 : compareData (prunedOfToks r.toks).data buf > 0
          · have : ¬ compareData (prunedOfToks r.toks).data buf ≤ 0 := by omega
            simp [h5, this, Go.assert]
          · have : compareData (prunedOfToks r.toks).data buf ≤ 0 := by omega
            simp only [h5, this, decide_true, if_false, Go.assert, if_true]
            by_cases h6 : sameError r.err r.err = true
            · rw [i64_ofNat_succ]; simp [h6, acceptOut]
            · simp [h6]
        · simp [h4]

end Rapid.Go
