/-
  RapidProofs.FindBug — the generation loop: counters, the blamed test case, the seed schedule.
-/
import RapidProofs.Cleanups

namespace Rapid

/-- one unfolding of the loop, as an equation -/
theorem findBugLoop_succ (p : Prog) (checks : Nat) (early : Nat → Bool) (fuel valid invalid : Nat)
    (seed : UInt64) (ts : TS) (seeds : List UInt64) :
    findBugLoop p checks early (fuel + 1) valid invalid seed ts seeds =
      if valid < checks ∧ invalid < checks * invalidChecksMult then
        if valid + invalid > 0 ∧ early (valid + invalid) then ⟨valid, invalid, true, 0, none, seeds⟩
        else
          match (checkOnce p (.rng (Jsf.init (seed + UInt64.ofNat (valid + invalid)))) ts).err with
          | none => findBugLoop p checks early fuel (valid + 1) invalid (seed + UInt64.ofNat (valid + invalid))
                      (checkOnce p (.rng (Jsf.init (seed + UInt64.ofNat (valid + invalid)))) ts).ts
                      (seeds ++ [seed + UInt64.ofNat (valid + invalid)])
          | some e =>
            if e.isInvalid then
              findBugLoop p checks early fuel valid (invalid + 1) (seed + UInt64.ofNat (valid + invalid))
                (checkOnce p (.rng (Jsf.init (seed + UInt64.ofNat (valid + invalid)))) ts).ts
                (seeds ++ [seed + UInt64.ofNat (valid + invalid)])
            else ⟨valid, invalid, false, seed + UInt64.ofNat (valid + invalid), some e,
                  seeds ++ [seed + UInt64.ofNat (valid + invalid)]⟩
      else ⟨valid, invalid, false, 0, none, seeds⟩ := rfl

/-- the blamed test case is one whose own execution — on a fresh `*T` — fails with that very
    error, and it is never an invalid (skipped) one -/
theorem findBugLoop_blame (p : Prog) (checks : Nat) (early : Nat → Bool) :
    ∀ (fuel valid invalid : Nat) (seed : UInt64) (ts : TS) (seeds : List UInt64) (e : Err), Clean ts →
      (findBugLoop p checks early fuel valid invalid seed ts seeds).err = some e →
      e.isInvalid = false ∧
      (checkOnce p (.rng (Jsf.init (findBugLoop p checks early fuel valid invalid seed ts seeds).seed)) TS.fresh).err = some e := by
  intro fuel
  induction fuel with
  | zero => intro valid invalid seed ts seeds e _ h; simp [findBugLoop] at h
  | succ n ih =>
    intro valid invalid seed ts seeds e hc h
    rw [findBugLoop_succ] at h ⊢
    split at h
    · split at h
      · simp at h
      · rename_i h1 h2
        simp only [h1, h2, if_true, if_false, and_self] at h ⊢
        have hcl := (checkOnce_clean p (.rng (Jsf.init (seed + UInt64.ofNat (valid + invalid)))) hc).1
        cases herr : (checkOnce p (.rng (Jsf.init (seed + UInt64.ofNat (valid + invalid)))) ts).err with
        | none =>
          simp only [herr] at h ⊢
          exact ih _ _ _ _ _ e (checkOnce_clean_after _ _ _) h
        | some e' =>
          simp only [herr] at h ⊢
          by_cases hi : e'.isInvalid = true
          · simp only [hi, if_true] at h ⊢
            exact ih _ _ _ _ _ e (checkOnce_clean_after _ _ _) h
          · simp only [hi, if_false, Bool.false_eq_true] at h ⊢
            simp only [Option.some.injEq] at h
            subst h
            exact ⟨by simpa using hi, by rw [← hcl, herr]⟩
    · simp at h

/-- counters: the loop stops only when a bound is reached, on early exit, or at a failure; it
    never counts past a bound -/
theorem findBugLoop_counts (p : Prog) (checks : Nat) (early : Nat → Bool) :
    ∀ (fuel valid invalid : Nat) (seed : UInt64) (ts : TS) (seeds : List UInt64),
      (checks - valid) + (checks * invalidChecksMult - invalid) ≤ fuel →
      valid ≤ checks → invalid ≤ checks * invalidChecksMult →
      let fb := findBugLoop p checks early fuel valid invalid seed ts seeds
      fb.valid ≤ checks ∧ fb.invalid ≤ checks * invalidChecksMult ∧ valid ≤ fb.valid ∧ invalid ≤ fb.invalid ∧
      (fb.err = none → fb.early = false → (fb.valid = checks ∨ fb.invalid = checks * invalidChecksMult)) ∧
      fb.seeds.length = seeds.length + (fb.valid - valid) + (fb.invalid - invalid) + (if fb.err.isSome then 1 else 0) := by
  intro fuel
  induction fuel with
  | zero =>
    intro valid invalid seed ts seeds hf hv hi
    simp only [findBugLoop]
    refine ⟨hv, hi, Nat.le_refl _, Nat.le_refl _, ?_, by simp⟩
    intro _ _; omega
  | succ n ih =>
    intro valid invalid seed ts seeds hf hv hi
    rw [findBugLoop_succ]
    split
    · rename_i hlt
      split
      · refine ⟨hv, hi, Nat.le_refl _, Nat.le_refl _, ?_, by simp⟩
        intro _ h; simp at h
      · cases herr : (checkOnce p (.rng (Jsf.init (seed + UInt64.ofNat (valid + invalid)))) ts).err with
        | none =>
          simp only []
          have := ih (valid + 1) invalid (seed + UInt64.ofNat (valid + invalid))
            (checkOnce p (.rng (Jsf.init (seed + UInt64.ofNat (valid + invalid)))) ts).ts
            (seeds ++ [seed + UInt64.ofNat (valid + invalid)]) (by omega) (by omega) hi
          simp only [List.length_append, List.length_singleton] at this
          obtain ⟨a, b, c, d, e, f⟩ := this
          exact ⟨a, b, by omega, d, e, by omega⟩
        | some e' =>
          simp only []
          by_cases hinv : e'.isInvalid = true
          · simp only [hinv, if_true]
            have := ih valid (invalid + 1) (seed + UInt64.ofNat (valid + invalid))
              (checkOnce p (.rng (Jsf.init (seed + UInt64.ofNat (valid + invalid)))) ts).ts
              (seeds ++ [seed + UInt64.ofNat (valid + invalid)]) (by omega) hv (by omega)
            simp only [List.length_append, List.length_singleton] at this
            obtain ⟨a, b, c, d, e, f⟩ := this
            exact ⟨a, b, c, by omega, e, by omega⟩
          · simp only [hinv, if_false, Bool.false_eq_true]
            refine ⟨hv, hi, Nat.le_refl _, Nat.le_refl _, by intro h; simp at h, by simp⟩
    · rename_i hlt
      refine ⟨hv, hi, Nat.le_refl _, Nat.le_refl _, ?_, by simp⟩
      intro _ _; dsimp only; omega

/-- triangular numbers: `tri k = 0 + 1 + … + (k-1)` -/
def tri : Nat → Nat
  | 0 => 0
  | k+1 => tri k + k

/-- **seed schedule**: the `i`-th test case of a run started with `seed₀` is driven by
    `seed₀ + (0 + 1 + … + i)` (mod 2⁶⁴) -/
theorem findBugLoop_seeds (p : Prog) (checks : Nat) (early : Nat → Bool) (seed0 : UInt64) :
    ∀ (fuel valid invalid : Nat) (seed : UInt64) (ts : TS) (seeds : List UInt64),
      seeds.length = valid + invalid → seed = seed0 + UInt64.ofNat (tri (valid + invalid)) →
      (∀ i (h : i < seeds.length), seeds[i] = seed0 + UInt64.ofNat (tri (i + 1))) →
      let fb := findBugLoop p checks early fuel valid invalid seed ts seeds
      (∀ i (h : i < fb.seeds.length), fb.seeds[i] = seed0 + UInt64.ofNat (tri (i + 1))) ∧
      (fb.err.isSome → fb.seeds.getLast? = some fb.seed) := by
  intro fuel
  induction fuel with
  | zero => intro valid invalid seed ts seeds _ _ hs; simp only [findBugLoop]; exact ⟨hs, by simp⟩
  | succ n ih =>
    intro valid invalid seed ts seeds hl hseed hs
    rw [findBugLoop_succ]
    have htri : ∀ k, seed0 + UInt64.ofNat (tri k) + UInt64.ofNat k = seed0 + UInt64.ofNat (tri (k + 1)) := by
      intro k; simp only [tri, UInt64.ofNat_add, UInt64.add_assoc]
    have hnext : seed + UInt64.ofNat (valid + invalid) = seed0 + UInt64.ofNat (tri (valid + invalid + 1)) := by
      rw [hseed]; exact htri _
    have hs' : ∀ i (h : i < (seeds ++ [seed + UInt64.ofNat (valid + invalid)]).length),
        (seeds ++ [seed + UInt64.ofNat (valid + invalid)])[i] = seed0 + UInt64.ofNat (tri (i + 1)) := by
      intro i h
      by_cases hi : i < seeds.length
      · rw [List.getElem_append_left hi]; exact hs i hi
      · have : i = seeds.length := by simp at h; omega
        subst this
        simp only [List.getElem_append_right (Nat.le_refl _), Nat.sub_self, List.getElem_cons_zero]
        rw [hnext, hl]
    split
    · split
      · exact ⟨hs, by simp⟩
      · cases herr : (checkOnce p (.rng (Jsf.init (seed + UInt64.ofNat (valid + invalid)))) ts).err with
        | none =>
          simp only []
          exact ih (valid + 1) invalid _ _ _ (by simp; omega) (by rw [hnext, show valid + 1 + invalid = valid + invalid + 1 by omega]) hs'
        | some e' =>
          simp only []
          by_cases hinv : e'.isInvalid = true
          · simp only [hinv, if_true]
            exact ih valid (invalid + 1) _ _ _ (by simp; omega) (by rw [hnext]; rfl) hs'
          · simp only [hinv, if_false, Bool.false_eq_true]
            exact ⟨hs', by simp⟩
    · exact ⟨hs, by simp⟩

end Rapid
