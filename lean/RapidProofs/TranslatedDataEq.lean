/-
  RapidProofs.TranslatedDataEq — data.go as translated from /repo on every run against the model:
  the two bit streams (`drawBits` = `Src.next`), the recording calls (`record`, `beginGroup`, `endGroup` = the
  steps of `recGo`), `removeGroup` and `prune` (= `Rec.removeGroup`, `Rec.prune`).
-/
import RapidModel.Generated.Translated
import RapidModel.Rec
import RapidProofs.TranslatedEq
import RapidProofs.TranslatedProgEq

namespace Rapid

open Rapid.Go

/-! ### `int` values that are lengths -/

theorem glen_toInt {α : Type} (l : List α) (h : l.length < 2 ^ 62) : (Go.glen l).toInt = l.length := by
  simp [Go.glen, i64_ofNat_toInt h]

theorem pos_ofNat {i b : Nat} (hi : i < 2 ^ 62) : Go.pos? (Int64.ofNat i) b = if i < b then some i else none := by
  simp only [Go.pos?, i64_ofNat_toInt hi, Int.toNat_natCast]
  by_cases h : i < b <;> simp [h]

theorem idx_ofNat {α : Type} (l : List α) {i : Nat} (hi : i < 2 ^ 62) :
    Go.idx l (Int64.ofNat i) = match l[i]? with | some a => .ok a | none => .error .runtime := by
  simp only [Go.idx, pos_ofNat hi]
  by_cases h : i < l.length
  · simp [h]
  · simp [h, List.getElem?_eq_none (Nat.le_of_not_lt h)]

theorem sliceTo_ofNat {α : Type} (l : List α) {j : Nat} (hj : j < 2 ^ 62) :
    Go.sliceTo l (Int64.ofNat j) = if j ≤ l.length then .ok (l.take j) else .error .runtime := by
  simp only [Go.sliceTo, pos_ofNat hj]
  by_cases h : j ≤ l.length
  · simp [h, Nat.lt_succ_of_le h]
  · have : ¬ j < l.length + 1 := by omega
    simp [h, this]

theorem sliceFrom_ofNat {α : Type} (l : List α) {i : Nat} (hi : i < 2 ^ 62) :
    Go.sliceFrom l (Int64.ofNat i) = if i ≤ l.length then .ok (l.drop i) else .error .runtime := by
  simp only [Go.sliceFrom, pos_ofNat hi]
  by_cases h : i ≤ l.length
  · simp [h, Nat.lt_succ_of_le h]
  · have : ¬ i < l.length + 1 := by omega
    simp [h, this]

theorem setIdx_ofNat {α : Type} (l : List α) {i : Nat} (hi : i < 2 ^ 62) (f : α → α) :
    Go.setIdx l (Int64.ofNat i) f = if i < l.length then .ok (l.modify i f) else .error .runtime := by
  simp only [Go.setIdx, pos_ofNat hi]
  by_cases h : i < l.length <;> simp [h]

theorem i64_ofNat_toUInt64_toNat {n : Nat} (h : n < 2 ^ 62) : ((Int64.ofNat n).toUInt64).toNat = n := by
  have : (Int64.ofNat n).toUInt64 = UInt64.ofNat n := by
    apply UInt64.toBitVec_inj.mp; simp [Int64.ofNat]; rfl
  rw [this, UInt64.toNat_ofNat']
  exact Nat.mod_eq_of_lt (by omega)

theorem i64_ofNat_nonneg {n : Nat} (hn : n < 2 ^ 62) : decide (Int64.ofNat n ≥ (0 : Int64)) = true := by
  have h := i64_ge_ofNat hn 0 (by omega)
  have h0 : (0 : Int64) = Int64.ofNat 0 := rfl
  rw [h0, h]; simp

/-! ### `record` -/

theorem tr_record (data : List UInt64) (dl : Int64) (persist : Bool) (u : UInt64) :
    Translated.recordedBits_record data dl persist u =
      .ok (if persist then data ++ [u] else data, if persist then dl else dl + 1, persist) := by
  cases persist <;> rfl

/-! ### the two bit streams: `drawBits(n)` is `Src.next n` -/

theorem tr_bufDrawBits (buf data : List UInt64) (dl : Int64) (persist : Bool) (n : Nat) (hn : n < 2 ^ 62)
    (hb : buf.length < 2 ^ 62) :
    Translated.bufBitStream_drawBits buf data dl persist (Int64.ofNat n) =
      match (Src.buf buf).next n with
      | none => .error (.invalidData "overrun")
      | some (u, src') =>
        .ok (u, (match src' with | .buf b => b | .rng _ => []), if persist then data ++ [u] else data,
             if persist then dl else dl + 1, persist) := by
  have hge : decide (Int64.ofNat n ≥ (0 : Int64)) = true := i64_ofNat_nonneg hn
  cases buf with
  | nil => simp [Translated.bufBitStream_drawBits, hge, Go.assert, Go.glen, Src.next, bind, Except.bind]
  | cons w ws =>
    have hlen : (Go.glen (w :: ws) == (0 : Int64)) = false := by
      have h1 : (Go.glen (w :: ws)).toInt = (ws.length + 1 : Nat) := glen_toInt _ hb
      have : Go.glen (w :: ws) ≠ 0 := by
        intro h; rw [h] at h1; simp at h1; omega
      simp [this]
    have h0 : Go.idx (w :: ws) (0 : Int64) = .ok w := by
      have := idx_ofNat (w :: ws) (i := 0) (by omega); simpa using this
    have h1 : Go.sliceFrom (w :: ws) (1 : Int64) = .ok ws := by
      have := sliceFrom_ofNat (w :: ws) (i := 1) (by omega); simpa using this
    simp only [Translated.bufBitStream_drawBits, hge, Go.assert, hlen, h0, h1, tr_record, tr_bitmask64,
      i64_ofNat_toUInt64_toNat hn, Src.next, mask, bind, Except.bind, if_true, Bool.false_eq_true, if_false, pure, Except.pure]

theorem tr_rngDrawBits (x : Jsf) (data : List UInt64) (dl : Int64) (persist : Bool) (n : Nat) (hn : n < 2 ^ 62) :
    Translated.randomBitStream_drawBits x.a x.b x.c x.d data dl persist (Int64.ofNat n) =
      match (Src.rng x).next n with
      | none => .error .runtime
      | some (u, src') =>
        let y := match src' with | .rng y => y | .buf _ => x
        .ok (u, y.a, y.b, y.c, y.d, if persist then data ++ [u] else data, if persist then dl else dl + 1, persist) := by
  have hge : decide (Int64.ofNat n ≥ (0 : Int64)) = true := i64_ofNat_nonneg hn
  have hle : decide (Int64.ofNat n ≤ (64 : Int64)) = decide (n ≤ 64) := by
    have := i64_ge_ofNat (show 64 < 2 ^ 62 by omega) n hn
    simp only [ge_iff_le] at this
    exact this
  have hr := tr_jsfRand x.a x.b x.c x.d
  by_cases h64 : n ≤ 64
  · simp only [Translated.randomBitStream_drawBits, hge, Go.assert, hle, h64, decide_true, if_true, tr_record, tr_bitmask64,
      i64_ofNat_toUInt64_toNat hn, Src.next, mask, bind, Except.bind, pure, Except.pure]
    rw [hr]
  · simp only [Translated.randomBitStream_drawBits, hge, Go.assert, hle, h64, decide_false, Bool.false_eq_true, if_false,
      if_true, tr_record, Src.next, bind, Except.bind, pure, Except.pure]

end Rapid
