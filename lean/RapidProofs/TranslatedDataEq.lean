/-
  RapidProofs.TranslatedDataEq — data.go as translated from /repo on every run against the model:
  the two bit streams (`drawBits` = `Src.next`), the recording calls (`record`, `beginGroup`, `endGroup` = the
  steps of `recGo`); `removeGroup` and `prune` (= `Rec.removeGroup`, `Rec.prune`) are in `TranslatedPruneEq`.
-/
import RapidModel.Generated.Translated
import RapidModel.Rec
import RapidProofs.TranslatedEq
import RapidProofs.TranslatedProgEq

namespace Rapid

open Rapid.Go

/-! ### `int` values that are lengths -/

theorem glen_toInt {α : Type} (l : List α) (h : l.length < 2 ^ 62) : (Go.glen l).toInt = l.length := by
  simp [Go.glen, i64_ofNat_toInt h]

theorem pos_ofNat {i b : Nat} (hi : i < 2 ^ 62) : Go.pos? (Int64.ofNat i) b = if i < b then some i else none := by
  simp only [Go.pos?, i64_ofNat_toInt hi, Int.toNat_natCast]
  by_cases h : i < b <;> simp [h]

theorem idx_ofNat {α : Type} (l : List α) {i : Nat} (hi : i < 2 ^ 62) :
    Go.idx l (Int64.ofNat i) = match l[i]? with | some a => .ok a | none => .error .runtime := by
  simp only [Go.idx, pos_ofNat hi]
  by_cases h : i < l.length
  · simp [h]
  · simp [h, List.getElem?_eq_none (Nat.le_of_not_lt h)]

theorem sliceTo_ofNat {α : Type} (l : List α) {j : Nat} (hj : j < 2 ^ 62) :
    Go.sliceTo l (Int64.ofNat j) = if j ≤ l.length then .ok (l.take j) else .error .runtime := by
  simp only [Go.sliceTo, pos_ofNat hj]
  by_cases h : j ≤ l.length
  · simp [h, Nat.lt_succ_of_le h]
  · have : ¬ j < l.length + 1 := by omega
    simp [h, this]

theorem sliceFrom_ofNat {α : Type} (l : List α) {i : Nat} (hi : i < 2 ^ 62) :
    Go.sliceFrom l (Int64.ofNat i) = if i ≤ l.length then .ok (l.drop i) else .error .runtime := by
  simp only [Go.sliceFrom, pos_ofNat hi]
  by_cases h : i ≤ l.length
  · simp [h, Nat.lt_succ_of_le h]
  · have : ¬ i < l.length + 1 := by omega
    simp [h, this]

theorem setIdx_ofNat {α : Type} (l : List α) {i : Nat} (hi : i < 2 ^ 62) (f : α → α) :
    Go.setIdx l (Int64.ofNat i) f = if i < l.length then .ok (l.modify i f) else .error .runtime := by
  simp only [Go.setIdx, pos_ofNat hi]
  by_cases h : i < l.length <;> simp [h]

theorem i64_ofNat_toUInt64_toNat {n : Nat} (h : n < 2 ^ 62) : ((Int64.ofNat n).toUInt64).toNat = n := by
  have : (Int64.ofNat n).toUInt64 = UInt64.ofNat n := by
    apply UInt64.toBitVec_inj.mp; simp [Int64.ofNat]; rfl
  rw [this, UInt64.toNat_ofNat']
  exact Nat.mod_eq_of_lt (by omega)

theorem i64_ofNat_nonneg {n : Nat} (hn : n < 2 ^ 62) : decide (Int64.ofNat n ≥ (0 : Int64)) = true := by
  have h := i64_ge_ofNat hn 0 (by omega)
  have h0 : (0 : Int64) = Int64.ofNat 0 := rfl
  rw [h0, h]; simp

/-! ### `record` -/

theorem tr_record (data : List UInt64) (dl : Int64) (persist : Bool) (u : UInt64) :
    Translated.recordedBits_record data dl persist u =
      .ok (if persist then data ++ [u] else data, if persist then dl else dl + 1, persist) := by
  cases persist <;> rfl

/-! ### the two bit streams: `drawBits(n)` is `Src.next n` -/

theorem tr_bufDrawBits (buf data : List UInt64) (dl : Int64) (persist : Bool) (n : Nat) (hn : n < 2 ^ 62)
    (hb : buf.length < 2 ^ 62) :
    Translated.bufBitStream_drawBits buf data dl persist (Int64.ofNat n) =
      match (Src.buf buf).next n with
      | none => .error (.invalidData "overrun")
      | some (u, src') =>
        .ok (u, (match src' with | .buf b => b | .rng _ => []), if persist then data ++ [u] else data,
             if persist then dl else dl + 1, persist) := by
  have hge : decide (Int64.ofNat n ≥ (0 : Int64)) = true := i64_ofNat_nonneg hn
  cases buf with
  | nil => simp [Translated.bufBitStream_drawBits, hge, Go.assert, Go.glen, Src.next, bind, Except.bind]
  | cons w ws =>
    have hlen : (Go.glen (w :: ws) == (0 : Int64)) = false := by
      have h1 : (Go.glen (w :: ws)).toInt = (ws.length + 1 : Nat) := glen_toInt _ hb
      have : Go.glen (w :: ws) ≠ 0 := by
        intro h; rw [h] at h1; simp at h1; omega
      simp [this]
    have h0 : Go.idx (w :: ws) (0 : Int64) = .ok w := by
      have := idx_ofNat (w :: ws) (i := 0) (by omega); simpa using this
    have h1 : Go.sliceFrom (w :: ws) (1 : Int64) = .ok ws := by
      have := sliceFrom_ofNat (w :: ws) (i := 1) (by omega); simpa using this
    simp only [Translated.bufBitStream_drawBits, hge, Go.assert, hlen, h0, h1, tr_record, tr_bitmask64,
      i64_ofNat_toUInt64_toNat hn, Src.next, mask, bind, Except.bind, if_true, Bool.false_eq_true, if_false, pure, Except.pure]

theorem tr_rngDrawBits (x : Jsf) (data : List UInt64) (dl : Int64) (persist : Bool) (n : Nat) (hn : n < 2 ^ 62) :
    Translated.randomBitStream_drawBits x.a x.b x.c x.d data dl persist (Int64.ofNat n) =
      match (Src.rng x).next n with
      | none => .error .runtime
      | some (u, src') =>
        let y := match src' with | .rng y => y | .buf _ => x
        .ok (u, y.a, y.b, y.c, y.d, if persist then data ++ [u] else data, if persist then dl else dl + 1, persist) := by
  have hge : decide (Int64.ofNat n ≥ (0 : Int64)) = true := i64_ofNat_nonneg hn
  have hle : decide (Int64.ofNat n ≤ (64 : Int64)) = decide (n ≤ 64) := by
    have := i64_ge_ofNat (show 64 < 2 ^ 62 by omega) n hn
    simp only [ge_iff_le] at this
    exact this
  have hr := tr_jsfRand x.a x.b x.c x.d
  by_cases h64 : n ≤ 64
  · simp only [Translated.randomBitStream_drawBits, hge, Go.assert, hle, h64, decide_true, if_true, tr_record, tr_bitmask64,
      i64_ofNat_toUInt64_toNat hn, Src.next, mask, bind, Except.bind, pure, Except.pure]
    rw [hr]
  · simp only [Translated.randomBitStream_drawBits, hge, Go.assert, hle, h64, decide_false, Bool.false_eq_true, if_false,
      if_true, tr_record, Src.next, bind, Except.bind, pure, Except.pure]

/-! ### `beginGroup`, `endGroup`: the steps of `recGo` -/

/-- a `groupInfo` of the source as the model's `GI` -/
def giOf (g : Translated.groupInfo) : GI := ⟨g.label, g.standalone, g.begin.toInt.toNat, g.end_.toInt, g.discard⟩

theorem tr_beginGroup (data : List UInt64) (groups : List Translated.groupInfo) (dl : Int64) (l : String) (s : Bool)
    (hd : data.length < 2 ^ 62) (hg : groups.length + 1 < 2 ^ 62) :
    ∃ g, Translated.recordedBits_beginGroup data groups dl true l s =
        .ok (Int64.ofNat groups.length, data, groups ++ [g], dl, true) ∧
      giOf g = ⟨l, s, data.length, -1, false⟩ := by
  refine ⟨{ begin := Go.glen data, end_ := -1, label := l, standalone := s, discard := false }, ?_, ?_⟩
  · simp only [Translated.recordedBits_beginGroup, Bool.not_true, Bool.false_eq_true, if_false, pure, Except.pure]
    have : Go.glen (groups ++ [({ begin := Go.glen data, end_ := -1, label := l, standalone := s, discard := false } : Translated.groupInfo)])
        - 1 = Int64.ofNat groups.length := by
      apply Int64.toInt_inj.mp
      have h1 : (Go.glen (groups ++ [({ begin := Go.glen data, end_ := -1, label := l, standalone := s, discard := false } : Translated.groupInfo)])).toInt
          = (groups.length + 1 : Nat) := by rw [glen_toInt _ (by simpa using hg)]; simp
      rw [Int64.toInt_sub, h1, i64_ofNat_toInt (by omega)]
      have : (1 : Int64).toInt = 1 := rfl
      rw [this]
      have e : ((groups.length + 1 : Nat) : Int) - 1 = (groups.length : Int) := by omega
      rw [e]
      apply Int.bmod_eq_of_le <;> omega
    rw [this]
  · simp [giOf, glen_toInt _ hd]

theorem tr_endGroup (data : List UInt64) (groups : List Translated.groupInfo) (dl : Int64) (i : Nat) (d : Bool)
    (hi : i < groups.length) (hg : groups.length < 2 ^ 62) :
    Translated.recordedBits_endGroup data groups dl true (Int64.ofNat i) d =
      if d || decide (Go.glen data > (groups[i]).begin) then
        .ok (data, groups.modify i (fun g => { g with end_ := Go.glen data, discard := d }), dl, true)
      else .error .assertion := by
  have hi62 : i < 2 ^ 62 := by omega
  have hidx : Go.idx groups (Int64.ofNat i) = .ok groups[i] := by
    rw [idx_ofNat _ hi62]; simp [hi]
  have hset : ∀ (gs : List Translated.groupInfo) (f : Translated.groupInfo → Translated.groupInfo), gs.length = groups.length →
      Go.setIdx gs (Int64.ofNat i) f = .ok (gs.modify i f) := by
    intro gs f hl
    rw [setIdx_ofNat _ hi62]; simp [hl, hi]
  simp only [Translated.recordedBits_endGroup, Bool.not_true, Bool.false_and, Bool.or_false, hidx, Go.andThen, Go.orElse, pure,
    Except.pure, bind, Except.bind, Bool.false_eq_true, if_false]
  cases d with
  | true =>
    simp only [Go.assert, Bool.true_or, if_true, hset groups _ rfl, hset (groups.modify i _) _ (by simp)]
    simp only [List.modify_modify_eq]; rfl
  | false =>
    by_cases hgt : Go.glen data > (groups[i]).begin
    · simp only [hgt, decide_true, Go.assert, Bool.false_or, if_true, hset groups _ rfl, hset (groups.modify i _) _ (by simp)]
      simp only [List.modify_modify_eq]; rfl
    · simp [hgt, Go.assert]

end Rapid
