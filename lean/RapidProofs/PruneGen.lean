/-
  RapidProofs.PruneGen — every built-in generator is prune-stable (L-PS for `Gen`), leaves the
  `*T` alone and keeps at least one word when it succeeds.  Callbacks (`Filter` predicates, `Map`
  and key functions) are arbitrary Lean functions; `Custom` bodies are required to be
  prune-stable, quiet and to keep a word themselves (A-pure).
-/
import RapidProofs.PruneRepeat

namespace Rapid

/-! ### `TsPure` (the `*T` is untouched) -/

theorem tp_ret (v : Val) : TsPure (.ret v) := fun _ _ => rfl
theorem tp_throw (e : Err) : TsPure (.throw e) := fun _ _ => rfl

theorem tp_draw (n : Nat) (k : UInt64 → Prog) (hk : ∀ u, TsPure (k u)) : TsPure (.draw n k) := by
  intro src ts
  simp only [Prog.run]
  cases src.next n with
  | none => rfl
  | some r => simp only [after_ts]; exact hk _ _ _

theorem tp_group (l : String) (s : Bool) (b : Prog) (d : Val → Bool) (k : Val → Prog)
    (hb : TsPure b) (hk : ∀ v, TsPure (k v)) : TsPure (.group l s b d k) := by
  intro src ts
  simp only [Prog.run]
  cases (b.run src ts).res with
  | error e => exact hb src ts
  | ok v =>
    simp only []
    split
    · exact hb src ts
    · simp only [after_ts]; rw [hk v _ _]; exact hb src ts

theorem tp_bind (p : Prog) (f : Val → Prog) (hp : TsPure p) (hf : ∀ v, TsPure (f v)) : TsPure (p >>- f) := by
  intro src ts
  simp only [run_bind, Out.andThen]
  cases (p.run src ts).res with
  | error e => exact hp src ts
  | ok v => simp only [after_ts]; rw [hf v _ _]; exact hp src ts

theorem tp_coin (thr : UInt64) (k : Bool → Prog) (hk : ∀ b, TsPure (k b)) : TsPure (coin thr k) :=
  tp_group _ _ _ _ _ (tp_draw _ _ (fun _ => tp_ret _)) (fun _ => hk _)

theorem tp_uintUnbiased (max : UInt64) (k : UInt64 → Prog) (hk : ∀ u, TsPure (k u)) : ∀ n, TsPure (uintUnbiased max k n) := by
  intro n
  induction n with
  | zero => exact tp_throw _
  | succ n ih =>
    simp only [uintUnbiased]
    exact tp_group _ _ _ _ _ (tp_draw _ _ (fun _ => tp_ret _)) (fun v => by split; exact hk _; exact ih)

theorem tp_uintBiasedLoop (max : UInt64) (g bl : Nat) (k : UInt64 → Bool → Bool → Prog) (hk : ∀ u l r, TsPure (k u l r)) :
    ∀ n, TsPure (uintBiasedLoop max g bl k n) := by
  intro n
  induction n with
  | zero => exact tp_throw _
  | succ n ih =>
    simp only [uintBiasedLoop]
    exact tp_group _ _ _ _ _ (tp_draw _ _ (fun _ => tp_ret _))
      (fun v => by
        repeat' split
        all_goals first | exact hk _ _ _ | exact ih)

theorem tp_uintN (ft : FT) (max : UInt64) (bias : Bool) (fuel : Nat) (k : UInt64 → Bool → Bool → Prog)
    (hk : ∀ u l r, TsPure (k u l r)) : TsPure (uintN ft max bias fuel k) := by
  cases bias with
  | true =>
    simp only [uintN, if_true, uintBiased]
    exact tp_group _ _ _ _ _ (tp_draw _ _ (fun _ => tp_ret _)) (fun v => tp_uintBiasedLoop _ _ _ _ hk _)
  | false =>
    simp only [uintN, Bool.false_eq_true, if_false]
    exact tp_uintUnbiased _ _ (fun u => hk u false false) _

theorem tp_uintRange (ft : FT) (min max : UInt64) (bias : Bool) (fuel : Nat) (k : UInt64 → Bool → Bool → Prog)
    (hk : ∀ u l r, TsPure (k u l r)) : TsPure (uintRange ft min max bias fuel k) := by
  simp only [uintRange]; split; exact tp_throw _; exact tp_uintN _ _ _ _ _ (fun u l r => hk _ l r)

theorem tp_index (ft : FT) (n : Nat) (bias : Bool) (fuel : Nat) (k : Nat → Prog) (hk : ∀ i, TsPure (k i)) :
    TsPure (index ft n bias fuel k) := by
  simp only [index]; split; exact tp_throw _; exact tp_uintN _ _ _ _ _ (fun u _ _ => hk _)

theorem tp_intRange (ft : FT) (min max : Int64) (fuel : Nat) (k : Int64 → Bool → Bool → Prog)
    (hk : ∀ i l r, TsPure (k i l r)) : TsPure (intRange ft min max fuel k) := by
  simp only [intRange]
  split
  · exact tp_throw _
  · apply tp_coin; intro b
    cases b with
    | true => simp only [if_true]; exact tp_uintRange _ _ _ _ _ _ (fun u l r => hk _ _ _)
    | false => simp only [Bool.false_eq_true, if_false]; exact tp_uintRange _ _ _ _ _ _ (fun u l r => hk _ _ _)

theorem tp_findLoop (body : Prog) (ok : Val → Bool) (k : Val → Prog) (hb : TsPure body) (hk : ∀ v, TsPure (k v)) :
    ∀ n, TsPure (findLoop body ok k n) := by
  intro n
  induction n with
  | zero => exact tp_throw _
  | succ n ih => simp only [findLoop]; exact tp_group _ _ _ _ _ hb (fun v => by split; exact hk v; exact ih)

theorem tp_moreCoin (c : RCfg) (s : RSt) (k : Bool → Prog) (hk : ∀ b, TsPure (k b)) : TsPure (moreCoin c s k) := by
  simp only [moreCoin]
  split
  · exact tp_coin _ _ hk
  · split
    · exact tp_group _ _ _ _ _ (tp_draw _ _ (fun _ => tp_ret _)) (fun _ => hk _)
    · split <;> exact tp_coin _ _ hk

theorem tp_repeatLoop (c : RCfg) (step : Val → Prog) (k : Val → Prog) (hs : ∀ acc, TsPure (step acc)) (hk : ∀ acc, TsPure (k acc)) :
    ∀ n s acc, TsPure (repeatLoop c step k n s acc) := by
  intro n
  induction n with
  | zero => intro s acc; exact tp_throw _
  | succ n ih =>
    intro s acc
    simp only [repeatLoop]
    refine tp_group _ _ _ _ _ (tp_moreCoin _ _ _ (fun b => ?_)) (fun r => ?_)
    · split
      · exact tp_bind _ _ (hs acc) (fun r => by split; exact tp_throw _; exact tp_ret _)
      · exact tp_ret _
    · split
      · exact hk acc
      · exact ih _ _
      · exact ih _ _

/-! ### `FirstKept` (a successful run keeps at least one word) -/

def FirstKept (p : Prog) : Prop := ∀ (src : Src) (ts : TS) (v : Val), (p.run src ts).res = .ok v → (p.run src ts).kept ≠ []

theorem keepsSome_of_firstKept {p : Prog} (h : FirstKept p) : KeepsSome p := fun src ts v hv _ => h src ts v hv

theorem fk_draw (n : Nat) (k : UInt64 → Prog) : FirstKept (.draw n k) := by
  intro src ts v h
  simp only [Prog.run] at h ⊢
  cases hn : src.next n with
  | none => simp [hn, Out.ofRes] at h
  | some r => simp

theorem fk_group_keep (l : String) (s : Bool) (b : Prog) (k : Val → Prog) (hb : FirstKept b) :
    FirstKept (.group l s b (fun _ => false) k) := by
  intro src ts v h
  simp only [Prog.run] at h ⊢
  cases hres : (b.run src ts).res with
  | error e => simp [hres] at h
  | ok w =>
    simp only [hres] at h ⊢
    split at h
    · simp at h
    · rename_i hc
      simp only [hc, if_false, Bool.false_eq_true, after_kept]
      intro hnil
      exact hb src ts w hres (List.append_eq_nil_iff.mp hnil).1

theorem fk_bind_left (p : Prog) (f : Val → Prog) (hp : FirstKept p) : FirstKept (p >>- f) := by
  intro src ts v h
  simp only [run_bind, Out.andThen] at h ⊢
  cases hres : (p.run src ts).res with
  | error e => simp [hres] at h
  | ok w =>
    simp only [after_kept]
    intro hnil
    exact hp src ts w hres (List.append_eq_nil_iff.mp hnil).1

theorem fk_coin (thr : UInt64) (k : Bool → Prog) : FirstKept (coin thr k) :=
  fk_group_keep _ _ _ _ (fk_draw _ _)

theorem fk_uintUnbiased (max : UInt64) (k : UInt64 → Prog) : ∀ n, FirstKept (uintUnbiased max k n) := by
  intro n
  induction n with
  | zero => intro src ts v h; simp [uintUnbiased, Prog.run, Out.ofRes] at h
  | succ n ih =>
    intro src ts v h
    rw [uintUnbiased_step] at h ⊢
    cases hn : src.next (len64 max) with
    | none => simp [hn, Out.ofRes] at h
    | some r =>
      obtain ⟨u, src'⟩ := r
      simp only [hn] at h ⊢
      split
      · simp
      · rename_i hle
        simp only [hle, if_false, after_res] at h
        simp only [after_kept, List.nil_append]
        exact ih src' ts v h

theorem fk_uintBiasedLoop (max : UInt64) (g bl : Nat) (k : UInt64 → Bool → Bool → Prog) :
    ∀ n, FirstKept (uintBiasedLoop max g bl k n) := by
  intro n
  induction n with
  | zero => intro src ts v h; simp [uintBiasedLoop, Prog.run, Out.ofRes] at h
  | succ n ih =>
    intro src ts v h
    rw [uintBiasedLoop_step] at h ⊢
    cases hn : src.next bl with
    | none => simp [hn, Out.ofRes] at h
    | some r =>
      obtain ⟨u, src'⟩ := r
      simp only [hn] at h ⊢
      split
      · simp
      · rename_i hacc
        simp only [hacc, if_false, after_res] at h
        simp only [after_kept, List.nil_append]
        exact ih src' ts v h

theorem fk_uintN (ft : FT) (max : UInt64) (bias : Bool) (fuel : Nat) (k : UInt64 → Bool → Bool → Prog) :
    FirstKept (uintN ft max bias fuel k) := by
  cases bias with
  | true => simp only [uintN, if_true, uintBiased]; exact fk_group_keep _ _ _ _ (fk_draw _ _)
  | false => simp only [uintN, Bool.false_eq_true, if_false]; exact fk_uintUnbiased _ _ _

theorem fk_uintRange (ft : FT) (min max : UInt64) (bias : Bool) (fuel : Nat) (k : UInt64 → Bool → Bool → Prog) :
    FirstKept (uintRange ft min max bias fuel k) := by
  simp only [uintRange]
  split
  · intro src ts v h; simp [Prog.run, Out.ofRes] at h
  · exact fk_uintN _ _ _ _ _

theorem fk_index (ft : FT) (n : Nat) (bias : Bool) (fuel : Nat) (k : Nat → Prog) : FirstKept (index ft n bias fuel k) := by
  simp only [index]
  split
  · intro src ts v h; simp [Prog.run, Out.ofRes] at h
  · exact fk_uintN _ _ _ _ _

theorem fk_intRange (ft : FT) (min max : Int64) (fuel : Nat) (k : Int64 → Bool → Bool → Prog) :
    FirstKept (intRange ft min max fuel k) := by
  simp only [intRange]
  split
  · intro src ts v h; simp [Prog.run, Out.ofRes] at h
  · exact fk_coin _ _

theorem fk_findLoop' (body : Prog) (ok : Val → Bool) (k : Val → Prog)
    (hb : ∀ (src : Src) (ts : TS) (v : Val), (body.run src ts).res = .ok v → ok v = true →
      (body.run src ts).used ≠ [] → (body.run src ts).kept ≠ []) :
    ∀ n, FirstKept (findLoop body ok k n) := by
  intro n
  induction n with
  | zero => intro src ts v h; simp [findLoop, Prog.run, Out.ofRes] at h
  | succ n ih =>
    intro src ts v h
    rw [findLoop_step] at h ⊢
    cases hres : (body.run src ts).res with
    | error e => simp [hres] at h
    | ok w =>
      simp only [hres] at h ⊢
      by_cases hok : ok w = true
      · simp only [hok, if_true] at h ⊢
        split at h
        · simp at h
        · rename_i hu
          simp only [hu, if_false, Bool.false_eq_true, after_kept]
          intro hnil
          exact hb src ts w hres hok (by simpa [List.isEmpty_iff] using hu) (List.append_eq_nil_iff.mp hnil).1
      · simp only [hok, if_false, Bool.false_eq_true, after_res] at h
        simp only [hok, if_false, Bool.false_eq_true, after_kept, List.nil_append]
        exact ih _ _ v h

theorem fk_findLoop (body : Prog) (ok : Val → Bool) (k : Val → Prog) (hb : FirstKept body) :
    ∀ n, FirstKept (findLoop body ok k n) := fk_findLoop' body ok k (fun src ts v h _ hu => keepsSome_of_firstKept hb src ts v h hu)

/-- the repeat loop keeps the coin word of its last (stopping) or first accepted iteration -/
theorem fk_repeatLoop (c : RCfg) (step : Val → Prog) (hshape : StepShape step) (k : Val → Prog) :
    ∀ n s acc, FirstKept (repeatLoop c step k n s acc) := by
  intro n
  induction n with
  | zero => intro s acc src ts v h; simp [repeatLoop, Prog.run, Out.ofRes] at h
  | succ n ih =>
    intro s acc src ts v h
    rw [repeatLoop_succ] at h ⊢
    simp only [Prog.run] at h ⊢
    cases hres : ((iterBody c step s acc).run src ts).res with
    | error e => simp [hres] at h
    | ok rv =>
      simp only [hres] at h ⊢
      have hio := iter_ok c step hshape s acc src ts rv hres
      have hue : ((iterBody c step s acc).run src ts).used.isEmpty = false := by
        simpa [List.isEmpty_iff] using hio.used
      simp only [hue, Bool.and_false, Bool.false_eq_true, if_false] at h ⊢
      rcases hio.shape with hrv | hrv | ⟨a, hrv⟩
      · subst hrv
        simp only [rStop, rRej, rStop_ne_rRej, Bool.false_eq_true, if_false, after_kept]
        intro hnil
        exact hio.kept (List.append_eq_nil_iff.mp hnil).1
      · subst hrv
        simp only [rRej, rRej_beq, if_true, after_kept, List.nil_append, after_res] at h ⊢
        exact ih _ _ _ _ v h
      · subst hrv
        simp only [rAcc, rRej, rAcc_ne_rRej, Bool.false_eq_true, if_false, after_kept]
        intro hnil
        exact hio.kept (List.append_eq_nil_iff.mp hnil).1

/-! ### floats -/

theorem ps_uintNoReject (max : UInt64) (k : UInt64 → Prog) (hk : ∀ u, PS (k u)) : PS (uintNoReject max k) :=
  ps_group_keep _ _ _ _ (ps_draw _ _ (fun _ => ps_ret _)) (fun _ => hk _) (keepsSome_of_firstKept (fk_draw _ _))
theorem tp_uintNoReject (max : UInt64) (k : UInt64 → Prog) (hk : ∀ u, TsPure (k u)) : TsPure (uintNoReject max k) :=
  tp_group _ _ _ _ _ (tp_draw _ _ (fun _ => tp_ret _)) (fun _ => hk _)
theorem fk_uintNoReject (max : UInt64) (k : UInt64 → Prog) : FirstKept (uintNoReject max k) :=
  fk_group_keep _ _ _ _ (fk_draw _ _)

theorem ps_ufloatSignif (ft : FT) (S : Nat) (p0 p1 : Int × UInt64 × UInt64) (e : Int) (l r : Bool) (fuel : Nat)
    (k : UInt64 × UInt64 → Prog) (hk : ∀ x, PS (k x)) : PS (ufloatSignif ft S p0 p1 e l r fuel k) :=
  ps_uintRange _ _ _ _ _ _ (fun _ _ _ => ps_uintNoReject _ _ (fun _ => ps_uintRange _ _ _ _ _ _ (fun _ _ _ => hk _)))
theorem tp_ufloatSignif (ft : FT) (S : Nat) (p0 p1 : Int × UInt64 × UInt64) (e : Int) (l r : Bool) (fuel : Nat)
    (k : UInt64 × UInt64 → Prog) (hk : ∀ x, TsPure (k x)) : TsPure (ufloatSignif ft S p0 p1 e l r fuel k) :=
  tp_uintRange _ _ _ _ _ _ (fun _ _ _ => tp_uintNoReject _ _ (fun _ => tp_uintRange _ _ _ _ _ _ (fun _ _ _ => hk _)))
theorem fk_ufloatSignif (ft : FT) (S : Nat) (p0 p1 : Int × UInt64 × UInt64) (e : Int) (l r : Bool) (fuel : Nat)
    (k : UInt64 × UInt64 → Prog) : FirstKept (ufloatSignif ft S p0 p1 e l r fuel k) :=
  fk_uintRange _ _ _ _ _ _

theorem ps_ufloatRange (ft : FT) (f : FFmt) (min max : UInt64) (fuel : Nat) (k : Int → UInt64 → UInt64 → Prog)
    (hk : ∀ e si sf, PS (k e si sf)) : PS (ufloatRange ft f min max fuel k) := by
  unfold ufloatRange
  split
  · exact ps_throw _
  · exact ps_group_keep _ _ _ _ (ps_intRange _ _ _ _ _ (fun _ _ _ => ps_ret _))
      (fun v => ps_group_keep _ _ _ _ (ps_ufloatSignif _ _ _ _ _ _ _ _ _ (fun _ => ps_ret _)) (fun _ => hk _ _ _)
        (keepsSome_of_firstKept (fk_ufloatSignif _ _ _ _ _ _ _ _ _)))
      (keepsSome_of_firstKept (fk_intRange _ _ _ _ _))

theorem tp_ufloatRange (ft : FT) (f : FFmt) (min max : UInt64) (fuel : Nat) (k : Int → UInt64 → UInt64 → Prog)
    (hk : ∀ e si sf, TsPure (k e si sf)) : TsPure (ufloatRange ft f min max fuel k) := by
  unfold ufloatRange
  split
  · exact tp_throw _
  · exact tp_group _ _ _ _ _ (tp_intRange _ _ _ _ _ (fun _ _ _ => tp_ret _))
      (fun v => tp_group _ _ _ _ _ (tp_ufloatSignif _ _ _ _ _ _ _ _ _ (fun _ => tp_ret _)) (fun _ => hk _ _ _))

theorem fk_ufloatRange (ft : FT) (f : FFmt) (min max : UInt64) (fuel : Nat) (k : Int → UInt64 → UInt64 → Prog) :
    FirstKept (ufloatRange ft f min max fuel k) := by
  unfold ufloatRange
  split
  · intro src ts v h; simp [Prog.run, Out.ofRes] at h
  · exact fk_group_keep _ _ _ _ (fk_intRange _ _ _ _ _)

theorem ps_floatValue (ft : FT) (f : FFmt) (min max : UInt64) (fuel : Nat) (k : UInt64 → Prog) (hk : ∀ b, PS (k b)) :
    PS (floatValue ft f min max fuel k) := by
  unfold floatValue floatRange
  exact ps_coin _ _ (fun neg => by cases neg <;> exact ps_ufloatRange _ _ _ _ _ _ (fun _ _ _ => hk _))

theorem tp_floatValue (ft : FT) (f : FFmt) (min max : UInt64) (fuel : Nat) (k : UInt64 → Prog) (hk : ∀ b, TsPure (k b)) :
    TsPure (floatValue ft f min max fuel k) := by
  unfold floatValue floatRange
  exact tp_coin _ _ (fun neg => by cases neg <;> exact tp_ufloatRange _ _ _ _ _ _ (fun _ _ _ => hk _))

theorem fk_floatValue (ft : FT) (f : FFmt) (min max : UInt64) (fuel : Nat) (k : UInt64 → Prog) :
    FirstKept (floatValue ft f min max fuel k) := by
  unfold floatValue floatRange
  exact fk_coin _ _

/-! ### assembly over `Gen` -/

/-- what the theorems need of a generator program -/
structure GenGood (p : Prog) : Prop where
  ps : PS p
  pure : TsPure p
  fk : FirstKept p

theorem gg_value {b : Prog} (l : String) (h : GenGood b) : GenGood (wrapValue l b) :=
  ⟨ps_group_keep _ _ _ _ h.ps (fun v => ps_ret v) (keepsSome_of_firstKept h.fk),
   tp_group _ _ _ _ _ h.pure (fun v => tp_ret v),
   fk_group_keep _ _ _ _ h.fk⟩

theorem gg_bind_ret {p : Prog} (h : GenGood p) (f : Val → Val) : GenGood (p >>- fun v => .ret (f v)) :=
  ⟨ps_bind _ _ h.ps (fun v => ps_ret _), tp_bind _ _ h.pure (fun v => tp_ret _), fk_bind_left _ _ h.fk⟩

/-- every `Custom` function inside the generator expression satisfies `B` (Custom bodies are user
    code: see RapidProofs/PruneCustom.lean for the conditions) -/
def Gen.CustomsIn (B : Prog → Prop) : Gen → Prop
  | .bool | .uint _ _ | .int _ _ | .sampled _ | .perm _ | .runeFrom _ | .float _ _ _ => True
  | .oneOf _ g => ∀ i, (g i).CustomsIn B
  | .filter g _ | .map g _ | .ptr g _ | .deferred g | .asAny g => g.CustomsIn B
  | .slice el _ _ | .distinct el _ _ _ | .mapOfValues el _ _ _ | .stringOf el _ _ _ => el.CustomsIn B
  | .mapOf kg vg _ _ => kg.CustomsIn B ∧ vg.CustomsIn B
  | .custom body => B body

/-- no `Custom` inside -/
def Gen.NoCustom (g : Gen) : Prop := g.CustomsIn (fun _ => False)

/-- the continue-threshold of every collection is positive (true of every `pContinue < 1`) -/
def RTPos (e : Env) : Prop := ∀ a b, 0 < e.rt.rep a b

theorem ss_acc (f : Val → Prog) (h : ∀ acc src ts v, ((f acc).run src ts).res = .ok v → v = rRej ∨ ∃ a, v = rAcc a) : StepShape f := h

/-- a step of the form `elem >>- fun v => ret (g acc v)` where `g` yields rRej or rAcc -/
theorem stepShape_bind_ret (el : Prog) (g : Val → Val → Val) (hg : ∀ acc v, g acc v = rRej ∨ ∃ a, g acc v = rAcc a) :
    StepShape (fun acc => el >>- fun v => .ret (g acc v)) := by
  intro acc src ts v h
  simp only [run_bind, Out.andThen] at h
  cases hres : (el.run src ts).res with
  | error e => simp [hres] at h
  | ok w =>
    simp only [hres, after_res, Prog.run, Out.ofRes, Except.ok.injEq] at h
    rw [← h]; exact hg acc w

theorem noRej_bind_ret (el : Prog) (g : Val → Val → Val) (hg : ∀ acc v, ∃ a, g acc v = rAcc a) :
    NoRej (fun acc => el >>- fun v => .ret (g acc v)) := by
  intro acc src ts h
  simp only [run_bind, Out.andThen] at h
  cases hres : (el.run src ts).res with
  | error e => simp [hres] at h
  | ok w =>
    simp only [hres, after_res, Prog.run, Out.ofRes, Except.ok.injEq] at h
    obtain ⟨a, ha⟩ := hg acc w
    rw [ha] at h; simp [rAcc, rRej] at h

/-- a repeat-based collection whose step is `elem >>- ret (g acc v)` -/
theorem gg_repeat (c : RCfg) (el : Prog) (hel : GenGood el) (g : Val → Val → Val)
    (hg : ∀ acc v, g acc v = rRej ∨ ∃ a, g acc v = rAcc a)
    (hthr : 0 < c.thr ∨ ∀ acc v, ∃ a, g acc v = rAcc a) (fuel : Nat) (init : Val) :
    GenGood (repeatLoop c (fun acc => el >>- fun v => .ret (g acc v)) .ret fuel {} init) := by
  have hshape := stepShape_bind_ret el g hg
  refine ⟨?_, tp_repeatLoop _ _ _ (fun acc => tp_bind _ _ hel.pure (fun v => tp_ret _)) (fun acc => tp_ret _) _ _ _,
    fk_repeatLoop _ _ hshape _ _ _ _⟩
  intro src ts xs hgood ho
  exact ps_repeatLoop c _ (hthr.imp id (fun h => noRej_bind_ret el g h))
    (fun acc => ps_bind _ _ hel.ps (fun v => ps_ret _)) (fun acc => tp_bind _ _ hel.pure (fun v => tp_ret _)) hshape
    .ret (fun acc => ps_ret acc) fuel fuel (Nat.le_refl _) {} {} init ⟨rfl, rfl⟩ (fun h => by cases h) (fun _ => rfl)
    src ts xs hgood ho

theorem rAcc_or (a : Val) (b : Bool) : (if b then rRej else rAcc a) = rRej ∨ ∃ x, (if b then rRej else rAcc a) = rAcc x := by
  cases b
  · exact Or.inr ⟨a, rfl⟩
  · exact Or.inl rfl

/-- **L-PS for generators**: every generator expression without `Custom` is prune-stable, leaves
    the `*T` alone and keeps a word when it succeeds -/
theorem gen_goodB (e : Env) (hrt : RTPos e) (B : Prog → Prop)
    (hB : ∀ (body : Prog) (lab : Bool), B body → GenGood (Gen.body e lab (.custom body))) :
    ∀ (g : Gen) (lab : Bool), g.CustomsIn B → GenGood (g.body e lab) := by
  intro g
  induction g with
  | bool => intro _ _; exact ⟨ps_draw _ _ (fun _ => ps_ret _), tp_draw _ _ (fun _ => tp_ret _), fk_draw _ _⟩
  | uint mn mx =>
    intro _ _
    exact ⟨ps_uintRange _ _ _ _ _ _ (fun _ _ _ => ps_ret _), tp_uintRange _ _ _ _ _ _ (fun _ _ _ => tp_ret _), fk_uintRange _ _ _ _ _ _⟩
  | int mn mx =>
    intro _ _
    exact ⟨ps_intRange _ _ _ _ _ (fun _ _ _ => ps_ret _), tp_intRange _ _ _ _ _ (fun _ _ _ => tp_ret _), fk_intRange _ _ _ _ _⟩
  | sampled n =>
    intro _ _
    exact ⟨ps_index _ _ _ _ _ (fun _ => ps_ret _), tp_index _ _ _ _ _ (fun _ => tp_ret _), fk_index _ _ _ _ _⟩
  | oneOf n gs ih =>
    intro lab h
    exact ⟨ps_index _ _ _ _ _ (fun i => (gg_value _ (ih i _ (h i))).ps), tp_index _ _ _ _ _ (fun i => (gg_value _ (ih i _ (h i))).pure),
      fk_index _ _ _ _ _⟩
  | filter g p ih =>
    intro lab h
    have hb := gg_bind_ret (gg_value (g.lbl lab) (ih lab h)) (fun v => if p v then .cons v .nil else .nil)
    refine ⟨?_, tp_findLoop _ _ _ hb.pure (fun r => by split <;> exact tp_ret _) _, fk_findLoop _ _ _ hb.fk _⟩
    intro src ts xs hg ho
    exact ps_findLoop _ _ _ hb.ps hb.pure (keepsSome_of_firstKept hb.fk) (fun r => by split <;> exact ps_ret _)
      5 5 (Nat.le_refl _) src ts xs hg ho
  | map g f ih => intro lab h; exact gg_bind_ret (gg_value _ (ih _ h)) f
  | slice el mn mx ih =>
    intro lab h
    exact gg_repeat _ _ (gg_value _ (ih _ h)) (fun acc v => rAcc (acc.snoc v)) (fun acc v => Or.inr ⟨_, rfl⟩)
      (Or.inr (fun acc v => ⟨_, rfl⟩)) _ _
  | distinct el mn mx key ih =>
    intro lab h
    exact gg_repeat _ _ (gg_value _ (ih _ h)) (fun acc v => if acc.hasKey key (key v) then rRej else rAcc (acc.snoc v))
      (fun acc v => rAcc_or _ _) (Or.inl (hrt _ _)) _ _
  | mapOf kg vg mn mx ihk ihv =>
    intro lab h
    -- the step draws a key, then a value
    have hk := gg_value kg.label (ihk true h.1)
    have hv := gg_value vg.label (ihv true h.2)
    let keyOf : Val → Val := fun kv => match kv with | .cons k' _ => k' | x => x
    let step : Val → Prog := fun acc => (wrapValue kg.label (kg.body e true)) >>- fun k => (wrapValue vg.label (vg.body e true)) >>- fun v =>
      .ret (if acc.hasKey keyOf k then rRej else rAcc (acc.snoc (.cons k v)))
    have hshape : StepShape step := by
      intro acc src ts v hres
      simp only [step, run_bind, Out.andThen] at hres
      cases h1 : ((wrapValue kg.label (kg.body e true)).run src ts).res with
      | error er => simp [h1] at hres
      | ok k =>
        simp only [h1, after_res] at hres
        cases h2 : ((wrapValue vg.label (vg.body e true)).run ((wrapValue kg.label (kg.body e true)).run src ts).src ((wrapValue kg.label (kg.body e true)).run src ts).ts).res with
        | error er => simp [h2] at hres
        | ok w =>
          simp only [h2, after_res, Prog.run, Out.ofRes, Except.ok.injEq] at hres
          rw [← hres]; exact rAcc_or _ _
    have hps : ∀ acc, PS (step acc) := fun acc => ps_bind _ _ hk.ps (fun k => ps_bind _ _ hv.ps (fun v => ps_ret _))
    have htp : ∀ acc, TsPure (step acc) := fun acc => tp_bind _ _ hk.pure (fun k => tp_bind _ _ hv.pure (fun v => tp_ret _))
    refine ⟨?_, tp_repeatLoop _ _ _ htp (fun acc => tp_ret _) _ _ _, fk_repeatLoop _ _ hshape _ _ _ _⟩
    intro src ts xs hgood ho
    exact ps_repeatLoop _ step (Or.inl (hrt _ _)) hps htp hshape .ret (fun acc => ps_ret acc) e.fuel e.fuel (Nat.le_refl _) {} {} .nil
      ⟨rfl, rfl⟩ (fun h => by cases h) (fun _ => rfl) src ts xs hgood ho
  | mapOfValues vg mn mx key ih =>
    intro lab h
    exact gg_repeat _ _ (gg_value _ (ih _ h))
      (fun acc v => if acc.hasKey (fun kv => match kv with | .cons k' _ => k' | x => x) (key v) then rRej else rAcc (acc.snoc (.cons (key v) v)))
      (fun acc v => rAcc_or _ _) (Or.inl (hrt _ _)) _ _
  | ptr el allowNil ih =>
    intro lab h
    have hv := gg_bind_ret (gg_value (el.lbl lab) (ih lab h)) (fun v => .cons v .nil)
    exact ⟨ps_coin _ _ (fun b => by cases b; exact ps_ret _; exact hv.ps),
      tp_coin _ _ (fun b => by cases b; exact tp_ret _; exact hv.pure), fk_coin _ _⟩
  | perm n =>
    intro _ _
    let step : Val → Prog := fun acc =>
      match acc with
      | .cons (.int i) sl =>
        uintRange e.ft (UInt64.ofNat i.toNat) (UInt64.ofNat (n - 1)) false e.fuel fun j _ _ =>
          .ret (rAcc (.cons (.int (i + 1)) (Val.ofList (swapAt sl.toList i.toNat j.toNat))))
      | _ => .ret (rAcc acc)
    have hps : ∀ acc, PS (step acc) := by
      intro acc; simp only [step]; split
      · exact ps_uintRange _ _ _ _ _ _ (fun _ _ _ => ps_ret _)
      · exact ps_ret _
    have htp : ∀ acc, TsPure (step acc) := by
      intro acc; simp only [step]; split
      · exact tp_uintRange _ _ _ _ _ _ (fun _ _ _ => tp_ret _)
      · exact tp_ret _
    have hacc : ∀ acc src ts v, ((step acc).run src ts).res = .ok v → ∃ a, v = rAcc a := by
      intro acc src ts v hres
      simp only [step] at hres
      split at hres
      · rename_i i sl
        rcases yields_uintRange_any e.ft (UInt64.ofNat i.toNat) (UInt64.ofNat (n - 1)) false e.fuel
          (fun x => .ret (rAcc (.cons (.int (i + 1)) (Val.ofList (swapAt sl.toList i.toNat x.1.toNat))))) src ts with ⟨a, s2, u2, k2, t2, o2, heq⟩ | ⟨er, he⟩
        · rw [heq] at hres
          simp only [after_res, Prog.run, Out.ofRes, Except.ok.injEq] at hres
          exact ⟨_, hres.symm⟩
        · rw [he] at hres; cases hres
      · simp only [Prog.run, Out.ofRes, Except.ok.injEq] at hres; exact ⟨_, hres.symm⟩
    have hshape : StepShape step := fun acc src ts v hres => Or.inr (hacc acc src ts v hres)
    have hnorej : NoRej step := by
      intro acc src ts hres
      obtain ⟨a, ha⟩ := hacc acc src ts _ hres
      simp [rAcc, rRej] at ha
    refine ⟨?_, tp_repeatLoop _ _ _ htp (fun acc => by split <;> exact tp_ret _) _ _ _, fk_repeatLoop _ _ hshape _ _ _ _⟩
    intro src ts xs hgood ho
    exact ps_repeatLoop _ step (Or.inr hnorej) hps htp hshape _ (fun acc => by split <;> exact ps_ret _) e.fuel e.fuel (Nat.le_refl _)
      {} {} _ ⟨rfl, rfl⟩ (fun h => by cases h) (fun _ => rfl) src ts xs hgood ho
  | custom body => intro lab h; exact hB body lab h
  | float f mn mx =>
    intro _ _
    exact ⟨ps_floatValue _ _ _ _ _ _ (fun _ => ps_ret _), tp_floatValue _ _ _ _ _ _ (fun _ => tp_ret _), fk_floatValue _ _ _ _ _ _⟩
  | deferred g ih => intro lab h; exact gg_value _ (ih _ h)
  | asAny g ih => intro lab h; exact gg_value _ (ih _ h)
  | runeFrom runes =>
    intro _ _
    have hi : GenGood (index e.ft (dieTable [0]).length false e.fuel fun ix => .ret (.int ix)) :=
      ⟨ps_index _ _ _ _ _ (fun _ => ps_ret _), tp_index _ _ _ _ _ (fun _ => tp_ret _), fk_index _ _ _ _ _⟩
    have hk : ∀ v : Val, GenGood (match v with
        | .int i => index e.ft runes.length true e.fuel fun i => .ret (.int (runes.getD i 0))
        | _ => index e.ft runes.length true e.fuel fun i => .ret (.int (runes.getD i 0))) := by
      intro v
      split <;> exact ⟨ps_index _ _ _ _ _ (fun _ => ps_ret _), tp_index _ _ _ _ _ (fun _ => tp_ret _), fk_index _ _ _ _ _⟩
    simp only [Gen.body, dieRoll]
    exact ⟨ps_group_keep _ _ _ _ hi.ps (fun v => (hk v).ps) (keepsSome_of_firstKept hi.fk),
      tp_group _ _ _ _ _ hi.pure (fun v => (hk v).pure), fk_group_keep _ _ _ _ hi.fk⟩
  | stringOf el mnr mxr ml ih =>
    intro lab h
    exact gg_repeat _ _ (gg_value _ (ih _ h))
      (fun acc v => match v with
        | .int r => match runeLen r with
          | some n => if acc.byteLen + n > normMax ml then rRej else rAcc (acc.snoc v)
          | none => rRej
        | _ => rRej)
      (fun acc v => by
        split
        · split
          · split
            · exact Or.inl rfl
            · exact Or.inr ⟨_, rfl⟩
          · exact Or.inl rfl
        · exact Or.inl rfl)
      (Or.inl (hrt _ _)) _ _

theorem gen_good (e : Env) (hrt : RTPos e) : ∀ (g : Gen) (lab : Bool), g.NoCustom → GenGood (g.body e lab) :=
  gen_goodB e hrt (fun _ => False) (fun _ _ h => h.elim)

/-- every generator (without Custom) drawn with `g.Draw` -/
theorem gen_value_good (e : Env) (hrt : RTPos e) (g : Gen) (h : g.NoCustom) : GenGood (g.value e) :=
  gg_value _ (gen_good e hrt g _ h)

end Rapid
