/-
  RapidProofs.ContractsGen — length contracts of the collection generators (SliceOf*, MapOf*,
  StringOf*): whatever the bit source, a collection that is produced has between `minLen` and
  `maxLen` elements (runes, entries).
-/
import RapidProofs.ContractsRepeat
import RapidProofs.PruneGen

namespace Rapid

theorem Val.length_snoc : ∀ (a x : Val), (a.snoc x).length = a.length + 1
  | .cons h t, x => by simp [Val.snoc, Val.length, Val.length_snoc t x]
  | .int _, _ => by simp [Val.snoc, Val.length]
  | .bool _, _ => by simp [Val.snoc, Val.length]
  | .nil, _ => by simp [Val.snoc, Val.length]

/-- the result of `el >>- fun v => ret (g v)` is `g w` for some `w` -/
theorem bind_ret_res (el : Prog) (g : Val → Val) (src : Src) (ts : TS) (r : Val)
    (h : ((el >>- fun v => .ret (g v)).run src ts).res = .ok r) : ∃ w, g w = r := by
  simp only [run_bind, Out.andThen] at h
  cases hres : (el.run src ts).res with
  | error e => simp [hres] at h
  | ok w =>
    simp only [hres, after_res, Prog.run, Out.ofRes, Except.ok.injEq] at h
    exact ⟨w, h⟩

/-- a collection loop whose step draws one element and accepts (`snoc`) or rejects it -/
theorem repeat_length (c : RCfg) (hmm : c.minC ≤ c.maxC) (el : Prog) (g : Val → Val → Val)
    (hg : ∀ acc v, g acc v = rRej ∨ ∃ x, g acc v = rAcc (acc.snoc x)) (fuel : Nat)
    (src : Src) (ts : TS) (v : Val)
    (h : ((repeatLoop c (fun acc => el >>- fun w => .ret (g acc w)) .ret fuel {} .nil).run src ts).res = .ok v) :
    c.minC ≤ v.length ∧ v.length ≤ c.maxC := by
  have hshape : StepShape (fun acc => el >>- fun w => .ret (g acc w)) :=
    stepShape_bind_ret el g (fun acc w => by
      rcases hg acc w with h | ⟨x, h⟩
      · exact Or.inl h
      · exact Or.inr ⟨_, h⟩)
  have hstep : ∀ acc src ts a, (((fun acc => el >>- fun w => .ret (g acc w)) acc).run src ts).res = .ok (rAcc a) →
      a.length = acc.length + 1 := by
    intro acc src ts a hr
    obtain ⟨w, hw⟩ := bind_ret_res el (g acc) src ts _ hr
    rcases hg acc w with h | ⟨x, h⟩
    · rw [h] at hw; simp [rRej, rAcc] at hw
    · rw [h] at hw
      simp only [rAcc, Val.cons.injEq, true_and] at hw
      rw [← hw]; exact Val.length_snoc acc x
  rcases reaches_repeatLoop c hmm _ hshape Val.length hstep fuel {} .nil (Nat.zero_le _) rfl .ret src ts with
    ⟨a, ha, s', t', u, kk, tk, ev, ov, hrun⟩ | ⟨e, he⟩
  · rw [hrun] at h
    simp only [after_res, Prog.run, Out.ofRes, Except.ok.injEq] at h
    rw [← h]; exact ha
  · rw [he] at h; cases h

theorem slice_length (e : Env) (lab : Bool) (elem : Gen) (lo hi : Int) (hmm : normMin lo ≤ normMax hi)
    (src : Src) (ts : TS) (v : Val) (h : (((Gen.slice elem lo hi).body e lab).run src ts).res = .ok v) :
    normMin lo ≤ v.length ∧ v.length ≤ normMax hi :=
  repeat_length ⟨normMin lo, normMax hi, _, _⟩ hmm _ (fun acc v => rAcc (acc.snoc v))
    (fun acc v => Or.inr ⟨v, rfl⟩) _ src ts v h

theorem distinct_length (e : Env) (lab : Bool) (elem : Gen) (lo hi : Int) (key : Val → Val) (hmm : normMin lo ≤ normMax hi)
    (src : Src) (ts : TS) (v : Val) (h : (((Gen.distinct elem lo hi key).body e lab).run src ts).res = .ok v) :
    normMin lo ≤ v.length ∧ v.length ≤ normMax hi :=
  repeat_length ⟨normMin lo, normMax hi, _, _⟩ hmm _
    (fun acc v => if acc.hasKey key (key v) then rRej else rAcc (acc.snoc v))
    (fun acc v => by
      by_cases hk : acc.hasKey key (key v) = true
      · exact Or.inl (by simp [hk])
      · exact Or.inr ⟨v, by simp [hk]⟩) _ src ts v h

theorem mapOfValues_length (e : Env) (lab : Bool) (vg : Gen) (lo hi : Int) (key : Val → Val) (hmm : normMin lo ≤ normMax hi)
    (src : Src) (ts : TS) (v : Val) (h : (((Gen.mapOfValues vg lo hi key).body e lab).run src ts).res = .ok v) :
    normMin lo ≤ v.length ∧ v.length ≤ normMax hi :=
  repeat_length ⟨normMin lo, normMax hi, _, _⟩ hmm _
    (fun acc v => if acc.hasKey (fun kv => match kv with | .cons k' _ => k' | x => x) (key v) then rRej
                  else rAcc (acc.snoc (.cons (key v) v)))
    (fun acc v => by
      by_cases hk : acc.hasKey (fun kv => match kv with | .cons k' _ => k' | x => x) (key v) = true
      · exact Or.inl (by simp [hk])
      · exact Or.inr ⟨.cons (key v) v, by simp [hk]⟩) _ src ts v h

/-- `StringOfN`: the number of runes -/
theorem stringOf_length (e : Env) (lab : Bool) (elem : Gen) (lo hi ml : Int) (hmm : normMin lo ≤ normMax hi)
    (src : Src) (ts : TS) (v : Val) (h : (((Gen.stringOf elem lo hi ml).body e lab).run src ts).res = .ok v) :
    normMin lo ≤ v.length ∧ v.length ≤ normMax hi :=
  repeat_length ⟨normMin lo, normMax hi, _, _⟩ hmm _
    (fun acc v => match v with
      | .int r => match runeLen r with
        | some n => if acc.byteLen + n > normMax ml then rRej else rAcc (acc.snoc v)
        | none => rRej
      | _ => rRej)
    (fun acc v => by
      split
      · split
        · split
          · exact Or.inl rfl
          · exact Or.inr ⟨_, rfl⟩
        · exact Or.inl rfl
      · exact Or.inl rfl) _ src ts v h

/-! ### distinctness and the filter predicate -/

/-- no two elements of the chain have the same key -/
def Val.distinctBy (key : Val → Val) : Val → Prop
  | .cons h t => Val.hasKey key t (key h) = false ∧ Val.distinctBy key t
  | _ => True

theorem Val.hasKey_snoc (key : Val → Val) : ∀ (a x k : Val), Val.hasKey key (a.snoc x) k = (Val.hasKey key a k || key x == k)
  | .cons h t, x, k => by simp [Val.snoc, Val.hasKey, Val.hasKey_snoc key t x k, Bool.or_assoc]
  | .int _, _, _ => by simp [Val.snoc, Val.hasKey]
  | .bool _, _, _ => by simp [Val.snoc, Val.hasKey]
  | .nil, _, _ => by simp [Val.snoc, Val.hasKey]

theorem Val.distinctBy_snoc (key : Val → Val) : ∀ (a x : Val), Val.distinctBy key a → Val.hasKey key a (key x) = false →
    Val.distinctBy key (a.snoc x)
  | .cons h t, x, hd, hk => by
    simp only [Val.hasKey, Bool.or_eq_false_iff] at hk
    simp only [Val.snoc, Val.distinctBy, Val.hasKey_snoc, Bool.or_eq_false_iff]
    refine ⟨⟨hd.1, ?_⟩, Val.distinctBy_snoc key t x hd.2 hk.2⟩
    have : key h ≠ key x := by simpa using hk.1
    simpa using fun h' => this h'.symm
  | .int _, _, _, _ => by simp [Val.snoc, Val.distinctBy, Val.hasKey]
  | .bool _, _, _, _ => by simp [Val.snoc, Val.distinctBy, Val.hasKey]
  | .nil, _, _, _ => by simp [Val.snoc, Val.distinctBy, Val.hasKey]

/-- `SliceOfNDistinct`: the keys of the elements are pairwise distinct -/
theorem distinct_keys (e : Env) (lab : Bool) (elem : Gen) (lo hi : Int) (key : Val → Val) (hmm : normMin lo ≤ normMax hi)
    (src : Src) (ts : TS) (v : Val) (h : (((Gen.distinct elem lo hi key).body e lab).run src ts).res = .ok v) :
    Val.distinctBy key v := by
  let el := wrapValue elem.label (elem.body e true)
  let g : Val → Val → Val := fun acc v => if acc.hasKey key (key v) then rRej else rAcc (acc.snoc v)
  have hshape : StepShape (fun acc => el >>- fun w => .ret (g acc w)) :=
    stepShape_bind_ret el g (fun acc w => rAcc_or _ _)
  have hstep : ∀ acc src ts a, Val.distinctBy key acc →
      (((fun acc => el >>- fun w => .ret (g acc w)) acc).run src ts).res = .ok (rAcc a) →
      a.length = acc.length + 1 ∧ Val.distinctBy key a := by
    intro acc src ts a hI hr
    obtain ⟨w, hw⟩ := bind_ret_res el (g acc) src ts _ hr
    simp only [g] at hw
    by_cases hk : acc.hasKey key (key w) = true
    · simp [hk, rRej, rAcc] at hw
    · simp only [hk, Bool.false_eq_true, if_false, rAcc, Val.cons.injEq, true_and] at hw
      rw [← hw]
      exact ⟨Val.length_snoc acc w, Val.distinctBy_snoc key acc w hI (by simpa using hk)⟩
  rcases reaches_repeatLoop_inv ⟨normMin lo, normMax hi, e.rt.rep (normMin lo) (normMax hi), elem.label⟩ hmm _ hshape
      Val.length (Val.distinctBy key) hstep e.fuel {} .nil (Nat.zero_le _) rfl trivial .ret src ts with
    ⟨a, ha, s', t', u, kk, tk, ev, ov, hrun⟩ | ⟨er, he⟩
  · have h' : ((repeatLoop ⟨normMin lo, normMax hi, e.rt.rep (normMin lo) (normMax hi), elem.label⟩
        (fun acc => el >>- fun w => .ret (g acc w)) .ret e.fuel {} .nil).run src ts).res = .ok v := h
    rw [hrun] at h'
    simp only [after_res, Prog.run, Out.ofRes, Except.ok.injEq] at h'
    rw [← h']; exact ha.2.2
  · have h' : ((repeatLoop ⟨normMin lo, normMax hi, e.rt.rep (normMin lo) (normMax hi), elem.label⟩
        (fun acc => el >>- fun w => .ret (g acc w)) .ret e.fuel {} .nil).run src ts).res = .ok v := h
    rw [he] at h'; cases h'

theorem findLoop_res (body : Prog) (ok : Val → Bool) (k : Val → Prog) (n : Nat) (src : Src) (ts : TS) (v : Val)
    (h : ((findLoop body ok k n).run src ts).res = .ok v) :
    ∃ r s' t', ok r = true ∧ (∃ s0 t0, (body.run s0 t0).res = .ok r) ∧ ((k r).run s' t').res = .ok v := by
  rcases reaches_findLoop body ok n k src ts with ⟨r, ⟨hok, hb⟩, s', t', u, kk, tk, ev, ov, hrun⟩ | ⟨er, he⟩
  · dsimp only at hrun
    rw [hrun] at h
    exact ⟨r, s', t', hok, hb, by simpa using h⟩
  · dsimp only at he
    rw [he] at h; cases h

/-- `Filter`: a value that is produced satisfies the predicate -/
theorem filter_pred (e : Env) (lab : Bool) (g : Gen) (p : Val → Bool) (src : Src) (ts : TS) (v : Val)
    (h : (((Gen.filter g p).body e lab).run src ts).res = .ok v) : p v = true := by
  simp only [Gen.body] at h
  obtain ⟨r, s', t', hok, ⟨s0, t0, hb⟩, hk⟩ := findLoop_res _ _ _ _ _ _ _ h
  obtain ⟨w, hw⟩ := bind_ret_res _ (fun v => if p v then Val.cons v .nil else .nil) s0 t0 r hb
  by_cases hp : p w = true
  · simp only [hp, if_true] at hw
    subst hw
    simp only [Prog.run, Out.ofRes, Except.ok.injEq] at hk
    rw [← hk]; exact hp
  · simp only [hp, Bool.false_eq_true, if_false] at hw
    subst hw
    simp at hok

end Rapid
