/-
  RapidProofs.Replay — L-replay / L-prefix: running a program on exactly the words it
  recorded, followed by anything, reproduces the run (same result, same T, same recording,
  same events) and leaves the "anything" unconsumed.
-/
import RapidModel.Engine

namespace Rapid

theorem bitmask64_of_ge {n : Nat} (h : n ≥ 64) : bitmask64 n = 0xFFFFFFFFFFFFFFFF := by
  simp [bitmask64, h]

theorem mask_allOnes_of_gt {n : Nat} (h : ¬ n ≤ 64) : mask n 0xFFFFFFFFFFFFFFFF = 0xFFFFFFFFFFFFFFFF := by
  have : n ≥ 64 := by omega
  simp [mask, bitmask64_of_ge this]

/-- what a source hands out is already masked -/
theorem next_masked {s s' : Src} {n : Nat} {u : UInt64} (h : s.next n = some (u, s')) : mask n u = u := by
  cases s with
  | buf ws =>
    cases ws with
    | nil => simp [Src.next] at h
    | cons w ws =>
      simp only [Src.next, Option.some.injEq, Prod.mk.injEq] at h
      rw [← h.1]; exact mask_idem n w
  | rng x =>
    simp only [Src.next] at h
    split at h
    · simp only [Option.some.injEq, Prod.mk.injEq] at h
      rw [← h.1]; exact mask_idem n _
    · rename_i hn
      simp only [Option.some.injEq, Prod.mk.injEq] at h
      rw [← h.1]; exact mask_allOnes_of_gt hn

theorem buf_next_cons {n : Nat} {u : UInt64} (hm : mask n u = u) (rest : List UInt64) :
    (Src.buf (u :: rest)).next n = some (u, .buf rest) := by
  simp [Src.next, hm]

@[simp] theorem after_src (o : Out) (u k : List UInt64) (t : List Tok) (e : List Ev) (ov : Bool) (s : Src) :
    { o.after u k t e ov with src := s } = ({ o with src := s } : Out).after u k t e ov := rfl

@[simp] theorem after_used (o : Out) (u k : List UInt64) (t : List Tok) (e : List Ev) (ov : Bool) :
    (o.after u k t e ov).used = u ++ o.used := rfl
@[simp] theorem after_kept (o : Out) (u k : List UInt64) (t : List Tok) (e : List Ev) (ov : Bool) :
    (o.after u k t e ov).kept = k ++ o.kept := rfl
@[simp] theorem after_toks (o : Out) (u k : List UInt64) (t : List Tok) (e : List Ev) (ov : Bool) :
    (o.after u k t e ov).toks = t ++ o.toks := rfl
@[simp] theorem after_evs (o : Out) (u k : List UInt64) (t : List Tok) (e : List Ev) (ov : Bool) :
    (o.after u k t e ov).evs = e ++ o.evs := rfl
@[simp] theorem after_res (o : Out) (u k : List UInt64) (t : List Tok) (e : List Ev) (ov : Bool) :
    (o.after u k t e ov).res = o.res := rfl
@[simp] theorem after_ts (o : Out) (u k : List UInt64) (t : List Tok) (e : List Ev) (ov : Bool) :
    (o.after u k t e ov).ts = o.ts := rfl
@[simp] theorem after_srcproj (o : Out) (u k : List UInt64) (t : List Tok) (e : List Ev) (ov : Bool) :
    (o.after u k t e ov).src = o.src := rfl
@[simp] theorem after_overran (o : Out) (u k : List UInt64) (t : List Tok) (e : List Ev) (ov : Bool) :
    (o.after u k t e ov).overran = (ov || o.overran) := rfl

/-- the statement of L-replay for one program -/
def Replays (p : Prog) : Prop :=
  ∀ (src : Src) (ts : TS) (xs : List UInt64), (p.run src ts).overran = false →
    p.run (.buf ((p.run src ts).used ++ xs)) ts = { p.run src ts with src := .buf xs }

theorem replays_ret (v : Val) : Replays (.ret v) := by
  intro src ts xs _; simp [Prog.run, Out.ofRes]

theorem replays_throw (e : Err) : Replays (.throw e) := by
  intro src ts xs _; simp [Prog.run, Out.ofRes]

theorem replays_draw (n : Nat) (k : UInt64 → Prog) (ih : ∀ u, Replays (k u)) : Replays (.draw n k) := by
  intro src ts xs h
  cases hn : src.next n with
  | none => simp [Prog.run, hn, Out.ofRes] at h
  | some r =>
    obtain ⟨u, src'⟩ := r
    simp only [Prog.run, hn] at h ⊢
    simp only [after_overran, Bool.false_or] at h
    simp only [after_used, List.singleton_append, List.cons_append, List.nil_append]
    rw [buf_next_cons (next_masked hn)]
    simp only []
    rw [ih u src' ts xs h]
    rfl

/-- sequencing shape used by most constructors: a first part `o`, then a continuation -/
theorem replays_group (l : String) (s : Bool) (b : Prog) (d : Val → Bool) (k : Val → Prog)
    (ihb : Replays b) (ihk : ∀ v, Replays (k v)) : Replays (.group l s b d k) := by
  intro src ts xs h
  simp only [Prog.run] at h ⊢
  cases hb : (b.run src ts).res with
  | error e =>
    simp only [hb] at h ⊢
    have := ihb src ts xs h
    rw [this]; simp [hb]
  | ok v =>
    simp only [hb] at h ⊢
    by_cases hc : (!d v && (b.run src ts).used.isEmpty) = true
    · simp only [hc, if_true] at h ⊢
      have := ihb src ts xs h
      rw [this]; simp [hb, hc]
    · simp only [hc, if_false, Bool.false_eq_true] at h ⊢
      simp only [after_overran, Bool.or_eq_false_iff] at h
      obtain ⟨h1, h2⟩ := h
      simp only [after_used, List.append_assoc]
      rw [ihb src ts _ h1]
      simp only [hb, hc, if_false, Bool.false_eq_true]
      rw [ihk v _ _ xs h2]
      rfl

theorem replays_catchInv (b : Prog) (k : Option Val → Bool → Prog)
    (ihb : Replays b) (ihk : ∀ o d, Replays (k o d)) : Replays (.catchInv b k) := by
  intro src ts xs h
  simp only [Prog.run] at h ⊢
  cases hb : (b.run src ts).res with
  | ok v =>
    simp only [hb] at h ⊢
    simp only [after_overran, Bool.or_eq_false_iff] at h
    obtain ⟨h1, h2⟩ := h
    simp only [after_used, List.append_assoc]
    rw [ihb src ts _ h1]
    simp only [hb]
    rw [ihk _ _ _ _ xs h2]
    rfl
  | error e =>
    cases e with
    | invalid m =>
      simp only [hb] at h ⊢
      simp only [after_overran, Bool.or_eq_false_iff] at h
      obtain ⟨h1, h2⟩ := h
      simp only [after_used, List.append_assoc]
      rw [ihb src ts _ h1]
      simp only [hb]
      rw [ihk _ _ _ _ xs h2]
      rfl
    | stop m s =>
      simp only [hb] at h ⊢
      rw [ihb src ts xs h]; simp [hb]
    | panic m s =>
      simp only [hb] at h ⊢
      rw [ihb src ts xs h]; simp [hb]
    | fuel =>
      simp only [hb] at h ⊢
      rw [ihb src ts xs h]; simp [hb]

theorem replays_inner (b : Prog) (k : Val → Prog)
    (ihb : Replays b) (ihk : ∀ v, Replays (k v)) : Replays (.inner b k) := by
  intro src ts xs h
  simp only [Prog.run] at h ⊢
  cases hc : (cleanupPhase (b.run src TS.fresh).ts).err with
  | some e =>
    simp only [hc] at h ⊢
    rw [ihb src TS.fresh xs h]; simp [hc]
  | none =>
    simp only [hc] at h ⊢
    cases hb : (b.run src TS.fresh).res with
    | error e =>
      simp only [hb] at h ⊢
      rw [ihb src TS.fresh xs h]; simp [hc, hb]
    | ok v =>
      simp only [hb] at h ⊢
      simp only [after_overran, Bool.or_eq_false_iff] at h
      obtain ⟨h1, h2⟩ := h
      simp only [after_used, List.append_assoc]
      rw [ihb src TS.fresh _ h1]
      simp only [hc, hb]
      rw [ihk v _ _ xs h2]
      rfl

/-- **L-replay**: every program replays from its own recording. -/
theorem run_replay (p : Prog) : Replays p := by
  induction p with
  | ret v => exact replays_ret v
  | throw e => exact replays_throw e
  | draw n k ih => exact replays_draw n k ih
  | group l s b d k ihb ihk => exact replays_group l s b d k ihb ihk
  | catchInv b k ihb ihk => exact replays_catchInv b k ihb ihk
  | errorf m k ih =>
    intro src ts xs h
    simp only [Prog.run] at h ⊢
    simp only [after_overran, Bool.false_or] at h
    simp only [after_used, List.nil_append]
    rw [ih src _ xs h]; rfl
  | failOnError site k ih =>
    intro src ts xs h
    simp only [Prog.run] at h ⊢
    cases hf : ts.failed with
    | some m => simp [hf, Out.ofRes]
    | none => simp only [hf] at h ⊢; exact ih src ts xs h
  | tick k ih => intro src ts xs h; simp only [Prog.run] at h ⊢; exact ih src _ xs h
  | cleanup c k ih => intro src ts xs h; simp only [Prog.run] at h ⊢; exact ih src _ xs h
  | ctx k ih =>
    intro src ts xs h
    simp only [Prog.run] at h ⊢
    cases hc : ts.ctx with
    | some id =>
      simp only [hc] at h ⊢
      simp only [after_overran, Bool.false_or] at h
      simp only [after_used, List.nil_append]
      rw [ih src ts xs h]; rfl
    | none =>
      simp only [hc] at h ⊢
      simp only [after_overran, Bool.false_or] at h
      simp only [after_used, List.nil_append]
      rw [ih src _ xs h]; rfl
  | inner b k ihb ihk => exact replays_inner b k ihb ihk
  | emit id k ih =>
    intro src ts xs h
    simp only [Prog.run] at h ⊢
    simp only [after_overran, Bool.false_or] at h
    simp only [after_used, List.nil_append]
    rw [ih src ts xs h]; rfl

end Rapid
