/-
  RapidProofs.TranslatedPassEq — the passes of the shrinker (shrink.go: `removeGroups`, `minimizeBlocks`, `lowerFloatHack`,
  `removeGroupsAndLower`, `sortGroups`, `removeGroupSpans`, the round loop of `shrinker.shrink`) as translated from /repo on
  every run (RapidModel/Generated/Translated.lean, in `Go.SM`) **agree with the hand-written passes of the model**
  (RapidModel/Passes.lean) against every shrinker: whatever `accept` answers, both read the same state, propose the same
  candidates in the same order and end in the same state, both hit an index out of range in the same state, or the translated
  loop runs out of fuel (a deadline cut).  Assumed of the shrinker's states (`Oracle.WF`): recordings have fewer than 2^61
  entries, a finished group does not end before it begins, and a rejected candidate leaves the recording as it is.
-/
import RapidProofs.ScriptExec
import RapidProofs.TranslatedPruneEq
import RapidProofs.TranslatedMinEq

namespace Rapid
open Rapid.Go

/-- what the passes may assume of every state of the shrinker -/
structure Oracle.WF {σ : Type} (o : Oracle σ) : Prop where
  small : ∀ s, Rec.Small (o.view s).rc
  ordered : ∀ s, ∀ g ∈ (o.view s).rc.groups, 0 ≤ g.end_ → (g.begin : Int) ≤ g.end_
  reject : ∀ s buf s', o.accept s buf = some (false, s') → o.view s' = o.view s

theorem groupInfoOf_eq (g : GI) : Translated.groupInfoOf g = goOf g := rfl

theorem gio_end_neg (g : GI) (hg : g.Small) : decide ((Translated.groupInfoOf g).end_ < (0 : Int64)) = decide (g.end_ < 0) := by
  obtain ⟨_, h1, h2⟩ := hg
  have : (Translated.groupInfoOf g).end_ = I g.end_ := rfl
  rw [this]
  have h0 : (0 : Int64) = I 0 := rfl
  rw [h0]
  simp only [Int64.lt_iff_toInt_lt, I_toInt (x := g.end_) (by omega) h2, I_toInt (x := 0) (by omega) (by omega)]

theorem gio_back (g : GI) (hg : g.Small) : giOf (Translated.groupInfoOf g) = g := by
  obtain ⟨h0, h1, h2⟩ := hg
  cases g with
  | mk l st b e d =>
    simp only [giOf, Translated.groupInfoOf]
    simp only at h0 h1 h2
    have hb : (Int64.ofInt (b : Int)).toInt = b := I_toInt (x := (b : Int)) (by omega) (by omega)
    have he : (Int64.ofInt e).toInt = e := I_toInt (x := e) (by omega) (by omega)
    simp [hb, he]

theorem gio_gok (g : GI) (hg : g.Small) (h0 : 0 ≤ g.end_) (hbe : (g.begin : Int) ≤ g.end_) : GOK (Translated.groupInfoOf g) := by
  obtain ⟨hb, h1, h2⟩ := hg
  have hb' : (Translated.groupInfoOf g).begin.toInt = g.begin := I_toInt (x := (g.begin : Int)) (by omega) (by omega)
  have he' : (Translated.groupInfoOf g).end_.toInt = g.end_ := I_toInt (x := g.end_) (by omega) h2
  refine ⟨?_, ?_, ?_⟩ <;> omega

theorem idx_groups (gs : List GI) {i : Nat} (hi : i < 2 ^ 62) :
    Go.idx (gs.map Translated.groupInfoOf) (Int64.ofNat i) =
      match gs[i]? with | some g => .ok (Translated.groupInfoOf g) | none => .error .runtime := by
  rw [idx_ofNat _ hi, List.getElem?_map]
  cases gs[i]? <;> rfl

theorem lt_glen {α : Type} (l : List α) {i : Nat} (hi : i < 2 ^ 62) (hl : l.length < 2 ^ 62) :
    decide (Int64.ofNat i < glen l) = decide (i < l.length) := i64_lt_ofNat hi _ hl


/-- the value, or the translation's loop ran out of fuel -/
def OrFuel {α : Type} (x y : Go.M α) : Prop := x = y ∨ x = .error .fuel

theorem tr_withoutLoop_any (groups : List Translated.groupInfo) (hok : ∀ g ∈ groups, GOK g) : ∀ (n : Nat) (buf : List UInt64) (fT : Nat),
    n ≤ groups.length → groups.length < 2 ^ 62 →
    OrFuel (Translated.without_loop1 groups fT buf (Int64.ofNat n - 1))
      (match (groups.take n).reverse.foldlM (fun b g => cut? b (giOf g).begin (giOf g).end_) buf with
      | some d => .ok (d, Int64.ofNat 0 - 1)
      | none => .error .runtime) := by
  intro n
  induction n with
  | zero =>
    intro buf fT _ _
    cases fT with
    | zero => right; rfl
    | succ f => left; simp [Translated.without_loop1, i64_ofNat_zero_sub_one_neg, pure, Except.pure]
  | succ n ih =>
    intro buf fT hn hl
    cases fT with
    | zero => right; rfl
    | succ f =>
      have hge : decide (Int64.ofNat n ≥ (0 : Int64)) = true := i64_ofNat_nonneg (by omega)
      have hlt : n < groups.length := by omega
      have hidx : Go.idx groups (Int64.ofNat n) = .ok groups[n] := by
        rw [idx_ofNat _ (by omega)]; simp [hlt]
      have htake : (groups.take (n + 1)).reverse = groups[n] :: (groups.take n).reverse := by
        rw [List.take_succ_eq_append_getElem hlt, List.reverse_append]; rfl
      have hcut := tr_cut buf groups[n] (hok _ (List.getElem_mem hlt))
      unfold OrFuel
      simp only [Translated.without_loop1, i64_ofNat_succ_sub_one, hge, if_true, hidx, bind, Except.bind, htake, List.foldlM_cons]
      simp only [bind, Except.bind, pure, Except.pure] at hcut
      cases hc : cut? buf (giOf groups[n]).begin (giOf groups[n]).end_ with
      | none =>
        left
        rw [hc] at hcut
        simp only [Option.bind_eq_bind, Option.bind_none] at hcut ⊢
        revert hcut
        cases Go.sliceTo buf groups[n].begin with
        | error e => intro h; simp only [Except.error.injEq] at h ⊢; exact h
        | ok s2 =>
          cases Go.sliceFrom buf groups[n].end_ with
          | error e => intro h; simp only [Except.error.injEq] at h ⊢; exact h
          | ok s3 => intro h; simp at h
      | some d =>
        rw [hc] at hcut
        simp only [Option.bind_eq_bind, Option.bind_some] at hcut ⊢
        revert hcut
        cases Go.sliceTo buf groups[n].begin with
        | error e => intro h; simp at h
        | ok s2 =>
          cases Go.sliceFrom buf groups[n].end_ with
          | error e => intro h; simp at h
          | ok s3 =>
            intro h
            simp only [Except.ok.injEq] at h
            simp only [h]
            exact ih d f (by omega) hl

/-- `without(data, groups...)` of /repo is the model's `without?`, or the translated loop ran out of fuel -/
theorem tr_without_any (data : List UInt64) (groups : List Translated.groupInfo) (fuel : Nat) (hok : ∀ g ∈ groups, GOK g)
    (hl : groups.length < 2 ^ 62) :
    OrFuel (Translated.without data groups fuel)
      (match without? data (groups.map giOf) with
      | some d => .ok d
      | none => .error .runtime) := by
  have h := tr_withoutLoop_any groups hok groups.length data fuel (Nat.le_refl _) hl
  have hw : without? data (groups.map giOf) =
      groups.reverse.foldlM (fun b g => cut? b (giOf g).begin (giOf g).end_) data := by
    simp only [without?, ← List.map_reverse, List.foldlM_map]
  simp only [List.take_length] at h
  unfold OrFuel at h ⊢
  simp only [Translated.without, List.nil_append, Go.glen, hw]
  rcases h with h | h
  · left
    rw [h]
    cases groups.reverse.foldlM (fun b g => cut? b (giOf g).begin (giOf g).end_) data with
    | none => rfl
    | some d => rfl
  · right; rw [h]; rfl

theorem without_one (data : List UInt64) (g : GI) (fuel : Nat) (hg : g.Small) (h0 : 0 ≤ g.end_) (hbe : (g.begin : Int) ≤ g.end_) :
    OrFuel (Translated.without data [Translated.groupInfoOf g] fuel)
      (match without? data [g] with | some d => .ok d | none => .error .runtime) := by
  have h := tr_without_any data [Translated.groupInfoOf g] fuel
    (by intro x hx; simp at hx; subst hx; exact gio_gok g hg h0 hbe) (by simp)
  simp only [List.map_cons, List.map_nil, gio_back g hg] at h
  exact h

theorem i64_sub_add_one (x : Int64) : x - 1 + 1 = x := by
  apply Int64.toBitVec_inj.mp
  simp [Int64.toBitVec_add, Int64.toBitVec_sub]

theorem i64_ofNat_succ (n : Nat) : Int64.ofNat n + 1 = Int64.ofNat (n + 1) := by
  have := i64_ofNat_succ_sub_one n
  rw [← this, i64_sub_add_one]

macro "sm_simp" : tactic => `(tactic| try simp only [SM.exec_bind, SM.exec_andThen, SM.exec_orElse, SM.exec_groups, SM.exec_data,
  SM.exec_shrinks, SM.exec_pure, SM.exec_ofM, SM.exec_fuel, Res.bindE_ok, Res.bindE_error, Res.bindE_stop, Script.exec_bind',
  Script.exec_getV, Script.exec_pure, Script.exec_orOob_some, Script.exec_orOob_none, Res.bind_done, Res.bind_oob, Res.bind_stop,
  ↓reduceIte, Bool.false_eq_true])

theorem tr_removeGroups_loop {σ : Type} (o : Oracle σ) (wf : o.WF) :
    ∀ (fuel fm i : Nat) (s : σ), fuel ≤ fm → i ≤ 2 ^ 61 →
      Agree (fun _ _ => True)
        (SM.exec o (Translated.shrinker_removeGroups_loop1 fuel (Int64.ofNat i)) s)
        ((removeGroups fm i).exec o s) := by
  intro fuel
  induction fuel with
  | zero => intro fm i s _ _; simp [Translated.shrinker_removeGroups_loop1, Agree]
  | succ fuel ih =>
    intro fm i s hfm hi
    obtain ⟨fm', rfl⟩ : ∃ fm', fm = fm' + 1 := ⟨fm - 1, by omega⟩
    obtain ⟨hd, hgl, hgs⟩ := wf.small s
    have hi62 : i < 2 ^ 62 := by omega
    rw [Translated.shrinker_removeGroups_loop1, removeGroups]
    simp only [SM.exec_bind, SM.exec_andThen, SM.exec_groups, SM.exec_pure, Res.bindE_ok, Script.exec_bind',
      Script.exec_getV, Res.bind_done]
    rw [lt_glen _ hi62 (by simp; omega)]
    simp only [List.length_map]
    by_cases hlt : i < (o.view s).rc.groups.length
    · simp only [hlt, decide_true, if_true, Res.bindE_ok, SM.exec_ofM, idx_groups _ hi62]
      have hg? : (o.view s).rc.groups[i]? = some (o.view s).rc.groups[i] := List.getElem?_eq_getElem hlt
      generalize hgdef : (o.view s).rc.groups[i] = g at hg?
      have hgm : g ∈ (o.view s).rc.groups := by rw [← hgdef]; exact List.getElem_mem hlt
      have hgS := hgs g hgm
      sm_simp
      simp only [idx_groups _ hi62, hg?]
      sm_simp
      have hst : (Translated.groupInfoOf g).standalone = g.standalone := rfl
      rw [hst, gio_end_neg g hgS]
      by_cases hskip : (!g.standalone || decide (g.end_ < 0)) = true
      · simp only [hskip, if_true, i64_ofNat_succ]
        exact ih fm' (i + 1) s (by omega) (by omega)
      · simp only [hskip, Bool.false_eq_true, if_false]
        have h0 : 0 ≤ g.end_ := by
          simp only [Bool.or_eq_true, Bool.not_eq_true', decide_eq_true_eq, not_or] at hskip
          omega
        sm_simp
        rcases without_one (o.view s).rc.data g fuel hgS h0 (wf.ordered s g hgm h0) with hw | hw
        · rw [hw]
          cases hwo : without? (o.view s).rc.data [g] with
          | none => simp [Agree]
          | some buf =>
            sm_simp
            rw [Res.bindE_assoc]
            refine Agree.bind (Agree.accept o buf s) ?_
            intro a b s' hab
            subst hab
            cases a
            · simp only [Bool.false_eq_true, if_false]
              sm_simp
              rw [i64_ofNat_succ]
              exact ih fm' (i + 1) s' (by omega) (by omega)
            · simp only [if_true]
              sm_simp
              rw [i64_sub_add_one]
              exact ih fm' i s' (by omega) hi
        · rw [hw]; simp [Agree]
    · simp only [hlt, decide_false, Bool.false_eq_true, if_false]
      sm_simp
      exact Agree.done s trivial

/-! ### `removeGroupsAndLower` -/

theorem modify_const {α : Type} (l : List α) (i : Nat) (u : α) : l.modify i (fun _ => u) = l.set i u := by
  induction l generalizing i with
  | nil => cases i <;> simp [List.modify]
  | cons a l ih => cases i <;> simp [List.modify_cons, ih]

theorem setIdx_const (l : List UInt64) {i : Nat} (hi : i < 2 ^ 62) (u : UInt64) :
    Go.setIdx l (Int64.ofNat i) (fun _ => u) = match setIdx? l i u with | some d => .ok d | none => .error .runtime := by
  rw [setIdx_ofNat _ hi, setIdx?]
  by_cases h : i < l.length <;> simp [h, modify_const]

theorem gio_begin_le (g : GI) (hg : g.Small) {i : Nat} (hi : i < 2 ^ 62) :
    decide (Int64.ofNat i ≥ (Translated.groupInfoOf g).begin) = decide (g.begin ≤ i) := by
  have : (Translated.groupInfoOf g).begin = Int64.ofNat g.begin := I_nat g.begin
  rw [this, i64_ge_ofNat hi _ hg.1]

theorem gio_lt_end (g : GI) (hg : g.Small) {i : Nat} (hi : i < 2 ^ 62) :
    decide (Int64.ofNat i < (Translated.groupInfoOf g).end_) = decide ((i : Int) < g.end_) := by
  obtain ⟨_, h1, h2⟩ := hg
  have : (Translated.groupInfoOf g).end_ = I g.end_ := rfl
  rw [this]
  simp only [Int64.lt_iff_toInt_lt, I_toInt (x := g.end_) (by omega) h2, i64_ofNat_toInt hi]

/-- the inner loop of `removeGroupsAndLower` -/
theorem tr_rglInner {σ : Type} (o : Oracle σ) (wf : o.WF) (buf : List UInt64) (i : Nat) (hib : i < buf.length) (hi62 : i < 2 ^ 62) :
    ∀ (fuel j G : Nat) (s : σ), j ≤ (o.view s).rc.groups.length → (o.view s).rc.groups.length + 1 ≤ G + j →
      Agree (fun (t : Int64 × Int64) (b : Bool) => t.1 = if b then Int64.ofNat i - 1 else Int64.ofNat i)
        (SM.exec o (Translated.shrinker_removeGroupsAndLower_loop2 buf fuel (Int64.ofNat i) (Int64.ofNat j)) s)
        ((rglInner buf i G j).exec o s) := by
  intro fuel
  induction fuel with
  | zero => intro j G s _ _; simp [Translated.shrinker_removeGroupsAndLower_loop2, Agree]
  | succ fuel ih =>
    intro j G s hj hG
    obtain ⟨hd, hgl, hgs⟩ := wf.small s
    have hj62 : j < 2 ^ 62 := by omega
    obtain ⟨G', rfl⟩ : ∃ G', G = G' + 1 := ⟨G - 1, by omega⟩
    rw [Translated.shrinker_removeGroupsAndLower_loop2, rglInner]
    sm_simp
    rw [lt_glen _ hj62 (by simp; omega)]
    simp only [List.length_map]
    by_cases hlt : j < (o.view s).rc.groups.length
    · simp only [hlt, decide_true, if_true]
      have hg? : (o.view s).rc.groups[j]? = some (o.view s).rc.groups[j] := List.getElem?_eq_getElem hlt
      generalize hgdef : (o.view s).rc.groups[j] = g at hg?
      have hgm : g ∈ (o.view s).rc.groups := by rw [← hgdef]; exact List.getElem_mem hlt
      have hgS := hgs g hgm
      sm_simp
      simp only [idx_groups _ hj62, hg?]
      sm_simp
      have hst : (Translated.groupInfoOf g).standalone = g.standalone := rfl
      rw [hst, gio_end_neg g hgS, gio_begin_le g hgS hi62, gio_lt_end g hgS hi62]
      by_cases hskip : (!g.standalone || decide (g.end_ < 0) || (decide (g.begin ≤ i) && decide ((i : Int) < g.end_))) = true
      · simp only [hskip, if_true, i64_ofNat_succ]
        exact ih (j + 1) G' s (by omega) (by omega)
      · simp only [hskip, Bool.false_eq_true, if_false]
        have h0 : 0 ≤ g.end_ := by
          simp only [Bool.or_eq_true, Bool.not_eq_true', decide_eq_true_eq, not_or] at hskip
          omega
        sm_simp
        rcases without_one buf g fuel hgS h0 (wf.ordered s g hgm h0) with hw | hw
        · rw [hw]
          cases hwo : without? buf [g] with
          | none => simp [Agree]
          | some c =>
            sm_simp
            have hbi : Go.idx buf (Int64.ofNat i) = .ok buf[i] := by
              rw [idx_ofNat _ hi62, List.getElem?_eq_getElem hib]
            simp only [hbi]
            sm_simp
            refine Agree.bind_accept o c s ?_
            intro a s' hacc
            cases a
            · simp only [Bool.false_eq_true, if_false]
              rw [i64_ofNat_succ]
              have hv := wf.reject s c s' hacc
              exact ih (j + 1) G' s' (by rw [hv]; omega) (by rw [hv]; omega)
            · simp only [if_true]
              try sm_simp
              exact Agree.done s' (by simp)
        · rw [hw]; simp [Agree]
    · simp only [hlt, decide_false, Bool.false_eq_true, if_false]
      sm_simp
      exact Agree.done s (by simp)

theorem tr_removeGroupsAndLower_loop {σ : Type} (o : Oracle σ) (wf : o.WF) :
    ∀ (fuel fm i : Nat) (s : σ), fuel ≤ fm → i < 2 ^ 62 →
      Agree (fun _ _ => True)
        (SM.exec o (Translated.shrinker_removeGroupsAndLower_loop1 fuel (Int64.ofNat i)) s)
        ((removeGroupsAndLower fm i).exec o s) := by
  intro fuel
  induction fuel with
  | zero => intro fm i s _ _; simp [Translated.shrinker_removeGroupsAndLower_loop1, Agree]
  | succ fuel ih =>
    intro fm i s hfm hi62
    obtain ⟨fm', rfl⟩ : ∃ fm', fm = fm' + 1 := ⟨fm - 1, by omega⟩
    obtain ⟨hd, hgl, hgs⟩ := wf.small s
    rw [Translated.shrinker_removeGroupsAndLower_loop1, removeGroupsAndLower]
    sm_simp
    rw [lt_glen _ hi62 hd]
    by_cases hlt : i < (o.view s).rc.data.length
    · simp only [hlt, decide_true, if_true]
      have hx? : (o.view s).rc.data[i]? = some (o.view s).rc.data[i] := List.getElem?_eq_getElem hlt
      generalize hxdef : (o.view s).rc.data[i] = x at hx?
      sm_simp
      simp only [idx_ofNat _ hi62, hx?]
      sm_simp
      by_cases hz : (x == 0) = true
      · simp only [hz, if_true, i64_ofNat_succ]
        exact ih fm' (i + 1) s (by omega) (by omega)
      · simp only [hz, Bool.false_eq_true, if_false]
        sm_simp
        simp only [List.nil_append, idx_ofNat _ hi62, hx?]
        sm_simp
        rw [setIdx_const _ hi62]
        have hset : setIdx? (o.view s).rc.data i (x - 1) = some ((o.view s).rc.data.set i (x - 1)) := by
          simp [setIdx?, hlt]
        simp only [hset]
        sm_simp
        have h0 : (0 : Int64) = Int64.ofNat 0 := rfl
        rw [h0]
        refine Agree.bind (tr_rglInner o wf _ i (by simpa using hlt) hi62 fuel 0 _ s (by omega) (by omega)) ?_
        intro t b s' htb
        simp only [htb]
        cases b
        · simp only [Bool.false_eq_true, if_false, i64_ofNat_succ]
          exact ih fm' (i + 1) s' (by omega) (by omega)
        · simp only [if_true, i64_sub_add_one]
          exact ih fm' i s' (by omega) hi62
    · simp only [hlt, decide_false, Bool.false_eq_true, if_false]
      sm_simp
      exact Agree.done s trivial

/-! ### `removeGroupSpans` -/

theorem idx_last {α β : Type} (f : α → β) (gs : List α) (hne : gs ≠ []) (hl : gs.length < 2 ^ 62) :
    Go.idx (gs.map f) (glen (gs.map f) - 1) = .ok (f (gs.getLast hne)) := by
  obtain ⟨n, hn⟩ : ∃ n, gs.length = n + 1 := ⟨gs.length - 1, by have := List.length_pos_iff.mpr hne; omega⟩
  have : glen (gs.map f) - 1 = Int64.ofNat n := by
    unfold glen; rw [List.length_map, hn, i64_ofNat_succ_sub_one]
  rw [this, idx_ofNat _ (by omega), List.getElem?_map]
  have : gs[n]? = some (gs.getLast hne) := by
    rw [List.getLast_eq_getElem, List.getElem?_eq_getElem (by omega)]
    congr 2; omega
  rw [this]; rfl

theorem gio_begin_lt_end (h g : GI) (hh : h.Small) (hg : g.Small) :
    decide ((Translated.groupInfoOf h).begin < (Translated.groupInfoOf g).end_) = decide ((h.begin : Int) < g.end_) := by
  obtain ⟨_, h1, h2⟩ := hg
  have e1 : (Translated.groupInfoOf g).end_ = I g.end_ := rfl
  have e2 : (Translated.groupInfoOf h).begin = I (h.begin : Int) := rfl
  rw [e1, e2]
  simp only [Int64.lt_iff_toInt_lt, I_toInt (x := g.end_) (by omega) h2, I_toInt (x := (h.begin : Int)) (by omega) (by have := hh.1; omega)]

theorem without_many (data : List UInt64) (gs : List GI) (fuel : Nat) (hl : gs.length < 2 ^ 62)
    (hg : ∀ g ∈ gs, g.Small ∧ 0 ≤ g.end_ ∧ (g.begin : Int) ≤ g.end_) :
    OrFuel (Translated.without data (gs.map Translated.groupInfoOf) fuel)
      (match without? data gs with | some d => .ok d | none => .error .runtime) := by
  have h := tr_without_any data (gs.map Translated.groupInfoOf) fuel
    (by intro x hx; simp only [List.mem_map] at hx; obtain ⟨g, hgm, rfl⟩ := hx; obtain ⟨a, b, c⟩ := hg g hgm; exact gio_gok g a b c)
    (by simpa using hl)
  have hb : (gs.map Translated.groupInfoOf).map giOf = gs := by
    rw [List.map_map]
    conv => rhs; rw [← List.map_id gs]
    apply List.map_congr_left
    intro g hgm; exact gio_back g (hg g hgm).1
  rw [hb] at h
  exact h

/-- the inner loop of `removeGroupSpans` -/
theorem tr_spansInner {σ : Type} (o : Oracle σ) (wf : o.WF) (i : Nat) :
    ∀ (fuel j G : Nat) (gs : List GI) (hne : gs ≠ []) (s : σ),
      j ≤ (o.view s).rc.groups.length → (o.view s).rc.groups.length + 1 ≤ G + j →
      (∀ g ∈ gs, g ∈ (o.view s).rc.groups ∧ 0 ≤ g.end_) → gs.length ≤ j →
      Agree (fun (t : List Translated.groupInfo × Int64 × Int64) (b : Bool) => t.2.1 = if b then Int64.ofNat i - 1 else Int64.ofNat i)
        (SM.exec o (Translated.shrinker_removeGroupSpans_loop2 fuel (gs.map Translated.groupInfoOf) (Int64.ofNat i) (Int64.ofNat j)) s)
        ((spansInner G gs (gs.getLast hne).end_ j).exec o s) := by
  intro fuel
  induction fuel with
  | zero => intro j G gs hne s _ _ _ _; simp [Translated.shrinker_removeGroupSpans_loop2, Agree]
  | succ fuel ih =>
    intro j G gs hne s hj hG hgs' hlen
    obtain ⟨hd, hgl, hgs⟩ := wf.small s
    have hj62 : j < 2 ^ 62 := by omega
    obtain ⟨G', rfl⟩ : ∃ G', G = G' + 1 := ⟨G - 1, by omega⟩
    rw [Translated.shrinker_removeGroupSpans_loop2, spansInner]
    sm_simp
    rw [lt_glen _ hj62 (by simp; omega)]
    simp only [List.length_map]
    by_cases hlt : j < (o.view s).rc.groups.length
    · simp only [hlt, decide_true]
      have hg? : (o.view s).rc.groups[j]? = some (o.view s).rc.groups[j] := List.getElem?_eq_getElem hlt
      generalize hgdef : (o.view s).rc.groups[j] = h at hg?
      have hhm : h ∈ (o.view s).rc.groups := by rw [← hgdef]; exact List.getElem_mem hlt
      have hhS := hgs h hhm
      have hlastm := hgs' _ (List.getLast_mem hne)
      have hlastS := hgs _ hlastm.1
      sm_simp
      simp only [idx_groups _ hj62, hg?]
      sm_simp
      rw [idx_last _ gs hne (by omega)]
      sm_simp
      have hst : (Translated.groupInfoOf h).standalone = h.standalone := rfl
      rw [hst, gio_end_neg h hhS, gio_begin_lt_end h _ hhS hlastS]
      by_cases hskip : (!h.standalone || decide (h.end_ < 0) || decide ((h.begin : Int) < (gs.getLast hne).end_)) = true
      · have hc : (if (!h.standalone || decide (h.end_ < 0)) = true then (Res.done (Except.ok true) s : Res σ (Except Panic Bool))
            else Res.done (Except.ok (decide ((h.begin : Int) < (gs.getLast hne).end_))) s) = Res.done (Except.ok true) s := by
          by_cases h1 : (!h.standalone || decide (h.end_ < 0)) = true
          · simp [h1]
          · simp only [Bool.not_eq_true] at h1
            rw [h1] at hskip
            simp only [Bool.false_or, decide_eq_true_eq] at hskip
            simp [h1, hskip]
        rw [hc]
        simp only [hskip]
        sm_simp
        rw [i64_ofNat_succ]
        exact ih (j + 1) G' gs hne s (by omega) (by omega) hgs' (by omega)
      · have hskip' := hskip
        simp only [Bool.or_eq_true, not_or, Bool.not_eq_true] at hskip'
        obtain ⟨h1, h2⟩ := hskip'
        have h1' : (!h.standalone || decide (h.end_ < 0)) = false := by
          rcases h1 with ⟨a, b⟩; simp [a, b]
        simp only [h1', h2, Bool.or_false, Bool.false_eq_true, ↓reduceIte]
        sm_simp
        have h0 : 0 ≤ h.end_ := by
          have := h1.2; simp only [decide_eq_false_iff_not] at this; omega
        have hgs'' : ∀ g ∈ gs ++ [h], g ∈ (o.view s).rc.groups ∧ 0 ≤ g.end_ := by
          intro g hg
          simp only [List.mem_append, List.mem_singleton] at hg
          rcases hg with hg | rfl
          · exact hgs' g hg
          · exact ⟨hhm, h0⟩
        have hmap : List.map Translated.groupInfoOf gs ++ [Translated.groupInfoOf h] = List.map Translated.groupInfoOf (gs ++ [h]) := by simp
        rw [hmap]
        rcases without_many (o.view s).rc.data (gs ++ [h]) fuel (by simp; omega)
          (fun g hg => ⟨hgs g (hgs'' g hg).1, (hgs'' g hg).2, wf.ordered s g (hgs'' g hg).1 (hgs'' g hg).2⟩) with hw | hw
        · rw [hw]
          cases hwo : without? (o.view s).rc.data (gs ++ [h]) with
          | none => simp [Agree]
          | some c =>
            sm_simp
            refine Agree.bind_accept o c s ?_
            intro a s' hacc
            cases a
            · sm_simp
              rw [i64_ofNat_succ]
              have hv := wf.reject s c s' hacc
              have hlast : (gs ++ [h]).getLast (by simp) = h := by simp
              have := ih (j + 1) G' (gs ++ [h]) (by simp) s' (by rw [hv]; omega) (by rw [hv]; omega) (by rw [hv]; exact hgs'') (by simp; omega)
              rw [hlast] at this
              exact this
            · sm_simp
              exact Agree.done s' (by simp)
        · rw [hw]; simp [Agree]
    · simp only [hlt, decide_false]
      sm_simp
      exact Agree.done s (by simp)

theorem tr_removeGroupSpans_loop {σ : Type} (o : Oracle σ) (wf : o.WF) :
    ∀ (fuel fm i : Nat) (s : σ), fuel ≤ fm → i < 2 ^ 62 →
      Agree (fun _ _ => True)
        (SM.exec o (Translated.shrinker_removeGroupSpans_loop1 fuel (Int64.ofNat i)) s)
        ((removeGroupSpans fm i).exec o s) := by
  intro fuel
  induction fuel with
  | zero => intro fm i s _ _; simp [Translated.shrinker_removeGroupSpans_loop1, Agree]
  | succ fuel ih =>
    intro fm i s hfm hi62
    obtain ⟨fm', rfl⟩ : ∃ fm', fm = fm' + 1 := ⟨fm - 1, by omega⟩
    obtain ⟨hd, hgl, hgs⟩ := wf.small s
    rw [Translated.shrinker_removeGroupSpans_loop1, removeGroupSpans]
    sm_simp
    rw [lt_glen _ hi62 (by simp; omega)]
    simp only [List.length_map]
    by_cases hlt : i < (o.view s).rc.groups.length
    · simp only [hlt, decide_true]
      have hg? : (o.view s).rc.groups[i]? = some (o.view s).rc.groups[i] := List.getElem?_eq_getElem hlt
      generalize hgdef : (o.view s).rc.groups[i] = g at hg?
      have hgm : g ∈ (o.view s).rc.groups := by rw [← hgdef]; exact List.getElem_mem hlt
      have hgS := hgs g hgm
      sm_simp
      simp only [idx_groups _ hi62, hg?]
      sm_simp
      have hst : (Translated.groupInfoOf g).standalone = g.standalone := rfl
      rw [hst, gio_end_neg g hgS]
      by_cases hskip : (!g.standalone || decide (g.end_ < 0)) = true
      · simp only [hskip, if_true, i64_ofNat_succ]
        exact ih fm' (i + 1) s (by omega) (by omega)
      · simp only [hskip, Bool.false_eq_true, if_false]
        have h0 : 0 ≤ g.end_ := by
          simp only [Bool.or_eq_true, Bool.not_eq_true', decide_eq_true_eq, not_or] at hskip
          omega
        sm_simp
        rw [i64_ofNat_succ]
        have hmap : [Translated.groupInfoOf g] = List.map Translated.groupInfoOf [g] := rfl
        rw [hmap]
        have hin := tr_spansInner o wf i fuel (i + 1) ((o.view s).rc.groups.length + 1) [g] (by simp) s (by omega) (by omega)
          (by intro x hx; simp only [List.mem_singleton] at hx; subst hx; exact ⟨hgm, h0⟩) (by simp)
        simp only [List.getLast_singleton] at hin
        refine Agree.bind hin ?_
        intro t b s' htb
        simp only [htb]
        cases b
        · simp only [Bool.false_eq_true, if_false, i64_ofNat_succ]
          exact ih fm' (i + 1) s' (by omega) (by omega)
        · simp only [if_true, i64_sub_add_one]
          exact ih fm' i s' (by omega) hi62
    · simp only [hlt, decide_false]
      sm_simp
      exact Agree.done s trivial

/-! ### `lowerFloatHack` -/

theorem I_toInt63 {x : Int} (h1 : -2 ^ 63 ≤ x) (h2 : x < 2 ^ 63) : (I x).toInt = x :=
  Int64.toInt_ofInt_of_le h1 h2

theorem gio_begin_add (g : GI) (k : Nat) : (Translated.groupInfoOf g).begin + Int64.ofNat k = Int64.ofNat (g.begin + k) := by
  have : (Translated.groupInfoOf g).begin = Int64.ofNat g.begin := I_nat g.begin
  rw [this, Int64.ofNat_add]

theorem gio_end_ne_begin7 (g : GI) (hg : g.Small) :
    ((Translated.groupInfoOf g).end_ != (Translated.groupInfoOf g).begin + (7 : Int64)) = (g.end_ != (g.begin : Int) + 7) := by
  obtain ⟨hb, h1, h2⟩ := hg
  have e1 : (Translated.groupInfoOf g).end_ = I g.end_ := rfl
  have e2 : (Translated.groupInfoOf g).begin + (7 : Int64) = I ((g.begin : Int) + 7) := by
    have : (7 : Int64) = Int64.ofNat 7 := rfl
    rw [this, gio_begin_add, ← I_nat]; simp
  rw [e1, e2]
  by_cases h : g.end_ = (g.begin : Int) + 7
  · rw [h]; simp
  · have : I g.end_ ≠ I ((g.begin : Int) + 7) := by
      intro e
      have := congrArg Int64.toInt e
      rw [I_toInt63 (by omega) (by omega), I_toInt63 (by omega) (by omega)] at this
      exact h this
    rw [bne, bne, beq_false_of_ne this, beq_false_of_ne h]

theorem maxU64_eq : (18446744073709551615 : UInt64) = maxU64 := rfl

/-- `buf := copy of data; buf[k] -= 1; buf[j] = MaxUint64 …` as the source does it, against `lowerAt?` -/
def lowerT (data : List UInt64) (k : Nat) (fill : List Nat) : Go.M (List UInt64) :=
  (Go.idx data (Int64.ofNat k)) >>= fun e =>
  (Go.setIdx data (Int64.ofNat k) (fun _ => e - 1)) >>= fun d =>
  fill.foldlM (fun d j => Go.setIdx d (Int64.ofNat j) (fun _ => (18446744073709551615 : UInt64))) d

theorem foldl_setIdx (fill : List Nat) (hf : ∀ j ∈ fill, j < 2 ^ 62) : ∀ d : List UInt64,
    fill.foldlM (fun d j => Go.setIdx d (Int64.ofNat j) (fun _ => (18446744073709551615 : UInt64))) d =
      match fill.foldlM (fun d j => setIdx? d j maxU64) d with | some d' => .ok d' | none => .error .runtime := by
  induction fill with
  | nil => intro d; rfl
  | cons j fill ih =>
    intro d
    simp only [List.foldlM_cons]
    rw [setIdx_const _ (hf j (by simp)), maxU64_eq]
    cases h : setIdx? d j maxU64 with
    | none => rfl
    | some d' =>
      simp only [bind, Except.bind, Option.bind]
      exact ih (fun j hj => hf j (by simp [hj])) d'

theorem tr_lowerAt (data : List UInt64) (k : Nat) (fill : List Nat) (hk : k < 2 ^ 62) (hf : ∀ j ∈ fill, j < 2 ^ 62) :
    lowerT data k fill = match lowerAt? data k fill with | some d => .ok d | none => .error .runtime := by
  unfold lowerT lowerAt?
  rw [idx_ofNat _ hk]
  cases hx : data[k]? with
  | none => rfl
  | some x =>
    simp only [bind, Except.bind]
    rw [setIdx_const _ hk]
    cases hs : setIdx? data k (x - 1) with
    | none => rfl
    | some d =>
      simp only [Option.bind]
      exact foldl_setIdx fill hf d

/-- a successful `lowerAt?` leaves the length alone -/
theorem lowerAt_length (data : List UInt64) (k : Nat) (fill : List Nat) (d : List UInt64) (h : lowerAt? data k fill = some d) :
    d.length = data.length ∧ k < data.length := by
  unfold lowerAt? at h
  cases hx : data[k]? with
  | none => rw [hx] at h; cases h
  | some x =>
    rw [hx] at h
    have hk : k < data.length := by
      by_cases hk : k < data.length
      · exact hk
      · rw [List.getElem?_eq_none (by omega)] at hx; cases hx
    simp only [setIdx?, hk, if_true, Option.bind] at h
    refine ⟨?_, hk⟩
    have : ∀ (fill : List Nat) (d0 d : List UInt64), fill.foldlM (fun d j => setIdx? d j maxU64) d0 = some d → d.length = d0.length := by
      intro fill
      induction fill with
      | nil => intro d0 d h; simp at h; subst h; rfl
      | cons j fill ih =>
        intro d0 d h
        simp only [List.foldlM_cons, setIdx?] at h
        by_cases hj : j < d0.length
        · simp only [hj, if_true, Option.bind_eq_bind, Option.bind_some] at h
          rw [ih _ _ h]; simp
        · simp [hj] at h
    rw [this fill _ d h]; simp

theorem gio_begin_lit (g : GI) (k : Nat) (c : Int64) (hc : c = Int64.ofNat k) :
    (Translated.groupInfoOf g).begin + c = Int64.ofNat (g.begin + k) := by
  rw [hc, gio_begin_add]

theorem bindE_doneM {σ α β : Type} (x : Go.M α) (s : σ) (f : α → σ → Res σ (Except Panic β)) :
    (Res.done x s).bindE f = match x with | .ok a => f a s | .error e => .done (.error e) s := by
  cases x <;> rfl

theorem chain3 {σ β : Type} (s : σ) (data : List UInt64) (k j1 j2 j3 : Nat) (f : List UInt64 → σ → Res σ (Except Panic β)) :
    ((Res.done (Go.idx data (Int64.ofNat k)) s).bindE fun e s' =>
      (Res.done (Go.setIdx data (Int64.ofNat k) (fun _ => e - 1)) s').bindE fun d s' =>
      (Res.done (Go.setIdx d (Int64.ofNat j1) (fun _ => (18446744073709551615 : UInt64))) s').bindE fun d s' =>
      (Res.done (Go.setIdx d (Int64.ofNat j2) (fun _ => (18446744073709551615 : UInt64))) s').bindE fun d s' =>
      (Res.done (Go.setIdx d (Int64.ofNat j3) (fun _ => (18446744073709551615 : UInt64))) s').bindE f)
    = (Res.done (lowerT data k [j1, j2, j3]) s).bindE f := by
  unfold lowerT
  simp only [bindE_doneM, List.foldlM_cons, List.foldlM_nil]
  cases Go.idx data (Int64.ofNat k) with
  | error e => rfl
  | ok e =>
    simp only [bind, Except.bind]
    cases Go.setIdx data (Int64.ofNat k) (fun _ => e - 1) with
    | error e => rfl
    | ok d =>
      simp only
      cases Go.setIdx d (Int64.ofNat j1) (fun _ => (18446744073709551615 : UInt64)) with
      | error e => rfl
      | ok d =>
        simp only
        cases Go.setIdx d (Int64.ofNat j2) (fun _ => (18446744073709551615 : UInt64)) with
        | error e => rfl
        | ok d =>
          simp only
          cases Go.setIdx d (Int64.ofNat j3) (fun _ => (18446744073709551615 : UInt64)) with
          | error e => rfl
          | ok d => rfl

theorem chain2 {σ β : Type} (s : σ) (data : List UInt64) (k j1 j2 : Nat) (f : List UInt64 → σ → Res σ (Except Panic β)) :
    ((Res.done (Go.idx data (Int64.ofNat k)) s).bindE fun e s' =>
      (Res.done (Go.setIdx data (Int64.ofNat k) (fun _ => e - 1)) s').bindE fun d s' =>
      (Res.done (Go.setIdx d (Int64.ofNat j1) (fun _ => (18446744073709551615 : UInt64))) s').bindE fun d s' =>
      (Res.done (Go.setIdx d (Int64.ofNat j2) (fun _ => (18446744073709551615 : UInt64))) s').bindE f)
    = (Res.done (lowerT data k [j1, j2]) s).bindE f := by
  unfold lowerT
  simp only [bindE_doneM, List.foldlM_cons, List.foldlM_nil]
  cases Go.idx data (Int64.ofNat k) with
  | error e => rfl
  | ok e =>
    simp only [bind, Except.bind]
    cases Go.setIdx data (Int64.ofNat k) (fun _ => e - 1) with
    | error e => rfl
    | ok d =>
      simp only
      cases Go.setIdx d (Int64.ofNat j1) (fun _ => (18446744073709551615 : UInt64)) with
      | error e => rfl
      | ok d =>
        simp only
        cases Go.setIdx d (Int64.ofNat j2) (fun _ => (18446744073709551615 : UInt64)) with
        | error e => rfl
        | ok d => rfl

theorem chain1 {σ β : Type} (s : σ) (data : List UInt64) (k j1 : Nat) (f : List UInt64 → σ → Res σ (Except Panic β)) :
    ((Res.done (Go.idx data (Int64.ofNat k)) s).bindE fun e s' =>
      (Res.done (Go.setIdx data (Int64.ofNat k) (fun _ => e - 1)) s').bindE fun d s' =>
      (Res.done (Go.setIdx d (Int64.ofNat j1) (fun _ => (18446744073709551615 : UInt64))) s').bindE f)
    = (Res.done (lowerT data k [j1]) s).bindE f := by
  unfold lowerT
  simp only [bindE_doneM, List.foldlM_cons, List.foldlM_nil]
  cases Go.idx data (Int64.ofNat k) with
  | error e => rfl
  | ok e =>
    simp only [bind, Except.bind]
    cases Go.setIdx data (Int64.ofNat k) (fun _ => e - 1) with
    | error e => rfl
    | ok d =>
      simp only
      cases Go.setIdx d (Int64.ofNat j1) (fun _ => (18446744073709551615 : UInt64)) with
      | error e => rfl
      | ok d => rfl

theorem idx_after_lower (data : List UInt64) (k : Nat) (fill : List Nat) (d : List UInt64) (hk : k < 2 ^ 62)
    (h : lowerAt? data k fill = some d) : ∃ x, Go.idx d (Int64.ofNat k) = .ok x := by
  obtain ⟨hl, hkl⟩ := lowerAt_length data k fill d h
  refine ⟨d[k]'(by omega), ?_⟩
  rw [idx_ofNat _ hk, List.getElem?_eq_getElem (by omega)]

theorem tr_lowerFloatHack_loop {σ : Type} (o : Oracle σ) (wf : o.WF) :
    ∀ (fuel fm i : Nat) (s : σ), fuel ≤ fm → i < 2 ^ 62 →
      Agree (fun _ _ => True)
        (SM.exec o (Translated.shrinker_lowerFloatHack_loop1 fuel (Int64.ofNat i)) s)
        ((lowerFloatHack fm i).exec o s) := by
  intro fuel
  induction fuel with
  | zero => intro fm i s _ _; simp [Translated.shrinker_lowerFloatHack_loop1, Agree]
  | succ fuel ih =>
    intro fm i s hfm hi62
    obtain ⟨fm', rfl⟩ : ∃ fm', fm = fm' + 1 := ⟨fm - 1, by omega⟩
    obtain ⟨hd, hgl, hgs⟩ := wf.small s
    rw [Translated.shrinker_lowerFloatHack_loop1, lowerFloatHack]
    sm_simp
    rw [lt_glen _ hi62 (by simp; omega)]
    simp only [List.length_map]
    by_cases hlt : i < (o.view s).rc.groups.length
    · simp only [hlt, decide_true]
      have hg? : (o.view s).rc.groups[i]? = some (o.view s).rc.groups[i] := List.getElem?_eq_getElem hlt
      generalize hgdef : (o.view s).rc.groups[i] = g at hg?
      have hgm : g ∈ (o.view s).rc.groups := by rw [← hgdef]; exact List.getElem_mem hlt
      have hgS := hgs g hgm
      have hb := hgS.1
      sm_simp
      simp only [idx_groups _ hi62, hg?]
      sm_simp
      have hst : (Translated.groupInfoOf g).standalone = g.standalone := rfl
      rw [hst, gio_end_ne_begin7 g hgS]
      by_cases hskip : (!g.standalone || (g.end_ != (g.begin : Int) + 7)) = true
      · simp only [hskip, if_true, i64_ofNat_succ]
        exact ih fm' (i + 1) s (by omega) (by omega)
      · have h7 : g.end_ = (g.begin : Int) + 7 := by
          simp only [Bool.or_eq_true, not_or, bne_iff_ne, ne_eq, Decidable.not_not] at hskip
          exact hskip.2
        have he := hgS.2.2
        simp only [hskip, Bool.false_eq_true, if_false]
        sm_simp
        simp only [List.nil_append, gio_begin_lit g 3 3 rfl, gio_begin_lit g 4 4 rfl, gio_begin_lit g 5 5 rfl, gio_begin_lit g 6 6 rfl]
        rw [chain3, tr_lowerAt _ _ _ (by omega) (by intro j hj; simp at hj; omega)]
        cases hl3 : lowerAt? (o.view s).rc.data (g.begin + 3) [g.begin + 4, g.begin + 5, g.begin + 6] with
        | none => simp [Agree]
        | some d3 =>
          obtain ⟨x3, hx3⟩ := idx_after_lower _ _ _ d3 (by omega) hl3
          sm_simp
          simp only [hx3]
          sm_simp
          rw [Res.bindE_assoc]
          refine Agree.bind_accept o d3 s ?_
          intro a s1 _
          cases a
          · -- rejected: the significand
            obtain ⟨hd1, _, _⟩ := wf.small s1
            simp only [Bool.not_false, if_true]
            sm_simp
            rw [chain2, tr_lowerAt _ _ _ (by omega) (by intro j hj; simp at hj; omega)]
            cases hl2 : lowerAt? (o.view s1).rc.data (g.begin + 4) [g.begin + 5, g.begin + 6] with
            | none => simp [Agree]
            | some d2 =>
              obtain ⟨x2, hx2⟩ := idx_after_lower _ _ _ d2 (by omega) hl2
              sm_simp
              simp only [hx2]
              sm_simp
              simp only [Res.bindE_assoc]
              refine Agree.bind_accept o d2 s1 ?_
              intro a s2 _
              cases a
              · -- rejected: the fraction
                simp only [Bool.not_false, if_true]
                sm_simp
                rw [chain1, tr_lowerAt _ _ _ (by omega) (by intro j hj; simp at hj; omega)]
                cases hl1 : lowerAt? (o.view s2).rc.data (g.begin + 5) [g.begin + 6] with
                | none => simp [Agree]
                | some d1 =>
                  obtain ⟨x1, hx1⟩ := idx_after_lower _ _ _ d1 (by omega) hl1
                  sm_simp
                  simp only [hx1]
                  sm_simp
                  simp only [Res.bindE_assoc]
                  refine Agree.bind_accept o d1 s2 ?_
                  intro a s3 _
                  sm_simp
                  rw [i64_ofNat_succ]
                  exact ih fm' (i + 1) s3 (by omega) (by omega)
              · simp only [Bool.not_true, Bool.false_eq_true, if_false]
                sm_simp
                rw [i64_ofNat_succ]
                exact ih fm' (i + 1) s2 (by omega) (by omega)
          · simp only [Bool.not_true, Bool.false_eq_true, if_false]
            sm_simp
            rw [i64_ofNat_succ]
            exact ih fm' (i + 1) s1 (by omega) (by omega)
    · simp only [hlt, decide_false]
      sm_simp
      exact Agree.done s trivial

/-! ### `sortGroups` -/

theorem slice_ofNat {α : Type} (l : List α) {a b : Nat} (ha : a < 2 ^ 62) (hb : b < 2 ^ 62) :
    Go.slice l (Int64.ofNat a) (Int64.ofNat b) =
      if a ≤ b ∧ b ≤ l.length then .ok ((l.take b).drop a) else .error .runtime := by
  simp only [Go.slice, pos_ofNat ha, pos_ofNat hb]
  by_cases h1 : a < l.length + 1
  · by_cases h2 : b < l.length + 1
    · simp only [h1, h2, if_true]
      by_cases h3 : a ≤ b
      · have : b ≤ l.length := by omega
        simp [h3, this]
      · simp [h3]
    · have : ¬ (a ≤ b ∧ b ≤ l.length) := by omega
      simp [h1, h2, this]
  · have : ¬ (a ≤ b ∧ b ≤ l.length) := by omega
    simp [h1, this]

theorem gio_begin_nat (g : GI) : (Translated.groupInfoOf g).begin = Int64.ofNat g.begin := I_nat g.begin

theorem gio_end_nat (g : GI) (h0 : 0 ≤ g.end_) : (Translated.groupInfoOf g).end_ = Int64.ofNat g.end_.toNat := by
  have : (Translated.groupInfoOf g).end_ = I g.end_ := rfl
  rw [this, ← I_nat, Int.toNat_of_nonneg h0]

/-- the swap candidate of `sortGroups` as the source builds it -/
def swapT (data : List UInt64) (g h : Translated.groupInfo) : Go.M (List UInt64) :=
  (Go.sliceTo data h.begin) >>= fun s8 =>
  (Go.slice data g.begin g.end_) >>= fun s10 =>
  (Go.slice data h.end_ g.begin) >>= fun s12 =>
  (Go.slice data h.begin h.end_) >>= fun s14 =>
  (Go.sliceFrom data g.end_) >>= fun s16 =>
  pure (((([] ++ s8) ++ s10) ++ s12) ++ s14 ++ s16)

theorem tr_swapBuf (data : List UInt64) (g h : GI) (hg : g.Small) (hh : h.Small) (hg0 : 0 ≤ g.end_) (hh0 : 0 ≤ h.end_)
    (hd : data.length < 2 ^ 62) :
    swapT data (Translated.groupInfoOf g) (Translated.groupInfoOf h) =
      match swapBuf? data g h with | some d => .ok d | none => .error .runtime := by
  obtain ⟨gb, _, ge⟩ := hg
  obtain ⟨hb, _, he⟩ := hh
  have hge : g.end_.toNat < 2 ^ 62 := by omega
  have hhe : h.end_.toNat < 2 ^ 62 := by omega
  unfold swapT swapBuf?
  rw [gio_begin_nat, gio_begin_nat, gio_end_nat g hg0, gio_end_nat h hh0]
  rw [sliceTo_ofNat _ hb, slice_ofNat _ gb hge, slice_ofNat _ hhe gb, slice_ofNat _ hb hhe, sliceFrom_ofNat _ hge]
  simp only [slice?]
  generalize g.end_.toNat = ge' at *
  generalize h.end_.toNat = he' at *
  generalize g.begin = gb' at *
  generalize h.begin = hb' at *
  by_cases c1 : hb' ≤ data.length
  · by_cases c2 : gb' ≤ ge' ∧ ge' ≤ data.length
    · by_cases c3 : he' ≤ gb' ∧ gb' ≤ data.length
      · by_cases c4 : hb' ≤ he' ∧ he' ≤ data.length
        · have c5 : ge' ≤ data.length := c2.2
          have c1' : 0 ≤ hb' ∧ hb' ≤ data.length := ⟨by omega, c1⟩
          have c6 : ge' ≤ data.length ∧ data.length ≤ data.length := ⟨c5, Nat.le_refl _⟩
          simp [c1, c2, c3, c4, c5, c1', c6, bind, Except.bind, pure, Except.pure]
        · have c1' : 0 ≤ hb' ∧ hb' ≤ data.length := ⟨by omega, c1⟩
          simp [c1, c2, c3, c4, c1', bind, Except.bind]
      · have c1' : 0 ≤ hb' ∧ hb' ≤ data.length := ⟨by omega, c1⟩
        simp [c1, c2, c3, c1', bind, Except.bind]
    · have c1' : 0 ≤ hb' ∧ hb' ≤ data.length := ⟨by omega, c1⟩
      simp [c1, c2, c1', bind, Except.bind]
  · have c1' : ¬ (0 ≤ hb' ∧ hb' ≤ data.length) := by omega
    simp [c1, c1', bind, Except.bind]

theorem chainSwap {σ β : Type} (s : σ) (D : σ → List UInt64) (g h : Translated.groupInfo) (f : List UInt64 → σ → Res σ (Except Panic β)) :
    ((Res.done (Go.sliceTo (D s) h.begin) s).bindE fun s8 s' =>
      (Res.done (Go.slice (D s') g.begin g.end_) s').bindE fun s10 s' =>
      (Res.done (Go.slice (D s') h.end_ g.begin) s').bindE fun s12 s' =>
      (Res.done (Go.slice (D s') h.begin h.end_) s').bindE fun s14 s' =>
      (Res.done (Go.sliceFrom (D s') g.end_) s').bindE fun s16 s' =>
      f (((([] ++ s8) ++ s10) ++ s12) ++ s14 ++ s16) s')
    = (Res.done (swapT (D s) g h) s).bindE f := by
  unfold swapT
  simp only [bindE_doneM]
  cases Go.sliceTo (D s) h.begin with
  | error e => rfl
  | ok a =>
    simp only [bind, Except.bind]
    cases Go.slice (D s) g.begin g.end_ with
    | error e => rfl
    | ok b =>
      simp only
      cases Go.slice (D s) h.end_ g.begin with
      | error e => rfl
      | ok c =>
        simp only
        cases Go.slice (D s) h.begin h.end_ with
        | error e => rfl
        | ok d =>
          simp only
          cases Go.sliceFrom (D s) g.end_ with
          | error e => rfl
          | ok e => rfl

theorem gio_end_gt_begin (h g : GI) (hh : h.Small) (hg : g.Small) :
    decide ((Translated.groupInfoOf h).end_ > (Translated.groupInfoOf g).begin) = decide (h.end_ > (g.begin : Int)) := by
  obtain ⟨_, h1, h2⟩ := hh
  have e1 : (Translated.groupInfoOf h).end_ = I h.end_ := rfl
  have e2 : (Translated.groupInfoOf g).begin = I (g.begin : Int) := rfl
  rw [e1, e2]
  simp only [gt_iff_lt, Int64.lt_iff_toInt_lt, I_toInt (x := h.end_) (by omega) h2, I_toInt (x := (g.begin : Int)) (by omega) (by have := hg.1; omega)]

def negOne : Int64 := Int64.ofNat 0 - 1

theorem negOne_not_ge : decide (negOne ≥ (0 : Int64)) = false := by decide

/-- the scan of `sortGroups` for a group to swap `g` with: `for j--; j >= 0; j--` -/
theorem tr_sortScan {σ : Type} (o : Oracle σ) (wf : o.WF) (g : GI) (hgS : g.Small) (hg0 : 0 ≤ g.end_) (j_ : Int64) :
    ∀ (fuel n : Nat) (s : σ), n < 2 ^ 62 →
      Agree (fun (t : Int64) (b : Option Nat) => (t = match b with | some j' => Int64.ofNat j' | none => negOne) ∧ ∀ j', b = some j' → j' < n)
        (SM.exec o (Translated.shrinker_sortGroups_loop3 (Translated.groupInfoOf g) j_ fuel (Int64.ofNat n - 1)) s)
        ((sortScan g n).exec o s) := by
  intro fuel
  induction fuel with
  | zero => intro n s _; simp [Translated.shrinker_sortGroups_loop3, Agree]
  | succ fuel ih =>
    intro n s hn
    obtain ⟨hd, hgl, hgs⟩ := wf.small s
    cases n with
    | zero =>
      rw [Translated.shrinker_sortGroups_loop3, sortScan]
      have : Int64.ofNat 0 - 1 = negOne := rfl
      rw [this, negOne_not_ge]
      sm_simp
      exact Agree.done s ⟨rfl, by intro j' h; cases h⟩
    | succ j =>
      have hj62 : j < 2 ^ 62 := by omega
      rw [Translated.shrinker_sortGroups_loop3, sortScan, i64_ofNat_succ_sub_one, i64_ofNat_nonneg hj62]
      sm_simp
      simp only [idx_groups _ hj62]
      cases hh? : (o.view s).rc.groups[j]? with
      | none => sm_simp; simp [Agree]
      | some h =>
        have hhm : h ∈ (o.view s).rc.groups := List.mem_of_getElem? hh?
        have hhS := hgs h hhm
        sm_simp
        have hst : (Translated.groupInfoOf h).standalone = h.standalone := rfl
        have hlb : ((Translated.groupInfoOf h).label != (Translated.groupInfoOf g).label) = (h.label != g.label) := rfl
        rw [hst, gio_end_neg h hhS, gio_end_gt_begin h g hhS hgS, hlb]
        have hprev : Int64.ofNat j - 1 = Int64.ofNat j - 1 := rfl
        by_cases hskip : (!h.standalone || decide (h.end_ < 0) || decide (h.end_ > (g.begin : Int)) || (h.label != g.label)) = true
        · simp only [hskip, if_true]
          exact (ih j s hj62).mono (fun t b h => ⟨h.1, fun j' hj' => Nat.lt_succ_of_lt (h.2 j' hj')⟩)
        · simp only [hskip, Bool.false_eq_true, if_false]
          have hh0 : 0 ≤ h.end_ := by
            simp only [Bool.or_eq_true, Bool.not_eq_true', decide_eq_true_eq, not_or] at hskip
            omega
          sm_simp
          have e := chainSwap s (fun s => (o.view s).rc.data) (Translated.groupInfoOf g) (Translated.groupInfoOf h)
            (fun buf s' => (SM.exec o (SM.accept buf) s').bindE fun a s' =>
              SM.exec o (if a = true then pure (Int64.ofNat j)
                else Translated.shrinker_sortGroups_loop3 (Translated.groupInfoOf g) j_ fuel (Int64.ofNat j - 1)) s')
          try dsimp only at e
          rw [e, tr_swapBuf _ g h hgS hhS hg0 hh0 hd]
          cases hsw : swapBuf? (o.view s).rc.data g h with
          | none => simp [Agree]
          | some buf =>
            sm_simp
            refine Agree.bind_accept o buf s ?_
            intro a s' _
            cases a
            · sm_simp
              exact (ih j s' hj62).mono (fun t b h => ⟨h.1, fun j' hj' => Nat.lt_succ_of_lt (h.2 j' hj')⟩)
            · sm_simp
              exact Agree.done s' ⟨rfl, by intro j' h; cases h; exact Nat.lt_succ_self _⟩

theorem negOne_not_pos : decide (negOne > (0 : Int64)) = false := by decide

theorem i64_ofNat_pos {n : Nat} (hn : n < 2 ^ 62) : decide (Int64.ofNat n > (0 : Int64)) = decide (n > 0) := by
  have h0 : (0 : Int64) = Int64.ofNat 0 := rfl
  rw [h0, i64_gt_ofNat hn 0 (by omega)]

/-- `for j := i; j > 0 && j < len(s.rec.groups); { … }` of `sortGroups`, entered with `j` or with -1 (the scan found nothing) -/
theorem tr_sortFrom {σ : Type} (o : Oracle σ) (wf : o.WF) :
    ∀ (fuel fm : Nat) (jT : Int64) (b : Option Nat) (s : σ), fuel ≤ fm →
      (jT = match b with | some j => Int64.ofNat j | none => negOne) → (∀ j, b = some j → j < 2 ^ 62) →
      Agree (fun _ _ => True)
        (SM.exec o (Translated.shrinker_sortGroups_loop2 fuel jT) s)
        ((match b with | some j => sortFrom fm j | none => (pure () : Script Unit)).exec o s) := by
  intro fuel
  induction fuel with
  | zero => intro fm jT b s _ _ _; simp [Translated.shrinker_sortGroups_loop2, Agree]
  | succ fuel ih =>
    intro fm jT b s hf hj hb
    obtain ⟨hd, hgl, hgs⟩ := wf.small s
    obtain ⟨fm', rfl⟩ : ∃ fm', fm = fm' + 1 := ⟨fm - 1, by omega⟩
    cases b with
    | none =>
      subst hj
      rw [Translated.shrinker_sortGroups_loop2]
      sm_simp
      rw [negOne_not_pos]
      sm_simp
      exact Agree.done s trivial
    | some j =>
      have hj62 := hb j rfl
      simp only at hj
      subst hj
      rw [Translated.shrinker_sortGroups_loop2]
      simp only [sortFrom]
      sm_simp
      rw [i64_ofNat_pos hj62]
      by_cases hpos : j > 0
      · simp only [hpos, decide_true]
        sm_simp
        rw [lt_glen _ hj62 (by simp; omega)]
        simp only [List.length_map]
        by_cases hlt : j < (o.view s).rc.groups.length
        · have hcond : (j > 0 ∧ j < (o.view s).rc.groups.length) := ⟨hpos, hlt⟩
          simp only [hlt, decide_true, hcond, and_self, if_true]
          have hg? : (o.view s).rc.groups[j]? = some (o.view s).rc.groups[j] := List.getElem?_eq_getElem hlt
          generalize hgdef : (o.view s).rc.groups[j] = g at hg?
          have hgm : g ∈ (o.view s).rc.groups := by rw [← hgdef]; exact List.getElem_mem hlt
          have hgS := hgs g hgm
          sm_simp
          simp only [idx_groups _ hj62, hg?]
          sm_simp
          have hst : (Translated.groupInfoOf g).standalone = g.standalone := rfl
          rw [hst, gio_end_neg g hgS]
          by_cases hskip : (!g.standalone || decide (g.end_ < 0)) = true
          · simp only [hskip, if_true]
            sm_simp
            exact Agree.done s trivial
          · simp only [hskip, Bool.false_eq_true, if_false]
            have h0 : 0 ≤ g.end_ := by
              simp only [Bool.or_eq_true, Bool.not_eq_true', decide_eq_true_eq, not_or] at hskip
              omega
            sm_simp
            refine Agree.bind (tr_sortScan o wf g hgS h0 (Int64.ofNat j) fuel j s hj62) ?_
            intro t b' s' htb
            have hb' : ∀ j', b' = some j' → j' < 2 ^ 62 := by
              intro j' hj'
              have := htb.2 j' hj'
              omega
            have := ih fm' t b' s' (by omega) htb.1 hb'
            cases b' with
            | none => exact this
            | some j' => exact this
        · have hcond : ¬ (j > 0 ∧ j < (o.view s).rc.groups.length) := by omega
          simp only [hlt, decide_false, hcond, if_false]
          sm_simp
          exact Agree.done s trivial
      · have hcond : ¬ (j > 0 ∧ j < (o.view s).rc.groups.length) := by omega
        simp only [hpos, decide_false, hcond, if_false]
        sm_simp
        exact Agree.done s trivial

theorem tr_sortGroups_loop {σ : Type} (o : Oracle σ) (wf : o.WF) :
    ∀ (fuel fm i : Nat) (s : σ), fuel ≤ fm → i < 2 ^ 62 →
      Agree (fun _ _ => True)
        (SM.exec o (Translated.shrinker_sortGroups_loop1 fuel (Int64.ofNat i)) s)
        ((sortGroups fm i).exec o s) := by
  intro fuel
  induction fuel with
  | zero => intro fm i s _ _; simp [Translated.shrinker_sortGroups_loop1, Agree]
  | succ fuel ih =>
    intro fm i s hfm hi62
    obtain ⟨fm', rfl⟩ : ∃ fm', fm = fm' + 1 := ⟨fm - 1, by omega⟩
    obtain ⟨hd, hgl, hgs⟩ := wf.small s
    rw [Translated.shrinker_sortGroups_loop1, sortGroups]
    sm_simp
    rw [lt_glen _ hi62 (by simp; omega)]
    simp only [List.length_map]
    by_cases hlt : i < (o.view s).rc.groups.length
    · simp only [hlt, decide_true, if_true]
      sm_simp
      refine Agree.bind (tr_sortFrom o wf fuel (fm' + 1) (Int64.ofNat i) (some i) s (by omega) rfl (by intro j h; cases h; exact hi62)) ?_
      intro _ _ s' _
      rw [i64_ofNat_succ]
      exact ih fm' (i + 1) s' (by omega) (by omega)
    · simp only [hlt, decide_false, if_false]
      sm_simp
      exact Agree.done s trivial

/-! ### the passes as called by the round loop, and the round loop -/

theorem i64_zero_ofNat : (0 : Int64) = Int64.ofNat 0 := rfl
theorem i64_one_ofNat : (1 : Int64) = Int64.ofNat 1 := rfl

theorem Res.bind_unit {σ : Type} (r : Res σ Unit) : (r.bind fun _ s => Res.done () s) = r := by
  cases r <;> rfl

/-- a translated loop followed by `pure ()` against the model's pass -/
theorem Agree.unit_tail {σ α : Type} {rt : Res σ (Except Panic α)} {rm : Res σ Unit} (h : Agree (fun _ _ => True) rt rm) :
    Agree (fun _ _ => True) (rt.bindE fun _ s' => (Res.done (.ok ()) s' : Res σ (Except Panic Unit))) rm := by
  have := Agree.bind (R' := fun (_ : Unit) (_ : Unit) => True) h
    (ft := fun _ s' => (Res.done (.ok ()) s' : Res σ (Except Panic Unit))) (fm := fun _ s' => Res.done () s')
    (fun _ _ s' _ => Agree.done s' trivial)
  rw [Res.bind_unit] at this
  exact this

theorem tr_removeGroups {σ : Type} (o : Oracle σ) (wf : o.WF) (fuel fm : Nat) (h : fuel ≤ fm) (s : σ) :
    Agree (fun _ _ => True) (SM.exec o (Translated.shrinker_removeGroups fuel) s) ((removeGroups fm 0).exec o s) := by
  unfold Translated.shrinker_removeGroups
  sm_simp
  rw [i64_zero_ofNat]
  exact (tr_removeGroups_loop o wf fuel fm 0 s h (by omega)).unit_tail

theorem tr_lowerFloatHack {σ : Type} (o : Oracle σ) (wf : o.WF) (fuel fm : Nat) (h : fuel ≤ fm) (s : σ) :
    Agree (fun _ _ => True) (SM.exec o (Translated.shrinker_lowerFloatHack fuel) s) ((lowerFloatHack fm 0).exec o s) := by
  unfold Translated.shrinker_lowerFloatHack
  sm_simp
  rw [i64_zero_ofNat]
  exact (tr_lowerFloatHack_loop o wf fuel fm 0 s h (by omega)).unit_tail

theorem tr_removeGroupsAndLower {σ : Type} (o : Oracle σ) (wf : o.WF) (fuel fm : Nat) (h : fuel ≤ fm) (s : σ) :
    Agree (fun _ _ => True) (SM.exec o (Translated.shrinker_removeGroupsAndLower fuel) s) ((removeGroupsAndLower fm 0).exec o s) := by
  unfold Translated.shrinker_removeGroupsAndLower
  sm_simp
  rw [i64_zero_ofNat]
  exact (tr_removeGroupsAndLower_loop o wf fuel fm 0 s h (by omega)).unit_tail

theorem tr_sortGroups {σ : Type} (o : Oracle σ) (wf : o.WF) (fuel fm : Nat) (h : fuel ≤ fm) (s : σ) :
    Agree (fun _ _ => True) (SM.exec o (Translated.shrinker_sortGroups fuel) s) ((sortGroups fm 1).exec o s) := by
  unfold Translated.shrinker_sortGroups
  sm_simp
  rw [i64_one_ofNat]
  exact (tr_sortGroups_loop o wf fuel fm 1 s h (by omega)).unit_tail

theorem tr_removeGroupSpans {σ : Type} (o : Oracle σ) (wf : o.WF) (fuel fm : Nat) (h : fuel ≤ fm) (s : σ) :
    Agree (fun _ _ => True) (SM.exec o (Translated.shrinker_removeGroupSpans fuel) s) ((removeGroupSpans fm 0).exec o s) := by
  unfold Translated.shrinker_removeGroupSpans
  sm_simp
  rw [i64_zero_ofNat]
  exact (tr_removeGroupSpans_loop o wf fuel fm 0 s h (by omega)).unit_tail

/-- the statement about `minimizeBlocks` the round loop needs -/
def MinimizeBlocksAgree {σ : Type} (o : Oracle σ) : Prop :=
  ∀ (fuel fm : Nat) (s : σ), fuel ≤ fm →
    Agree (fun _ _ => True) (SM.exec o (Translated.shrinker_minimizeBlocks fuel) s) ((minimizeBlocks fm 0).exec o s)

theorem shrinks_gt (n : Nat) (hn : n < 2 ^ 62) (prev : Int) (h1 : -1 ≤ prev) (h2 : prev < 2 ^ 62) :
    decide (Int64.ofNat n > I prev) = decide ((n : Int) > prev) := by
  simp only [gt_iff_lt, Int64.lt_iff_toInt_lt, I_toInt (x := prev) (by omega) h2, i64_ofNat_toInt hn]

theorem shrinks_beq (n m : Nat) (hn : n < 2 ^ 62) (hm : m < 2 ^ 62) : (Int64.ofNat n == Int64.ofNat m) = (n == m) := by
  by_cases h : n = m
  · subst h; simp
  · have : Int64.ofNat n ≠ Int64.ofNat m := by
      intro e
      have := congrArg Int64.toInt e
      rw [i64_ofNat_toInt hn, i64_ofNat_toInt hm] at this
      exact h (by exact_mod_cast this)
    rw [beq_false_of_ne this, beq_false_of_ne h]

/-- **the round loop of `shrinker.shrink`** -/
theorem tr_rounds {σ : Type} (o : Oracle σ) (wf : o.WF) (hsh : ∀ s, (o.view s).shrinks < 2 ^ 62) (hmb : MinimizeBlocksAgree o) (F : Nat) :
    ∀ (fuel r : Nat) (iT : Int64) (prev : Int) (s : σ), fuel ≤ r → fuel ≤ F → -1 ≤ prev → prev < 2 ^ 62 →
      Agree (fun _ _ => True)
        (SM.exec o (Translated.shrinker_shrink_loop1 fuel iT (I prev)) s)
        ((rounds F r prev).exec o s) := by
  intro fuel
  induction fuel with
  | zero => intro r iT prev s _ _ _ _; simp [Translated.shrinker_shrink_loop1, Agree]
  | succ fuel ih =>
    intro r iT prev s hr hF h1 h2
    obtain ⟨r', rfl⟩ : ∃ r', r = r' + 1 := ⟨r - 1, by omega⟩
    rw [Translated.shrinker_shrink_loop1, rounds]
    sm_simp
    rw [shrinks_gt _ (hsh s) prev h1 h2]
    by_cases hgt : ((o.view s).shrinks : Int) > prev
    · simp only [hgt, decide_true, if_true]
      sm_simp
      refine Agree.bind (tr_removeGroups o wf fuel F (by omega) s) ?_
      intro _ _ s1 _
      refine Agree.bind (hmb fuel F s1 (by omega)) ?_
      intro _ _ s2 _
      sm_simp
      rw [shrinks_beq _ _ (hsh s2) (hsh s)]
      have hprev : Int64.ofNat (o.view s).shrinks = I ((o.view s).shrinks : Int) := (I_nat _).symm
      by_cases heq : ((o.view s2).shrinks == (o.view s).shrinks) = true
      · simp only [heq, if_true]
        sm_simp
        simp only [Res.bindE_assoc]
        refine Agree.bind (tr_lowerFloatHack o wf fuel F (by omega) s2) ?_
        intro _ _ s3 _
        refine Agree.bind (tr_removeGroupsAndLower o wf fuel F (by omega) s3) ?_
        intro _ _ s4 _
        refine Agree.bind (tr_sortGroups o wf fuel F (by omega) s4) ?_
        intro _ _ s5 _
        refine Agree.bind (tr_removeGroupSpans o wf fuel F (by omega) s5) ?_
        intro _ _ s6 _
        sm_simp
        rw [hprev]
        exact ih r' _ _ s6 (by omega) (by omega) (by omega) (by have := hsh s; omega)
      · simp only [heq, Bool.false_eq_true, if_false]
        sm_simp
        rw [hprev]
        exact ih r' _ _ s2 (by omega) (by omega) (by omega) (by have := hsh s; omega)
    · simp only [hgt, decide_false, Bool.false_eq_true, if_false]
      sm_simp
      exact Agree.done s trivial

end Rapid
