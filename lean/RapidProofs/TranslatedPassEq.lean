/-
  RapidProofs.TranslatedPassEq — the passes of the shrinker (shrink.go: `removeGroups`, `minimizeBlocks`, `lowerFloatHack`,
  `removeGroupsAndLower`, `sortGroups`, `removeGroupSpans`, the round loop of `shrinker.shrink`) as translated from /repo on
  every run (RapidModel/Generated/Translated.lean, in `Go.SM`) **agree with the hand-written passes of the model**
  (RapidModel/Passes.lean) against every shrinker: whatever `accept` answers, both read the same state, propose the same
  candidates in the same order and end in the same state, both hit an index out of range in the same state, or the translated
  loop runs out of fuel (a deadline cut).  Assumed of the shrinker's states (`Oracle.WF`): recordings have fewer than 2^61
  entries, a finished group does not end before it begins, and a rejected candidate leaves the recording as it is.
-/
import RapidProofs.ScriptExec
import RapidProofs.TranslatedPruneEq
import RapidProofs.TranslatedMinEq

namespace Rapid
open Rapid.Go

/-- what the passes may assume of every state of the shrinker -/
structure Oracle.WF {σ : Type} (o : Oracle σ) : Prop where
  small : ∀ s, Rec.Small (o.view s).rc
  ordered : ∀ s, ∀ g ∈ (o.view s).rc.groups, 0 ≤ g.end_ → (g.begin : Int) ≤ g.end_
  reject : ∀ s buf s', o.accept s buf = some (false, s') → o.view s' = o.view s

theorem groupInfoOf_eq (g : GI) : Translated.groupInfoOf g = goOf g := rfl

theorem gio_end_neg (g : GI) (hg : g.Small) : decide ((Translated.groupInfoOf g).end_ < (0 : Int64)) = decide (g.end_ < 0) := by
  obtain ⟨_, h1, h2⟩ := hg
  have : (Translated.groupInfoOf g).end_ = I g.end_ := rfl
  rw [this]
  have h0 : (0 : Int64) = I 0 := rfl
  rw [h0]
  simp only [Int64.lt_iff_toInt_lt, I_toInt (x := g.end_) (by omega) h2, I_toInt (x := 0) (by omega) (by omega)]

theorem gio_back (g : GI) (hg : g.Small) : giOf (Translated.groupInfoOf g) = g := by
  obtain ⟨h0, h1, h2⟩ := hg
  cases g with
  | mk l st b e d =>
    simp only [giOf, Translated.groupInfoOf]
    simp only at h0 h1 h2
    have hb : (Int64.ofInt (b : Int)).toInt = b := I_toInt (x := (b : Int)) (by omega) (by omega)
    have he : (Int64.ofInt e).toInt = e := I_toInt (x := e) (by omega) (by omega)
    simp [hb, he]

theorem gio_gok (g : GI) (hg : g.Small) (h0 : 0 ≤ g.end_) (hbe : (g.begin : Int) ≤ g.end_) : GOK (Translated.groupInfoOf g) := by
  obtain ⟨hb, h1, h2⟩ := hg
  have hb' : (Translated.groupInfoOf g).begin.toInt = g.begin := I_toInt (x := (g.begin : Int)) (by omega) (by omega)
  have he' : (Translated.groupInfoOf g).end_.toInt = g.end_ := I_toInt (x := g.end_) (by omega) h2
  refine ⟨?_, ?_, ?_⟩ <;> omega

theorem idx_groups (gs : List GI) {i : Nat} (hi : i < 2 ^ 62) :
    Go.idx (gs.map Translated.groupInfoOf) (Int64.ofNat i) =
      match gs[i]? with | some g => .ok (Translated.groupInfoOf g) | none => .error .runtime := by
  rw [idx_ofNat _ hi, List.getElem?_map]
  cases gs[i]? <;> rfl

theorem lt_glen {α : Type} (l : List α) {i : Nat} (hi : i < 2 ^ 62) (hl : l.length < 2 ^ 62) :
    decide (Int64.ofNat i < glen l) = decide (i < l.length) := i64_lt_ofNat hi _ hl


/-- the value, or the translation's loop ran out of fuel -/
def OrFuel {α : Type} (x y : Go.M α) : Prop := x = y ∨ x = .error .fuel

theorem tr_withoutLoop_any (groups : List Translated.groupInfo) (hok : ∀ g ∈ groups, GOK g) : ∀ (n : Nat) (buf : List UInt64) (fT : Nat),
    n ≤ groups.length → groups.length < 2 ^ 62 →
    OrFuel (Translated.without_loop1 groups fT buf (Int64.ofNat n - 1))
      (match (groups.take n).reverse.foldlM (fun b g => cut? b (giOf g).begin (giOf g).end_) buf with
      | some d => .ok (d, Int64.ofNat 0 - 1)
      | none => .error .runtime) := by
  intro n
  induction n with
  | zero =>
    intro buf fT _ _
    cases fT with
    | zero => right; rfl
    | succ f => left; simp [Translated.without_loop1, i64_ofNat_zero_sub_one_neg, pure, Except.pure]
  | succ n ih =>
    intro buf fT hn hl
    cases fT with
    | zero => right; rfl
    | succ f =>
      have hge : decide (Int64.ofNat n ≥ (0 : Int64)) = true := i64_ofNat_nonneg (by omega)
      have hlt : n < groups.length := by omega
      have hidx : Go.idx groups (Int64.ofNat n) = .ok groups[n] := by
        rw [idx_ofNat _ (by omega)]; simp [hlt]
      have htake : (groups.take (n + 1)).reverse = groups[n] :: (groups.take n).reverse := by
        rw [List.take_succ_eq_append_getElem hlt, List.reverse_append]; rfl
      have hcut := tr_cut buf groups[n] (hok _ (List.getElem_mem hlt))
      unfold OrFuel
      simp only [Translated.without_loop1, i64_ofNat_succ_sub_one, hge, if_true, hidx, bind, Except.bind, htake, List.foldlM_cons]
      simp only [bind, Except.bind, pure, Except.pure] at hcut
      cases hc : cut? buf (giOf groups[n]).begin (giOf groups[n]).end_ with
      | none =>
        left
        rw [hc] at hcut
        simp only [Option.bind_eq_bind, Option.bind_none] at hcut ⊢
        revert hcut
        cases Go.sliceTo buf groups[n].begin with
        | error e => intro h; simp only [Except.error.injEq] at h ⊢; exact h
        | ok s2 =>
          cases Go.sliceFrom buf groups[n].end_ with
          | error e => intro h; simp only [Except.error.injEq] at h ⊢; exact h
          | ok s3 => intro h; simp at h
      | some d =>
        rw [hc] at hcut
        simp only [Option.bind_eq_bind, Option.bind_some] at hcut ⊢
        revert hcut
        cases Go.sliceTo buf groups[n].begin with
        | error e => intro h; simp at h
        | ok s2 =>
          cases Go.sliceFrom buf groups[n].end_ with
          | error e => intro h; simp at h
          | ok s3 =>
            intro h
            simp only [Except.ok.injEq] at h
            simp only [h]
            exact ih d f (by omega) hl

/-- `without(data, groups...)` of /repo is the model's `without?`, or the translated loop ran out of fuel -/
theorem tr_without_any (data : List UInt64) (groups : List Translated.groupInfo) (fuel : Nat) (hok : ∀ g ∈ groups, GOK g)
    (hl : groups.length < 2 ^ 62) :
    OrFuel (Translated.without data groups fuel)
      (match without? data (groups.map giOf) with
      | some d => .ok d
      | none => .error .runtime) := by
  have h := tr_withoutLoop_any groups hok groups.length data fuel (Nat.le_refl _) hl
  have hw : without? data (groups.map giOf) =
      groups.reverse.foldlM (fun b g => cut? b (giOf g).begin (giOf g).end_) data := by
    simp only [without?, ← List.map_reverse, List.foldlM_map]
  simp only [List.take_length] at h
  unfold OrFuel at h ⊢
  simp only [Translated.without, List.nil_append, Go.glen, hw]
  rcases h with h | h
  · left
    rw [h]
    cases groups.reverse.foldlM (fun b g => cut? b (giOf g).begin (giOf g).end_) data with
    | none => rfl
    | some d => rfl
  · right; rw [h]; rfl

theorem without_one (data : List UInt64) (g : GI) (fuel : Nat) (hg : g.Small) (h0 : 0 ≤ g.end_) (hbe : (g.begin : Int) ≤ g.end_) :
    OrFuel (Translated.without data [Translated.groupInfoOf g] fuel)
      (match without? data [g] with | some d => .ok d | none => .error .runtime) := by
  have h := tr_without_any data [Translated.groupInfoOf g] fuel
    (by intro x hx; simp at hx; subst hx; exact gio_gok g hg h0 hbe) (by simp)
  simp only [List.map_cons, List.map_nil, gio_back g hg] at h
  exact h

theorem i64_sub_add_one (x : Int64) : x - 1 + 1 = x := by
  apply Int64.toBitVec_inj.mp
  simp [Int64.toBitVec_add, Int64.toBitVec_sub]

theorem i64_ofNat_succ (n : Nat) : Int64.ofNat n + 1 = Int64.ofNat (n + 1) := by
  have := i64_ofNat_succ_sub_one n
  rw [← this, i64_sub_add_one]

macro "sm_simp" : tactic => `(tactic| simp only [SM.exec_bind, SM.exec_andThen, SM.exec_orElse, SM.exec_groups, SM.exec_data,
  SM.exec_shrinks, SM.exec_pure, SM.exec_ofM, SM.exec_fuel, Res.bindE_ok, Res.bindE_error, Res.bindE_stop, Script.exec_bind',
  Script.exec_getV, Script.exec_pure, Script.exec_orOob_some, Script.exec_orOob_none, Res.bind_done, Res.bind_oob, Res.bind_stop,
  ↓reduceIte, Bool.false_eq_true])

theorem tr_removeGroups_loop {σ : Type} (o : Oracle σ) (wf : o.WF) :
    ∀ (fuel i : Nat) (s : σ), i ≤ 2 ^ 61 →
      Agree (fun _ _ => True)
        (SM.exec o (Translated.shrinker_removeGroups_loop1 fuel (Int64.ofNat i)) s)
        ((removeGroups fuel i).exec o s) := by
  intro fuel
  induction fuel with
  | zero => intro i s _; simp [Translated.shrinker_removeGroups_loop1, Agree]
  | succ fuel ih =>
    intro i s hi
    obtain ⟨hd, hgl, hgs⟩ := wf.small s
    have hi62 : i < 2 ^ 62 := by omega
    rw [Translated.shrinker_removeGroups_loop1, removeGroups]
    simp only [SM.exec_bind, SM.exec_andThen, SM.exec_groups, SM.exec_pure, Res.bindE_ok, Script.exec_bind',
      Script.exec_getV, Res.bind_done]
    rw [lt_glen _ hi62 (by simp; omega)]
    simp only [List.length_map]
    by_cases hlt : i < (o.view s).rc.groups.length
    · simp only [hlt, decide_true, if_true, Res.bindE_ok, SM.exec_ofM, idx_groups _ hi62]
      have hg? : (o.view s).rc.groups[i]? = some (o.view s).rc.groups[i] := List.getElem?_eq_getElem hlt
      generalize hgdef : (o.view s).rc.groups[i] = g at hg?
      have hgm : g ∈ (o.view s).rc.groups := by rw [← hgdef]; exact List.getElem_mem hlt
      have hgS := hgs g hgm
      sm_simp
      simp only [idx_groups _ hi62, hg?]
      sm_simp
      have hst : (Translated.groupInfoOf g).standalone = g.standalone := rfl
      rw [hst, gio_end_neg g hgS]
      by_cases hskip : (!g.standalone || decide (g.end_ < 0)) = true
      · simp only [hskip, if_true, i64_ofNat_succ]
        exact ih (i + 1) s (by omega)
      · simp only [hskip, Bool.false_eq_true, if_false]
        have h0 : 0 ≤ g.end_ := by
          simp only [Bool.or_eq_true, Bool.not_eq_true', decide_eq_true_eq, not_or] at hskip
          omega
        sm_simp
        rcases without_one (o.view s).rc.data g fuel hgS h0 (wf.ordered s g hgm h0) with hw | hw
        · rw [hw]
          cases hwo : without? (o.view s).rc.data [g] with
          | none => simp [Agree]
          | some buf =>
            sm_simp
            rw [Res.bindE_assoc]
            refine Agree.bind (Agree.accept o buf s) ?_
            intro a b s' hab
            subst hab
            cases a
            · simp only [Bool.false_eq_true, if_false]
              sm_simp
              rw [i64_ofNat_succ]
              exact ih (i + 1) s' (by omega)
            · simp only [if_true]
              sm_simp
              rw [i64_sub_add_one]
              exact ih i s' hi
        · rw [hw]; simp [Agree]
    · simp only [hlt, decide_false, Bool.false_eq_true, if_false]
      sm_simp
      exact Agree.done s trivial

/-! ### `removeGroupsAndLower` -/

theorem modify_const {α : Type} (l : List α) (i : Nat) (u : α) : l.modify i (fun _ => u) = l.set i u := by
  induction l generalizing i with
  | nil => cases i <;> simp [List.modify]
  | cons a l ih => cases i <;> simp [List.modify_cons, ih]

theorem setIdx_const (l : List UInt64) {i : Nat} (hi : i < 2 ^ 62) (u : UInt64) :
    Go.setIdx l (Int64.ofNat i) (fun _ => u) = match setIdx? l i u with | some d => .ok d | none => .error .runtime := by
  rw [setIdx_ofNat _ hi, setIdx?]
  by_cases h : i < l.length <;> simp [h, modify_const]

theorem gio_begin_le (g : GI) (hg : g.Small) {i : Nat} (hi : i < 2 ^ 62) :
    decide (Int64.ofNat i ≥ (Translated.groupInfoOf g).begin) = decide (g.begin ≤ i) := by
  have : (Translated.groupInfoOf g).begin = Int64.ofNat g.begin := I_nat g.begin
  rw [this, i64_ge_ofNat hi _ hg.1]

theorem gio_lt_end (g : GI) (hg : g.Small) {i : Nat} (hi : i < 2 ^ 62) :
    decide (Int64.ofNat i < (Translated.groupInfoOf g).end_) = decide ((i : Int) < g.end_) := by
  obtain ⟨_, h1, h2⟩ := hg
  have : (Translated.groupInfoOf g).end_ = I g.end_ := rfl
  rw [this]
  simp only [Int64.lt_iff_toInt_lt, I_toInt (x := g.end_) (by omega) h2, i64_ofNat_toInt hi]

/-- the inner loop of `removeGroupsAndLower` -/
theorem tr_rglInner {σ : Type} (o : Oracle σ) (wf : o.WF) (buf : List UInt64) (i : Nat) (hib : i < buf.length) (hi62 : i < 2 ^ 62) :
    ∀ (fuel j G : Nat) (s : σ), j ≤ (o.view s).rc.groups.length → (o.view s).rc.groups.length + 1 ≤ G + j →
      Agree (fun (t : Int64 × Int64) (b : Bool) => t.1 = if b then Int64.ofNat i - 1 else Int64.ofNat i)
        (SM.exec o (Translated.shrinker_removeGroupsAndLower_loop2 buf fuel (Int64.ofNat i) (Int64.ofNat j)) s)
        ((rglInner buf i G j).exec o s) := by
  intro fuel
  induction fuel with
  | zero => intro j G s _ _; simp [Translated.shrinker_removeGroupsAndLower_loop2, Agree]
  | succ fuel ih =>
    intro j G s hj hG
    obtain ⟨hd, hgl, hgs⟩ := wf.small s
    have hj62 : j < 2 ^ 62 := by omega
    obtain ⟨G', rfl⟩ : ∃ G', G = G' + 1 := ⟨G - 1, by omega⟩
    rw [Translated.shrinker_removeGroupsAndLower_loop2, rglInner]
    sm_simp
    rw [lt_glen _ hj62 (by simp; omega)]
    simp only [List.length_map]
    by_cases hlt : j < (o.view s).rc.groups.length
    · simp only [hlt, decide_true, if_true]
      have hg? : (o.view s).rc.groups[j]? = some (o.view s).rc.groups[j] := List.getElem?_eq_getElem hlt
      generalize hgdef : (o.view s).rc.groups[j] = g at hg?
      have hgm : g ∈ (o.view s).rc.groups := by rw [← hgdef]; exact List.getElem_mem hlt
      have hgS := hgs g hgm
      sm_simp
      simp only [idx_groups _ hj62, hg?]
      sm_simp
      have hst : (Translated.groupInfoOf g).standalone = g.standalone := rfl
      rw [hst, gio_end_neg g hgS, gio_begin_le g hgS hi62, gio_lt_end g hgS hi62]
      by_cases hskip : (!g.standalone || decide (g.end_ < 0) || (decide (g.begin ≤ i) && decide ((i : Int) < g.end_))) = true
      · simp only [hskip, if_true, i64_ofNat_succ]
        exact ih (j + 1) G' s (by omega) (by omega)
      · simp only [hskip, Bool.false_eq_true, if_false]
        have h0 : 0 ≤ g.end_ := by
          simp only [Bool.or_eq_true, Bool.not_eq_true', decide_eq_true_eq, not_or] at hskip
          omega
        sm_simp
        rcases without_one buf g fuel hgS h0 (wf.ordered s g hgm h0) with hw | hw
        · rw [hw]
          cases hwo : without? buf [g] with
          | none => simp [Agree]
          | some c =>
            sm_simp
            have hbi : Go.idx buf (Int64.ofNat i) = .ok buf[i] := by
              rw [idx_ofNat _ hi62, List.getElem?_eq_getElem hib]
            simp only [hbi]
            sm_simp
            refine Agree.bind_accept o c s ?_
            intro a s' hacc
            cases a
            · simp only [Bool.false_eq_true, if_false]
              rw [i64_ofNat_succ]
              have hv := wf.reject s c s' hacc
              exact ih (j + 1) G' s' (by rw [hv]; omega) (by rw [hv]; omega)
            · simp only [if_true]
              try sm_simp
              exact Agree.done s' (by simp)
        · rw [hw]; simp [Agree]
    · simp only [hlt, decide_false, Bool.false_eq_true, if_false]
      sm_simp
      exact Agree.done s (by simp)

theorem tr_removeGroupsAndLower_loop {σ : Type} (o : Oracle σ) (wf : o.WF) :
    ∀ (fuel i : Nat) (s : σ), i < 2 ^ 62 →
      Agree (fun _ _ => True)
        (SM.exec o (Translated.shrinker_removeGroupsAndLower_loop1 fuel (Int64.ofNat i)) s)
        ((removeGroupsAndLower fuel i).exec o s) := by
  intro fuel
  induction fuel with
  | zero => intro i s _; simp [Translated.shrinker_removeGroupsAndLower_loop1, Agree]
  | succ fuel ih =>
    intro i s hi62
    obtain ⟨hd, hgl, hgs⟩ := wf.small s
    rw [Translated.shrinker_removeGroupsAndLower_loop1, removeGroupsAndLower]
    sm_simp
    rw [lt_glen _ hi62 hd]
    by_cases hlt : i < (o.view s).rc.data.length
    · simp only [hlt, decide_true, if_true]
      have hx? : (o.view s).rc.data[i]? = some (o.view s).rc.data[i] := List.getElem?_eq_getElem hlt
      generalize hxdef : (o.view s).rc.data[i] = x at hx?
      sm_simp
      simp only [idx_ofNat _ hi62, hx?]
      sm_simp
      by_cases hz : (x == 0) = true
      · simp only [hz, if_true, i64_ofNat_succ]
        exact ih (i + 1) s (by omega)
      · simp only [hz, Bool.false_eq_true, if_false]
        sm_simp
        simp only [List.nil_append, idx_ofNat _ hi62, hx?]
        sm_simp
        rw [setIdx_const _ hi62]
        have hset : setIdx? (o.view s).rc.data i (x - 1) = some ((o.view s).rc.data.set i (x - 1)) := by
          simp [setIdx?, hlt]
        simp only [hset]
        sm_simp
        have h0 : (0 : Int64) = Int64.ofNat 0 := rfl
        rw [h0]
        refine Agree.bind (tr_rglInner o wf _ i (by simpa using hlt) hi62 fuel 0 _ s (by omega) (by omega)) ?_
        intro t b s' htb
        simp only [htb]
        cases b
        · simp only [Bool.false_eq_true, if_false, i64_ofNat_succ]
          exact ih (i + 1) s' (by omega)
        · simp only [if_true, i64_sub_add_one]
          exact ih i s' hi62
    · simp only [hlt, decide_false, Bool.false_eq_true, if_false]
      sm_simp
      exact Agree.done s trivial

/-! ### `removeGroupSpans` -/

theorem idx_last {α β : Type} (f : α → β) (gs : List α) (hne : gs ≠ []) (hl : gs.length < 2 ^ 62) :
    Go.idx (gs.map f) (glen (gs.map f) - 1) = .ok (f (gs.getLast hne)) := by
  obtain ⟨n, hn⟩ : ∃ n, gs.length = n + 1 := ⟨gs.length - 1, by have := List.length_pos_iff.mpr hne; omega⟩
  have : glen (gs.map f) - 1 = Int64.ofNat n := by
    unfold glen; rw [List.length_map, hn, i64_ofNat_succ_sub_one]
  rw [this, idx_ofNat _ (by omega), List.getElem?_map]
  have : gs[n]? = some (gs.getLast hne) := by
    rw [List.getLast_eq_getElem, List.getElem?_eq_getElem (by omega)]
    congr 2; omega
  rw [this]; rfl

theorem gio_begin_lt_end (h g : GI) (hh : h.Small) (hg : g.Small) :
    decide ((Translated.groupInfoOf h).begin < (Translated.groupInfoOf g).end_) = decide ((h.begin : Int) < g.end_) := by
  obtain ⟨_, h1, h2⟩ := hg
  have e1 : (Translated.groupInfoOf g).end_ = I g.end_ := rfl
  have e2 : (Translated.groupInfoOf h).begin = I (h.begin : Int) := rfl
  rw [e1, e2]
  simp only [Int64.lt_iff_toInt_lt, I_toInt (x := g.end_) (by omega) h2, I_toInt (x := (h.begin : Int)) (by omega) (by have := hh.1; omega)]

theorem without_many (data : List UInt64) (gs : List GI) (fuel : Nat) (hl : gs.length < 2 ^ 62)
    (hg : ∀ g ∈ gs, g.Small ∧ 0 ≤ g.end_ ∧ (g.begin : Int) ≤ g.end_) :
    OrFuel (Translated.without data (gs.map Translated.groupInfoOf) fuel)
      (match without? data gs with | some d => .ok d | none => .error .runtime) := by
  have h := tr_without_any data (gs.map Translated.groupInfoOf) fuel
    (by intro x hx; simp only [List.mem_map] at hx; obtain ⟨g, hgm, rfl⟩ := hx; obtain ⟨a, b, c⟩ := hg g hgm; exact gio_gok g a b c)
    (by simpa using hl)
  have hb : (gs.map Translated.groupInfoOf).map giOf = gs := by
    rw [List.map_map]
    conv => rhs; rw [← List.map_id gs]
    apply List.map_congr_left
    intro g hgm; exact gio_back g (hg g hgm).1
  rw [hb] at h
  exact h

/-- the inner loop of `removeGroupSpans` -/
theorem tr_spansInner {σ : Type} (o : Oracle σ) (wf : o.WF) (i : Nat) :
    ∀ (fuel j G : Nat) (gs : List GI) (hne : gs ≠ []) (s : σ),
      j ≤ (o.view s).rc.groups.length → (o.view s).rc.groups.length + 1 ≤ G + j →
      (∀ g ∈ gs, g ∈ (o.view s).rc.groups ∧ 0 ≤ g.end_) → gs.length ≤ j →
      Agree (fun (t : List Translated.groupInfo × Int64 × Int64) (b : Bool) => t.2.1 = if b then Int64.ofNat i - 1 else Int64.ofNat i)
        (SM.exec o (Translated.shrinker_removeGroupSpans_loop2 fuel (gs.map Translated.groupInfoOf) (Int64.ofNat i) (Int64.ofNat j)) s)
        ((spansInner G gs (gs.getLast hne).end_ j).exec o s) := by
  intro fuel
  induction fuel with
  | zero => intro j G gs hne s _ _ _ _; simp [Translated.shrinker_removeGroupSpans_loop2, Agree]
  | succ fuel ih =>
    intro j G gs hne s hj hG hgs' hlen
    obtain ⟨hd, hgl, hgs⟩ := wf.small s
    have hj62 : j < 2 ^ 62 := by omega
    obtain ⟨G', rfl⟩ : ∃ G', G = G' + 1 := ⟨G - 1, by omega⟩
    rw [Translated.shrinker_removeGroupSpans_loop2, spansInner]
    sm_simp
    rw [lt_glen _ hj62 (by simp; omega)]
    simp only [List.length_map]
    by_cases hlt : j < (o.view s).rc.groups.length
    · simp only [hlt, decide_true]
      have hg? : (o.view s).rc.groups[j]? = some (o.view s).rc.groups[j] := List.getElem?_eq_getElem hlt
      generalize hgdef : (o.view s).rc.groups[j] = h at hg?
      have hhm : h ∈ (o.view s).rc.groups := by rw [← hgdef]; exact List.getElem_mem hlt
      have hhS := hgs h hhm
      have hlastm := hgs' _ (List.getLast_mem hne)
      have hlastS := hgs _ hlastm.1
      sm_simp
      simp only [idx_groups _ hj62, hg?]
      sm_simp
      rw [idx_last _ gs hne (by omega)]
      sm_simp
      have hst : (Translated.groupInfoOf h).standalone = h.standalone := rfl
      rw [hst, gio_end_neg h hhS, gio_begin_lt_end h _ hhS hlastS]
      by_cases hskip : (!h.standalone || decide (h.end_ < 0) || decide ((h.begin : Int) < (gs.getLast hne).end_)) = true
      · have hc : (if (!h.standalone || decide (h.end_ < 0)) = true then (Res.done (Except.ok true) s : Res σ (Except Panic Bool))
            else Res.done (Except.ok (decide ((h.begin : Int) < (gs.getLast hne).end_))) s) = Res.done (Except.ok true) s := by
          by_cases h1 : (!h.standalone || decide (h.end_ < 0)) = true
          · simp [h1]
          · simp only [Bool.not_eq_true] at h1
            rw [h1] at hskip
            simp only [Bool.false_or, decide_eq_true_eq] at hskip
            simp [h1, hskip]
        rw [hc]
        simp only [hskip]
        sm_simp
        rw [i64_ofNat_succ]
        exact ih (j + 1) G' gs hne s (by omega) (by omega) hgs' (by omega)
      · have hskip' := hskip
        simp only [Bool.or_eq_true, not_or, Bool.not_eq_true] at hskip'
        obtain ⟨h1, h2⟩ := hskip'
        have h1' : (!h.standalone || decide (h.end_ < 0)) = false := by
          rcases h1 with ⟨a, b⟩; simp [a, b]
        simp only [h1', h2, Bool.or_false, Bool.false_eq_true, ↓reduceIte]
        sm_simp
        have h0 : 0 ≤ h.end_ := by
          have := h1.2; simp only [decide_eq_false_iff_not] at this; omega
        have hgs'' : ∀ g ∈ gs ++ [h], g ∈ (o.view s).rc.groups ∧ 0 ≤ g.end_ := by
          intro g hg
          simp only [List.mem_append, List.mem_singleton] at hg
          rcases hg with hg | rfl
          · exact hgs' g hg
          · exact ⟨hhm, h0⟩
        have hmap : List.map Translated.groupInfoOf gs ++ [Translated.groupInfoOf h] = List.map Translated.groupInfoOf (gs ++ [h]) := by simp
        rw [hmap]
        rcases without_many (o.view s).rc.data (gs ++ [h]) fuel (by simp; omega)
          (fun g hg => ⟨hgs g (hgs'' g hg).1, (hgs'' g hg).2, wf.ordered s g (hgs'' g hg).1 (hgs'' g hg).2⟩) with hw | hw
        · rw [hw]
          cases hwo : without? (o.view s).rc.data (gs ++ [h]) with
          | none => simp [Agree]
          | some c =>
            sm_simp
            refine Agree.bind_accept o c s ?_
            intro a s' hacc
            cases a
            · sm_simp
              rw [i64_ofNat_succ]
              have hv := wf.reject s c s' hacc
              have hlast : (gs ++ [h]).getLast (by simp) = h := by simp
              have := ih (j + 1) G' (gs ++ [h]) (by simp) s' (by rw [hv]; omega) (by rw [hv]; omega) (by rw [hv]; exact hgs'') (by simp; omega)
              rw [hlast] at this
              exact this
            · sm_simp
              exact Agree.done s' (by simp)
        · rw [hw]; simp [Agree]
    · simp only [hlt, decide_false]
      sm_simp
      exact Agree.done s (by simp)

theorem tr_removeGroupSpans_loop {σ : Type} (o : Oracle σ) (wf : o.WF) :
    ∀ (fuel i : Nat) (s : σ), i < 2 ^ 62 →
      Agree (fun _ _ => True)
        (SM.exec o (Translated.shrinker_removeGroupSpans_loop1 fuel (Int64.ofNat i)) s)
        ((removeGroupSpans fuel i).exec o s) := by
  intro fuel
  induction fuel with
  | zero => intro i s _; simp [Translated.shrinker_removeGroupSpans_loop1, Agree]
  | succ fuel ih =>
    intro i s hi62
    obtain ⟨hd, hgl, hgs⟩ := wf.small s
    rw [Translated.shrinker_removeGroupSpans_loop1, removeGroupSpans]
    sm_simp
    rw [lt_glen _ hi62 (by simp; omega)]
    simp only [List.length_map]
    by_cases hlt : i < (o.view s).rc.groups.length
    · simp only [hlt, decide_true]
      have hg? : (o.view s).rc.groups[i]? = some (o.view s).rc.groups[i] := List.getElem?_eq_getElem hlt
      generalize hgdef : (o.view s).rc.groups[i] = g at hg?
      have hgm : g ∈ (o.view s).rc.groups := by rw [← hgdef]; exact List.getElem_mem hlt
      have hgS := hgs g hgm
      sm_simp
      simp only [idx_groups _ hi62, hg?]
      sm_simp
      have hst : (Translated.groupInfoOf g).standalone = g.standalone := rfl
      rw [hst, gio_end_neg g hgS]
      by_cases hskip : (!g.standalone || decide (g.end_ < 0)) = true
      · simp only [hskip, if_true, i64_ofNat_succ]
        exact ih (i + 1) s (by omega)
      · simp only [hskip, Bool.false_eq_true, if_false]
        have h0 : 0 ≤ g.end_ := by
          simp only [Bool.or_eq_true, Bool.not_eq_true', decide_eq_true_eq, not_or] at hskip
          omega
        sm_simp
        rw [i64_ofNat_succ]
        have hmap : [Translated.groupInfoOf g] = List.map Translated.groupInfoOf [g] := rfl
        rw [hmap]
        have hin := tr_spansInner o wf i fuel (i + 1) ((o.view s).rc.groups.length + 1) [g] (by simp) s (by omega) (by omega)
          (by intro x hx; simp only [List.mem_singleton] at hx; subst hx; exact ⟨hgm, h0⟩) (by simp)
        simp only [List.getLast_singleton] at hin
        refine Agree.bind hin ?_
        intro t b s' htb
        simp only [htb]
        cases b
        · simp only [Bool.false_eq_true, if_false, i64_ofNat_succ]
          exact ih (i + 1) s' (by omega)
        · simp only [if_true, i64_sub_add_one]
          exact ih i s' hi62
    · simp only [hlt, decide_false]
      sm_simp
      exact Agree.done s trivial

end Rapid
