/-
  RapidProofs.PruneLiteral — the loop of the literal `prune()` (`Rec.pruneGo`, i.e. `removeGroup` applied to every discarded
  group in list order) on the group list of a recording laid out from a forest: what it leaves is `Forest.lfin`.
-/
import RapidProofs.Forest

namespace Rapid
open Forest

/-- kept words among the first `k` -/
def kp (m : List Bool) (k : Nat) : Nat := (m.take k).count true

/-- the end of an enclosing group after `prune`: the kept words before it -/
def shEnd (m : List Bool) (o : Nat) (h : GI) : GI :=
  if h.end_ ≤ (o : Int) then h else { h with end_ := ((o + kp m (h.end_.toNat - o) : Nat) : Int) }

theorem kp_zero (m : List Bool) : kp m 0 = 0 := by simp [kp]

theorem kp_cons_true (m : List Bool) (k : Nat) : kp (true :: m) (k + 1) = kp m k + 1 := by simp [kp]

theorem kp_replicate_append (b : Nat) (m : List Bool) (k : Nat) (h : b ≤ k) :
    kp (List.replicate b false ++ m) k = kp m (k - b) := by
  simp only [kp, List.take_append, List.length_replicate, List.count_append]
  rw [List.take_of_length_le (by simp; omega)]
  simp [List.count_replicate]

theorem kp_append_length (m1 m2 : List Bool) : kp (m1 ++ m2) m1.length = m1.count true := by
  simp [kp, List.take_append]

theorem kmask_count (f : Forest) : f.kmask.count true = f.psize := by
  induction f with
  | nil => rfl
  | w u t ih => simp [kmask, ih]
  | grp l s b d t ihb iht => cases d <;> simp [kmask, ihb, iht, List.count_replicate]
  | opn l s t ih => simp [kmask, ih]

theorem takeWhile_all_then_stop {α : Type} (P : α → Bool) (X R : List α) (hX : ∀ x ∈ X, P x = true)
    (hR : ∀ h, R.head? = some h → P h = false) : (X ++ R).takeWhile P = X := by
  induction X with
  | nil =>
    cases R with
    | nil => rfl
    | cons h R' => simp [List.takeWhile_cons, hR h rfl]
  | cons x X ih =>
    simp only [List.cons_append, List.takeWhile_cons, hX x List.mem_cons_self, if_true]
    rw [ih (fun y hy => hX y (List.mem_cons_of_mem _ hy))]

theorem fin_length (f : Forest) : ∀ p q, (f.fin p).length = (f.fin q).length := by
  induction f with
  | nil => intro p q; rfl
  | w u t ih => intro p q; exact ih _ _
  | grp l s b d t ihb iht => intro p q; simp only [fin, List.length_cons, List.length_append]; rw [ihb p q, iht (p + b.size) (q + b.size)]
  | opn l s t ih => intro p q; simp only [fin, List.length_cons]; rw [ih p q]

/-- the element update of `Rec.removeGroup` -/
def shiftG (g h : GI) : GI :=
  { h with begin := if (h.begin : Int) ≥ g.end_ then h.begin - (g.end_.toNat - g.begin) else h.begin,
           end_ := if h.end_ ≥ g.end_ then h.end_ - ((g.end_.toNat - g.begin : Nat) : Int) else h.end_ }

/-- `removeGroup` at a discarded group that heads the rest of the list -/
theorem removeGroup_at (pre : List GI) (dpre : List UInt64) (l : String) (s : Bool) (b t : Forest) (d : Bool) :
    Rec.removeGroup ⟨dpre ++ (b.words ++ t.words),
        pre ++ ⟨l, s, dpre.length, ((dpre.length + b.size : Nat) : Int), d⟩ :: (b.fin dpre.length ++ t.fin (dpre.length + b.size))⟩ pre.length =
      some ⟨dpre ++ t.words,
        pre.map (shiftG ⟨l, s, dpre.length, ((dpre.length + b.size : Nat) : Int), d⟩) ++ (t.strip true).fin dpre.length⟩ := by
  obtain ⟨E, hE, hEle, hhd⟩ := strip_split (dpre.length + b.size) t (dpre.length + b.size) true (fun _ => rfl) (by intro h; cases h)
  have hget : (pre ++ (⟨l, s, dpre.length, ((dpre.length + b.size : Nat) : Int), d⟩ : GI) :: (b.fin dpre.length ++ t.fin (dpre.length + b.size)))[pre.length]? =
      some ⟨l, s, dpre.length, ((dpre.length + b.size : Nat) : Int), d⟩ := by simp
  have hcut : cut? (dpre ++ (b.words ++ t.words)) dpre.length ((dpre.length + b.size : Nat) : Int) = some (dpre ++ t.words) := by
    unfold cut?
    have hc : 0 ≤ ((dpre.length + b.size : Nat) : Int) ∧ dpre.length ≤ ((dpre.length + b.size : Nat) : Int).toNat ∧
        ((dpre.length + b.size : Nat) : Int).toNat ≤ (dpre ++ (b.words ++ t.words)).length := by
      simp [Forest.size]; omega
    rw [if_pos hc]
    simp only [Int.toNat_natCast, Forest.size]
    have h1 : (dpre ++ (b.words ++ t.words)).take dpre.length = dpre := List.take_left' rfl
    have h2 : (dpre ++ (b.words ++ t.words)).drop (dpre.length + b.words.length) = t.words := by
      rw [← List.append_assoc]; exact List.drop_left' (by simp)
    rw [h1, h2]
  unfold Rec.removeGroup
  rw [hget]
  dsimp only
  rw [if_neg (by omega), hcut]
  dsimp only
  have hdrop : (pre ++ (⟨l, s, dpre.length, ((dpre.length + b.size : Nat) : Int), d⟩ : GI) :: (b.fin dpre.length ++ t.fin (dpre.length + b.size))).drop (pre.length + 1) =
      (b.fin dpre.length ++ E) ++ (t.strip true).fin (dpre.length + b.size) := by
    rw [show pre ++ (⟨l, s, dpre.length, ((dpre.length + b.size : Nat) : Int), d⟩ : GI) :: (b.fin dpre.length ++ t.fin (dpre.length + b.size)) =
      (pre ++ [(⟨l, s, dpre.length, ((dpre.length + b.size : Nat) : Int), d⟩ : GI)]) ++ (b.fin dpre.length ++ t.fin (dpre.length + b.size)) by simp]
    rw [List.drop_left' (by simp), hE, List.append_assoc]
  have htw : ((b.fin dpre.length ++ E) ++ (t.strip true).fin (dpre.length + b.size)).takeWhile
      (fun h : GI => decide (h.end_ ≤ ((dpre.length + b.size : Nat) : Int))) = b.fin dpre.length ++ E := by
    apply takeWhile_all_then_stop
    · intro x hx
      rcases List.mem_append.mp hx with hx | hx
      · have := fin_end_le b dpre.length x hx; simpa using this
      · have := hEle x hx; simpa using this
    · intro h hh
      have := hhd h hh
      simp; omega
  rw [hdrop, htw]
  have hgr : (pre ++ (⟨l, s, dpre.length, ((dpre.length + b.size : Nat) : Int), d⟩ : GI) :: (b.fin dpre.length ++ t.fin (dpre.length + b.size))).take pre.length ++
      (pre ++ (⟨l, s, dpre.length, ((dpre.length + b.size : Nat) : Int), d⟩ : GI) :: (b.fin dpre.length ++ t.fin (dpre.length + b.size))).drop
        (pre.length + 1 + (b.fin dpre.length ++ E).length) = pre ++ (t.strip true).fin (dpre.length + b.size) := by
    rw [List.take_left' rfl, ← List.drop_drop, hdrop, List.drop_left' rfl]
  rw [hgr, List.map_append]
  have hsh := fin_shift ⟨l, s, dpre.length, ((dpre.length + b.size : Nat) : Int), d⟩ dpre.length (dpre.length + b.size) rfl rfl (by omega) (t.strip true) 0
  simp only [Nat.add_zero] at hsh
  rw [hsh]
  rfl

/-! ### the groups in front of the rest of the list: finished before it, unfinished, or enclosing a top-level part of it -/

def POK (F : Forest) (o : Nat) (h : GI) : Prop :=
  h.begin ≤ o ∧ (h.end_ ≤ (o : Int) ∨ ∃ k : Nat, h.end_ = ((o + k : Nat) : Int) ∧ F.Bnd k)

theorem shEnd_of_le (m : List Bool) (o : Nat) (h : GI) (hle : h.end_ ≤ (o : Int)) : shEnd m o h = h := by
  unfold shEnd; rw [if_pos hle]

theorem shEnd_at (m : List Bool) (o k : Nat) (h : GI) (hk : h.end_ = ((o + k : Nat) : Int)) :
    shEnd m o h = { h with end_ := ((o + kp m k : Nat) : Int) } := by
  unfold shEnd
  by_cases h0 : k = 0
  · subst h0
    rw [if_pos (by rw [hk]; omega), kp_zero]
    cases h; simp only at hk; subst hk; rfl
  · rw [if_neg (by rw [hk]; omega)]
    have : h.end_.toNat - o = k := by rw [hk]; omega
    rw [this]

theorem shEnd_nil (o : Nat) (h : GI) (hp : POK .nil o h) : shEnd [] o h = h := by
  rcases hp.2 with h1 | ⟨k, hk, hb⟩
  · exact shEnd_of_le _ _ _ h1
  · have : k = 0 := hb
    subst this
    exact shEnd_of_le _ _ _ (by rw [hk]; omega)

theorem pok_w (u : UInt64) (t : Forest) (o : Nat) (h : GI) (hp : POK (.w u t) o h) :
    POK t (o + 1) h ∧ shEnd t.kmask (o + 1) h = shEnd (true :: t.kmask) o h := by
  obtain ⟨hb, he⟩ := hp
  rcases he with h1 | ⟨k, hk, hbnd⟩
  · refine ⟨⟨by omega, Or.inl (by omega)⟩, ?_⟩
    rw [shEnd_of_le _ _ _ h1, shEnd_of_le _ _ _ (by omega)]
  · rcases hbnd with h0 | ⟨h1, hbt⟩
    · subst h0
      have hle : h.end_ ≤ (o : Int) := by rw [hk]; omega
      refine ⟨⟨by omega, Or.inl (by omega)⟩, ?_⟩
      rw [shEnd_of_le _ _ _ hle, shEnd_of_le _ _ _ (by omega)]
    · obtain ⟨j, rfl⟩ : ∃ j, k = j + 1 := ⟨k - 1, by omega⟩
      have hk' : h.end_ = ((o + 1 + j : Nat) : Int) := by rw [hk]; omega
      refine ⟨⟨by omega, Or.inr ⟨j, hk', by simpa using hbt⟩⟩, ?_⟩
      rw [shEnd_at _ _ _ _ hk', shEnd_at _ _ _ _ hk, kp_cons_true]
      congr 1; omega

theorem pok_keep (l : String) (s : Bool) (b t : Forest) (o : Nat) (h : GI) (hp : POK (.grp l s b false t) o h) :
    POK (b.app t) o h := by
  obtain ⟨hb, he⟩ := hp
  refine ⟨hb, ?_⟩
  rcases he with h1 | ⟨k, hk, hbnd⟩
  · exact Or.inl h1
  · rcases hbnd with h0 | ⟨h1, hbt⟩
    · exact Or.inr ⟨k, hk, by rw [h0]; exact bnd_zero _⟩
    · refine Or.inr ⟨k, hk, ?_⟩
      have := bnd_app b t (k - b.size) hbt
      rwa [show b.size + (k - b.size) = k by omega] at this

theorem pok_self (l : String) (s : Bool) (b t : Forest) (o : Nat) :
    POK (b.app t) o ⟨l, s, o, ((o + b.size : Nat) : Int), false⟩ :=
  ⟨Nat.le_refl _, Or.inr ⟨b.size, rfl, by have := bnd_app b t 0 (bnd_zero t); simpa using this⟩⟩

theorem shiftG_begin (l : String) (s : Bool) (bs : Nat) (d : Bool) (o : Nat) (h : GI) (hb : h.begin ≤ o) :
    (shiftG ⟨l, s, o, ((o + bs : Nat) : Int), d⟩ h).begin = h.begin := by
  simp only [shiftG, Int.toNat_natCast]
  split
  · rename_i hc
    have : bs = 0 := by omega
    simp [this]
  · rfl

theorem shiftG_end_lt (l : String) (s : Bool) (bs : Nat) (d : Bool) (o : Nat) (h : GI) (hlt : h.end_ < ((o + bs : Nat) : Int)) :
    (shiftG ⟨l, s, o, ((o + bs : Nat) : Int), d⟩ h).end_ = h.end_ := by
  simp only [shiftG]
  rw [if_neg (by omega)]

theorem shiftG_end_ge (l : String) (s : Bool) (bs : Nat) (d : Bool) (o : Nat) (h : GI) (hge : h.end_ ≥ ((o + bs : Nat) : Int)) :
    (shiftG ⟨l, s, o, ((o + bs : Nat) : Int), d⟩ h).end_ = h.end_ - (bs : Int) := by
  simp only [shiftG, Int.toNat_natCast]
  rw [if_pos hge]; omega

theorem gi_ext (a b : GI) (h1 : a.label = b.label) (h2 : a.standalone = b.standalone) (h3 : a.begin = b.begin)
    (h4 : a.end_ = b.end_) (h5 : a.discard = b.discard) : a = b := by
  cases a; cases b; simp only at h1 h2 h3 h4 h5; subst h1 h2 h3 h4 h5; rfl

theorem pok_disc (l : String) (s : Bool) (b t : Forest) (d : Bool) (o : Nat) (h : GI) (hp : POK (.grp l s b true t) o h) :
    POK (t.strip true) o (shiftG ⟨l, s, o, ((o + b.size : Nat) : Int), d⟩ h) ∧
      shEnd t.kmask o (shiftG ⟨l, s, o, ((o + b.size : Nat) : Int), d⟩ h) = shEnd (List.replicate b.size false ++ t.kmask) o h := by
  obtain ⟨hb, he⟩ := hp
  have hbeg := shiftG_begin l s b.size d o h hb
  -- a group that ends at or before `o` (or is unfinished) is not touched
  have untouched : h.end_ ≤ (o : Int) → shiftG ⟨l, s, o, ((o + b.size : Nat) : Int), d⟩ h = h := by
    intro hle
    refine gi_ext (shiftG ⟨l, s, o, ((o + b.size : Nat) : Int), d⟩ h) h rfl rfl hbeg ?_ rfl
    by_cases hc : h.end_ ≥ ((o + b.size : Nat) : Int)
    · rw [shiftG_end_ge _ _ _ _ _ _ hc]; omega
    · exact shiftG_end_lt _ _ _ _ _ _ (by omega)
  rcases he with h1 | ⟨k, hk, hbnd⟩
  · rw [untouched h1]
    exact ⟨⟨hb, Or.inl h1⟩, by rw [shEnd_of_le _ _ _ h1, shEnd_of_le _ _ _ h1]⟩
  · rcases hbnd with h0 | ⟨h1, hbt⟩
    · subst h0
      have hle : h.end_ ≤ (o : Int) := by rw [hk]; omega
      rw [untouched hle]
      exact ⟨⟨hb, Or.inl hle⟩, by rw [shEnd_of_le _ _ _ hle, shEnd_of_le _ _ _ hle]⟩
    · have hend : (shiftG ⟨l, s, o, ((o + b.size : Nat) : Int), d⟩ h).end_ = ((o + (k - b.size) : Nat) : Int) := by
        rw [shiftG_end_ge _ _ _ _ _ _ (by rw [hk]; omega), hk]; omega
      refine ⟨⟨by rw [hbeg]; exact hb, Or.inr ⟨k - b.size, hend, bnd_strip t true _ hbt⟩⟩, ?_⟩
      rw [shEnd_at _ _ _ _ hend, shEnd_at _ _ _ _ hk, kp_replicate_append _ _ _ h1]
      exact gi_ext { shiftG ⟨l, s, o, ((o + b.size : Nat) : Int), d⟩ h with end_ := ((o + kp t.kmask (k - b.size) : Nat) : Int) }
        { h with end_ := ((o + kp t.kmask (k - b.size) : Nat) : Int) } rfl rfl hbeg rfl rfl

/-! ### the loop of `prune()` over the rest of the group list -/

theorem map_congr_mem {α β : Type} (l : List α) (f g : α → β) (h : ∀ x ∈ l, f x = g x) : l.map f = l.map g :=
  List.map_congr_left h

/-- **the literal `prune` loop on a laid-out forest**: started at the first group of the rest, it ends with the data
    that survives and the list `lfin` describes; the groups in front only have their ends moved -/
theorem pruneGo_forest : ∀ (n : Nat) (F : Forest), F.nodes ≤ n → F.WFne → ∀ (pre : List GI) (dpre : List UInt64) (fuel : Nat),
    (∀ h ∈ pre, POK F dpre.length h) → (F.fin dpre.length).length < fuel →
    Rec.pruneGo fuel pre.length ⟨dpre ++ F.words, pre ++ F.fin dpre.length⟩ =
      some ⟨dpre ++ F.pwords, pre.map (shEnd F.kmask dpre.length) ++ F.lfin dpre.length .off⟩ := by
  intro n
  induction n with
  | zero =>
    intro F hn _ pre dpre fuel hpre hf
    cases F with
    | nil =>
      obtain ⟨f, rfl⟩ : ∃ f, fuel = f + 1 := ⟨fuel - 1, by omega⟩
      simp only [Forest.fin, Forest.words, Forest.pwords, Forest.lfin, Forest.kmask, List.append_nil]
      unfold Rec.pruneGo
      simp only [List.getElem?_eq_none (Nat.le_refl _)]
      rw [map_congr_mem pre _ id (fun h hh => shEnd_nil _ h (hpre h hh))]
      simp
    | w u t => simp [Forest.nodes] at hn
    | grp l s b d t => simp [Forest.nodes] at hn
    | opn l s t => simp [Forest.nodes] at hn
  | succ n ih =>
    intro F hn hwf pre dpre fuel hpre hf
    cases F with
    | nil =>
      obtain ⟨f, rfl⟩ : ∃ f, fuel = f + 1 := ⟨fuel - 1, by omega⟩
      simp only [Forest.fin, Forest.words, Forest.pwords, Forest.lfin, Forest.kmask, List.append_nil]
      unfold Rec.pruneGo
      simp only [List.getElem?_eq_none (Nat.le_refl _)]
      rw [map_congr_mem pre _ id (fun h hh => shEnd_nil _ h (hpre h hh))]
      simp
    | w u t =>
      have hn' : t.nodes ≤ n := by simp only [Forest.nodes] at hn; omega
      have hlen : (dpre ++ [u]).length = dpre.length + 1 := by simp
      have := ih t hn' hwf pre (dpre ++ [u]) fuel (by rw [hlen]; exact fun h hh => (pok_w u t _ h (hpre h hh)).1)
        (by rw [hlen]; exact hf)
      rw [hlen] at this
      simp only [Forest.fin, Forest.words, Forest.pwords, Forest.lfin, Forest.kmask, Mode.word]
      rw [show dpre ++ u :: t.words = dpre ++ [u] ++ t.words by simp, this,
        map_congr_mem pre _ _ (fun h hh => (pok_w u t _ h (hpre h hh)).2)]
      simp
    | opn l s t =>
      have hn' : t.nodes ≤ n := by simp only [Forest.nodes] at hn; omega
      obtain ⟨f, rfl⟩ : ∃ f, fuel = f + 1 := ⟨fuel - 1, by omega⟩
      have hg0 : POK t dpre.length ⟨l, s, dpre.length, -1, false⟩ := ⟨Nat.le_refl _, Or.inl (by simp only; omega)⟩
      have := ih t hn' hwf (pre ++ [⟨l, s, dpre.length, -1, false⟩]) dpre f
        (by
          intro h hh
          rcases List.mem_append.mp hh with hh | hh
          · exact hpre h hh
          · simp only [List.mem_singleton] at hh; subst hh; exact hg0)
        (by simp only [Forest.fin, List.length_cons] at hf; omega)
      simp only [Forest.fin, Forest.words, Forest.pwords, Forest.lfin, Forest.kmask, if_true]
      unfold Rec.pruneGo
      have hget : (pre ++ (⟨l, s, dpre.length, -1, false⟩ : GI) :: t.fin dpre.length)[pre.length]? = some ⟨l, s, dpre.length, -1, false⟩ := by simp
      simp only [hget, Bool.false_eq_true, if_false]
      rw [show pre ++ (⟨l, s, dpre.length, -1, false⟩ : GI) :: t.fin dpre.length = (pre ++ [⟨l, s, dpre.length, -1, false⟩]) ++ t.fin dpre.length by simp]
      rw [show pre.length + 1 = (pre ++ [(⟨l, s, dpre.length, -1, false⟩ : GI)]).length by simp, this]
      simp only [List.map_append, List.map_cons, List.map_nil, shEnd_of_le _ _ _ (show (⟨l, s, dpre.length, -1, false⟩ : GI).end_ ≤ (dpre.length : Int) by simp only; omega)]
      simp
    | grp l s b d t =>
      obtain ⟨f, rfl⟩ : ∃ f, fuel = f + 1 := ⟨fuel - 1, by omega⟩
      have hnb : b.nodes + t.nodes ≤ n := by simp only [Forest.nodes] at hn; omega
      cases d with
      | false =>
        have hbpos : 0 < b.size := hwf.2.2 rfl
        have := ih (b.app t) (by rw [nodes_app]; exact hnb) (wfne_app b t hwf.1 hwf.2.1)
          (pre ++ [⟨l, s, dpre.length, ((dpre.length + b.size : Nat) : Int), false⟩]) dpre f
          (by
            intro h hh
            rcases List.mem_append.mp hh with hh | hh
            · exact pok_keep l s b t _ h (hpre h hh)
            · simp only [List.mem_singleton] at hh; subst hh; exact pok_self l s b t _)
          (by rw [fin_app]; simp only [Forest.fin, List.length_cons, List.length_append] at hf ⊢; omega)
        simp only [Forest.fin, Forest.words, Forest.pwords, Forest.lfin, Forest.kmask, Bool.false_eq_true, if_false]
        unfold Rec.pruneGo
        have hget : (pre ++ (⟨l, s, dpre.length, ((dpre.length + b.size : Nat) : Int), false⟩ : GI) ::
            (b.fin dpre.length ++ t.fin (dpre.length + b.size)))[pre.length]? = some ⟨l, s, dpre.length, ((dpre.length + b.size : Nat) : Int), false⟩ := by simp
        simp only [hget, Bool.false_eq_true, if_false]
        rw [fin_app, words_app, pwords_app, kmask_app, lfin_app] at this
        rw [show pre ++ (⟨l, s, dpre.length, ((dpre.length + b.size : Nat) : Int), false⟩ : GI) :: (b.fin dpre.length ++ t.fin (dpre.length + b.size)) =
          (pre ++ [⟨l, s, dpre.length, ((dpre.length + b.size : Nat) : Int), false⟩]) ++ (b.fin dpre.length ++ t.fin (dpre.length + b.size)) by simp]
        rw [show pre.length + 1 = (pre ++ [(⟨l, s, dpre.length, ((dpre.length + b.size : Nat) : Int), false⟩ : GI)]).length by simp, this]
        have hself : shEnd (b.kmask ++ t.kmask) dpre.length ⟨l, s, dpre.length, ((dpre.length + b.size : Nat) : Int), false⟩ =
            ⟨l, s, dpre.length, ((dpre.length + b.psize : Nat) : Int), false⟩ := by
          rw [shEnd_at _ _ b.size _ rfl]
          have : kp (b.kmask ++ t.kmask) b.size = b.psize := by
            rw [← kmask_length b, kp_append_length, kmask_count]
          rw [this]
        have hmode : ¬ (Mode.off = Mode.atB ∧ b.size = 0) := by intro h; cases h.1
        simp only [List.map_append, List.map_cons, List.map_nil, hself, hmode, if_false]
        simp
      | true =>
        have hrm := removeGroup_at pre dpre l s b t true
        have hpre' : ∀ h ∈ pre.map (shiftG ⟨l, s, dpre.length, ((dpre.length + b.size : Nat) : Int), true⟩), POK (t.strip true) dpre.length h := by
          intro h hh
          obtain ⟨h0, hh0, rfl⟩ := List.mem_map.mp hh
          exact (pok_disc l s b t true _ h0 (hpre h0 hh0)).1
        have hlenfin : ((t.strip true).fin dpre.length).length < f := by
          obtain ⟨E, hE, _, _⟩ := strip_split (dpre.length + b.size) t (dpre.length + b.size) true (fun _ => rfl) (by intro h; cases h)
          have h1 : (t.fin (dpre.length + b.size)).length = E.length + ((t.strip true).fin (dpre.length + b.size)).length := by
            rw [hE]; simp
          rw [fin_length (t.strip true) dpre.length (dpre.length + b.size)]
          simp only [Forest.fin, List.length_cons, List.length_append] at hf
          omega
        have := ih (t.strip true) (by have := nodes_strip_le t true; omega) (wfne_strip t true hwf.2.1)
          (pre.map (shiftG ⟨l, s, dpre.length, ((dpre.length + b.size : Nat) : Int), true⟩)) dpre f hpre' hlenfin
        simp only [Forest.fin, Forest.words, Forest.pwords, Forest.lfin, Forest.kmask, if_true]
        unfold Rec.pruneGo
        have hget : (pre ++ (⟨l, s, dpre.length, ((dpre.length + b.size : Nat) : Int), true⟩ : GI) ::
            (b.fin dpre.length ++ t.fin (dpre.length + b.size)))[pre.length]? = some ⟨l, s, dpre.length, ((dpre.length + b.size : Nat) : Int), true⟩ := by simp
        simp only [hget, if_true]
        rw [hrm]
        simp only [Option.bind_some]
        rw [← words_strip t true]
        rw [show pre.length = (pre.map (shiftG ⟨l, s, dpre.length, ((dpre.length + b.size : Nat) : Int), true⟩)).length by simp, this]
        rw [pwords_strip, kmask_strip, lfin_strip, List.map_map,
          map_congr_mem pre (shEnd t.kmask dpre.length ∘ shiftG ⟨l, s, dpre.length, ((dpre.length + b.size : Nat) : Int), true⟩)
            (shEnd (List.replicate b.size false ++ t.kmask) dpre.length)
            (fun h hh => (pok_disc l s b t true _ h (hpre h hh)).2)]
        have hmode : ¬ (Mode.off = Mode.atB ∧ b.size = 0) := by intro h; cases h.1
        simp [Mode.ofBool, hmode]

end Rapid
