/-
  RapidProofs.TranslatedMinSEq — `minimize` and the `minimizer` of shrink.go with a callback that talks to the shrinker
  (the translation in `Go.SM`: `minimizeS`, `minimizer_*S`) agree with the model's `minimizeS` family (RapidModel/Passes.lean)
  against every shrinker, for callbacks that agree; `minimizeBlocks` of the source agrees with the model's pass; the round
  loop of `shrinker.shrink` therefore agrees with `shrinkScript` without further hypotheses (`tr_shrink`).
-/
import RapidProofs.TranslatedPassEq

namespace Rapid
open Rapid.Go

/-- the callback of the translated `minimize` and the model's, run against the same shrinker -/
def CondAgree {σ : Type} (o : Oracle σ) (cT : UInt64 → String → SM Bool) (cM : UInt64 → Script Bool) : Prop :=
  ∀ u l s, Agree (fun (a b : Bool) => a = b) (SM.exec o (cT u l) s) ((cM u).exec o s)

/-- what `minimizer.accept` leaves: the answer, the new best, and what they say about each other -/
def AccR (best u : UInt64) (t : Bool × UInt64) (m : UInt64 × Bool) : Prop :=
  t.1 = m.2 ∧ t.2 = m.1 ∧ (m.2 = true → m.1 = u ∧ u < best ∧ ¬ u < small) ∧ (m.2 = false → m.1 = best)

theorem tr_acceptS {σ : Type} (o : Oracle σ) {cT : UInt64 → String → SM Bool} {cM : UInt64 → Script Bool} (hc : CondAgree o cT cM)
    (best u : UInt64) (l : String) (s : σ) :
    Agree (AccR best u) (SM.exec o (Translated.minimizer_acceptS best cT u l) s) ((mAccept cM best u).exec o s) := by
  unfold Translated.minimizer_acceptS mAccept
  sm_simp
  by_cases h1 : u ≥ best ∨ u < small
  · have hd : (decide (u ≥ best) || decide (u < 5)) = true := by
      rcases h1 with h | h
      · simp [h]
      · have : u < 5 := h
        simp [this]
    simp only [hd, h1, if_true]
    sm_simp
    exact Agree.done s ⟨rfl, rfl, by simp, by simp⟩
  · have hd : (decide (u ≥ best) || decide (u < 5)) = false := by
      simp only [not_or] at h1
      have h2 : ¬ u < 5 := h1.2
      simp [h1.1, h2]
    simp only [hd, h1, if_false]
    sm_simp
    simp only [Res.bindE_assoc]
    refine Agree.bind (hc u l s) ?_
    intro a b s' hab
    subst hab
    simp only [not_or] at h1
    have hlt : u < best := by
      have := h1.1; rw [ge_iff_le, UInt64.le_iff_toNat_le] at this; rw [UInt64.lt_iff_toNat_lt]; omega
    cases a
    · sm_simp
      simp only [Bool.not_false, if_true]
      sm_simp
      exact Agree.done s' ⟨rfl, rfl, by simp, by simp⟩
    · sm_simp
      simp only [Bool.not_true, Bool.false_eq_true, if_false]
      sm_simp
      exact Agree.done s' ⟨rfl, rfl, fun _ => ⟨rfl, hlt, h1.2⟩, by simp⟩

theorem tr_rShiftS_loop {σ : Type} (o : Oracle σ) {cT : UInt64 → String → SM Bool} {cM : UInt64 → Script Bool} (hc : CondAgree o cT cM) :
    ∀ (fuel n : Nat) (best : UInt64) (s : σ), len64 best ≤ n →
      Agree (fun (a b : UInt64) => a = b)
        (SM.exec o (Translated.minimizer_rShiftS_loop1 cT fuel best) s) ((rShiftS cM n best).exec o s) := by
  intro fuel
  induction fuel with
  | zero => intro n best s _; simp [Translated.minimizer_rShiftS_loop1, Agree]
  | succ fuel ih =>
    intro n best s hn
    rw [Translated.minimizer_rShiftS_loop1, go_shr64_one]
    sm_simp
    cases n with
    | zero =>
      have hb : best = 0 := len64_eq_zero (by omega)
      subst hb
      have h0 : ((0 : UInt64) >>> 1) = 0 := by decide
      rw [h0]
      simp only [rShiftS]
      sm_simp
      have hacc := tr_acceptS o hc 0 0 "minblock_shift" s
      unfold mAccept at hacc
      simp only [ge_iff_le, UInt64.le_refl, true_or, if_true, Script.exec_pure] at hacc
      have key := Agree.bind (R' := fun (a b : UInt64) => a = b) hacc
        (ft := fun a s' => SM.exec o (if a.fst = true then Translated.minimizer_rShiftS_loop1 cT fuel a.snd else pure a.snd) s')
        (fm := fun m s' => Res.done m.1 s') (by
          intro t m s' h
          obtain ⟨h1, h2, h3, h4⟩ := h
          have hm2 : m.2 = false := by
            cases hm : m.2 with
            | false => rfl
            | true =>
              have := (h3 hm).2.1
              rw [UInt64.lt_iff_toNat_lt] at this; simp at this
          rw [hm2] at h1
          simp only [h1, Bool.false_eq_true, if_false]
          sm_simp
          exact Agree.done s' h2)
      simpa using key
    | succ n =>
      simp only [rShiftS]
      sm_simp
      refine Agree.bind (tr_acceptS o hc best (best >>> 1) "minblock_shift" s) ?_
      intro t m s' h
      obtain ⟨h1, h2, h3, h4⟩ := h
      obtain ⟨m1, m2⟩ := m
      obtain ⟨t1, t2⟩ := t
      simp only at h1 h2 h3 h4
      subst h1 h2
      cases t1 with
      | false =>
        sm_simp
        exact Agree.done s' rfl
      | true =>
        obtain ⟨e1, e2, _⟩ := h3 rfl
        subst e1
        sm_simp
        have hb0 : best ≠ 0 := by
          intro h; subst h; rw [UInt64.lt_iff_toNat_lt] at e2; simp at e2
        have hlen : len64 (best >>> 1) ≤ n := by
          have := len64_shr1 hb0; omega
        exact ih n _ s' hlen

theorem tr_rShiftS {σ : Type} (o : Oracle σ) {cT : UInt64 → String → SM Bool} {cM : UInt64 → Script Bool} (hc : CondAgree o cT cM)
    (fuel : Nat) (best : UInt64) (s : σ) :
    Agree (fun (a b : UInt64) => a = b) (SM.exec o (Translated.minimizer_rShiftS best cT fuel) s) ((rShiftS cM 64 best).exec o s) := by
  unfold Translated.minimizer_rShiftS
  sm_simp
  have := Agree.bind (R' := fun (a b : UInt64) => a = b) (tr_rShiftS_loop o hc fuel 64 best s (len64_le_64 best))
    (ft := fun a s' => Res.done (.ok a) s') (fm := fun b s' => Res.done b s') (fun a b s' h => Agree.done s' h)
  have e : ∀ r : Res σ UInt64, (r.bind fun b s' => Res.done b s') = r := by intro r; cases r <;> rfl
  rw [e] at this
  exact this

theorem tr_unsetBitsS_loop {σ : Type} (o : Oracle σ) {cT : UInt64 → String → SM Bool} {cM : UInt64 → Script Bool} (hc : CondAgree o cT cM) :
    ∀ (fuel n : Nat) (best : UInt64) (s : σ), n ≤ 64 →
      Agree (fun (t : Int64 × UInt64) (b : UInt64) => t.2 = b)
        (SM.exec o (Translated.minimizer_unsetBitsS_loop1 cT fuel (Int64.ofNat n - 1) best) s) ((unsetBitsS cM n best).exec o s) := by
  intro fuel
  induction fuel with
  | zero => intro n best s _; simp [Translated.minimizer_unsetBitsS_loop1, Agree]
  | succ fuel ih =>
    intro n best s hn
    cases n with
    | zero =>
      rw [Translated.minimizer_unsetBitsS_loop1, i64_ofNat_zero_sub_one_neg]
      simp only [unsetBitsS]
      sm_simp
      exact Agree.done s rfl
    | succ n =>
      have hge : decide (Int64.ofNat n ≥ (0 : Int64)) = true := i64_ofNat_nonneg (by omega)
      rw [Translated.minimizer_unsetBitsS_loop1, i64_ofNat_succ_sub_one, hge, go_shl64_ofNat _ (show n < 64 by omega)]
      simp only [unsetBitsS]
      sm_simp
      refine Agree.bind (tr_acceptS o hc best _ "minblock_unset" s) ?_
      intro t m s' h
      obtain ⟨_, h2, _, _⟩ := h
      rw [h2]
      exact ih n _ s' (by omega)

theorem go_len64_eq (b : UInt64) : Go.len64 b = Int64.ofNat (len64 b) := rfl

theorem tr_unsetBitsS {σ : Type} (o : Oracle σ) {cT : UInt64 → String → SM Bool} {cM : UInt64 → Script Bool} (hc : CondAgree o cT cM)
    (fuel : Nat) (best : UInt64) (s : σ) :
    Agree (fun (a b : UInt64) => a = b) (SM.exec o (Translated.minimizer_unsetBitsS best cT fuel) s)
      ((unsetBitsS cM (len64 best) best).exec o s) := by
  unfold Translated.minimizer_unsetBitsS
  sm_simp
  rw [go_len64_eq]
  have := Agree.bind (R' := fun (a b : UInt64) => a = b) (tr_unsetBitsS_loop o hc fuel (len64 best) best s (len64_le_64 best))
    (ft := fun a s' => Res.done (.ok a.2) s') (fm := fun b s' => Res.done b s') (fun a b s' h => Agree.done s' h)
  have e : ∀ r : Res σ UInt64, (r.bind fun b s' => Res.done b s') = r := by intro r; cases r <;> rfl
  rw [e] at this
  exact this

theorem Res.bind_id {σ α : Type} (r : Res σ α) : (r.bind fun b s' => Res.done b s') = r := by cases r <;> rfl

theorem tr_sortInnerS {σ : Type} (o : Oracle σ) {cT : UInt64 → String → SM Bool} {cM : UInt64 → Script Bool} (hc : CondAgree o cT cM)
    (i : Nat) (h : UInt64) (hi : i ≤ 64) :
    ∀ (fuel n j : Nat) (best : UInt64) (s : σ), j ≤ i → i - j ≤ n →
      Agree (fun (t : Int64 × UInt64) (b : UInt64) => t.2 = b)
        (SM.exec o (Translated.minimizer_sortBitsS_loop2 h (Int64.ofNat i) cT fuel (Int64.ofNat j) best) s)
        ((sortInnerS cM i h n j best).exec o s) := by
  intro fuel
  induction fuel with
  | zero => intro n j best s _ _; simp [Translated.minimizer_sortBitsS_loop2, Agree]
  | succ fuel ih =>
    intro n j best s hji hn
    rw [Translated.minimizer_sortBitsS_loop2, i64_lt_ofNat (by omega) i (by omega)]
    by_cases hjlt : j < i
    · obtain ⟨n', rfl⟩ : ∃ n', n = n' + 1 := ⟨n - 1, by omega⟩
      simp only [hjlt, decide_true, if_true, go_shl64_ofNat _ (show j < 64 by omega), sortInnerS, i64_ofNat_add_one]
      by_cases hz : (best &&& (1 : UInt64) <<< j.toUInt64) == 0
      · simp only [hz, if_true]
        sm_simp
        refine Agree.bind (tr_acceptS o hc best _ "minblock_sort" s) ?_
        intro t m s' hr
        obtain ⟨h1, h2, _, _⟩ := hr
        obtain ⟨m1, m2⟩ := m
        obtain ⟨t1, t2⟩ := t
        simp only at h1 h2
        subst h1 h2
        cases t1 with
        | true => sm_simp; exact Agree.done s' rfl
        | false => sm_simp; exact ih n' (j + 1) _ s' (by omega) (by omega)
      · simp only [hz, Bool.false_eq_true, if_false]
        exact ih n' (j + 1) best s (by omega) (by omega)
    · simp only [hjlt, decide_false, Bool.false_eq_true, if_false]
      sm_simp
      cases n with
      | zero => simp only [sortInnerS]; sm_simp; exact Agree.done s rfl
      | succ n' => simp only [sortInnerS, hjlt, if_false]; sm_simp; exact Agree.done s rfl

theorem tr_sortBitsS_loop {σ : Type} (o : Oracle σ) {cT : UInt64 → String → SM Bool} {cM : UInt64 → Script Bool} (hc : CondAgree o cT cM) :
    ∀ (fuel n : Nat) (best : UInt64) (s : σ), n ≤ 64 →
      Agree (fun (t : Int64 × UInt64) (b : UInt64) => t.2 = b)
        (SM.exec o (Translated.minimizer_sortBitsS_loop1 cT fuel (Int64.ofNat n - 1) best) s) ((sortBitsS cM n best).exec o s) := by
  intro fuel
  induction fuel with
  | zero => intro n best s _; simp [Translated.minimizer_sortBitsS_loop1, Agree]
  | succ fuel ih =>
    intro n best s hn
    cases n with
    | zero =>
      rw [Translated.minimizer_sortBitsS_loop1, i64_ofNat_zero_sub_one_neg]
      simp only [sortBitsS]
      sm_simp
      exact Agree.done s rfl
    | succ n =>
      have hge : decide (Int64.ofNat n ≥ (0 : Int64)) = true := i64_ofNat_nonneg (by omega)
      rw [Translated.minimizer_sortBitsS_loop1, i64_ofNat_succ_sub_one, hge, go_shl64_ofNat _ (show n < 64 by omega)]
      simp only [sortBitsS]
      sm_simp
      by_cases hb : (best &&& (1 : UInt64) <<< n.toUInt64) != 0
      · simp only [hb, if_true]
        sm_simp
        simp only [Res.bindE_assoc]
        rw [i64_zero_ofNat]
        refine Agree.bind (tr_sortInnerS o hc n _ (by omega) fuel n 0 best s (by omega) (by omega)) ?_
        intro t b s' htb
        sm_simp
        rw [htb]
        exact ih n b s' (by omega)
      · simp only [hb, Bool.false_eq_true, if_false]
        sm_simp
        exact ih n best s (by omega)

theorem tr_sortBitsS {σ : Type} (o : Oracle σ) {cT : UInt64 → String → SM Bool} {cM : UInt64 → Script Bool} (hc : CondAgree o cT cM)
    (fuel : Nat) (best : UInt64) (s : σ) :
    Agree (fun (a b : UInt64) => a = b) (SM.exec o (Translated.minimizer_sortBitsS best cT fuel) s)
      ((sortBitsS cM (len64 best) best).exec o s) := by
  unfold Translated.minimizer_sortBitsS
  sm_simp
  rw [go_len64_eq]
  have := Agree.bind (R' := fun (a b : UInt64) => a = b) (tr_sortBitsS_loop o hc fuel (len64 best) best s (len64_le_64 best))
    (ft := fun a s' => Res.done (.ok a.2) s') (fm := fun b s' => Res.done b s') (fun a b s' h => Agree.done s' h)
  rw [Res.bind_id] at this
  exact this

theorem tr_binLoopS {σ : Type} (o : Oracle σ) {cT : UInt64 → String → SM Bool} {cM : UInt64 → Script Bool} (hc : CondAgree o cT cM) :
    ∀ (fuel k : Nat) (i j best : UInt64) (s : σ), i ≤ j → (j - i).toNat < 2 ^ k →
      Agree (fun (t : UInt64 × UInt64 × UInt64) (b : UInt64) => t.2.2 = b)
        (SM.exec o (Translated.minimizer_binSearchS_loop1 cT fuel i j best) s) ((binLoopS cM (k + 1) i j best).exec o s) := by
  intro fuel
  induction fuel with
  | zero => intro k i j best s _ _; simp [Translated.minimizer_binSearchS_loop1, Agree]
  | succ fuel ih =>
    intro k i j best s hij hd
    have hsub : (j - i).toNat = j.toNat - i.toNat := UInt64.toNat_sub_of_le _ _ hij
    have hij' := UInt64.le_iff_toNat_le.mp hij
    rw [Translated.minimizer_binSearchS_loop1]
    simp only [binLoopS]
    by_cases hlt : i < j
    · have hlt' := UInt64.lt_iff_toNat_lt.mp hlt
      have hjlt := j.toNat_lt
      have hdiv : ((j - i) / 2).toNat = (j.toNat - i.toNat) / 2 := by
        rw [UInt64.toNat_div, hsub]; rfl
      have hh : (i + (j - i) / 2).toNat = i.toNat + (j.toNat - i.toNat) / 2 := by
        rw [UInt64.toNat_add, hdiv]; apply Nat.mod_eq_of_lt; omega
      have hih : i ≤ i + (j - i) / 2 := by rw [UInt64.le_iff_toNat_le, hh]; omega
      have hh1 : (i + (j - i) / 2 + 1).toNat = i.toNat + (j.toNat - i.toNat) / 2 + 1 := by
        rw [UInt64.toNat_add, hh]; simp only [UInt64.toNat_one]; apply Nat.mod_eq_of_lt; omega
      have hh1j : i + (j - i) / 2 + 1 ≤ j := by rw [UInt64.le_iff_toNat_le, hh1]; omega
      cases k with
      | zero => simp at hd; omega
      | succ k =>
        have hp : 2 ^ (k + 1) = 2 * 2 ^ k := by rw [Nat.pow_succ]; omega
        simp only [hlt, decide_true, if_true]
        sm_simp
        simp only [Res.bindE_assoc]
        refine Agree.bind (tr_acceptS o hc best _ "minblock_binsearch" s) ?_
        intro t m s' hr
        obtain ⟨h1, h2, _, _⟩ := hr
        obtain ⟨m1, m2⟩ := m
        obtain ⟨t1, t2⟩ := t
        simp only at h1 h2
        subst h1 h2
        cases t1 with
        | true =>
          sm_simp
          have hd' : (i + (j - i) / 2 - i).toNat < 2 ^ k := by
            rw [UInt64.toNat_sub_of_le _ _ hih, hh]; omega
          exact ih k i _ _ s' hih hd'
        | false =>
          sm_simp
          have hd' : (j - (i + (j - i) / 2 + 1)).toNat < 2 ^ k := by
            rw [UInt64.toNat_sub_of_le _ _ hh1j, hh1]; omega
          exact ih k _ j _ s' hh1j hd'
    · simp only [hlt, decide_false, Bool.false_eq_true, if_false]
      sm_simp
      exact Agree.done s rfl

theorem tr_binSearchS {σ : Type} (o : Oracle σ) {cT : UInt64 → String → SM Bool} {cM : UInt64 → Script Bool} (hc : CondAgree o cT cM)
    (fuel : Nat) (best : UInt64) (s : σ) :
    Agree (fun (a b : UInt64) => a = b) (SM.exec o (Translated.minimizer_binSearchS best cT fuel) s) ((binSearchS cM best).exec o s) := by
  unfold Translated.minimizer_binSearchS binSearchS
  sm_simp
  refine Agree.bind (tr_acceptS o hc best _ "minblock_binsearch" s) ?_
  intro t m s' hr
  obtain ⟨h1, h2, _, _⟩ := hr
  obtain ⟨m1, m2⟩ := m
  obtain ⟨t1, t2⟩ := t
  simp only at h1 h2
  subst h1 h2
  cases t1 with
  | false => sm_simp; simp only [Bool.not_false, if_true]; sm_simp; exact Agree.done s' rfl
  | true =>
    sm_simp
    simp only [Bool.not_true, Bool.false_eq_true, if_false]
    sm_simp
    have hz : (0 : UInt64) ≤ t2 := by rw [UInt64.le_iff_toNat_le]; simp
    have hd : (t2 - 0).toNat < 2 ^ 64 := UInt64.toNat_lt _
    have := Agree.bind (R' := fun (a b : UInt64) => a = b) (tr_binLoopS o hc fuel 64 0 t2 t2 s' hz hd)
      (ft := fun a s' => Res.done (.ok a.2.2) s') (fm := fun b s' => Res.done b s') (fun a b s' h => Agree.done s' h)
    rw [Res.bind_id] at this
    exact this

theorem tr_trySmallS {σ : Type} (o : Oracle σ) {cT : UInt64 → String → SM Bool} {cM : UInt64 → Script Bool} (hc : CondAgree o cT cM)
    (u : UInt64) :
    ∀ (fuel n : Nat) (i : UInt64) (s : σ), 5 ≤ i.toNat + n → i.toNat ≤ 5 →
      Agree (fun (t : UInt64 × Option UInt64) (b : Option UInt64) => t.2 = b)
        (SM.exec o (Translated.minimizeS_loop1 cT u fuel i) s) ((trySmallS cM u n i).exec o s) := by
  intro fuel
  induction fuel with
  | zero => intro n i s _ _; simp [Translated.minimizeS_loop1, Agree]
  | succ fuel ih =>
    intro n i s h5 hi
    rw [Translated.minimizeS_loop1]
    have h5' : (5 : UInt64).toNat = 5 := rfl
    by_cases hcnd : i < u ∧ i < 5
    · have hi5 : i.toNat < 5 := by have := UInt64.lt_iff_toNat_lt.mp hcnd.2; omega
      obtain ⟨n', rfl⟩ : ∃ n', n = n' + 1 := ⟨n - 1, by omega⟩
      have hsm : i < small := hcnd.2
      simp only [hcnd.1, hcnd.2, decide_true, Bool.and_self, if_true, trySmallS, hsm, and_self]
      sm_simp
      simp only [Res.bindE_assoc]
      refine Agree.bind (hc i "minblock_trysmall" s) ?_
      intro a b s' hab
      subst hab
      cases a with
      | true => sm_simp; exact Agree.done s' rfl
      | false =>
        sm_simp
        have h1 : (i + 1).toNat = i.toNat + 1 := by
          rw [UInt64.toNat_add]; simp only [UInt64.toNat_one]; apply Nat.mod_eq_of_lt; omega
        exact ih n' (i + 1) s' (by rw [h1]; omega) (by rw [h1]; omega)
    · have hdec : (decide (i < u) && decide (i < 5)) = false := by
        rw [← Bool.decide_and]; exact decide_eq_false hcnd
      simp only [hdec, Bool.false_eq_true, if_false]
      sm_simp
      have hcnd' : ¬ (i < u ∧ i < small) := hcnd
      cases n with
      | zero => simp only [trySmallS]; sm_simp; exact Agree.done s rfl
      | succ n' => simp only [trySmallS, hcnd', if_false]; sm_simp; exact Agree.done s rfl

/-- **`minimize(u, cond)` of /repo with a callback that talks to the shrinker agrees with the model's `minimizeS`** -/
theorem tr_minimizeS {σ : Type} (o : Oracle σ) {cT : UInt64 → String → SM Bool} {cM : UInt64 → Script Bool} (hc : CondAgree o cT cM)
    (fuel : Nat) (u : UInt64) (s : σ) :
    Agree (fun (a b : UInt64) => a = b) (SM.exec o (Translated.minimizeS u cT fuel) s) ((minimizeS u cM).exec o s) := by
  unfold Translated.minimizeS minimizeS
  by_cases h0 : u = 0
  · subst h0; simp only [beq_self_eq_true, if_true]; sm_simp; exact Agree.done s rfl
  · have hb : (u == 0) = false := by simpa using h0
    simp only [hb, Bool.false_eq_true, if_false]
    sm_simp
    refine Agree.bind (tr_trySmallS o hc u fuel 5 0 s (by simp) (by simp)) ?_
    intro t b s1 htb
    rw [htb]
    cases b with
    | some i => sm_simp; exact Agree.done s1 rfl
    | none =>
      simp only
      have hsm : (decide (u ≤ (5 : UInt64))) = decide (u ≤ small) := rfl
      rw [hsm]
      by_cases hle : u ≤ small
      · simp only [hle, decide_true, if_true]; sm_simp; exact Agree.done s1 rfl
      · simp only [hle, decide_false, Bool.false_eq_true, if_false]
        sm_simp
        refine Agree.bind (tr_rShiftS o hc fuel u s1) ?_
        intro a b s2 hab; subst hab
        refine Agree.bind (tr_unsetBitsS o hc fuel a s2) ?_
        intro a b s3 hab; subst hab
        refine Agree.bind (tr_sortBitsS o hc fuel a s3) ?_
        intro a b s4 hab; subst hab
        have := Agree.bind (R' := fun (a b : UInt64) => a = b) (tr_binSearchS o hc fuel a s4)
          (ft := fun a s' => Res.done (.ok a) s') (fm := fun b s' => Res.done b s') (fun a b s' h => Agree.done s' h)
        rw [Res.bind_id] at this
        exact this

theorem tr_minimizeBlocks_loop {σ : Type} (o : Oracle σ) (wf : o.WF) :
    ∀ (fuel fm i : Nat) (s : σ), fuel ≤ fm → i < 2 ^ 62 →
      Agree (fun _ _ => True)
        (SM.exec o (Translated.shrinker_minimizeBlocks_loop1 fuel (Int64.ofNat i)) s)
        ((minimizeBlocks fm i).exec o s) := by
  intro fuel
  induction fuel with
  | zero => intro fm i s _ _; simp [Translated.shrinker_minimizeBlocks_loop1, Agree]
  | succ fuel ih =>
    intro fm i s hfm hi62
    obtain ⟨fm', rfl⟩ : ∃ fm', fm = fm' + 1 := ⟨fm - 1, by omega⟩
    obtain ⟨hd, hgl, hgs⟩ := wf.small s
    rw [Translated.shrinker_minimizeBlocks_loop1, minimizeBlocks]
    sm_simp
    rw [lt_glen _ hi62 hd]
    by_cases hlt : i < (o.view s).rc.data.length
    · simp only [hlt, decide_true, if_true]
      sm_simp
      simp only [idx_ofNat _ hi62, List.getElem?_eq_getElem hlt]
      sm_simp
      refine Agree.bind (tr_minimizeS o ?hc fuel _ s) ?_
      case hc =>
        -- the callback `minimizeBlocks` hands to `minimize`
        intro u l s
        obtain ⟨hd, _, _⟩ := wf.small s
        sm_simp
        have hge : decide (Int64.ofNat i ≥ glen (o.view s).rc.data) = decide (i ≥ (o.view s).rc.data.length) :=
          i64_ge_ofNat hi62 _ hd
        rw [hge]
        by_cases hlt : i ≥ (o.view s).rc.data.length
        · simp only [hlt, decide_true, if_true]
          sm_simp
          exact Agree.done s rfl
        · simp only [hlt, decide_false, Bool.false_eq_true, if_false]
          sm_simp
          have hlt' : i < (o.view s).rc.data.length := by omega
          simp only [List.nil_append, setIdx_const _ hi62]
          have hset : setIdx? (o.view s).rc.data i u = some ((o.view s).rc.data.set i u) := by simp [setIdx?, hlt']
          simp only [hset]
          sm_simp
          simp only [idx_ofNat _ hi62, List.getElem?_eq_getElem hlt']
          sm_simp
          have := Agree.bind_accept (R' := fun (a b : Bool) => a = b) o ((o.view s).rc.data.set i u) s
            (ft := fun a s' => Res.done (.ok a) s') (fm := fun b s' => Res.done b s') (fun b s' _ => Agree.done s' rfl)
          rw [Res.bind_id] at this
          exact this
      intro _ _ s' _
      rw [i64_ofNat_succ]
      exact ih fm' (i + 1) s' (by omega) (by omega)
    · simp only [hlt, decide_false, Bool.false_eq_true, if_false]
      sm_simp
      exact Agree.done s trivial

theorem tr_minimizeBlocks {σ : Type} (o : Oracle σ) (wf : o.WF) : MinimizeBlocksAgree o := by
  intro fuel fm s h
  unfold Translated.shrinker_minimizeBlocks
  sm_simp
  rw [i64_zero_ofNat]
  exact (tr_minimizeBlocks_loop o wf fuel fm 0 s h (by omega)).unit_tail

/-- **`shrinker.shrink` (its round loop with all passes) of /repo agrees with the model's `shrinkScript`** against every
    shrinker `o` whose states are well-formed: with `fuel ≤ F` the translated code asks `accept` the same questions in the
    same order and ends in the same state as the model — or runs out of fuel first (a deadline cut) -/
theorem tr_shrink {σ : Type} (o : Oracle σ) (wf : o.WF) (hsh : ∀ s, (o.view s).shrinks < 2 ^ 62) (F fuel : Nat) (h : fuel ≤ F) (s : σ) :
    Agree (fun _ _ => True) (SM.exec o (Translated.shrinker_shrink fuel) s) ((shrinkScript F).exec o s) := by
  unfold Translated.shrinker_shrink shrinkScript
  sm_simp
  have hm1 : (-(1 : Int64)) = I (-1) := rfl
  rw [hm1]
  exact (tr_rounds o wf hsh (tr_minimizeBlocks o wf) F fuel F 0 (-1) s h h (by omega) (by omega)).unit_tail

end Rapid
