/-
  RapidProofs.Shrink — `accept`, the shrinker driven by any candidate sequence, `doCheck`.
-/
import RapidProofs.RecBound
import RapidProofs.FindBug

namespace Rapid

theorem sameError_refl (a : Option Err) : sameError a a = true := by
  simp [sameError]

/-- the second run of `accept` cannot differ from the first: the property is a function of
    its bitstream -/
theorem accept_no_mismatch (p : Prog) (s : Shr) (c d : List UInt64) (e : Option Err) :
    accept p s c ≠ .mismatch d e := by
  simp only [accept]
  split
  · simp
  · split
    · simp
    · simp [sameError_refl]

/-- what an accepted step guarantees -/
theorem accept_accepted {p : Prog} {s s' : Shr} {c : List UInt64} (h : accept p s c = .accepted s') :
    slt c s.data ∧ sle s'.data c ∧ slt s'.data s.data ∧ tbKey s'.err = tbKey s.err ∧
    s'.err = (checkOnce p (.buf c) TS.fresh).err ∧ s'.data = (checkOnce p (.buf c) TS.fresh).kept := by
  simp only [accept] at h
  split at h
  · simp at h
  · rename_i hcmp
    split at h
    · simp at h
    · rename_i htb
      simp only [sameError_refl, if_true, AcceptRes.accepted.injEq] at h
      subst h
      have h1 : slt c s.data := by simp only [slt]; omega
      have h2 : sle (checkOnce p (.buf c) TS.fresh).kept c := checkOnce_kept_sle p c _
      refine ⟨h1, h2, slt_of_sle_of_slt h2 h1, ?_, rfl, rfl⟩
      simpa using htb

/-- the state of the shrinker always comes from an actual failing run of the property -/
def FromRun (p : Prog) (s : Shr) : Prop :=
  ∃ src, (checkOnce p src TS.fresh).err = s.err ∧ (checkOnce p src TS.fresh).kept = s.data

/-- **the shrinker, for every candidate sequence** (every pass, every deadline cut): the result
    is never larger than the start, has the failure site of the start, every accepted step
    was strictly smaller, and the result is the pruned recording of an executed run that
    failed with the returned error. -/
theorem shrinkWith_spec (p : Prog) : ∀ (cands : List (List UInt64)) (s : Shr), FromRun p s →
    sle (shrinkWith p s cands).1 s.data ∧
    tbKey (shrinkWith p s cands).2 = tbKey s.err ∧
    FromRun p ⟨(shrinkWith p s cands).1, (shrinkWith p s cands).2⟩ := by
  intro cands
  induction cands with
  | nil => intro s hs; exact ⟨sle_refl _, rfl, hs⟩
  | cons c cs ih =>
    intro s hs
    simp only [shrinkWith]
    cases ha : accept p s c with
    | rejected => exact ih s hs
    | mismatch d e => exact absurd ha (accept_no_mismatch p s c d e)
    | accepted s' =>
      simp only []
      obtain ⟨_, _, h3, h4, h5, h6⟩ := accept_accepted ha
      have hs' : FromRun p s' := ⟨.buf c, h5.symm, h6.symm⟩
      obtain ⟨a, b, c'⟩ := ih s' hs'
      exact ⟨(sle_trans a (Int.le_of_lt h3)).1, by rw [b, h4], c'⟩

/-- the sequence of accepted states is strictly decreasing -/
def acceptedStates (p : Prog) : Shr → List (List UInt64) → List Shr
  | _, [] => []
  | s, c :: cs =>
    match accept p s c with
    | .accepted s' => s' :: acceptedStates p s' cs
    | _ => acceptedStates p s cs

theorem acceptedStates_decreasing (p : Prog) : ∀ (cands : List (List UInt64)) (s : Shr),
    List.Pairwise (fun a b => slt b.data a.data) (s :: acceptedStates p s cands) := by
  intro cands
  induction cands with
  | nil => intro s; simp [acceptedStates]
  | cons c cs ih =>
    intro s
    simp only [acceptedStates]
    cases ha : accept p s c with
    | rejected => exact ih s
    | mismatch d e => exact ih s
    | accepted s' =>
      simp only []
      have h3 := (accept_accepted ha).2.2.1
      have := ih s'
      refine List.Pairwise.cons ?_ this
      intro x hx
      rcases List.mem_cons.mp hx with rfl | hx
      · exact h3
      · exact slt_of_slt_of_sle ((List.pairwise_cons.mp this).1 x hx) (Int.le_of_lt h3)

/-- prune stability of a property: the pruned recording of a failing run fails the same way -/
def PruneStable (p : Prog) : Prop :=
  ∀ src, (∃ e, (checkOnce p src TS.fresh).err = some e ∧ e.isInvalid = false) →
    (checkOnce p (.buf (checkOnce p src TS.fresh).kept) TS.fresh).err = (checkOnce p src TS.fresh).err

theorem firstFailFile_spec (p : Prog) : ∀ (files : List FF) (i : Nat) (r : Nat × List UInt64 × Option Err × Option Err),
    firstFailFile p files i = some r →
    r.2.2.1 = r.2.2.2 ∧ r.2.2.2 = (checkOnce p (.buf r.2.1) TS.fresh).err ∧
    ∃ e, r.2.2.2 = some e ∧ e.isInvalid = false := by
  intro files
  induction files with
  | nil => intro i r h; simp [firstFailFile] at h
  | cons f fs ih =>
    intro i r h
    simp only [firstFailFile] at h
    cases hc : checkFailFile p f with
    | none => simp only [hc] at h; exact ih _ _ h
    | some t =>
      simp only [hc, Option.some.injEq] at h
      subst h
      cases f with
      | unloadable => simp [checkFailFile] at hc
      | loaded v sd buf =>
        simp only [checkFailFile] at hc
        split at hc
        · simp at hc
        · cases he : (checkOnce p (.buf buf) TS.fresh).err with
          | none => simp [he] at hc
          | some e =>
            simp only [he] at hc
            split at hc
            · simp at hc
            · rename_i hinv
              simp only [Option.some.injEq] at hc
              subst hc
              exact ⟨rfl, he.symm, e, rfl, by simpa using hinv⟩

/-- **C01 core**: whatever `doCheck` reports as a failure is a failure of the reported buffer,
    with the reported error, and the two errors it hands to `checkTB` have the same
    traceback (so the "flaky" branch is not taken) — for every candidate sequence of the
    shrinker, i.e. with minimization cut short anywhere. -/
theorem doCheck_reported (p : Prog) (hps : PruneStable p) (checks : Nat) (seed : UInt64) (files : List FF)
    (early : Nat → Bool) (cands : List (List UInt64)) :
    let d := doCheck p checks seed files early cands
    (d.err1.isSome ∨ d.err2.isSome) →
      tbKey d.err1 = tbKey d.err2 ∧ d.err2 = (checkOnce p (.buf d.buf) TS.fresh).err ∧
      ∃ e, d.err2 = some e ∧ e.isInvalid = false := by
  intro d hd
  simp only [d, doCheck] at hd ⊢
  cases hf : firstFailFile p files 0 with
  | some r =>
    obtain ⟨i, b, e1, e2⟩ := r
    simp only [hf] at hd ⊢
    obtain ⟨h1, h2, h3⟩ := firstFailFile_spec p files 0 _ hf
    simp only at h1 h2 h3
    exact ⟨by rw [h1], h2, h3⟩
  | none =>
    simp only [hf] at hd ⊢
    cases hfb : (findBug p checks seed early).err with
    | none => simp [hfb] at hd
    | some e =>
      simp only [hfb] at hd ⊢
      have hb := findBugLoop_blame p checks early _ 0 0 seed TS.fresh [] e clean_fresh (by simpa [findBug] using hfb)
      have hseed : (findBugLoop p checks early (checks + checks * invalidChecksMult) 0 0 seed TS.fresh []).seed
          = (findBug p checks seed early).seed := rfl
      rw [hseed] at hb
      obtain ⟨hinv, hrun⟩ := hb
      simp only [hrun, sameError_refl, Bool.not_true, Bool.false_eq_true, if_false]
      have hfrom : FromRun p ⟨(checkOnce p (.rng (Jsf.init (findBug p checks seed early).seed)) TS.fresh).kept, some e⟩ :=
        ⟨_, hrun, rfl⟩
      obtain ⟨_, h2, ⟨src, h3, h4⟩⟩ := shrinkWith_spec p cands _ hfrom
      simp only at h2 h3 h4
      have hkey : ∃ e', (shrinkWith p ⟨(checkOnce p (.rng (Jsf.init (findBug p checks seed early).seed)) TS.fresh).kept, some e⟩ cands).2 = some e' ∧ e'.isInvalid = false := by
        cases hx : (shrinkWith p ⟨(checkOnce p (.rng (Jsf.init (findBug p checks seed early).seed)) TS.fresh).kept, some e⟩ cands).2 with
        | none => rw [hx] at h2; cases e <;> simp [tbKey, Err.isInvalid] at h2 hinv
        | some e' =>
          refine ⟨e', rfl, ?_⟩
          rw [hx] at h2
          cases e' <;> cases e <;> simp [tbKey, Err.isInvalid] at h2 hinv ⊢
      refine ⟨h2.symm, ?_, hkey⟩
      obtain ⟨e', he', hi'⟩ := hkey
      have := hps src ⟨e', by rw [h3, he'], hi'⟩
      rw [h4, h3] at this
      exact this.symm

/-- never "flaky", and a reported failure names an error the reported buffer reproduces -/
theorem verdict_of_doCheck (p : Prog) (hps : PruneStable p) (checks : Nat) (seed : UInt64) (files : List FF)
    (early : Nat → Bool) (cands : List (List UInt64)) :
    match verdict checks (doCheck p checks seed files early cands) with
    | .flaky _ _ => False
    | .failed _ e _ buf => (checkOnce p (.buf buf) TS.fresh).err = some e ∧ e.isInvalid = false
    | _ => True := by
  have h := doCheck_reported p hps checks seed files early cands
  generalize doCheck p checks seed files early cands = d at h
  simp only at h
  unfold verdict
  cases h1 : d.err1 with
  | none =>
    cases h2 : d.err2 with
    | none => by_cases hc : (d.valid = checks ∨ d.early = true ∧ d.valid > 0) <;> simp [hc]
    | some e2 =>
      obtain ⟨a, b, e, c1, c2⟩ := h (by simp [h2])
      simp only [h1, h2] at a ⊢
      simp only [a, beq_self_eq_true, if_true]
      rw [h2] at b c1
      simp only [Option.some.injEq] at c1; subst c1
      exact ⟨b.symm, c2⟩
  | some e1 =>
    obtain ⟨a, b, e, c1, c2⟩ := h (by simp [h1])
    simp only [h1, c1] at a ⊢
    simp only [a, beq_self_eq_true, if_true]
    rw [c1] at b
    exact ⟨b.symm, c2⟩

end Rapid
