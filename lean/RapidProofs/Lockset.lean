/-
  RapidProofs.Lockset — lockset soundness: any number of threads running well-locked traces
  over one RWMutex never reach a configuration with a data race, under every interleaving
  the mutex allows.
-/
import RapidModel.Conc

namespace Rapid.Conc

def Inv (c : Cfg) : Prop :=
  (∀ i, WLF (c.held i) (c.rest i) = true) ∧ (∀ i j, i ≠ j → c.held i = some .W → c.held j = none)

theorem inv_step {c c' : Cfg} (h : Inv c) (s : Step c c') : Inv c' := by
  obtain ⟨hw, hx⟩ := h
  cases s with
  | acqW i es hr hn =>
    refine ⟨fun k => ?_, fun k j hkj hk => ?_⟩
    · by_cases hk : k = i
      · subst hk; have := hw k; rw [hr, hn k] at this; simpa [upd, WLF] using this
      · simpa [upd, hk] using hw k
    · by_cases hki : k = i
      · subst hki; have : j ≠ k := fun e => hkj e.symm
        simp [upd, this, hn j]
      · simp [upd, hki, hn k] at hk
  | acqR i es hr hn hi =>
    refine ⟨fun k => ?_, fun k j hkj hk => ?_⟩
    · by_cases hk : k = i
      · subst hk; have := hw k; rw [hr, hi] at this; simpa [upd, WLF] using this
      · simpa [upd, hk] using hw k
    · by_cases hki : k = i
      · subst hki; simp [upd] at hk
      · simp [upd, hki] at hk; exact absurd hk (hn k)
  | rel i m es hr hi =>
    refine ⟨fun k => ?_, fun k j hkj hk => ?_⟩
    · by_cases hk : k = i
      · subst hk; have := hw k; rw [hr, hi] at this
        simp [WLF] at this; simpa [upd] using this
      · simpa [upd, hk] using hw k
    · by_cases hki : k = i
      · subst hki; simp [upd] at hk
      · simp [upd, hki] at hk
        by_cases hji : j = i
        · simp [upd, hji]
        · simpa [upd, hji] using hx k j hkj hk
  | read i f es hr =>
    refine ⟨fun k => ?_, hx⟩
    by_cases hk : k = i
    · subst hk; have := hw k; rw [hr] at this
      cases hh : c.held k with
      | none => simp [hh, WLF] at this
      | some m => simpa [upd, hh, WLF] using this
    · simpa [upd, hk] using hw k
  | write i f es hr =>
    refine ⟨fun k => ?_, hx⟩
    by_cases hk : k = i
    · subst hk; have := hw k; rw [hr] at this
      cases hh : c.held k with
      | none => simp [hh, WLF] at this
      | some m => cases m <;> simp [hh, WLF] at this; simpa [upd, hh, WLF] using this
    · simpa [upd, hk] using hw k

theorem held_of_access {h : Option Mode} {es : List Ev} {f : Nat} {w : Bool}
    (hwl : WLF h es = true) (ha : isAccess f w es) : h ≠ none ∧ (w = true → h = some .W) := by
  cases es with
  | nil => simp [isAccess] at ha
  | cons e es =>
    cases e with
    | acq m => simp [isAccess] at ha
    | rel m => simp [isAccess] at ha
    | read g =>
      cases h with
      | none => simp [WLF] at hwl
      | some m => simp [isAccess] at ha; simp [ha.2]
    | write g =>
      cases h with
      | none => simp [WLF] at hwl
      | some m => cases m <;> simp [WLF] at hwl; simp

theorem no_race {c : Cfg} (h : Inv c) : ¬ Race c := by
  rintro ⟨i, j, f, wi, wj, hij, hai, haj, hw⟩
  obtain ⟨hwl, hx⟩ := h
  have hi := held_of_access (hwl i) hai
  have hj := held_of_access (hwl j) haj
  rcases hw with hw | hw
  · exact hj.1 (hx i j hij (hi.2 hw))
  · exact hi.1 (hx j i (fun e => hij e.symm) (hj.2 hw))

/-- every configuration reachable from well-locked threads holding nothing is race free -/
theorem lockset_sound (c₀ : Cfg) (h0 : ∀ i, c₀.held i = none) (hwl : ∀ i, WLF none (c₀.rest i) = true)
    {c : Cfg} (hr : Reach c₀ c) : ¬ Race c := by
  have : Inv c := by
    induction hr with
    | refl => exact ⟨fun i => by rw [h0 i]; exact hwl i, fun i j _ hi => by rw [h0 i] at hi; cases hi⟩
    | step _ s ih => exact inv_step ih s
  exact no_race this

/-- traces compose: a thread may call well-locked methods one after another -/
theorem wlf_append : ∀ (a b : List Ev) (h : Option Mode), WLF h a = true → WLF none b = true → WLF h (a ++ b) = true := by
  intro a
  induction a with
  | nil => intro b h ha hb; cases h <;> simp [WLF] at ha; simpa using hb
  | cons e es ih =>
    intro b h ha hb
    cases e with
    | acq m =>
      cases h with
      | none => simp only [WLF, List.cons_append] at ha ⊢; exact ih b _ ha hb
      | some m' => simp [WLF] at ha
    | rel m =>
      cases h with
      | none => simp [WLF] at ha
      | some m' =>
        simp only [WLF, List.cons_append, Bool.and_eq_true] at ha ⊢
        exact ⟨ha.1, ih b _ ha.2 hb⟩
    | read f =>
      cases h with
      | none => simp [WLF] at ha
      | some m' => simp only [WLF, List.cons_append] at ha ⊢; exact ih b _ ha hb
    | write f =>
      cases h with
      | none => simp [WLF] at ha
      | some m' =>
        cases m' with
        | R => simp [WLF] at ha
        | W => simp only [WLF, List.cons_append] at ha ⊢; exact ih b _ ha hb

end Rapid.Conc
