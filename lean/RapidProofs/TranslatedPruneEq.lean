/-
  RapidProofs.TranslatedPruneEq — `recordedBits.removeGroup` and `recordedBits.prune` of data.go, as translated from
  /repo on every run (`RapidModel.Generated.Translated`), against the literal model `Rec.removeGroup` / `Rec.prune`
  (`RapidModel.Rec`): for every recording whose sizes fit an `int` with room to spare (`Rec.Small`) and on which the
  model's function succeeds, the source's function returns the model's result — data and the whole group list.
  (The model's `none` stands for an index/slice panic or a failed assertion; the theorems about recordings show it is
  never reached on the recording of a run.)
-/
import RapidProofs.TranslatedMinEq
namespace Rapid
open Rapid.Go

def I (x : Int) : Int64 := Int64.ofInt x

theorem I_nat (n : Nat) : I (n : Int) = Int64.ofNat n := by
  apply Int64.toBitVec_inj.mp
  simp [I, Int64.ofInt, Int64.ofNat, BitVec.ofInt_natCast]

theorem I_toInt {x : Int} (h1 : -2 ^ 62 ≤ x) (h2 : x < 2 ^ 62) : (I x).toInt = x :=
  Int64.toInt_ofInt_of_le (by omega) (by omega)

theorem I_sub (a b : Int) : I a - I b = I (a - b) := (Int64.ofInt_sub a b).symm

theorem I_le {a b : Int} (ha1 : -2 ^ 62 ≤ a) (ha2 : a < 2 ^ 62) (hb1 : -2 ^ 62 ≤ b) (hb2 : b < 2 ^ 62) :
    decide (I a ≤ I b) = decide (a ≤ b) := by
  simp only [Int64.le_iff_toInt_le, I_toInt ha1 ha2, I_toInt hb1 hb2]

theorem I_inj {a b : Int} (ha1 : -2 ^ 62 ≤ a) (ha2 : a < 2 ^ 62) (hb1 : -2 ^ 62 ≤ b) (hb2 : b < 2 ^ 62) :
    (I a != I b) = (a != b) := by
  by_cases h : a = b
  · subst h; simp
  · have : I a ≠ I b := by
      intro e
      have := congrArg Int64.toInt e
      rw [I_toInt ha1 ha2, I_toInt hb1 hb2] at this
      exact h this
    rw [bne, bne, beq_false_of_ne this, beq_false_of_ne h]

/-! ### the model's groups as the source's -/

def goOf (g : GI) : Translated.groupInfo :=
  { begin := I (g.begin : Int), end_ := I g.end_, label := g.label, standalone := g.standalone, discard := g.discard }

def GI.Small (g : GI) : Prop := g.begin < 2 ^ 62 ∧ -1 ≤ g.end_ ∧ g.end_ < 2 ^ 62

def Rec.Small (r : Rec) : Prop := r.data.length < 2 ^ 62 ∧ r.groups.length < 2 ^ 61 ∧ ∀ g ∈ r.groups, g.Small

theorem idx_mid {α : Type} (a b : List α) (x : α) (h : a.length < 2 ^ 62) :
    Go.idx (a ++ x :: b) (Int64.ofNat a.length) = .ok x := by
  rw [idx_ofNat _ h]; simp

theorem setIdx_mid {α : Type} (a b : List α) (x : α) (f : α → α) (h : a.length < 2 ^ 62) :
    Go.setIdx (a ++ x :: b) (Int64.ofNat a.length) f = .ok (a ++ f x :: b) := by
  rw [setIdx_ofNat _ h]
  have : (a ++ x :: b).modify a.length f = a ++ f x :: b := by
    induction a with
    | nil => rfl
    | cons y a ih => simp only [List.cons_append, List.length_cons, List.modify_succ_cons]; rw [ih (by simp at h; omega)]
  simp [this]

/-- the element update of `removeGroup`'s second loop, on the source's side -/
def shiftT (gT : Translated.groupInfo) (n : Int64) (e : Translated.groupInfo) : Translated.groupInfo :=
  let e1 : Translated.groupInfo := if e.begin ≥ gT.end_ then { e with begin := e.begin - n } else e
  if e1.end_ ≥ gT.end_ then { e1 with end_ := e1.end_ - n } else e1

/-- … and the model's -/
def shiftM (g : GI) (h : GI) : GI :=
  let n := g.end_.toNat - g.begin
  { h with begin := if (h.begin : Int) ≥ g.end_ then h.begin - n else h.begin,
           end_ := if h.end_ ≥ g.end_ then h.end_ - n else h.end_ }

theorem shift_eq (g h : GI) (hg : g.Small) (hh : h.Small) (hbe : (g.begin : Int) ≤ g.end_) :
    shiftT (goOf g) (I (g.end_ - g.begin)) (goOf h) = goOf (shiftM g h) := by
  obtain ⟨g1, g2, g3⟩ := hg
  obtain ⟨h1, h2, h3⟩ := hh
  have c1 : decide ((goOf h).begin ≥ (goOf g).end_) = decide ((h.begin : Int) ≥ g.end_) := by
    simp only [goOf, ge_iff_le]
    exact I_le (by omega) g3 (by omega) (by omega)
  have c2 : ∀ b : Int64, decide (({ goOf h with begin := b } : Translated.groupInfo).end_ ≥ (goOf g).end_) = decide (h.end_ ≥ g.end_) := by
    intro b
    simp only [goOf, ge_iff_le]
    exact I_le (by omega) g3 (by omega) h3
  have c2' : decide ((goOf h).end_ ≥ (goOf g).end_) = decide (h.end_ ≥ g.end_) := c2 (goOf h).begin
  unfold shiftT shiftM
  by_cases hb : (h.begin : Int) ≥ g.end_
  · have hb' : (goOf h).begin ≥ (goOf g).end_ := by
      have := c1; simp only [hb, decide_true, decide_eq_true_eq] at this; exact this
    have he : h.end_ ≥ g.end_ ∨ ¬ h.end_ ≥ g.end_ := by omega
    have eb : (goOf h).begin - I (g.end_ - g.begin) = I ((h.begin - (g.end_.toNat - g.begin) : Nat) : Int) := by
      simp only [goOf, I_sub]; congr 1; omega
    have ee : (g.end_ - g.begin : Int) = ((g.end_.toNat - g.begin : Nat) : Int) := by omega
    rcases he with he | he
    · have he' : ({ goOf h with begin := (goOf h).begin - I (g.end_ - ↑g.begin) } : Translated.groupInfo).end_ ≥ (goOf g).end_ := by
        have := c2 ((goOf h).begin - I (g.end_ - ↑g.begin)); simp only [he, decide_true, decide_eq_true_eq] at this; exact this
      simp only [hb', he', hb, he, if_true]
      simp only [eb]
      simp only [goOf, I_sub, ee]
    · have he' : ¬ ({ goOf h with begin := (goOf h).begin - I (g.end_ - ↑g.begin) } : Translated.groupInfo).end_ ≥ (goOf g).end_ := by
        have := c2 ((goOf h).begin - I (g.end_ - ↑g.begin)); simp only [he, decide_false, decide_eq_false_iff_not] at this; exact this
      simp only [hb', he', hb, he, if_true, if_false]
      simp only [eb]
      simp only [goOf]
  · have hb' : ¬ (goOf h).begin ≥ (goOf g).end_ := by
      have := c1; simp only [hb, decide_false, decide_eq_false_iff_not] at this; exact this
    by_cases he : h.end_ ≥ g.end_
    · have he' : (goOf h).end_ ≥ (goOf g).end_ := by
        have := c2'; simp only [he, decide_true, decide_eq_true_eq] at this; exact this
      have ee : (g.end_ - g.begin : Int) = ((g.end_.toNat - g.begin : Nat) : Int) := by omega
      simp only [hb', he', hb, he, if_true, if_false]
      simp only [goOf, I_sub, ee]
    · have he' : ¬ (goOf h).end_ ≥ (goOf g).end_ := by
        have := c2'; simp only [he, decide_false, decide_eq_false_iff_not] at this; exact this
      simp only [hb', he', hb, he, if_false]


/-! ### `removeGroup` -/

theorem M_ok_bind {α β : Type} (a : α) (f : α → Go.M β) : ((Except.ok a : Go.M α) >>= f) = f a := rfl

theorem getElem?_map_goOf (gs : List GI) (j : Nat) : (gs.map goOf)[j]? = (gs[j]?).map goOf := by simp

/-- first loop: skip the groups that end inside the removed one -/
theorem tr_rgLoop1 (g : GI) (gs : List GI) (hs : ∀ h ∈ gs, h.Small) (hg : g.Small) (hl : gs.length < 2 ^ 61) :
    ∀ (k j fT : Nat), gs.length - j = k → j ≤ gs.length → k < fT →
    Translated.recordedBits_removeGroup_loop1 (goOf g) (gs.map goOf) fT (Int64.ofNat j) =
      .ok (Int64.ofNat (j + ((gs.drop j).takeWhile fun h => h.end_ ≤ g.end_).length)) := by
  intro k
  induction k with
  | zero =>
    intro j fT hk hj hf
    obtain ⟨f, rfl⟩ : ∃ f, fT = f + 1 := ⟨fT - 1, by omega⟩
    have hjl : j = gs.length := by omega
    have hc : decide (Int64.ofNat j < Go.glen (gs.map goOf)) = false := by
      rw [show Go.glen (gs.map goOf) = Int64.ofNat (gs.map goOf).length from rfl, i64_lt_ofNat (by omega) _ (by simp; omega)]
      simp [hjl]
    simp only [Translated.recordedBits_removeGroup_loop1, hc, Go.andThen, pure, Except.pure, bind, Except.bind,
      Bool.false_eq_true, if_false]
    simp [hjl]
  | succ k ih =>
    intro j fT hk hj hf
    obtain ⟨f, rfl⟩ : ∃ f, fT = f + 1 := ⟨fT - 1, by omega⟩
    have hjl : j < gs.length := by omega
    have hc : decide (Int64.ofNat j < Go.glen (gs.map goOf)) = true := by
      rw [show Go.glen (gs.map goOf) = Int64.ofNat (gs.map goOf).length from rfl, i64_lt_ofNat (by omega) _ (by simp; omega)]
      simp [hjl]
    have hidx : Go.idx (gs.map goOf) (Int64.ofNat j) = .ok (goOf gs[j]) := by
      rw [idx_ofNat _ (by omega)]; simp [hjl]
    have hsm := hs _ (List.getElem_mem hjl)
    have hcmp : decide ((goOf gs[j]).end_ ≤ (goOf g).end_) = decide (gs[j].end_ ≤ g.end_) := by
      simp only [goOf]
      exact I_le (by have := hsm.2.1; omega) hsm.2.2 (by have := hg.2.1; omega) hg.2.2
    have hdrop : gs.drop j = gs[j] :: gs.drop (j + 1) := (List.drop_eq_getElem_cons hjl)
    simp only [Translated.recordedBits_removeGroup_loop1, hc, Go.andThen, pure, Except.pure, bind, Except.bind, hidx, hcmp, hdrop,
      List.takeWhile_cons]
    by_cases hle : gs[j].end_ ≤ g.end_
    · simp only [hle, decide_true, if_true, i64_ofNat_add_one, List.length_cons]
      rw [ih (j + 1) f (by omega) (by omega) (by omega)]
      congr 2; omega
    · simp [hle]

/-- second loop: shift what lies behind the removed data -/
theorem tr_rgLoop2 (g : GI) (hg : g.Small) (hbe : (g.begin : Int) ≤ g.end_) (N : Nat) (hN : N < 2 ^ 61) :
    ∀ (rest done : List GI) (fT : Nat), done.length + rest.length = N → (∀ h ∈ rest, h.Small) → rest.length < fT →
    Translated.recordedBits_removeGroup_loop2 (goOf g) (I (g.end_ - g.begin)) (Int64.ofNat N) fT (Int64.ofNat done.length)
        (done.map goOf ++ rest.map goOf) =
      .ok (Int64.ofNat N, (done ++ rest.map (shiftM g)).map goOf) := by
  intro rest
  induction rest with
  | nil =>
    intro done fT hl _ hf
    obtain ⟨f, rfl⟩ : ∃ f, fT = f + 1 := ⟨fT - 1, by omega⟩
    have hc : decide (Int64.ofNat done.length < Int64.ofNat N) = false := by
      rw [i64_lt_ofNat (by simp at hl; omega) _ (by omega)]; simp at hl ⊢; omega
    simp only [Translated.recordedBits_removeGroup_loop2, hc, Bool.false_eq_true, if_false, pure, Except.pure]
    simp at hl; simp [hl]
  | cons h rest ih =>
    intro done fT hl hs hf
    obtain ⟨f, rfl⟩ : ∃ f, fT = f + 1 := ⟨fT - 1, by simp at hf; omega⟩
    simp only [List.length_cons] at hl hf
    have hdl : (done.map goOf).length = done.length := by simp
    have hc : decide (Int64.ofNat done.length < Int64.ofNat N) = true := by
      rw [i64_lt_ofNat (by omega) _ (by omega)]; simp; omega
    have hi : ∀ x : Translated.groupInfo, Go.idx (done.map goOf ++ x :: rest.map goOf) (Int64.ofNat done.length) = .ok x := by
      intro x; have := idx_mid (done.map goOf) (rest.map goOf) x (by rw [hdl]; omega); rw [hdl] at this; exact this
    have hset : ∀ (x : Translated.groupInfo) (fn : Translated.groupInfo → Translated.groupInfo),
        Go.setIdx (done.map goOf ++ x :: rest.map goOf) (Int64.ofNat done.length) fn = .ok (done.map goOf ++ fn x :: rest.map goOf) := by
      intro x fn; have := setIdx_mid (done.map goOf) (rest.map goOf) x fn (by rw [hdl]; omega); rw [hdl] at this; exact this
    have hsh := shift_eq g h hg (hs h (List.mem_cons_self)) hbe
    have key : ∀ (x : Translated.groupInfo),
        ((((Go.idx (done.map goOf ++ x :: rest.map goOf) (Int64.ofNat done.length)) >>= fun e_9 => (pure (decide ((e_9).begin ≥ (goOf g).end_)) : Go.M Bool)) >>= fun c_11 =>
          if c_11 then
            (Go.idx (done.map goOf ++ x :: rest.map goOf) (Int64.ofNat done.length)) >>= fun e_10 =>
            (Go.setIdx (done.map goOf ++ x :: rest.map goOf) (Int64.ofNat done.length) (fun g_ => { g_ with begin := ((e_10).begin - I (g.end_ - g.begin)) })) >>= fun rec_groups =>
            pure rec_groups
          else
            pure (done.map goOf ++ x :: rest.map goOf)) : Go.M (List Translated.groupInfo)) =
        .ok (done.map goOf ++ (if x.begin ≥ (goOf g).end_ then { x with begin := x.begin - I (g.end_ - g.begin) } else x) :: rest.map goOf) := by
      intro x
      simp only [hi, hset, bind, Except.bind, pure, Except.pure]
      by_cases hx : x.begin ≥ (goOf g).end_ <;> simp [hx]
    have key2 : ∀ (x : Translated.groupInfo),
        ((((Go.idx (done.map goOf ++ x :: rest.map goOf) (Int64.ofNat done.length)) >>= fun e_12 => (pure (decide ((e_12).end_ ≥ (goOf g).end_)) : Go.M Bool)) >>= fun c_14 =>
          if c_14 then
            (Go.idx (done.map goOf ++ x :: rest.map goOf) (Int64.ofNat done.length)) >>= fun e_13 =>
            (Go.setIdx (done.map goOf ++ x :: rest.map goOf) (Int64.ofNat done.length) (fun g_ => { g_ with end_ := ((e_13).end_ - I (g.end_ - g.begin)) })) >>= fun rec_groups =>
            pure rec_groups
          else
            pure (done.map goOf ++ x :: rest.map goOf)) : Go.M (List Translated.groupInfo)) =
        .ok (done.map goOf ++ (if x.end_ ≥ (goOf g).end_ then { x with end_ := x.end_ - I (g.end_ - g.begin) } else x) :: rest.map goOf) := by
      intro x
      simp only [hi, hset, bind, Except.bind, pure, Except.pure]
      by_cases hx : x.end_ ≥ (goOf g).end_ <;> simp [hx]
    simp only [List.map_cons]
    rw [Translated.recordedBits_removeGroup_loop2]
    simp only [hc, if_true]
    rw [key (goOf h), M_ok_bind, key2, M_ok_bind]
    simp only [i64_ofNat_add_one]
    have hfin : (if (if (goOf h).begin ≥ (goOf g).end_ then { goOf h with begin := (goOf h).begin - I (g.end_ - ↑g.begin) } else goOf h : Translated.groupInfo).end_ ≥ (goOf g).end_
        then { (if (goOf h).begin ≥ (goOf g).end_ then { goOf h with begin := (goOf h).begin - I (g.end_ - ↑g.begin) } else goOf h : Translated.groupInfo) with
          end_ := (if (goOf h).begin ≥ (goOf g).end_ then { goOf h with begin := (goOf h).begin - I (g.end_ - ↑g.begin) } else goOf h : Translated.groupInfo).end_ - I (g.end_ - ↑g.begin) }
        else (if (goOf h).begin ≥ (goOf g).end_ then { goOf h with begin := (goOf h).begin - I (g.end_ - ↑g.begin) } else goOf h : Translated.groupInfo)) = goOf (shiftM g h) := by
      rw [← hsh]; rfl
    rw [hfin]
    have := ih (done ++ [shiftM g h]) f (by simp; omega) (fun x hx => hs x (List.mem_cons_of_mem _ hx)) (by omega)
    simp only [List.length_append, List.length_cons, List.length_nil, List.map_append, List.map_cons, List.map_nil,
      List.append_assoc, List.cons_append, List.nil_append] at this
    rw [this]
    simp

/-- what `Rec.removeGroup` computes, unfolded -/
theorem removeGroup_some (r r' : Rec) (i : Nat) (h : r.removeGroup i = some r') :
    ∃ g, r.groups[i]? = some g ∧ 0 ≤ g.end_ ∧ g.begin ≤ g.end_.toNat ∧ g.end_.toNat ≤ r.data.length ∧
      r' = ⟨r.data.take g.begin ++ r.data.drop g.end_.toNat,
            ((r.groups.take i ++ r.groups.drop (i + 1 + ((r.groups.drop (i + 1)).takeWhile fun h => h.end_ ≤ g.end_).length)).map (shiftM g))⟩ := by
  unfold Rec.removeGroup at h
  cases hg : r.groups[i]? with
  | none => rw [hg] at h; simp at h
  | some g =>
    rw [hg] at h
    dsimp only at h
    by_cases he : g.end_ < 0
    · rw [if_pos he] at h; simp at h
    · rw [if_neg he] at h
      unfold cut? at h
      by_cases hc : 0 ≤ g.end_ ∧ g.begin ≤ g.end_.toNat ∧ g.end_.toNat ≤ r.data.length
      · rw [if_pos hc] at h
        dsimp only at h
        exact ⟨g, rfl, hc.1, hc.2.1, hc.2.2, (Option.some.inj h).symm⟩
      · rw [if_neg hc] at h; simp at h

theorem shiftM_small (g h : GI) (hg : g.Small) (hh : h.Small) (hbe : (g.begin : Int) ≤ g.end_) : (shiftM g h).Small := by
  obtain ⟨g1, g2, g3⟩ := hg
  obtain ⟨h1, h2, h3⟩ := hh
  unfold shiftM GI.Small
  refine ⟨?_, ?_, ?_⟩
  · show (if (h.begin : Int) ≥ g.end_ then h.begin - (g.end_.toNat - g.begin) else h.begin) < 2 ^ 62
    split <;> omega
  · show -1 ≤ (if h.end_ ≥ g.end_ then h.end_ - ((g.end_.toNat - g.begin : Nat) : Int) else h.end_)
    split <;> omega
  · show (if h.end_ ≥ g.end_ then h.end_ - ((g.end_.toNat - g.begin : Nat) : Int) else h.end_) < 2 ^ 62
    split <;> omega

theorem removeGroup_small (r r' : Rec) (i : Nat) (hs : r.Small) (h : r.removeGroup i = some r') :
    r'.Small ∧ r'.groups.length < r.groups.length ∧ i ≤ r'.groups.length := by
  obtain ⟨g, hg, he0, hbe, hel, rfl⟩ := removeGroup_some r r' i h
  obtain ⟨hd, hl, hgs⟩ := hs
  have hi : i < r.groups.length := by
    have := List.getElem?_eq_some_iff.mp hg; exact this.1
  have hgm : g ∈ r.groups := List.mem_of_getElem? hg
  have hgS := hgs g hgm
  have hbe' : (g.begin : Int) ≤ g.end_ := by omega
  refine ⟨⟨?_, ?_, ?_⟩, ?_, ?_⟩
  · simp only [List.length_append, List.length_take, List.length_drop]; omega
  · simp only [List.length_map, List.length_append, List.length_take, List.length_drop]; omega
  · intro x hx
    simp only [List.mem_map, List.mem_append] at hx
    obtain ⟨y, hy, rfl⟩ := hx
    have hy' : y ∈ r.groups := by
      rcases hy with hy | hy
      · exact List.mem_of_mem_take hy
      · exact List.mem_of_mem_drop hy
    exact shiftM_small g y hgS (hgs y hy') hbe'
  · simp only [List.length_map, List.length_append, List.length_take, List.length_drop]; omega
  · simp only [List.length_map, List.length_append, List.length_take, List.length_drop]; omega

/-- **`recordedBits.removeGroup` of /repo is the model's `Rec.removeGroup`** wherever the model's succeeds -/
theorem tr_removeGroup (r r' : Rec) (hs : r.Small) (i fuel : Nat) (hf : r.groups.length + 2 ≤ fuel)
    (h : r.removeGroup i = some r') :
    Translated.recordedBits_removeGroup r.data (r.groups.map goOf) (Int64.ofNat i) fuel = .ok (r'.data, r'.groups.map goOf) := by
  obtain ⟨g, hg, he0, hbe, hel, rfl⟩ := removeGroup_some r r' i h
  obtain ⟨hd, hl, hgs⟩ := hs
  have hi : i < r.groups.length := (List.getElem?_eq_some_iff.mp hg).1
  have hgm : g ∈ r.groups := List.mem_of_getElem? hg
  have hgS := hgs g hgm
  obtain ⟨g1, g2, g3⟩ := hgS
  have hbe' : (g.begin : Int) ≤ g.end_ := by omega
  have hidx : Go.idx (r.groups.map goOf) (Int64.ofNat i) = .ok (goOf g) := by
    rw [idx_ofNat _ (by omega)]; simp [hg]
  have hass : decide ((goOf g).end_ ≥ (0 : Int64)) = true := by
    have : (0 : Int64) = I 0 := rfl
    simp only [goOf, ge_iff_le, this]
    rw [I_le (by omega) (by omega) (by omega) g3]; simpa using he0
  have hl1 := tr_rgLoop1 g r.groups hgs ⟨g1, g2, g3⟩ hl (r.groups.length - (i + 1)) (i + 1) fuel rfl (by omega) (by omega)
  have hb : (goOf g).begin = Int64.ofNat g.begin := I_nat _
  have hee : (goOf g).end_ = Int64.ofNat g.end_.toNat := by
    simp only [goOf]; rw [← I_nat]; congr 1; omega
  have hnc : ((r.groups.drop (i + 1)).takeWhile fun h => h.end_ ≤ g.end_).length ≤ r.groups.length - (i + 1) := by
    have := (List.takeWhile_sublist (l := r.groups.drop (i + 1)) (fun h : GI => decide (h.end_ ≤ g.end_))).length_le
    simpa using this
  generalize hnce : ((r.groups.drop (i + 1)).takeWhile fun h => h.end_ ≤ g.end_).length = nc at hl1 hnc ⊢
  have hst : Go.sliceTo r.data (Int64.ofNat g.begin) = .ok (r.data.take g.begin) := by
    rw [sliceTo_ofNat _ g1]; simp; omega
  have hsf : Go.sliceFrom r.data (Int64.ofNat g.end_.toNat) = .ok (r.data.drop g.end_.toNat) := by
    rw [sliceFrom_ofNat _ (by omega)]; simp [hel]
  have hgt : Go.sliceTo (r.groups.map goOf) (Int64.ofNat i) = .ok ((r.groups.take i).map goOf) := by
    rw [sliceTo_ofNat _ (by omega)]; simp [List.map_take]; omega
  have hgf : Go.sliceFrom (r.groups.map goOf) (Int64.ofNat (i + 1 + nc)) = .ok ((r.groups.drop (i + 1 + nc)).map goOf) := by
    rw [sliceFrom_ofNat _ (by omega)]; simp [List.map_drop]; omega
  have hn : (goOf g).end_ - (goOf g).begin = I (g.end_ - g.begin) := by simp only [goOf, I_sub]
  have hl2 := tr_rgLoop2 g ⟨g1, g2, g3⟩ hbe' (r.groups.take i ++ r.groups.drop (i + 1 + nc)).length
    (by simp only [List.length_append, List.length_take, List.length_drop]; omega)
    (r.groups.take i ++ r.groups.drop (i + 1 + nc)) [] fuel (by simp)
    (by
      intro x hx
      rcases List.mem_append.mp hx with hx | hx
      · exact hgs x (List.mem_of_mem_take hx)
      · exact hgs x (List.mem_of_mem_drop hx))
    (by simp only [List.length_append, List.length_take, List.length_drop]; omega)
  simp only [List.map_nil, List.nil_append, List.length_nil] at hl2
  rw [show Int64.ofNat 0 = (0 : Int64) from rfl] at hl2
  simp only [Translated.recordedBits_removeGroup, hidx, M_ok_bind, Go.assert, i64_ofNat_add_one, hl1, hb, hee, hst, hsf,
    hgt, hgf]
  rw [← hb, ← hee, hn]
  rw [show Go.glen ((r.groups.take i).map goOf ++ (r.groups.drop (i + 1 + nc)).map goOf) =
      Int64.ofNat (r.groups.take i ++ r.groups.drop (i + 1 + nc)).length by simp [Go.glen]]
  rw [← List.map_append]
  rw [hl2, hass]
  rfl

/-! ### `prune` -/

/-- the loop of `prune()` -/
theorem tr_pruneLoop1 : ∀ (fM i : Nat) (r r' : Rec) (fT : Nat), r.Small → i ≤ r.groups.length →
    2 * r.groups.length + 3 ≤ fT + i → r.groups.length - i < fM → Rec.pruneGo fM i r = some r' →
    r'.Small ∧ ∃ i', Translated.recordedBits_prune_loop1 fT (Int64.ofNat i) r.data (r.groups.map goOf) =
      .ok (Int64.ofNat i', r'.data, r'.groups.map goOf) := by
  intro fM
  induction fM with
  | zero => intro i r r' fT _ _ _ h; omega
  | succ fM ih =>
    intro i r r' fT hs hi hf hm h
    obtain ⟨f, rfl⟩ : ∃ f, fT = f + 1 := ⟨fT - 1, by omega⟩
    have hl := hs.2.1
    have hcmp : decide (Int64.ofNat i < Go.glen (r.groups.map goOf)) = decide (i < r.groups.length) := by
      rw [show Go.glen (r.groups.map goOf) = Int64.ofNat (r.groups.map goOf).length from rfl, i64_lt_ofNat (by omega) _ (by simp; omega)]
      simp
    unfold Rec.pruneGo at h
    cases hg : r.groups[i]? with
    | none =>
      rw [hg] at h
      obtain rfl : r = r' := Option.some.inj h
      have hil : ¬ i < r.groups.length := by
        intro hlt; rw [List.getElem?_eq_getElem hlt] at hg; cases hg
      refine ⟨hs, i, ?_⟩
      simp only [Translated.recordedBits_prune_loop1, hcmp, hil, decide_false, Bool.false_eq_true, if_false, pure, Except.pure]
    | some g =>
      rw [hg] at h
      dsimp only at h
      have hil : i < r.groups.length := (List.getElem?_eq_some_iff.mp hg).1
      have hidx : Go.idx (r.groups.map goOf) (Int64.ofNat i) = .ok (goOf g) := by
        rw [idx_ofNat _ (by omega)]; simp [hg]
      by_cases hd : g.discard = true
      · rw [if_pos hd] at h
        cases hrm : r.removeGroup i with
        | none => rw [hrm] at h; simp at h
        | some r1 =>
          rw [hrm] at h
          simp only [Option.bind_some] at h
          obtain ⟨hs1, hlt, hge⟩ := removeGroup_small r r1 i hs hrm
          have htr := tr_removeGroup r r1 hs i f (by omega) hrm
          obtain ⟨hs', i', hi'⟩ := ih i r1 r' f hs1 hge (by omega) (by omega) h
          refine ⟨hs', i', ?_⟩
          rw [Translated.recordedBits_prune_loop1]
          simp only [hcmp, hil, decide_true, if_true, hidx, M_ok_bind, pure, Except.pure]
          have hdd : (goOf g).discard = true := hd
          simp only [hdd, if_true, htr, M_ok_bind]
          exact hi'
      · rw [if_neg hd] at h
        obtain ⟨hs', i', hi'⟩ := ih (i + 1) r r' f hs (by omega) (by omega) (by omega) h
        refine ⟨hs', i', ?_⟩
        rw [Translated.recordedBits_prune_loop1]
        simp only [hcmp, hil, decide_true, if_true, hidx, M_ok_bind, pure, Except.pure]
        have hdd : (goOf g).discard = false := by simpa [goOf] using hd
        simp only [hdd, Bool.false_eq_true, if_false, M_ok_bind, i64_ofNat_add_one]
        exact hi'

/-- the closing assertions of `prune()` -/
theorem tr_pruneLoop2 (gs : List GI) (hs : ∀ h ∈ gs, h.Small) (hl : gs.length < 2 ^ 61) :
    ∀ (k j fT : Nat), gs.length - j = k → j ≤ gs.length → k < fT →
    ((gs.drop j).all fun g => (g.begin : Int) != g.end_) = true →
    Translated.recordedBits_prune_loop2 (Int64.ofNat gs.length) (gs.map goOf) fT (Int64.ofNat j) = .ok (Int64.ofNat gs.length) := by
  intro k
  induction k with
  | zero =>
    intro j fT hk hj hf _
    obtain ⟨f, rfl⟩ : ∃ f, fT = f + 1 := ⟨fT - 1, by omega⟩
    have hjl : j = gs.length := by omega
    have hc : decide (Int64.ofNat j < Int64.ofNat gs.length) = false := by
      rw [i64_lt_ofNat (by omega) _ (by omega)]; simp [hjl]
    simp only [Translated.recordedBits_prune_loop2, hc, Bool.false_eq_true, if_false, pure, Except.pure]
    rw [hjl]
  | succ k ih =>
    intro j fT hk hj hf hall
    obtain ⟨f, rfl⟩ : ∃ f, fT = f + 1 := ⟨fT - 1, by omega⟩
    have hjl : j < gs.length := by omega
    have hc : decide (Int64.ofNat j < Int64.ofNat gs.length) = true := by
      rw [i64_lt_ofNat (by omega) _ (by omega)]; simp [hjl]
    have hidx : Go.idx (gs.map goOf) (Int64.ofNat j) = .ok (goOf gs[j]) := by
      rw [idx_ofNat _ (by omega)]; simp [hjl]
    have hsm := hs _ (List.getElem_mem hjl)
    rw [List.drop_eq_getElem_cons hjl, List.all_cons, Bool.and_eq_true] at hall
    have hne : ((goOf gs[j]).begin != (goOf gs[j]).end_) = true := by
      simp only [goOf]
      rw [I_inj (by omega) (by have := hsm.1; omega) (by have := hsm.2.1; omega) hsm.2.2]
      exact hall.1
    simp only [Translated.recordedBits_prune_loop2, hc, if_true, hidx, M_ok_bind, hne, Go.assert, i64_ofNat_add_one]
    exact ih (j + 1) f (by omega) (by omega) (by omega) hall.2

/-- **`recordedBits.prune` of /repo is the model's `Rec.prune`** wherever the model's succeeds (the theorems about recordings show
    that it always does on the recording of a run) -/
theorem tr_prune (r r' : Rec) (hs : r.Small) (fuel : Nat) (hf : 2 * r.groups.length + 4 ≤ fuel) (h : r.prune = some r') :
    Translated.recordedBits_prune r.data (r.groups.map goOf) true fuel = .ok (r'.data, r'.groups.map goOf, true) := by
  unfold Rec.prune at h
  cases hp : Rec.pruneGo (r.groups.length + 1) 0 r with
  | none => rw [hp] at h; simp at h
  | some r1 =>
    rw [hp] at h
    dsimp only at h
    by_cases hall : (r1.groups.all fun g => (g.begin : Int) != g.end_) = true
    · rw [if_pos hall] at h
      have : r' = r1 := (Option.some.inj h).symm
      subst this
      obtain ⟨hs', i', hi'⟩ := tr_pruneLoop1 (r.groups.length + 1) 0 r r' fuel hs (by omega) (by omega) (by omega) hp
      have hlen : r'.groups.length ≤ r.groups.length := by
        -- the loop never adds groups
        have : ∀ (fM i : Nat) (a b : Rec), Rec.pruneGo fM i a = some b → b.groups.length ≤ a.groups.length := by
          intro fM
          induction fM with
          | zero => intro i a b hab; simp [Rec.pruneGo] at hab; subst hab; exact Nat.le_refl _
          | succ fM ih =>
            intro i a b hab
            unfold Rec.pruneGo at hab
            cases hg : a.groups[i]? with
            | none => rw [hg] at hab; have := (Option.some.inj hab); subst this; exact Nat.le_refl _
            | some g =>
              rw [hg] at hab
              dsimp only at hab
              by_cases hd : g.discard = true
              · rw [if_pos hd] at hab
                cases hrm : a.removeGroup i with
                | none => rw [hrm] at hab; simp at hab
                | some a1 =>
                  rw [hrm] at hab
                  simp only [Option.bind_some] at hab
                  obtain ⟨g', hg', _, _, _, rfl⟩ := removeGroup_some a a1 i hrm
                  have := ih i _ b hab
                  simp only [List.length_map, List.length_append, List.length_take, List.length_drop] at this
                  omega
              · rw [if_neg hd] at hab; exact ih (i + 1) a b hab
        exact this _ _ _ _ hp
      have hl2 := tr_pruneLoop2 r'.groups hs'.2.2 hs'.2.1 r'.groups.length 0 fuel (by omega) (by omega) (by omega) (by simpa using hall)
      simp only [Translated.recordedBits_prune, Go.assert, if_true, M_ok_bind]
      rw [show (0 : Int64) = Int64.ofNat 0 from rfl, hi', M_ok_bind]
      simp only []
      rw [show Go.glen (r'.groups.map goOf) = Int64.ofNat r'.groups.length by simp [Go.glen], hl2]
      rfl
    · rw [if_neg hall] at h; simp at h

end Rapid
