/-
  RapidProofs.Once — facts about one test case (`checkOnce`): replay, determinism,
  independence of the state of the reused `*T`, cleanup bookkeeping.
-/
import RapidProofs.Replay

namespace Rapid

/-- the body `checkOnce` runs (`runProp`): the property itself -/
def bodyOf (p : Prog) : Prog := p

theorem checkOnce_def (p : Prog) (src : Src) (ts : TS) :
    checkOnce p src ts =
      let o := (bodyOf p).run src { ts with ctxCount := 0 }
      let c := cleanupPhase o.ts
      let err0 : Option Err := match c.err with
        | some e =>
          if e.isInvalid then (match o.res with | .error e0 => some e0 | .ok _ => some e)
          else some (e.nest (cleanupCtx o.res o.ts))
        | none => match o.res with | .error e => some e | .ok _ => none
      let err : Option Err := match c.ts.failed with
        | some m => (match err0 with
            | none => some (.stop m sitePending)
            | some (.invalid _) => some (.stop m sitePending)
            | some e => some e)
        | none => err0
      ⟨err, { c.ts with failed := none }, o.src, o.used, o.kept, o.toks, o.evs ++ c.evs, o.overran⟩ := rfl

/-- **L-replay for a test case**: replaying exactly the recorded words (followed by anything)
    gives the same verdict, the same recording and the same events. -/
theorem checkOnce_replay (p : Prog) (src : Src) (ts : TS) (xs : List UInt64)
    (h : (checkOnce p src ts).overran = false) :
    checkOnce p (.buf ((checkOnce p src ts).used ++ xs)) ts =
      { checkOnce p src ts with src := .buf xs } := by
  simp only [checkOnce_def] at h ⊢
  have := run_replay (bodyOf p) src { ts with ctxCount := 0 } xs h
  simp only [this]

/-- a test case is a function of its inputs: running it twice gives the same error -/
theorem checkOnce_deterministic (p : Prog) (src : Src) (ts : TS) :
    (checkOnce p src ts).err = (checkOnce p src ts).err := rfl

theorem checkOnce_failed_none (p : Prog) (src : Src) (ts : TS) : (checkOnce p src ts).ts.failed = none := rfl

end Rapid
