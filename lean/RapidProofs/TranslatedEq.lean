/-
  RapidProofs.TranslatedEq — the definitions translated from /repo's Go source on every run
  (RapidModel/Generated/Translated.lean) compute what the hand-written model computes: for
  `bitmask64`, `ufloatFracBits`, `ufloat64Parts`, `ufloat64FromParts`, the two `switch` blocks of
  `genUfloatRange` and `jsf64ctx.rand` the tie between model and source is a theorem, not a sample.
-/
import RapidModel.Generated.Translated
import RapidProofs.FloatBits
import RapidModel.Engine

namespace Rapid

open Rapid.Translated in
/-- `bitmask64` -/
theorem tr_bitmask64 (n : UInt64) : Translated.bitmask64 n = bitmask64 n.toNat := by
  simp only [Translated.bitmask64, Go.shl64, bitmask64]
  by_cases h : n ≥ 64
  · have h' : n.toNat ≥ 64 := by rw [ge_iff_le, UInt64.le_iff_toNat_le] at h; exact h
    simp only [h, h', if_true]; decide
  · have h' : ¬ n.toNat ≥ 64 := by rw [ge_iff_le, UInt64.le_iff_toNat_le] at h; exact h
    simp only [h, h', if_false]
    have : n.toNat.toUInt64 = n := by
      apply UInt64.toNat_inj.mp; simp only [Nat.toUInt64, UInt64.toNat_ofNat']; exact Nat.mod_eq_of_lt n.toNat_lt
    rw [this]

theorem i32_le_zero (e : Int32) : (e ≤ 0) ↔ e.toInt ≤ 0 := by
  rw [Int32.le_iff_toInt_le]; simp

theorem i32_ext_toNat (e : Int32) (h : 0 ≤ e.toInt) : (e.toInt64.toUInt64).toNat = e.toInt.toNat := by
  have h1 : e.toInt64.toInt = e.toInt := Int32.toInt_toInt64 e
  have hlt : e.toInt < 2 ^ 31 := Int32.toInt_lt e
  have : (e.toInt64.toUInt64).toNat = (e.toInt64.toInt % 2 ^ 64).toNat := by
    show e.toInt64.toBitVec.toNat = _
    rw [show e.toInt64.toInt = e.toInt64.toBitVec.toInt from rfl, BitVec.toInt_eq_toNat_cond]
    have := e.toInt64.toBitVec.isLt
    split <;> omega
  rw [this, h1]; omega

/-- `ufloatFracBits` -/
theorem tr_fracBits (e : Int32) (s : UInt64) : (Translated.ufloatFracBits e s).toNat = fracBits e.toInt s.toNat := by
  simp only [Translated.ufloatFracBits, fracBits, decide_eq_true_eq]
  by_cases h0 : e ≤ 0
  · have := (i32_le_zero e).mp h0
    simp only [h0, this, if_true]
  · have h0' : ¬ e.toInt ≤ 0 := fun h => h0 ((i32_le_zero e).mpr h)
    simp only [h0, h0', if_false]
    have hx := i32_ext_toNat e (by omega)
    by_cases h1 : e.toInt64.toUInt64 < s
    · have h1' : e.toInt.toNat < s.toNat := by rw [UInt64.lt_iff_toNat_lt, hx] at h1; exact h1
      simp only [h1, h1', if_true]
      rw [UInt64.toNat_sub_of_le _ _ (by rw [UInt64.le_iff_toNat_le]; omega), hx]
    · have h1' : ¬ e.toInt.toNat < s.toNat := by rw [UInt64.lt_iff_toNat_lt, hx] at h1; exact h1
      simp only [h1, h1', if_false]; rfl

/-- `jsf64ctx.rand`: the value and the new state -/
theorem tr_jsfRand (a b c d : UInt64) :
    Translated.jsfRand a b c d =
      ((Jsf.rand ⟨a, b, c, d⟩).1, ((Jsf.rand ⟨a, b, c, d⟩).2.a, (Jsf.rand ⟨a, b, c, d⟩).2.b, (Jsf.rand ⟨a, b, c, d⟩).2.c, (Jsf.rand ⟨a, b, c, d⟩).2.d)) := by
  rfl

/-! ### `ufloat64Parts`, `ufloat64FromParts` -/

/-- a small unsigned number read as `int32` -/
theorem small_toInt32 (x : UInt64) (h : x.toNat < 2 ^ 31) : (x.toUInt32.toInt32).toInt = x.toNat := by
  have h1 : x.toUInt32.toNat = x.toNat := by
    simp only [UInt64.toNat_toUInt32]; exact Nat.mod_eq_of_lt (by omega)
  show x.toUInt32.toBitVec.toInt = _
  rw [BitVec.toInt_eq_toNat_of_lt (by show 2 * x.toUInt32.toNat < 2 ^ 32; omega)]
  show (x.toUInt32.toNat : Int) = _
  rw [h1]

theorem go_shr64_lt (a n : UInt64) (h : n.toNat < 64) : Go.shr64 a n = a >>> n := by
  have : ¬ n ≥ 64 := by rw [ge_iff_le, UInt64.le_iff_toNat_le]; simp; omega
  simp [Go.shr64, this]

theorem go_shl64_lt (a n : UInt64) (h : n.toNat < 64) : Go.shl64 a n = a <<< n := by
  have : ¬ n ≥ 64 := by rw [ge_iff_le, UInt64.le_iff_toNat_le]; simp; omega
  simp [Go.shl64, this]

theorem nat_toUInt64_of_toNat (n : UInt64) : n.toNat.toUInt64 = n := by
  apply UInt64.toNat_inj.mp; simp only [Nat.toUInt64, UInt64.toNat_ofNat']; exact Nat.mod_eq_of_lt n.toNat_lt

/-- the exponent computed in `int32` is the model's -/
theorem tr_exp64 (u : UInt64) (hu : u.toNat < 2 ^ 63) :
    (((Go.shr64 u 52).toUInt32.toInt32) - ((Translated.bitmask64 10).toUInt32.toInt32)).toInt =
      ((u >>> (52 : Nat).toUInt64).toNat : Int) - (fmt64.bias : Int) := by
  have hb : (Translated.bitmask64 10).toUInt32.toInt32 = 1023 := by rw [tr_bitmask64]; decide
  have hbias : fmt64.bias = 1023 := by decide
  have h52 : ((52 : Nat).toUInt64) = (52 : UInt64) := rfl
  rw [go_shr64_lt u 52 (by decide), hb, hbias, h52]
  have hx : (u >>> 52).toNat < 2 ^ 11 := by
    rw [UInt64.toNat_shiftRight]
    show u.toNat >>> (52 % 64) < _
    rw [Nat.shiftRight_eq_div_pow]
    apply Nat.div_lt_of_lt_mul
    show u.toNat < 2 ^ 52 * 2 ^ 11
    rw [← Nat.pow_add]; exact hu
  have h1 := small_toInt32 (u >>> 52) (by omega)
  rw [Int32.toInt_sub, h1]
  have : (1023 : Int32).toInt = 1023 := by decide
  rw [this]
  apply Int.bmod_eq_of_le <;> omega

/-- **`ufloat64Parts`**: exponent (as an integer), integer and fractional significand -/
theorem tr_parts64 (f : UInt64) :
    ((Translated.ufloat64Parts f).1.toInt, (Translated.ufloat64Parts f).2.1, (Translated.ufloat64Parts f).2.2) = fmt64.parts f := by
  have hm : (9223372036854775807 : UInt64) = bitmask64 (fmt64.S + fmt64.E) := by decide
  have hu : (f &&& 9223372036854775807).toNat < 2 ^ 63 := by
    rw [hm]; exact fmt64.mag_lt wf64 f
  have he := tr_exp64 (f &&& 9223372036854775807) hu
  have hfb := tr_fracBits (((Go.shr64 (f &&& 9223372036854775807) 52).toUInt32.toInt32) - ((Translated.bitmask64 10).toUInt32.toInt32)) 52
  have h52 : (52 : UInt64).toNat = 52 := rfl
  rw [h52, he] at hfb
  have hle : (Translated.ufloatFracBits (((Go.shr64 (f &&& 9223372036854775807) 52).toUInt32.toInt32) - ((Translated.bitmask64 10).toUInt32.toInt32)) 52).toNat ≤ 52 := by
    rw [hfb]; exact fracBits_le _ _
  have hS : fmt64.S = 52 := rfl
  have hS' : fmt64.S.toUInt64 = (52 : Nat).toUInt64 := rfl
  have key : (fracBits (((f &&& 9223372036854775807) >>> (52 : Nat).toUInt64).toNat - (fmt64.bias : Int)) fmt64.S).toUInt64 =
      Translated.ufloatFracBits (((Go.shr64 (f &&& 9223372036854775807) 52).toUInt32.toInt32) - ((Translated.bitmask64 10).toUInt32.toInt32)) 52 := by
    rw [hS, ← hfb, nat_toUInt64_of_toNat]
  simp only [Translated.ufloat64Parts, FFmt.parts, FFmt.mag, ← hm, hS']
  generalize ((Go.shr64 (f &&& 9223372036854775807) 52).toUInt32.toInt32 - (Translated.bitmask64 10).toUInt32.toInt32) = E32 at he hfb hle key ⊢
  rw [he, go_shr64_lt _ _ (by omega), tr_bitmask64 52, tr_bitmask64 (Translated.ufloatFracBits E32 52), key, hfb]
  rfl

theorem ofInt_toInt_i32 (e : Int32) : Int64.ofInt e.toInt = e.toInt64 := by
  apply Int64.toInt_inj.mp
  rw [Int32.toInt_toInt64]
  have h1 := Int32.toInt_lt e; have h2 := Int32.le_toInt e
  exact Int64.toInt_ofInt_of_le (by omega) (by omega)

/-- **`ufloat64FromParts`** -/
theorem tr_fromParts64 (e : Int32) (si sf : UInt64) :
    Translated.ufloat64FromParts e si sf = fmt64.ufromParts e.toInt si sf := by
  have hfb := tr_fracBits e 52
  have h52 : (52 : UInt64).toNat = 52 := rfl
  rw [h52] at hfb
  have hle : (Translated.ufloatFracBits e 52).toNat ≤ 52 := by rw [hfb]; exact fracBits_le _ _
  have hall : ∀ x : UInt64, x &&& bitmask64 (1 + fmt64.E + fmt64.S) = x := by
    intro x
    have : bitmask64 (1 + fmt64.E + fmt64.S) = 0xFFFFFFFFFFFFFFFF := by decide
    rw [this]
    apply UInt64.eq_of_toBitVec_eq; simp
    apply BitVec.eq_of_toNat_eq; simp
    have h2 : (18446744073709551615 : Nat) = 2 ^ 64 - 1 := by decide
    rw [h2, Nat.and_two_pow_sub_one_eq_mod]; exact Nat.mod_eq_of_lt x.toBitVec.isLt
  simp only [Translated.ufloat64FromParts, FFmt.ufromParts]
  rw [hall, go_shl64_lt _ 52 (by decide), go_shl64_lt _ _ (by omega), tr_bitmask64, ofInt_toInt_i32]
  have e1 : (fmt64.S).toUInt64 = (52 : UInt64) := rfl
  have e2 : bitmask64 (10 : UInt64).toNat = bitmask64 (fmt64.E - 1) := rfl
  have key : (fracBits e.toInt fmt64.S).toUInt64 = Translated.ufloatFracBits e 52 := by
    rw [show fmt64.S = 52 from rfl, ← hfb, nat_toUInt64_of_toNat]
  rw [e1, e2, key]

/-! ### the two `switch` blocks of `genUfloatRange` -/

theorem i32_beq_iff (a b : Int32) : (a == b) = decide (a.toInt = b.toInt) := by
  by_cases h : a = b
  · subst h; simp
  · have : ¬ a.toInt = b.toInt := fun h' => h (Int32.toInt_inj.mp h')
    simp [h, this]

/-- **first switch**: the bounds of the integer significand -/
theorem tr_switchSI (e : Int64) (fb S : UInt64) (l r : Bool) (maxExp minExp : Int32) (maxSI minSI F0 F1 : UInt64)
    (he : e.toInt32.toInt = e.toInt) (hfb : fb.toNat = fracBits e.toInt S.toNat) :
    Translated.ufloatSwitchSI e fb l maxExp maxSI minExp minSI r S =
      siBounds S.toNat (minExp.toInt, minSI, F0) (maxExp.toInt, maxSI, F1) e.toInt l r := by
  have hle : fb ≤ S := by rw [UInt64.le_iff_toNat_le, hfb]; exact fracBits_le _ _
  have hsub : (S - fb).toNat = S.toNat - fracBits e.toInt S.toNat := by rw [UInt64.toNat_sub_of_le _ _ hle, hfb]
  simp only [Translated.ufloatSwitchSI, siBounds, tr_bitmask64, hsub, i32_beq_iff, he, decide_eq_true_eq]

/-- **second switch**: the bounds of the fractional significand -/
theorem tr_switchSF (e : Int64) (fb S : UInt64) (l r : Bool) (maxExp minExp : Int32) (maxSI minSI F0 F1 si : UInt64)
    (he : e.toInt32.toInt = e.toInt) (hfb : fb.toNat = fracBits e.toInt S.toNat) :
    Translated.ufloatSwitchSF e fb l maxExp F1 maxSI minExp F0 minSI r si =
      sfBounds S.toNat (minExp.toInt, minSI, F0) (maxExp.toInt, maxSI, F1) e.toInt l r si := by
  simp only [Translated.ufloatSwitchSF, sfBounds, tr_bitmask64, hfb, i32_beq_iff, he, Bool.and_eq_true, decide_eq_true_eq,
    beq_iff_eq]

/-! ### the float32 variants (computed in `uint32` in Go, in 64 bits with a final mask in the model) -/

theorem go_shl32_lt (a : UInt32) (n : UInt64) (h : n.toNat < 32) : Go.shl32 a n = a <<< n.toUInt32 := by
  have : ¬ n ≥ 32 := by rw [ge_iff_le, UInt64.le_iff_toNat_le]; simp; omega
  simp [Go.shl32, this]

theorem go_shr32_lt (a : UInt32) (n : UInt64) (h : n.toNat < 32) : Go.shr32 a n = a >>> n.toUInt32 := by
  have : ¬ n ≥ 32 := by rw [ge_iff_le, UInt64.le_iff_toNat_le]; simp; omega
  simp [Go.shr32, this]

/-- sign extension to 64 bits followed by truncation to 32 bits is the identity -/
theorem i32_ext_trunc (e : Int32) : e.toInt64.toUInt64.toUInt32 = e.toUInt32 := by
  apply UInt32.toNat_inj.mp
  have h1 : e.toInt64.toInt = e.toInt := Int32.toInt_toInt64 e
  have hlt : e.toInt < 2 ^ 31 := Int32.toInt_lt e
  have hge : -2 ^ 31 ≤ e.toInt := Int32.le_toInt e
  have h64 : (e.toInt64.toUInt64).toNat = (e.toInt % 2 ^ 64).toNat := by
    rw [← h1]
    show e.toInt64.toBitVec.toNat = _
    rw [show e.toInt64.toInt = e.toInt64.toBitVec.toInt from rfl, BitVec.toInt_eq_toNat_cond]
    have := e.toInt64.toBitVec.isLt
    split <;> omega
  have h32 : e.toUInt32.toNat = (e.toInt % 2 ^ 32).toNat := by
    show e.toBitVec.toNat = _
    rw [show e.toInt = e.toBitVec.toInt from rfl, BitVec.toInt_eq_toNat_cond]
    have := e.toBitVec.isLt
    split <;> omega
  rw [UInt64.toNat_toUInt32, h64, h32]
  omega

theorem u64_mod32_eq_mask (x : UInt64) : x % 4294967296 = x &&& bitmask64 32 := by
  apply UInt64.toNat_inj.mp
  rw [and_mask_toNat x (by decide), UInt64.toNat_mod]; rfl

/-- **`ufloat32FromParts`**: the 32-bit pattern, zero-extended, is the model's -/
theorem tr_fromParts32 (e : Int32) (si sf : UInt64) :
    (Translated.ufloat32FromParts e si sf).toUInt64 = fmt32.ufromParts e.toInt si sf := by
  have hfb := tr_fracBits e 23
  have h23 : (23 : UInt64).toNat = 23 := rfl
  rw [h23] at hfb
  have hle : (Translated.ufloatFracBits e 23).toNat ≤ 23 := by rw [hfb]; exact fracBits_le _ _
  have key : (fracBits e.toInt fmt32.S).toUInt64 = Translated.ufloatFracBits e 23 := by
    rw [show fmt32.S = 23 from rfl, ← hfb, nat_toUInt64_of_toNat]
  have hlt32 : Translated.ufloatFracBits e 23 < 32 := by rw [UInt64.lt_iff_toNat_lt]; simp; omega
  simp only [FFmt.ufromParts]
  rw [show bitmask64 (1 + fmt32.E + fmt32.S) = bitmask64 32 from rfl, ← u64_mod32_eq_mask, ← UInt64.toUInt64_toUInt32]
  congr 1
  rw [UInt64.toUInt32_or, UInt64.toUInt32_or, UInt64.toUInt32_shiftLeft _ _ (by decide), key,
    UInt64.toUInt32_shiftLeft _ _ hlt32, UInt64.toUInt32_add, ofInt_toInt_i32, i32_ext_trunc]
  simp only [Translated.ufloat32FromParts]
  rw [go_shl32_lt _ 23 (by decide), go_shl32_lt _ _ (by omega), tr_bitmask64]
  rfl

/-- **`ufloat32Parts`** -/
theorem tr_parts32 (f : UInt32) :
    ((Translated.ufloat32Parts f).1.toInt, (Translated.ufloat32Parts f).2.1, (Translated.ufloat32Parts f).2.2) = fmt32.parts f.toUInt64 := by
  have hm : ((2147483647 : UInt32).toUInt64) = bitmask64 (fmt32.S + fmt32.E) := by decide
  have hu : (f &&& 2147483647).toUInt64 = fmt32.mag f.toUInt64 := by
    rw [UInt32.toUInt64_and, hm]; rfl
  have hulen : (f &&& 2147483647).toNat < 2 ^ 31 := by
    have h1 := fmt32.mag_lt wf32 f.toUInt64
    rw [← hu] at h1
    have h2 : ((f &&& 2147483647).toUInt64).toNat = (f &&& 2147483647).toNat := UInt32.toNat_toUInt64 _
    rw [h2] at h1
    exact h1
  -- the exponent
  have hx : ((Go.shr32 (f &&& 2147483647) 23)).toNat = (fmt32.mag f.toUInt64 >>> (23 : Nat).toUInt64).toNat := by
    rw [go_shr32_lt _ 23 (by decide), ← hu]
    simp only [UInt32.toNat_shiftRight, UInt64.toNat_shiftRight, UInt32.toNat_toUInt64]
    rfl
  have hxlt : (Go.shr32 (f &&& 2147483647) 23).toNat < 2 ^ 8 := by
    rw [go_shr32_lt _ 23 (by decide)]
    simp only [UInt32.toNat_shiftRight]
    show (f &&& 2147483647).toNat >>> (23 % 32) < _
    rw [Nat.shiftRight_eq_div_pow]
    apply Nat.div_lt_of_lt_mul
    show (f &&& 2147483647).toNat < 2 ^ 23 * 2 ^ 8
    rw [← Nat.pow_add]; exact hulen
  have he : (((Go.shr32 (f &&& 2147483647) 23).toInt32) - ((Translated.bitmask64 7).toUInt32.toInt32)).toInt =
      ((fmt32.mag f.toUInt64 >>> (23 : Nat).toUInt64).toNat : Int) - (fmt32.bias : Int) := by
    have hb : (Translated.bitmask64 7).toUInt32.toInt32 = 127 := by rw [tr_bitmask64]; decide
    have hbias : fmt32.bias = 127 := by decide
    rw [hb, hbias, ← hx, Int32.toInt_sub]
    have h1 : ((Go.shr32 (f &&& 2147483647) 23).toInt32).toInt = (Go.shr32 (f &&& 2147483647) 23).toNat := by
      show (Go.shr32 (f &&& 2147483647) 23).toBitVec.toInt = _
      rw [BitVec.toInt_eq_toNat_of_lt (by show 2 * (Go.shr32 (f &&& 2147483647) 23).toNat < 2 ^ 32; omega)]; rfl
    have : (127 : Int32).toInt = 127 := by decide
    rw [h1, this]
    apply Int.bmod_eq_of_le <;> omega
  have hfb := tr_fracBits (((Go.shr32 (f &&& 2147483647) 23).toInt32) - ((Translated.bitmask64 7).toUInt32.toInt32)) 23
  have h23 : (23 : UInt64).toNat = 23 := rfl
  rw [h23, he] at hfb
  have hle : (Translated.ufloatFracBits (((Go.shr32 (f &&& 2147483647) 23).toInt32) - ((Translated.bitmask64 7).toUInt32.toInt32)) 23).toNat ≤ 23 := by
    rw [hfb]; exact fracBits_le _ _
  have hS : fmt32.S = 23 := rfl
  have hS' : fmt32.S.toUInt64 = (23 : Nat).toUInt64 := rfl
  have key : (fracBits ((fmt32.mag f.toUInt64 >>> (23 : Nat).toUInt64).toNat - (fmt32.bias : Int)) fmt32.S).toUInt64 =
      Translated.ufloatFracBits (((Go.shr32 (f &&& 2147483647) 23).toInt32) - ((Translated.bitmask64 7).toUInt32.toInt32)) 23 := by
    rw [hS, ← hfb, nat_toUInt64_of_toNat]
  simp only [Translated.ufloat32Parts, FFmt.parts, hS']
  generalize ((Go.shr32 (f &&& 2147483647) 23).toInt32 - (Translated.bitmask64 7).toUInt32.toInt32) = E32 at he hfb hle key ⊢
  rw [he, go_shr64_lt _ _ (by omega), tr_bitmask64 23, tr_bitmask64 (Translated.ufloatFracBits E32 23), key, hfb, hS, hu]
  rfl

/-! ### `repeat.reject` -/

theorem i64_ofNat_toInt {n : Nat} (h : n < 2 ^ 62) : (Int64.ofNat n).toInt = n := by
  rw [Int64.toInt_ofNat_of_lt (by omega)]

/-- **`repeat.reject`**: after `more()` has counted the element (`count = c + 1`) a rejection either
    panics with "too many rejections" — exactly when the model's `tooManyRejections` says so — or
    leaves the state the model's loop continues with (forced stop included) -/
theorem tr_repeatReject (c rj mn : Nat) (f rej : Bool) (hc : c < 2 ^ 60) (hr : rj < 2 ^ 60) (hm : mn < 2 ^ 62)
    (cfg : RCfg) (hcfg : cfg.minC = mn) :
    Translated.repeatReject (Int64.ofNat (c + 1)) f (Int64.ofNat mn) rej (Int64.ofNat rj) =
      if tooManyRejections cfg ⟨c, rj, f⟩ then none
      else some (Int64.ofNat c, (f || decide (rj + 1 > c * 2)), Int64.ofNat mn, true, Int64.ofNat (rj + 1)) := by
  have e1 : Int64.ofNat (c + 1) - 1 = Int64.ofNat c := by
    apply Int64.toInt_inj.mp
    rw [Int64.toInt_sub, i64_ofNat_toInt (by omega), i64_ofNat_toInt (by omega)]
    have : (1 : Int64).toInt = 1 := by decide
    rw [this]
    have h2 : ((c + 1 : Nat) : Int) - 1 = (c : Int) := by omega
    rw [h2]; apply Int.bmod_eq_of_le <;> omega
  have e2 : Int64.ofNat rj + 1 = Int64.ofNat (rj + 1) := by
    apply Int64.toInt_inj.mp
    rw [Int64.toInt_add, i64_ofNat_toInt (by omega), i64_ofNat_toInt (by omega)]
    have : (1 : Int64).toInt = 1 := by decide
    rw [this]
    have h2 : (rj : Int) + 1 = ((rj + 1 : Nat) : Int) := by omega
    rw [h2]; apply Int.bmod_eq_of_le <;> omega
  have e3 : (Int64.ofNat c * 2).toInt = (c : Int) * 2 := by
    rw [Int64.toInt_mul, i64_ofNat_toInt (by omega)]
    have : (2 : Int64).toInt = 2 := by decide
    rw [this]; apply Int.bmod_eq_of_le <;> omega
  have g1 : (Int64.ofNat (rj + 1) > Int64.ofNat c * 2) ↔ rj + 1 > c * 2 := by
    rw [gt_iff_lt, Int64.lt_iff_toInt_lt, e3, i64_ofNat_toInt (by omega)]; omega
  have g2 : (Int64.ofNat c ≥ Int64.ofNat mn) ↔ c ≥ mn := by
    rw [ge_iff_le, Int64.le_iff_toInt_le, i64_ofNat_toInt (n := c) (by omega), i64_ofNat_toInt hm]; omega
  simp only [Translated.repeatReject, e1, e2, decide_eq_true_eq, g1, g2, tooManyRejections, hcfg]
  by_cases h1 : rj + 1 > c * 2
  · by_cases h2 : c ≥ mn
    · simp [h1, h2]
    · simp [h1, h2]
  · simp [h1]

/-! ### engine.go: how many test cases run, when Check passes, the seed schedule -/

/-- the loop condition of `findBug` is the model's (`findBugLoop`) -/
theorem tr_findBugLoopCond (valid invalid checks : Nat) (hv : valid < 2 ^ 58) (hi : invalid < 2 ^ 58) (hc : checks < 2 ^ 58) :
    Translated.findBugLoopCond (Int64.ofNat checks) (Int64.ofNat invalid) (Int64.ofNat valid) =
      decide (valid < checks ∧ invalid < checks * invalidChecksMult) := by
  have e3 : (Int64.ofNat checks * 10).toInt = (checks : Int) * 10 := by
    rw [Int64.toInt_mul, i64_ofNat_toInt (by omega)]
    have : (10 : Int64).toInt = 10 := by decide
    rw [this]; apply Int.bmod_eq_of_le <;> omega
  have g1 : (Int64.ofNat valid < Int64.ofNat checks) ↔ valid < checks := by
    rw [Int64.lt_iff_toInt_lt, i64_ofNat_toInt (by omega), i64_ofNat_toInt (by omega)]; omega
  have g2 : (Int64.ofNat invalid < Int64.ofNat checks * 10) ↔ invalid < checks * invalidChecksMult := by
    rw [Int64.lt_iff_toInt_lt, e3, i64_ofNat_toInt (by omega)]
    have : invalidChecksMult = 10 := rfl
    rw [this]; omega
  simp only [Translated.findBugLoopCond, g1, g2]
  by_cases h1 : valid < checks <;> by_cases h2 : invalid < checks * invalidChecksMult <;> simp [h1, h2]

/-- the pass condition of `checkTB` is the model's (`verdict`) -/
theorem tr_checkTBPassCond (valid checks : Nat) (early : Bool) (hv : valid < 2 ^ 58) (hc : checks < 2 ^ 58) :
    Translated.checkTBPassCond (Int64.ofNat checks) early (Int64.ofNat valid) =
      decide (valid = checks ∨ (early = true ∧ valid > 0)) := by
  have g1 : (Int64.ofNat valid == Int64.ofNat checks) = decide (valid = checks) := by
    by_cases h : valid = checks
    · subst h; simp
    · have : ¬ Int64.ofNat valid = Int64.ofNat checks := by
        intro he
        have := congrArg Int64.toInt he
        rw [i64_ofNat_toInt (by omega), i64_ofNat_toInt (by omega)] at this
        omega
      simp [h, this]
  have g2 : (Int64.ofNat valid > 0) ↔ valid > 0 := by
    rw [gt_iff_lt, Int64.lt_iff_toInt_lt, i64_ofNat_toInt (by omega), Int64.toInt_zero]; omega
  simp only [Translated.checkTBPassCond, g1, g2]
  cases early <;> by_cases h1 : valid = checks <;> by_cases h2 : valid > 0 <;> simp [h1, h2]

/-- the seed of test case `iter` is the previous seed plus `iter` (`findBugLoop`) -/
theorem tr_findBugSeedStep (seed : UInt64) (iter : Nat) :
    Translated.findBugSeedStep (Int64.ofNat iter) seed = seed + UInt64.ofNat iter := by
  simp only [Translated.findBugSeedStep]
  congr 1

/-! ### the loop of `genUfloatRange` that clears low bits -/

theorem tr_clearLoop (maxR : Int64) (r sfMin : UInt64) (hb : (maxR.toUInt64 - r).toNat ≤ 64) :
    ∀ (fuel : Nat) (i sf : UInt64), i ≤ maxR.toUInt64 - r → ((maxR.toUInt64 - r) - i).toNat ≤ fuel →
      Translated.ufloatClearLoop maxR r sfMin fuel i sf = clearLow sfMin ((maxR.toUInt64 - r) - i).toNat i.toNat sf := by
  intro fuel
  induction fuel with
  | zero =>
    intro i sf _ hf
    have : ((maxR.toUInt64 - r) - i).toNat = 0 := by omega
    rw [this]; rfl
  | succ n ih =>
    intro i sf hi hf
    simp only [Translated.ufloatClearLoop, decide_eq_true_eq]
    have hi' := UInt64.le_iff_toNat_le.mp hi
    have hsub : ((maxR.toUInt64 - r) - i).toNat = (maxR.toUInt64 - r).toNat - i.toNat := UInt64.toNat_sub_of_le _ _ hi
    by_cases hlt : i < maxR.toUInt64 - r
    · have hlt' := UInt64.lt_iff_toNat_lt.mp hlt
      simp only [hlt, if_true]
      have hi1 : (i + 1).toNat = i.toNat + 1 := by
        rw [UInt64.toNat_add]; simp only [UInt64.toNat_one]; apply Nat.mod_eq_of_lt; omega
      have hle1 : i + 1 ≤ maxR.toUInt64 - r := by rw [UInt64.le_iff_toNat_le, hi1]; omega
      have hsub1 : ((maxR.toUInt64 - r) - (i + 1)).toNat = (maxR.toUInt64 - r).toNat - (i.toNat + 1) := by
        rw [UInt64.toNat_sub_of_le _ _ hle1, hi1]
      have hcnt : ((maxR.toUInt64 - r) - i).toNat = ((maxR.toUInt64 - r) - (i + 1)).toNat + 1 := by omega
      rw [hcnt]
      simp only [clearLow]
      rw [go_shl64_lt _ _ (by omega), nat_toUInt64_of_toNat]
      split
      · rfl
      · rw [ih (i + 1) _ hle1 (by omega), hi1]
    · have heq : i.toNat = (maxR.toUInt64 - r).toNat := by
        have : ¬ i.toNat < (maxR.toUInt64 - r).toNat := fun h => hlt (UInt64.lt_iff_toNat_lt.mpr h)
        omega
      simp only [hlt, if_false]
      have : ((maxR.toUInt64 - r) - i).toNat = 0 := by omega
      rw [this]; rfl

end Rapid
