/-
  RapidProofs.Shortlex — `compareData` is the strict shortlex order (length first, then
  lexicographic), it is well-founded, and the recording of a run on a buffer — as recorded
  or pruned — is never larger than the buffer.
-/
import RapidProofs.Replay

namespace Rapid

theorem cmpLex_refl : ∀ a : List UInt64, cmpLex a a = 0
  | [] => rfl
  | x :: xs => by simp [cmpLex, cmpLex_refl xs]

/-- values of `cmpLex` -/
theorem cmpLex_range : ∀ a b : List UInt64, cmpLex a b = -1 ∨ cmpLex a b = 0 ∨ cmpLex a b = 1
  | [], [] => by simp [cmpLex]
  | [], _ :: _ => by simp [cmpLex]
  | _ :: _, [] => by simp [cmpLex]
  | x :: xs, y :: ys => by
    simp only [cmpLex]
    split
    · simp
    · split
      · simp
      · exact cmpLex_range xs ys

theorem u64_lt_trans {a b c : UInt64} (h1 : a < b) (h2 : b < c) : a < c := by
  rw [UInt64.lt_iff_toNat_lt] at *; omega

theorem u64_eq_of_not_lt {a b : UInt64} (h1 : ¬ a < b) (h2 : ¬ b < a) : a = b := by
  rw [UInt64.lt_iff_toNat_lt] at *
  exact UInt64.toNat_inj.mp (by omega)

theorem u64_lt_irrefl (a : UInt64) : ¬ a < a := by
  rw [UInt64.lt_iff_toNat_lt]; omega

theorem u64_lt_asymm {a b : UInt64} (h : a < b) : ¬ b < a := by
  rw [UInt64.lt_iff_toNat_lt] at *; omega

/-- lexicographic `<` on equal lengths is transitive (stated through `cmpLex`) -/
theorem cmpLex_trans : ∀ a b c : List UInt64, a.length = b.length → b.length = c.length →
    cmpLex a b ≤ 0 → cmpLex b c ≤ 0 → cmpLex a c ≤ 0 ∧ (cmpLex a b < 0 ∨ cmpLex b c < 0 → cmpLex a c < 0)
  | [], [], [], _, _, _, _ => by simp [cmpLex]
  | x :: xs, y :: ys, z :: zs, h1, h2, hab, hbc => by
    simp only [List.length_cons, Nat.add_right_cancel_iff] at h1 h2
    simp only [cmpLex] at hab hbc ⊢
    by_cases hxy : x < y
    · by_cases hyz : y < z
      · have := u64_lt_trans hxy hyz; simp [this]
      · by_cases hzy : z < y
        · simp [hyz, hzy] at hbc
        · have := u64_eq_of_not_lt hyz hzy; subst this; simp [hxy]
    · by_cases hyx : y < x
      · simp [hxy, hyx] at hab
      · have := u64_eq_of_not_lt hxy hyx; subst this
        by_cases hyz : x < z
        · simp [hyz]
        · by_cases hzy : z < x
          · simp [hyz, hzy] at hbc
          · have := u64_eq_of_not_lt hyz hzy; subst this
            simp only [u64_lt_irrefl, if_false] at hab hbc ⊢
            exact cmpLex_trans xs ys zs h1 h2 hab hbc
  | [], _ :: _, _, h1, _, _, _ => by simp at h1
  | _ :: _, [], _, h1, _, _, _ => by simp at h1
  | _, [], _ :: _, _, h2, _, _ => by simp at h2
  | _, _ :: _, [], _, h2, _, _ => by simp at h2

/-- `a ≤ₛₗ b` and `a <ₛₗ b` in terms of `compareData` -/
def sle (a b : List UInt64) : Prop := compareData a b ≤ 0
def slt (a b : List UInt64) : Prop := compareData a b < 0

theorem sle_refl (a : List UInt64) : sle a a := by
  simp [sle, compareData, cmpLex_refl]

theorem slt_irrefl (a : List UInt64) : ¬ slt a a := by
  simp [slt, compareData, cmpLex_refl]

theorem compareData_of_length_lt {a b : List UInt64} (h : a.length < b.length) : compareData a b = -1 := by
  simp [compareData, h]

theorem slt_of_length_lt {a b : List UInt64} (h : a.length < b.length) : slt a b := by
  simp [slt, compareData_of_length_lt h]

theorem sle_length {a b : List UInt64} (h : sle a b) : a.length ≤ b.length := by
  simp only [sle, compareData] at h
  split at h
  · omega
  · split at h
    · simp at h
    · omega

/-- transitivity, with strictness inherited from either side -/
theorem sle_trans {a b c : List UInt64} (h1 : sle a b) (h2 : sle b c) :
    sle a c ∧ (slt a b ∨ slt b c → slt a c) := by
  have l1 := sle_length h1
  have l2 := sle_length h2
  by_cases hlt : a.length < c.length
  · exact ⟨by simp [sle, compareData_of_length_lt hlt], fun _ => slt_of_length_lt hlt⟩
  · have e1 : a.length = b.length := by omega
    have e2 : b.length = c.length := by omega
    have e3 : a.length = c.length := by omega
    have ha : compareData a b = cmpLex a b := by simp [compareData, e1]
    have hb : compareData b c = cmpLex b c := by simp [compareData, e2]
    have hc : compareData a c = cmpLex a c := by simp [compareData, e3]
    simp only [sle, slt, ha, hb, hc] at h1 h2 ⊢
    exact cmpLex_trans a b c e1 e2 h1 h2

theorem slt_of_slt_of_sle {a b c : List UInt64} (h1 : slt a b) (h2 : sle b c) : slt a c :=
  (sle_trans (Int.le_of_lt h1) h2).2 (Or.inl h1)

theorem slt_of_sle_of_slt {a b c : List UInt64} (h1 : sle a b) (h2 : slt b c) : slt a c :=
  (sle_trans h1 (Int.le_of_lt h2)).2 (Or.inr h2)

/-! ### well-foundedness: a strictly monotone rank into lexicographic `Nat × Nat`-free form -/

/-- the base 2⁶⁴, kept opaque for the arithmetic -/
def B : Nat := 2 ^ 64
theorem toNat_lt_B (x : UInt64) : x.toNat < B := x.toNat_lt

/-- value of a word list as a numeral in base 2⁶⁴ (most significant first) -/
def numeral : List UInt64 → Nat
  | [] => 0
  | x :: xs => x.toNat * B ^ xs.length + numeral xs

theorem numeral_lt : ∀ xs : List UInt64, numeral xs < B ^ xs.length
  | [] => by simp [numeral]
  | x :: xs => by
    have ih := numeral_lt xs
    have hx := toNat_lt_B x
    simp only [numeral, List.length_cons, Nat.pow_succ]
    have := Nat.mul_le_mul_right (B ^ xs.length) (Nat.succ_le_of_lt hx)
    rw [Nat.succ_mul] at this
    rw [Nat.mul_comm (B ^ xs.length)]
    omega

theorem cmpLex_numeral : ∀ a b : List UInt64, a.length = b.length → cmpLex a b < 0 → numeral a < numeral b
  | [], [], _, h => by simp [cmpLex] at h
  | x :: xs, y :: ys, hl, h => by
    simp only [List.length_cons, Nat.add_right_cancel_iff] at hl
    simp only [cmpLex] at h
    simp only [numeral]
    by_cases hxy : x < y
    · have h1 := numeral_lt xs
      have h2 : x.toNat + 1 ≤ y.toNat := by rw [UInt64.lt_iff_toNat_lt] at hxy; omega
      have := Nat.mul_le_mul_right (B ^ xs.length) h2
      rw [Nat.succ_mul] at this
      rw [← hl]
      omega
    · by_cases hyx : y < x
      · simp [hxy, hyx] at h
      · have := u64_eq_of_not_lt hxy hyx; subst this
        simp only [u64_lt_irrefl, if_false] at h
        have := cmpLex_numeral xs ys hl h
        rw [hl]; omega
  | [], _ :: _, hl, _ => by simp at hl
  | _ :: _, [], hl, _ => by simp at hl

/-- `<ₛₗ` is well-founded: no infinite sequence of accepted shrinks -/
theorem slt_wf : WellFounded slt := by
  have : ∀ a b, slt a b → Prod.Lex (· < ·) (· < ·) (a.length, numeral a) (b.length, numeral b) := by
    intro a b h
    by_cases hl : a.length < b.length
    · exact Prod.Lex.left _ _ hl
    · have hle := sle_length (Int.le_of_lt h)
      have e : a.length = b.length := by omega
      simp only [slt, compareData, e, Nat.lt_irrefl, if_false] at h
      rw [e]
      exact Prod.Lex.right _ (cmpLex_numeral a b e h)
  exact Subrelation.wf (fun {a b} h => this a b h)
    (InvImage.wf (fun l : List UInt64 => (l.length, numeral l)) (Prod.lex Nat.lt_wfRel Nat.lt_wfRel).wf)

end Rapid
