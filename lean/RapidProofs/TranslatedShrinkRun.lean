/-
  RapidProofs.TranslatedShrinkRun — the translated shrinker against rapid's own `accept`: `Script.run p` (RapidModel/Passes.lean)
  is `Script.exec` against the shrinker `runOracle p`; on the states of an invariant that `accept` keeps, the translated
  `shrinker.shrink` ends where `Script.run p (shrinkScript F)` ends (`tr_shrink_run`).
-/
import RapidProofs.TranslatedMinSEq

namespace Rapid
open Rapid.Go

/-- rapid's own shrinker as an `Oracle`: the state is `SS`, `accept` is `SS.accept` on the property `p` -/
def runOracle (p : Prog) : Oracle SS where
  view := fun s => ⟨s.rc, s.shrinks⟩
  accept := fun s buf => match s.accept p buf with | .ok r => some r | .error _ => none

/-- what `Script.run p` returns, given what `Script.exec` against `runOracle p` returns -/
def RunIs {α : Type} (p : Prog) (r : Res SS α) (x : Except Stop (α × SS)) : Prop :=
  match r with
  | .done a s' => x = .ok (a, s')
  | .oob s' => x = .error (.oob s'.log)
  | .stop s' buf => ∃ e, s'.accept p buf = .error e ∧ x = .error e

/-- `Script.run p` is `Script.exec` against `runOracle p` -/
theorem run_eq_exec {α : Type} (p : Prog) (sc : Script α) : ∀ (s : SS), RunIs p (sc.exec (runOracle p) s) (sc.run p s) := by
  induction sc with
  | ret a => intro s; rfl
  | get k ih => intro s; simp only [Script.run, Script.exec]; exact ih _ s
  | try_ buf k ih =>
    intro s
    simp only [Script.run, Script.exec, runOracle]
    cases h : s.accept p buf with
    | error e => exact ⟨e, h, rfl⟩
    | ok r =>
      obtain ⟨b, s'⟩ := r
      exact ih b s'
  | oob => intro s; rfl

/-- a rejected candidate leaves the recording and the number of accepted candidates as they are -/
theorem accept_false_view (p : Prog) (s s' : SS) (buf : List UInt64) (h : s.accept p buf = .ok (false, s')) :
    s'.rc = s.rc ∧ s'.shrinks = s.shrinks := by
  unfold SS.accept at h
  by_cases c1 : compareData buf s.rc.data ≥ 0
  · simp only [c1, if_true] at h; cases h; exact ⟨rfl, rfl⟩
  · simp only [c1, if_false] at h
    by_cases c2 : s.cache.contains buf = true
    · simp only [c2, if_true] at h; cases h; exact ⟨rfl, rfl⟩
    · simp only [c2, Bool.false_eq_true, if_false] at h
      by_cases c3 : (tbKey (checkOnce p (.buf buf) TS.fresh).err != tbKey s.err) = true
      · simp only [c3, if_true] at h; cases h; exact ⟨rfl, rfl⟩
      · simp only [c3, Bool.false_eq_true, if_false] at h
        by_cases c4 : (!(prunedOfToks (checkOnce p (.buf buf) TS.fresh).toks).noEmptyGroup) = true
        · simp only [c4, if_true] at h; cases h
        · simp only [c4, Bool.false_eq_true, if_false] at h
          by_cases c5 : compareData (prunedOfToks (checkOnce p (.buf buf) TS.fresh).toks).data buf > 0
          · simp only [c5, if_true] at h; cases h
          · simp only [c5, if_false] at h
            by_cases c6 : (!sameError (checkOnce p (.buf buf) TS.fresh).err (checkOnce p (.buf buf) TS.fresh).err) = true
            · simp only [c6, if_true] at h; cases h
            · simp only [c6, Bool.false_eq_true, if_false] at h; cases h

/-- an invariant of rapid's shrinker states that `accept` keeps and that implies what the translated passes assume -/
structure RunInv (p : Prog) (Inv : SS → Prop) : Prop where
  closed : ∀ s buf b s', Inv s → s.accept p buf = .ok (b, s') → Inv s'
  small : ∀ s, Inv s → Rec.Small s.rc
  ordered : ∀ s, Inv s → ∀ g ∈ s.rc.groups, 0 ≤ g.end_ → (g.begin : Int) ≤ g.end_
  shrinks : ∀ s, Inv s → s.shrinks < 2 ^ 62

def invAccept (p : Prog) (Inv : SS → Prop) (h : RunInv p Inv) (s : {s : SS // Inv s}) (buf : List UInt64) :
    Option (Bool × {s : SS // Inv s}) :=
  match hacc : s.1.accept p buf with
  | .ok (b, s') => some (b, ⟨s', h.closed s.1 buf b s' s.2 hacc⟩)
  | .error _ => none

theorem invAccept_ok (p : Prog) (Inv : SS → Prop) (h : RunInv p Inv) (s : {s : SS // Inv s}) (buf : List UInt64) (b : Bool) (s' : SS)
    (hok : s.1.accept p buf = .ok (b, s')) : ∃ hs', invAccept p Inv h s buf = some (b, ⟨s', hs'⟩) := by
  unfold invAccept
  split
  · rename_i b2 s2 hacc
    rw [hok] at hacc
    cases hacc
    exact ⟨h.closed s.1 buf b s' s.2 hok, rfl⟩
  · rename_i e hacc
    rw [hok] at hacc
    cases hacc

theorem invAccept_err (p : Prog) (Inv : SS → Prop) (h : RunInv p Inv) (s : {s : SS // Inv s}) (buf : List UInt64) (e : Stop)
    (herr : s.1.accept p buf = .error e) : invAccept p Inv h s buf = none := by
  unfold invAccept
  split
  · rename_i b2 s2 hacc
    rw [herr] at hacc
    cases hacc
  · rfl

/-- rapid's shrinker on the states that satisfy the invariant -/
def invOracle (p : Prog) (Inv : SS → Prop) (h : RunInv p Inv) : Oracle {s : SS // Inv s} where
  view := fun s => ⟨s.1.rc, s.1.shrinks⟩
  accept := invAccept p Inv h

theorem invOracle_wf (p : Prog) (Inv : SS → Prop) (h : RunInv p Inv) : (invOracle p Inv h).WF where
  small := fun s => h.small s.1 s.2
  ordered := fun s => h.ordered s.1 s.2
  reject := by
    intro s buf s' hacc
    simp only [invOracle] at hacc ⊢
    cases hr : s.1.accept p buf with
    | error e => rw [invAccept_err p Inv h s buf e hr] at hacc; cases hacc
    | ok r =>
      obtain ⟨b, s2⟩ := r
      obtain ⟨hs2, he⟩ := invAccept_ok p Inv h s buf b s2 hr
      rw [he] at hacc
      simp only [Option.some.injEq, Prod.mk.injEq] at hacc
      obtain ⟨hb, hs⟩ := hacc
      subst hb
      have := accept_false_view p s.1 s2 buf hr
      rw [← hs]
      simp [this.1, this.2]

/-- forgetting the invariant -/
def Res.forget {α : Type} {Inv : SS → Prop} : Res {s : SS // Inv s} α → Res SS α
  | .done a s => .done a s.1
  | .oob s => .oob s.1
  | .stop s b => .stop s.1 b

theorem exec_forget {α : Type} (p : Prog) (Inv : SS → Prop) (h : RunInv p Inv) (sc : Script α) :
    ∀ s : {s : SS // Inv s}, (sc.exec (invOracle p Inv h) s).forget = sc.exec (runOracle p) s.1 := by
  induction sc with
  | ret a => intro s; rfl
  | get k ih => intro s; simp only [Script.exec]; exact ih _ s
  | try_ buf k ih =>
    intro s
    simp only [Script.exec, invOracle, runOracle]
    cases hr : s.1.accept p buf with
    | error e => rw [invAccept_err p Inv h s buf e hr]; rfl
    | ok r =>
      obtain ⟨b, s2⟩ := r
      obtain ⟨hs2, he⟩ := invAccept_ok p Inv h s buf b s2 hr
      rw [he]
      exact ih b ⟨s2, hs2⟩
  | oob => intro s; rfl

theorem sm_exec_forget {α : Type} (p : Prog) (Inv : SS → Prop) (h : RunInv p Inv) (x : SM α) (s : {s : SS // Inv s}) :
    (SM.exec (invOracle p Inv h) x s).forget = SM.exec (runOracle p) x s.1 :=
  exec_forget p Inv h (show Script (Except Panic α) from x) s

/-- what a run of the model's script is, given what the translated script did against rapid's own `accept` -/
def RunAgrees {α : Type} (p : Prog) (s0 : SS) (m : Script Unit) (rt : Res SS (Except Panic α)) : Prop :=
  match rt with
  | .done (.error .fuel) _ => True
  | .done (.ok _) s' => m.run p s0 = .ok ((), s')
  | .done (.error .runtime) s' => m.run p s0 = .error (.oob s'.log)
  | .stop s' buf => ∃ e, s'.accept p buf = .error e ∧ m.run p s0 = .error e
  | _ => False

/-- **the shrinker of /repo, as translated, against rapid's own `accept`**: on every property `p`, from every shrinker state
    that satisfies an invariant kept by `accept` (recordings of fewer than 2^61 entries whose finished groups do not end
    before they begin), the translated `shrinker.shrink` with `fuel ≤ F` either runs out of fuel (a deadline cut), or it
    ends in the state in which `Script.run p (shrinkScript F)` ends — the run all of C01/C05/C12's theorems about the concrete
    shrinker are about —, or both crash at the same out-of-range index, or both are stopped by the same failing `accept` -/
theorem tr_shrink_run (p : Prog) (Inv : SS → Prop) (h : RunInv p Inv) (s0 : SS) (hs0 : Inv s0) (F fuel : Nat) (hf : fuel ≤ F) :
    RunAgrees p s0 (shrinkScript F) (SM.exec (runOracle p) (Translated.shrinker_shrink fuel) s0) := by
  have hag := tr_shrink (invOracle p Inv h) (invOracle_wf p Inv h) (fun s => h.shrinks s.1 s.2) F fuel hf ⟨s0, hs0⟩
  have hT := sm_exec_forget p Inv h (Translated.shrinker_shrink fuel) ⟨s0, hs0⟩
  have hM := exec_forget p Inv h (shrinkScript F) ⟨s0, hs0⟩
  have hrun := run_eq_exec p (shrinkScript F) s0
  simp only at hT hM
  rw [← hT]
  rw [← hM] at hrun
  revert hag hrun
  cases SM.exec (invOracle p Inv h) (Translated.shrinker_shrink fuel) ⟨s0, hs0⟩ with
  | done r s =>
    cases r with
    | ok a =>
      cases Script.exec (invOracle p Inv h) (shrinkScript F) ⟨s0, hs0⟩ with
      | done b s' => intro hag hrun; obtain ⟨rfl, _⟩ := hag; exact hrun
      | oob s' => intro hag; exact absurd hag (by simp [Agree])
      | stop s' b' => intro hag; exact absurd hag (by simp [Agree])
    | error e =>
      cases e with
      | fuel => intro _ _; trivial
      | runtime =>
        cases Script.exec (invOracle p Inv h) (shrinkScript F) ⟨s0, hs0⟩ with
        | done b s' => intro hag; exact absurd hag (by simp [Agree])
        | oob s' => intro hag hrun; have : s = s' := hag; subst this; exact hrun
        | stop s' b' => intro hag; exact absurd hag (by simp [Agree])
      | assertion => cases Script.exec (invOracle p Inv h) (shrinkScript F) ⟨s0, hs0⟩ <;> (intro hag; exact absurd hag (by simp [Agree]))
      | mismatch => cases Script.exec (invOracle p Inv h) (shrinkScript F) ⟨s0, hs0⟩ <;> (intro hag; exact absurd hag (by simp [Agree]))
      | invalidData m => cases Script.exec (invOracle p Inv h) (shrinkScript F) ⟨s0, hs0⟩ <;> (intro hag; exact absurd hag (by simp [Agree]))
  | oob s => cases Script.exec (invOracle p Inv h) (shrinkScript F) ⟨s0, hs0⟩ <;> (intro hag; exact absurd hag (by simp [Agree]))
  | stop s b =>
    cases Script.exec (invOracle p Inv h) (shrinkScript F) ⟨s0, hs0⟩ with
    | done b' s' => intro hag; exact absurd hag (by simp [Agree])
    | oob s' => intro hag; exact absurd hag (by simp [Agree])
    | stop s' b' => intro hag hrun; obtain ⟨rfl, rfl⟩ := hag; exact hrun

end Rapid
