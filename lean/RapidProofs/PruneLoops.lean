/-
  RapidProofs.PruneLoops — prune stability of the loops that discard rejected attempts:
  rejection sampling (`genUintNUnbiased`, `genUintNBiased`), `find` (Filter, Custom, regexp).
  The replay runs the same loop with at least as much fuel/tries left; the rejected attempts
  are absent from the pruned bits, so the replay accepts at its first attempt.
-/
import RapidProofs.PruneStable
import RapidProofs.Contracts

namespace Rapid

/-- `Replayed` for a run whose recording got a prefix that is kept entirely (`[u]`) -/
theorem replayed_cons {o r : Out} {xs : List UInt64} {u : UInt64} {t t' : List Tok} (h : Replayed o r xs) :
    Replayed (o.after [u] [u] t [] false) (r.after [u] [u] t' [] false) xs :=
  ⟨by simpa using h.res, by simpa using h.src, by simpa using h.ts, by simp [h.used], by simp [h.kept]⟩

/-- …or a prefix that is discarded entirely -/
theorem replayed_drop {o r : Out} {xs : List UInt64} {u : UInt64} {t : List Tok} (h : Replayed o r xs) :
    Replayed (o.after [u] [] t [] false) r xs :=
  ⟨by simpa using h.res, h.src, by simpa using h.ts, by simpa using h.used, by simpa using h.kept⟩

/-- one iteration of `genUintNUnbiased` -/
theorem uintUnbiased_step (max : UInt64) (k : UInt64 → Prog) (n : Nat) (src : Src) (ts : TS) :
    (uintUnbiased max k (n + 1)).run src ts =
      match src.next (len64 max) with
      | none => { Out.ofRes (.error (.invalid "overrun")) src ts with overran := true, toks := [.opn intBitsLabel false, .abort] }
      | some (u, src') =>
        if u ≤ max then ((k u).run src' ts).after [u] [u] [.opn intBitsLabel false, .w u, .cls false] [] false
        else ((uintUnbiased max k n).run src' ts).after [u] [] [.opn intBitsLabel false, .w u, .cls true] [] false := by
  simp only [uintUnbiased, run_draw_group]
  cases src.next (len64 max) with
  | none => rfl
  | some r =>
    obtain ⟨u, src'⟩ := r
    simp only [vu_uv]
    by_cases hle : u ≤ max
    · have hgt : ¬ u > max := by rw [gt_iff_lt, UInt64.lt_iff_toNat_lt]; rw [UInt64.le_iff_toNat_le] at hle; omega
      simp [hle, hgt]
    · have hgt : u > max := by rw [gt_iff_lt, UInt64.lt_iff_toNat_lt]; rw [UInt64.le_iff_toNat_le] at hle; omega
      simp [hle, hgt]

theorem ps_uintUnbiased (max : UInt64) (k : UInt64 → Prog) (hk : ∀ u, PS (k u)) :
    ∀ (n m : Nat), n ≤ m → ∀ (src : Src) (ts : TS) (xs : List UInt64),
      Good ((uintUnbiased max k n).run src ts) → (((uintUnbiased max k n).run src ts).overran = true → xs = []) →
      Replayed ((uintUnbiased max k n).run src ts)
        ((uintUnbiased max k m).run (.buf (((uintUnbiased max k n).run src ts).kept ++ xs)) ts) xs := by
  intro n
  induction n with
  | zero => intro m _ src ts xs hg _; exact absurd hg (not_good_fuel (by simp [uintUnbiased, Prog.run, Out.ofRes]))
  | succ n ih =>
    intro m hm src ts xs hg ho
    obtain ⟨m, rfl⟩ : ∃ m', m = m' + 1 := ⟨m - 1, by omega⟩
    rw [uintUnbiased_step max k n src ts] at hg ho ⊢
    cases hn : src.next (len64 max) with
    | none => simp only [hn] at hg; exact absurd hg (not_good_invalid (m := "overrun") rfl)
    | some r =>
      obtain ⟨u, src'⟩ := r
      simp only [hn] at hg ho ⊢
      by_cases hle : u ≤ max
      · simp only [hle, if_true] at hg ho ⊢
        simp only [after_kept, List.singleton_append, List.cons_append]
        rw [uintUnbiased_step, buf_next_cons (next_masked hn)]
        simp only [hle, if_true]
        exact replayed_cons (hk u src' ts xs (good_after hg) (by simpa using ho))
      · simp only [hle, if_false] at hg ho ⊢
        simp only [after_kept, List.nil_append]
        exact replayed_drop (ih (m + 1) (by omega) src' ts xs (good_after hg) (by simpa using ho))

/-- one iteration of the loop of `genUintNBiased` -/
theorem uintBiasedLoop_step (max : UInt64) (g bitlen : Nat) (k : UInt64 → Bool → Bool → Prog) (n : Nat) (src : Src) (ts : TS) :
    (uintBiasedLoop max g bitlen k (n + 1)).run src ts =
      match src.next bitlen with
      | none => { Out.ofRes (.error (.invalid "overrun")) src ts with overran := true, toks := [.opn intBitsLabel false, .abort] }
      | some (u, src') =>
        if bitlen > 64 ∨ u ≤ max then
          ((k (if bitlen > 64 then max else u) ((if bitlen > 64 then max else u) == 0 && g == 1)
              ((if bitlen > 64 then max else u) == max && decide (bitlen ≥ g))).run src' ts).after
            [u] [u] [.opn intBitsLabel false, .w u, .cls false] [] false
        else ((uintBiasedLoop max g bitlen k n).run src' ts).after [u] [] [.opn intBitsLabel false, .w u, .cls true] [] false := by
  simp only [uintBiasedLoop, run_draw_group]
  cases src.next bitlen with
  | none => rfl
  | some r =>
    obtain ⟨u, src'⟩ := r
    simp only [vu_uv]
    by_cases hb : bitlen > 64
    · simp [hb]
    · by_cases hle : u ≤ max
      · simp [hb, hle]
      · simp [hb, hle]

theorem ps_uintBiasedLoop (max : UInt64) (g bitlen : Nat) (k : UInt64 → Bool → Bool → Prog) (hk : ∀ u l r, PS (k u l r)) :
    ∀ (n m : Nat), n ≤ m → ∀ (src : Src) (ts : TS) (xs : List UInt64),
      Good ((uintBiasedLoop max g bitlen k n).run src ts) →
      (((uintBiasedLoop max g bitlen k n).run src ts).overran = true → xs = []) →
      Replayed ((uintBiasedLoop max g bitlen k n).run src ts)
        ((uintBiasedLoop max g bitlen k m).run (.buf (((uintBiasedLoop max g bitlen k n).run src ts).kept ++ xs)) ts) xs := by
  intro n
  induction n with
  | zero => intro m _ src ts xs hg _; exact absurd hg (not_good_fuel (by simp [uintBiasedLoop, Prog.run, Out.ofRes]))
  | succ n ih =>
    intro m hm src ts xs hg ho
    obtain ⟨m, rfl⟩ : ∃ m', m = m' + 1 := ⟨m - 1, by omega⟩
    rw [uintBiasedLoop_step max g bitlen k n src ts] at hg ho ⊢
    cases hn : src.next bitlen with
    | none => simp only [hn] at hg; exact absurd hg (not_good_invalid (m := "overrun") rfl)
    | some r =>
      obtain ⟨u, src'⟩ := r
      simp only [hn] at hg ho ⊢
      by_cases hacc : bitlen > 64 ∨ u ≤ max
      · simp only [hacc, if_true] at hg ho ⊢
        simp only [after_kept, List.singleton_append, List.cons_append]
        rw [uintBiasedLoop_step, buf_next_cons (next_masked hn)]
        simp only [hacc, if_true]
        exact replayed_cons (hk _ _ _ src' ts xs (good_after hg) (by simpa using ho))
      · simp only [hacc, if_false] at hg ho ⊢
        simp only [after_kept, List.nil_append]
        exact replayed_drop (ih (m + 1) (by omega) src' ts xs (good_after hg) (by simpa using ho))

theorem ps_uintBiased (ft : FT) (max : UInt64) (fuel : Nat) (k : UInt64 → Bool → Bool → Prog) (hk : ∀ u l r, PS (k u l r)) :
    PS (uintBiased ft max fuel k) := by
  intro src ts xs hg ho
  simp only [uintBiased, run_draw_group] at hg ho ⊢
  cases hn : src.next 53 with
  | none => simp only [hn] at hg; exact absurd hg (not_good_invalid (m := "overrun") rfl)
  | some r =>
    obtain ⟨w, src'⟩ := r
    simp only [hn, Bool.false_eq_true, if_false] at hg ho ⊢
    simp only [after_kept, List.singleton_append, List.cons_append]
    rw [buf_next_cons (next_masked hn)]
    simp only [Bool.false_eq_true, if_false]
    exact replayed_cons (ps_uintBiasedLoop max _ _ k hk fuel fuel (Nat.le_refl _) src' ts xs (good_after hg) (by simpa using ho))

theorem ps_uintN (ft : FT) (max : UInt64) (bias : Bool) (fuel : Nat) (k : UInt64 → Bool → Bool → Prog)
    (hk : ∀ u l r, PS (k u l r)) : PS (uintN ft max bias fuel k) := by
  cases bias with
  | true => simpa [uintN] using ps_uintBiased ft max fuel k hk
  | false =>
    simp only [uintN, Bool.false_eq_true, if_false]
    intro src ts xs hg ho
    exact ps_uintUnbiased max _ (fun u => hk u false false) fuel fuel (Nat.le_refl _) src ts xs hg ho

theorem ps_uintRange (ft : FT) (min max : UInt64) (bias : Bool) (fuel : Nat) (k : UInt64 → Bool → Bool → Prog)
    (hk : ∀ u l r, PS (k u l r)) : PS (uintRange ft min max bias fuel k) := by
  simp only [uintRange]
  split
  · exact ps_throw _
  · exact ps_uintN ft _ bias fuel _ (fun u l r => hk _ l r)

theorem ps_index (ft : FT) (n : Nat) (bias : Bool) (fuel : Nat) (k : Nat → Prog) (hk : ∀ i, PS (k i)) :
    PS (index ft n bias fuel k) := by
  simp only [index]
  split
  · exact ps_throw _
  · exact ps_uintN ft _ bias fuel _ (fun u _ _ => hk _)

theorem ps_coin (thr : UInt64) (k : Bool → Prog) (hk : ∀ b, PS (k b)) : PS (coin thr k) := by
  intro src ts xs hg ho
  simp only [coin, run_draw_group] at hg ho ⊢
  cases hn : src.next 53 with
  | none => simp only [hn] at hg; exact absurd hg (not_good_invalid (m := "overrun") rfl)
  | some r =>
    obtain ⟨w, src'⟩ := r
    simp only [hn, Bool.false_eq_true, if_false] at hg ho ⊢
    simp only [after_kept, List.singleton_append, List.cons_append]
    rw [buf_next_cons (next_masked hn)]
    simp only [Bool.false_eq_true, if_false]
    exact replayed_cons (hk _ src' ts xs (good_after hg) (by simpa using ho))

theorem ps_intRange (ft : FT) (min max : Int64) (fuel : Nat) (k : Int64 → Bool → Bool → Prog)
    (hk : ∀ i l r, PS (k i l r)) : PS (intRange ft min max fuel k) := by
  simp only [intRange]
  split
  · exact ps_throw _
  · apply ps_coin
    intro b
    cases b with
    | true => simp only [if_true]; exact ps_uintRange ft _ _ true fuel _ (fun u l r => hk _ _ _)
    | false => simp only [Bool.false_eq_true, if_false]; exact ps_uintRange ft _ _ true fuel _ (fun u l r => hk _ _ _)

/-- one attempt of `find` -/
theorem findLoop_step (body : Prog) (ok : Val → Bool) (k : Val → Prog) (n : Nat) (src : Src) (ts : TS) :
    (findLoop body ok k (n + 1)).run src ts =
      match (body.run src ts).res with
      | .error _ => { body.run src ts with toks := .opn tryLabel false :: (body.run src ts).toks ++ [.abort] }
      | .ok v =>
        if ok v then
          if (body.run src ts).used.isEmpty then
            { body.run src ts with res := .error (.panic groupAssertMsg siteGroupAssert),
                                   toks := .opn tryLabel false :: (body.run src ts).toks ++ [.abort] }
          else ((k v).run (body.run src ts).src (body.run src ts).ts).after (body.run src ts).used (body.run src ts).kept
                 (.opn tryLabel false :: (body.run src ts).toks ++ [.cls false]) (body.run src ts).evs (body.run src ts).overran
        else ((findLoop body ok k n).run (body.run src ts).src (body.run src ts).ts).after (body.run src ts).used []
               (.opn tryLabel false :: (body.run src ts).toks ++ [.cls true]) (body.run src ts).evs (body.run src ts).overran := by
  simp only [findLoop, Prog.run]
  cases (body.run src ts).res with
  | error e => rfl
  | ok v =>
    by_cases hok : ok v = true
    · by_cases hu : (body.run src ts).used.isEmpty = true
      · simp [hok, hu]
      · simp [hok, hu]
    · simp [hok]

/-- `find`: a rejected attempt must leave the `*T` alone; an accepted one must be prune-stable and keep
    something (nothing is asked of the replay of a rejected attempt: its bits are pruned) -/
theorem ps_findLoop' (body : Prog) (ok : Val → Bool) (k : Val → Prog)
    (hb : ∀ (src : Src) (ts : TS) (xs : List UInt64), Good (body.run src ts) →
      (∀ v, (body.run src ts).res = .ok v → ok v = true) → ((body.run src ts).overran = true → xs = []) →
      Replayed (body.run src ts) (body.run (.buf ((body.run src ts).kept ++ xs)) ts) xs)
    (hpure : ∀ (src : Src) (ts : TS) (v : Val), (body.run src ts).res = .ok v → ok v = false → (body.run src ts).ts = ts)
    (hne : ∀ (src : Src) (ts : TS) (v : Val), (body.run src ts).res = .ok v → ok v = true →
      (body.run src ts).used ≠ [] → (body.run src ts).kept ≠ [])
    (hk : ∀ v, PS (k v)) :
    ∀ (n m : Nat), n ≤ m → ∀ (src : Src) (ts : TS) (xs : List UInt64),
      Good ((findLoop body ok k n).run src ts) → (((findLoop body ok k n).run src ts).overran = true → xs = []) →
      Replayed ((findLoop body ok k n).run src ts)
        ((findLoop body ok k m).run (.buf (((findLoop body ok k n).run src ts).kept ++ xs)) ts) xs := by
  intro n
  induction n with
  | zero =>
    intro m _ src ts xs hg _
    exact absurd hg (not_good_invalid (m := "failed to find suitable value in 5 tries") (by simp [findLoop, Prog.run, Out.ofRes]))
  | succ n ih =>
    intro m hm src ts xs hg ho
    obtain ⟨m, rfl⟩ : ∃ m', m = m' + 1 := ⟨m - 1, by omega⟩
    rw [findLoop_step body ok k n src ts] at hg ho ⊢
    cases hres : (body.run src ts).res with
    | error e =>
      simp only [hres] at hg ho ⊢
      have r := hb src ts xs (good_of_res (by simp [hres]) hg) (fun v h => by rw [hres] at h; cases h) ho
      rw [findLoop_step, r.res, hres]
      exact ⟨by simp [r.res, hres], r.src, r.ts, r.used, r.kept⟩
    | ok v =>
      simp only [hres] at hg ho ⊢
      have hgb : Good (body.run src ts) := good_ok hres
      by_cases hok : ok v = true
      · simp only [hok, if_true] at hg ho ⊢
        by_cases hu : (body.run src ts).used.isEmpty = true
        · simp only [hu, if_true] at hg ho ⊢
          have hk0 : (body.run src ts).kept = [] := by
            have hsub := kept_sublist body src ts
            rw [List.isEmpty_iff.mp hu] at hsub
            exact List.eq_nil_of_sublist_nil hsub
          have r := hb src ts xs hgb (fun v' h => by rw [hres] at h; cases h; exact hok) ho
          have hu' : (body.run (.buf ((body.run src ts).kept ++ xs)) ts).used.isEmpty = true := by rw [r.used, hk0]; rfl
          rw [findLoop_step, r.res, hres]
          simp only [hok, hu', if_true]
          exact ⟨rfl, r.src, r.ts, r.used, r.kept⟩
        · simp only [hu, if_false, Bool.false_eq_true] at hg ho ⊢
          simp only [after_overran, Bool.or_eq_true] at ho
          have hne' : (body.run src ts).kept ≠ [] := hne src ts v hres hok (by simpa [List.isEmpty_iff] using hu)
          have ho1 : (body.run src ts).overran = true → ((k v).run (body.run src ts).src (body.run src ts).ts).kept ++ xs = [] := by
            intro h
            have hs := overran_src body src ts h
            have := run_empty (k v) (body.run src ts).ts
            rw [hs, this.2.1, ho (Or.inl h)]; rfl
          have r1 := hb src ts (((k v).run (body.run src ts).src (body.run src ts).ts).kept ++ xs) hgb (fun v' h => by rw [hres] at h; cases h; exact hok) ho1
          simp only [after_kept, List.append_assoc]
          rw [findLoop_step, r1.res, hres]
          have hu1 : ¬ (body.run (.buf ((body.run src ts).kept ++ (((k v).run (body.run src ts).src (body.run src ts).ts).kept ++ xs))) ts).used.isEmpty = true := by
            rw [r1.used]; simpa [List.isEmpty_iff] using hne'
          simp only [hok, hu1, if_true, if_false, Bool.false_eq_true]
          rw [r1.src, r1.ts]
          have r2 := hk v (body.run src ts).src (body.run src ts).ts xs (good_after hg) (fun h => ho (Or.inr h))
          exact replayed_seq r1.res r1.used r1.kept r2
      · simp only [hok, if_false, Bool.false_eq_true] at hg ho ⊢
        simp only [after_overran, Bool.or_eq_true] at ho
        simp only [after_kept, List.nil_append]
        have hts : (body.run src ts).ts = ts := hpure src ts v hres (by simpa using hok)
        have r := ih (m + 1) (by omega) (body.run src ts).src (body.run src ts).ts xs (good_after hg) (fun h => ho (Or.inr h))
        rw [hts] at r ⊢
        exact ⟨by simpa using r.res, r.src, by simpa using r.ts, by simpa using r.used, by simpa using r.kept⟩

/-- `find` over a body that is prune-stable and leaves the `*T` alone on every run -/
theorem ps_findLoop (body : Prog) (ok : Val → Bool) (k : Val → Prog)
    (hb : PS body) (hpure : TsPure body) (hne : KeepsSome body) (hk : ∀ v, PS (k v)) :
    ∀ (n m : Nat), n ≤ m → ∀ (src : Src) (ts : TS) (xs : List UInt64),
      Good ((findLoop body ok k n).run src ts) → (((findLoop body ok k n).run src ts).overran = true → xs = []) →
      Replayed ((findLoop body ok k n).run src ts)
        ((findLoop body ok k m).run (.buf (((findLoop body ok k n).run src ts).kept ++ xs)) ts) xs :=
  ps_findLoop' body ok k (fun src ts xs hg _ ho => hb src ts xs hg ho) (fun src ts _ _ _ => hpure src ts)
    (fun src ts v h _ hu => hne src ts v h hu) hk

end Rapid
