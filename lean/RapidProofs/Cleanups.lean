/-
  RapidProofs.Cleanups — the cleanup phase empties the stack and clears the context, so
  `checkOnce` hands back a clean `*T`.
-/
import RapidProofs.Isolation

namespace Rapid

theorem ctree_size_pos (c : CTree) : 0 < c.size := by
  cases c <;> simp [CTree.size]

theorem ctree_run_ctx (c : CTree) : ∀ ts : TS, (c.run ts).ts.ctx = ts.ctx := by
  induction c with
  | done => intro ts; rfl
  | emit id k ih => intro ts; simp only [CTree.run]; exact ih ts
  | errorf m k ih => intro ts; simp only [CTree.run]; exact ih _
  | throw e => intro ts; rfl
  | reg c k _ ihk => intro ts; simp only [CTree.run]; exact ihk _
  | ctx k ih => intro ts; simp only [CTree.run]; exact ih _

@[simp] theorem stackSize_nil : stackSize [] = 0 := rfl
@[simp] theorem stackSize_cons (c : CTree) (cs : List CTree) : stackSize (c :: cs) = c.size + stackSize cs := by
  simp [stackSize]

/-- a callback registers strictly less than its own size -/
theorem ctree_run_stack (c : CTree) : ∀ ts : TS,
    stackSize (c.run ts).ts.cleanups + 1 ≤ c.size + stackSize ts.cleanups := by
  induction c with
  | done => intro ts; simp [CTree.run, CTree.size]; omega
  | emit id k ih => intro ts; simp only [CTree.run, CTree.size]; have := ih ts; omega
  | errorf m k ih =>
    intro ts; simp only [CTree.run, CTree.size]
    have := ih { ts with failed := some m }; simp only at this; omega
  | throw e => intro ts; simp [CTree.run, CTree.size]; omega
  | reg c k _ ihk =>
    intro ts; simp only [CTree.run, CTree.size]
    have := ihk { ts with cleanups := c :: ts.cleanups }
    simp only [stackSize_cons] at this; omega
  | ctx k ih =>
    intro ts; simp only [CTree.run, CTree.size]
    have := ih { ts with ctxCount := ts.ctxCount + 1 }; simp only at this; omega

theorem stackSize_zero {cs : List CTree} (h : stackSize cs = 0) : cs = [] := by
  cases cs with
  | nil => rfl
  | cons c cs => simp only [stackSize_cons] at h; have := ctree_size_pos c; omega

/-- with enough fuel the pop-and-run loop ends with an empty stack: every registered callback
    (also those registered by callbacks) has been popped -/
theorem runStack_empties : ∀ (fuel : Nat) (ts : TS), stackSize ts.cleanups ≤ fuel →
    (runStack fuel ts).ts.cleanups = [] := by
  intro fuel
  induction fuel with
  | zero => intro ts h; simp only [runStack]; exact stackSize_zero (by omega)
  | succ n ih =>
    intro ts h
    simp only [runStack]
    cases hc : ts.cleanups with
    | nil => simp [hc]
    | cons c rest =>
      simp only []
      apply ih
      have := ctree_run_stack c { ts with cleanups := rest }
      simp only [hc, stackSize_cons] at h this
      omega

theorem runStack_ctx : ∀ (fuel : Nat) (ts : TS), (runStack fuel ts).ts.ctx = ts.ctx := by
  intro fuel
  induction fuel with
  | zero => intro ts; rfl
  | succ n ih =>
    intro ts
    simp only [runStack]
    cases hc : ts.cleanups with
    | nil => rfl
    | cons c rest =>
      simp only []
      rw [ih, ctree_run_ctx]

theorem cleanupPhase_clean (ts : TS) : (cleanupPhase ts).ts.cleanups = [] ∧ (cleanupPhase ts).ts.ctx = none := by
  simp only [cleanupPhase]
  cases hc : ts.ctx with
  | none =>
    simp only []
    exact ⟨runStack_empties _ _ (Nat.le_refl _), by rw [runStack_ctx]; exact hc⟩
  | some id =>
    simp only []
    exact ⟨runStack_empties _ _ (Nat.le_refl _), by rw [runStack_ctx]⟩

/-- `checkOnce` re-establishes `Clean`, whatever the test case did -/
theorem checkOnce_clean_after (p : Prog) (src : Src) (ts : TS) : Clean (checkOnce p src ts).ts := by
  refine ⟨rfl, ?_, ?_⟩
  · exact (cleanupPhase_clean _).1
  · exact (cleanupPhase_clean _).2

end Rapid
