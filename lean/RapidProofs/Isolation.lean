/-
  RapidProofs.Isolation — the only part of `*T` that survives `checkOnce` is the draw
  counter, and no program can observe its absolute value: a test case run on the reused
  `*T` of `findBug` is the test case run on a fresh one.
-/
import RapidProofs.Once

namespace Rapid

def TS.shift (d : Nat) (ts : TS) : TS := { ts with draws := ts.draws + d }
def Out.shift (d : Nat) (o : Out) : Out := { o with ts := o.ts.shift d }
def COut.shift (d : Nat) (o : COut) : COut := { o with ts := o.ts.shift d }

@[simp] theorem shift_failed (d : Nat) (ts : TS) : (ts.shift d).failed = ts.failed := rfl
@[simp] theorem shift_cleanups (d : Nat) (ts : TS) : (ts.shift d).cleanups = ts.cleanups := rfl
@[simp] theorem shift_ctx (d : Nat) (ts : TS) : (ts.shift d).ctx = ts.ctx := rfl
@[simp] theorem shift_ctxCount (d : Nat) (ts : TS) : (ts.shift d).ctxCount = ts.ctxCount := rfl
@[simp] theorem shift_draws (d : Nat) (ts : TS) : (ts.shift d).draws = ts.draws + d := rfl

theorem ctree_run_shift (c : CTree) : ∀ (ts : TS) (d : Nat), c.run (ts.shift d) = (c.run ts).shift d := by
  induction c with
  | done => intro ts d; rfl
  | emit id k ih => intro ts d; simp only [CTree.run, ih]; rfl
  | errorf m k ih =>
    intro ts d
    simp only [CTree.run]
    have := ih { ts with failed := some m } d
    simp only [TS.shift] at this ⊢
    rw [this]; rfl
  | throw e => intro ts d; rfl
  | reg c k _ ihk => intro ts d; simp only [CTree.run]; exact ihk { ts with cleanups := c :: ts.cleanups } d
  | ctx k ih =>
    intro ts d
    simp only [CTree.run, shift_ctxCount]
    have := ih { ts with ctxCount := ts.ctxCount + 1 } d
    simp only [TS.shift] at this ⊢
    rw [this]; rfl

theorem runStack_shift : ∀ (fuel : Nat) (ts : TS) (d : Nat), runStack fuel (ts.shift d) = (runStack fuel ts).shift d := by
  intro fuel
  induction fuel with
  | zero => intro ts d; rfl
  | succ n ih =>
    intro ts d
    simp only [runStack, shift_cleanups]
    cases hc : ts.cleanups with
    | nil => rfl
    | cons c rest =>
      simp only []
      have h1 : ({ ts.shift d with cleanups := rest } : TS) = ({ ts with cleanups := rest } : TS).shift d := rfl
      rw [h1, ctree_run_shift]
      simp only [COut.shift]
      rw [ih]
      rfl

theorem runStackErrs_shift : ∀ (fuel : Nat) (ts : TS) (d : Nat), runStackErrs fuel (ts.shift d) = runStackErrs fuel ts := by
  intro fuel
  induction fuel with
  | zero => intro ts d; rfl
  | succ n ih =>
    intro ts d
    simp only [runStackErrs, shift_cleanups]
    cases hc : ts.cleanups with
    | nil => rfl
    | cons c rest =>
      simp only []
      have h1 : ({ ts.shift d with cleanups := rest } : TS) = ({ ts with cleanups := rest } : TS).shift d := rfl
      rw [h1, ctree_run_shift]
      simp only [COut.shift]
      rw [ih]

/-- the panic context of the cleanup phase does not depend on the draw counter -/
theorem cleanupCtx_shift (res : Except Err Val) (ts : TS) (d : Nat) : cleanupCtx res (ts.shift d) = cleanupCtx res ts := by
  simp only [cleanupCtx, shift_ctx]
  cases hc : ts.ctx with
  | none => simp only [shift_cleanups, runStackErrs_shift]
  | some id =>
    simp only []
    have h1 : ({ ts.shift d with ctx := none } : TS) = ({ ts with ctx := none } : TS).shift d := rfl
    rw [h1, shift_cleanups, runStackErrs_shift]

theorem cleanupPhase_shift (ts : TS) (d : Nat) : cleanupPhase (ts.shift d) = (cleanupPhase ts).shift d := by
  simp only [cleanupPhase, shift_ctx]
  cases hc : ts.ctx with
  | none =>
    simp only [shift_cleanups]
    rw [runStack_shift]; rfl
  | some id =>
    simp only []
    have h1 : ({ ts.shift d with ctx := none } : TS) = ({ ts with ctx := none } : TS).shift d := rfl
    rw [h1, shift_cleanups, runStack_shift]; rfl

@[simp] theorem ofRes_shift (r : Except Err Val) (src : Src) (ts : TS) (d : Nat) :
    (Out.ofRes r src ts).shift d = Out.ofRes r src (ts.shift d) := rfl

@[simp] theorem after_shift (o : Out) (u k : List UInt64) (t : List Tok) (e : List Ev) (ov : Bool) (d : Nat) :
    (o.after u k t e ov).shift d = (o.shift d).after u k t e ov := rfl

@[simp] theorem shift_res (o : Out) (d : Nat) : (o.shift d).res = o.res := rfl
@[simp] theorem shift_src (o : Out) (d : Nat) : (o.shift d).src = o.src := rfl
@[simp] theorem shift_used (o : Out) (d : Nat) : (o.shift d).used = o.used := rfl
@[simp] theorem shift_kept (o : Out) (d : Nat) : (o.shift d).kept = o.kept := rfl
@[simp] theorem shift_toks (o : Out) (d : Nat) : (o.shift d).toks = o.toks := rfl
@[simp] theorem shift_evs (o : Out) (d : Nat) : (o.shift d).evs = o.evs := rfl
@[simp] theorem shift_overran (o : Out) (d : Nat) : (o.shift d).overran = o.overran := rfl
@[simp] theorem shift_ts (o : Out) (d : Nat) : (o.shift d).ts = o.ts.shift d := rfl

/-- no program observes the absolute value of `t.draws` -/
theorem run_shift (p : Prog) : ∀ (src : Src) (ts : TS) (d : Nat), p.run src (ts.shift d) = (p.run src ts).shift d := by
  induction p with
  | ret v => intro src ts d; rfl
  | throw e => intro src ts d; rfl
  | draw n k ih =>
    intro src ts d
    simp only [Prog.run]
    cases src.next n with
    | none => rfl
    | some r => simp only [ih, after_shift]
  | group l s b dd k ihb ihk =>
    intro src ts d
    simp only [Prog.run, ihb, shift_res, shift_used, shift_kept, shift_toks, shift_evs, shift_overran, shift_src, shift_ts]
    cases (b.run src ts).res with
    | error e => rfl
    | ok v =>
      simp only []
      split
      · rfl
      · simp only [ihk, after_shift]
  | catchInv b k ihb ihk =>
    intro src ts d
    simp only [Prog.run, ihb, shift_res, shift_used, shift_kept, shift_toks, shift_evs, shift_overran, shift_src, shift_ts, shift_draws]
    have hd : ((b.run src ts).ts.draws + d != ts.draws + d) = ((b.run src ts).ts.draws != ts.draws) := by
      have : ((b.run src ts).ts.draws + d == ts.draws + d) = ((b.run src ts).ts.draws == ts.draws) := by
        rw [Bool.eq_iff_iff]; simp
      simp only [bne, this]
    cases (b.run src ts).res with
    | ok v => simp only [hd, ihk, after_shift]
    | error e =>
      cases e with
      | invalid m => simp only [hd, ihk, after_shift]
      | stop m s => rfl
      | panic m s => rfl
      | fuel => rfl
  | errorf m k ih =>
    intro src ts d
    simp only [Prog.run]
    have := ih src { ts with failed := some m } d
    simp only [TS.shift] at this ⊢
    rw [this]; rfl
  | failOnError site k ih =>
    intro src ts d
    simp only [Prog.run, shift_failed]
    cases ts.failed with
    | some m => rfl
    | none => exact ih src ts d
  | tick k ih =>
    intro src ts d
    simp only [Prog.run]
    have : ({ ts.shift d with draws := (ts.shift d).draws + 1 } : TS) = ({ ts with draws := ts.draws + 1 } : TS).shift d := by
      simp only [TS.shift]; congr 1; omega
    rw [this]; exact ih src _ d
  | cleanup c k ih => intro src ts d; simp only [Prog.run]; exact ih src { ts with cleanups := c :: ts.cleanups } d
  | ctx k ih =>
    intro src ts d
    simp only [Prog.run, shift_ctx, shift_ctxCount]
    cases ts.ctx with
    | some id => simp only [ih, after_shift]
    | none =>
      simp only []
      have := ih src { ts with ctx := some ts.ctxCount, ctxCount := ts.ctxCount + 1 } d
      simp only [TS.shift] at this ⊢
      rw [this]; rfl
  | inner b k ihb ihk =>
    intro src ts d
    simp only [Prog.run, shift_failed]
    cases (cleanupPhase (b.run src TS.fresh).ts).err with
    | some e => rfl
    | none =>
      simp only []
      cases (b.run src TS.fresh).res with
      | error e => rfl
      | ok v =>
        simp only []
        have := ihk v (b.run src TS.fresh).src
          { ts with failed := match (cleanupPhase (b.run src TS.fresh).ts).ts.failed with | some m => some m | none => ts.failed } d
        simp only [TS.shift] at this ⊢
        rw [after_shift]
        exact congrArg (fun o => Out.after o _ _ _ _ _) this
  | emit id k ih => intro src ts d; simp only [Prog.run, ih, after_shift]

/-- nothing is pending on the `*T`: what `newT` gives and what `checkOnce` leaves behind -/
def Clean (ts : TS) : Prop := ts.failed = none ∧ ts.cleanups = [] ∧ ts.ctx = none

theorem clean_fresh : Clean TS.fresh := ⟨rfl, rfl, rfl⟩

theorem clean_eq_shift {ts : TS} (h : Clean ts) : ({ ts with ctxCount := 0 } : TS) = TS.fresh.shift ts.draws := by
  obtain ⟨h1, h2, h3⟩ := h
  cases ts
  simp only [TS.fresh, TS.shift] at *
  subst h1 h2 h3
  simp

/-- **isolation**: on a clean `*T` a test case gives the error it gives on a fresh one, makes the
    same recording and emits the same events. -/
theorem checkOnce_clean (p : Prog) (src : Src) {ts : TS} (h : Clean ts) :
    (checkOnce p src ts).err = (checkOnce p src TS.fresh).err ∧
    (checkOnce p src ts).used = (checkOnce p src TS.fresh).used ∧
    (checkOnce p src ts).kept = (checkOnce p src TS.fresh).kept ∧
    (checkOnce p src ts).evs = (checkOnce p src TS.fresh).evs ∧
    (checkOnce p src ts).src = (checkOnce p src TS.fresh).src := by
  have e1 := clean_eq_shift h
  have e2 : ({ TS.fresh with ctxCount := 0 } : TS) = TS.fresh := rfl
  simp only [checkOnce_def, e1, e2, run_shift, shift_ts, cleanupPhase_shift, cleanupCtx_shift, shift_res, shift_src, shift_used,
    shift_kept, shift_evs]
  simp [COut.shift]

end Rapid
