/-
  utils.go `repeat.more` / `repeat.reject`, translated from the source on every run (stream mode: `s.beginGroup`,
  `s.endGroup`, `s.drawBits`, `flipBiasedCoin(s, …)` are requests of a `Go.StScript`; `RapidModel/GoStream.lean` gives
  their meaning on the model's recorder), and the loop every collection generator writes around them
  (`for r.more(s) { …; if refused { r.reject() } }`) proved to be the model's `repeatLoop`:
  `tr_repeatLoop` (from any state of the loop) and `tr_repeat` (from `newRepeat` on).

  What is compared (`Core`): the result, the rest of the source of words, the `*T` state, the tokens recorded —
  groups, their `standalone`/`discard` flags, the words, the zero-bit coin of a forced stop —, the events and the
  overrun flag.  The one place where the source and the model place a token at different times is the close of an
  element's group: the model closes it when the element is done, the source at the next call of `more`; `Pending` /
  `pend` carry that token across the iteration.
-/
import RapidModel.Generated.Translated
import RapidModel.Prim
import RapidProofs.TranslatedProgEq
import RapidProofs.TranslatedEq
import RapidProofs.Contracts
import RapidProofs.TranslatedDataEq
import RapidProofs.Bind
import RapidProofs.TranslatedPassEq

namespace Rapid.Go
open Rapid

/-! ### running stream scripts -/

/-- what of a run matters here: result, rest of the source, `*T` state, tokens, events, overrun -/
structure Core where
  res : Except Err Val
  src : Src
  ts : TS
  toks : List Tok
  evs : List Ev
  overran : Bool

def outCore (o : Out) : Core := ⟨o.res, o.src, o.ts, o.toks, o.evs, o.overran⟩

/-- the Go panic of translated code as an error of the model -/
def panicErr : Panic → Err
  | .invalidData m => .invalid m
  | .fuel => .fuel
  | .assertion => .panic "assertion failed" 9004
  | .runtime => .panic "runtime error" 9005
  | .mismatch => .panic "the second run of a candidate differs" 9006

/-- the outcome of a script whose value is an encoded `Val`: a panic of the Go code leaves the open groups unfinished -/
def StRes.core : StRes (Except Panic Val) → Core
  | .done (.ok v) s => ⟨.ok v, s.src, s.ts, s.toks, s.evs, s.overran⟩
  | .done (.error p) s => ⟨.error (panicErr p), s.src, s.ts, s.abortAll.toks, s.evs, s.overran⟩
  | .fail e s => ⟨.error e, s.src, s.ts, s.toks, s.evs, s.overran⟩

def StM.run {α : Type} (x : StM α) (s : StState) : StRes (Except Panic α) := StScript.run x s

def StRes.bindE {α β : Type} (r : StRes (Except Panic α)) (f : α → StState → StRes (Except Panic β)) : StRes (Except Panic β) :=
  match r with
  | .done (.ok a) s => f a s
  | .done (.error e) s => .done (.error e) s
  | .fail e s => .fail e s

@[simp] theorem StRes.bindE_ok {α β : Type} (a : α) (s : StState) (f : α → StState → StRes (Except Panic β)) :
    (StRes.done (.ok a) s : StRes (Except Panic α)).bindE f = f a s := rfl
@[simp] theorem StRes.bindE_err {α β : Type} (e : Panic) (s : StState) (f : α → StState → StRes (Except Panic β)) :
    (StRes.done (.error e) s : StRes (Except Panic α)).bindE f = .done (.error e) s := rfl
@[simp] theorem StRes.bindE_fail {α β : Type} (e : Err) (s : StState) (f : α → StState → StRes (Except Panic β)) :
    (StRes.fail e s : StRes (Except Panic α)).bindE f = .fail e s := rfl

theorem StScript.run_bind {α β : Type} (x : StScript α) (f : α → StScript β) : ∀ s : StState,
    (x.bind f).run s = match x.run s with | .done a s' => (f a).run s' | .fail e s' => .fail e s' := by
  induction x with
  | ret a => intro s; rfl
  | sub p k ih =>
    intro s
    simp only [StScript.bind, StScript.run]
    cases (p.run s.src s.ts).res with
    | ok v => exact ih v _
    | error e => rfl
  | beginG l st k ih => intro s; simp only [StScript.bind, StScript.run]; exact ih _ _
  | endG i d k ih =>
    intro s
    simp only [StScript.bind, StScript.run]
    cases s.stack with
    | nil => rfl
    | cons hd rest =>
      obtain ⟨j, nw0⟩ := hd
      simp only
      by_cases h1 : (i != j) = true
      · simp [h1]
      · by_cases h2 : (!d && s.nw == nw0) = true
        · simp [h1, h2]
        · simp only [h1, h2, Bool.false_eq_true, if_false]; exact ih _

@[simp] theorem StM.run_bind {α β : Type} (x : StM α) (f : α → StM β) (s : StState) :
    StM.run (x >>= f) s = (StM.run x s).bindE fun a s' => StM.run (f a) s' := by
  have h := StScript.run_bind (show StScript (Except Panic α) from x)
    (fun r => match r with
      | .ok a => (show StScript (Except Panic β) from f a)
      | .error e => StScript.ret (.error e)) s
  refine Eq.trans h ?_
  show _ = (StScript.run (show StScript (Except Panic α) from x) s).bindE _
  cases StScript.run (show StScript (Except Panic α) from x) s with
  | done r s' => cases r <;> rfl
  | fail e s' => rfl

@[simp] theorem StM.run_pure {α : Type} (a : α) (s : StState) : StM.run (pure a : StM α) s = .done (.ok a) s := rfl
@[simp] theorem StM.run_ofM {α : Type} (x : M α) (s : StState) : StM.run (StM.ofM x) s = .done x s := rfl
@[simp] theorem StM.run_fuel {α : Type} (s : StState) : StM.run (StM.fuel : StM α) s = .done (.error .fuel) s := rfl
@[simp] theorem StM.run_beginG (l : String) (st : Bool) (s : StState) :
    StM.run (StM.beginG l st) s =
      .done (.ok (Int64.ofNat s.ng)) { s with toks := s.toks ++ [.opn l st], stack := (Int64.ofNat s.ng, s.nw) :: s.stack, ng := s.ng + 1 } := rfl
@[simp] theorem StM.run_ite {α : Type} (c : Bool) (x y : StM α) (s : StState) :
    StM.run (if c then x else y) s = if c then StM.run x s else StM.run y s := by cases c <;> rfl

/-! ### the coin of `repeat.more` -/

/-- what `fe` must know about the probability `p` for `flipBiasedCoin(s, p)` to be the model's coin with threshold `thr` -/
def CoinOK (fe : FEval) (p : FX) (thr : UInt64) : Prop :=
  (fe.le (.lit "0") p = true ∧ fe.le p (.lit "1") = true) ∧
    ∀ w : UInt64, w < thrNever → fe.le (.sub (.lit "1") p) (f01 w) = decide (thr ≤ w)

theorem coin_run (thr : UInt64) (K : Bool → Prog) (src : Src) (ts : TS) :
    (coin thr K).run src ts =
      match src.next 53 with
      | none => { Out.ofRes (.error (.invalid "overrun")) src ts with overran := true, toks := [.opn coinLabel false, .abort] }
      | some (w, src') =>
        ((K (decide (thr ≤ w))).run src' ts).after [w] [w] [.opn coinLabel false, .w w, .cls false] [] false := by
  unfold coin
  rw [run_draw_group]
  cases src.next 53 with
  | none => rfl
  | some r =>
    obtain ⟨w, src'⟩ := r
    simp only [Bool.false_eq_true, if_false]
    have : (Val.bool (decide (thr ≤ w)) == vTrue) = decide (thr ≤ w) := by
      by_cases h : thr ≤ w <;> simp [h, vTrue] <;> rfl
    rw [this]

/-- `flipBiasedCoin(s, p)` of the source as a request of a stream script -/
theorem stCoin_run (fe : FEval) (p : FX) (thr : UInt64) (h : CoinOK fe p thr) (cf : Nat) (s : StState) :
    StM.run (StM.sub (Translated.flipBiasedCoin fe p cf fun b_ => .ret (Enc.enc b_)) : StM Bool) s =
      match s.src.next 53 with
      | none => .fail (.invalid "overrun")
          ({ s with toks := s.toks ++ [.opn coinLabel false, .abort], overran := true } : StState).abortAll
      | some (w, src') => .done (.ok (decide (thr ≤ w)))
          { s with src := src', toks := s.toks ++ [.opn coinLabel false, .w w, .cls false], nw := s.nw + 1 } := by
  have hrun := tr_coin fe p thr cf (fun b_ => .ret (Enc.enc b_)) (fun b_ => .ret (Enc.enc b_)) h.1 h.2 (fun _ => RunEq.refl _) s.src s.ts
  show StScript.run (StScript.sub _ _) s = _
  simp only [StScript.run, hrun, coin_run]
  cases hn : s.src.next 53 with
  | none => simp [Out.ofRes, StState.abortAll]
  | some r =>
    obtain ⟨w, src'⟩ := r
    simp only [Prog.run, Out.ofRes, Out.after, List.append_nil, List.length_cons, List.length_nil, Bool.or_false]
    simp [StScript.run, Enc.dec, Enc.enc]

theorem stDraw_run (n : Int64) (s : StState) :
    StM.run (StM.draw n) s =
      match s.src.next (natOfInt n) with
      | none => .fail (.invalid "overrun") ({ s with overran := true } : StState).abortAll
      | some (u, src') => .done (.ok u) { s with src := src', toks := s.toks ++ [.w u], nw := s.nw + 1 } := by
  show StScript.run (StScript.sub _ _) s = _
  simp only [StScript.run, Prog.run]
  cases hn : s.src.next (natOfInt n) with
  | none => simp [Out.ofRes, StState.abortAll]
  | some r =>
    obtain ⟨u, src'⟩ := r
    simp [Prog.run, Out.ofRes, Out.after, StScript.run, Enc.dec, Enc.enc]

theorem stEndG_run (i : Int64) (d : Bool) (s : StState) :
    StM.run (StM.endG i d) s =
      match s.stack with
      | [] => .fail (.panic "endGroup without an open group" 9002) s
      | (j, nw0) :: rest =>
        if i != j then .fail (.panic "group closed out of order" 9003) s.abortAll
        else if !d && s.nw == nw0 then .fail (.panic groupAssertMsg siteGroupAssert) s.abortAll
        else .done (.ok ()) { s with toks := s.toks ++ [.cls d], stack := rest } := by
  show StScript.run (StScript.endG _ _ _) s = _
  simp only [StScript.run]
  cases s.stack with
  | nil => rfl
  | cons hd rest =>
    obtain ⟨j, nw0⟩ := hd
    by_cases h1 : (i != j) = true
    · simp [h1]
    · by_cases h2 : (!d && s.nw == nw0) = true
      · simp [h1, h2]
      · simp [h1, h2, StScript.run]

/-! ### the loop around `repeat.more` -/

/-- the element of the loop body: a program of the model run on the stream -/
def subT (p : Prog) : StM Val := StScript.sub p (fun v => StScript.ret (.ok v))

theorem stSub_run (p : Prog) (s : StState) :
    StM.run (subT p) s =
      match (p.run s.src s.ts).res with
      | .ok v => .done (.ok v) { s with src := (p.run s.src s.ts).src, ts := (p.run s.src s.ts).ts, toks := s.toks ++ (p.run s.src s.ts).toks,
                                        evs := s.evs ++ (p.run s.src s.ts).evs, overran := s.overran || (p.run s.src s.ts).overran,
                                        nw := s.nw + (p.run s.src s.ts).used.length }
      | .error e => .fail e ({ s with src := (p.run s.src s.ts).src, ts := (p.run s.src s.ts).ts, toks := s.toks ++ (p.run s.src s.ts).toks,
                                        evs := s.evs ++ (p.run s.src s.ts).evs, overran := s.overran || (p.run s.src s.ts).overran,
                                        nw := s.nw + (p.run s.src s.ts).used.length } : StState).abortAll := by
  show StScript.run (StScript.sub p _) _ = _
  simp only [StScript.run]
  cases (p.run s.src s.ts).res <;> rfl

/-- the receiver state of `repeat` -/
structure RS where
  minCount : Int64
  maxCount : Int64
  pContinue : UInt64
  count : Int64
  group : Int64
  rejected : Bool
  forceStop : Bool
  label : String
  rejections : Int64

/-- one call of the translated `repeat.more` -/
def moreT (fe : FEval) (r : RS) (cf : Nat) : StM (Bool × RS) :=
  Translated.repeat_more fe r.minCount r.maxCount r.pContinue r.count r.group r.rejected r.forceStop r.label cf >>= fun t =>
    pure (t.1, { r with minCount := t.2.1, maxCount := t.2.2.1, pContinue := t.2.2.2.1, count := t.2.2.2.2.1,
                        group := t.2.2.2.2.2.1, rejected := t.2.2.2.2.2.2.1, forceStop := t.2.2.2.2.2.2.2.1,
                        label := t.2.2.2.2.2.2.2.2 })

/-- one call of the translated `repeat.reject` -/
def rejectT (r : RS) : StM RS :=
  match Translated.repeatReject r.count r.forceStop r.minCount r.rejected r.rejections with
  | none => StM.ofM (.error (.invalidData tooManyMsg))
  | some t => pure { r with count := t.1, forceStop := t.2.1, minCount := t.2.2.1, rejected := t.2.2.2.1, rejections := t.2.2.2.2 }

/-- `for r.more(s) { … }` as every collection generator writes it: the body draws an element (`step acc`: the lexically scoped
    program of the model for one element, answering `rRej` or `rAcc acc'`) and calls `r.reject()` when the element is refused -/
def repeatWhile (fe : FEval) (step : Val → Prog) (cf : Nat) : Nat → RS → Val → StM Val
  | 0, _, _ => StM.fuel
  | fuel+1, r, acc =>
    moreT fe r cf >>= fun t =>
      if t.1 then
        subT (step acc) >>= fun res =>
          if res == rRej then rejectT t.2 >>= fun r2 => repeatWhile fe step cf fuel r2 acc
          else match res with
            | .cons .nil acc' => repeatWhile fe step cf fuel t.2 acc'
            | _ => pure acc
      else pure acc

/-- the repeat state of the source and the model's describe the same loop -/
structure Rel (c : RCfg) (pc : UInt64) (r : RS) (st : RSt) : Prop where
  hmin : r.minCount = Int64.ofNat c.minC
  hmax : r.maxCount = Int64.ofNat c.maxC
  hp : r.pContinue = pc
  hcount : r.count = Int64.ofNat st.count
  hforce : r.forceStop = st.force
  hlabel : r.label = c.label ++ repeatSuffix
  hrej : r.rejections = Int64.ofNat st.rejs
  bmin : c.minC < 2 ^ 62
  bmax : c.maxC < 2 ^ 63

/-- at the head of the loop: no group of the loop is open, or the group of the previous element is (it used at least the coin's word) -/
def Pending (r : RS) (s : StState) : Prop :=
  (r.group = Int64.ofNat 0 - 1 ∧ s.stack = []) ∨
  (∃ g nw0, r.group = Int64.ofNat g ∧ g < 2 ^ 62 ∧ s.stack = [(Int64.ofNat g, nw0)] ∧ nw0 < s.nw)

/-- the token the model has written already and the source writes at its next call of `more` -/
def pend (r : RS) : List Tok := if r.group ≥ 0 then [.cls r.rejected] else []

/-- the model's run `o`, continued from what the script had done (`s`, and the pending close `p`) -/
def glue (s : StState) (p : List Tok) (o : Out) : Core :=
  ⟨o.res, o.src, o.ts, s.toks ++ p ++ o.toks, s.evs ++ o.evs, s.overran || o.overran⟩

/-- the element program answers "rejected" or "accepted, the accumulator is now …" -/
def StepOK (step : Val → Prog) : Prop :=
  ∀ acc src ts v, ((step acc).run src ts).res = .ok v → v = rRej ∨ ∃ acc', v = rAcc acc'

theorem i64_lt63 {a b : Nat} (ha : a < 2 ^ 63) (hb : b < 2 ^ 63) : decide (Int64.ofNat a < Int64.ofNat b) = decide (a < b) := by
  simp only [Int64.lt_iff_toInt_lt, Int64.toInt_ofNat_of_lt ha, Int64.toInt_ofNat_of_lt hb]
  congr 1; apply propext; omega

theorem i64_ge63 {a b : Nat} (ha : a < 2 ^ 63) (hb : b < 2 ^ 63) : decide (Int64.ofNat a ≥ Int64.ofNat b) = decide (a ≥ b) := by
  simp only [ge_iff_le, Int64.le_iff_toInt_le, Int64.toInt_ofNat_of_lt ha, Int64.toInt_ofNat_of_lt hb]
  congr 1; apply propext; omega

theorem negOne_ge : decide (Int64.ofNat 0 - 1 ≥ (0 : Int64)) = false := by decide

def glueC (s : StState) (p : List Tok) (k : Core) : Core :=
  ⟨k.res, k.src, k.ts, s.toks ++ p ++ k.toks, s.evs ++ k.evs, s.overran || k.overran⟩

theorem glue_eq (s : StState) (p : List Tok) (o : Out) : glue s p o = glueC s p (outCore o) := rfl

/-- one iteration of the model's loop when the coin is flipped: the group of the element, the coin, the rest -/
theorem group_coin_core (L : String) (thr : UInt64) (K : Bool → Prog) (D : Val → Bool) (KK : Val → Prog) (src : Src) (ts : TS) :
    outCore ((Prog.group L true (coin thr K) D KK).run src ts) =
      match src.next 53 with
      | none => ⟨.error (.invalid "overrun"), src, ts, [.opn L true, .opn coinLabel false, .abort, .abort], [], true⟩
      | some (w, src') =>
        let o := (K (decide (thr ≤ w))).run src' ts
        match o.res with
        | .error e => ⟨.error e, o.src, o.ts, .opn L true :: ([.opn coinLabel false, .w w, .cls false] ++ o.toks) ++ [.abort], o.evs, o.overran⟩
        | .ok v =>
          let o2 := (KK v).run o.src o.ts
          ⟨o2.res, o2.src, o2.ts, .opn L true :: ([.opn coinLabel false, .w w, .cls false] ++ o.toks) ++ [.cls (D v)] ++ o2.toks,
            o.evs ++ o2.evs, o.overran || o2.overran⟩ := by
  simp only [Prog.run, coin_run]
  cases hn : src.next 53 with
  | none => simp [outCore, Out.ofRes]
  | some nx =>
    obtain ⟨w, src'⟩ := nx
    simp only
    cases hr : ((K (decide (thr ≤ w))).run src' ts).res with
    | error e => simp [outCore, Out.after, hr]
    | ok v => simp [outCore, Out.after, hr, List.append_assoc]

theorem closePending (r : RS) (s : StState) (h : Pending r s) :
    StM.run ((if decide (r.group ≥ (0 : Int64)) then (StM.endG r.group r.rejected >>= fun _ => pure ()) else pure ()) : StM Unit) s =
      .done (.ok ()) { s with toks := s.toks ++ pend r, stack := [] } := by
  rcases h with ⟨hg, hs⟩ | ⟨g, nw0, hg, hg62, hs, hnw⟩
  · have hd : decide (r.group ≥ (0 : Int64)) = false := by rw [hg]; exact negOne_ge
    have hp : pend r = [] := by
      unfold pend
      have : ¬ r.group ≥ 0 := by simpa using hd
      simp [this]
    rw [hd, hp]
    simp only [Bool.false_eq_true, if_false, StM.run_pure, List.append_nil]
    cases s; simp_all
  · have hd : decide (r.group ≥ (0 : Int64)) = true := by rw [hg]; exact i64_ofNat_nonneg hg62
    have hp : pend r = [.cls r.rejected] := by
      unfold pend
      have : r.group ≥ 0 := by simpa using hd
      simp [this]
    rw [hd, hp]
    simp only [if_true, StM.run_bind, stEndG_run, hs, hg]
    have h1 : (Int64.ofNat g != Int64.ofNat g) = false := by simp
    have h2 : (!r.rejected && s.nw == nw0) = false := by
      have : (s.nw == nw0) = false := by simp; omega
      simp [this]
    simp [h1, h2]

set_option maxHeartbeats 1000000 in
/-- **the loop around the translated `repeat.more` is the model's `repeatLoop`**: same words consumed, same tokens recorded (the
    group of an element closed — with `rejected` — by the next call of `more`), same accumulator, same errors -/
theorem tr_repeatLoop (fe : FEval) (c : RCfg) (pc : UInt64) (step : Val → Prog) (hstep : StepOK step) (cf : Nat)
    (hc1 : CoinOK fe (.ofBits 4607182418800017408) thrAlways) (hc0 : CoinOK fe (.ofBits 0) thrNever) (hcp : CoinOK fe (.ofBits pc) c.thr) :
    ∀ (fuel : Nat) (st : RSt) (acc : Val) (r : RS) (s : StState), Rel c pc r st → Pending r s →
      s.ng + 2 * fuel < 2 ^ 62 → st.count + fuel < 2 ^ 60 → st.rejs + fuel < 2 ^ 60 →
      ((repeatLoop c step (fun a => .ret a) fuel st acc).run s.src s.ts).res = .error .fuel ∨
      (StM.run (repeatWhile fe step cf fuel r acc) s).core =
        glue s (pend r) ((repeatLoop c step (fun a => .ret a) fuel st acc).run s.src s.ts) := by
  intro fuel
  induction fuel with
  | zero => intro st acc r s _ _ _ _ _; left; rfl
  | succ fuel ih =>
    intro st acc r s hrel hpend hng hcnt hrj
    obtain ⟨hmin, hmax, hp, hcount, hforce, hlabel, hrejs, bmin, bmax⟩ := hrel
    show (outCore ((repeatLoop c step (fun a => .ret a) (fuel + 1) st acc).run s.src s.ts)).res = .error .fuel ∨ _
    rw [repeatWhile, moreT, Translated.repeat_more]
    simp only [StM.run_bind, closePending r s hpend, StRes.bindE_ok, StM.run_beginG]
    -- the comparisons of the source on the numbers of the model
    have hcl : decide (r.count < r.minCount) = decide (st.count < c.minC) := by
      rw [hcount, hmin]; exact i64_lt63 (by omega) (by omega)
    have hcm : decide (r.count ≥ r.minCount) = decide (st.count ≥ c.minC) := by
      rw [hcount, hmin]; exact i64_ge63 (by omega) (by omega)
    have hcx : decide (r.count ≥ r.maxCount) = decide (st.count ≥ c.maxC) := by
      rw [hcount, hmax]; exact i64_ge63 (by omega) bmax
    rw [hcl, hcm, hcx, hforce, hlabel]
    -- the coin: a forced stop draws zero bits; otherwise `flipBiasedCoin` with one of three probabilities
    by_cases hz : st.force = true ∧ st.count ≥ c.minC
    · obtain ⟨hf, hge⟩ := hz
      have hnl : ¬ st.count < c.minC := by omega
      right
      have hmc : ∀ K, moreCoin c st K =
          .group coinLabel false (.draw 0 fun _ => .ret vFalse) (fun _ => false) (fun _ => K false) := by
        intro K; simp [moreCoin, hnl, hf]
      have h0 : natOfInt (0 : Int64) = 0 := by decide
      rw [repeatLoop]
      simp only [hmc, hf, hge, hnl, decide_true, decide_false, Bool.true_or, Bool.and_self, if_true, if_false, Bool.false_eq_true,
        StM.run_bind, StM.run_pure, StRes.bindE_ok, StM.run_beginG, stDraw_run, h0, Prog.run]
      cases hn : s.src.next 0 with
      | none => simp [StRes.core, StState.abortAll, glue, coinLabel, outCore, Out.ofRes]
      | some nx =>
        obtain ⟨u, src'⟩ := nx
        have hne1 : (Int64.ofNat (s.ng + 1) != Int64.ofNat (s.ng + 1)) = false := by simp
        have hne : (Int64.ofNat s.ng != Int64.ofNat s.ng) = false := by simp
        have hnw : (s.nw + 1 == s.nw) = false := by simp
        simp [stEndG_run, hne, hne1, hnw, Prog.run, Out.ofRes, Out.after, rStop, rRej, StRes.core, glue, coinLabel, outCore, List.append_assoc]
    · -- which probability, which threshold
      obtain ⟨pb, thr, hok, hpb, hmc⟩ : ∃ (pb thr : UInt64), CoinOK fe (.ofBits pb) thr ∧
          (∀ s2 : StState, StM.run ((if decide (st.count < c.minC) = true then pure (4607182418800017408 : UInt64)
              else (if (st.force || decide (st.count ≥ c.maxC)) = true then pure (0 : UInt64) else pure r.pContinue) >>= fun pCont => pure pCont) : StM UInt64) s2
            = .done (.ok pb) s2) ∧
          (∀ K, moreCoin c st K = coin thr K) := by
        by_cases h1 : st.count < c.minC
        · exact ⟨_, _, hc1, by intro s2; simp [h1], by intro K; simp [moreCoin, h1]⟩
        · have hf : st.force = false := by
            cases hfv : st.force with
            | false => rfl
            | true => exact absurd ⟨hfv, by omega⟩ hz
          by_cases h2 : st.count ≥ c.maxC
          · exact ⟨_, _, hc0, by intro s2; simp [h1, h2], by intro K; simp [moreCoin, h1, hf, h2]⟩
          · exact ⟨_, _, hp ▸ hcp, by intro s2; simp [h1, h2, hf], by intro K; simp [moreCoin, h1, hf, h2]⟩
      have hzb : (st.force && decide (st.count ≥ c.minC)) = false := by
        cases hfv : st.force with
        | false => rfl
        | true =>
          have : ¬ st.count ≥ c.minC := fun h => hz ⟨hfv, h⟩
          simp [this]
      simp only [hpb, StRes.bindE_ok, hzb, Bool.false_eq_true, if_false, StM.run_bind, stCoin_run fe (.ofBits pb) thr hok]
      -- the model: the group of the element around the coin
      rw [repeatLoop, glue_eq]
      simp only [hmc, group_coin_core]
      cases hn : s.src.next 53 with
      | none =>
        right
        simp [StRes.core, StState.abortAll, glueC]
      | some nx =>
        obtain ⟨w, src'⟩ := nx
        simp only [StRes.bindE_ok, StM.run_pure]
        cases hb : decide (thr ≤ w) with
        | false =>
          -- the coin says stop: the group is closed at once
          right
          have hne : (Int64.ofNat s.ng != Int64.ofNat s.ng) = false := by simp
          have hnw : (s.nw + 1 == s.nw) = false := by simp
          simp [stEndG_run, hne, hnw, Prog.run, Out.ofRes, rStop, rRej, StRes.core, glueC, List.append_assoc]
        | true =>
          simp only [if_true, StM.run_pure, StRes.bindE_ok, run_bind, StM.run_bind, stSub_run]
          generalize hos : (step acc).run src' s.ts = os
          cases hr : os.res with
          | error e =>
            right
            simp [Out.andThen, hr, StRes.core, StState.abortAll, glueC, StRes.bindE, List.append_assoc]
          | ok v =>
            have hv := hstep acc src' s.ts v (by rw [hos]; exact hr)
            rcases hv with hv | ⟨acc', hv⟩
            · subst hv
              have hsucc : r.count + 1 = Int64.ofNat (st.count + 1) := by rw [hcount]; exact i64_ofNat_succ _
              have hrr := tr_repeatReject st.count st.rejs c.minC st.force false (by omega) (by omega) bmin c rfl
              have hst : (⟨st.count, st.rejs, st.force⟩ : RSt) = st := by cases st; rfl
              rw [hst, ← i64_ofNat_succ] at hrr
              by_cases htm : tooManyRejections c st = true
              · right
                simp [Out.andThen, hr, htm, Prog.run, Out.ofRes, Out.after, rejectT, hcount, hmin, hrejs, hrr, StRes.core,
                  panicErr, glueC, StState.abortAll, List.append_assoc, rRej]
              · have htm' : tooManyRejections c st = false := by simpa using htm
                simp only [Out.andThen, hr, htm', Prog.run, Out.ofRes, Out.after, rejectT, hcount, hmin, hrejs, hrr, rRej,
                  StRes.bindE_ok, StM.run_pure, beq_self_eq_true, Bool.and_false, Bool.false_eq_true, if_false, if_true]
                have hg0 : Int64.ofNat s.ng ≥ 0 := of_decide_eq_true (i64_ofNat_nonneg (by omega))
                refine Or.imp id (fun hI => ?_) (ih ⟨st.count, st.rejs + 1, st.force || decide (st.rejs + 1 > st.count * 2)⟩ acc
                  { minCount := Int64.ofNat c.minC, maxCount := r.maxCount, pContinue := r.pContinue,
                    count := Int64.ofNat st.count, group := Int64.ofNat s.ng, rejected := true,
                    forceStop := st.force || decide (st.rejs + 1 > st.count * 2), label := c.label ++ repeatSuffix,
                    rejections := Int64.ofNat (st.rejs + 1) }
                  { src := os.src, ts := os.ts,
                    toks := s.toks ++ pend r ++ [Tok.opn (c.label ++ repeatSuffix) true] ++
                      [Tok.opn coinLabel false, Tok.w w, Tok.cls false] ++ os.toks,
                    evs := s.evs ++ os.evs, overran := s.overran || os.overran, stack := [(Int64.ofNat s.ng, s.nw)],
                    ng := s.ng + 1, nw := s.nw + 1 + os.used.length }
                  ⟨rfl, hmax, hp, rfl, rfl, rfl, rfl, bmin, bmax⟩
                  (Or.inr ⟨s.ng, s.nw, rfl, by omega, rfl, by show s.nw < s.nw + 1 + os.used.length; omega⟩)
                  (by show s.ng + 1 + 2 * fuel < 2 ^ 62; omega) (by show st.count + fuel < 2 ^ 60; omega)
                  (by show st.rejs + 1 + fuel < 2 ^ 60; omega))
                simp only [StM.run_bind, StM.run_pure, StRes.bindE_ok]
                rw [hI]
                simp [glue, glueC, pend, hg0, List.append_assoc, Bool.or_assoc]
            · subst hv
              have hsucc : r.count + 1 = Int64.ofNat (st.count + 1) := by rw [hcount]; exact i64_ofNat_succ _
              have hne : (Val.cons .nil acc' == rRej) = false := by simp [rRej]
              simp only [Out.andThen, hr, Prog.run, Out.ofRes, Out.after, hne, rAcc, hsucc,
                StRes.bindE_ok, StM.run_pure, Bool.false_and, Bool.false_eq_true, if_false, if_true]
              have hg0 : Int64.ofNat s.ng ≥ 0 := of_decide_eq_true (i64_ofNat_nonneg (by omega))
              refine Or.imp id (fun hI => ?_) (ih ⟨st.count + 1, st.rejs, st.force⟩ acc'
                { minCount := r.minCount, maxCount := r.maxCount, pContinue := r.pContinue,
                  count := Int64.ofNat (st.count + 1), group := Int64.ofNat s.ng, rejected := false,
                  forceStop := st.force, label := c.label ++ repeatSuffix, rejections := r.rejections }
                { src := os.src, ts := os.ts,
                  toks := s.toks ++ pend r ++ [Tok.opn (c.label ++ repeatSuffix) true] ++
                    [Tok.opn coinLabel false, Tok.w w, Tok.cls false] ++ os.toks,
                  evs := s.evs ++ os.evs, overran := s.overran || os.overran, stack := [(Int64.ofNat s.ng, s.nw)],
                  ng := s.ng + 1, nw := s.nw + 1 + os.used.length }
                ⟨hmin, hmax, hp, rfl, rfl, rfl, hrejs, bmin, bmax⟩
                (Or.inr ⟨s.ng, s.nw, rfl, by omega, rfl, by show s.nw < s.nw + 1 + os.used.length; omega⟩)
                (by show s.ng + 1 + 2 * fuel < 2 ^ 62; omega) (by show st.count + 1 + fuel < 2 ^ 60; omega)
                (by show st.rejs + fuel < 2 ^ 60; omega))
              rw [hI]
              simp [glue, glueC, pend, hg0, List.append_assoc, Bool.or_assoc]


/-- `newRepeat`: no group of the loop is open yet (`group: -1`), nothing counted -/
def RS.fresh (c : RCfg) (pc : UInt64) : RS :=
  ⟨Int64.ofNat c.minC, Int64.ofNat c.maxC, pc, Int64.ofNat 0, Int64.ofNat 0 - 1, false, false, c.label ++ repeatSuffix, Int64.ofNat 0⟩

/-- a script that has done nothing yet -/
def StState.fresh (src : Src) (ts : TS) : StState := ⟨src, ts, [], [], false, [], 0, 0⟩

theorem coinOK_one (fe : FEval) (ft : FT) (HB : FloatFactsBits fe ft) : CoinOK fe (.ofBits 4607182418800017408) thrAlways :=
  ⟨HB.coin_assert _ (Or.inr (Or.inl rfl)), fun w hw => by
    rw [HB.coin1 w hw]
    have : thrAlways ≤ w := by rw [UInt64.le_iff_toNat_le]; show 0 ≤ w.toNat; omega
    simp [this]⟩

theorem coinOK_zero (fe : FEval) (ft : FT) (HB : FloatFactsBits fe ft) : CoinOK fe (.ofBits 0) thrNever :=
  ⟨HB.coin_assert _ (Or.inl rfl), fun w hw => by
    rw [HB.coin0 w hw]
    have : ¬ thrNever ≤ w := by rw [UInt64.le_iff_toNat_le]; rw [UInt64.lt_iff_toNat_lt] at hw; omega
    simp [this]⟩

/-- **`for r.more(s) { … }` around the translated `repeat.more` and `repeat.reject`, from `newRepeat` on, is the model's
    `repeatLoop`** — for every body, every source of words and every `fuel < 2^59` (the only way the two can differ is the model
    running out of fuel, which the deadline of a run stands for): result, rest of the source, tokens recorded (so: groups,
    `discard` flags, the zero-bit coin of a forced stop), events and the overrun flag are the same -/
theorem tr_repeat (fe : FEval) (ft : FT) (HB : FloatFactsBits fe ft) (c : RCfg) (pc : UInt64) (hcp : CoinOK fe (.ofBits pc) c.thr)
    (hmin : c.minC < 2 ^ 62) (hmax : c.maxC < 2 ^ 63) (step : Val → Prog) (hstep : StepOK step) (cf fuel : Nat) (hfuel : fuel < 2 ^ 59)
    (acc : Val) (src : Src) (ts : TS) :
    ((repeatLoop c step (fun a => .ret a) fuel {} acc).run src ts).res = .error .fuel ∨
    (StM.run (repeatWhile fe step cf fuel (RS.fresh c pc) acc) (StState.fresh src ts)).core =
      outCore ((repeatLoop c step (fun a => .ret a) fuel {} acc).run src ts) := by
  have h := tr_repeatLoop fe c pc step hstep cf (coinOK_one fe ft HB) (coinOK_zero fe ft HB) hcp fuel {} acc (RS.fresh c pc)
    (StState.fresh src ts) ⟨rfl, rfl, rfl, rfl, rfl, rfl, rfl, hmin, hmax⟩ (Or.inl ⟨rfl, rfl⟩)
    (by show 0 + 2 * fuel < 2 ^ 62; omega) (by show 0 + fuel < 2 ^ 60; omega) (by show 0 + fuel < 2 ^ 60; omega)
  refine Or.imp id (fun h => ?_) h
  rw [h]
  have hp : pend (RS.fresh c pc) = [] := by
    unfold pend RS.fresh
    have : ¬ (Int64.ofNat 0 - 1 ≥ (0 : Int64)) := by simpa using negOne_ge
    simp [this]
  simp [glue, outCore, hp, StState.fresh]

end Rapid.Go
