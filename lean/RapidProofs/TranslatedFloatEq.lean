/-
  RapidProofs.TranslatedFloatEq — `genUfloatRange` and `genFloatRange` of floats.go, as translated from
  /repo on every run (RapidModel/Generated/Translated.lean), run in lock-step with the model of
  RapidModel/Float.lean for the float64 format: same draws, same groups, the same exponent and
  significand parts handed on (`Sim`, RapidProofs/Sim.lean).
-/
import RapidProofs.TranslatedProgEq
import RapidProofs.UniformPrims
import RapidProofs.ContractsFloat

namespace Rapid

open Rapid.Go

/-! ### encodings are injective -/

@[simp] theorem dec_enc_i64 (i : Int64) : (Enc.dec (Enc.enc i) : Int64) = i := by
  simp [Enc.enc, Enc.dec]

theorem enc_inj {α : Type} [Enc α] (h : ∀ a : α, (Enc.dec (Enc.enc a) : α) = a) (a a' : α)
    (he : (Enc.enc a : Val) = Enc.enc a') : a = a' := by
  rw [← h a, ← h a', he]

theorem dec_enc_tri (a : Int64 × Bool × Bool) : (Enc.dec (Enc.enc a) : Int64 × Bool × Bool) = a := by
  obtain ⟨i, l, r⟩ := a
  simp

theorem dec_enc_utri (a : UInt64 × Bool × Bool) : (Enc.dec (Enc.enc a) : UInt64 × Bool × Bool) = a := by
  obtain ⟨i, l, r⟩ := a
  simp

/-! ### the translated integer primitives in lock-step with the model, with their contracts -/

theorem sim_genIntRange (fe : FEval) (ft : FT) (H : FloatFacts fe ft) (min max : Int64) (fuel : Nat) (hmm : min ≤ max) :
    Sim3 (Translated.genIntRange fe min max true fuel) (intRange ft min max fuel)
        (fun b a => b = a ∧ ((min ≤ a.1 ∧ a.1 ≤ max) ∧ (a.2.1 = true → a.1 = min) ∧ (a.2.2 = true → a.1 = max))) :=
  (Sim.of_runEq (fun _ => tr_genIntRange fe ft H min max fuel _ _ (fun _ _ _ => RunEq.refl _))
    (uniform_intRange ft min max fuel)).and_yields (yields_intRange_flags ft min max fuel hmm) Enc.enc (enc_inj dec_enc_tri)

theorem sim_genUintRange (fe : FEval) (ft : FT) (H : FloatFacts fe ft) (min max : UInt64) (bias : Bool) (fuel : Nat) :
    Sim3 (Translated.genUintRange fe min max bias fuel) (uintRange ft min max bias fuel) (fun b a => b = a) :=
  Sim.of_runEq (fun _ => tr_genUintRange fe ft H min max bias fuel _ _ (fun _ _ _ => RunEq.refl _))
    (uniform_uintRange ft min max bias fuel)

theorem sim_genUintNNoReject (fe : FEval) (max : UInt64) (fuel : Nat) :
    Sim (Translated.genUintNNoReject fe max fuel) (uintNoReject max)
        (fun b a => b = a ∧ a ≤ max) :=
  (Sim.of_runEq (fun _ => tr_genUintNNoReject fe max fuel _ _ (fun _ => RunEq.refl _))
    (uniform_uintNoReject max)).and_yields (yields_uintNoReject max) Enc.enc (enc_inj dec_enc_u64)

/-! ### the body of the `floatsignif` group -/

theorem go_len64_toUInt64 (u : UInt64) : (Go.len64 u).toUInt64 = UInt64.ofNat (len64 u) := by
  apply UInt64.toBitVec_inj.mp
  simp [Go.len64, Int64.ofNat]
  rfl

/-- what leaves the translated group body (`si, sfMin, maxR, r, sf`) against what leaves the model's
    (`si` and the significand after the bit-clearing loop, which the source runs after the group) -/
def SigRel (c : UInt64 × UInt64 × Int64 × UInt64 × UInt64) (c' : UInt64 × UInt64) : Prop :=
  c' = (c.1, Translated.ufloatClearLoop c.2.2.1 c.2.2.2.1 c.2.1 ((c.2.2.1.toUInt64 - c.2.2.2.1) - 0).toNat 0 c.2.2.2.2)

theorem clearLoop_eq (d r' sfMin sf : UInt64) (hr : r' ≤ UInt64.ofNat (len64 d)) :
    Translated.ufloatClearLoop (Go.len64 d) r' sfMin (((Go.len64 d).toUInt64 - r') - 0).toNat 0 sf =
      clearLow sfMin (len64 d - r'.toNat) 0 sf := by
  have h64 := len64_le_64 d
  have hn : (UInt64.ofNat (len64 d)).toNat = len64 d := by
    rw [UInt64.toNat_ofNat']; exact Nat.mod_eq_of_lt (by omega)
  have hr' : r'.toNat ≤ len64 d := by rw [UInt64.le_iff_toNat_le, hn] at hr; exact hr
  have hsub : ((Go.len64 d).toUInt64 - r').toNat = len64 d - r'.toNat := by
    rw [go_len64_toUInt64, UInt64.toNat_sub_of_le _ _ hr, hn]
  have h0 : (((Go.len64 d).toUInt64 - r') - 0) = ((Go.len64 d).toUInt64 - r') := by simp
  have := tr_clearLoop (Go.len64 d) r' sfMin (by rw [hsub]; omega) (((Go.len64 d).toUInt64 - r') - 0).toNat 0 sf
    (by rw [UInt64.le_iff_toNat_le]; simp) (Nat.le_refl _)
  rw [this, h0, hsub]
  rfl

theorem sim_signif (fe : FEval) (ft : FT) (H : FloatFacts fe ft) (e : Int64) (l r : Bool) (minExp maxExp : Int32)
    (minSI minSF maxSI maxSF : UInt64) (he : e.toInt32.toInt = e.toInt) (fuel : Nat) :
    Sim (fun (k : UInt64 × UInt64 × Int64 × UInt64 × UInt64 → Prog) =>
          Translated.genUintRange fe
            (Translated.ufloatSwitchSI e (Translated.ufloatFracBits e.toInt32 52) l maxExp maxSI minExp minSI r 52).1
            (Translated.ufloatSwitchSI e (Translated.ufloatFracBits e.toInt32 52) l maxExp maxSI minExp minSI r 52).2 false fuel fun si _ _ =>
            Translated.genUintNNoReject fe (Go.len64
                ((Translated.ufloatSwitchSF e (Translated.ufloatFracBits e.toInt32 52) l maxExp maxSF maxSI minExp minSF minSI r si).2 -
                 (Translated.ufloatSwitchSF e (Translated.ufloatFracBits e.toInt32 52) l maxExp maxSF maxSI minExp minSF minSI r si).1)).toUInt64
              fuel fun r' =>
              Translated.genUintRange fe
                (Translated.ufloatSwitchSF e (Translated.ufloatFracBits e.toInt32 52) l maxExp maxSF maxSI minExp minSF minSI r si).1
                (Translated.ufloatSwitchSF e (Translated.ufloatFracBits e.toInt32 52) l maxExp maxSF maxSI minExp minSF minSI r si).2
                false fuel fun sf _ _ =>
                k (si, (Translated.ufloatSwitchSF e (Translated.ufloatFracBits e.toInt32 52) l maxExp maxSF maxSI minExp minSF minSI r si).1,
                   Go.len64
                    ((Translated.ufloatSwitchSF e (Translated.ufloatFracBits e.toInt32 52) l maxExp maxSF maxSI minExp minSF minSI r si).2 -
                     (Translated.ufloatSwitchSF e (Translated.ufloatFracBits e.toInt32 52) l maxExp maxSF maxSI minExp minSF minSI r si).1),
                   r', sf))
        (ufloatSignif ft 52 (minExp.toInt, minSI, minSF) (maxExp.toInt, maxSI, maxSF) e.toInt l r fuel)
        SigRel := by
  have h52 : (52 : UInt64).toNat = 52 := rfl
  have hfb : (Translated.ufloatFracBits e.toInt32 52).toNat = fracBits e.toInt (52 : UInt64).toNat := by
    rw [tr_fracBits, he]
  simp only [tr_switchSI e _ 52 l r maxExp minExp maxSI minSI minSF maxSF he hfb,
    tr_switchSF e _ 52 l r maxExp minExp maxSI minSI minSF maxSF _ he hfb, h52, go_len64_toUInt64]
  unfold ufloatSignif
  refine Sim3.bind (sim_genUintRange fe ft H _ _ false fuel) ?_
  rintro si _ _ _ _ _ ⟨rfl, rfl, rfl⟩
  generalize sfBounds 52 (minExp.toInt, minSI, minSF) (maxExp.toInt, maxSI, maxSF) e.toInt l r si = fb
  obtain ⟨sfMin, sfMax⟩ := fb
  dsimp only
  refine Sim.bind (pT := Translated.genUintNNoReject fe (UInt64.ofNat (len64 (sfMax - sfMin))) fuel)
    (pM := uintNoReject (UInt64.ofNat (len64 (sfMax - sfMin))))
    (sim_genUintNNoReject fe (UInt64.ofNat (len64 (sfMax - sfMin))) fuel) ?_
  rintro r' _ ⟨rfl, hr⟩
  refine Sim3.bind (sim_genUintRange fe ft H sfMin sfMax false fuel) ?_
  rintro sf _ _ _ _ _ ⟨rfl, rfl, rfl⟩
  refine Sim.ret ?_
  simp only [SigRel]
  rw [clearLoop_eq _ _ _ _ hr]

/-! ### comparisons and negation of float64 bit patterns: Go's operators against the model's -/

theorem c_mag64 : bitmask64 (fmt64.S + fmt64.E) = 0x7FFFFFFFFFFFFFFF := by decide
theorem c_sign64 : fmt64.signBit = Go.f64signBit := by decide
theorem c_inf64 : fmt64.inf = 0x7FF0000000000000 := by decide

theorem go_f64mag (a : UInt64) : Go.f64mag a = fmt64.mag a := by simp [Go.f64mag, FFmt.mag, c_mag64]
theorem go_f64isNaN (a : UInt64) : Go.f64isNaN a = fmt64.isNaN a := by
  simp [Go.f64isNaN, FFmt.isNaN, go_f64mag, c_inf64]
theorem go_f64key (a : UInt64) : Go.f64key a = fmt64.key a := by
  simp [Go.f64key, FFmt.key, FFmt.isNeg, go_f64mag, c_sign64]
theorem go_f64neg (a : UInt64) : Go.f64neg a = fmt64.fneg a := by simp [Go.f64neg, FFmt.fneg, c_sign64]

theorem go_f64le (a b : UInt64) (ha : fmt64.isNaN a = false) (hb : fmt64.isNaN b = false) :
    Go.f64le a b = fmt64.fle a b := by
  simp [Go.f64le, go_f64isNaN, ha, hb, go_f64key, FFmt.fle]

theorem isNaN64_zero : fmt64.isNaN 0 = false := by decide

theorem go_f64_ge0 (a : UInt64) (ha : fmt64.isNaN a = false) : Go.f64le 0 a = fmt64.ge0 a := by
  rw [go_f64le 0 a isNaN64_zero ha, fmt64.fle_eq, fmt64.ge0_eq, fmt64.mag_zero, fmt64.isNeg_zero]
  cases fmt64.isNeg a <;> simp [K] <;> omega

theorem go_f64_le0 (a : UInt64) (ha : fmt64.isNaN a = false) : Go.f64le a 0 = fmt64.le0 a := by
  rw [go_f64le a 0 ha isNaN64_zero, fmt64.fle_eq, fmt64.le0_eq, fmt64.mag_zero, fmt64.isNeg_zero]
  cases fmt64.isNeg a <;> simp [K] <;> omega

/-! ### `genUfloatRange` for float64 -/

theorem vTriGet_vTri (a : Int) (l r : Bool) : vTriGet (vTri a l r) = (a, l, r) := rfl

theorem i32_toInt64_le {a b : Int32} (h : a.toInt ≤ b.toInt) : a.toInt64 ≤ b.toInt64 := by
  rw [Int64.le_iff_toInt_le, Int32.toInt_toInt64, Int32.toInt_toInt64]; exact h

theorem i64_in_i32 (e : Int64) (a b : Int32) (h1 : a.toInt64 ≤ e) (h2 : e ≤ b.toInt64) : e.toInt32.toInt = e.toInt := by
  rw [Int64.le_iff_toInt_le, Int32.toInt_toInt64] at h1 h2
  have := Int32.le_toInt a; have := Int32.toInt_lt b
  rw [Int64.toInt_toInt32]
  apply Int.bmod_eq_of_le <;> omega

theorem sim_genUfloatRange64 (fe : FEval) (ft : FT) (H : FloatFacts fe ft) (min max : UInt64) (fuel : Nat)
    (hn0 : fmt64.isNaN min = false) (hn1 : fmt64.isNaN max = false)
    (hle : (fmt64.mag min).toNat ≤ (fmt64.mag max).toNat) :
    Sim3 (Translated.genUfloatRange fe min max 52 fuel) (ufloatRange ft fmt64 min max fuel)
      (fun b a => b.1.toInt = a.1 ∧ b.2 = a.2) := by
  unfold Sim3
  simp only [Translated.genUfloatRange, ufloatRange, go_f64_ge0 min hn0, go_f64le min max hn0 hn1]
  by_cases hassert : (fmt64.ge0 min && fmt64.fle min max) = true
  · have h5223 : ((52 : UInt64) == (23 : UInt64)) = false := by decide
    simp only [hassert, if_true, Bool.not_true, Bool.false_eq_true, if_false, h5223]
    have p0 := tr_parts64 min
    have p1 := tr_parts64 max
    generalize Translated.ufloat64Parts min = q0 at p0 ⊢
    generalize Translated.ufloat64Parts max = q1 at p1 ⊢
    obtain ⟨minExp, minSI, minSF⟩ := q0
    obtain ⟨maxExp, maxSI, maxSF⟩ := q1
    simp only at p0 p1
    have hb := boundsOK_of_le fmt64 wf64 min max hle
    rw [← p0, ← p1] at hb
    simp only [← p0, ← p1, ofInt_toInt_i32]
    have hmm : minExp.toInt64 ≤ maxExp.toInt64 := i32_toInt64_le hb.hE
    refine Sim.group "floatexp" false (sim_genIntRange fe ft H minExp.toInt64 maxExp.toInt64 fuel hmm)
      (fun c => Enc.enc c) (fun c => vTri c.1.toInt c.2.1 c.2.2) _ _ _ _ _ ?_ ?_
    · intro c c' _
      rfl
    · rintro ⟨e, l, r⟩ _ ⟨rfl, ⟨h1, h2⟩, _⟩
      have he : e.toInt32.toInt = e.toInt := i64_in_i32 e minExp maxExp h1 h2
      simp only [dec_enc_pair, dec_enc_i64, dec_enc_bool, vTriGet_vTri]
      refine Sim.group "floatsignif" false (sim_signif fe ft H e l r minExp maxExp minSI minSF maxSI maxSF he fuel)
        (fun c => Enc.enc c) (fun x => .cons (uv x.1) (.cons (uv x.2) .nil)) _ _ _ _ _ ?_ ?_
      · intro c c' _
        rfl
      · rintro ⟨si, sfMin, maxR, r', sf⟩ _ hrel
        simp only [SigRel] at hrel
        subst hrel
        simp only [dec_enc_pair, dec_enc_i64, dec_enc_u64, vPairGet, vu_uv]
        exact Sim.ret ⟨he, rfl⟩
  · simp only [hassert, Bool.false_eq_true, if_false, Bool.not_false, if_true]
    exact Sim.throw _ _

/-! ### `genFloatRange` for float64 -/

theorem isNaN64_fneg (x : UInt64) : fmt64.isNaN (fmt64.fneg x) = fmt64.isNaN x := by
  simp [FFmt.isNaN, fmt64.mag_fneg wf64]

theorem sim_coin (fe : FEval) (p : FX) (thr : UInt64) (fuel : Nat)
    (ha : fe.le (.lit "0") p = true ∧ fe.le p (.lit "1") = true)
    (hc : ∀ w : UInt64, w < thrNever → fe.le (.sub (.lit "1") p) (f01 w) = decide (thr ≤ w)) :
    Sim (Translated.flipBiasedCoin fe p fuel) (coin thr) (fun b a => b = a) :=
  Sim.of_runEq (fun _ => tr_coin fe p thr fuel _ _ ha hc (fun _ => RunEq.refl _)) (uniform_coin thr)

/-- the relation between what the source and the model hand on: sign, exponent, both significand parts -/
def FloatRel (b : Bool × Int32 × UInt64 × UInt64) (a : Bool × Int × UInt64 × UInt64) : Prop :=
  b.1 = a.1 ∧ b.2.1.toInt = a.2.1 ∧ b.2.2 = a.2.2

theorem sim_genFloatRange64 (fe : FEval) (ft : FT) (H : FloatFacts fe ft) (HB : FloatFactsBits fe ft) (min max : UInt64)
    (fuel : Nat) (hok : floatRangeOK fmt64 min max = true) :
    Sim (fun (k : Bool × Int32 × UInt64 × UInt64 → Prog) => Translated.genFloatRange fe min max 52 fuel (fun s e si sf => k (s, e, si, sf)))
        (fun (k : Bool × Int × UInt64 × UInt64 → Prog) => floatRange ft fmt64 min max fuel (fun s e si sf => k (s, e, si, sf)))
        FloatRel := by
  simp only [floatRangeOK, Bool.and_eq_true, Bool.not_eq_true'] at hok
  obtain ⟨⟨hn0, hn1⟩, hfle⟩ := hok
  have hfleK : K (fmt64.isNeg min) (fmt64.mag min).toNat ≤ K (fmt64.isNeg max) (fmt64.mag max).toNat := by
    rw [fmt64.fle_eq] at hfle; exact of_decide_eq_true hfle
  -- the two calls of genUfloatRange
  have branch : ∀ (sgn : Bool) (lo hi : UInt64), fmt64.isNaN lo = false → fmt64.isNaN hi = false →
      (fmt64.mag lo).toNat ≤ (fmt64.mag hi).toNat →
      Sim (fun (k : Bool × Int32 × UInt64 × UInt64 → Prog) => Translated.genUfloatRange fe lo hi 52 fuel fun e si sf => k (sgn, e, si, sf))
          (fun (k : Bool × Int × UInt64 × UInt64 → Prog) => ufloatRange ft fmt64 lo hi fuel fun e si sf => k (sgn, e, si, sf))
          FloatRel := by
    intro sgn lo hi h0 h1 hle
    refine Sim3.bind (sim_genUfloatRange64 fe ft H lo hi fuel h0 h1 hle) ?_
    rintro e si sf e' si' sf' ⟨h1, h2⟩
    exact Sim.ret ⟨rfl, h1, h2⟩
  have hz : (fmt64.mag 0).toNat = 0 := by rw [fmt64.mag_zero]; rfl
  simp only [Translated.genFloatRange, floatRange, go_f64_ge0 min hn0, go_f64_le0 max hn1, go_f64neg]
  by_cases hge : fmt64.ge0 min = true
  · simp only [hge, if_true]
    have hc := K_case1 (I := (fmt64.mag max).toNat) (by rw [← fmt64.ge0_eq]; exact hge) hfleK (Nat.le_refl _)
    refine Sim.bind (pT := Translated.flipBiasedCoin fe (.ofBits 0) fuel) (pM := coin thrNever)
      (sim_coin fe (.ofBits 0) thrNever fuel (HB.coin_assert 0 (Or.inl rfl)) (fun w hw => by
        rw [HB.coin0 w hw]
        have : ¬ thrNever ≤ w := by rw [UInt64.le_iff_toNat_le]; rw [UInt64.lt_iff_toNat_lt] at hw; omega
        simp [this])) ?_
    rintro neg _ rfl
    refine Sim.ite _ (fun _ => ?_) (fun _ => ?_)
    · exact branch true 0 (fmt64.fneg min) isNaN64_zero (by rw [isNaN64_fneg]; exact hn0) (by rw [hz]; exact Nat.zero_le _)
    · exact branch false min max hn0 hn1 hc.1
  · simp only [Bool.not_eq_true] at hge
    simp only [hge, Bool.false_eq_true, if_false]
    by_cases hle0 : fmt64.le0 max = true
    · simp only [hle0, if_true]
      have hc := K_case2 (I := (fmt64.mag min).toNat) (by rw [← fmt64.ge0_eq]; exact hge) (by rw [← fmt64.le0_eq]; exact hle0)
        hfleK (Nat.le_refl _)
      refine Sim.bind (pT := Translated.flipBiasedCoin fe (.ofBits 4607182418800017408) fuel) (pM := coin thrAlways)
        (sim_coin fe (.ofBits 4607182418800017408) thrAlways fuel (HB.coin_assert _ (Or.inr (Or.inl rfl))) (fun w hw => by
          rw [HB.coin1 w hw]
          have : thrAlways ≤ w := by rw [UInt64.le_iff_toNat_le]; show 0 ≤ w.toNat; omega
          simp [this])) ?_
      rintro neg _ rfl
      refine Sim.ite _ (fun _ => ?_) (fun _ => ?_)
      · exact branch true (fmt64.fneg max) (fmt64.fneg min) (by rw [isNaN64_fneg]; exact hn1) (by rw [isNaN64_fneg]; exact hn0)
          (by rw [fmt64.mag_fneg wf64, fmt64.mag_fneg wf64]; exact hc.1)
      · exact branch false 0 max isNaN64_zero hn1 (by rw [hz]; exact Nat.zero_le _)
    · simp only [Bool.not_eq_true] at hle0
      simp only [hle0, Bool.false_eq_true, if_false]
      refine Sim.bind (pT := Translated.flipBiasedCoin fe (.ofBits 4602678819172646912) fuel) (pM := coin ft.coinHalf)
        (sim_coin fe (.ofBits 4602678819172646912) ft.coinHalf fuel (HB.coin_assert _ (Or.inr (Or.inr rfl)))
          (fun w hw => HB.coinHalf w hw)) ?_
      rintro neg _ rfl
      refine Sim.ite _ (fun _ => ?_) (fun _ => ?_)
      · exact branch true 0 (fmt64.fneg min) isNaN64_zero (by rw [isNaN64_fneg]; exact hn0) (by rw [hz]; exact Nat.zero_le _)
      · exact branch false 0 max isNaN64_zero hn1 (by rw [hz]; exact Nat.zero_le _)

/-! ### the value: `float64FromParts(genFloatRange(…))` -/

theorem tr_float64FromParts (sign : Bool) (e : Int32) (si sf : UInt64) :
    Translated.float64FromParts sign e si sf = fmt64.fromParts sign e.toInt si sf := by
  simp only [Translated.float64FromParts, FFmt.fromParts, tr_fromParts64, go_f64neg]

theorem go_f32neg (a : UInt32) : (Go.f32neg a).toUInt64 = fmt32.fneg a.toUInt64 := by
  have : fmt32.signBit = 0x80000000 := by decide
  simp only [Go.f32neg, FFmt.fneg, this]
  apply UInt64.toBitVec_inj.mp
  simp

theorem tr_float32FromParts (sign : Bool) (e : Int32) (si sf : UInt64) :
    (Translated.float32FromParts sign e si sf).toUInt64 = fmt32.fromParts sign e.toInt si sf := by
  simp only [Translated.float32FromParts, FFmt.fromParts]
  cases sign with
  | true => simp only [if_true, go_f32neg, tr_fromParts32]
  | false => simp only [Bool.false_eq_true, if_false, tr_fromParts32]

/-- **`Float64Range(min, max)`: the source, draw by draw, is the model** — `float64FromParts(genFloatRange(s, min, max,
    float64SignifBits))` as translated from /repo hands on the bit pattern the model's `floatValue` hands on -/
theorem sim_float64Value (fe : FEval) (ft : FT) (H : FloatFacts fe ft) (HB : FloatFactsBits fe ft) (min max : UInt64)
    (fuel : Nat) (hok : floatRangeOK fmt64 min max = true) :
    Sim (fun (k : UInt64 → Prog) =>
          Translated.genFloatRange fe min max 52 fuel (fun s e si sf => k (Translated.float64FromParts s e si sf)))
        (floatValue ft fmt64 min max fuel) (fun b a => b = a) := by
  unfold floatValue
  refine Sim.bind (sim_genFloatRange64 fe ft H HB min max fuel hok)
    (qT := fun x (k : UInt64 → Prog) => k (Translated.float64FromParts x.1 x.2.1 x.2.2.1 x.2.2.2))
    (qM := fun x (k : UInt64 → Prog) => k (fmt64.fromParts x.1 x.2.1 x.2.2.1 x.2.2.2)) ?_
  rintro ⟨s, e, si, sf⟩ ⟨s', e', si', sf'⟩ ⟨h1, h2, h3⟩
  simp only at h1 h2 h3
  obtain ⟨h3a, h3b⟩ := Prod.mk.inj h3
  subst h1 h2 h3a h3b
  exact Sim.ret (tr_float64FromParts s e si sf)

end Rapid
