/-
  RapidProofs.RecBound — L-rec≤: on a buffer a run consumes a prefix, records each consumed
  word masked (hence ≤ the word), and the pruned recording is a sub-sequence of the
  recording.  Consequence: the (pruned) recording is never larger than the buffer in
  `compareData` order — the assertion `compareData(s.rec.data, buf) <= 0` of `accept`.
-/
import RapidProofs.Shortlex
import RapidProofs.Once

namespace Rapid

theorem mask_le (n : Nat) (w : UInt64) : mask n w ≤ w := UInt64.and_le_left

/-- pointwise `≤` of two word lists of equal length -/
inductive Ptw : List UInt64 → List UInt64 → Prop
  | nil : Ptw [] []
  | cons {x y : UInt64} {xs ys : List UInt64} : x ≤ y → Ptw xs ys → Ptw (x :: xs) (y :: ys)

theorem Ptw.length_eq : ∀ {a b : List UInt64}, Ptw a b → a.length = b.length
  | _, _, .nil => rfl
  | _, _, .cons _ t => by simp [t.length_eq]

theorem Ptw.append : ∀ {a b c d : List UInt64}, Ptw a b → Ptw c d → Ptw (a ++ c) (b ++ d)
  | _, _, _, _, .nil, h => h
  | _, _, _, _, .cons hxy t, h => .cons hxy (t.append h)

/-- what a run on the buffer `ws` may record -/
structure Bounded (ws : List UInt64) (o : Out) : Prop where
  ex : ∃ consumed rest, ws = consumed ++ rest ∧ o.src = .buf rest ∧
        Ptw o.used consumed
  sub : o.kept.Sublist o.used

def RecBound (p : Prog) : Prop := ∀ (ws : List UInt64) (ts : TS), Bounded ws (p.run (.buf ws) ts)

theorem bounded_ofRes (r : Except Err Val) (ws : List UInt64) (ts : TS) : Bounded ws (Out.ofRes r (.buf ws) ts) :=
  ⟨⟨[], ws, rfl, rfl, Ptw.nil⟩, List.Sublist.refl _⟩

/-- sequencing: a bounded first part on `ws`, then a bounded rest on what is left -/
theorem bounded_after {ws : List UInt64} {o1 o2 : Out} {kept1 : List UInt64} {t : List Tok} {e : List Ev} {ov : Bool}
    (h1 : Bounded ws o1) (hk : kept1.Sublist o1.used)
    (h2 : ∀ rest, o1.src = .buf rest → Bounded rest o2) :
    Bounded ws (o2.after o1.used kept1 t e ov) := by
  obtain ⟨⟨c1, r1, hw, hs, hf⟩, _⟩ := h1
  obtain ⟨⟨c2, r2, hw2, hs2, hf2⟩, hsub2⟩ := h2 r1 hs
  refine ⟨⟨c1 ++ c2, r2, by rw [hw, hw2, List.append_assoc], hs2, ?_⟩, ?_⟩
  · simp only [after_used]; exact Ptw.append hf hf2
  · simp only [after_kept, after_used]; exact List.Sublist.append hk hsub2

theorem bounded_congr {ws : List UInt64} {o o' : Out} (h : Bounded ws o)
    (hs : o'.src = o.src) (hu : o'.used = o.used) (hk : o'.kept = o.kept) : Bounded ws o' := by
  obtain ⟨⟨c, r, hw, hsrc, hf⟩, hsub⟩ := h
  exact ⟨⟨c, r, hw, by rw [hs, hsrc], by rw [hu]; exact hf⟩, by rw [hu, hk]; exact hsub⟩

theorem recBound (p : Prog) : RecBound p := by
  induction p with
  | ret v => intro ws ts; exact bounded_ofRes _ _ _
  | throw e => intro ws ts; exact bounded_ofRes _ _ _
  | draw n k ih =>
    intro ws ts
    cases ws with
    | nil => simp only [Prog.run, Src.next]; exact ⟨⟨[], [], rfl, rfl, Ptw.nil⟩, List.Sublist.refl _⟩
    | cons w ws =>
      simp only [Prog.run, Src.next]
      obtain ⟨⟨c, r, hw, hs, hf⟩, hsub⟩ := ih (mask n w) ws ts
      refine ⟨⟨w :: c, r, by rw [hw]; rfl, hs, ?_⟩, ?_⟩
      · simp only [after_used, List.singleton_append]; exact Ptw.cons (mask_le n w) hf
      · simp only [after_kept, after_used, List.singleton_append]; exact List.Sublist.cons_cons _ hsub
  | group l s b d k ihb ihk =>
    intro ws ts
    simp only [Prog.run]
    have hb := ihb ws ts
    cases hres : (b.run (.buf ws) ts).res with
    | error e => exact bounded_congr hb rfl rfl rfl
    | ok v =>
      simp only []
      split
      · exact bounded_congr hb rfl rfl rfl
      · refine bounded_after hb ?_ (fun rest hr => by rw [hr]; exact ihk v rest _)
        split
        · exact List.nil_sublist _
        · exact hb.sub
  | catchInv b k ihb ihk =>
    intro ws ts
    simp only [Prog.run]
    have hb := ihb ws ts
    cases hres : (b.run (.buf ws) ts).res with
    | ok v => exact bounded_after hb hb.sub (fun rest hr => by rw [hr]; exact ihk _ _ rest _)
    | error e =>
      cases e with
      | invalid m => exact bounded_after hb hb.sub (fun rest hr => by rw [hr]; exact ihk _ _ rest _)
      | stop m s => exact hb
      | panic m s => exact hb
      | fuel => exact hb
  | errorf m k ih => intro ws ts; simp only [Prog.run]; exact bounded_congr (ih ws _) rfl (by simp) (by simp)
  | failOnError site k ih =>
    intro ws ts
    simp only [Prog.run]
    cases ts.failed with
    | some m => exact bounded_ofRes _ _ _
    | none => exact ih ws ts
  | tick k ih => intro ws ts; simp only [Prog.run]; exact ih ws _
  | cleanup c k ih => intro ws ts; simp only [Prog.run]; exact ih ws _
  | ctx k ih =>
    intro ws ts
    simp only [Prog.run]
    cases ts.ctx with
    | some id => exact bounded_congr (ih ws ts) rfl (by simp) (by simp)
    | none => exact bounded_congr (ih ws _) rfl (by simp) (by simp)
  | inner b k ihb ihk =>
    intro ws ts
    simp only [Prog.run]
    have hb := ihb ws TS.fresh
    cases (cleanupPhase (b.run (.buf ws) TS.fresh).ts).err with
    | some e => exact bounded_congr hb rfl rfl rfl
    | none =>
      simp only []
      cases (b.run (.buf ws) TS.fresh).res with
      | error e => exact bounded_congr hb rfl rfl rfl
      | ok v => exact bounded_after hb hb.sub (fun rest hr => by rw [hr]; exact ihk v rest _)
  | emit id k ih => intro ws ts; simp only [Prog.run]; exact bounded_congr (ih ws ts) rfl (by simp) (by simp)

/-- pointwise `≤` on equal lengths gives `cmpLex ≤ 0` -/
theorem cmpLex_le_of_forall₂ : ∀ {a b : List UInt64}, Ptw a b → cmpLex a b ≤ 0
  | _, _, .nil => by simp [cmpLex]
  | _, _, .cons (x := x) (y := y) h t => by
    simp only [cmpLex]
    by_cases hxy : x < y
    · simp [hxy]
    · have hle : x.toNat ≤ y.toNat := UInt64.le_iff_toNat_le.mp h
      have : ¬ y < x := by rw [UInt64.lt_iff_toNat_lt]; omega
      simp only [hxy, this, if_false]
      exact cmpLex_le_of_forall₂ t

theorem sublist_eq_of_length_ge {a b : List UInt64} (h : a.Sublist b) (hl : b.length ≤ a.length) : a = b :=
  h.eq_of_length_le hl

/-- **L-rec≤**: both the recording and the pruned recording of a run on `ws` are `≤ₛₗ ws` -/
theorem kept_sle (p : Prog) (ws : List UInt64) (ts : TS) :
    sle (p.run (.buf ws) ts).kept ws ∧ sle (p.run (.buf ws) ts).used ws := by
  obtain ⟨⟨c, r, hw, _, hf⟩, hsub⟩ := recBound p ws ts
  have hlen : (p.run (.buf ws) ts).used.length = c.length := hf.length_eq
  have hused : sle (p.run (.buf ws) ts).used ws := by
    by_cases hl : (p.run (.buf ws) ts).used.length < ws.length
    · exact Int.le_of_lt (slt_of_length_lt hl)
    · have hr : r = [] := by
        have : ws.length = c.length + r.length := by rw [hw]; simp
        exact List.eq_nil_of_length_eq_zero (by omega)
      subst hr
      simp only [List.append_nil] at hw
      subst hw
      simp only [sle, compareData, hlen, Nat.lt_irrefl, if_false]
      exact cmpLex_le_of_forall₂ hf
  refine ⟨?_, hused⟩
  by_cases hl : (p.run (.buf ws) ts).kept.length < (p.run (.buf ws) ts).used.length
  · exact Int.le_of_lt (slt_of_slt_of_sle (slt_of_length_lt hl) hused)
  · rw [sublist_eq_of_length_ge hsub (by omega)]; exact hused

theorem checkOnce_kept_sle (p : Prog) (ws : List UInt64) (ts : TS) : sle (checkOnce p (.buf ws) ts).kept ws :=
  (kept_sle (bodyOf p) ws _).1

end Rapid
