/-
  RapidProofs.TranslatedMinEq — `minimize` and the `minimizer` of shrink.go as translated from /repo on
  every run (RapidModel/Generated/Translated.lean) compute the result of the model's `minimize`
  (RapidModel/Minimize.lean): with enough fuel the translated loops terminate (no `Panic.fuel`) and return
  the model's `best`.  The model also logs the probes; the source does not.
-/
import RapidModel.Generated.Translated
import RapidModel.Minimize
import RapidModel.Engine
import RapidModel.Rec
import RapidProofs.TranslatedDataEq
import RapidProofs.Reach

namespace Rapid

open Rapid.Go

/-- the callback of the source takes a label as well -/
def lcond (cond : UInt64 → Bool) : UInt64 → String → Bool := fun u _ => cond u

theorem small_eq : small = 5 := rfl

/-- `minimizer.accept` -/
theorem tr_accept (cond : UInt64 → Bool) (best u : UInt64) (ps : List UInt64) (l : String) :
    Translated.minimizer_accept best (lcond cond) u l =
      .ok (((⟨best, ps⟩ : MinSt).accept cond u).2, ((⟨best, ps⟩ : MinSt).accept cond u).1.best) := by
  simp only [Translated.minimizer_accept, MinSt.accept, lcond, small_eq, pure, Except.pure]
  by_cases h1 : u ≥ best
  · simp [h1]
  · by_cases h2 : u < 5
    · simp [h1, h2]
    · by_cases hc : cond u = true
      · simp [h1, h2, hc]
      · simp only [Bool.not_eq_true] at hc; simp [h1, h2, hc]

/-! ### bit lengths -/

theorem len64_le_of_lt_pow {u : UInt64} {m : Nat} (h : u.toNat < 2 ^ m) : len64 u ≤ m := by
  unfold len64
  by_cases hu : u = 0
  · simp [hu]
  · have hun : u.toNat ≠ 0 := fun h0 => hu (UInt64.toNat_inj.mp (by simpa using h0))
    simp only [hu, if_false]
    have h1 : 2 ^ u.toNat.log2 ≤ u.toNat := Nat.log2_self_le hun
    have : 2 ^ u.toNat.log2 < 2 ^ m := by omega
    have := (Nat.pow_lt_pow_iff_right (by omega : 1 < 2)).mp this
    omega

theorem len64_pos {u : UInt64} (h : u ≠ 0) : 0 < len64 u := by
  unfold len64; simp [h]

theorem len64_zero : len64 0 = 0 := by decide

theorem len64_eq_zero {u : UInt64} (h : len64 u = 0) : u = 0 := by
  by_cases hu : u = 0
  · exact hu
  · have := len64_pos hu; omega

/-- a value strictly below `b` that is accepted in its place has a bit length not above `b`'s; halving lowers it -/
theorem len64_shr1 {b : UInt64} (hb : b ≠ 0) : len64 (b >>> 1) ≤ len64 b - 1 := by
  apply len64_le_of_lt_pow
  have h1 := lt_two_pow_len64 b
  have hp := len64_pos hb
  have : (b >>> 1).toNat = b.toNat / 2 := by
    rw [UInt64.toNat_shiftRight]; simp [Nat.shiftRight_eq_div_pow]
  rw [this]
  have : 2 ^ len64 b = 2 * 2 ^ (len64 b - 1) := by
    conv => lhs; rw [show len64 b = (len64 b - 1) + 1 by omega]
    rw [Nat.pow_succ]; omega
  omega

/-! ### what `accept` does to `best` -/

theorem accept_true {cond : UInt64 → Bool} {m : MinSt} {u : UInt64} (h : (m.accept cond u).2 = true) :
    (m.accept cond u).1.best = u ∧ u < m.best ∧ ¬ u < small := by
  simp only [MinSt.accept] at h ⊢
  by_cases h1 : u ≥ m.best ∨ u < small
  · simp [h1] at h
  · simp only [h1, if_false] at h ⊢
    by_cases hc : cond u = true
    · simp only [hc, if_true]
      refine ⟨trivial, ?_, fun h => h1 (Or.inr h)⟩
      have : ¬ u ≥ m.best := fun h => h1 (Or.inl h)
      rw [ge_iff_le, UInt64.le_iff_toNat_le] at this
      rw [UInt64.lt_iff_toNat_lt]; omega
    · simp [hc] at h

theorem accept_false {cond : UInt64 → Bool} {m : MinSt} {u : UInt64} (h : (m.accept cond u).2 = false) :
    (m.accept cond u).1.best = m.best := by
  simp only [MinSt.accept] at h ⊢
  by_cases h1 : u ≥ m.best ∨ u < small
  · simp [h1]
  · simp only [h1, if_false] at h ⊢
    by_cases hc : cond u = true
    · simp [hc] at h
    · simp [hc]

/-- `accept` never raises `best` -/
theorem accept_best_le (cond : UInt64 → Bool) (m : MinSt) (u : UInt64) : (m.accept cond u).1.best ≤ m.best := by
  cases h : (m.accept cond u).2 with
  | true =>
    obtain ⟨h1, h2, _⟩ := accept_true h
    rw [h1, UInt64.le_iff_toNat_le]; rw [UInt64.lt_iff_toNat_lt] at h2; omega
  | false => rw [accept_false h]; exact UInt64.le_refl _

/-! ### `rShift` -/

theorem go_shr64_one (b : UInt64) : Go.shr64 b 1 = b >>> 1 := go_shr64_lt b 1 (by decide)

theorem tr_rShiftLoop (cond : UInt64 → Bool) : ∀ (k : Nat) (best : UInt64) (ps : List UInt64) (fT fM : Nat),
    len64 best ≤ k → k < fT → k ≤ fM →
    Translated.minimizer_rShift_loop1 (lcond cond) fT best = .ok (rShift cond fM ⟨best, ps⟩).best := by
  intro k
  induction k with
  | zero =>
    intro best ps fT fM hk hfT _
    have hb : best = 0 := len64_eq_zero (by omega)
    subst hb
    obtain ⟨f, rfl⟩ : ∃ f, fT = f + 1 := ⟨fT - 1, by omega⟩
    have hacc : ((⟨0, ps⟩ : MinSt).accept cond ((0 : UInt64) >>> 1)) = (⟨0, ps⟩, false) := by
      simp [MinSt.accept]
    simp only [Translated.minimizer_rShift_loop1, tr_accept cond 0 _ ps, go_shr64_one, hacc, bind, Except.bind,
      Bool.false_eq_true, if_false, pure, Except.pure]
    cases fM with
    | zero => rfl
    | succ n =>
      have h0 : ((0 : UInt64) >>> 1) = 0 := by decide
      rw [h0] at hacc
      simp [rShift, hacc]
  | succ k ih =>
    intro best ps fT fM hk hfT hfM
    obtain ⟨f, rfl⟩ : ∃ f, fT = f + 1 := ⟨fT - 1, by omega⟩
    obtain ⟨n, rfl⟩ : ∃ n, fM = n + 1 := ⟨fM - 1, by omega⟩
    simp only [Translated.minimizer_rShift_loop1, tr_accept cond best _ ps, go_shr64_one, bind, Except.bind, rShift]
    cases hok : ((⟨best, ps⟩ : MinSt).accept cond (best >>> 1)).2 with
    | false =>
      simp only [Bool.false_eq_true, if_false, pure, Except.pure]
    | true =>
      obtain ⟨h1, h2, _⟩ := accept_true hok
      simp only [if_true]
      have hb0 : best ≠ 0 := by
        intro h; subst h; rw [UInt64.lt_iff_toNat_lt] at h2; simp at h2
      have hlen : len64 (best >>> 1) ≤ k := by
        have := len64_shr1 hb0; omega
      have hrec := ih (best >>> 1) ((⟨best, ps⟩ : MinSt).accept cond (best >>> 1)).1.probes f n hlen (by omega) (by omega)
      have hst : ((⟨best, ps⟩ : MinSt).accept cond (best >>> 1)).1 =
          ⟨best >>> 1, ((⟨best, ps⟩ : MinSt).accept cond (best >>> 1)).1.probes⟩ := by
        cases hm : ((⟨best, ps⟩ : MinSt).accept cond (best >>> 1)).1 with
        | mk b p => rw [hm] at h1; simp only at h1; rw [h1]
      have : ((⟨best, ps⟩ : MinSt).accept cond (best >>> 1)) = (((⟨best, ps⟩ : MinSt).accept cond (best >>> 1)).1, true) := by
        rw [← hok]
      rw [h1, hrec, this]
      simp only [if_true]
      rw [← hst]

theorem tr_rShift (cond : UInt64 → Bool) (best : UInt64) (ps : List UInt64) (fuel : Nat) (hf : 64 < fuel) :
    Translated.minimizer_rShift best (lcond cond) fuel = .ok (rShift cond 64 ⟨best, ps⟩).best := by
  simp only [Translated.minimizer_rShift, tr_rShiftLoop cond 64 best ps fuel 64 (len64_le_64 best) hf (Nat.le_refl _), bind,
    Except.bind, pure, Except.pure]

/-! ### `unsetBits` -/

theorem i64_ofNat_succ_sub_one (n : Nat) : Int64.ofNat (n + 1) - 1 = Int64.ofNat n := by
  apply Int64.toBitVec_inj.mp
  rw [Int64.toBitVec_sub]
  simp only [Int64.toBitVec_ofNat']
  have : (1 : Int64).toBitVec = 1#64 := rfl
  rw [this, BitVec.ofNat_add, BitVec.add_sub_cancel]

theorem i64_ofNat_zero_sub_one_neg : decide (Int64.ofNat 0 - 1 ≥ (0 : Int64)) = false := by decide

theorem i64_ofNat_toUInt64 (n : Nat) : (Int64.ofNat n).toUInt64 = n.toUInt64 := by
  apply UInt64.toBitVec_inj.mp
  simp [Int64.ofNat, Nat.toUInt64]
  rfl

theorem go_shl64_ofNat (a : UInt64) {n : Nat} (h : n < 64) : Go.shl64 a (Int64.ofNat n).toUInt64 = a <<< n.toUInt64 := by
  rw [i64_ofNat_toUInt64]
  exact go_shl64_lt a _ (by rw [toUInt64_toNat h]; exact h)

theorem tr_unsetBitsLoop (cond : UInt64 → Bool) : ∀ (n : Nat) (best : UInt64) (ps : List UInt64) (fT : Nat),
    n ≤ 64 → n < fT →
    Translated.minimizer_unsetBits_loop1 (lcond cond) fT (Int64.ofNat n - 1) best =
      .ok (Int64.ofNat 0 - 1, (unsetBits cond n ⟨best, ps⟩).best) := by
  intro n
  induction n with
  | zero =>
    intro best ps fT _ hf
    obtain ⟨f, rfl⟩ : ∃ f, fT = f + 1 := ⟨fT - 1, by omega⟩
    simp only [Translated.minimizer_unsetBits_loop1, i64_ofNat_zero_sub_one_neg, Bool.false_eq_true, if_false, unsetBits, pure,
      Except.pure]
  | succ n ih =>
    intro best ps fT hn hf
    obtain ⟨f, rfl⟩ : ∃ f, fT = f + 1 := ⟨fT - 1, by omega⟩
    have hge : decide (Int64.ofNat n ≥ (0 : Int64)) = true := i64_ofNat_nonneg (by omega)
    simp only [Translated.minimizer_unsetBits_loop1, i64_ofNat_succ_sub_one, hge, if_true, tr_accept cond best _ ps,
      go_shl64_ofNat _ (show n < 64 by omega), bind, Except.bind, unsetBits]
    have hst : ((⟨best, ps⟩ : MinSt).accept cond (best ^^^ (1 : UInt64) <<< n.toUInt64)).1 =
        ⟨((⟨best, ps⟩ : MinSt).accept cond (best ^^^ (1 : UInt64) <<< n.toUInt64)).1.best,
         ((⟨best, ps⟩ : MinSt).accept cond (best ^^^ (1 : UInt64) <<< n.toUInt64)).1.probes⟩ := rfl
    rw [hst]
    exact ih _ _ f (by omega) (by omega)

theorem tr_unsetBits (cond : UInt64 → Bool) (best : UInt64) (ps : List UInt64) (fuel : Nat) (hf : 64 < fuel) :
    Translated.minimizer_unsetBits best (lcond cond) fuel = .ok (unsetBits cond (len64 best) ⟨best, ps⟩).best := by
  have := tr_unsetBitsLoop cond (len64 best) best ps fuel (len64_le_64 best) (by have := len64_le_64 best; omega)
  simp only [Translated.minimizer_unsetBits, Go.len64, this, bind, Except.bind, pure, Except.pure]

/-! ### `sortBits` -/

theorem i64_ofNat_add_one (n : Nat) : Int64.ofNat n + 1 = Int64.ofNat (n + 1) := by
  apply Int64.toBitVec_inj.mp
  rw [Int64.toBitVec_add]
  simp only [Int64.toBitVec_ofNat']
  have : (1 : Int64).toBitVec = 1#64 := rfl
  rw [this, BitVec.ofNat_add]

theorem minSt_eta (m : MinSt) : (⟨m.best, m.probes⟩ : MinSt) = m := rfl

theorem tr_sortInner (cond : UInt64 → Bool) (i : Nat) (h : UInt64) (hi : i ≤ 64) : ∀ (d : Nat) (j : Nat) (best : UInt64)
    (ps : List UInt64) (fT fM : Nat), j ≤ i → i - j = d → d < fT → d ≤ fM →
    ∃ j', Translated.minimizer_sortBits_loop2 h (Int64.ofNat i) (lcond cond) fT (Int64.ofNat j) best =
      .ok (j', (sortInner cond i h fM j ⟨best, ps⟩).best) := by
  intro d
  induction d with
  | zero =>
    intro j best ps fT fM hji hd hfT _
    have hj : j = i := by omega
    subst hj
    obtain ⟨f, rfl⟩ : ∃ f, fT = f + 1 := ⟨fT - 1, by omega⟩
    have hlt : decide (Int64.ofNat j < Int64.ofNat j) = false := by
      rw [i64_lt_ofNat (by omega) j (by omega)]; simp
    refine ⟨Int64.ofNat j, ?_⟩
    simp only [Translated.minimizer_sortBits_loop2, hlt, Bool.false_eq_true, if_false, pure, Except.pure]
    cases fM with
    | zero => rfl
    | succ n => simp [sortInner]
  | succ d ih =>
    intro j best ps fT fM hji hd hfT hfM
    obtain ⟨f, rfl⟩ : ∃ f, fT = f + 1 := ⟨fT - 1, by omega⟩
    obtain ⟨n, rfl⟩ : ∃ n, fM = n + 1 := ⟨fM - 1, by omega⟩
    have hjlt : j < i := by omega
    have hlt : decide (Int64.ofNat j < Int64.ofNat i) = true := by
      rw [i64_lt_ofNat (by omega) i (by omega)]; simp [hjlt]
    simp only [Translated.minimizer_sortBits_loop2, hlt, if_true, go_shl64_ofNat _ (show j < 64 by omega), sortInner, hjlt,
      i64_ofNat_add_one]
    by_cases hz : (best &&& (1 : UInt64) <<< j.toUInt64) == 0
    · simp only [hz, if_true, tr_accept cond best _ ps, bind, Except.bind]
      cases hok : ((⟨best, ps⟩ : MinSt).accept cond (best ^^^ ((1 : UInt64) <<< j.toUInt64 ||| h))).2 with
      | true => exact ⟨Int64.ofNat j, by simp [pure, Except.pure]⟩
      | false =>
        simp only [Bool.false_eq_true, if_false]
        obtain ⟨j', hj'⟩ := ih (j + 1) ((⟨best, ps⟩ : MinSt).accept cond (best ^^^ ((1 : UInt64) <<< j.toUInt64 ||| h))).1.best
          ((⟨best, ps⟩ : MinSt).accept cond (best ^^^ ((1 : UInt64) <<< j.toUInt64 ||| h))).1.probes f n (by omega) (by omega) (by omega) (by omega)
        exact ⟨j', by rw [hj']⟩
    · simp only [hz, Bool.false_eq_true, if_false]
      obtain ⟨j', hj'⟩ := ih (j + 1) best ps f n (by omega) (by omega) (by omega) (by omega)
      exact ⟨j', hj'⟩

theorem tr_sortBitsLoop (cond : UInt64 → Bool) : ∀ (n : Nat) (best : UInt64) (ps : List UInt64) (fT : Nat),
    n ≤ 64 → n + 65 < fT →
    Translated.minimizer_sortBits_loop1 (lcond cond) fT (Int64.ofNat n - 1) best =
      .ok (Int64.ofNat 0 - 1, (sortBits cond n ⟨best, ps⟩).best) := by
  intro n
  induction n with
  | zero =>
    intro best ps fT _ hf
    obtain ⟨f, rfl⟩ : ∃ f, fT = f + 1 := ⟨fT - 1, by omega⟩
    simp only [Translated.minimizer_sortBits_loop1, i64_ofNat_zero_sub_one_neg, Bool.false_eq_true, if_false, sortBits, pure,
      Except.pure]
  | succ n ih =>
    intro best ps fT hn hf
    obtain ⟨f, rfl⟩ : ∃ f, fT = f + 1 := ⟨fT - 1, by omega⟩
    have hge : decide (Int64.ofNat n ≥ (0 : Int64)) = true := i64_ofNat_nonneg (by omega)
    simp only [Translated.minimizer_sortBits_loop1, i64_ofNat_succ_sub_one, hge, if_true, go_shl64_ofNat _ (show n < 64 by omega),
      sortBits]
    by_cases hb : (best &&& (1 : UInt64) <<< n.toUInt64) != 0
    · obtain ⟨j', hj'⟩ := tr_sortInner cond n ((1 : UInt64) <<< n.toUInt64) (by omega) n 0 best ps f n (by omega) (by omega)
        (by omega) (Nat.le_refl _)
      have h0 : (0 : Int64) = Int64.ofNat 0 := rfl
      simp only [hb, if_true, h0, hj', bind, Except.bind, pure, Except.pure]
      rw [← minSt_eta (sortInner cond n ((1 : UInt64) <<< n.toUInt64) n 0 ⟨best, ps⟩)]
      exact ih _ _ f (by omega) (by omega)
    · simp only [hb, Bool.false_eq_true, if_false, bind, Except.bind, pure, Except.pure]
      exact ih best ps f (by omega) (by omega)

theorem tr_sortBits (cond : UInt64 → Bool) (best : UInt64) (ps : List UInt64) (fuel : Nat) (hf : 130 < fuel) :
    Translated.minimizer_sortBits best (lcond cond) fuel = .ok (sortBits cond (len64 best) ⟨best, ps⟩).best := by
  have := tr_sortBitsLoop cond (len64 best) best ps fuel (len64_le_64 best) (by have := len64_le_64 best; omega)
  simp only [Translated.minimizer_sortBits, Go.len64, this, bind, Except.bind, pure, Except.pure]

/-! ### `binSearch` -/

theorem tr_binLoop (cond : UInt64 → Bool) : ∀ (k : Nat) (i j best : UInt64) (ps : List UInt64) (fT fM : Nat),
    i ≤ j → (j - i).toNat < 2 ^ k → k < fT → k ≤ fM →
    ∃ i' j', Translated.minimizer_binSearch_loop1 (lcond cond) fT i j best =
      .ok (i', j', (binLoop cond fM i j ⟨best, ps⟩).best) := by
  intro k
  induction k with
  | zero =>
    intro i j best ps fT fM hij hd hfT _
    obtain ⟨f, rfl⟩ : ∃ f, fT = f + 1 := ⟨fT - 1, by omega⟩
    have hsub : (j - i).toNat = j.toNat - i.toNat := UInt64.toNat_sub_of_le _ _ hij
    have hnlt : ¬ i < j := by
      rw [UInt64.lt_iff_toNat_lt]; rw [UInt64.le_iff_toNat_le] at hij; simp at hd; omega
    refine ⟨i, j, ?_⟩
    simp only [Translated.minimizer_binSearch_loop1, hnlt, decide_false, Bool.false_eq_true, if_false, pure, Except.pure]
    cases fM with
    | zero => rfl
    | succ n => simp [binLoop, hnlt]
  | succ k ih =>
    intro i j best ps fT fM hij hd hfT hfM
    obtain ⟨f, rfl⟩ : ∃ f, fT = f + 1 := ⟨fT - 1, by omega⟩
    obtain ⟨n, rfl⟩ : ∃ n, fM = n + 1 := ⟨fM - 1, by omega⟩
    have hsub : (j - i).toNat = j.toNat - i.toNat := UInt64.toNat_sub_of_le _ _ hij
    have hij' := UInt64.le_iff_toNat_le.mp hij
    by_cases hlt : i < j
    · have hlt' := UInt64.lt_iff_toNat_lt.mp hlt
      have hjlt := j.toNat_lt
      -- the midpoint
      have hdiv : ((j - i) / 2).toNat = (j.toNat - i.toNat) / 2 := by
        rw [UInt64.toNat_div, hsub]; rfl
      have hh : (i + (j - i) / 2).toNat = i.toNat + (j.toNat - i.toNat) / 2 := by
        rw [UInt64.toNat_add, hdiv]; apply Nat.mod_eq_of_lt; omega
      have hih : i ≤ i + (j - i) / 2 := by rw [UInt64.le_iff_toNat_le, hh]; omega
      have hh1 : (i + (j - i) / 2 + 1).toNat = i.toNat + (j.toNat - i.toNat) / 2 + 1 := by
        rw [UInt64.toNat_add, hh]; simp only [UInt64.toNat_one]; apply Nat.mod_eq_of_lt; omega
      have hh1j : i + (j - i) / 2 + 1 ≤ j := by rw [UInt64.le_iff_toNat_le, hh1]; omega
      have hp : 2 ^ (k + 1) = 2 * 2 ^ k := by rw [Nat.pow_succ]; omega
      simp only [Translated.minimizer_binSearch_loop1, hlt, decide_true, if_true, tr_accept cond best _ ps, bind, Except.bind,
        binLoop]
      cases hok : ((⟨best, ps⟩ : MinSt).accept cond (i + (j - i) / 2)).2 with
      | true =>
        simp only [if_true, pure, Except.pure]
        have hd' : (i + (j - i) / 2 - i).toNat < 2 ^ k := by
          rw [UInt64.toNat_sub_of_le _ _ hih, hh]; omega
        obtain ⟨i', j', h'⟩ := ih i (i + (j - i) / 2) ((⟨best, ps⟩ : MinSt).accept cond (i + (j - i) / 2)).1.best
          ((⟨best, ps⟩ : MinSt).accept cond (i + (j - i) / 2)).1.probes f n hih hd' (by omega) (by omega)
        exact ⟨i', j', by rw [h']⟩
      | false =>
        simp only [Bool.false_eq_true, if_false, pure, Except.pure]
        have hd' : (j - (i + (j - i) / 2 + 1)).toNat < 2 ^ k := by
          rw [UInt64.toNat_sub_of_le _ _ hh1j, hh1]; omega
        obtain ⟨i', j', h'⟩ := ih (i + (j - i) / 2 + 1) j ((⟨best, ps⟩ : MinSt).accept cond (i + (j - i) / 2)).1.best
          ((⟨best, ps⟩ : MinSt).accept cond (i + (j - i) / 2)).1.probes f n hh1j hd' (by omega) (by omega)
        exact ⟨i', j', by rw [h']⟩
    · refine ⟨i, j, ?_⟩
      simp only [Translated.minimizer_binSearch_loop1, hlt, decide_false, Bool.false_eq_true, if_false, pure, Except.pure,
        binLoop]

theorem tr_binSearch (cond : UInt64 → Bool) (best : UInt64) (ps : List UInt64) (fuel : Nat) (hf : 64 < fuel) :
    Translated.minimizer_binSearch best (lcond cond) fuel = .ok (binSearch cond ⟨best, ps⟩).best := by
  simp only [Translated.minimizer_binSearch, tr_accept cond best _ ps, bind, Except.bind, binSearch]
  cases hok : ((⟨best, ps⟩ : MinSt).accept cond (best - 1)).2 with
  | false => simp [pure, Except.pure]
  | true =>
    simp only [Bool.not_true, Bool.false_eq_true, if_false]
    have hz : (0 : UInt64) ≤ ((⟨best, ps⟩ : MinSt).accept cond (best - 1)).1.best := by
      rw [UInt64.le_iff_toNat_le]; simp
    have hd : (((⟨best, ps⟩ : MinSt).accept cond (best - 1)).1.best - 0).toNat < 2 ^ 64 := UInt64.toNat_lt _
    obtain ⟨i', j', h'⟩ := tr_binLoop cond 64 0 ((⟨best, ps⟩ : MinSt).accept cond (best - 1)).1.best
      ((⟨best, ps⟩ : MinSt).accept cond (best - 1)).1.best ((⟨best, ps⟩ : MinSt).accept cond (best - 1)).1.probes fuel 65 hz hd hf
      (by omega)
    rw [h']
    simp [pure, Except.pure]

/-! ### `minimize` -/

theorem tr_trySmall (cond : UInt64 → Bool) (u : UInt64) : ∀ (n : Nat) (i : UInt64) (ps : List UInt64) (fT : Nat),
    5 ≤ i.toNat + n → i.toNat ≤ 5 → n < fT →
    ∃ i', Translated.minimize_loop1 (lcond cond) u fT i = .ok (i', (trySmall cond u n i ps).1) := by
  intro n
  induction n with
  | zero =>
    intro i ps fT h5 hi hf
    obtain ⟨f, rfl⟩ : ∃ f, fT = f + 1 := ⟨fT - 1, by omega⟩
    have : ¬ i < 5 := by rw [UInt64.lt_iff_toNat_lt]; have : (5 : UInt64).toNat = 5 := rfl; omega
    exact ⟨i, by simp [Translated.minimize_loop1, this, trySmall, pure, Except.pure]⟩
  | succ n ih =>
    intro i ps fT h5 hi hf
    obtain ⟨f, rfl⟩ : ∃ f, fT = f + 1 := ⟨fT - 1, by omega⟩
    simp only [Translated.minimize_loop1, trySmall, small_eq, lcond]
    by_cases hc : i < u ∧ i < 5
    · have hi5 : i.toNat < 5 := by have := UInt64.lt_iff_toNat_lt.mp hc.2; have h5' : (5 : UInt64).toNat = 5 := rfl; omega
      by_cases hcond : cond i = true
      · exact ⟨i, by simp [hc.1, hc.2, hcond, pure, Except.pure]⟩
      · simp only [Bool.not_eq_true] at hcond
        have h1 : (i + 1).toNat = i.toNat + 1 := by
          rw [UInt64.toNat_add]; simp only [UInt64.toNat_one]; apply Nat.mod_eq_of_lt; omega
        obtain ⟨i', h'⟩ := ih (i + 1) (i :: ps) f (by rw [h1]; omega) (by rw [h1]; omega) (by omega)
        exact ⟨i', by simp [hc.1, hc.2, hcond, h']⟩
    · have : (decide (i < u) && decide (i < 5)) = false := by
        rw [← Bool.decide_and]; exact decide_eq_false hc
      exact ⟨i, by simp [this, hc, pure, Except.pure]⟩

/-- **`minimize(u, cond)` of /repo computes the result of the model's `minimize`** -/
theorem tr_minimize (u : UInt64) (cond : UInt64 → Bool) (fuel : Nat) (hf : 130 < fuel) :
    Translated.minimize u (lcond cond) fuel = .ok (minimize u cond).1 := by
  simp only [Translated.minimize, minimize]
  by_cases h0 : u = 0
  · subst h0; simp [pure, Except.pure]
  · have hb : (u == 0) = false := by simp [h0]
    simp only [hb, Bool.false_eq_true, if_false]
    obtain ⟨i', h'⟩ := tr_trySmall cond u 5 0 [] fuel (by simp) (by simp) (by omega)
    simp only [h', bind, Except.bind]
    cases hs : trySmall cond u 5 0 [] with
    | mk r probes =>
      cases r with
      | some i => simp [pure, Except.pure]
      | none =>
        simp only [small_eq]
        by_cases hle : u ≤ 5
        · simp [hle, pure, Except.pure]
        · simp only [hle, decide_false, Bool.false_eq_true, if_false]
          have e1 := tr_rShift cond u probes fuel (by omega)
          have e2 := tr_unsetBits cond (rShift cond 64 ⟨u, probes⟩).best (rShift cond 64 ⟨u, probes⟩).probes fuel (by omega)
          have e3 := tr_sortBits cond (unsetBits cond (len64 (rShift cond 64 ⟨u, probes⟩).best) (rShift cond 64 ⟨u, probes⟩)).best
            (unsetBits cond (len64 (rShift cond 64 ⟨u, probes⟩).best) (rShift cond 64 ⟨u, probes⟩)).probes fuel hf
          have e4 := tr_binSearch cond
            (sortBits cond (len64 (unsetBits cond (len64 (rShift cond 64 ⟨u, probes⟩).best) (rShift cond 64 ⟨u, probes⟩)).best)
              (unsetBits cond (len64 (rShift cond 64 ⟨u, probes⟩).best) (rShift cond 64 ⟨u, probes⟩))).best
            (sortBits cond (len64 (unsetBits cond (len64 (rShift cond 64 ⟨u, probes⟩).best) (rShift cond 64 ⟨u, probes⟩)).best)
              (unsetBits cond (len64 (rShift cond 64 ⟨u, probes⟩).best) (rShift cond 64 ⟨u, probes⟩))).probes fuel (by omega)
          simp only [minSt_eta] at e2 e3 e4
          simp only [e1, e2, e3, e4, pure, Except.pure]

/-! ### `compareData` (shrink.go): the shortlex order of the shrinker -/

theorem idx_append_ofNat {α : Type} (pre : List α) (x : α) (rest : List α) (h : pre.length < 2 ^ 62) :
    Go.idx (pre ++ x :: rest) (Int64.ofNat pre.length) = .ok x := by
  rw [idx_ofNat _ h]; simp

theorem tr_compareLoop : ∀ (as bs pre pre' : List UInt64) (fT : Nat),
    pre.length = pre'.length → as.length = bs.length → (pre ++ as).length < 2 ^ 62 → as.length < fT →
    ∃ i', Translated.compareData_loop1 (pre ++ as) (pre' ++ bs) (Int64.ofNat (pre ++ as).length) fT (Int64.ofNat pre.length) =
      .ok (i', if cmpLex as bs = 0 then none else some (Int64.ofInt (cmpLex as bs))) := by
  intro as
  induction as with
  | nil =>
    intro bs pre pre' fT hp hl hn hf
    obtain ⟨f, rfl⟩ : ∃ f, fT = f + 1 := ⟨fT - 1, by omega⟩
    have hbs : bs = [] := by cases bs with | nil => rfl | cons _ _ => simp at hl
    subst hbs
    have hlt : decide (Int64.ofNat pre.length < Int64.ofNat (pre ++ []).length) = false := by
      rw [i64_lt_ofNat (by simp at hn; omega) _ hn]; simp
    exact ⟨Int64.ofNat pre.length, by simp only [Translated.compareData_loop1, hlt, Bool.false_eq_true, if_false, cmpLex, pure, Except.pure, if_true]⟩
  | cons x as ih =>
    intro bs pre pre' fT hp hl hn hf
    obtain ⟨f, rfl⟩ : ∃ f, fT = f + 1 := ⟨fT - 1, by omega⟩
    cases bs with
    | nil => simp at hl
    | cons y bs =>
      have hpl : pre.length < 2 ^ 62 := by simp at hn; omega
      have hlt : decide (Int64.ofNat pre.length < Int64.ofNat (pre ++ x :: as).length) = true := by
        rw [i64_lt_ofNat hpl _ hn]; simp
      have ia := idx_append_ofNat pre x as hpl
      have ib : Go.idx (pre' ++ y :: bs) (Int64.ofNat pre.length) = .ok y := by
        rw [hp]; exact idx_append_ofNat pre' y bs (by omega)
      simp only [Translated.compareData_loop1, hlt, if_true, ia, ib, bind, Except.bind, pure, Except.pure, cmpLex,
        i64_ofNat_add_one]
      by_cases h1 : x < y
      · exact ⟨_, by simp [h1]; rfl⟩
      · by_cases h2 : x > y
        · exact ⟨_, by simp [h1, h2]; rfl⟩
        · simp only [h1, h2, decide_false, Bool.false_eq_true, if_false]
          have e1 : pre ++ x :: as = (pre ++ [x]) ++ as := by simp
          have e2 : pre' ++ y :: bs = (pre' ++ [y]) ++ bs := by simp
          have e3 : pre.length + 1 = (pre ++ [x]).length := by simp
          rw [e1, e2, e3]
          exact ih bs (pre ++ [x]) (pre' ++ [y]) f (by simp [hp]) (by simpa using hl) (by rw [← e1]; exact hn) (by simp at hf; omega)

/-- **`compareData` of /repo is the model's `compareData`** (length first, then lexicographic) -/
theorem tr_compareData (a b : List UInt64) (fuel : Nat) (ha : a.length < 2 ^ 62) (hb : b.length < 2 ^ 62) (hf : a.length < fuel) :
    Translated.compareData a b fuel = .ok (Int64.ofInt (compareData a b)) := by
  have hlt : decide (Go.glen a < Go.glen b) = decide (a.length < b.length) := i64_lt_ofNat ha _ hb
  have hgt : decide (Go.glen a > Go.glen b) = decide (a.length > b.length) := i64_gt_ofNat ha _ hb
  simp only [Translated.compareData, compareData]
  by_cases h1 : a.length < b.length
  · have e1 : decide (Go.glen a < Go.glen b) = true := by rw [hlt]; simp [h1]
    simp only [e1, if_true, h1, pure, Except.pure]; rfl
  · have e1 : decide (Go.glen a < Go.glen b) = false := by rw [hlt]; simp [h1]
    by_cases h2 : a.length > b.length
    · have e2 : decide (Go.glen a > Go.glen b) = true := by rw [hgt]; simp [h2]
      simp only [e1, e2, Bool.false_eq_true, if_false, if_true, h1, h2, pure, Except.pure]; rfl
    · have e2 : decide (Go.glen a > Go.glen b) = false := by rw [hgt]; simp [h2]
      simp only [e1, e2, h1, h2, Bool.false_eq_true, if_false]
      obtain ⟨i', h'⟩ := tr_compareLoop a b [] [] fuel rfl (by omega) (by simpa using ha) hf
      simp only [List.nil_append, List.length_nil] at h'
      have h0 : (0 : Int64) = Int64.ofNat 0 := rfl
      have hg : Go.glen a = Int64.ofNat a.length := rfl
      rw [h0, hg, h']
      by_cases hc : cmpLex a b = 0
      · simp only [hc, if_true, bind, Except.bind, pure, Except.pure]; rfl
      · simp only [hc, if_false, bind, Except.bind, pure, Except.pure]

/-! ### `without` (shrink.go): cut groups out of the data, last first -/

/-- a group of the source whose bounds are usable positions with `begin ≤ end` -/
def GOK (g : Translated.groupInfo) : Prop :=
  0 ≤ g.begin.toInt ∧ g.begin.toInt ≤ g.end_.toInt ∧ g.end_.toInt < 2 ^ 62

theorem sliceTo_nonneg {α : Type} (l : List α) (x : Int64) (h0 : 0 ≤ x.toInt) :
    Go.sliceTo l x = if x.toInt.toNat ≤ l.length then .ok (l.take x.toInt.toNat) else .error .runtime := by
  simp only [Go.sliceTo, Go.pos?, h0, true_and]
  generalize x.toInt.toNat = k
  by_cases h : k ≤ l.length
  · simp [h, Nat.lt_succ_of_le h]
  · have : ¬ k < l.length + 1 := by omega
    simp [h, this]

theorem sliceFrom_nonneg {α : Type} (l : List α) (x : Int64) (h0 : 0 ≤ x.toInt) :
    Go.sliceFrom l x = if x.toInt.toNat ≤ l.length then .ok (l.drop x.toInt.toNat) else .error .runtime := by
  simp only [Go.sliceFrom, Go.pos?, h0, true_and]
  generalize x.toInt.toNat = k
  by_cases h : k ≤ l.length
  · simp [h, Nat.lt_succ_of_le h]
  · have : ¬ k < l.length + 1 := by omega
    simp [h, this]

/-- one step: `append(buf[:g.begin], buf[g.end:]...)` against `cut?` -/
theorem tr_cut (buf : List UInt64) (g : Translated.groupInfo) (hg : GOK g) :
    ((Go.sliceTo buf g.begin) >>= fun s2 => (Go.sliceFrom buf g.end_) >>= fun s3 => (pure (s2 ++ s3) : Go.M (List UInt64))) =
      match cut? buf (giOf g).begin (giOf g).end_ with
      | some d => .ok d
      | none => .error .runtime := by
  obtain ⟨h0, hbe, he⟩ := hg
  have he0 : 0 ≤ g.end_.toInt := by omega
  simp only [giOf, cut?, sliceTo_nonneg _ _ h0, sliceFrom_nonneg _ _ he0, he0, true_and]
  have hbe' : g.begin.toInt.toNat ≤ g.end_.toInt.toNat := by omega
  generalize g.begin.toInt.toNat = b at hbe' ⊢
  generalize g.end_.toInt.toNat = e at hbe' ⊢
  by_cases hle : e ≤ buf.length
  · have hbl : b ≤ buf.length := by omega
    simp [hle, hbl, hbe', bind, Except.bind, pure, Except.pure]
  · by_cases hbl : b ≤ buf.length
    · simp [hle, hbl, bind, Except.bind]
    · simp [hle, hbl, bind, Except.bind]

theorem tr_withoutLoop (groups : List Translated.groupInfo) (hok : ∀ g ∈ groups, GOK g) : ∀ (n : Nat) (buf : List UInt64) (fT : Nat),
    n ≤ groups.length → groups.length < 2 ^ 62 → n < fT →
    Translated.without_loop1 groups fT buf (Int64.ofNat n - 1) =
      match (groups.take n).reverse.foldlM (fun b g => cut? b (giOf g).begin (giOf g).end_) buf with
      | some d => .ok (d, Int64.ofNat 0 - 1)
      | none => .error .runtime := by
  intro n
  induction n with
  | zero =>
    intro buf fT _ _ hf
    obtain ⟨f, rfl⟩ : ∃ f, fT = f + 1 := ⟨fT - 1, by omega⟩
    simp [Translated.without_loop1, i64_ofNat_zero_sub_one_neg, pure, Except.pure]
  | succ n ih =>
    intro buf fT hn hl hf
    obtain ⟨f, rfl⟩ : ∃ f, fT = f + 1 := ⟨fT - 1, by omega⟩
    have hge : decide (Int64.ofNat n ≥ (0 : Int64)) = true := i64_ofNat_nonneg (by omega)
    have hlt : n < groups.length := by omega
    have hidx : Go.idx groups (Int64.ofNat n) = .ok groups[n] := by
      rw [idx_ofNat _ (by omega)]; simp [hlt]
    have htake : (groups.take (n + 1)).reverse = groups[n] :: (groups.take n).reverse := by
      rw [List.take_succ_eq_append_getElem hlt, List.reverse_append]; rfl
    have hcut := tr_cut buf groups[n] (hok _ (List.getElem_mem hlt))
    simp only [Translated.without_loop1, i64_ofNat_succ_sub_one, hge, if_true, hidx, bind, Except.bind, htake, List.foldlM_cons]
    simp only [bind, Except.bind, pure, Except.pure] at hcut
    cases hc : cut? buf (giOf groups[n]).begin (giOf groups[n]).end_ with
    | none =>
      rw [hc] at hcut
      simp only [Option.bind_eq_bind, Option.bind_none] at hcut ⊢
      revert hcut
      cases Go.sliceTo buf groups[n].begin with
      | error e => intro h; simp only [Except.error.injEq] at h ⊢; exact h
      | ok s2 =>
        cases Go.sliceFrom buf groups[n].end_ with
        | error e => intro h; simp only [Except.error.injEq] at h ⊢; exact h
        | ok s3 => intro h; simp at h
    | some d =>
      rw [hc] at hcut
      simp only [Option.bind_eq_bind, Option.bind_some] at hcut ⊢
      revert hcut
      cases Go.sliceTo buf groups[n].begin with
      | error e => intro h; simp at h
      | ok s2 =>
        cases Go.sliceFrom buf groups[n].end_ with
        | error e => intro h; simp at h
        | ok s3 =>
          intro h
          simp only [Except.ok.injEq] at h
          simp only [h]
          exact ih d f (by omega) hl (by omega)

/-- **`without(data, groups...)` of /repo is the model's `without?`** for groups with usable bounds -/
theorem tr_without (data : List UInt64) (groups : List Translated.groupInfo) (fuel : Nat) (hok : ∀ g ∈ groups, GOK g)
    (hl : groups.length < 2 ^ 62) (hf : groups.length < fuel) :
    Translated.without data groups fuel =
      match without? data (groups.map giOf) with
      | some d => .ok d
      | none => .error .runtime := by
  have h := tr_withoutLoop groups hok groups.length data fuel (Nat.le_refl _) hl hf
  have hw : without? data (groups.map giOf) =
      groups.reverse.foldlM (fun b g => cut? b (giOf g).begin (giOf g).end_) data := by
    simp only [without?, ← List.map_reverse, List.foldlM_map]
  simp only [Translated.without, List.nil_append, Go.glen, h, List.take_length, hw]
  cases groups.reverse.foldlM (fun b g => cut? b (giOf g).begin (giOf g).end_) data with
  | none => rfl
  | some d => rfl

end Rapid
