/-
  RapidProofs.RoundTrip — the fail-file format: `loadFailFile` reads back exactly what
  `saveFailFile` wrote — version, seed and every word — whatever the captured test output was
  (any bytes, empty, lines of any length, with or without a final newline, with '\r', '#', …).
-/
import RapidModel.Persist

namespace Rapid

/-! ### numbers -/

theorem digitVal_hexDigit : ∀ d : Fin 16, digitVal (hexDigit d.val) = some d.val ∧ (hexDigit d.val == 95) = false := by decide

theorem parseDigits_append (base : Nat) (base0 : Bool) : ∀ (xs ys : Bytes) (n : Nat) (us : Bool),
    parseDigits base base0 (xs ++ ys) n us =
      match parseDigits base base0 xs n us with
      | .ok (m, us') => parseDigits base base0 ys m us'
      | .error e => .error e := by
  intro xs
  induction xs with
  | nil => intro ys n us; simp [parseDigits]
  | cons c cs ih =>
    intro ys n us
    simp only [List.cons_append, parseDigits]
    split
    · exact ih ys n true
    · split
      · rfl
      · split
        · rfl
        · split
          · rfl
          · exact ih ys _ us

theorem natDigits_unfold (base : Nat) (hb : 2 ≤ base) (n : Nat) :
    natDigits base hb n = if n < base then [hexDigit n] else natDigits base hb (n / base) ++ [hexDigit (n % base)] := by
  rw [natDigits]
  split <;> rfl

/-- parsing the digits of `n` in base 10 or 16 gives `n` back -/
theorem parseDigits_natDigits (base : Nat) (hb : 2 ≤ base) (hb16 : base ≤ 16) (base0 : Bool) :
    ∀ n, n < 2 ^ 64 → parseDigits base base0 (natDigits base hb n) 0 false = .ok (n, false) := by
  intro n
  induction n using Nat.strongRecOn with
  | _ n ih =>
    intro hn
    rw [natDigits_unfold]
    have one : ∀ (d acc : Nat), d < base → acc * base + d < 2 ^ 64 →
        parseDigits base base0 [hexDigit d] acc false = .ok (acc * base + d, false) := by
      intro d acc hd hlt
      have hd16 : d < 16 := by omega
      obtain ⟨h1, h2⟩ := digitVal_hexDigit ⟨d, hd16⟩
      simp only at h1 h2
      have hnge : ¬ d ≥ base := by omega
      have hnr : ¬ acc * base + d ≥ 2 ^ 64 := by omega
      simp [parseDigits, h1, h2, hnge, hnr]
    by_cases hlt : n < base
    · simp only [hlt, if_true]
      have := one n 0 hlt (by omega)
      simpa using this
    · simp only [hlt, if_false]
      rw [parseDigits_append]
      have hdiv : n / base < n := Nat.div_lt_self (by omega) (by omega)
      rw [ih (n / base) hdiv (by omega)]
      simp only []
      have hmod : n % base < base := Nat.mod_lt _ (by omega)
      have heq : n / base * base + n % base = n := by
        rw [Nat.mul_comm]; exact Nat.div_add_mod n base
      have := one (n % base) (n / base) hmod (by omega)
      rw [heq] at this
      exact this

theorem natDigits_ne_nil (base : Nat) (hb : 2 ≤ base) (n : Nat) : natDigits base hb n ≠ [] := by
  rw [natDigits_unfold]
  split <;> simp

theorem parseUint_fmtDec (u : UInt64) : parseUint (fmtDec u) 10 = .ok u := by
  unfold parseUint fmtDec
  have hne : natDigits 10 (by decide) u.toNat ≠ [] := natDigits_ne_nil _ _ _
  simp only [hne, if_false]
  have h : ((10 : Nat) == 0) = false := rfl
  simp only [h, Bool.not_false, if_true]
  rw [parseDigits_natDigits 10 (by decide) (by decide) false u.toNat u.toNat_lt]
  simp

theorem parseUint_fmtHex (u : UInt64) : parseUint (fmtHex u) 0 = .ok u := by
  unfold parseUint fmtHex
  have hne : natDigits 16 (by decide) u.toNat ≠ [] := natDigits_ne_nil _ _ _
  have h0 : ((0 : Nat) == 0) = true := rfl
  simp only [List.cons_append, List.nil_append, h0]
  have hl1 : (lower 120 == 98) = false := by decide
  have hl2 : (lower 120 == 111) = false := by decide
  have hl3 : (lower 120 == 120) = true := by decide
  simp [hne, hl1, hl2, hl3]
  rw [parseDigits_natDigits 16 (by decide) (by decide) true u.toNat u.toNat_lt]
  simp

/-! ### splitting and joining -/

theorem splitOn_ne_nil (c : UInt8) : ∀ bs : Bytes, splitOn c bs ≠ []
  | [] => by simp [splitOn]
  | b :: bs => by
    simp only [splitOn]
    split
    · simp
    · split <;> simp

/-- no piece of a split contains the separator -/
theorem splitOn_free (c : UInt8) : ∀ (bs : Bytes) (s : Bytes), s ∈ splitOn c bs → c ∉ s
  | [], s, h => by simp [splitOn] at h; subst h; simp
  | b :: bs, s, h => by
    simp only [splitOn] at h
    split at h
    · simp only [List.mem_cons] at h
      rcases h with rfl | h
      · simp
      · exact splitOn_free c bs s h
    · rename_i hbc
      split at h
      · rename_i hnil; exact absurd hnil (splitOn_ne_nil c bs)
      · rename_i l ls heq
        simp only [List.mem_cons] at h
        rcases h with rfl | h
        · have hl : c ∉ l := splitOn_free c bs l (by rw [heq]; simp)
          intro hmem
          simp only [List.mem_cons] at hmem
          rcases hmem with rfl | hmem
          · simp at hbc
          · exact hl hmem
        · exact splitOn_free c bs s (by rw [heq]; simp [h])

/-- a separator-free prefix followed by the separator is the first piece -/
theorem splitOn_append (c : UInt8) : ∀ (a rest : Bytes), c ∉ a → splitOn c (a ++ c :: rest) = a :: splitOn c rest
  | [], rest, _ => by simp [splitOn]
  | x :: a, rest, h => by
    have hx : (x == c) = false := by
      simp only [List.mem_cons, not_or] at h
      simpa using fun h' => h.1 h'.symm
    have ha : c ∉ a := fun h' => h (List.mem_cons_of_mem _ h')
    simp only [List.cons_append, splitOn, hx, Bool.false_eq_true, if_false, splitOn_append c a rest ha]

theorem splitOn_single (c : UInt8) : ∀ a : Bytes, c ∉ a → splitOn c a = [a]
  | [], _ => by simp [splitOn]
  | x :: a, h => by
    have hx : (x == c) = false := by
      simp only [List.mem_cons, not_or] at h
      simpa using fun h' => h.1 h'.symm
    have ha : c ∉ a := fun h' => h (List.mem_cons_of_mem _ h')
    simp only [splitOn, hx, Bool.false_eq_true, if_false, splitOn_single c a ha]

/-- splitting a join of separator-free lines gives the lines back -/
theorem splitOn_joinWith (c : UInt8) : ∀ (l : Bytes) (ls : List Bytes), c ∉ l → (∀ x ∈ ls, c ∉ x) →
    splitOn c (joinWith c (l :: ls)) = l :: ls
  | l, [], hl, _ => by simp [joinWith, splitOn_single c l hl]
  | l, m :: ms, hl, hms => by
    simp only [joinWith]
    rw [splitOn_append c l _ hl, splitOn_joinWith c m ms (hms m (by simp)) (fun x hx => hms x (by simp [hx]))]

theorem splitOn_comments (c : UInt8) (f : Bytes → Bytes) (hf : ∀ s, c ∉ s → c ∉ f s) :
    ∀ (pieces : List Bytes) (tail : Bytes), (∀ s ∈ pieces, c ∉ s) →
    splitOn c ((pieces.map fun s => f s ++ [c]).flatten ++ tail) = pieces.map f ++ splitOn c tail
  | [], tail, _ => by simp
  | s :: ps, tail, h => by
    simp only [List.map_cons, List.flatten_cons, List.append_assoc, List.singleton_append, List.cons_append]
    rw [splitOn_append c (f s) _ (hf s (h s (by simp))), List.nil_append,
      splitOn_comments c f hf ps tail (fun x hx => h x (by simp [hx]))]

/-! ### `strings.TrimSpace` on lines that begin and end with a plain ASCII character -/

/-- an ASCII byte that is not white space -/
def Plain (b : UInt8) : Prop := b < 0x80 ∧ isAsciiSpace b = false

theorem uni_heads : uniSpaces.all (fun p => match p with | h :: _ => decide (0xC2 ≤ h) | [] => false) = true := by decide
theorem uni_lasts : uniSpaces.all (fun p => match p.reverse with | h :: _ => decide (0x80 ≤ h) | [] => false) = true := by decide

theorem not_prefix_of_plain {p : Bytes} (hp : p ∈ uniSpaces) {b : UInt8} (hb : b < 0x80) (t : Bytes) :
    p.isPrefixOf (b :: t) = false := by
  have := List.all_eq_true.mp uni_heads p hp
  cases p with
  | nil => simp at this
  | cons h t' =>
    simp only [decide_eq_true_eq] at this
    have hne : (h == b) = false := by
      simp only [beq_eq_false_iff_ne, ne_eq]
      intro heq; subst heq
      rw [UInt8.le_iff_toNat_le] at this; rw [UInt8.lt_iff_toNat_lt] at hb
      simp at this hb; omega
    simp [List.isPrefixOf, hne]

theorem leadSpaceLen_plain {b : UInt8} (hb : Plain b) (t : Bytes) : leadSpaceLen (b :: t) = 0 := by
  simp only [leadSpaceLen, hb.2, Bool.false_eq_true, if_false]
  have : uniSpaces.find? (fun p => p.isPrefixOf (b :: t)) = none := by
    rw [List.find?_eq_none]
    intro p hp
    simp [not_prefix_of_plain hp hb.1 t]
  rw [this]

theorem trimLeft_plain {b : UInt8} (hb : Plain b) (t : Bytes) : ∀ n, trimLeft n (b :: t) = b :: t
  | 0 => rfl
  | n+1 => by simp [trimLeft, leadSpaceLen_plain hb t]

theorem getLast?_eq_head_reverse (l : Bytes) : l.getLast? = l.reverse.head? := by
  rw [List.head?_reverse]

theorem trailSpaceLen_plain {l : Bytes} {b : UInt8} (hl : l.getLast? = some b) (hb : Plain b) : trailSpaceLen l = 0 := by
  simp only [trailSpaceLen, hl, hb.2, Bool.false_eq_true, if_false]
  have : uniSpaces.find? (fun p => p.isSuffixOf l) = none := by
    rw [List.find?_eq_none]
    intro p hp
    have hlast := List.all_eq_true.mp uni_lasts p hp
    simp only [List.isSuffixOf]
    rw [getLast?_eq_head_reverse] at hl
    cases hr : l.reverse with
    | nil => rw [hr] at hl; simp at hl
    | cons x xs =>
      rw [hr] at hl
      simp only [List.head?_cons, Option.some.injEq] at hl
      subst hl
      cases hpr : p.reverse with
      | nil => rw [hpr] at hlast; simp at hlast
      | cons h t' =>
        rw [hpr] at hlast
        simp only [decide_eq_true_eq] at hlast
        have hne : (h == x) = false := by
          simp only [beq_eq_false_iff_ne, ne_eq]
          intro heq; subst heq
          have := hb.1
          rw [UInt8.le_iff_toNat_le] at hlast; rw [UInt8.lt_iff_toNat_lt] at this
          simp at this hlast; omega
        simp [List.isPrefixOf, hne]
  rw [this]

theorem trimRight_plain {l : Bytes} {b : UInt8} (hl : l.getLast? = some b) (hb : Plain b) : ∀ n, trimRight n l = l
  | 0 => rfl
  | n+1 => by simp [trimRight, trailSpaceLen_plain hl hb]

/-- a line that starts and ends with plain characters is not changed by `TrimSpace` -/
theorem trimSpace_plain {b b' : UInt8} {t : Bytes} (hb : Plain b) (hl : (b :: t).getLast? = some b') (hb' : Plain b') :
    trimSpace (b :: t) = b :: t := by
  simp only [trimSpace, trimLeft_plain hb t, trimRight_plain hl hb']

/-- a line that starts with a plain character still starts with it after `TrimSpace` -/
theorem trimRight_head {b : UInt8} (hb : Plain b) : ∀ (n : Nat) (t : Bytes), ∃ t', trimRight n (b :: t) = b :: t'
  | 0, t => ⟨t, rfl⟩
  | n+1, t => by
    simp only [trimRight]
    cases hk : trailSpaceLen (b :: t) with
    | zero => exact ⟨t, rfl⟩
    | succ k =>
      simp only []
      -- the removed suffix is shorter than the line: the first character is not white space
      have hlt : k + 1 < (b :: t).length := by
        simp only [trailSpaceLen] at hk
        cases hg : (b :: t).getLast? with
        | none => simp [hg] at hk
        | some x =>
          simp only [hg] at hk
          split at hk
          · rename_i hsp
            -- one ASCII white-space character at the end; it is not `b`
            have : k = 0 := by omega
            subst this
            cases t with
            | nil =>
              simp only [List.getLast?_singleton, Option.some.injEq] at hg
              subst hg; rw [hb.2] at hsp; cases hsp
            | cons y ys => simp
          · cases hf : uniSpaces.find? (fun p => p.isSuffixOf (b :: t)) with
            | none => simp [hf] at hk
            | some p =>
              simp only [hf] at hk
              have hp := List.find?_some hf
              have hmem := List.mem_of_find?_eq_some hf
              have hsuf : p <:+ (b :: t) := List.isSuffixOf_iff_suffix.mp (by simpa using hp)
              have hle := hsuf.length_le
              rw [← hk]
              by_cases heq : p.length = (b :: t).length
              · have := hsuf.eq_of_length heq
                have hh := List.all_eq_true.mp uni_heads p hmem
                rw [this] at hh
                simp only [decide_eq_true_eq] at hh
                have := hb.1
                rw [UInt8.le_iff_toNat_le] at hh; rw [UInt8.lt_iff_toNat_lt] at this
                simp at this hh; omega
              · omega
      have : (b :: t).take ((b :: t).length - (k + 1)) = b :: t.take (t.length - (k + 1)) := by
        have h1 : (b :: t).length - (k + 1) = (t.length - (k + 1)) + 1 := by simp only [List.length_cons] at hlt ⊢; omega
        rw [h1, List.take_succ_cons]
      rw [this]
      exact trimRight_head hb n _

theorem trimSpace_head {b : UInt8} (hb : Plain b) (t : Bytes) : ∃ t', trimSpace (b :: t) = b :: t' := by
  simp only [trimSpace, trimLeft_plain hb t]
  exact trimRight_head hb _ t

/-! ### the lines of a fail file -/

theorem hexDigit_facts : ∀ d : Fin 16, (hexDigit d.val < 0x80) ∧ isAsciiSpace (hexDigit d.val) = false ∧
    hexDigit d.val ≠ nl ∧ hexDigit d.val ≠ hash := by decide

theorem natDigits_mem (base : Nat) (hb : 2 ≤ base) (hb16 : base ≤ 16) : ∀ n x, x ∈ natDigits base hb n → ∃ d : Fin 16, x = hexDigit d.val := by
  intro n
  induction n using Nat.strongRecOn with
  | _ n ih =>
    intro x hx
    rw [natDigits_unfold] at hx
    split at hx
    · rename_i hlt
      simp only [List.mem_singleton] at hx
      exact ⟨⟨n, by omega⟩, hx⟩
    · rename_i hlt
      simp only [List.mem_append, List.mem_singleton] at hx
      rcases hx with hx | hx
      · exact ih (n / base) (Nat.div_lt_self (by omega) (by omega)) x hx
      · exact ⟨⟨n % base, by have := Nat.mod_lt n (by omega : 0 < base); omega⟩, hx⟩

theorem natDigits_getLast (base : Nat) (hb : 2 ≤ base) (hb16 : base ≤ 16) (n : Nat) :
    ∃ d : Fin 16, (natDigits base hb n).getLast? = some (hexDigit d.val) := by
  rw [natDigits_unfold]
  split
  · rename_i hlt; exact ⟨⟨n, by omega⟩, by simp⟩
  · exact ⟨⟨n % base, by have := Nat.mod_lt n (by omega : 0 < base); omega⟩, by simp⟩

theorem plain_hexDigit (d : Fin 16) : Plain (hexDigit d.val) := ⟨(hexDigit_facts d).1, (hexDigit_facts d).2.1⟩

/-- a data line: begins and ends with a plain character, does not begin with '#', has no newline -/
structure DataLine (l : Bytes) : Prop where
  shape : ∃ b t b', l = b :: t ∧ Plain b ∧ b ≠ hash ∧ (b :: t).getLast? = some b' ∧ Plain b'
  nonl : nl ∉ l

theorem plain_not_cr {b : UInt8} (hb : Plain b) : b ≠ 13 := by
  intro h; subst h; have := hb.2; simp [isAsciiSpace] at this

theorem dataLine_fixed {l : Bytes} (h : DataLine l) : trimSpace (dropCR l) = l ∧ l.head? ≠ some hash ∧ l ≠ [] := by
  obtain ⟨b, t, b', rfl, hb, hne, hl, hb'⟩ := h.shape
  have hcr : dropCR (b :: t) = b :: t := by
    simp only [dropCR, hl]
    split
    · rename_i heq
      simp only [Option.some.injEq] at heq
      exact absurd heq (plain_not_cr hb')
    · rfl
  rw [hcr]
  exact ⟨trimSpace_plain hb hl hb', by simpa using hne, by simp⟩

theorem getLast?_cons_ne {a : UInt8} {l : Bytes} (h : l ≠ []) : (a :: l).getLast? = l.getLast? := by
  cases l with
  | nil => exact absurd rfl h
  | cons x xs => rw [List.getLast?_cons_cons]

theorem getLast?_append_ne {l1 l2 : List Bytes} (h : l2 ≠ []) : (l1 ++ l2).getLast? = l2.getLast? := by
  rw [List.getLast?_append]
  cases hl : l2.getLast? with
  | none => exact absurd (List.getLast?_eq_none_iff.mp hl) h
  | some x => rfl

theorem getLast?_append_ne' {l1 l2 : Bytes} (h : l2 ≠ []) : (l1 ++ l2).getLast? = l2.getLast? := by
  rw [List.getLast?_append]
  cases hl : l2.getLast? with
  | none => exact absurd (List.getLast?_eq_none_iff.mp hl) h
  | some x => rfl

theorem scanLines_eq (bs : Bytes) (h : (splitOn nl bs).getLast? ≠ some []) : scanLines bs = (splitOn nl bs).map dropCR := by
  unfold scanLines
  dsimp only
  split
  · rename_i heq; exact absurd heq h
  · rfl

theorem plain48 : Plain 48 := ⟨by decide, by decide⟩

theorem hexLine (u : UInt64) : DataLine (fmtHex u) := by
  unfold fmtHex
  obtain ⟨d, hd⟩ := natDigits_getLast 16 (by decide) (by decide) u.toNat
  refine ⟨⟨48, 120 :: natDigits 16 (by decide) u.toNat, hexDigit d.val, rfl, plain48, by decide, ?_, plain_hexDigit d⟩, ?_⟩
  · have hne := natDigits_ne_nil 16 (by decide) u.toNat
    rw [getLast?_cons_ne (by simp), getLast?_cons_ne hne]
    exact hd
  · intro hmem
    simp only [List.cons_append, List.nil_append, List.mem_cons] at hmem
    rcases hmem with h | h | h
    · revert h; decide
    · revert h; decide
    · obtain ⟨d', hd'⟩ := natDigits_mem 16 (by decide) (by decide) _ _ h
      exact (hexDigit_facts d').2.2.1 hd'.symm

/-- what the version string must be like (true of "v0.4.8" and of every sensible version) -/
structure VersionOK (v : Bytes) : Prop where
  shape : ∃ b t, v = b :: t ∧ Plain b ∧ b ≠ hash
  nohash : hash ∉ v
  nonl : nl ∉ v

theorem headerLine (v : Bytes) (hv : VersionOK v) (seed : UInt64) : DataLine (v ++ [hash] ++ fmtDec seed) := by
  obtain ⟨b, t, rfl, hb, hne⟩ := hv.shape
  unfold fmtDec
  obtain ⟨d, hd⟩ := natDigits_getLast 10 (by decide) (by decide) seed.toNat
  have hne' := natDigits_ne_nil 10 (by decide) seed.toNat
  refine ⟨⟨b, t ++ [hash] ++ natDigits 10 (by decide) seed.toNat, hexDigit d.val, by simp, hb, hne, ?_, plain_hexDigit d⟩, ?_⟩
  · have : b :: (t ++ [hash] ++ natDigits 10 (by decide) seed.toNat) = (b :: t ++ [hash]) ++ natDigits 10 (by decide) seed.toNat := by simp
    rw [this, getLast?_append_ne' hne']
    exact hd
  · intro hmem
    simp only [List.mem_append, List.mem_singleton] at hmem
    rcases hmem with (h | h) | h
    · exact hv.nonl h
    · revert h; decide
    · obtain ⟨d', hd'⟩ := natDigits_mem 10 (by decide) (by decide) _ _ h
      exact (hexDigit_facts d').2.2.1 hd'.symm

theorem filter_data (ls : List Bytes) (h : ∀ l ∈ ls, DataLine l) :
    ((ls.map dropCR).map trimSpace).filter (fun s => !(s.head? == some hash || s.isEmpty)) = ls := by
  induction ls with
  | nil => rfl
  | cons l ls ih =>
    obtain ⟨h1, h2, h3⟩ := dataLine_fixed (h l (by simp))
    simp only [List.map_cons, List.filter_cons, h1]
    have : (!(l.head? == some hash || l.isEmpty)) = true := by
      cases l with
      | nil => exact absurd rfl h3
      | cons x xs =>
        simp only [List.head?_cons, Option.some.injEq, ne_eq] at h2
        simp [h2]
    simp only [this, if_true]
    rw [ih (fun l' hl' => h l' (by simp [hl']))]

theorem filter_comments (ps : List Bytes) :
    (((ps.map fun s => [hash, sp] ++ s).map dropCR).map trimSpace).filter (fun s => !(s.head? == some hash || s.isEmpty)) = [] := by
  induction ps with
  | nil => rfl
  | cons s ps ih =>
    simp only [List.map_cons, List.filter_cons]
    have hplain : Plain hash := ⟨by decide, by decide⟩
    -- dropping a final '\r' keeps the leading '#'
    have hcr : ∃ t, dropCR ([hash, sp] ++ s) = hash :: t := by
      simp only [dropCR]
      split
      · exact ⟨(sp :: s).dropLast, by simp [List.dropLast]⟩
      · exact ⟨sp :: s, rfl⟩
    obtain ⟨t, ht⟩ := hcr
    obtain ⟨t', ht'⟩ := trimSpace_head hplain t
    rw [ht, ht']
    simp only [List.head?_cons, beq_self_eq_true, Bool.true_or, Bool.not_true, Bool.false_eq_true, if_false]
    exact ih

theorem words_ok : ∀ (buf : List UInt64), loadBytes.words (buf.map fmtHex) = .ok buf
  | [] => rfl
  | u :: us => by simp [loadBytes.words, parseUint_fmtHex, words_ok us]

/-- **round trip**: loading what was saved gives back version, seed and words — for any
    captured output whatsoever -/
theorem load_save (v : Bytes) (hv : VersionOK v) (output : Bytes) (seed : UInt64) (buf : List UInt64) :
    loadBytes (saveBytes v output seed buf) = .ok (v, seed, buf) := by
  have hpieces : ∀ s ∈ splitOn nl output, nl ∉ s := splitOn_free nl output
  have hhdr := headerLine v hv seed
  have hwords : ∀ l ∈ buf.map fmtHex, DataLine l := by
    intro l hl
    obtain ⟨u, _, rfl⟩ := List.mem_map.mp hl
    exact hexLine u
  have hdata : ∀ l ∈ (v ++ [hash] ++ fmtDec seed) :: buf.map fmtHex, DataLine l := by
    intro l hl
    simp only [List.mem_cons] at hl
    rcases hl with rfl | hl
    · exact hhdr
    · exact hwords l hl
  -- the lines
  have hsplit : splitOn nl (saveBytes v output seed buf) =
      (splitOn nl output).map (fun s => [hash, sp] ++ s) ++ ((v ++ [hash] ++ fmtDec seed) :: buf.map fmtHex) := by
    unfold saveBytes
    have hmap : ((splitOn nl output).map fun s => [hash, sp] ++ s ++ [nl]) =
        ((splitOn nl output).map fun s => (fun s => [hash, sp] ++ s) s ++ [nl]) := rfl
    simp only []
    rw [hmap, splitOn_comments nl (fun s => [hash, sp] ++ s) _ _ _ hpieces]
    · rw [splitOn_joinWith nl _ _ hhdr.nonl (fun x hx => (hwords x hx).nonl)]
    · intro s hs hmem
      simp only [List.cons_append, List.nil_append, List.mem_cons] at hmem
      rcases hmem with h | h | h
      · revert h; decide
      · revert h; decide
      · exact hs h
  have hscan : scanLines (saveBytes v output seed buf) =
      ((splitOn nl output).map (fun s => [hash, sp] ++ s) ++ ((v ++ [hash] ++ fmtDec seed) :: buf.map fmtHex)).map dropCR := by
    have hlast : (splitOn nl (saveBytes v output seed buf)).getLast? ≠ some [] := by
      rw [hsplit, getLast?_append_ne (by simp)]
      intro h
      have hm := List.mem_of_getLast? h
      exact (dataLine_fixed (hdata [] hm)).2.2 rfl
    rw [scanLines_eq _ hlast, hsplit]
  unfold loadBytes
  simp only [hscan, List.map_append, List.filter_append, filter_comments, List.nil_append, filter_data _ hdata]
  -- header
  have hsp : splitOn hash (v ++ [hash] ++ fmtDec seed) = [v, fmtDec seed] := by
    rw [List.append_assoc, List.singleton_append, splitOn_append hash v _ hv.nohash]
    rw [splitOn_single]
    intro hmem
    unfold fmtDec at hmem
    obtain ⟨d', hd'⟩ := natDigits_mem 10 (by decide) (by decide) _ _ hmem
    exact (hexDigit_facts d').2.2.2 hd'.symm
  simp only [hsp, parseUint_fmtDec, words_ok]

/-- the UTF-8 bytes of "v0.4.8" (the driver and the harness exchange the version as bytes) -/
def versionBytes : Bytes := [118, 48, 46, 52, 46, 56]

theorem versionOK_current : VersionOK versionBytes := by
  refine ⟨⟨118, [48, 46, 52, 46, 56], rfl, ⟨by decide, by decide⟩, by decide⟩, by decide, by decide⟩

end Rapid
