/-
  RapidProofs.Signals — a non-fatal failure signal is never lost: `failed` is sticky through
  every construct (body, Custom's inner `*T`, cleanup callbacks), and `checkOnce` turns a
  pending failure into the test case's error.
-/
import RapidProofs.Shrink

namespace Rapid

theorem ctree_signal (c : CTree) : ∀ ts : TS,
    (ts.failed.isSome ∨ Ev.signal ∈ (c.run ts).evs) → (c.run ts).ts.failed.isSome := by
  induction c with
  | done => intro ts h; rcases h with h | h; exact h; simp [CTree.run] at h
  | emit id k ih =>
    intro ts h
    simp only [CTree.run] at h ⊢
    apply ih
    rcases h with h | h
    · exact Or.inl h
    · simp only [List.mem_cons] at h
      rcases h with h | h
      · cases h
      · exact Or.inr h
  | errorf m k ih => intro ts _; simp only [CTree.run]; exact ih _ (Or.inl rfl)
  | throw e => intro ts h; rcases h with h | h; exact h; simp [CTree.run] at h
  | reg c k _ ihk => intro ts h; simp only [CTree.run] at h ⊢; exact ihk _ h
  | ctx k ih =>
    intro ts h
    simp only [CTree.run] at h ⊢
    apply ih
    rcases h with h | h
    · exact Or.inl h
    · simp only [List.mem_cons] at h
      rcases h with h | h
      · cases h
      · exact Or.inr h

theorem runStack_signal : ∀ (fuel : Nat) (ts : TS),
    (ts.failed.isSome ∨ Ev.signal ∈ (runStack fuel ts).evs) → (runStack fuel ts).ts.failed.isSome := by
  intro fuel
  induction fuel with
  | zero => intro ts h; rcases h with h | h; exact h; simp [runStack] at h
  | succ n ih =>
    intro ts h
    simp only [runStack] at h ⊢
    cases hc : ts.cleanups with
    | nil => simp only [hc] at h ⊢; rcases h with h | h; exact h; simp at h
    | cons c rest =>
      simp only [hc] at h ⊢
      apply ih
      rcases h with h | h
      · exact Or.inl (ctree_signal c _ (Or.inl h))
      · simp only [List.mem_append] at h
        rcases h with h | h
        · exact Or.inl (ctree_signal c _ (Or.inr h))
        · exact Or.inr h

theorem cleanupPhase_signal (ts : TS)
    (h : ts.failed.isSome ∨ Ev.signal ∈ (cleanupPhase ts).evs) : (cleanupPhase ts).ts.failed.isSome := by
  simp only [cleanupPhase] at h ⊢
  cases hc : ts.ctx with
  | none =>
    simp only [hc] at h ⊢
    apply runStack_signal
    rcases h with h | h
    · exact Or.inl h
    · simp at h; exact Or.inr h
  | some id =>
    simp only [hc] at h ⊢
    apply runStack_signal
    rcases h with h | h
    · exact Or.inl h
    · simp at h; exact Or.inr h

theorem mem_after_evs {o : Out} {u k : List UInt64} {t : List Tok} {e : List Ev} {ov : Bool} {x : Ev} :
    x ∈ (o.after u k t e ov).evs ↔ x ∈ e ∨ x ∈ o.evs := by
  simp [after_evs]

/-- `failed` is sticky: a signal seen anywhere in the run (or pending at the start) is still
    pending at the end of the run -/
theorem run_signal (p : Prog) : ∀ (src : Src) (ts : TS),
    (ts.failed.isSome ∨ Ev.signal ∈ (p.run src ts).evs) → (p.run src ts).ts.failed.isSome := by
  induction p with
  | ret v => intro src ts h; rcases h with h | h; exact h; simp [Prog.run, Out.ofRes] at h
  | throw e => intro src ts h; rcases h with h | h; exact h; simp [Prog.run, Out.ofRes] at h
  | draw n k ih =>
    intro src ts h
    simp only [Prog.run] at h ⊢
    cases hn : src.next n with
    | none => simp only [hn] at h ⊢; rcases h with h | h; exact h; simp [Out.ofRes] at h
    | some r =>
      simp only [hn] at h ⊢
      simp only [after_ts]
      apply ih
      rcases h with h | h
      · exact Or.inl h
      · rw [mem_after_evs] at h; rcases h with h | h; simp at h; exact Or.inr h
  | group l s b d k ihb ihk =>
    intro src ts h
    simp only [Prog.run] at h ⊢
    cases hb : (b.run src ts).res with
    | error e => simp only [hb] at h ⊢; exact ihb src ts h
    | ok v =>
      simp only [hb] at h ⊢
      split at h
      · rename_i hc; simp only [hc, if_true]; exact ihb src ts h
      · rename_i hc
        simp only [hc, if_false, Bool.false_eq_true, after_ts]
        apply ihk
        rcases h with h | h
        · exact Or.inl (ihb src ts (Or.inl h))
        · rw [mem_after_evs] at h
          rcases h with h | h
          · exact Or.inl (ihb src ts (Or.inr h))
          · exact Or.inr h
  | catchInv b k ihb ihk =>
    intro src ts h
    simp only [Prog.run] at h ⊢
    cases hb : (b.run src ts).res with
    | ok v =>
      simp only [hb] at h ⊢
      simp only [after_ts]
      apply ihk
      rcases h with h | h
      · exact Or.inl (ihb src ts (Or.inl h))
      · rw [mem_after_evs] at h
        rcases h with h | h
        · exact Or.inl (ihb src ts (Or.inr h))
        · exact Or.inr h
    | error e =>
      cases e with
      | invalid m =>
        simp only [hb] at h ⊢
        simp only [after_ts]
        apply ihk
        rcases h with h | h
        · exact Or.inl (ihb src ts (Or.inl h))
        · rw [mem_after_evs] at h
          rcases h with h | h
          · exact Or.inl (ihb src ts (Or.inr h))
          · exact Or.inr h
      | stop m s => simp only [hb] at h ⊢; exact ihb src ts h
      | panic m s => simp only [hb] at h ⊢; exact ihb src ts h
      | fuel => simp only [hb] at h ⊢; exact ihb src ts h
  | errorf m k ih => intro src ts _; simp only [Prog.run, after_ts]; exact ih _ _ (Or.inl rfl)
  | failOnError site k ih =>
    intro src ts h
    simp only [Prog.run] at h ⊢
    cases hf : ts.failed with
    | some m => simp [hf, Out.ofRes]
    | none => simp only [hf] at h ⊢; apply ih; rcases h with h | h; simp [hf] at h; exact Or.inr h
  | tick k ih => intro src ts h; simp only [Prog.run] at h ⊢; exact ih _ _ h
  | cleanup c k ih => intro src ts h; simp only [Prog.run] at h ⊢; exact ih _ _ h
  | ctx k ih =>
    intro src ts h
    simp only [Prog.run] at h ⊢
    cases hc : ts.ctx with
    | some id =>
      simp only [hc] at h ⊢
      simp only [after_ts]; apply ih
      rcases h with h | h
      · exact Or.inl h
      · rw [mem_after_evs] at h; rcases h with h | h; simp at h; exact Or.inr h
    | none =>
      simp only [hc] at h ⊢
      simp only [after_ts]; apply ih
      rcases h with h | h
      · exact Or.inl h
      · rw [mem_after_evs] at h; rcases h with h | h; simp at h; exact Or.inr h
  | inner b k ihb ihk =>
    intro src ts h
    simp only [Prog.run] at h ⊢
    -- the failed flag handed back to the parent
    have key : (ts.failed.isSome ∨ Ev.signal ∈ (b.run src TS.fresh).evs ∨
        Ev.signal ∈ (cleanupPhase (b.run src TS.fresh).ts).evs) →
        (match (cleanupPhase (b.run src TS.fresh).ts).ts.failed with | some m => some m | none => ts.failed).isSome := by
      intro hh
      cases hcf : (cleanupPhase (b.run src TS.fresh).ts).ts.failed with
      | some m => rfl
      | none =>
        simp only []
        rcases hh with hh | hh | hh
        · exact hh
        · have := cleanupPhase_signal _ (Or.inl (ihb src TS.fresh (Or.inr hh))); simp [hcf] at this
        · have := cleanupPhase_signal _ (Or.inr hh); simp [hcf] at this
    have split_evs : ∀ x, x ∈ (Ev.innerBegin :: (b.run src TS.fresh).evs ++ (cleanupPhase (b.run src TS.fresh).ts).evs ++ [Ev.innerEnd]) →
        x = Ev.signal → (Ev.signal ∈ (b.run src TS.fresh).evs ∨ Ev.signal ∈ (cleanupPhase (b.run src TS.fresh).ts).evs) := by
      intro x hx hxs; subst hxs; simp at hx; exact hx
    cases hce : (cleanupPhase (b.run src TS.fresh).ts).err with
    | some e =>
      simp only [hce] at h ⊢
      apply key
      rcases h with h | h
      · exact Or.inl h
      · exact Or.inr (split_evs _ h rfl)
    | none =>
      simp only [hce] at h ⊢
      cases hb : (b.run src TS.fresh).res with
      | error e =>
        simp only [hb] at h ⊢
        apply key
        rcases h with h | h
        · exact Or.inl h
        · exact Or.inr (split_evs _ h rfl)
      | ok v =>
        simp only [hb] at h ⊢
        simp only [after_ts]
        apply ihk
        rcases h with h | h
        · exact Or.inl (key (Or.inl h))
        · rw [mem_after_evs] at h
          rcases h with h | h
          · exact Or.inl (key (Or.inr (split_evs _ h rfl)))
          · exact Or.inr h
  | emit id k ih =>
    intro src ts h
    simp only [Prog.run] at h ⊢
    simp only [after_ts]; apply ih
    rcases h with h | h
    · exact Or.inl h
    · rw [mem_after_evs] at h; rcases h with h | h; simp at h; exact Or.inr h

/-- **no non-fatal signal is lost**: if `T.Error/Errorf/Fail` (or `Fatal*`) was called anywhere
    during a test case — in the body, in a `Repeat` action or invariant, in a Custom function
    (inner `*T`), in a cleanup callback of either — or a failure was still pending on the `*T`,
    the test case ends with an error that is not "invalid" -/
theorem checkOnce_signal (p : Prog) (src : Src) (ts : TS)
    (h : ts.failed.isSome ∨ Ev.signal ∈ (checkOnce p src ts).evs) :
    ∃ e, (checkOnce p src ts).err = some e ∧ e.isInvalid = false := by
  simp only [checkOnce_def] at h ⊢
  have hf : (cleanupPhase ((bodyOf p).run src { ts with ctxCount := 0 }).ts).ts.failed.isSome := by
    rcases h with h | h
    · exact cleanupPhase_signal _ (Or.inl (run_signal _ _ _ (Or.inl h)))
    · simp only [List.mem_append] at h
      rcases h with h | h
      · exact cleanupPhase_signal _ (Or.inl (run_signal _ _ _ (Or.inr h)))
      · exact cleanupPhase_signal _ (Or.inr h)
  cases hm : (cleanupPhase ((bodyOf p).run src { ts with ctxCount := 0 }).ts).ts.failed with
  | none => simp [hm] at hf
  | some m =>
    simp only []
    cases hce : (cleanupPhase ((bodyOf p).run src { ts with ctxCount := 0 }).ts).err with
    | some e =>
      cases hr : ((bodyOf p).run src { ts with ctxCount := 0 }).res with
      | ok v => cases e <;> simp [Err.isInvalid, Err.nest]
      | error e0 => cases e <;> cases e0 <;> simp [Err.isInvalid, Err.nest]
    | none =>
      simp only []
      cases hr : ((bodyOf p).run src { ts with ctxCount := 0 }).res with
      | ok v => simp [Err.isInvalid]
      | error e => cases e <;> simp [Err.isInvalid]

/-- a panic / `Fatal*` that ends the body falsifies the test case, whatever the cleanup callbacks do
    afterwards: a callback that fails replaces the error by its own failure, a callback that skips
    (invalid data) cannot replace it -/
theorem checkOnce_body_error (p : Prog) (src : Src) (ts : TS) (e : Err)
    (hb : ((bodyOf p).run src { ts with ctxCount := 0 }).res = .error e) (he : e.isInvalid = false) :
    ∃ e', (checkOnce p src ts).err = some e' ∧ e'.isInvalid = false := by
  simp only [checkOnce_def, hb]
  cases hc : (cleanupPhase ((bodyOf p).run src { ts with ctxCount := 0 }).ts).err with
  | some ec =>
    cases (cleanupPhase ((bodyOf p).run src { ts with ctxCount := 0 }).ts).ts.failed with
    | none => cases ec <;> cases e <;> simp [Err.isInvalid, Err.nest] at he ⊢
    | some m => cases ec <;> cases e <;> simp [Err.isInvalid, Err.nest] at he ⊢
  | none =>
    simp only []
    cases (cleanupPhase ((bodyOf p).run src { ts with ctxCount := 0 }).ts).ts.failed with
    | none => exact ⟨e, rfl, he⟩
    | some m => cases e <;> simp [Err.isInvalid] at he ⊢

/-- a falsified test case fails the enclosing test: whenever the generation loop ends with an
    error, the verdict is not "pass" (so `checkTB` calls `Errorf` and then `FailNow`) -/
theorem failing_case_fails_tb (p : Prog) (checks : Nat) (seed : UInt64) (files : List FF)
    (early : Nat → Bool) (cands : List (List UInt64))
    (h : (doCheck p checks seed files early cands).err1.isSome ∨ (doCheck p checks seed files early cands).err2.isSome) :
    (verdict checks (doCheck p checks seed files early cands)).failsTB = true := by
  generalize doCheck p checks seed files early cands = d at h
  unfold verdict
  cases h1 : d.err1 <;> cases h2 : d.err2 <;> simp [h1, h2] at h ⊢
  all_goals (first | (split <;> simp [Verdict.failsTB]) | simp [Verdict.failsTB])

end Rapid
