/-
  RapidProofs.StateMachine — the check/action discipline of `T.Repeat` as a trace language.

  The invariant and the actions are arbitrary programs; they are instrumented with marker events
  (invariant begins / returned, action `i` begins / returned) and `T.Error/Errorf/Fail` leaves the
  marker `sig`.  The theorem: for every action set, invariant, bit source and `*T`, the markers of
  a run of `T.Repeat` are accepted by the automaton `step` below, which encodes
    * the invariant runs first, and after every action that returned (and only then);
    * only supplied actions run (index `< n`), one at a time;
    * after an action that did not return (skipped / invalid) comes the next attempt, not the invariant;
    * once a failure was signalled nothing new starts (`stopped`), and a run that returns normally
      ends between steps.
  The proof is a Hoare logic over the automaton (`Tr`), with one rule per construct of `Prog`.
-/
import RapidProofs.Signals
import RapidProofs.ContractsInt
import RapidProofs.PruneGen

namespace Rapid

inductive Mark where
  | chk | chkd | act (i : Nat) | done | sig
deriving DecidableEq, Repr

def mCHK : Nat := 900001
def mCHKD : Nat := 900002
def mDONE : Nat := 900003
def mACT (i : Nat) : Nat := 1000000 + i

def markOf : Ev → Option Mark
  | .user id =>
    if id = mCHK then some .chk else if id = mCHKD then some .chkd else if id = mDONE then some .done
    else if 1000000 ≤ id then some (.act (id - 1000000)) else none
  | .signal => some .sig
  | _ => none

def marks (evs : List Ev) : List Mark := evs.filterMap markOf

theorem marks_append (a b : List Ev) : marks (a ++ b) = marks a ++ marks b := List.filterMap_append

/-- the invariant / an action, instrumented -/
def markedCheck (c : Prog) : Prog := .emit mCHK (c >>- fun _ => .emit mCHKD (.ret .nil))
def markedAction (i : Nat) (a : Prog) : Prog := .emit (mACT i) (a >>- fun _ => .emit mDONE (.ret .nil))

/-- user code does not emit the reserved marker ids -/
def Unmarked (p : Prog) : Prop := ∀ src ts id, Ev.user id ∈ (p.run src ts).evs → id < 900000

/-! ### the automaton -/

inductive St where
  | start                  -- nothing has run
  | inChk (dead : Bool)    -- inside the invariant; `dead`: a failure was signalled
  | idle                   -- between steps, the invariant holds
  | inAct (dead : Bool)    -- inside an action, or after an action that did not return
  | afterDone              -- an action returned without a signalled failure: the invariant is due
  | stopped                -- a failure was signalled and the call it was signalled in has returned
deriving DecidableEq, Repr

def step (n : Nat) : St → Mark → Option St
  | .start, .chk => some (.inChk false)
  | .inChk _, .sig => some (.inChk true)
  | .inChk false, .chkd => some .idle
  | .inChk true, .chkd => some .stopped
  | .idle, .act i => if i < n then some (.inAct false) else none
  | .inAct _, .sig => some (.inAct true)
  | .inAct false, .done => some .afterDone
  | .inAct true, .done => some .stopped
  | .inAct false, .act i => if i < n then some (.inAct false) else none
  | .afterDone, .chk => some (.inChk false)
  | _, _ => none

def runA (n : Nat) : St → List Mark → Option St
  | s, [] => some s
  | s, m :: ms => (step n s m).bind fun s' => runA n s' ms

theorem runA_append (n : Nat) : ∀ (a b : List Mark) (s : St), runA n s (a ++ b) = (runA n s a).bind fun s' => runA n s' b
  | [], b, s => by simp [runA]
  | m :: a, b, s => by
    simp only [List.cons_append, runA]
    cases step n s m with
    | none => rfl
    | some s' => simp only [Option.bind_some]; exact runA_append n a b s'

/-- where a run that ends with an error (of any kind: failure, panic, invalid data) may stop:
    anywhere once the first invariant call has begun -/
def finalErr : St → Bool
  | .start => false
  | _ => true

/-- where a run that returns normally may stop: between steps -/
def finalOk : St → Bool
  | .idle => true
  | .inAct false => true
  | _ => false

def dead : St → Bool
  | .inChk d => d
  | .inAct d => d
  | .stopped => true
  | _ => false

/-- a signalled failure is pending on the `*T` -/
def Inv (s : St) (ts : TS) : Prop := dead s = true → ts.failed.isSome = true

/-! ### Hoare triples over the automaton -/

/-- from automaton state `st` (and a `*T` in which a failure is pending if `st` says so) the
    program's markers lead to a state `s'`: with `Q v s'` if it returns `v`, with `QI s'` if it
    ends with invalid data; if it ends with an error the run may stop there -/
def Tr (n : Nat) (st : St) (p : Prog) (Q : Val → St → Prop) (QI : St → Prop) : Prop :=
  ∀ src ts, Inv st ts →
    ∃ s', runA n st (marks (p.run src ts).evs) = some s' ∧ Inv s' (p.run src ts).ts ∧
      match (p.run src ts).res with
      | .ok v => Q v s'
      | .error e => finalErr s' = true ∧ (e.isInvalid = true → QI s')

theorem tr_weaken {n : Nat} {st : St} {p : Prog} {Q Q' : Val → St → Prop} {QI QI' : St → Prop}
    (h : Tr n st p Q QI) (hq : ∀ v s, Q v s → Q' v s) (hi : ∀ s, QI s → QI' s) : Tr n st p Q' QI' := by
  intro src ts hinv
  obtain ⟨s', hr, hinv', hm⟩ := h src ts hinv
  refine ⟨s', hr, hinv', ?_⟩
  cases hres : (p.run src ts).res with
  | ok v => rw [hres] at hm; exact hq v s' hm
  | error e => rw [hres] at hm; exact ⟨hm.1, fun he => hi s' (hm.2 he)⟩

theorem tr_ret {n : Nat} {st : St} {v : Val} {Q : Val → St → Prop} {QI : St → Prop} (h : Q v st) :
    Tr n st (.ret v) Q QI := by
  intro src ts hinv
  exact ⟨st, by simp [Prog.run, Out.ofRes, marks, runA], by simpa [Prog.run, Out.ofRes] using hinv,
    by simpa [Prog.run, Out.ofRes] using h⟩

theorem tr_throw {n : Nat} {st : St} (e : Err) {Q : Val → St → Prop} {QI : St → Prop} (hf : finalErr st = true)
    (hi : e.isInvalid = true → QI st) : Tr n st (.throw e) Q QI := by
  intro src ts hinv
  exact ⟨st, by simp [Prog.run, Out.ofRes, marks, runA], by simpa [Prog.run, Out.ofRes] using hinv,
    by simpa [Prog.run, Out.ofRes] using ⟨hf, hi⟩⟩

theorem tr_bind {n : Nat} {st : St} {p : Prog} {f : Val → Prog} {Q R : Val → St → Prop} {QI : St → Prop}
    (hp : Tr n st p Q QI) (hf : ∀ v s', Q v s' → Tr n s' (f v) R QI) : Tr n st (p >>- f) R QI := by
  intro src ts hinv
  obtain ⟨s1, hr1, hinv1, hm1⟩ := hp src ts hinv
  simp only [run_bind, Out.andThen]
  cases hres : (p.run src ts).res with
  | error e => rw [hres] at hm1; exact ⟨s1, hr1, hinv1, by rw [hres]; exact hm1⟩
  | ok v =>
    rw [hres] at hm1
    obtain ⟨s2, hr2, hinv2, hm2⟩ := hf v s1 hm1 (p.run src ts).src (p.run src ts).ts hinv1
    refine ⟨s2, ?_, by simpa using hinv2, by simpa using hm2⟩
    simp only [after_evs, marks_append, runA_append, hr1, Option.bind_some, hr2]

/-- an event that is not a marker -/
theorem tr_emit_none {n : Nat} {st : St} {id : Nat} {k : Prog} {Q : Val → St → Prop} {QI : St → Prop}
    (hid : markOf (.user id) = none) (hk : Tr n st k Q QI) : Tr n st (.emit id k) Q QI := by
  intro src ts hinv
  obtain ⟨s', hr, hinv', hm⟩ := hk src ts hinv
  refine ⟨s', ?_, by simpa [Prog.run] using hinv', by simpa [Prog.run] using hm⟩
  simp only [Prog.run, after_evs, marks, List.filterMap_append, List.filterMap_cons, hid, List.filterMap_nil, List.nil_append]
  exact hr

/-- a marker event: one step of the automaton -/
theorem tr_emit_mark {n : Nat} {st st' : St} {id : Nat} {m : Mark} {k : Prog} {Q : Val → St → Prop} {QI : St → Prop}
    (hid : markOf (.user id) = some m) (hstep : step n st m = some st') (hdead : dead st' = true → dead st = true)
    (hk : Tr n st' k Q QI) : Tr n st (.emit id k) Q QI := by
  intro src ts hinv
  have hinv0 : Inv st' ts := fun h => hinv (hdead h)
  obtain ⟨s', hr, hinv', hm⟩ := hk src ts hinv0
  refine ⟨s', ?_, by simpa [Prog.run] using hinv', by simpa [Prog.run] using hm⟩
  simp only [Prog.run, after_evs, marks, List.filterMap_append, List.filterMap_cons, hid, List.filterMap_nil, List.nil_append,
    List.singleton_append, runA, hstep, Option.bind_some]
  exact hr

/-- `t.failOnError()`: with a pending failure the run stops here -/
theorem tr_failOnError {n : Nat} {st : St} {site : Nat} {k : Prog} {Q : Val → St → Prop} {QI : St → Prop}
    (hf : finalErr st = true) (hk : dead st = false → Tr n st k Q QI) : Tr n st (.failOnError site k) Q QI := by
  intro src ts hinv
  simp only [Prog.run]
  cases hfl : ts.failed with
  | some m =>
    exact ⟨st, by simp [Out.ofRes, marks, runA], by simpa [Out.ofRes] using hinv, by simp [Out.ofRes, hf, Err.isInvalid]⟩
  | none =>
    have hd : dead st = false := by
      cases hdd : dead st with
      | false => rfl
      | true => have := hinv hdd; rw [hfl] at this; simp at this
    exact hk hd src ts hinv

theorem tr_tick {n : Nat} {st : St} {k : Prog} {Q : Val → St → Prop} {QI : St → Prop}
    (hk : Tr n st k Q QI) : Tr n st (.tick k) Q QI := by
  intro src ts hinv
  simp only [Prog.run]
  exact hk src { ts with draws := ts.draws + 1 } hinv

/-- the invariant `Inv` survives any program that leaves the automaton where it is: a pending
    failure stays pending -/
theorem inv_run {st : St} {ts : TS} (p : Prog) (src : Src) (h : Inv st ts) : Inv st (p.run src ts).ts :=
  fun hd => run_signal p src ts (Or.inl (h hd))

theorem used_ne_of_fk {b : Prog} (hfk : FirstKept b) {src : Src} {ts : TS} {v : Val} (h : (b.run src ts).res = .ok v) :
    (b.run src ts).used.isEmpty = false := by
  have hk := hfk src ts v h
  have hs := kept_sublist b src ts
  cases hu : (b.run src ts).used with
  | nil => rw [hu] at hs; exact absurd (List.eq_nil_of_sublist_nil hs) hk
  | cons x xs => rfl

/-- a group whose body always records something when it succeeds -/
theorem tr_group {n : Nat} {st : St} {l : String} {s : Bool} {b : Prog} {d : Val → Bool} {k : Val → Prog}
    {Q R : Val → St → Prop} {QI : St → Prop} (hfk : FirstKept b)
    (hb : Tr n st b Q QI) (hk : ∀ v s', Q v s' → Tr n s' (k v) R QI) : Tr n st (.group l s b d k) R QI := by
  intro src ts hinv
  obtain ⟨s1, hr1, hinv1, hm1⟩ := hb src ts hinv
  simp only [Prog.run]
  cases hres : (b.run src ts).res with
  | error e => rw [hres] at hm1; exact ⟨s1, hr1, hinv1, hm1⟩
  | ok v =>
    rw [hres] at hm1
    simp only [used_ne_of_fk hfk hres, Bool.and_false, Bool.false_eq_true, if_false]
    obtain ⟨s2, hr2, hinv2, hm2⟩ := hk v s1 hm1 (b.run src ts).src (b.run src ts).ts hinv1
    refine ⟨s2, ?_, by simpa using hinv2, by simpa using hm2⟩
    simp only [after_evs, marks_append, runA_append, hr1, Option.bind_some, hr2]

/-- `recover()` that swallows invalid data only -/
theorem tr_catchInv {n : Nat} {st : St} {b : Prog} {K : Option Val → Bool → Prog}
    {Q R : Val → St → Prop} {QI RI : St → Prop}
    (hb : Tr n st b Q QI) (hk : ∀ v s' dr, Q v s' → Tr n s' (K (some v) dr) R RI)
    (hki : ∀ s' dr, QI s' → Tr n s' (K none dr) R RI) : Tr n st (.catchInv b K) R RI := by
  intro src ts hinv
  obtain ⟨s1, hr1, hinv1, hm1⟩ := hb src ts hinv
  simp only [Prog.run]
  cases hres : (b.run src ts).res with
  | ok v =>
    rw [hres] at hm1
    obtain ⟨s2, hr2, hinv2, hm2⟩ := hk v s1 _ hm1 (b.run src ts).src (b.run src ts).ts hinv1
    refine ⟨s2, ?_, by simpa using hinv2, by simpa using hm2⟩
    simp only [after_evs, marks_append, runA_append, hr1, Option.bind_some, hr2]
  | error e =>
    rw [hres] at hm1
    cases e with
    | invalid m =>
      obtain ⟨s2, hr2, hinv2, hm2⟩ := hki s1 _ (hm1.2 rfl) (b.run src ts).src (b.run src ts).ts hinv1
      refine ⟨s2, ?_, by simpa using hinv2, by simpa using hm2⟩
      simp only [after_evs, marks_append, runA_append, hr1, Option.bind_some, hr2]
    | stop m s => exact ⟨s1, hr1, hinv1, by rw [hres]; exact ⟨hm1.1, fun h => by simp [Err.isInvalid] at h⟩⟩
    | panic m s => exact ⟨s1, hr1, hinv1, by rw [hres]; exact ⟨hm1.1, fun h => by simp [Err.isInvalid] at h⟩⟩
    | fuel => exact ⟨s1, hr1, hinv1, by rw [hres]; exact ⟨hm1.1, fun h => by simp [Err.isInvalid] at h⟩⟩

/-- a primitive of utils.go (no events): continue with what it hands on, or stop with invalid data -/
theorem tr_yields {n : Nat} {st : St} {α : Type} {p : (α → Prog) → Prog} {P : α → Prop} (hy : Yields p P)
    {k : α → Prog} {Q : Val → St → Prop} {QI : St → Prop} (hf : finalErr st = true) (hqi : QI st)
    (hk : ∀ a, P a → Tr n st (k a) Q QI) : Tr n st (p k) Q QI := by
  intro src ts hinv
  rcases hy k src ts with ⟨a, ha, src', u, kk, t, ov, _, hrun⟩ | ⟨e, he, _, hev⟩
  · obtain ⟨s', hr, hinv', hm⟩ := hk a ha src' ts hinv
    rw [hrun]
    exact ⟨s', by simpa using hr, by simpa using hinv', by simpa using hm⟩
  · refine ⟨st, by rw [hev]; rfl, inv_run _ _ hinv, ?_⟩
    rw [he]; exact ⟨hf, fun _ => hqi⟩

/-! ### user code between the markers -/

theorem markOf_sig {ev : Ev} (h : markOf ev = some .sig) : ev = .signal := by
  cases ev with
  | user id =>
    simp only [markOf] at h
    split at h
    · simp at h
    · split at h
      · simp at h
      · split at h
        · simp at h
        · split at h <;> simp at h
  | signal => rfl
  | _ => simp [markOf] at h

theorem marks_unmarked {p : Prog} (hu : Unmarked p) (src : Src) (ts : TS) : ∀ m ∈ marks (p.run src ts).evs, m = .sig := by
  intro m hm
  simp only [marks, List.mem_filterMap] at hm
  obtain ⟨ev, hev, hmk⟩ := hm
  cases ev with
  | user id =>
    have := hu src ts id hev
    have h1 : ¬ id = 900001 := by omega
    have h2 : ¬ id = 900002 := by omega
    have h3 : ¬ id = 900003 := by omega
    have h4 : ¬ 1000000 ≤ id := by omega
    simp [markOf, mCHK, mCHKD, mDONE, h1, h2, h3, h4] at hmk
  | signal => simp [markOf] at hmk; exact hmk.symm
  | _ => simp [markOf] at hmk

theorem signal_of_marks_ne {evs : List Ev} (hall : ∀ m ∈ marks evs, m = Mark.sig) (hne : marks evs ≠ []) : Ev.signal ∈ evs := by
  cases hm : marks evs with
  | nil => exact absurd hm hne
  | cons m ms =>
    have hmem : m ∈ marks evs := by rw [hm]; exact List.mem_cons_self
    have := hall m hmem
    subst this
    simp only [marks, List.mem_filterMap] at hmem
    obtain ⟨ev, hev, hmk⟩ := hmem
    rw [markOf_sig hmk] at hev; exact hev

theorem runA_sigs_chk (n : Nat) : ∀ (l : List Mark) (d : Bool), (∀ m ∈ l, m = Mark.sig) →
    runA n (.inChk d) l = some (.inChk (d || !l.isEmpty))
  | [], d, _ => by simp [runA]
  | m :: ms, d, h => by
    have hm : m = .sig := h m List.mem_cons_self
    subst hm
    simp only [runA, step, Option.bind_some]
    rw [runA_sigs_chk n ms true (fun x hx => h x (List.mem_cons_of_mem _ hx))]
    simp

theorem runA_sigs_act (n : Nat) : ∀ (l : List Mark) (d : Bool), (∀ m ∈ l, m = Mark.sig) →
    runA n (.inAct d) l = some (.inAct (d || !l.isEmpty))
  | [], d, _ => by simp [runA]
  | m :: ms, d, h => by
    have hm : m = .sig := h m List.mem_cons_self
    subst hm
    simp only [runA, step, Option.bind_some]
    rw [runA_sigs_act n ms true (fun x hx => h x (List.mem_cons_of_mem _ hx))]
    simp

/-- the body of the invariant: the automaton stays inside the invariant call -/
theorem tr_user_chk {n : Nat} {a : Prog} (hu : Unmarked a) (d : Bool) :
    Tr n (.inChk d) a (fun _ s' => ∃ d', s' = .inChk d') (fun s' => ∃ d', s' = .inChk d') := by
  intro src ts hinv
  have hall := marks_unmarked hu src ts
  refine ⟨.inChk (d || !(marks (a.run src ts).evs).isEmpty), runA_sigs_chk n _ d hall, ?_, ?_⟩
  · intro hd
    simp only [dead, Bool.or_eq_true, Bool.not_eq_true', List.isEmpty_eq_false_iff] at hd
    rcases hd with hd | hd
    · exact run_signal a src ts (Or.inl (hinv hd))
    · exact run_signal a src ts (Or.inr (signal_of_marks_ne hall hd))
  · cases (a.run src ts).res with
    | ok v => exact ⟨_, rfl⟩
    | error e => exact ⟨rfl, fun _ => ⟨_, rfl⟩⟩

/-- the body of an action -/
theorem tr_user_act {n : Nat} {a : Prog} (hu : Unmarked a) (d : Bool) :
    Tr n (.inAct d) a (fun _ s' => ∃ d', s' = .inAct d') (fun s' => ∃ d', s' = .inAct d') := by
  intro src ts hinv
  have hall := marks_unmarked hu src ts
  refine ⟨.inAct (d || !(marks (a.run src ts).evs).isEmpty), runA_sigs_act n _ d hall, ?_, ?_⟩
  · intro hd
    simp only [dead, Bool.or_eq_true, Bool.not_eq_true', List.isEmpty_eq_false_iff] at hd
    rcases hd with hd | hd
    · exact run_signal a src ts (Or.inl (hinv hd))
    · exact run_signal a src ts (Or.inr (signal_of_marks_ne hall hd))
  · cases (a.run src ts).res with
    | ok v => exact ⟨_, rfl⟩
    | error e => exact ⟨rfl, fun _ => ⟨_, rfl⟩⟩

/-! ### the calls of `T.Repeat` -/

theorem markOf_chk : markOf (.user mCHK) = some .chk := by decide
theorem markOf_chkd : markOf (.user mCHKD) = some .chkd := by decide
theorem markOf_done : markOf (.user mDONE) = some .done := by decide
theorem markOf_act (i : Nat) : markOf (.user (mACT i)) = some (.act i) := by
  have h1 : ¬ 1000000 + i = 900001 := by omega
  have h2 : ¬ 1000000 + i = 900002 := by omega
  have h3 : ¬ 1000000 + i = 900003 := by omega
  simp [markOf, mACT, mCHK, mCHKD, mDONE, h1, h2, h3]

/-- between steps: the invariant holds, or the last attempt did not return -/
def AtHead (s : St) : Prop := s = .idle ∨ s = .inAct false

theorem atHead_finalErr {s : St} (h : AtHead s) : finalErr s = true := by
  rcases h with h | h <;> subst h <;> rfl
theorem atHead_finalOk {s : St} (h : AtHead s) : finalOk s = true := by
  rcases h with h | h <;> subst h <;> rfl
theorem atHead_not_dead {s : St} (h : AtHead s) : dead s = false := by
  rcases h with h | h <;> subst h <;> rfl

def T1 : St → Prop := fun _ => True

/-- `sm.check(t); t.failOnError(); K` -/
theorem tr_checkCall {n : Nat} {st : St} {c : Prog} {site : Nat} {K : Prog} {Q : Val → St → Prop}
    (hst : step n st .chk = some (.inChk false)) (hc : Unmarked c) (hK : Tr n .idle K Q T1) :
    Tr n st (markedCheck c >>- fun _ => .failOnError site K) Q T1 := by
  have e1 : (markedCheck c >>- fun _ => .failOnError site K) =
      .emit mCHK ((c >>- fun _ => .emit mCHKD (.ret .nil)) >>- fun _ => .failOnError site K) := by
    simp [markedCheck, Prog.bind]
  rw [e1]
  refine tr_emit_mark markOf_chk hst (by simp [dead]) ?_
  refine tr_bind (Q := fun _ s' => s' = .idle ∨ s' = .stopped) ?_ ?_
  · refine tr_bind (tr_weaken (tr_user_chk hc false) (fun _ _ h => h) (fun _ _ => trivial)) ?_
    rintro _ s' ⟨d', rfl⟩
    cases d'
    · exact tr_emit_mark markOf_chkd rfl (by simp [dead]) (tr_ret (Or.inl rfl))
    · exact tr_emit_mark markOf_chkd rfl (by simp [dead]) (tr_ret (Or.inr rfl))
  · rintro _ s' (rfl | rfl)
    · exact tr_failOnError rfl (fun _ => hK)
    · exact tr_failOnError rfl (fun h => by simp [dead] at h)

/-- `runAction(t, action)` on the instrumented action `i` -/
theorem tr_actionCall {n i : Nat} {a : Prog} {K : Bool → Bool → Prog} {R : Val → St → Prop} {st : St}
    (hi : i < n) (hst : AtHead st) (ha : Unmarked a)
    (hK1 : Tr n .afterDone (K false false) R T1) (hK2 : ∀ dr, Tr n (.inAct false) (K true dr) R T1) :
    Tr n st (runActionP (markedAction i a) K) R T1 := by
  unfold runActionP
  refine tr_catchInv (Q := fun _ s' => s' = .afterDone) (QI := fun s' => ∃ d', s' = .inAct d') ?_ ?_ ?_
  · have e1 : (markedAction i a >>- fun _ => Prog.failOnError siteAfterAction (.ret .nil)) =
        .emit (mACT i) ((a >>- fun _ => .emit mDONE (.ret .nil)) >>- fun _ => .failOnError siteAfterAction (.ret .nil)) := by
      simp [markedAction, Prog.bind]
    rw [e1]
    have hstep : step n st (.act i) = some (.inAct false) := by
      rcases hst with h | h <;> subst h <;> simp [step, hi]
    refine tr_emit_mark (markOf_act i) hstep (by simp [dead]) ?_
    refine tr_bind (Q := fun _ s' => s' = .afterDone ∨ s' = .stopped) ?_ ?_
    · refine tr_bind (tr_user_act ha false) ?_
      rintro _ s' ⟨d', rfl⟩
      cases d'
      · exact tr_emit_mark markOf_done rfl (by simp [dead]) (tr_ret (Or.inl rfl))
      · exact tr_emit_mark markOf_done rfl (by simp [dead]) (tr_ret (Or.inr rfl))
    · rintro _ s' (rfl | rfl)
      · exact tr_failOnError rfl (fun _ => tr_ret rfl)
      · exact tr_failOnError rfl (fun h => by simp [dead] at h)
  · rintro v s' dr rfl
    exact hK1
  · rintro s' dr ⟨d', rfl⟩
    refine tr_failOnError rfl (fun h => ?_)
    have : d' = false := by simpa [dead] using h
    subst this
    exact hK2 _

/-- what one attempt leaves: the action returned (`afterDone`), or it did not (`inAct false`) -/
def QAttempt (v : Val) (s' : St) : Prop :=
  (v = .cons (.bool false) (.bool false) ∧ s' = .afterDone) ∨ (∃ sk, v = .cons (.bool true) (.bool sk) ∧ s' = .inAct false)

theorem tr_execAction {n : Nat} (e : Env) (acts : Nat → Prog) (k : Bool → Prog) {R : Val → St → Prop}
    (hn0 : 0 < n) (hn : n ≤ 2 ^ 64) (ha : ∀ i, Unmarked (acts i))
    (hk1 : Tr n .afterDone (k true) R T1) (hk2 : Tr n (.inAct false) (k false) R T1) :
    ∀ (tries : Nat) (st : St), AtHead st → Tr n st (execAction e n (fun i => markedAction i (acts i)) k tries) R T1 := by
  intro tries
  induction tries with
  | zero =>
    intro st hst
    exact tr_throw _ (atHead_finalErr hst) (fun h => by simp [Err.isInvalid] at h)
  | succ t ih =>
    intro st hst
    simp only [execAction]
    refine tr_group (Q := QAttempt) ?_ ?_ ?_
    · exact fk_bind_left _ _ (fk_group_keep _ _ _ _ (fk_index _ _ _ _ _))
    · simp only [Gen.draw, Gen.body]
      refine tr_bind (Q := fun v s' => s' = st ∧ ∃ i : Nat, i < n ∧ v = .int i) ?_ ?_
      · unfold wrapValue
        refine tr_group (Q := fun v s' => s' = st ∧ ∃ i : Nat, i < n ∧ v = .int i) (fk_index _ _ _ _ _) ?_ ?_
        · exact tr_yields (yields_index e.ft n true e.fuel hn0 hn) (atHead_finalErr hst) trivial
            (fun i hi => tr_ret ⟨rfl, i, hi, rfl⟩)
        · intro v s' hq; exact tr_ret hq
      · rintro v s' ⟨rfl, i, hi, rfl⟩
        refine tr_tick ?_
        simp only [Int.toNat_natCast]
        exact tr_actionCall hi hst (ha i) (tr_ret (Or.inl ⟨rfl, rfl⟩)) (fun dr => tr_ret (Or.inr ⟨_, rfl, rfl⟩))
    · rintro v s' (⟨rfl, rfl⟩ | ⟨sk, rfl, rfl⟩)
      · simpa using hk1
      · cases sk
        · simpa using hk2
        · simpa using ih _ (Or.inr rfl)

/-- `repeat.more`: a coin (possibly a forced one), no events -/
theorem yields_moreCoin (c : RCfg) (s : RSt) : Yields (moreCoin c s) (fun _ => True) := by
  unfold moreCoin
  split
  · exact (yields_coin _).mono fun _ _ => trivial
  · split
    · intro k src ts
      simp only [run_draw_group]
      cases h : src.next 0 with
      | none => right; exact ⟨_, rfl, Or.inl rfl, rfl⟩
      | some r =>
        obtain ⟨u, src'⟩ := r
        left
        exact ⟨false, trivial, src', _, _, _, _, by simp, rfl⟩
    · split
      · exact (yields_coin _).mono fun _ _ => trivial
      · exact (yields_coin _).mono fun _ _ => trivial

theorem fk_moreCoin (c : RCfg) (s : RSt) (k : Bool → Prog) : FirstKept (moreCoin c s k) := by
  unfold moreCoin
  split
  · exact fk_coin _ _
  · split
    · exact fk_group_keep _ _ _ _ (fk_draw _ _)
    · split <;> exact fk_coin _ _

/-- what one iteration of the loop of `T.Repeat` leaves -/
def QStep (v : Val) (s' : St) : Prop := (v = rAcc .nil ∧ s' = .idle) ∨ (v = rRej ∧ s' = .inAct false)

theorem tr_repeatLoop {n : Nat} (c : RCfg) (stepF : Val → Prog)
    (hstep : ∀ acc st, AtHead st → Tr n st (stepF acc) QStep T1) :
    ∀ (fuel : Nat) (s : RSt) (acc : Val) (st : St), AtHead st →
      Tr n st (repeatLoop c stepF (fun _ => .ret .nil) fuel s acc) (fun _ s' => AtHead s') T1 := by
  intro fuel
  induction fuel with
  | zero =>
    intro s acc st hst
    exact tr_throw _ (atHead_finalErr hst) (fun h => by simp [Err.isInvalid] at h)
  | succ f ih =>
    intro s acc st hst
    simp only [repeatLoop]
    refine tr_group (Q := fun v s' => (v = rStop ∧ AtHead s') ∨ QStep v s') (fk_moreCoin _ _ _) ?_ ?_
    · refine tr_yields (yields_moreCoin c s) (atHead_finalErr hst) trivial (fun cont _ => ?_)
      cases cont
      · simpa using tr_ret (Or.inl ⟨rfl, hst⟩)
      · simp only [if_true]
        refine tr_bind (hstep acc st hst) ?_
        rintro v s' (⟨rfl, rfl⟩ | ⟨rfl, rfl⟩)
        · have : (rAcc Val.nil == rRej) = false := by decide
          simp only [this, Bool.false_and, Bool.false_eq_true, if_false]
          exact tr_ret (Or.inr (Or.inl ⟨rfl, rfl⟩))
        · split
          · exact tr_throw _ rfl (fun _ => trivial)
          · exact tr_ret (Or.inr (Or.inr ⟨rfl, rfl⟩))
    · rintro v s' (⟨rfl, hs'⟩ | ⟨rfl, rfl⟩ | ⟨rfl, rfl⟩)
      · simpa [rStop] using tr_ret hs'
      · simpa [rAcc] using ih _ _ _ (Or.inl rfl)
      · simpa [rRej] using ih _ _ _ (Or.inr rfl)

/-- **the discipline of `T.Repeat`** as a Hoare triple: from `start` to a state between steps -/
theorem tr_smRepeat {n : Nat} (e : Env) (acts : Nat → Prog) (check : Prog) (hn0 : n ≠ 0) (hn : n ≤ 2 ^ 64)
    (ha : ∀ i, Unmarked (acts i)) (hc : Unmarked check) :
    Tr n .start (smRepeat e n (fun i => markedAction i (acts i)) (markedCheck check)) (fun _ s' => AtHead s') T1 := by
  simp only [smRepeat, hn0, if_false]
  refine tr_checkCall rfl hc ?_
  refine tr_repeatLoop _ _ ?_ _ _ _ _ (Or.inl rfl)
  intro acc st hst
  refine tr_execAction e acts _ (by omega) hn ha ?_ ?_ _ st hst
  · simp only [if_true]
    exact tr_checkCall rfl hc (tr_ret (Or.inl ⟨rfl, rfl⟩))
  · simpa using tr_ret (Or.inr ⟨rfl, rfl⟩)

end Rapid
