/-
  RapidProofs.Contracts — what the integer primitives of utils.go hand to their continuation,
  for EVERY bit source and every parameter: a value inside the requested range, or no value
  at all (invalid data / out of fuel) — never an out-of-range value, never an assertion.
-/
import RapidProofs.Replay

namespace Rapid

/-- `p k` either continues as `k a` for some `a` satisfying `P` (after recording some words,
    with the same `*T`), or ends with `invalid data` / out-of-fuel without calling `k` -/
def Yields {α : Type} (p : (α → Prog) → Prog) (P : α → Prop) : Prop :=
  ∀ (k : α → Prog) (src : Src) (ts : TS),
    (∃ a, P a ∧ ∃ src' used kept toks ov, used ≠ [] ∧
        (p k).run src ts = ((k a).run src' ts).after used kept toks [] ov) ∨
    (∃ e, ((p k).run src ts).res = .error e ∧ (e.isInvalid = true ∨ e = .fuel) ∧ ((p k).run src ts).evs = [])

theorem after_after (o : Out) (u1 k1 u2 k2 : List UInt64) (t1 t2 : List Tok) (e1 e2 : List Ev) (ov1 ov2 : Bool) :
    (o.after u1 k1 t1 e1 ov1).after u2 k2 t2 e2 ov2 = o.after (u2 ++ u1) (k2 ++ k1) (t2 ++ t1) (e2 ++ e1) (ov2 || ov1) := by
  simp [Out.after, List.append_assoc, Bool.or_assoc]

theorem after_after0 (o : Out) (u1 k1 u2 k2 : List UInt64) (t1 t2 : List Tok) (ov1 ov2 : Bool) :
    (o.after u1 k1 t1 [] ov1).after u2 k2 t2 [] ov2 = o.after (u2 ++ u1) (k2 ++ k1) (t2 ++ t1) [] (ov2 || ov1) := by
  rw [after_after]; rfl

theorem vu_uv (u : UInt64) : vu (uv u) = u := by
  simp [vu, uv]

/-- a group around a single draw whose value is passed on -/
theorem run_draw_group (l : String) (s : Bool) (n : Nat) (f : UInt64 → Val) (d : Val → Bool) (k : Val → Prog)
    (src : Src) (ts : TS) :
    (Prog.group l s (.draw n fun u => .ret (f u)) d k).run src ts =
      match src.next n with
      | none => { Out.ofRes (.error (.invalid "overrun")) src ts with overran := true, toks := [.opn l s, .abort] }
      | some (u, src') =>
        ((k (f u)).run src' ts).after [u] (if d (f u) then [] else [u]) [.opn l s, .w u, .cls (d (f u))] [] false := by
  simp only [Prog.run]
  cases h : src.next n with
  | none => simp [Out.ofRes]
  | some r =>
    obtain ⟨u, src'⟩ := r
    simp [Out.ofRes, Out.after]

/-- weaken the postcondition -/
theorem Yields.mono {α : Type} {p : (α → Prog) → Prog} {P Q : α → Prop} (h : Yields p P) (hpq : ∀ a, P a → Q a) :
    Yields p Q := by
  intro k src ts
  rcases h k src ts with ⟨a, ha, rest⟩ | h
  · exact Or.inl ⟨a, hpq a ha, rest⟩
  · exact Or.inr h

/-- change the type of what is handed on -/
theorem Yields.map {α β : Type} {p : (α → Prog) → Prog} {P : α → Prop} (h : Yields p P) (f : α → β) :
    Yields (fun k => p (fun a => k (f a))) (fun b => ∃ a, P a ∧ b = f a) := by
  intro k src ts
  rcases h (fun a => k (f a)) src ts with ⟨a, ha, rest⟩ | h
  · exact Or.inl ⟨f a, ⟨a, ha, rfl⟩, rest⟩
  · exact Or.inr h

/-- sequential composition of two primitives in continuation-passing style -/
theorem Yields.bind {α β : Type} {p : (α → Prog) → Prog} {P : α → Prop} {q : α → (β → Prog) → Prog} {Q : β → Prop}
    (hp : Yields p P) (hq : ∀ a, P a → Yields (q a) Q) : Yields (fun k => p (fun a => q a k)) Q := by
  intro k src ts
  rcases hp (fun a => q a k) src ts with ⟨a, ha, src1, u1, k1, t1, ov1, hne, hrun⟩ | h
  · rcases hq a ha k src1 ts with ⟨b, hb, src2, u2, k2, t2, ov2, _, hrun2⟩ | ⟨e, he, hk, hev⟩
    · left
      refine ⟨b, hb, src2, u1 ++ u2, k1 ++ k2, t1 ++ t2, ov1 || ov2, by simp [hne], ?_⟩
      have h1 := hrun
      rw [h1, hrun2, after_after0]
    · right
      have h1 := hrun
      exact ⟨e, by rw [h1]; simpa [Out.after] using he, hk, by rw [h1]; simpa [Out.after] using hev⟩
  · exact Or.inr h

/-- a group (never discarded) around a primitive whose result is handed on as a `Val` -/
theorem Yields.group {α : Type} {p : (α → Prog) → Prog} {P : α → Prop} (h : Yields p P) (l : String) (s : Bool)
    (enc : α → Val) :
    Yields (fun k => Prog.group l s (p fun a => .ret (enc a)) (fun _ => false) (fun v => k v))
      (fun v => ∃ a, P a ∧ v = enc a) := by
  intro k src ts
  rcases h (fun a => .ret (enc a)) src ts with ⟨a, ha, src1, u1, k1, t1, ov1, hne, hrun⟩ | ⟨e, he, hk, hev⟩
  · left
    have h1 := hrun
    refine ⟨enc a, ⟨a, ha, rfl⟩, src1, u1, k1, .opn l s :: t1 ++ [.cls false], ov1, hne, ?_⟩
    simp only [Prog.run, h1]
    cases u1 with
    | nil => exact absurd rfl hne
    | cons x xs => simp [Out.after, Out.ofRes]
  · right
    have he' := he
    have hev' := hev
    refine ⟨e, ?_, hk, ?_⟩
    · simp only [Prog.run]
      split
      · rename_i e' he2; rw [he'] at he2; cases he2; exact he'
      · rename_i v hv; rw [he'] at hv; cases hv
    · simp only [Prog.run]
      split
      · exact hev'
      · rename_i v hv; rw [he'] at hv; cases hv

theorem yields_uintNoReject (max : UInt64) : Yields (uintNoReject max) (fun u => u ≤ max) := by
  intro k src ts
  simp only [uintNoReject, run_draw_group]
  cases h : src.next (len64 max) with
  | none => right; exact ⟨_, rfl, Or.inl rfl, rfl⟩
  | some r =>
    obtain ⟨u, src'⟩ := r
    left
    refine ⟨if vu (uv u) > max then max else vu (uv u), ?_, src', _, _, _, _, by simp, rfl⟩
    split
    · exact UInt64.le_refl _
    · rename_i hgt
      have : ¬ max < vu (uv u) := hgt
      rw [UInt64.lt_iff_toNat_lt] at this; rw [UInt64.le_iff_toNat_le]; omega

theorem yields_uintUnbiased (max : UInt64) : ∀ fuel, Yields (fun k => uintUnbiased max k fuel) (fun u => u ≤ max) := by
  intro fuel
  induction fuel with
  | zero => intro k src ts; right; exact ⟨.fuel, by simp [uintUnbiased, Prog.run, Out.ofRes], Or.inr rfl, by simp [uintUnbiased, Prog.run, Out.ofRes]⟩
  | succ n ih =>
    intro k src ts
    simp only [uintUnbiased, run_draw_group]
    cases h : src.next (len64 max) with
    | none => right; exact ⟨_, rfl, Or.inl rfl, rfl⟩
    | some r =>
      obtain ⟨u, src'⟩ := r
      simp only [vu_uv]
      by_cases hle : u ≤ max
      · left
        simp only [hle, if_true]
        exact ⟨u, hle, src', _, _, _, _, by simp, rfl⟩
      · simp only [hle, if_false]
        rcases ih k src' ts with ⟨a, ha, s2, u2, k2, t2, o2, hne2, heq⟩ | ⟨e, he, hk, hev⟩
        · left
          refine ⟨a, ha, s2, _, _, _, _, ?_, by rw [heq]; exact after_after0 _ _ _ _ _ _ _ _ _⟩ <;> simp
        · right
          exact ⟨e, by simpa using he, hk, by simpa using hev⟩

/-- what `genUintNBiased` promises about its two flags: "left overflow" only with the value 0,
    "right overflow" only with the value `max` -/
def FlagsOK (lo hi : UInt64) (x : UInt64 × Bool × Bool) : Prop :=
  (x.2.1 = true → x.1 = lo) ∧ (x.2.2 = true → x.1 = hi)

theorem yields_uintBiasedLoop (max : UInt64) (n bitlen : Nat) : ∀ fuel,
    Yields (fun (k : UInt64 × Bool × Bool → Prog) => uintBiasedLoop max n bitlen (fun u l r => k (u, l, r)) fuel)
      (fun x => x.1 ≤ max ∧ FlagsOK 0 max x) := by
  intro fuel
  induction fuel with
  | zero => intro k src ts; right; exact ⟨.fuel, by simp [uintBiasedLoop, Prog.run, Out.ofRes], Or.inr rfl, by simp [uintBiasedLoop, Prog.run, Out.ofRes]⟩
  | succ m ih =>
    intro k src ts
    simp only [uintBiasedLoop, run_draw_group]
    cases h : src.next bitlen with
    | none => right; exact ⟨_, rfl, Or.inl rfl, rfl⟩
    | some r =>
      obtain ⟨u, src'⟩ := r
      simp only [vu_uv]
      by_cases hb : bitlen > 64
      · left
        simp only [hb, if_true, UInt64.le_refl]
        refine ⟨(max, _, _), ⟨UInt64.le_refl _, ?_, ?_⟩, src', _, _, _, _, by simp, rfl⟩
        · intro hl; simp only [Bool.and_eq_true, beq_iff_eq] at hl; exact hl.1
        · intro _; rfl
      · simp only [hb, if_false]
        by_cases hle : u ≤ max
        · left
          simp only [hle, if_true]
          refine ⟨(u, _, _), ⟨hle, ?_, ?_⟩, src', _, _, _, _, by simp, rfl⟩
          · intro hl; simp only [Bool.and_eq_true, beq_iff_eq] at hl; exact hl.1
          · intro hr; simp only [Bool.and_eq_true, beq_iff_eq] at hr; exact hr.1
        · simp only [hle, if_false]
          rcases ih k src' ts with ⟨a, ha, s2, u2, k2, t2, o2, hne2, heq⟩ | ⟨e, he, hk, hev⟩
          · left
            refine ⟨a, ha, s2, _, _, _, _, ?_, by rw [heq]; exact after_after0 _ _ _ _ _ _ _ _ _⟩ <;> simp
          · right
            exact ⟨e, by simpa using he, hk, by simpa using hev⟩

theorem yields_uintBiased (ft : FT) (max : UInt64) (fuel : Nat) :
    Yields (fun (k : UInt64 × Bool × Bool → Prog) => uintBiased ft max fuel (fun u l r => k (u, l, r)))
      (fun x => x.1 ≤ max ∧ FlagsOK 0 max x) := by
  intro k src ts
  simp only [uintBiased, run_draw_group]
  cases h : src.next 53 with
  | none => right; exact ⟨_, rfl, Or.inl rfl, rfl⟩
  | some r =>
    obtain ⟨w, src'⟩ := r
    simp only [Bool.false_eq_true, if_false]
    rcases yields_uintBiasedLoop max _ _ fuel k src' ts with ⟨a, ha, s2, u2, k2, t2, o2, hne2, heq⟩ | ⟨e, he, hk, hev⟩
    · left
      refine ⟨a, ha, s2, _, _, _, _, ?_, by rw [heq]; exact after_after0 _ _ _ _ _ _ _ _ _⟩ <;> simp
    · right
      exact ⟨e, by simpa using he, hk, by simpa using hev⟩

/-- `genUintN`, biased or not: the value is `≤ max`, the flags only at the ends -/
theorem yields_uintN_flags (ft : FT) (max : UInt64) (bias : Bool) (fuel : Nat) :
    Yields (fun (k : UInt64 × Bool × Bool → Prog) => uintN ft max bias fuel (fun u l r => k (u, l, r)))
      (fun x => x.1 ≤ max ∧ FlagsOK 0 max x) := by
  intro k src ts
  cases bias with
  | true => simpa [uintN] using yields_uintBiased ft max fuel k src ts
  | false =>
    simp only [uintN, Bool.false_eq_true, if_false]
    rcases yields_uintUnbiased max fuel (fun u => k (u, false, false)) src ts with ⟨a, ha, rest⟩ | h
    · left; exact ⟨(a, false, false), ⟨ha, by simp [FlagsOK]⟩, rest⟩
    · right; exact h

theorem yields_uintN (ft : FT) (max : UInt64) (bias : Bool) (fuel : Nat) :
    Yields (fun (k : UInt64 × Bool × Bool → Prog) => uintN ft max bias fuel (fun u l r => k (u, l, r)))
      (fun x => x.1 ≤ max) := (yields_uintN_flags ft max bias fuel).mono fun _ h => h.1

/-- `genUintRange`: for `min ≤ max` the value is in `[min, max]`, for every bitstream; a raised
    flag means the value is that end of the range -/
theorem yields_uintRange_flags (ft : FT) (min max : UInt64) (bias : Bool) (fuel : Nat) (hmm : min ≤ max) :
    Yields (fun (k : UInt64 × Bool × Bool → Prog) => uintRange ft min max bias fuel (fun u l r => k (u, l, r)))
      (fun x => (min ≤ x.1 ∧ x.1 ≤ max) ∧ FlagsOK min max x) := by
  intro k src ts
  have hng : ¬ min > max := by rw [gt_iff_lt, UInt64.lt_iff_toNat_lt]; rw [UInt64.le_iff_toNat_le] at hmm; omega
  simp only [uintRange, hng, if_false]
  rcases yields_uintN_flags ft (max - min) bias fuel (fun x => k (min + x.1, x.2.1, x.2.2)) src ts with ⟨a, ⟨ha, hfl, hfr⟩, rest⟩ | h
  · left
    refine ⟨(min + a.1, a.2.1, a.2.2), ⟨?_, ?_, ?_⟩, rest⟩
    · have h1 : (max - min).toNat = max.toNat - min.toNat := UInt64.toNat_sub_of_le _ _ hmm
      have h2 : a.1.toNat ≤ max.toNat - min.toNat := by rw [← h1]; exact UInt64.le_iff_toNat_le.mp ha
      have hmm' := UInt64.le_iff_toNat_le.mp hmm
      have hlt : max.toNat < 2 ^ 64 := max.toNat_lt
      have h3 : (min + a.1).toNat = min.toNat + a.1.toNat := by
        rw [UInt64.toNat_add]; apply Nat.mod_eq_of_lt; omega
      constructor
      · rw [UInt64.le_iff_toNat_le, h3]; omega
      · rw [UInt64.le_iff_toNat_le, h3]; omega
    · intro hl; have := hfl hl; dsimp only at this ⊢; rw [this]; simp
    · intro hr; have := hfr hr; dsimp only at this ⊢; rw [this]
      apply UInt64.eq_of_toBitVec_eq; simp only [UInt64.toBitVec_add, UInt64.toBitVec_sub]; bv_omega
  · right; exact h

theorem yields_uintRange (ft : FT) (min max : UInt64) (bias : Bool) (fuel : Nat) (hmm : min ≤ max) :
    Yields (fun (k : UInt64 × Bool × Bool → Prog) => uintRange ft min max bias fuel (fun u l r => k (u, l, r)))
      (fun x => min ≤ x.1 ∧ x.1 ≤ max) := (yields_uintRange_flags ft min max bias fuel hmm).mono fun _ h => h.1

/-- `genUintRange` for arbitrary bounds: it continues with some value, or ends with an error -/
theorem yields_uintRange_any (ft : FT) (min max : UInt64) (bias : Bool) (fuel : Nat)
    (k : UInt64 × Bool × Bool → Prog) (src : Src) (ts : TS) :
    (∃ a src' used kept toks ov,
      (uintRange ft min max bias fuel (fun u l r => k (u, l, r))).run src ts = ((k a).run src' ts).after used kept toks [] ov) ∨
    (∃ e, ((uintRange ft min max bias fuel (fun u l r => k (u, l, r))).run src ts).res = .error e) := by
  by_cases hmm : min ≤ max
  · rcases yields_uintRange ft min max bias fuel hmm k src ts with ⟨a, _, s', u', k', t', o', _, hr⟩ | ⟨e, he, _, _⟩
    · exact Or.inl ⟨a, s', u', k', t', o', hr⟩
    · exact Or.inr ⟨e, he⟩
  · right
    have hgt : min > max := by rw [gt_iff_lt, UInt64.lt_iff_toNat_lt]; rw [UInt64.le_iff_toNat_le] at hmm; omega
    exact ⟨.panic "invalid range" siteAssert, by simp [uintRange, hgt, Prog.run, Out.ofRes]⟩

/-- `genIndex`: for `n > 0` the index is `< n` -/
theorem yields_index (ft : FT) (n : Nat) (bias : Bool) (fuel : Nat) (hn : 0 < n) (hsmall : n ≤ 2 ^ 64) :
    Yields (index ft n bias fuel) (fun i => i < n) := by
  intro k src ts
  have : ¬ n = 0 := by omega
  simp only [index, this, if_false]
  rcases yields_uintN ft (UInt64.ofNat (n - 1)) bias fuel (fun x => k x.1.toNat) src ts with ⟨a, ha, rest⟩ | h
  · left
    refine ⟨a.1.toNat, ?_, rest⟩
    have := UInt64.le_iff_toNat_le.mp ha
    rw [UInt64.toNat_ofNat_of_lt' (by simp [UInt64.size]; omega)] at this
    omega
  · right; exact h

end Rapid
