/-
  RapidProofs.TranslatedFindEq — combinators.go as translated from /repo on every run: `find` (the retry loop of Filter
  and Custom), `filteredGen.maybeValue`, `filteredGen.value`, `customGen.value`, `mappedGen.value` — generic functions and
  methods, their sub-generators (function parameters, `*Generator` fields, method values) in continuation-passing
  style — against the model (`findLoop`, the `.filter`, `.custom` and `.map` cases of `Gen.body`).
-/
import RapidModel.Generated.Translated
import RapidModel.Gen
import RapidProofs.Bind
import RapidProofs.TranslatedProgEq
namespace Rapid
open Rapid.Go

/-- values of the model as Go values of a type parameter -/
instance : Go.Enc Val := ⟨id, id⟩

/-- **`find` of /repo is the model's `findLoop`** — as programs, not only as runs: five tries, each in a group `try` that
    is discarded when the attempt did not give a value; the failure after the last try -/
theorem tr_find {V : Type} [Go.Enc V] [Inhabited V] (fe : Go.FEval) (gen : (V → Bool → Prog) → Prog) (k : V → Prog) (fuel : Nat) :
    Translated.find fe gen 5 (fuel + 6) k =
      findLoop (gen fun v ok => .ret (Go.Enc.enc (v, ok))) (fun val => (Go.Enc.dec val : V × Bool).2)
        (fun val => k (Go.Enc.dec val : V × Bool).1) 5 := by
  have c0 : decide ((0 : Int64) < 5) = true := by decide
  have c1 : decide ((0 : Int64) + 1 < 5) = true := by decide
  have c2 : decide ((0 : Int64) + 1 + 1 < 5) = true := by decide
  have c3 : decide ((0 : Int64) + 1 + 1 + 1 < 5) = true := by decide
  have c4 : decide ((0 : Int64) + 1 + 1 + 1 + 1 < 5) = true := by decide
  have c5 : decide ((0 : Int64) + 1 + 1 + 1 + 1 + 1 < 5) = false := by decide
  simp only [Translated.find, Translated.find_loop1, findLoop, c0, c1, c2, c3, c4, c5, if_true, Bool.false_eq_true, if_false]
  rfl

/-- a group whose body ends by re-encoding its value: only the discard flag and the continuation see the encoding -/
theorem group_congr_map (l : String) (s : Bool) (W : Prog) (fT fM : Val → Val) (dT dM : Val → Bool) (kT kM : Val → Prog)
    (hd : ∀ v, dT (fT v) = dM (fM v)) (hk : ∀ v, RunEq (kT (fT v)) (kM (fM v))) :
    RunEq (.group l s (W >>- fun v => .ret (fT v)) dT kT) (.group l s (W >>- fun v => .ret (fM v)) dM kM) := by
  intro src ts
  simp only [Prog.run, run_bind]
  cases hres : (W.run src ts).res with
  | error e => simp [Out.andThen, hres]
  | ok v =>
    simp only [Out.andThen, hres, Prog.run, Out.ofRes, after_res, after_used, after_srcproj, after_ts, after_kept, after_toks, after_evs,
      after_overran, List.append_nil, hd v, hk v _ _]

theorem findLoop_congr_map (W : Prog) (fT fM : Val → Val) (okT okM : Val → Bool) (kT kM : Val → Prog)
    (hok : ∀ v, okT (fT v) = okM (fM v)) (hk : ∀ v, okT (fT v) = true → RunEq (kT (fT v)) (kM (fM v))) : ∀ n,
    RunEq (findLoop (W >>- fun v => .ret (fT v)) okT kT n) (findLoop (W >>- fun v => .ret (fM v)) okM kM n) := by
  intro n
  induction n with
  | zero => exact RunEq.refl _
  | succ n ih =>
    simp only [findLoop]
    apply group_congr_map
    · intro v; rw [hok v]
    · intro v
      rw [← hok v]
      by_cases h : okT (fT v) = true
      · simp only [h, if_true]; exact hk v h
      · simp only [h, if_false]; exact ih

theorem ret_ite (c : Bool) (a b : Val) : (if c then Prog.ret a else Prog.ret b) = Prog.ret (if c then a else b) := by
  cases c <;> rfl

/-- **`Filter` of /repo** (`filteredGen.value` = `find(g.maybeValue, t, small)` with `maybeValue` drawing from the inner
    generator and asking the predicate; all three translated) **is the model's**: up to five tries, each a group `try`
    that is discarded when the predicate says no, then "failed to find suitable value in 5 tries" -/
theorem tr_filter (fe : Go.FEval) (W : Prog) (p : Val → Bool) (fuel : Nat) (kM : Val → Prog) (hkM : ∀ v t, kM (.cons v t) = .ret v) :
    RunEq (Translated.filteredGen_value fe (fun k' => W >>- k') p (fuel + 6) fun v => .ret v)
      (findLoop (W >>- fun v => .ret (if p v then .cons v .nil else .nil)) (fun r => r != .nil) kM 5) := by
  have hbody : Translated.filteredGen_maybeValue fe (fun k' => W >>- k') p (fuel + 6) (fun v ok => Prog.ret (Go.Enc.enc (v, ok))) =
      (W >>- fun v => .ret (if p v then (Go.Enc.enc (v, true) : Val) else Go.Enc.enc ((default : Val), false))) := by
    simp only [Translated.filteredGen_maybeValue]
    congr 1
    funext v
    cases p v <;> rfl
  simp only [Translated.filteredGen_value, tr_find, hbody]
  apply findLoop_congr_map W (fun v => if p v then (Go.Enc.enc (v, true) : Val) else Go.Enc.enc ((default : Val), false))
    (fun v => if p v then .cons v .nil else .nil)
  · intro v; cases p v <;> rfl
  · intro v hv
    cases hp : p v with
    | true => simp only [if_true, hkM]; exact RunEq.refl _
    | false => simp [hp] at hv

theorem bind_ret_runEq (p : Prog) : RunEq (p >>- fun v => .ret v) p := by
  intro src ts
  rw [run_bind]
  simp only [Out.andThen]
  cases hp : p.run src ts with
  | mk res src' ts' used kept toks evs ov =>
    cases res with
    | error e => rfl
    | ok v => simp [Prog.run, Out.ofRes, Out.after]

theorem group_body_congr (l : String) (s : Bool) (b1 b2 : Prog) (d : Val → Bool) (k1 k2 : Val → Prog) (hb : RunEq b1 b2)
    (hk : ∀ v, RunEq (k1 v) (k2 v)) : RunEq (.group l s b1 d k1) (.group l s b2 d k2) := by
  intro src ts
  simp only [Prog.run, hb src ts]
  cases (b2.run src ts).res with
  | error e => rfl
  | ok v => simp only [hk v _ _]

theorem findLoop_body_congr (b1 b2 : Prog) (ok : Val → Bool) (k : Val → Prog) (hb : RunEq b1 b2) : ∀ n,
    RunEq (findLoop b1 ok k n) (findLoop b2 ok k n) := by
  intro n
  induction n with
  | zero => exact RunEq.refl _
  | succ n ih =>
    simp only [findLoop]
    apply group_body_congr _ _ _ _ _ _ _ hb
    intro v
    by_cases h : ok v = true
    · simp only [h, if_true]; exact RunEq.refl _
    · simp only [h]; exact ih

/-- `Custom`: `customGen.value` is `find` over `maybeValue` (whatever `maybeValue` does — it is not translated: it creates a
    `T`, defers, recovers): with the model's `maybeValue` in its place the translated function is the model's `.custom` -/
theorem tr_custom (fe : Go.FEval) (M : Prog) (fuel : Nat) (kM : Val → Prog) (hkM : ∀ v t, kM (.cons v t) = .ret v)
    (hkM' : ∀ r, (∀ v t, r ≠ .cons v t) → kM r = .ret .nil) :
    RunEq (Translated.customGen_value fe
        (fun k' => M >>- fun r => if r != .nil then k' (match r with | .cons v _ => v | _ => .nil) true else k' (default : Val) false)
        (fuel + 6) fun v => .ret v)
      (findLoop M (fun r => r != .nil) kM 5) := by
  have hbody : (M >>- fun r => if r != .nil then Prog.ret (Go.Enc.enc ((match r with | .cons v _ => v | _ => Val.nil), true) : Val)
        else Prog.ret (Go.Enc.enc ((default : Val), false))) =
      (M >>- fun r => .ret (if r != .nil then (Go.Enc.enc ((match r with | .cons v _ => v | _ => Val.nil), true) : Val)
        else Go.Enc.enc ((default : Val), false))) := by
    congr 1
    funext r
    cases (r != .nil) <;> rfl
  simp only [Translated.customGen_value, tr_find]
  rw [hbody]
  refine RunEq.trans (findLoop_congr_map M
    (fun r => if r != .nil then (Go.Enc.enc ((match r with | .cons v _ => v | _ => Val.nil), true) : Val) else Go.Enc.enc ((default : Val), false))
    (fun r => r) _ (fun r => r != .nil) _ kM ?_ ?_ 5) ?_
  · intro r; cases h : (r != .nil) <;> simp [h] <;> rfl
  · intro r hr
    cases r with
    | cons v t => simp only [hkM]; exact RunEq.refl _
    | int i => rw [hkM' _ (by intro v t h; cases h)]; exact RunEq.refl _
    | bool b => rw [hkM' _ (by intro v t h; cases h)]; exact RunEq.refl _
    | nil => exact absurd hr (by decide)
  · exact findLoop_body_congr _ _ _ _ (bind_ret_runEq M) 5

/-- `Map`: draw from the inner generator, apply the function — as programs -/
theorem tr_map (fe : Go.FEval) (W : Prog) (f : Val → Val) (fuel : Nat) :
    Translated.mappedGen_value fe (fun k' => W >>- k') f fuel (fun v => .ret v) = (W >>- fun v => .ret (f v)) := rfl

/-- **`Generator.value` of /repo is the model's `wrapValue`**: the draw of every generator sits in a standalone group
    labelled with the generator's `String()` (or "" as long as nobody asked for it), never discarded -/
theorem tr_generator_value (fe : FEval) (W : Prog) (str : Option String) (fuel : Nat) (k : Val → Prog) :
    RunEq (Translated.Generator_value fe (fun k' => W >>- k') str fuel k) ((wrapValue (str.getD "") W) >>- k) := by
  simp only [Translated.Generator_value, wrapValue, Prog.bind]
  cases str <;>
  exact group_body_congr _ _ _ _ _ _ _ (bind_ret_runEq W) (fun v => RunEq.refl _)


end Rapid
