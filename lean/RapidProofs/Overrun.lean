/-
  RapidProofs.Overrun — once a buffer has been overrun it is empty, and a run on an empty
  buffer records nothing.
-/
import RapidProofs.RecBound

namespace Rapid

theorem ptw_nil_right {a : List UInt64} (h : Ptw a []) : a = [] := by
  cases h; rfl

/-- a run on the empty buffer records nothing and leaves the empty buffer -/
theorem run_empty (p : Prog) (ts : TS) :
    (p.run (.buf []) ts).used = [] ∧ (p.run (.buf []) ts).kept = [] ∧ (p.run (.buf []) ts).src = .buf [] := by
  obtain ⟨⟨c, r, hw, hs, hf⟩, hsub⟩ := recBound p [] ts
  have hc : c = [] ∧ r = [] := by
    cases c with
    | nil => exact ⟨rfl, by simpa using hw.symm⟩
    | cons x xs => simp at hw
  obtain ⟨rfl, rfl⟩ := hc
  have hu := ptw_nil_right hf
  refine ⟨hu, ?_, hs⟩
  rw [hu] at hsub
  exact List.eq_nil_of_sublist_nil hsub

/-- after an overrun the source is the empty buffer -/
theorem overran_src (p : Prog) : ∀ (src : Src) (ts : TS), (p.run src ts).overran = true → (p.run src ts).src = .buf [] := by
  induction p with
  | ret v => intro src ts h; simp [Prog.run, Out.ofRes] at h
  | throw e => intro src ts h; simp [Prog.run, Out.ofRes] at h
  | draw n k ih =>
    intro src ts h
    simp only [Prog.run] at h ⊢
    cases hn : src.next n with
    | none =>
      simp only [hn]
      cases src with
      | buf ws =>
        cases ws with
        | nil => rfl
        | cons w ws => simp [Src.next] at hn
      | rng x => simp only [Src.next] at hn; split at hn <;> simp at hn
    | some r =>
      simp only [hn] at h ⊢
      simp only [after_overran, Bool.false_or] at h
      simp only [after_srcproj]
      exact ih _ _ _ h
  | group l s b d k ihb ihk =>
    intro src ts h
    simp only [Prog.run] at h ⊢
    cases hb : (b.run src ts).res with
    | error e => simp only [hb] at h ⊢; exact ihb src ts h
    | ok v =>
      simp only [hb] at h ⊢
      split at h
      · rename_i hc; simp only [hc, if_true]; exact ihb src ts h
      · rename_i hc
        simp only [hc, if_false, Bool.false_eq_true, after_srcproj]
        simp only [after_overran, Bool.or_eq_true] at h
        rcases h with h | h
        · have := ihb src ts h
          rw [this]; exact (run_empty _ _).2.2
        · exact ihk _ _ _ h
  | catchInv b k ihb ihk =>
    intro src ts h
    simp only [Prog.run] at h ⊢
    cases hb : (b.run src ts).res with
    | ok v =>
      simp only [hb] at h ⊢
      simp only [after_srcproj]
      simp only [after_overran, Bool.or_eq_true] at h
      rcases h with h | h
      · have := ihb src ts h
        rw [this]; exact (run_empty _ _).2.2
      · exact ihk _ _ _ _ h
    | error e =>
      cases e with
      | invalid m =>
        simp only [hb] at h ⊢
        simp only [after_srcproj]
        simp only [after_overran, Bool.or_eq_true] at h
        rcases h with h | h
        · have := ihb src ts h
          rw [this]; exact (run_empty _ _).2.2
        · exact ihk _ _ _ _ h
      | stop m s => simp only [hb] at h ⊢; exact ihb src ts h
      | panic m s => simp only [hb] at h ⊢; exact ihb src ts h
      | fuel => simp only [hb] at h ⊢; exact ihb src ts h
  | errorf m k ih =>
    intro src ts h
    simp only [Prog.run, after_overran, Bool.false_or, after_srcproj] at h ⊢
    exact ih _ _ h
  | failOnError site k ih =>
    intro src ts h
    simp only [Prog.run] at h ⊢
    cases hf : ts.failed with
    | some m => simp [hf, Out.ofRes] at h
    | none => simp only [hf] at h ⊢; exact ih _ _ h
  | tick k ih => intro src ts h; simp only [Prog.run] at h ⊢; exact ih _ _ h
  | cleanup c k ih => intro src ts h; simp only [Prog.run] at h ⊢; exact ih _ _ h
  | ctx k ih =>
    intro src ts h
    simp only [Prog.run] at h ⊢
    cases hc : ts.ctx with
    | some id =>
      simp only [hc, after_overran, Bool.false_or, after_srcproj] at h ⊢
      exact ih _ _ h
    | none =>
      simp only [hc, after_overran, Bool.false_or, after_srcproj] at h ⊢
      exact ih _ _ h
  | inner b k ihb ihk =>
    intro src ts h
    simp only [Prog.run] at h ⊢
    cases hce : (cleanupPhase (b.run src TS.fresh).ts).err with
    | some e => simp only [hce] at h ⊢; exact ihb _ _ h
    | none =>
      simp only [hce] at h ⊢
      cases hb : (b.run src TS.fresh).res with
      | error e => simp only [hb] at h ⊢; exact ihb _ _ h
      | ok v =>
        simp only [hb] at h ⊢
        simp only [after_srcproj]
        simp only [after_overran, Bool.or_eq_true] at h
        rcases h with h | h
        · have := ihb _ _ h
          rw [this]; exact (run_empty _ _).2.2
        · exact ihk _ _ _ h
  | emit id k ih =>
    intro src ts h
    simp only [Prog.run, after_overran, Bool.false_or, after_srcproj] at h ⊢
    exact ih _ _ h

/-- the pruned recording is a sub-sequence of the recording, for every source -/
theorem kept_sublist (p : Prog) : ∀ (src : Src) (ts : TS), (p.run src ts).kept.Sublist (p.run src ts).used := by
  induction p with
  | ret v => intro src ts; exact List.Sublist.refl _
  | throw e => intro src ts; exact List.Sublist.refl _
  | draw n k ih =>
    intro src ts
    simp only [Prog.run]
    cases src.next n with
    | none => exact List.Sublist.refl _
    | some r => simp only [after_kept, after_used]; exact List.Sublist.append (List.Sublist.refl _) (ih _ _ _)
  | group l s b d k ihb ihk =>
    intro src ts
    simp only [Prog.run]
    cases (b.run src ts).res with
    | error e => exact ihb src ts
    | ok v =>
      simp only []
      split
      · exact ihb src ts
      · simp only [after_kept, after_used]
        refine List.Sublist.append ?_ (ihk _ _ _)
        split
        · exact List.nil_sublist _
        · exact ihb src ts
  | catchInv b k ihb ihk =>
    intro src ts
    simp only [Prog.run]
    cases (b.run src ts).res with
    | ok v => simp only [after_kept, after_used]; exact List.Sublist.append (ihb src ts) (ihk _ _ _ _)
    | error e =>
      cases e with
      | invalid m => simp only [after_kept, after_used]; exact List.Sublist.append (ihb src ts) (ihk _ _ _ _)
      | stop m s => exact ihb src ts
      | panic m s => exact ihb src ts
      | fuel => exact ihb src ts
  | errorf m k ih => intro src ts; simp only [Prog.run, after_kept, after_used, List.nil_append]; exact ih _ _
  | failOnError site k ih =>
    intro src ts
    simp only [Prog.run]
    cases ts.failed with
    | some m => exact List.Sublist.refl _
    | none => exact ih _ _
  | tick k ih => intro src ts; simp only [Prog.run]; exact ih _ _
  | cleanup c k ih => intro src ts; simp only [Prog.run]; exact ih _ _
  | ctx k ih =>
    intro src ts
    simp only [Prog.run]
    cases ts.ctx with
    | some id => simp only [after_kept, after_used, List.nil_append]; exact ih _ _
    | none => simp only [after_kept, after_used, List.nil_append]; exact ih _ _
  | inner b k ihb ihk =>
    intro src ts
    simp only [Prog.run]
    cases (cleanupPhase (b.run src TS.fresh).ts).err with
    | some e => exact ihb _ _
    | none =>
      simp only []
      cases (b.run src TS.fresh).res with
      | error e => exact ihb _ _
      | ok v => simp only [after_kept, after_used]; exact List.Sublist.append (ihb _ _) (ihk _ _ _)
  | emit id k ih => intro src ts; simp only [Prog.run, after_kept, after_used, List.nil_append]; exact ih _ _

end Rapid
