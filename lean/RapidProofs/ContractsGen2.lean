/-
  RapidProofs.ContractsGen2 — further contracts of the collection generators, for every bit source:
  `StringOfN` respects the byte-length limit and is made of valid runes only; the keys of `MapOfN`
  are pairwise distinct; `Permutation` returns a permutation of its input.
-/
import RapidProofs.ContractsGen

namespace Rapid

/-- run a generator program that was built as `repeatLoop c step .ret fuel {} init` and use an
    invariant of the accumulator -/
theorem repeat_inv (c : RCfg) (hmm : c.minC ≤ c.maxC) (step : Val → Prog) (hshape : StepShape step)
    (m : Val → Nat) (I : Val → Prop)
    (hstep : ∀ acc src ts a, I acc → ((step acc).run src ts).res = .ok (rAcc a) → m a = m acc + 1 ∧ I a)
    (fuel : Nat) (init : Val) (hm0 : m init = 0) (hI0 : I init) (k : Val → Prog) (hk : ∀ a, ∃ v, k a = .ret v)
    (src : Src) (ts : TS) (v : Val)
    (h : ((repeatLoop c step k fuel {} init).run src ts).res = .ok v) :
    ∃ a, I a ∧ c.minC ≤ m a ∧ m a ≤ c.maxC ∧ k a = .ret v := by
  rcases reaches_repeatLoop_inv c hmm step hshape m I hstep fuel {} init (Nat.zero_le _) hm0 hI0 k src ts with
    ⟨a, ha, s', t', u, kk, tk, ev, ov, hrun⟩ | ⟨e, he⟩
  · rw [hrun] at h
    obtain ⟨w, hw⟩ := hk a
    rw [hw] at h
    simp only [after_res, Prog.run, Out.ofRes, Except.ok.injEq] at h
    exact ⟨a, ha.2.2, ha.1, ha.2.1, by rw [hw, h]⟩
  · rw [he] at h; cases h

/-! ### strings: byte length and valid runes -/

/-- every element is a rune with a UTF-8 encoding (no surrogate, not out of range) -/
def Val.allRunes : Val → Prop
  | .cons (.int r) t => (runeLen r).isSome = true ∧ Val.allRunes t
  | .cons _ _ => False
  | _ => True

theorem Val.byteLen_snoc_int : ∀ (a : Val) (r : Int), (a.snoc (.int r)).byteLen = a.byteLen + (runeLen r).getD 0
  | .cons (.int q) t, r => by simp [Val.snoc, Val.byteLen, Val.byteLen_snoc_int t r, Nat.add_assoc]
  | .cons (.bool _) t, r => by simp [Val.snoc, Val.byteLen, Val.byteLen_snoc_int t r]
  | .cons .nil t, r => by simp [Val.snoc, Val.byteLen, Val.byteLen_snoc_int t r]
  | .cons (.cons _ _) t, r => by simp [Val.snoc, Val.byteLen, Val.byteLen_snoc_int t r]
  | .int _, _ => by simp [Val.snoc, Val.byteLen]
  | .bool _, _ => by simp [Val.snoc, Val.byteLen]
  | .nil, _ => by simp [Val.snoc, Val.byteLen]

theorem Val.allRunes_snoc : ∀ (a : Val) (r : Int), Val.allRunes a → (runeLen r).isSome = true → Val.allRunes (a.snoc (.int r))
  | .cons (.int q) t, r, h, hr => by
    simp only [Val.snoc, Val.allRunes] at h ⊢
    exact ⟨h.1, Val.allRunes_snoc t r h.2 hr⟩
  | .cons (.bool _) t, r, h, _ => by simp [Val.allRunes] at h
  | .cons .nil t, r, h, _ => by simp [Val.allRunes] at h
  | .cons (.cons _ _) t, r, h, _ => by simp [Val.allRunes] at h
  | .int _, _, _, hr => by simp [Val.snoc, Val.allRunes, hr]
  | .bool _, _, _, hr => by simp [Val.snoc, Val.allRunes, hr]
  | .nil, _, _, hr => by simp [Val.snoc, Val.allRunes, hr]

/-- **`StringOfN(elem, minRunes, maxRunes, maxLen)`**: at most `maxLen` bytes, and every rune has a
    UTF-8 encoding (the string is valid UTF-8), whatever the element generator yields -/
theorem stringOf_bytes_and_runes (e : Env) (lab : Bool) (elem : Gen) (lo hi ml : Int) (hmm : normMin lo ≤ normMax hi)
    (src : Src) (ts : TS) (v : Val) (h : (((Gen.stringOf elem lo hi ml).body e lab).run src ts).res = .ok v) :
    v.byteLen ≤ normMax ml ∧ v.allRunes := by
  let el := wrapValue elem.label (elem.body e true)
  let g : Val → Val → Val := fun acc v => match v with
    | .int r => match runeLen r with
      | some n => if acc.byteLen + n > normMax ml then rRej else rAcc (acc.snoc v)
      | none => rRej
    | _ => rRej
  have hg : ∀ acc w, g acc w = rRej ∨ ∃ a, g acc w = rAcc a := by
    intro acc w
    simp only [g]
    split
    · split
      · split
        · exact Or.inl rfl
        · exact Or.inr ⟨_, rfl⟩
      · exact Or.inl rfl
    · exact Or.inl rfl
  have hshape : StepShape (fun acc => el >>- fun w => .ret (g acc w)) := stepShape_bind_ret el g hg
  have hstep : ∀ acc src ts a, (acc.byteLen ≤ normMax ml ∧ acc.allRunes) →
      (((fun acc => el >>- fun w => .ret (g acc w)) acc).run src ts).res = .ok (rAcc a) →
      a.length = acc.length + 1 ∧ (a.byteLen ≤ normMax ml ∧ a.allRunes) := by
    intro acc src ts a hI hr
    obtain ⟨w, hw⟩ := bind_ret_res el (g acc) src ts _ hr
    simp only [g] at hw
    cases w with
    | int r =>
      simp only [] at hw
      cases hrl : runeLen r with
      | none => simp [hrl, rRej, rAcc] at hw
      | some n =>
        simp only [hrl] at hw
        by_cases hb : acc.byteLen + n > normMax ml
        · simp [hb, rRej, rAcc] at hw
        · simp only [hb, if_false, rAcc, Val.cons.injEq, true_and] at hw
          rw [← hw]
          refine ⟨Val.length_snoc acc _, ?_, Val.allRunes_snoc acc r hI.2 (by simp [hrl])⟩
          rw [Val.byteLen_snoc_int, hrl]; simp; omega
    | bool b => simp [rRej, rAcc] at hw
    | nil => simp [rRej, rAcc] at hw
    | cons x y => simp [rRej, rAcc] at hw
  obtain ⟨a, hI, _, _, hk⟩ := repeat_inv ⟨normMin lo, normMax hi, e.rt.rep (normMin lo) (normMax hi), elem.label⟩ hmm _ hshape
    Val.length (fun a => a.byteLen ≤ normMax ml ∧ a.allRunes) hstep e.fuel .nil rfl ⟨Nat.zero_le _, trivial⟩ .ret
    (fun a => ⟨a, rfl⟩) src ts v h
  simp only [Prog.ret.injEq] at hk
  rw [← hk]; exact hI

/-! ### maps: distinct keys -/

def entryKey : Val → Val
  | .cons k' _ => k'
  | x => x

theorem bind2_ret_res (kEl vEl : Prog) (g : Val → Val → Val) (src : Src) (ts : TS) (r : Val)
    (h : ((kEl >>- fun k => vEl >>- fun v => .ret (g k v)).run src ts).res = .ok r) : ∃ k v, g k v = r := by
  simp only [run_bind, Out.andThen] at h
  cases hk : (kEl.run src ts).res with
  | error e => simp [hk] at h
  | ok k =>
    simp only [hk, after_res] at h
    cases hv : (vEl.run (kEl.run src ts).src (kEl.run src ts).ts).res with
    | error e => simp [hv] at h
    | ok v =>
      simp only [hv, after_res, Prog.run, Out.ofRes, Except.ok.injEq] at h
      exact ⟨k, v, h⟩

/-- **`MapOfN(keys, values, minLen, maxLen)`**: the keys of the entries are pairwise distinct and
    the number of entries is within the bounds -/
theorem mapOf_keys_distinct (e : Env) (lab : Bool) (kg vg : Gen) (lo hi : Int) (hmm : normMin lo ≤ normMax hi)
    (src : Src) (ts : TS) (v : Val) (h : (((Gen.mapOf kg vg lo hi).body e lab).run src ts).res = .ok v) :
    Val.distinctBy entryKey v ∧ normMin lo ≤ v.length ∧ v.length ≤ normMax hi := by
  let kEl := wrapValue kg.label (kg.body e true)
  let vEl := wrapValue vg.label (vg.body e true)
  let g : Val → Val → Val → Val := fun acc k w =>
    if acc.hasKey (fun kv => match kv with | .cons k' _ => k' | x => x) k then rRej else rAcc (acc.snoc (.cons k w))
  have hkeyfn : (fun kv : Val => match kv with | .cons k' _ => k' | x => x) = entryKey := by
    funext kv; cases kv <;> rfl
  have hshape : StepShape (fun acc => kEl >>- fun k => vEl >>- fun w => .ret (g acc k w)) := by
    intro acc src ts r hr
    obtain ⟨k, w, hw⟩ := bind2_ret_res kEl vEl (g acc) src ts r hr
    simp only [g] at hw
    rw [← hw]
    split
    · exact Or.inl rfl
    · exact Or.inr ⟨_, rfl⟩
  have hstep : ∀ acc src ts a, Val.distinctBy entryKey acc →
      (((fun acc => kEl >>- fun k => vEl >>- fun w => .ret (g acc k w)) acc).run src ts).res = .ok (rAcc a) →
      a.length = acc.length + 1 ∧ Val.distinctBy entryKey a := by
    intro acc src ts a hI hr
    obtain ⟨k, w, hw⟩ := bind2_ret_res kEl vEl (g acc) src ts _ hr
    simp only [g, hkeyfn] at hw
    by_cases hk : acc.hasKey entryKey k = true
    · simp [hk, rRej, rAcc] at hw
    · simp only [hk, Bool.false_eq_true, if_false, rAcc, Val.cons.injEq, true_and] at hw
      rw [← hw]
      exact ⟨Val.length_snoc acc _, Val.distinctBy_snoc entryKey acc (.cons k w) hI (by simpa [entryKey] using hk)⟩
  obtain ⟨a, hI, h1, h2, hk⟩ := repeat_inv ⟨normMin lo, normMax hi, e.rt.rep (normMin lo) (normMax hi), (kg.label ++ "," ++ vg.label)⟩
    hmm _ hshape Val.length (Val.distinctBy entryKey) hstep e.fuel .nil rfl trivial .ret (fun a => ⟨a, rfl⟩) src ts v h
  simp only [Prog.ret.injEq] at hk
  rw [← hk]; exact ⟨hI, h1, h2⟩

/-! ### permutations -/

theorem swapAt_perm (l : List Val) (i j : Nat) (hi : i < l.length) (hj : j < l.length) : (swapAt l i j).Perm l := by
  rw [List.perm_iff_count]
  intro x
  simp only [swapAt]
  have hgi : l.getD i .nil = l[i] := by simp [List.getD, hi]
  have hgj : l.getD j .nil = l[j] := by simp [List.getD, hj]
  rw [hgi, hgj]
  have hj' : j < (l.set i l[j]).length := by simpa using hj
  rw [List.count_set hj', List.count_set hi]
  have e1 : (l.set i l[j])[j] = l[j] := by
    rw [List.getElem_set]; split
    · rfl
    · rfl
  rw [e1]
  have h1 : (if l[i] == x then 1 else 0) ≤ l.count x := by
    split
    · rename_i h
      have hm : x ∈ l := by rw [← (beq_iff_eq.mp h)]; exact List.getElem_mem hi
      have := List.count_pos_iff.mpr hm; omega
    · exact Nat.zero_le _
  generalize (if l[i] == x then 1 else 0) = cI at h1 ⊢
  generalize (if l[j] == x then 1 else 0) = cJ
  omega

theorem Val.toList_ofList : ∀ l : List Val, (Val.ofList l).toList = l
  | [] => rfl
  | x :: xs => by simp [Val.ofList, Val.toList, Val.toList_ofList xs]

/-- the accumulator of `Permutation`'s loop: position and the slice so far -/
def permAcc (init : List Val) (acc : Val) : Prop :=
  ∃ (i : Nat) (sl : Val), acc = .cons (.int i) sl ∧ sl.toList.Perm init ∧ i < 2 ^ 64

def permCount : Val → Nat
  | .cons (.int i) _ => i.toNat
  | _ => 0

/-- **`Permutation(slice)`**: the value is a permutation of the input (the model's input is
    `0, 1, …, n-1`; the real generator applies the same swaps to a copy of the user's slice) -/
theorem perm_is_permutation (e : Env) (lab : Bool) (n : Nat) (hn : n ≤ 2 ^ 63) (src : Src) (ts : TS) (v : Val)
    (h : (((Gen.perm n).body e lab).run src ts).res = .ok v) :
    v.toList.Perm ((List.range n).map fun (i : Nat) => Val.int (Int.ofNat i)) := by
  let init : List Val := (List.range n).map fun (i : Nat) => Val.int (Int.ofNat i)
  have hlen : init.length = n := by simp [init]
  let step : Val → Prog := fun acc =>
    match acc with
    | .cons (.int i) sl =>
      uintRange e.ft (UInt64.ofNat i.toNat) (UInt64.ofNat (n - 1)) false e.fuel fun j _ _ =>
        .ret (rAcc (.cons (.int (i + 1)) (Val.ofList (swapAt sl.toList i.toNat j.toNat))))
    | _ => .ret (rAcc acc)
  let fin : Val → Prog := fun acc => match acc with | .cons _ sl => .ret sl | _ => .ret .nil
  -- what a step hands on when it succeeds from an accumulator of the right shape
  have hstepres : ∀ (i : Nat) (hil : i < 2 ^ 64) (sl : Val) (src : Src) (ts : TS) (r : Val),
      ((step (.cons (.int i) sl)).run src ts).res = .ok r →
      ∃ j : UInt64, i ≤ j.toNat ∧ j.toNat ≤ n - 1 ∧ i ≤ n - 1 ∧
        r = rAcc (.cons (.int ((i : Int) + 1)) (Val.ofList (swapAt sl.toList i j.toNat))) := by
    intro i hil sl src ts r hr
    simp only [step, Int.toNat_natCast] at hr
    have hi1 : (UInt64.ofNat i).toNat = i := by
      simp only [UInt64.toNat_ofNat']; exact Nat.mod_eq_of_lt hil
    have hn1 : (UInt64.ofNat (n - 1)).toNat = n - 1 := by
      simp only [UInt64.toNat_ofNat']; apply Nat.mod_eq_of_lt; omega
    by_cases hmm : UInt64.ofNat i ≤ UInt64.ofNat (n - 1)
    · rcases yields_uintRange e.ft _ _ false e.fuel hmm
          (fun x => Prog.ret (rAcc (.cons (.int ((i : Int) + 1)) (Val.ofList (swapAt sl.toList i x.1.toNat))))) src ts with
        ⟨a, ⟨ha1, ha2⟩, s', u, kk, tk, ov, _, hrun⟩ | ⟨er, he, _⟩
      · have hrun' := hrun; dsimp only at hrun'
        rw [hrun'] at hr
        simp only [after_res, Prog.run, Out.ofRes, Except.ok.injEq] at hr
        have h1 := UInt64.le_iff_toNat_le.mp ha1
        have h2 := UInt64.le_iff_toNat_le.mp ha2
        have h3 := UInt64.le_iff_toNat_le.mp hmm
        rw [hn1] at h2 h3
        rw [hi1] at h1 h3
        exact ⟨a.1, h1, h2, h3, hr.symm⟩
      · have he' := he; dsimp only at he'
        rw [he'] at hr; cases hr
    · have hgt : UInt64.ofNat i > UInt64.ofNat (n - 1) := by
        rw [gt_iff_lt, UInt64.lt_iff_toNat_lt]; rw [UInt64.le_iff_toNat_le] at hmm; omega
      simp [uintRange, hgt, Prog.run, Out.ofRes] at hr
  have hshape : StepShape step := by
    intro acc src ts r hr
    simp only [step] at hr
    split at hr
    · rename_i i sl
      rcases yields_uintRange_any e.ft (UInt64.ofNat i.toNat) (UInt64.ofNat (n - 1)) false e.fuel
          (fun x => Prog.ret (rAcc (.cons (.int (i + 1)) (Val.ofList (swapAt sl.toList i.toNat x.1.toNat))))) src ts with
        ⟨a, s', u, kk, tk, ov, hrun⟩ | ⟨er, he⟩
      · have hrun' := hrun; dsimp only at hrun'
        rw [hrun'] at hr
        simp only [after_res, Prog.run, Out.ofRes, Except.ok.injEq] at hr
        exact Or.inr ⟨_, hr.symm⟩
      · have he' := he; dsimp only at he'
        rw [he'] at hr; cases hr
    · simp only [Prog.run, Out.ofRes, Except.ok.injEq] at hr
      exact Or.inr ⟨_, hr.symm⟩
  have hstep : ∀ acc src ts a, permAcc init acc → ((step acc).run src ts).res = .ok (rAcc a) →
      permCount a = permCount acc + 1 ∧ permAcc init a := by
    rintro acc src ts a ⟨i, sl, rfl, hperm, hil⟩ hr
    obtain ⟨j, hj1, hj2, hi2, hra⟩ := hstepres i hil sl src ts _ hr
    simp only [rAcc, Val.cons.injEq, true_and] at hra
    subst hra
    have hsl : sl.toList.length = n := by rw [hperm.length_eq, hlen]
    refine ⟨by simp [permCount], i + 1, Val.ofList (swapAt sl.toList i j.toNat), by simp, ?_, by omega⟩
    rw [Val.toList_ofList]
    by_cases hn0 : n = 0
    · have : sl.toList = [] := List.eq_nil_of_length_eq_zero (by omega)
      rw [this] at hperm ⊢
      simpa [swapAt] using hperm
    · exact (swapAt_perm sl.toList i j.toNat (by omega) (by omega)).trans hperm
  have hbody : (Gen.perm n).body e lab = repeatLoop ⟨0, n - 1, e.rt.perm, "permute"⟩ step fin e.fuel {}
      (.cons (.int 0) (Val.ofList init)) := rfl
  rw [hbody] at h
  obtain ⟨a, ⟨i, sl, rfl, hperm, _⟩, _, _, hk⟩ := repeat_inv ⟨0, n - 1, e.rt.perm, "permute"⟩ (Nat.zero_le _) step hshape
    permCount (permAcc init) hstep e.fuel (.cons (.int 0) (Val.ofList init)) rfl
    ⟨0, _, rfl, by rw [Val.toList_ofList], by decide⟩ fin
    (fun a => by cases a <;> exact ⟨_, rfl⟩) src ts v h
  simp only [fin, Prog.ret.injEq] at hk
  rw [← hk]; exact hperm

end Rapid
