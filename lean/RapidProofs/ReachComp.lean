/-
  RapidProofs.ReachComp — reachability, compositionally: `ReachesVal p a` says that some words make the
  primitive `p` hand on exactly `a` (whatever follows in the buffer, whatever the continuation and
  the `*T`).  Rules for sequencing, groups and the primitives of utils.go; used for signed integer
  ranges and floats (RapidProofs/ReachFloat.lean).
-/
import RapidProofs.Reach

namespace Rapid

/-- some words `ws` make `p` continue with `a` -/
def ReachesVal {α : Type} (p : (α → Prog) → Prog) (a : α) : Prop :=
  ∃ ws : List UInt64, ∀ (k : α → Prog) (rest : List UInt64) (ts : TS),
    ∃ used kept toks, used ≠ [] ∧
      (p k).run (.buf (ws ++ rest)) ts = ((k a).run (.buf rest) ts).after used kept toks [] false

theorem ReachesVal.bind {α β : Type} {p : (α → Prog) → Prog} {a : α} {q : α → (β → Prog) → Prog} {b : β}
    (hp : ReachesVal p a) (hq : ReachesVal (q a) b) : ReachesVal (fun k => p (fun x => q x k)) b := by
  obtain ⟨ws1, h1⟩ := hp
  obtain ⟨ws2, h2⟩ := hq
  refine ⟨ws1 ++ ws2, fun k rest ts => ?_⟩
  obtain ⟨u1, k1, t1, hne1, e1⟩ := h1 (fun x => q x k) (ws2 ++ rest) ts
  obtain ⟨u2, k2, t2, _, e2⟩ := h2 k rest ts
  refine ⟨u1 ++ u2, k1 ++ k2, t1 ++ t2, by simp [hne1], ?_⟩
  have e1' := e1
  rw [List.append_assoc, e1', e2, after_after0]
  rfl

theorem ReachesVal.map {α β : Type} {p : (α → Prog) → Prog} {a : α} (hp : ReachesVal p a) (f : α → β) :
    ReachesVal (fun k => p (fun x => k (f x))) (f a) := by
  obtain ⟨ws, h⟩ := hp
  exact ⟨ws, fun k rest ts => h (fun x => k (f x)) rest ts⟩

theorem ReachesVal.group {α : Type} {p : (α → Prog) → Prog} {a : α} (hp : ReachesVal p a) (l : String) (s : Bool) (enc : α → Val) :
    ReachesVal (fun k => Prog.group l s (p fun x => .ret (enc x)) (fun _ => false) (fun v => k v)) (enc a) := by
  obtain ⟨ws, h⟩ := hp
  refine ⟨ws, fun k rest ts => ?_⟩
  obtain ⟨u1, k1, t1, hne, e1⟩ := h (fun x => .ret (enc x)) rest ts
  refine ⟨u1, k1, .opn l s :: t1 ++ [.cls false], hne, ?_⟩
  have e1' := e1
  simp only [Prog.run, e1']
  cases u1 with
  | nil => exact absurd rfl hne
  | cons x xs => simp [Out.after, Out.ofRes]

/-! ### the primitives -/

theorem mask53_of_lt {w : UInt64} (hw : w < thrNever) : mask 53 w = w :=
  mask_of_lt 53 w (by
    rw [UInt64.lt_iff_toNat_lt] at hw
    have : thrNever.toNat = 2 ^ 53 := rfl
    omega)

/-- the coin: any 53-bit word on the right side of the threshold -/
theorem coin_reaches (thr w : UInt64) (hw : w < thrNever) : ReachesVal (coin thr) (decide (thr ≤ w)) := by
  refine ⟨[w], fun k rest ts => ?_⟩
  have hv : (Val.bool (decide (thr ≤ w)) == vTrue) = decide (thr ≤ w) := by
    cases decide (thr ≤ w) <;> rfl
  simp only [coin, run_draw_group, List.singleton_append, next_buf, mask53_of_lt hw, Bool.false_eq_true, if_false, hv]
  refine ⟨_, _, _, ?_, rfl⟩
  simp

theorem coin_reaches_false (thr : UInt64) (h : 0 < thr) : ReachesVal (coin thr) false := by
  have := coin_reaches thr 0 (by decide)
  have hd : decide (thr ≤ 0) = false := by
    rw [decide_eq_false_iff_not, UInt64.le_iff_toNat_le]; rw [UInt64.lt_iff_toNat_lt] at h; simp at h ⊢; omega
  rwa [hd] at this

theorem coin_reaches_true (thr : UInt64) (h : thr < thrNever) : ReachesVal (coin thr) true := by
  have := coin_reaches thr thr h
  have hd : decide (thr ≤ thr) = true := by simp [UInt64.le_refl]
  rwa [hd] at this

/-- `genUintNNoReject(max)` hands on any `r ≤ max` -/
theorem uintNoReject_reaches (max r : UInt64) (hr : r ≤ max) : ReachesVal (uintNoReject max) r := by
  refine ⟨[r], fun k rest ts => ?_⟩
  have hm : mask (len64 max) r = r :=
    mask_of_lt _ r (Nat.lt_of_lt_of_le (lt_two_pow_len64 r) (Nat.pow_le_pow_right (by omega) (len64_mono hr)))
  simp only [uintNoReject, run_draw_group, List.singleton_append, next_buf, hm, vu_uv, Bool.false_eq_true, if_false]
  have hng : ¬ r > max := by rw [gt_iff_lt, UInt64.lt_iff_toNat_lt]; rw [UInt64.le_iff_toNat_le] at hr; omega
  simp only [hng, if_false]
  refine ⟨_, _, _, ?_, rfl⟩
  simp

/-- unbiased `genUintN(max)` hands on any `u ≤ max` (first try), flags false -/
theorem uintUnbiased_reaches (ft : FT) (max u : UInt64) (hu : u ≤ max) (fuel : Nat) :
    ReachesVal (fun (k : UInt64 × Bool × Bool → Prog) => uintN ft max false (fuel + 1) (fun x l r => k (x, l, r))) (u, false, false) := by
  refine ⟨[u], fun k rest ts => ?_⟩
  have hm : mask (len64 max) u = u :=
    mask_of_lt _ u (Nat.lt_of_lt_of_le (lt_two_pow_len64 u) (Nat.pow_le_pow_right (by omega) (len64_mono hu)))
  have hng : ¬ u > max := by rw [gt_iff_lt, UInt64.lt_iff_toNat_lt]; rw [UInt64.le_iff_toNat_le] at hu; omega
  simp only [uintN, Bool.false_eq_true, if_false, uintUnbiased, run_draw_group, List.singleton_append, next_buf, hm, vu_uv,
    hu, if_true, hng, decide_false]
  refine ⟨_, _, _, ?_, rfl⟩
  simp

/-- unbiased `genUintRange(min, max)` hands on any `v` of the range -/
theorem uintRangeUnbiased_reaches (ft : FT) (min max v : UInt64) (h1 : min ≤ v) (h2 : v ≤ max) (fuel : Nat) :
    ReachesVal (fun (k : UInt64 × Bool × Bool → Prog) => uintRange ft min max false (fuel + 1) (fun x l r => k (x, l, r)))
      (v, false, false) := by
  have hmm : min ≤ max := by rw [UInt64.le_iff_toNat_le] at h1 h2 ⊢; omega
  have hng : ¬ min > max := by rw [gt_iff_lt, UInt64.lt_iff_toNat_lt]; rw [UInt64.le_iff_toNat_le] at hmm; omega
  have hsub : v - min ≤ max - min := by
    rw [UInt64.le_iff_toNat_le, UInt64.toNat_sub_of_le _ _ h1, UInt64.toNat_sub_of_le _ _ hmm]
    rw [UInt64.le_iff_toNat_le] at h1 h2; omega
  have hadd : min + (v - min) = v := by
    apply UInt64.toNat_inj.mp
    rw [UInt64.toNat_add, UInt64.toNat_sub_of_le _ _ h1]
    rw [UInt64.le_iff_toNat_le] at h1
    have := v.toNat_lt
    rw [Nat.mod_eq_of_lt (by omega)]; omega
  have h := (uintUnbiased_reaches ft (max - min) (v - min) hsub fuel).map
    (fun (x : UInt64 × Bool × Bool) => (min + x.1, x.2.1, x.2.2))
  simp only [hadd] at h
  obtain ⟨ws, hw⟩ := h
  refine ⟨ws, fun k rest ts => ?_⟩
  simp only [uintRange, hng, if_false]
  exact hw k rest ts

/-- biased `genUintN(max)`: with a bias word whose geometric draw `n` exceeds the bit length of
    `max` (and is below the overflow threshold) every `u ≤ max` is handed on with both flags false -/
theorem uintBiased_reaches_noflags (ft : FT) (max u w : UInt64) (n : Nat) (hu : u ≤ max) (hw : w < thrNever)
    (hg : geomN (ft.geom (len64 max)) w = n) (hn1 : len64 max + 2 ≤ n) (hn2 : n < overflowAt (len64 max)) (fuel : Nat) :
    ReachesVal (fun (k : UInt64 × Bool × Bool → Prog) => uintN ft max true (fuel + 1) (fun x l r => k (x, l, r))) (u, false, false) := by
  refine ⟨[w, u], fun k rest ts => ?_⟩
  have hw53 : mask 53 w = w := mask53_of_lt hw
  have hub := lt_two_pow_len64 u
  have hlen := len64_mono hu
  have hbl : biasedBitlen (len64 max) n = len64 max := by
    simp only [biasedBitlen]
    have h1 : ¬ n < len64 max := by omega
    have h2 : ¬ (n > len64 max ∧ n ≥ overflowAt (len64 max)) := by omega
    simp [h1, h2]
  have h64 := len64_le_64 max
  have hm : mask (len64 max) u = u :=
    mask_of_lt _ u (Nat.lt_of_lt_of_le hub (Nat.pow_le_pow_right (by omega) hlen))
  have hb64 : ¬ len64 max > 64 := by omega
  have hn1' : ¬ n = 1 := by omega
  have hge : ¬ len64 max ≥ n := by omega
  simp only [uintN, if_true, uintBiased, run_draw_group, List.cons_append, List.nil_append, next_buf, hw53, hg, hbl,
    Int.toNat_natCast, uintBiasedLoop, hm, vu_uv, hb64, Bool.false_eq_true, if_false, hu, after_after0, decide_false,
    Bool.or_false, Bool.not_true]
  have hb1 : (n == 1) = false := beq_eq_false_iff_ne.mpr hn1'
  simp only [hge, decide_false, Bool.and_false, hb1]
  refine ⟨_, _, _, ?_, rfl⟩
  simp

end Rapid
